(* Witnesses for the desugaring theorems (Comp/DesugarFacts.v), computed by vm_compute on one sheet with
   a nested loop with an index variable, an inner loop whose variables shadow a context entry (cx)
   and the outer loop variable (x), an excluded inner block full of undefined names, an excluded
   row, and a loop over nothing:

   ctx  cx = "CXVAL", off = " False ", l0 = []
    0  first | send_message | hi {{cx}}
    1  L{{cx}} | begin_for x;i in a;b
    2    M{{x}} | begin_for cx;x in p;q
    3      send_message | {{i}}:{{cx}}{{x}}
    4    end_for
    5    send_message | {{x}}{{i}} {{cx}}
    6    {{ghost}} | begin_block | include_if FALSE
    7      send_message | {{ghost}}
    8      begin_for (no loop variable) in {@ ghost @}
    9      end_for
   10    end_block
   11    send_message | {{ghost}} | include_if {{off}}
   12    send_message | only-{{x}} | include_if {{ x == "a" }}        (present in the first copy only)
   13    send_message | {{ghost}} | include_if {{ i == "0" }}         (never: the index is an int, "0" a str)
   14  end_for
   15  E | begin_for y in {@ l0 @}
   16    send_message | {{ghost}}
   17  end_for
   18  send_message | tail {{cx}}

   and the sheets/policies under which the statements fail (the code before the repairs). *)
From Coq Require Import List NArith Bool Arith Lia String Ascii.
From RPFT Require Import Base.Sexp Base.PyStr Gen.Tables Comp.Blocks Comp.BlocksFacts Comp.Desugar Comp.DesugarFacts.
Import ListNotations.

(* readable strings in the examples (not part of the model) *)
Definition S_ (s : string) : str := map N_of_ascii (list_ascii_of_string s).

Definition x_plain (inc : incl) (id text : list seg) : raw := mkRaw KPlain inc id text [] (ILit []).
Definition x_end (k : rkind) : raw := mkRaw k IncTrue [] [] [] (ILit []).

Definition ex_ctx : ctx := [(S_ "cx", VS (S_ "CXVAL")); (S_ "off", VS (S_ " False ")); (S_ "l0", VL [])].
Definition ex_rows : list raw :=
  [ x_plain IncTrue [Lit (S_ "first")] [Lit (S_ "hi "); Ref (S_ "cx")];
    mkRaw KBeginFor IncTrue [Lit (S_ "L"); Ref (S_ "cx")] [] [S_ "x"; S_ "i"] (ILit [S_ "a"; S_ "b"]);
      mkRaw KBeginFor IncTrue [Lit (S_ "M"); Ref (S_ "x")] [] [S_ "cx"; S_ "x"] (ILit [S_ "p"; S_ "q"]);
        x_plain IncTrue [] [Ref (S_ "i"); Lit (S_ ":"); Ref (S_ "cx"); Ref (S_ "x")];
      x_end KEndFor;
      x_plain IncTrue [] [Ref (S_ "x"); Ref (S_ "i"); Lit (S_ " "); Ref (S_ "cx")];
      mkRaw KBeginBlock IncFalse [Ref (S_ "ghost")] [] [] (ILit []);
        x_plain IncTrue [] [Ref (S_ "ghost")];
        mkRaw KBeginFor IncTrue [] [] [] (IRef (S_ "ghost"));
        x_end KEndFor;
      x_end KEndBlock;
      x_plain (IncRef (S_ "off")) [] [Ref (S_ "ghost")];
      x_plain (IncCmp (S_ "x") true (S_ "a")) [] [Lit (S_ "only-"); Ref (S_ "x")];
      x_plain (IncCmp (S_ "i") true (S_ "0")) [] [Ref (S_ "ghost")];
    x_end KEndFor;
    mkRaw KBeginFor IncTrue [Lit (S_ "E")] [] [S_ "y"] (IRef (S_ "l0"));
      x_plain IncTrue [] [Ref (S_ "ghost")];
    x_end KEndFor;
    x_plain IncTrue [] [Lit (S_ "tail "); Ref (S_ "cx")] ].

Definition l_plain (id text : string) : raw := lit_row KPlain (S_ id) (S_ text).
Definition l_block (id : string) : raw := lit_row KBeginBlock (S_ id) [].

(* its desugaring: every loop a block, the bodies in order, the variables substituted (x is the
   inner index inside M.., the outer element after it; cx is CXVAL again after the inner loop) *)
Definition ex_out : list raw :=
  [ l_plain "first" "hi CXVAL";
    l_block "LCXVAL";
      l_block "Ma"; l_plain "" "0:p0"; l_plain "" "0:q1"; end_row;
      l_plain "" "a0 CXVAL"; l_plain "" "only-a";
      l_block "Mb"; l_plain "" "1:p0"; l_plain "" "1:q1"; end_row;
      l_plain "" "b1 CXVAL";
    end_row;
    l_block "E"; end_row;
    l_plain "" "tail CXVAL" ].

Definition i_row (text : string) : item := IRow [] (S_ text).
Definition ex_shape : list item :=
  [ IRow (S_ "first") (S_ "hi CXVAL");
    IGroup (S_ "LCXVAL")
      [ IGroup (S_ "Ma") [i_row "0:p0"; i_row "0:q1"]; i_row "a0 CXVAL"; i_row "only-a";
        IGroup (S_ "Mb") [i_row "1:p0"; i_row "1:q1"]; i_row "b1 CXVAL" ];
    IGroup (S_ "E") [];
    i_row "tail CXVAL" ].

(* the premise of desugar_equiv holds and its conclusion is this: *)
Example desugar_equiv_nonvacuous :
  exists s s',
    run_sheet Strict ex_rows ex_ctx = ROk s
    /\ desugar Strict ex_ctx ex_rows = ROk ex_out
    /\ run_sheet Strict ex_out [] = ROk s'
    /\ shape (rev (p_log s)) = Some ex_shape
    /\ shape (rev (p_log s')) = Some ex_shape
    /\ p_ctx s = ex_ctx.
Proof.
  destruct (run_sheet Strict ex_rows ex_ctx) as [s|] eqn:E; [|vm_compute in E; discriminate].
  destruct (run_sheet Strict ex_out []) as [s'|] eqn:E'; [|vm_compute in E'; discriminate].
  exists s, s'. vm_compute in E, E'. inversion E; inversion E'; subst. repeat split; vm_compute; reflexivity.
Qed.

(* a failing sheet: the same with row 18 naming an unknown variable *)
Definition ex_bad : list raw := firstn 18 ex_rows ++ [x_plain IncTrue [] [Ref (S_ "ghost")]].
Example desugar_error_iff_nonvacuous :
  run_sheet Strict ex_bad ex_ctx = RErr Undefined /\ desugar Strict ex_ctx ex_bad = RErr Undefined
  /\ run_sheet Strict (firstn 12 ex_rows) ex_ctx = RErr Unterminated
  /\ desugar Strict ex_ctx (firstn 12 ex_rows) = RErr Unterminated.
Proof. repeat split; vm_compute; reflexivity. Qed.

(* ---- excluded content: in the first copy of the outer body (x = a, i = 0) *)
Definition ex_c0 : ctx := bind_loop ex_ctx (S_ "x") (Some (S_ "i")) (S_ "a") 0.
Definition ex_c1 : ctx := bind_loop ex_ctx (S_ "x") (Some (S_ "i")) (S_ "b") 1.
Definition ex_only_a : list raw := [l_plain "" "only-a"].
Definition n_0 := S_ "0".

Example excluded_content_nonvacuous :
  (* row 11: include_if {{off}} is false; its text could not be rendered *)
  (exists r rest, skipn 11 ex_rows = r :: rest
     /\ eval_inc Strict ex_c0 (rw_inc r) = ROk false /\ rw_kind r = KPlain
     /\ render Strict ex_c0 (rw_text r) = RErr Undefined)
  (* row 6: an excluded block; nothing in it could be rendered, its loop has no variable *)
  /\ (exists r rest, skipn 6 ex_rows = r :: rest
     /\ eval_inc Strict ex_c0 (rw_inc r) = ROk false /\ rw_kind r = KBeginBlock
     /\ render Strict ex_c0 (rw_id r) = RErr Undefined
     /\ ds Strict 50 rest ex_c0 BBlock true = ROk ([], skipn 11 ex_rows)
     /\ ds Strict 50 (skipn 6 ex_rows) ex_c0 BFor false = ROk (ex_only_a, skipn 15 ex_rows))
  (* rows 12, 13: comparison cells: x == "a" holds in the first copy only; the index (an int) never equals "0" *)
  /\ (eval_inc Strict ex_c0 (rw_inc (nth 12 ex_rows end_row)) = ROk true
      /\ eval_inc Strict ex_c1 (rw_inc (nth 12 ex_rows end_row)) = ROk false
      /\ eval_inc Strict ex_c0 (rw_inc (nth 13 ex_rows end_row)) = ROk false
      /\ render Strict ex_c0 [Ref (S_ "i")] = ROk n_0
      /\ eval_inc Strict ex_ctx (rw_inc (nth 12 ex_rows end_row)) = RErr Undefined).
Proof.
  split; [|split]; [| |repeat split; vm_compute; reflexivity];
    eexists; eexists; (split; [reflexivity|]); repeat split; vm_compute; reflexivity.
Qed.

(* ---- the loops: the premises of ds_nested_loops at row 1, and of ds_loop_empty at row 15 *)
Definition n_x := S_ "x".   Definition n_i := S_ "i".   Definition n_cx := S_ "cx".   Definition n_y := S_ "y".
Definition ex_outer_elems : list str := [S_ "a"; S_ "b"].
(* the inner head as read in the two copies of the outer body *)
Definition ex_heads : list irow :=
  [mkI KBeginFor true (S_ "Ma") [] [n_cx; n_x] [S_ "p"; S_ "q"]; mkI KBeginFor true (S_ "Mb") [] [n_cx; n_x] [S_ "p"; S_ "q"]].
(* the copies of the inner body, per outer element *)
Definition ex_inner : list (list (list raw)) :=
  [[[l_plain "" "0:p0"]; [l_plain "" "0:q1"]]; [[l_plain "" "1:p0"]; [l_plain "" "1:q1"]]].
(* the rest of the outer body after the inner loop (the excluded block and row are gone) *)
Definition ex_tails : list (list raw) := [[l_plain "" "a0 CXVAL"; l_plain "" "only-a"]; [l_plain "" "b1 CXVAL"]].
Definition ex_after_loops : list raw := [l_plain "" "tail CXVAL"].
Definition ex_empty_block : list raw := [l_block "E"; end_row; l_plain "" "tail CXVAL"].
Example nested_loops_nonvacuous :
  exists row1,
    loop_head Strict ex_ctx (nth 1 ex_rows end_row) row1 n_x [n_i] /\ i_iter row1 = ex_outer_elems
    /\ nested_bodies_of Strict 40 (nth 2 ex_rows end_row) (skipn 3 ex_rows) ex_ctx n_x (Some n_i) ex_outer_elems
         n_cx [n_x] ex_heads ex_inner ex_tails (skipn 15 ex_rows)
    /\ ds Strict 41 (skipn 15 ex_rows) ex_ctx BRoot false = ROk (skipn 14 ex_out, [])
    /\ ds Strict 42 (skipn 1 ex_rows) ex_ctx BRoot false = ROk (skipn 1 ex_out, []).
Proof.
  eexists. split; [|split; [|split; [|split]]].
  - repeat split; try (vm_compute; reflexivity). discriminate.
  - reflexivity.
  - repeat split.
    intros k e Hk. destruct k as [|[|k]]; cbn in Hk; [| |destruct k; discriminate]; inversion Hk; subst e; clear Hk.
    + eexists. eexists. eexists. exists (skipn 5 ex_rows). split; [reflexivity|]. split; [reflexivity|]. split; [reflexivity|].
      split; [repeat split; try (vm_compute; reflexivity); discriminate|].
      split; [discriminate|]. split; [|vm_compute; reflexivity].
      split; [reflexivity|]. intros j e' Hj.
      destruct j as [|[|j]]; cbn in Hj; [| |destruct j; discriminate]; inversion Hj; subst e'; clear Hj;
        eexists; (split; [reflexivity|]); vm_compute; reflexivity.
    + eexists. eexists. eexists. exists (skipn 5 ex_rows). split; [reflexivity|]. split; [reflexivity|]. split; [reflexivity|].
      split; [repeat split; try (vm_compute; reflexivity); discriminate|].
      split; [discriminate|]. split; [|vm_compute; reflexivity].
      split; [reflexivity|]. intros j e' Hj.
      destruct j as [|[|j]]; cbn in Hj; [| |destruct j; discriminate]; inversion Hj; subst e'; clear Hj;
        eexists; (split; [reflexivity|]); vm_compute; reflexivity.
  - vm_compute. reflexivity.
  - vm_compute. reflexivity.
Qed.

Example empty_loop_nonvacuous :
  exists row,
    loop_head Strict ex_ctx (nth 15 ex_rows end_row) row n_y [] /\ i_iter row = []
    /\ ds Strict 40 (skipn 16 ex_rows) ex_ctx BFor true = ROk ([], skipn 18 ex_rows)
    /\ ds Strict 40 (skipn 18 ex_rows) ex_ctx BRoot false = ROk (ex_after_loops, [])
    /\ ds Strict 41 (skipn 15 ex_rows) ex_ctx BRoot false = ROk (ex_empty_block, []).
Proof.
  eexists. split.
  { repeat split; try (vm_compute; reflexivity). discriminate. }
  repeat split; vm_compute; reflexivity.
Qed.

(* ---- substitution: the body of the inner loop (rows 3..), first copy of the outer body, first inner element *)
Definition ex_c00 : ctx := bind_loop ex_c0 n_cx (Some n_x) (S_ "p") 0.
Definition n_p := S_ "p".
Definition ex_b00 : list raw := [l_plain "" "0:p0"].
Definition ex_row3_substituted : raw := x_plain IncTrue [] [Ref (S_ "i"); Lit (S_ ":"); Lit (S_ "p"); Lit (S_ "0")].
Example body_substituted_nonvacuous :
  Forall (no_rebind n_cx) (skipn 3 ex_rows) /\ Forall (no_rebind n_x) (skipn 3 ex_rows)
  /\ ds Strict 40 (skipn 3 ex_rows) ex_c00 BFor false = ROk ([l_plain "" "0:p0"], skipn 5 ex_rows)
  /\ ds Strict 40 (subst_loop n_cx (Some n_x) (S_ "p") 0 (skipn 3 ex_rows)) ex_c0 BFor false
     = ROk ([l_plain "" "0:p0"], subst_loop n_cx (Some n_x) (S_ "p") 0 (skipn 5 ex_rows))
  /\ nth 0 (subst_loop n_cx (Some n_x) (S_ "p") 0 (skipn 3 ex_rows)) end_row
     = x_plain IncTrue [] [Ref (S_ "i"); Lit (S_ ":"); Lit (S_ "p"); Lit (S_ "0")].
Proof.
  split; [|split; [|repeat split; vm_compute; reflexivity]];
    repeat constructor; unfold no_rebind; cbn; intros H; repeat (destruct H as [H|H]; [vm_compute in H; discriminate|]); exact H.
Qed.

(* ---- what fails under the other behaviours (the code before the repairs) *)
(* dict.pop after end_for (ScopePop): the inner loop deletes cx; row 5 then names an unknown variable
   although the desugared sheet is fine; read leniently, the sheet is accepted but says something else
   and the context has lost cx *)
Example scope_pop_refuted :
  parse_block Strict ScopePop EmptySkip true ex_rows (sheet_fuel ex_rows) (mkP 0 ex_ctx []) BRoot false = RErr Undefined
  /\ desugar Strict ex_ctx ex_rows = ROk ex_out
  /\ exists s, parse_block Lenient ScopePop EmptySkip true ex_rows (sheet_fuel ex_rows) (mkP 0 ex_ctx []) BRoot false = ROk s
       /\ cget (p_ctx s) n_cx = None
       /\ shape (rev (p_log s)) <> Some ex_shape
       /\ desugar Lenient ex_ctx ex_rows = ROk ex_out.
Proof.
  split; [vm_compute; reflexivity|]. split; [vm_compute; reflexivity|].
  destruct (parse_block Lenient ScopePop EmptySkip true ex_rows (sheet_fuel ex_rows) (mkP 0 ex_ctx []) BRoot false) as [s|] eqn:E;
    [|vm_compute in E; discriminate].
  exists s. vm_compute in E. inversion E; subst. repeat split; try (vm_compute; reflexivity).
  vm_compute. discriminate.
Qed.

(* the body of a loop over nothing left to the enclosing block (EmptyFallThrough): row 16 is read with y
   unbound (here: an unknown name); and a begin_for over nothing with NO end_for is accepted *)
Definition ft_rows : list raw :=
  [ mkRaw KBeginFor IncTrue [Lit (S_ "E")] [] [S_ "y"] (ILit []); x_plain IncTrue [] [Lit (S_ "a")] ].
Example empty_fall_through_refuted :
  parse_block Strict ScopeRestore EmptyFallThrough true ex_rows (sheet_fuel ex_rows) (mkP 0 ex_ctx []) BRoot false = RErr Undefined
  /\ (exists s, parse_block Strict ScopeRestore EmptyFallThrough true ft_rows (sheet_fuel ft_rows) (mkP 0 [] []) BRoot false = ROk s)
  /\ desugar Strict [] ft_rows = RErr Unterminated.
Proof.
  split; [vm_compute; reflexivity|]. split; [|vm_compute; reflexivity].
  eexists. vm_compute. reflexivity.
Qed.

(* remove_from_context of a key that was never added (not tolerant): KeyError on the loop over nothing;
   the statement about successful runs does not need the tolerance (desugar_equiv_fuel is for any tol) *)
Example remove_not_tolerant_refuted :
  parse_block Strict ScopeRestore EmptySkip false ex_rows (sheet_fuel ex_rows) (mkP 0 ex_ctx []) BRoot false = RErr KeyErr
  /\ desugar Strict ex_ctx ex_rows = ROk ex_out.
Proof. split; vm_compute; reflexivity. Qed.
