(* E4 — facts about the UUID dictionary and container model. *)
From Coq Require Import List NArith Bool Lia.
From RPFT Require Import Base.Sexp Base.PyStr Base.Result Base.ODict Gen.Tables Uuid.UuidDict Uuid.Container.
Import ListNotations.

(* what the theorems need to know about the regenerated tables: the record hooks and the
   assign hooks visit the same references, and the reference kinds the property names
   (group actions, group-split tests, enter-flow actions) are among them *)
Definition s_add_contact_groups : str := [97; 100; 100; 95; 99; 111; 110; 116; 97; 99; 116; 95; 103; 114; 111; 117; 112; 115]%N.
Definition s_remove_contact_groups : str := [114; 101; 109; 111; 118; 101; 95; 99; 111; 110; 116; 97; 99; 116; 95; 103; 114; 111; 117; 112; 115]%N.
Definition s_enter_flow : str := [101; 110; 116; 101; 114; 95; 102; 108; 111; 119]%N.
Definition s_has_group : str := [104; 97; 115; 95; 103; 114; 111; 117; 112]%N.

Fixpoint tbl_eqb (a b : list (str * N)) : bool :=
  match a, b with
  | [], [] => true
  | (s, x) :: a', (t, y) :: b' => str_eqb s t && N.eqb x y && tbl_eqb a' b'
  | _, _ => false
  end.
Fixpoint strs_eqb (a b : list str) : bool :=
  match a, b with
  | [], [] => true
  | s :: a', t :: b' => str_eqb s t && strs_eqb a' b'
  | _, _ => false
  end.

Definition uuid_tables_ok : bool :=
  tbl_eqb uuid_action_record uuid_action_assign
  && strs_eqb uuid_case_record uuid_case_assign
  && N.eqb (assoc_n uuid_action_record s_add_contact_groups) 1
  && N.eqb (assoc_n uuid_action_record s_remove_contact_groups) 1
  && N.eqb (assoc_n uuid_action_record s_enter_flow) 2
  && mem_str uuid_case_record s_has_group
  && N.eqb uuid_case_uuid_idx 0 && N.eqb uuid_case_name_idx 1.

Lemma uuid_tables_ok_true : uuid_tables_ok = true.
Proof. vm_compute. reflexivity. Qed.
