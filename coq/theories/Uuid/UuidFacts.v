(* E4 — facts about the UUID dictionary and container model. *)
From Coq Require Import List NArith Bool Lia.
From RPFT Require Import Base.Sexp Base.PyStr Base.Result Base.ODict Gen.Tables Uuid.UuidDict Uuid.Container.
Import ListNotations.

(* what the theorems need to know about the regenerated tables: the record hooks and the
   assign hooks visit the same references, and the reference kinds the property names
   (group actions, group-split tests, enter-flow actions) are among them *)
Definition s_add_contact_groups : str := [97; 100; 100; 95; 99; 111; 110; 116; 97; 99; 116; 95; 103; 114; 111; 117; 112; 115]%N.
Definition s_remove_contact_groups : str := [114; 101; 109; 111; 118; 101; 95; 99; 111; 110; 116; 97; 99; 116; 95; 103; 114; 111; 117; 112; 115]%N.
Definition s_enter_flow : str := [101; 110; 116; 101; 114; 95; 102; 108; 111; 119]%N.
Definition s_has_group : str := [104; 97; 115; 95; 103; 114; 111; 117; 112]%N.

Fixpoint tbl_eqb (a b : list (str * N)) : bool :=
  match a, b with
  | [], [] => true
  | (s, x) :: a', (t, y) :: b' => str_eqb s t && N.eqb x y && tbl_eqb a' b'
  | _, _ => false
  end.
Fixpoint strs_eqb (a b : list str) : bool :=
  match a, b with
  | [], [] => true
  | s :: a', t :: b' => str_eqb s t && strs_eqb a' b'
  | _, _ => false
  end.

Definition uuid_tables_ok : bool :=
  tbl_eqb uuid_action_record uuid_action_assign
  && strs_eqb uuid_case_record uuid_case_assign
  && N.eqb (assoc_n uuid_action_record s_add_contact_groups) 1
  && N.eqb (assoc_n uuid_action_record s_remove_contact_groups) 1
  && N.eqb (assoc_n uuid_action_record s_enter_flow) 2
  && mem_str uuid_case_record s_has_group
  && N.eqb uuid_case_uuid_idx 0 && N.eqb uuid_case_name_idx 1
  (* the hooks of router cases do not look at the operand / wait of the router: a has_group test on a
     wait_for_response / split_by_value / no_op / enter-flow router is recorded and assigned like the
     one of a group split (the model's case_refs / assign_case have no operand to look at) *)
  && uuid_case_operand_free.

Lemma uuid_tables_ok_true : uuid_tables_ok = true.
Proof. vm_compute. reflexivity. Qed.

(* ====================================================================================== *)
(* Dictionary-level facts (UUIDDict): record, generate_missing, and sequences of record /  *)
(* existence-check instructions.  No size bound anywhere: induction over the lists.        *)
(* ====================================================================================== *)
From Coq Require Import Arith PeanoNat.
From RPFT Require Import Base.PyStrFacts.

Lemma tbl_eqb_eq a b : tbl_eqb a b = true -> a = b.
Proof.
  revert b. induction a as [|[s x] a IH]; intros [|[t y] b] H; cbn in H; try discriminate; [reflexivity|].
  apply andb_true_iff in H as [H H3]. apply andb_true_iff in H as [H1 H2].
  apply str_eqb_eq in H1. apply N.eqb_eq in H2. apply IH in H3. subst. reflexivity.
Qed.

Lemma strs_eqb_eq a b : strs_eqb a b = true -> a = b.
Proof.
  revert b. induction a as [|s a IH]; intros [|t b] H; cbn in H; try discriminate; [reflexivity|].
  apply andb_true_iff in H as [H1 H2]. apply str_eqb_eq in H1. apply IH in H2. subst. reflexivity.
Qed.

Lemma uuid_tables_same : uuid_action_record = uuid_action_assign /\ uuid_case_record = uuid_case_assign.
Proof.
  pose proof uuid_tables_ok_true as H. unfold uuid_tables_ok in H.
  repeat (apply andb_true_iff in H as [H ?]).
  split; [apply tbl_eqb_eq|apply strs_eqb_eq]; assumption.
Qed.

(* ---- equality on uuids ---- *)
Lemma uuid_eqb_eq a b : uuid_eqb a b = true <-> a = b.
Proof.
  destruct a as [s|n], b as [t|m]; cbn; split; intros H; try discriminate.
  - apply str_eqb_eq in H. subst. reflexivity.
  - injection H as ->. apply str_eqb_refl.
  - apply Nat.eqb_eq in H. subst. reflexivity.
  - injection H as ->. apply Nat.eqb_refl.
Qed.

Lemma pyuuid_eqb_eq a b : pyuuid_eqb a b = true <-> a = b.
Proof.
  destruct a as [x|], b as [y|]; cbn; split; intros H; try discriminate; try reflexivity.
  - apply uuid_eqb_eq in H. subst. reflexivity.
  - injection H as ->. apply uuid_eqb_eq. reflexivity.
Qed.

Definition name_dec : forall a b : name, {a = b} + {a <> b} := list_eq_dec N.eq_dec.

Lemma truthy_fresh m : truthy (Some (Fresh m)) = true.
Proof. reflexivity. Qed.

Lemma truthy_none : truthy None = false.
Proof. reflexivity. Qed.

(* ---- dget / dset / dhas ---- *)
Lemma dget_dset_same d n u : dget (dset d n u) n = Some u.
Proof. apply (oget_oset_same str_eqb str_eqb_eq). Qed.

Lemma dget_dset_other d n u n2 : n2 <> n -> dget (dset d n u) n2 = dget d n2.
Proof. apply (oget_oset_other str_eqb str_eqb_eq). Qed.

Lemma dset_nodup d n u : NoDup (map fst d) -> NoDup (map fst (dset d n u)).
Proof. apply (oset_nodup str_eqb str_eqb_eq). Qed.

Lemma dhas_dget d n : dhas d n = true <-> exists v, dget d n = Some v.
Proof.
  unfold dhas, ocontains, dget. destruct (oget str_eqb d n) as [v|]; split.
  - intros _. exists v. reflexivity.
  - reflexivity.
  - discriminate.
  - intros [v H]. discriminate.
Qed.

Lemma dhas_false_dget d n : dhas d n = false <-> dget d n = None.
Proof.
  unfold dhas, ocontains, dget. destruct (oget str_eqb d n) as [v|]; split; congruence.
Qed.

Lemma dget_in d n v : dget d n = Some v -> In (n, v) d.
Proof.
  unfold dget. induction d as [|[k w] r IH]; cbn; [discriminate|].
  destruct (str_eqb k n) eqn:E.
  - apply str_eqb_eq in E. subst k. intros H. injection H as ->. left. reflexivity.
  - intros H. right. apply IH, H.
Qed.

Lemma in_dget d n v : NoDup (map fst d) -> In (n, v) d -> dget d n = Some v.
Proof.
  unfold dget. induction d as [|[k w] r IH]; cbn; [intros _ []|].
  intros Hnd Hin. inversion Hnd as [|x l Hnotin Hnd']; subst.
  destruct Hin as [Heq|Hin].
  - injection Heq as -> ->. rewrite str_eqb_refl. reflexivity.
  - destruct (str_eqb k n) eqn:E.
    + apply str_eqb_eq in E. subst k. exfalso. apply Hnotin.
      apply (in_map fst) in Hin. exact Hin.
    + apply IH; assumption.
Qed.

Lemma dget_key_in d n v : dget d n = Some v -> In n (map fst d).
Proof. intros H. apply dget_in in H. apply (in_map fst) in H. exact H. Qed.

(* ---- record ---- *)
Lemma record_ok_cases d n u d' : record d n u = Ok d' ->
  (exists r, dget d n = Some r /\ truthy r = true /\ (truthy u = false \/ u = r) /\ d' = d)
  \/ ((forall r, dget d n = Some r -> truthy r = false) /\ d' = dset d n u).
Proof.
  unfold record. destruct (dget d n) as [r|] eqn:Eg.
  - destruct (truthy r) eqn:Er.
    + destruct (truthy u) eqn:Eu; cbn [andb].
      * destruct (pyuuid_eqb u r) eqn:Ee; cbn [negb]; [|discriminate].
        intros H. injection H as <-. left. exists r. apply pyuuid_eqb_eq in Ee.
        repeat split; auto.
      * intros H. injection H as <-. left. exists r. repeat split; auto.
    + intros H. injection H as <-. right. split; [|reflexivity].
      intros r' Hr'. injection Hr' as <-. exact Er.
  - cbn [truthy]. intros H. injection H as <-. right. split; [|reflexivity]. intros r' Hr'. discriminate.
Qed.

Lemma record_err_cases d n u e : record d n u = Err e ->
  e = EConflict /\ exists r, dget d n = Some r /\ truthy r = true /\ truthy u = true /\ u <> r.
Proof.
  unfold record. destruct (dget d n) as [r|] eqn:Eg.
  - destruct (truthy r) eqn:Er; [|discriminate].
    destruct (truthy u) eqn:Eu; cbn [andb]; [|discriminate].
    destruct (pyuuid_eqb u r) eqn:Ee; cbn [negb]; [discriminate|].
    intros H. injection H as <-. split; [reflexivity|]. exists r. repeat split; auto.
    intros Heq. apply pyuuid_eqb_eq in Heq. congruence.
  - cbn [truthy]. discriminate.
Qed.

(* a truthy binding is never changed by record *)
Lemma record_stable d n u d' n' r : record d n u = Ok d' ->
  dget d n' = Some r -> truthy r = true -> dget d' n' = Some r.
Proof.
  intros H Hg Ht. apply record_ok_cases in H as [(r0 & _ & _ & _ & ->)|[Hf ->]]; [exact Hg|].
  destruct (name_dec n' n) as [->|Hne].
  - apply Hf in Hg. congruence.
  - rewrite dget_dset_other by exact Hne. exact Hg.
Qed.

(* after record the name is a key, and a truthy uuid that was accepted IS the binding *)
Lemma record_bound d n u d' : record d n u = Ok d' ->
  dhas d' n = true /\ (truthy u = true -> dget d' n = Some u).
Proof.
  intros H. apply record_ok_cases in H as [(r0 & Hg & Ht & Hu & ->)|[Hf ->]].
  - split; [apply dhas_dget; eauto|]. intros Htu. destruct Hu as [Hu|Hu]; congruence.
  - split; [apply dhas_dget; exists u; apply dget_dset_same|]. intros _. apply dget_dset_same.
Qed.

Lemma record_has d n u d' n' : record d n u = Ok d' -> dhas d n' = true -> dhas d' n' = true.
Proof.
  intros H Hh. apply record_ok_cases in H as [(r0 & _ & _ & _ & ->)|[Hf ->]]; [exact Hh|].
  destruct (name_dec n' n) as [->|Hne].
  - apply dhas_dget. exists u. apply dget_dset_same.
  - apply dhas_dget. rewrite dget_dset_other by exact Hne. apply dhas_dget. exact Hh.
Qed.

(* every binding after record was there before or is the recorded one *)
Lemma record_origin d n u d' n' v : record d n u = Ok d' ->
  dget d' n' = Some v -> dget d n' = Some v \/ (n' = n /\ v = u).
Proof.
  intros H Hg. apply record_ok_cases in H as [(r0 & _ & _ & _ & ->)|[Hf ->]]; [left; exact Hg|].
  destruct (name_dec n' n) as [->|Hne].
  - rewrite dget_dset_same in Hg. injection Hg as <-. right. split; reflexivity.
  - rewrite dget_dset_other in Hg by exact Hne. left. exact Hg.
Qed.

Lemma record_nodup d n u d' : record d n u = Ok d' -> NoDup (map fst d) -> NoDup (map fst d').
Proof.
  intros H Hnd. apply record_ok_cases in H as [(r0 & _ & _ & _ & ->)|[Hf ->]]; [exact Hnd|].
  apply dset_nodup, Hnd.
Qed.

(* recording what the dictionary already says changes nothing *)
Lemma record_agree d n u r : dget d n = Some r -> truthy r = true -> (truthy u = false \/ u = r) ->
  record d n u = Ok d.
Proof.
  intros Hg Ht Hu. unfold record. rewrite Hg, Ht. destruct Hu as [Hu| ->].
  - rewrite Hu. reflexivity.
  - rewrite Ht. cbn [andb]. replace (pyuuid_eqb r r) with true; [reflexivity|].
    symmetry. apply pyuuid_eqb_eq. reflexivity.
Qed.

(* ---- gen_missing ---- *)
Lemma gen_missing_keys d : forall c d' c', gen_missing d c = (d', c') -> map fst d' = map fst d /\ c <= c'.
Proof.
  induction d as [|[k v] r IH]; intros c d' c' H; cbn in H.
  - injection H as <- <-. split; [reflexivity|lia].
  - destruct (truthy v).
    + destruct (gen_missing r c) as [r' c1] eqn:E. injection H as <- <-.
      apply IH in E as [E1 E2]. cbn. split; [f_equal; exact E1|exact E2].
    + destruct (gen_missing r (S c)) as [r' c1] eqn:E. injection H as <- <-.
      apply IH in E as [E1 E2]. cbn. split; [f_equal; exact E1|lia].
Qed.

Lemma gen_missing_dget d : forall c d' c' n, gen_missing d c = (d', c') ->
  match dget d n with
  | None => dget d' n = None
  | Some v => if truthy v then dget d' n = Some v
              else exists j, c <= j < c' /\ dget d' n = Some (Some (Fresh j))
  end.
Proof.
  unfold dget. induction d as [|[k v] r IH]; intros c d' c' n H; cbn in H.
  - injection H as <- <-. reflexivity.
  - destruct (truthy v) eqn:Ev.
    + destruct (gen_missing r c) as [r' c1] eqn:E. injection H as <- <-. cbn.
      destruct (str_eqb k n); [rewrite Ev; reflexivity|]. apply (IH _ _ _ n E).
    + destruct (gen_missing r (S c)) as [r' c1] eqn:E. injection H as <- <-. cbn.
      pose proof (gen_missing_keys _ _ _ _ E) as [_ Hle].
      destruct (str_eqb k n).
      * rewrite Ev. exists c. split; [lia|reflexivity].
      * pose proof (IH _ _ _ n E) as Hn. destruct (oget str_eqb r n) as [w|]; [|exact Hn].
        destruct (truthy w); [exact Hn|]. destruct Hn as (j & Hj & Hg). exists j. split; [lia|exact Hg].
Qed.

Lemma gen_missing_truthy d : forall c d' c' n v, gen_missing d c = (d', c') -> dget d' n = Some v -> truthy v = true.
Proof.
  intros c d' c' n v H Hg. pose proof (gen_missing_dget d c d' c' n H) as Hn.
  destruct (dget d n) as [w|]; [|congruence].
  destruct (truthy w) eqn:Ew; [congruence|]. destruct Hn as (j & _ & Hj). rewrite Hj in Hg. injection Hg as <-. reflexivity.
Qed.

Lemma gen_missing_all_truthy d : forall c d' c', gen_missing d c = (d', c') ->
  forallb (fun kv => truthy (snd kv)) d' = true.
Proof.
  induction d as [|[k v] r IH]; intros c d' c' H; cbn in H.
  - injection H as <- <-. reflexivity.
  - destruct (truthy v) eqn:Ev.
    + destruct (gen_missing r c) as [r' c1] eqn:E. injection H as <- <-. cbn. rewrite Ev. apply (IH _ _ _ E).
    + destruct (gen_missing r (S c)) as [r' c1] eqn:E. injection H as <- <-. cbn. apply (IH _ _ _ E).
Qed.

(* on a dictionary without falsy values generate_missing_uuids does nothing *)
Lemma gen_missing_id d c : forallb (fun kv => truthy (snd kv)) d = true -> gen_missing d c = (d, c).
Proof.
  induction d as [|[k v] r IH]; cbn; [reflexivity|]. intros H. apply andb_true_iff in H as [H1 H2].
  rewrite H1, (IH H2). reflexivity.
Qed.

(* where a Fresh value of the result comes from *)
Lemma gen_missing_fresh_origin d c d' c' n j : gen_missing d c = (d', c') ->
  dget d' n = Some (Some (Fresh j)) -> dget d n = Some (Some (Fresh j)) \/ c <= j < c'.
Proof.
  intros H Hg. pose proof (gen_missing_dget d c d' c' n H) as Hn.
  destruct (dget d n) as [w|]; [|congruence].
  destruct (truthy w) eqn:Ew; [left; congruence|]. destruct Hn as (j' & Hj & Hg'). right.
  rewrite Hg' in Hg. injection Hg as <-. exact Hj.
Qed.

(* two names never receive the same invented uuid *)
Lemma gen_missing_inj d : forall c d' c' n1 n2 j, gen_missing d c = (d', c') ->
  (forall n m, In (n, Some (Fresh m)) d -> m < c) ->
  dget d' n1 = Some (Some (Fresh j)) -> dget d' n2 = Some (Some (Fresh j)) -> c <= j -> n1 = n2.
Proof.
  induction d as [|[k v] r IH]; intros c d' c' n1 n2 j H Hold H1 H2 Hj; cbn in H.
  - injection H as <- <-. discriminate.
  - assert (Hold' : forall n m, In (n, Some (Fresh m)) r -> m < c) by (intros n m Hi; apply (Hold n m); right; exact Hi).
    destruct (truthy v) eqn:Ev.
    + destruct (gen_missing r c) as [r' c1] eqn:E. injection H as <- <-.
      unfold dget in H1, H2. cbn in H1, H2.
      destruct (str_eqb k n1) eqn:E1; destruct (str_eqb k n2) eqn:E2.
      * apply str_eqb_eq in E1, E2. congruence.
      * injection H1 as ->. exfalso. specialize (Hold k j (or_introl eq_refl)). lia.
      * injection H2 as ->. exfalso. specialize (Hold k j (or_introl eq_refl)). lia.
      * apply (IH _ _ _ n1 n2 j E Hold' H1 H2 Hj).
    + destruct (gen_missing r (S c)) as [r' c1] eqn:E. injection H as <- <-.
      assert (Hrest : forall n, dget r' n = Some (Some (Fresh c)) -> False).
      { intros n Hn. apply (gen_missing_fresh_origin _ _ _ _ _ _ E) in Hn as [Hn|Hn]; [|lia].
        apply dget_in in Hn. apply Hold' in Hn. lia. }
      unfold dget in H1, H2. cbn in H1, H2.
      destruct (str_eqb k n1) eqn:E1; destruct (str_eqb k n2) eqn:E2.
      * apply str_eqb_eq in E1, E2. congruence.
      * injection H1 as <-. exfalso. apply (Hrest n2 H2).
      * injection H2 as <-. exfalso. apply (Hrest n1 H1).
      * assert (Hj' : S c <= j).
        { destruct (Nat.eq_dec j c) as [->|Hne]; [exfalso; apply (Hrest n1 H1)|lia]. }
        apply (IH _ _ _ n1 n2 j E); auto.
        intros n m Hi. apply Hold' in Hi. lia.
Qed.

(* ---- udict: sel / upd ---- *)
Lemma kind_dec : forall a b : kind, {a = b} + {a <> b}.
Proof. decide equality. Qed.

Lemma sel_upd_same k ud d : sel k (upd k ud d) = d.
Proof. destruct k; reflexivity. Qed.

Lemma sel_upd_other k k' ud d : k <> k' -> sel k' (upd k ud d) = sel k' ud.
Proof. destruct k, k'; try congruence; reflexivity. Qed.

Lemma ctr_upd k ud d : ctr (upd k ud d) = ctr ud.
Proof. destruct k; reflexivity. Qed.

Lemma upd_sel k ud : upd k ud (sel k ud) = ud.
Proof. destruct k, ud; reflexivity. Qed.

(* [ext ud ud']: ud' extends ud — what every record/check instruction guarantees *)
Record ext (ud ud' : udict) : Prop := {
  ext_bound : forall k n u, dget (sel k ud) n = Some u -> truthy u = true -> dget (sel k ud') n = Some u;
  ext_has : forall k n, dhas (sel k ud) n = true -> dhas (sel k ud') n = true;
  ext_ctr : ctr ud' = ctr ud;
  ext_nodup : forall k, NoDup (map fst (sel k ud)) -> NoDup (map fst (sel k ud')) }.

Lemma ext_refl ud : ext ud ud.
Proof. constructor; auto. Qed.

Lemma ext_trans a b c : ext a b -> ext b c -> ext a c.
Proof.
  intros [B1 H1 C1 N1] [B2 H2 C2 N2]. constructor; auto. congruence.
Qed.

Lemma record_k_ext k ud n u ud' : record_k k ud n u = Ok ud' -> ext ud ud'.
Proof.
  unfold record_k. destruct (record (sel k ud) n u) as [d|e] eqn:E; [|discriminate].
  intros H. injection H as <-. constructor.
  - intros k' n' r Hg Ht. destruct (kind_dec k k') as [<-|Hne].
    + rewrite sel_upd_same. apply (record_stable _ _ _ _ _ _ E Hg Ht).
    + rewrite sel_upd_other by exact Hne. exact Hg.
  - intros k' n' Hh. destruct (kind_dec k k') as [<-|Hne].
    + rewrite sel_upd_same. apply (record_has _ _ _ _ _ E Hh).
    + rewrite sel_upd_other by exact Hne. exact Hh.
  - apply ctr_upd.
  - intros k' Hnd. destruct (kind_dec k k') as [<-|Hne].
    + rewrite sel_upd_same. apply (record_nodup _ _ _ _ E Hnd).
    + rewrite sel_upd_other by exact Hne. exact Hnd.
Qed.

Lemma record_k_bound k ud n u ud' : record_k k ud n u = Ok ud' ->
  dhas (sel k ud') n = true /\ (truthy u = true -> dget (sel k ud') n = Some u).
Proof.
  unfold record_k. destruct (record (sel k ud) n u) as [d|e] eqn:E; [|discriminate].
  intros H. injection H as <-. rewrite sel_upd_same. apply (record_bound _ _ _ _ E).
Qed.

Lemma record_k_origin k ud n u ud' k' n' v : record_k k ud n u = Ok ud' ->
  dget (sel k' ud') n' = Some v -> dget (sel k' ud) n' = Some v \/ (k' = k /\ n' = n /\ v = u).
Proof.
  unfold record_k. destruct (record (sel k ud) n u) as [d|e] eqn:E; [|discriminate].
  intros H Hg. injection H as <-. destruct (kind_dec k k') as [<-|Hne].
  - rewrite sel_upd_same in Hg. apply (record_origin _ _ _ _ _ _ E) in Hg as [Hg|[-> ->]]; [left; exact Hg|].
    right. repeat split; reflexivity.
  - rewrite sel_upd_other in Hg by exact Hne. left. exact Hg.
Qed.

Lemma record_k_err k ud n u e : record_k k ud n u = Err e ->
  e = EConflict /\ exists r, dget (sel k ud) n = Some r /\ truthy r = true /\ truthy u = true /\ u <> r.
Proof.
  unfold record_k. destruct (record (sel k ud) n u) as [d|e'] eqn:E; [discriminate|].
  intros H. injection H as <-. apply (record_err_cases _ _ _ _ E).
Qed.

Lemma record_k_agree k ud n u r : dget (sel k ud) n = Some r -> truthy r = true ->
  (truthy u = false \/ u = r) -> record_k k ud n u = Ok ud.
Proof.
  intros Hg Ht Hu. unfold record_k. rewrite (record_agree _ _ _ _ Hg Ht Hu), upd_sel. reflexivity.
Qed.

(* ---- generate_missing on the pair of dictionaries ---- *)
Lemma generate_missing_cases ud : exists f' g' c1 c2,
  gen_missing (fd ud) (ctr ud) = (f', c1) /\ gen_missing (gd ud) c1 = (g', c2)
  /\ generate_missing ud = {| fd := f'; gd := g'; ctr := c2 |}.
Proof.
  unfold generate_missing. destruct (gen_missing (fd ud) (ctr ud)) as [f' c1].
  destruct (gen_missing (gd ud) c1) as [g' c2] eqn:Eg. exists f', g', c1, c2.
  split; [reflexivity|]. split; [exact Eg|reflexivity].
Qed.

Lemma generate_missing_keys ud k : map fst (sel k (generate_missing ud)) = map fst (sel k ud).
Proof.
  destruct (generate_missing_cases ud) as (f' & g' & c1 & c2 & Hf & Hg & ->).
  destruct k; cbn [sel fd gd ctr]; [apply (gen_missing_keys _ _ _ _ Hg)|apply (gen_missing_keys _ _ _ _ Hf)].
Qed.

Lemma generate_missing_ctr ud : ctr ud <= ctr (generate_missing ud).
Proof.
  destruct (generate_missing_cases ud) as (f' & g' & c1 & c2 & Hf & Hg & ->). cbn [sel fd gd ctr].
  apply gen_missing_keys in Hf as [_ Hf]. apply gen_missing_keys in Hg as [_ Hg]. lia.
Qed.

Lemma generate_missing_bound ud k n u : dget (sel k ud) n = Some u -> truthy u = true ->
  dget (sel k (generate_missing ud)) n = Some u.
Proof.
  intros Hg Ht. destruct (generate_missing_cases ud) as (f' & g' & c1 & c2 & Hf & Hgg & ->).
  destruct k; cbn [sel fd gd ctr] in *.
  - pose proof (gen_missing_dget _ _ _ _ n Hgg) as Hn. rewrite Hg, Ht in Hn. exact Hn.
  - pose proof (gen_missing_dget _ _ _ _ n Hf) as Hn. rewrite Hg, Ht in Hn. exact Hn.
Qed.

Lemma generate_missing_has ud k n : dhas (sel k (generate_missing ud)) n = dhas (sel k ud) n.
Proof.
  destruct (generate_missing_cases ud) as (f' & g' & c1 & c2 & Hf & Hgg & ->).
  assert (Hgen : forall d c d' c', gen_missing d c = (d', c') -> dhas d' n = dhas d n).
  { intros d c d' c' H. pose proof (gen_missing_dget _ _ _ _ n H) as Hn.
    destruct (dhas d n) eqn:Ed.
    - apply dhas_dget in Ed as [v Ev]. rewrite Ev in Hn. apply dhas_dget.
      destruct (truthy v); [eauto|]. destruct Hn as (j & _ & Hj). eauto.
    - apply dhas_false_dget in Ed. rewrite Ed in Hn. apply dhas_false_dget. exact Hn. }
  destruct k; cbn [sel fd gd ctr].
  - apply (Hgen _ _ _ _ Hgg).
  - apply (Hgen _ _ _ _ Hf).
Qed.

Lemma generate_missing_truthy ud k n v : dget (sel k (generate_missing ud)) n = Some v -> truthy v = true.
Proof.
  destruct (generate_missing_cases ud) as (f' & g' & c1 & c2 & Hf & Hgg & ->).
  destruct k; cbn [sel fd gd ctr]; intros H.
  - apply (gen_missing_truthy _ _ _ _ _ _ Hgg H).
  - apply (gen_missing_truthy _ _ _ _ _ _ Hf H).
Qed.

Lemma generate_missing_all_truthy ud k :
  forallb (fun kv => truthy (snd kv)) (sel k (generate_missing ud)) = true.
Proof.
  destruct (generate_missing_cases ud) as (f' & g' & c1 & c2 & Hf & Hgg & ->).
  destruct k; cbn [sel fd gd ctr].
  - apply (gen_missing_all_truthy _ _ _ _ Hgg).
  - apply (gen_missing_all_truthy _ _ _ _ Hf).
Qed.

Lemma generate_missing_id ud : (forall k, forallb (fun kv => truthy (snd kv)) (sel k ud) = true) ->
  generate_missing ud = ud.
Proof.
  intros H. unfold generate_missing. rewrite (gen_missing_id _ _ (H KFlow)). cbn [sel].
  rewrite (gen_missing_id _ _ (H KGroup)). destruct ud; reflexivity.
Qed.

(* a Fresh value after generate_missing was there before or is new (>= the old counter) *)
Lemma generate_missing_fresh_origin ud k n j :
  dget (sel k (generate_missing ud)) n = Some (Some (Fresh j)) ->
  dget (sel k ud) n = Some (Some (Fresh j)) \/ ctr ud <= j < ctr (generate_missing ud).
Proof.
  destruct (generate_missing_cases ud) as (f' & g' & c1 & c2 & Hf & Hgg & ->).
  pose proof (gen_missing_keys _ _ _ _ Hf) as [_ L1]. pose proof (gen_missing_keys _ _ _ _ Hgg) as [_ L2].
  destruct k; cbn [sel fd gd ctr]; intros H.
  - apply (gen_missing_fresh_origin _ _ _ _ _ _ Hgg) in H as [H|H]; [left; exact H|right; lia].
  - apply (gen_missing_fresh_origin _ _ _ _ _ _ Hf) in H as [H|H]; [left; exact H|right; lia].
Qed.

(* the invented uuids are pairwise distinct across BOTH dictionaries *)
Lemma generate_missing_inj ud k1 n1 k2 n2 j :
  (forall k n m, In (n, Some (Fresh m)) (sel k ud) -> m < ctr ud) ->
  dget (sel k1 (generate_missing ud)) n1 = Some (Some (Fresh j)) ->
  dget (sel k2 (generate_missing ud)) n2 = Some (Some (Fresh j)) ->
  ctr ud <= j -> k1 = k2 /\ n1 = n2.
Proof.
  intros Hold. destruct (generate_missing_cases ud) as (f' & g' & c1 & c2 & Hf & Hgg & ->).
  pose proof (gen_missing_keys _ _ _ _ Hf) as [_ L1]. pose proof (gen_missing_keys _ _ _ _ Hgg) as [_ L2].
  assert (HoldF : forall n m, In (n, Some (Fresh m)) (fd ud) -> m < ctr ud) by (intros n m; apply (Hold KFlow)).
  assert (HoldG : forall n m, In (n, Some (Fresh m)) (gd ud) -> m < c1).
  { intros n m Hi. apply (Hold KGroup) in Hi. lia. }
  assert (RF : forall n, dget f' n = Some (Some (Fresh j)) -> ctr ud <= j -> j < c1).
  { intros n Hn Hj. apply (gen_missing_fresh_origin _ _ _ _ _ _ Hf) in Hn as [Hn|Hn]; [|lia].
    apply dget_in, HoldF in Hn. lia. }
  assert (RG : forall n, dget g' n = Some (Some (Fresh j)) -> ctr ud <= j -> c1 <= j).
  { intros n Hn Hj. apply (gen_missing_fresh_origin _ _ _ _ _ _ Hgg) in Hn as [Hn|Hn]; [|lia].
    apply dget_in, (Hold KGroup) in Hn. lia. }
  destruct k1, k2; cbn [sel fd gd ctr]; intros H1 H2 Hj.
  - split; [reflexivity|]. apply (gen_missing_inj _ _ _ _ n1 n2 j Hgg HoldG H1 H2). apply (RG n1 H1 Hj).
  - exfalso. pose proof (RG _ H1 Hj). pose proof (RF _ H2 Hj). lia.
  - exfalso. pose proof (RF _ H1 Hj). pose proof (RG _ H2 Hj). lia.
  - split; [reflexivity|]. apply (gen_missing_inj _ _ _ _ n1 n2 j Hf HoldF H1 H2 Hj).
Qed.
