(* Facts about Uuid/Sheet.v: which obj_ids of a flow sheet are honoured by the container that is
   finally rendered.  Generic in the probed tables (row hooks rh_, block flag sh_) first, then
   instantiated with the tables regenerated from the source tree. *)
From Coq Require Import List NArith Bool Lia.
From RPFT Require Import Base.Sexp Base.PyStr Base.Result Base.ODict Gen.Tables Uuid.UuidDict Uuid.Container
  Uuid.UuidFacts Uuid.ContainerFacts Uuid.Sheet.
Import ListNotations.

(* ---- induction over the nested type ---- *)
Fixpoint item_ind2 (P : item -> Prop)
  (Hrow : forall ty n u cs, P (IRow ty n u cs))
  (Hblock : forall its, Forall P its -> P (IBlock its)) (it : item) {struct it} : P it :=
  match it with
  | IRow ty n u cs => Hrow ty n u cs
  | IBlock its =>
    Hblock its ((fix go (l : list item) : Forall P l :=
                   match l with
                   | [] => Forall_nil P
                   | x :: r => Forall_cons x (item_ind2 P Hrow Hblock x) (go r)
                   end) its)
  end.

(* a row of an item: [row_in it b ty n u] — the row (ty, n, u) occurs in [it]; b tells whether it
   sits beneath an insert_as_block of [it] *)
Inductive row_in : item -> bool -> str -> name -> pyuuid -> Prop :=
| RI_row ty n u cs : row_in (IRow ty n u cs) false ty n u
| RI_block its x b ty n u : In x its -> row_in x b ty n u -> row_in (IBlock its) true ty n u.

(* [test_in it c]: somewhere in the item (any depth of inserted templates) a row — of any type — has
   an outgoing edge with a group test naming c *)
Inductive test_in : item -> name -> Prop :=
| TI_row ty n u cs c : In c cs -> test_in (IRow ty n u cs) c
| TI_block its x c : In x its -> test_in x c -> test_in (IBlock its) c.

(* ---- dictionaries only grow: a truthy binding stays, no duplicate key appears ---- *)
Definition grows (a b : udict) : Prop :=
  (forall k n u, dget (sel k a) n = Some u -> truthy u = true -> dget (sel k b) n = Some u)
  /\ (dict_wf a -> dict_wf b).

Lemma grows_refl a : grows a a.
Proof. split; auto. Qed.

Lemma grows_trans a b c : grows a b -> grows b c -> grows a c.
Proof. intros [A1 A2] [B1 B2]. split; auto. Qed.

Lemma ext_grows a b : ext a b -> grows a b.
Proof.
  intros E. split.
  - apply (ext_bound _ _ E).
  - intros W k. apply (ext_nodup _ _ E), W.
Qed.

Lemma grows_bump a : grows a (bump a).
Proof. split; [intros k n u H _; destruct k; exact H|intros W k; destruct k; [apply (W KGroup)|apply (W KFlow)]]. Qed.

Lemma sel_bump k a : sel k (bump a) = sel k a.
Proof. destruct k; reflexivity. Qed.

Section Generic.
Variable rh_ : rhooks.
Variable sh_ : bool.
Variable at_ : list (str * N).
Variable ct_ : list str.

Notation parse_row := (parse_row rh_).
Notation parse_item := (parse_item rh_ sh_).
Notation parse_items := (parse_items rh_ sh_).
Notation parse_flow := (parse_flow rh_ sh_).
Notation parse_flows := (parse_flows rh_ sh_).
Notation hook ty := (hook_of rh_ ty).

Lemma parse_item_block ud its : parse_item ud (IBlock its) =
  if sh_ then parse_items ud its
  else match parse_items empty_udict its with Err e => Err e | Ok (_, ns) => Ok (ud, ns) end.
Proof. reflexivity. Qed.

Lemma sh_cases : sh_ = true \/ sh_ = false.
Proof. destruct sh_; auto. Qed.

Lemma parse_item_block_shared ud its : sh_ = true -> parse_item ud (IBlock its) = parse_items ud its.
Proof. intros E. rewrite parse_item_block. rewrite E. reflexivity. Qed.

Lemma parse_item_block_fresh ud its : sh_ = false -> parse_item ud (IBlock its) =
  match parse_items empty_udict its with Err e => Err e | Ok (_, ns) => Ok (ud, ns) end.
Proof. intros E. rewrite parse_item_block. rewrite E. reflexivity. Qed.

Lemma parse_items_cons ud x r : parse_items ud (x :: r) =
  match parse_item ud x with
  | Err e => Err e
  | Ok (ud1, ns) => match parse_items ud1 r with Err e => Err e | Ok (ud2, ns') => Ok (ud2, ns ++ ns') end
  end.
Proof. reflexivity. Qed.

Lemma parse_items_nil ud : parse_items ud [] = Ok (ud, []).
Proof. reflexivity. Qed.

Lemma parse_row_grows ud ty n u cs ud' ns : parse_row ud ty n u cs = Ok (ud', ns) -> grows ud ud'.
Proof.
  unfold Sheet.parse_row. destruct (kind_of_shape (h_shape (hook ty))) as [k|].
  - destruct (h_rec (hook ty) && truthy u).
    + destruct (record_k k ud n u) as [ud1|e] eqn:E; [|discriminate].
      intros H. injection H as <- _. apply ext_grows, (record_k_ext _ _ _ _ _ E).
    + intros H. injection H as <- _. apply grows_refl.
  - intros H. injection H as <- _. apply grows_refl.
Qed.

Lemma parse_items_grows_of its : Forall (fun it => forall ud ud' ns, parse_item ud it = Ok (ud', ns) -> grows ud ud') its ->
  forall ud ud' ns, parse_items ud its = Ok (ud', ns) -> grows ud ud'.
Proof.
  induction 1 as [|x r Hx Hr IH]; intros ud ud' ns H.
  - rewrite parse_items_nil in H. injection H as <- _. apply grows_refl.
  - rewrite parse_items_cons in H. destruct (parse_item ud x) as [[ud1 ns1]|e] eqn:E1; [|discriminate].
    destruct (parse_items ud1 r) as [[ud2 ns2]|e] eqn:E2; [|discriminate]. injection H as <- _.
    apply (grows_trans _ ud1); [apply (Hx _ _ _ E1)|apply (IH _ _ _ E2)].
Qed.

Lemma parse_item_grows it : forall ud ud' ns, parse_item ud it = Ok (ud', ns) -> grows ud ud'.
Proof.
  induction it as [ty n u cs|its IH] using item_ind2; intros ud ud' ns H.
  - apply (parse_row_grows _ _ _ _ _ _ _ H).
  - destruct sh_cases as [E|E].
    + rewrite (parse_item_block_shared _ _ E) in H. apply (parse_items_grows_of _ IH _ _ _ H).
    + rewrite (parse_item_block_fresh _ _ E) in H.
      destruct (parse_items empty_udict its) as [[ud1 ns1]|e]; [|discriminate]. injection H as <- _. apply grows_refl.
Qed.

Lemma parse_items_grows its ud ud' ns : parse_items ud its = Ok (ud', ns) -> grows ud ud'.
Proof. apply parse_items_grows_of. apply Forall_forall. intros it _. apply parse_item_grows. Qed.

(* ---- a row whose type RECORDS its obj_id, not hidden in a throw-away container ---- *)
Lemma recorded_item it b ty n u : row_in it b ty n u ->
  forall ud ud' ns k, parse_item ud it = Ok (ud', ns) -> truthy u = true ->
  kind_of_shape (h_shape (hook ty)) = Some k -> h_rec (hook ty) = true -> (b = false \/ sh_ = true) ->
  dget (sel k ud') n = Some u.
Proof.
  induction 1 as [ty n u cs|its x b ty n u Hin Hr IH]; intros ud ud' ns k H Ht Hk Hrec Hb.
  - cbn [Sheet.parse_item] in H. unfold Sheet.parse_row in H. rewrite Hk, Hrec, Ht in H. cbn [andb] in H.
    destruct (record_k k ud n u) as [ud1|e] eqn:E; [|discriminate]. injection H as <- _.
    apply (record_k_bound _ _ _ _ _ E), Ht.
  - destruct Hb as [Hb|Hb]; [discriminate|]. rewrite (parse_item_block_shared _ _ Hb) in H.
    revert ud ud' ns H. induction its as [|y r IHr]; intros ud ud' ns H; [contradiction|].
    rewrite parse_items_cons in H. destruct (parse_item ud y) as [[ud1 ns1]|e] eqn:E1; [|discriminate].
    destruct (parse_items ud1 r) as [[ud2 ns2]|e] eqn:E2; [|discriminate]. injection H as <- _.
    destruct Hin as [->|Hin].
    + apply (proj1 (parse_items_grows _ _ _ _ E2)); [|exact Ht].
      apply (IH _ _ _ _ E1 Ht Hk Hrec). right. exact Hb.
    + apply (IHr Hin _ _ _ E2).
Qed.

Lemma recorded_items its : forall it b ty n u ud ud' ns k, In it its -> row_in it b ty n u ->
  parse_items ud its = Ok (ud', ns) -> truthy u = true ->
  kind_of_shape (h_shape (hook ty)) = Some k -> h_rec (hook ty) = true -> (b = false \/ sh_ = true) ->
  dget (sel k ud') n = Some u.
Proof.
  induction its as [|y r IHr]; intros it b ty n u ud ud' ns k Hin Hr H Ht Hk Hrec Hb; [contradiction|].
  rewrite parse_items_cons in H. destruct (parse_item ud y) as [[ud1 ns1]|e] eqn:E1; [|discriminate].
  destruct (parse_items ud1 r) as [[ud2 ns2]|e] eqn:E2; [|discriminate]. injection H as <- _.
  destruct Hin as [->|Hin].
  - apply (proj1 (parse_items_grows _ _ _ _ E2)); [|exact Ht]. apply (recorded_item _ _ _ _ _ Hr _ _ _ _ E1 Ht Hk Hrec Hb).
  - apply (IHr _ _ _ _ _ _ _ _ _ Hin Hr E2 Ht Hk Hrec Hb).
Qed.

(* ---- a row whose type CARRIES its obj_id on the object it creates: wherever it sits ---- *)
(* the action type the row creates is one whose hooks visit the reference *)
Definition hook_linked (h : rhook) : Prop :=
  match h_shape h with
  | 1%N => assoc_n at_ (h_atype h) = 1%N
  | 2%N => assoc_n at_ (h_atype h) = 2%N
  | _ => True
  end.

Definition carries_ref (h : rhook) : bool :=
  h_carry h && (N.eqb (h_shape h) 1 || N.eqb (h_shape h) 2).

Lemma carried_row ud ty n u cs ud' ns k : parse_row ud ty n u cs = Ok (ud', ns) -> truthy u = true ->
  kind_of_shape (h_shape (hook ty)) = Some k -> carries_ref (hook ty) = true -> hook_linked (hook ty) ->
  In (k, (n, u)) (flat_map (node_refs at_ ct_) ns).
Proof.
  intros H Ht Hk Hc Hl.
  assert (Hns : ns = [node_of (hook ty) n u cs]).
  { unfold Sheet.parse_row in H. rewrite Hk in H. destruct (h_rec (hook ty) && truthy u).
    - destruct (record_k k ud n u); [|discriminate]. injection H as _ <-. reflexivity.
    - injection H as _ <-. reflexivity. }
  subst ns. unfold carries_ref in Hc. apply andb_prop in Hc as [Hc Hs].
  unfold hook_linked in Hl. unfold node_of, carried. rewrite Hc, Ht. cbn [andb].
  apply orb_prop in Hs as [Hs|Hs]; apply N.eqb_eq in Hs; rewrite Hs in *; cbn in Hk; injection Hk as <-.
  - cbn [flat_map node_refs n_actions n_cases app]. rewrite app_nil_r. cbn [flat_map app].
    unfold action_refs. cbn [a_type a_groups]. rewrite Hl. cbn. left. reflexivity.
  - cbn [flat_map node_refs n_actions n_cases app]. rewrite app_nil_r. cbn [flat_map app].
    unfold action_refs. cbn [a_type a_flow]. rewrite Hl. cbn. left. reflexivity.
Qed.

(* ---- a has_group condition on an edge leaving a row of ANY type is a reference the container's
        hooks visit: the row's node carries (KGroup, (c, None)) ---- *)
Lemma in_case_refs_map (f : name -> rcase) cs c :
  (forall x, case_refs ct_ (f x) = [(KGroup, (x, None))]) -> In c cs ->
  In (KGroup, (c, None)) (flat_map (case_refs ct_) (map f cs)).
Proof.
  intros Hf Hin. apply in_flat_map. exists (f c). split; [apply in_map, Hin|rewrite Hf; left; reflexivity].
Qed.

Lemma edge_test_row ud ty n u cs ud' ns c :
  parse_row ud ty n u cs = Ok (ud', ns) -> In c cs ->
  mem_str ct_ uuid_edge_group_test = true ->
  (h_shape (hook ty) = 3%N -> mem_str ct_ (h_atype (hook ty)) = true) ->
  In (KGroup, (c, None)) (flat_map (node_refs at_ ct_) ns).
Proof.
  intros H Hin Hg H3.
  assert (Hns : ns = [node_of (hook ty) n u cs]).
  { unfold Sheet.parse_row in H. destruct (kind_of_shape (h_shape (hook ty))) as [k|].
    - destruct (h_rec (hook ty) && truthy u).
      + destruct (record_k k ud n u); [|discriminate]. injection H as _ <-. reflexivity.
      + injection H as _ <-. reflexivity.
    - injection H as _ <-. reflexivity. }
  subst ns. cbn [flat_map]. rewrite app_nil_r. unfold node_refs. apply in_or_app. right.
  assert (He : forall x, case_refs ct_ (edge_case x) = [(KGroup, (x, None))]).
  { intro x. unfold case_refs, edge_case. cbn [k_type k_name k_uuid]. rewrite Hg. reflexivity. }
  unfold node_of. destruct (h_shape (hook ty)) as [|p] eqn:Hs.
  - cbn [n_cases]. apply in_case_refs_map; assumption.
  - destruct p as [[|p|]|[|p|]|]; cbn [n_cases]; try (apply in_case_refs_map; assumption).
    apply in_case_refs_map; [|assumption].
    intro x. unfold case_refs. cbn [k_type k_name k_uuid]. rewrite (H3 eq_refl). reflexivity.
Qed.

Lemma edge_test_items_of its c : Forall (fun it => forall ud ud' ns, test_in it c ->
    parse_item ud it = Ok (ud', ns) -> In (KGroup, (c, None)) (flat_map (node_refs at_ ct_) ns)) its ->
  forall it ud ud' ns, In it its -> test_in it c ->
    parse_items ud its = Ok (ud', ns) -> In (KGroup, (c, None)) (flat_map (node_refs at_ ct_) ns).
Proof.
  induction 1 as [|y r Hy Hr IH]; intros it ud ud' ns Hin Ht H; [contradiction|].
  rewrite parse_items_cons in H. destruct (parse_item ud y) as [[ud1 ns1]|e] eqn:E1; [|discriminate].
  destruct (parse_items ud1 r) as [[ud2 ns2]|e] eqn:E2; [|discriminate]. injection H as _ <-.
  rewrite flat_map_app. apply in_or_app. destruct Hin as [->|Hin].
  - left. apply (Hy _ _ _ Ht E1).
  - right. apply (IH _ _ _ _ Hin Ht E2).
Qed.

Section EdgeTests.
Hypothesis Hg : mem_str ct_ uuid_edge_group_test = true.
Hypothesis H3 : forall ty, h_shape (hook ty) = 3%N -> mem_str ct_ (h_atype (hook ty)) = true.

Lemma edge_test_item it c : forall ud ud' ns, test_in it c ->
  parse_item ud it = Ok (ud', ns) -> In (KGroup, (c, None)) (flat_map (node_refs at_ ct_) ns).
Proof.
  induction it as [ty0 n0 u0 cs|its IH] using item_ind2; intros ud ud' ns Ht H.
  - inversion Ht as [ty n u cs' c' Hin|]; subst. apply (edge_test_row _ _ _ _ _ _ _ _ H Hin Hg (H3 ty0)).
  - inversion Ht as [|its' x c' Hin Hx]; subst. destruct sh_cases as [E0|E0].
    + rewrite (parse_item_block_shared _ _ E0) in H. apply (edge_test_items_of _ _ IH _ _ _ _ Hin Hx H).
    + rewrite (parse_item_block_fresh _ _ E0) in H. destruct (parse_items empty_udict its) as [[ud1 ns1]|e] eqn:E; [|discriminate]. injection H as _ <-.
      apply (edge_test_items_of _ _ IH _ _ _ _ Hin Hx E).
Qed.

(* FlowParser.parse: the flow it returns has the test among the references the container visits *)
Lemma edge_test_flow ud fs ud' f it c : parse_flow ud fs = Ok (ud', f) -> In it (fs_items fs) -> test_in it c ->
  In (KGroup, (c, None)) (flow_refs at_ ct_ f).
Proof.
  intros H Hin Ht. unfold Sheet.parse_flow in H.
  destruct (Sheet.parse_items rh_ sh_ ud (fs_items fs)) as [[ud1 ns]|e] eqn:E; [|discriminate].
  injection H as _ <-. unfold flow_refs. cbn [f_nodes].
  apply (edge_test_items_of (fs_items fs) c) with (it := it) (ud := ud) (ud' := ud1); try assumption.
  apply Forall_forall. intros x _. apply edge_test_item.
Qed.
End EdgeTests.

Lemma carried_items_of its : Forall (fun it => forall b ty n u ud ud' ns k, row_in it b ty n u ->
    parse_item ud it = Ok (ud', ns) -> truthy u = true -> kind_of_shape (h_shape (hook ty)) = Some k ->
    carries_ref (hook ty) = true -> hook_linked (hook ty) -> In (k, (n, u)) (flat_map (node_refs at_ ct_) ns)) its ->
  forall it b ty n u ud ud' ns k, In it its -> row_in it b ty n u ->
    parse_items ud its = Ok (ud', ns) -> truthy u = true -> kind_of_shape (h_shape (hook ty)) = Some k ->
    carries_ref (hook ty) = true -> hook_linked (hook ty) -> In (k, (n, u)) (flat_map (node_refs at_ ct_) ns).
Proof.
  induction 1 as [|y r Hy Hr IH]; intros it b ty n u ud ud' ns k Hin Hrow H Ht Hk Hc Hl; [contradiction|].
  rewrite parse_items_cons in H. destruct (parse_item ud y) as [[ud1 ns1]|e] eqn:E1; [|discriminate].
  destruct (parse_items ud1 r) as [[ud2 ns2]|e] eqn:E2; [|discriminate]. injection H as _ <-.
  rewrite flat_map_app. apply in_or_app. destruct Hin as [->|Hin].
  - left. apply (Hy _ _ _ _ _ _ _ _ Hrow E1 Ht Hk Hc Hl).
  - right. apply (IH _ _ _ _ _ _ _ _ _ Hin Hrow E2 Ht Hk Hc Hl).
Qed.

Lemma carried_item it : forall b ty n u ud ud' ns k, row_in it b ty n u ->
  parse_item ud it = Ok (ud', ns) -> truthy u = true -> kind_of_shape (h_shape (hook ty)) = Some k ->
  carries_ref (hook ty) = true -> hook_linked (hook ty) -> In (k, (n, u)) (flat_map (node_refs at_ ct_) ns).
Proof.
  induction it as [ty0 n0 u0 cs|its IH] using item_ind2; intros b ty n u ud ud' ns k Hrow H Ht Hk Hc Hl.
  - inversion Hrow; subst. apply (carried_row _ _ _ _ _ _ _ _ H Ht Hk Hc Hl).
  - inversion Hrow as [|its' x b' ty' n' u' Hin Hx]; subst. destruct sh_cases as [E0|E0].
    + rewrite (parse_item_block_shared _ _ E0) in H. apply (carried_items_of _ IH _ _ _ _ _ _ _ _ _ Hin Hx H Ht Hk Hc Hl).
    + rewrite (parse_item_block_fresh _ _ E0) in H. destruct (parse_items empty_udict its) as [[ud1 ns1]|e] eqn:E; [|discriminate]. injection H as _ <-.
      apply (carried_items_of _ IH _ _ _ _ _ _ _ _ _ Hin Hx E Ht Hk Hc Hl).
Qed.

Lemma carried_items its it b ty n u ud ud' ns k : In it its -> row_in it b ty n u ->
  parse_items ud its = Ok (ud', ns) -> truthy u = true -> kind_of_shape (h_shape (hook ty)) = Some k ->
  carries_ref (hook ty) = true -> hook_linked (hook ty) -> In (k, (n, u)) (flat_map (node_refs at_ ct_) ns).
Proof. apply carried_items_of. apply Forall_forall. intros x _. apply carried_item. Qed.

(* ---- one flow sheet ---- *)
(* [honoured h b]: does the obj_id of a row with hook h, beneath a block (b = true) or not, reach
   the container the FlowParser was given *)
Definition honoured (h : rhook) (b : bool) : bool :=
  (h_rec h && (negb b || sh_)) || carries_ref h.

Lemma parse_flow_grows ud fs ud' f : parse_flow ud fs = Ok (ud', f) -> grows ud ud'.
Proof.
  unfold Sheet.parse_flow. destruct (Sheet.parse_items rh_ sh_ ud (fs_items fs)) as [[ud1 ns]|e] eqn:E; [|discriminate].
  intros H. injection H as <- _. apply (grows_trans _ ud1); [apply (parse_items_grows _ _ _ _ E)|apply grows_bump].
Qed.

Lemma parse_flow_shape ud fs ud' f : parse_flow ud fs = Ok (ud', f) ->
  f_name f = fs_name fs /\ truthy (f_uuid f) = true
  /\ exists ud1, parse_items ud (fs_items fs) = Ok (ud1, f_nodes f) /\ ud' = bump ud1.
Proof.
  unfold Sheet.parse_flow. destruct (Sheet.parse_items rh_ sh_ ud (fs_items fs)) as [[ud1 ns]|e] eqn:E; [|discriminate].
  intros H. injection H as <- <-. cbn. repeat split. exists ud1. split; reflexivity.
Qed.

(* what parsing one sheet establishes for an honoured row: the uuid is bound in the dictionary the
   parser wrote to, or sits on a reference of the flow it returned *)
Lemma parse_flow_source ud fs ud' f it b ty n u k : parse_flow ud fs = Ok (ud', f) ->
  In it (fs_items fs) -> row_in it b ty n u -> truthy u = true ->
  kind_of_shape (h_shape (hook ty)) = Some k -> hook_linked (hook ty) -> honoured (hook ty) b = true ->
  dget (sel k ud') n = Some u \/ In (k, (n, u)) (flow_refs at_ ct_ f).
Proof.
  intros H Hin Hrow Ht Hk Hl Hh. apply parse_flow_shape in H as (_ & _ & ud1 & Hp & ->).
  unfold honoured in Hh. apply orb_prop in Hh as [Hh|Hh].
  - left. apply andb_prop in Hh as [Hrec Hb]. rewrite sel_bump.
    apply (recorded_items _ _ _ _ _ _ _ _ _ _ Hin Hrow Hp Ht Hk Hrec).
    destruct b; [right|left; reflexivity]. cbn in Hb. exact Hb.
  - right. unfold flow_refs. apply (carried_items _ _ _ _ _ _ _ _ _ _ Hin Hrow Hp Ht Hk Hh Hl).
Qed.

End Generic.

(* ====================================================================================== *)
(* Whole workbooks and histories: the container that is finally validated / rendered.      *)
(* Action / router-test tables: the regenerated ones (R, Rc of ContainerFacts).             *)
(* ====================================================================================== *)
Lemma oset_in_new {V} (d : list (str * V)) k v : In (k, v) (oset str_eqb d k v).
Proof.
  induction d as [|[k' v'] r IH]; cbn; [left; reflexivity|].
  destruct (str_eqb k' k) eqn:E; [apply PyStrFacts.str_eqb_eq in E; subst; left; reflexivity|right; exact IH].
Qed.

Lemma oset_in_other {V} (d : list (str * V)) k v n f : In (n, f) d -> n <> k -> In (n, f) (oset str_eqb d k v).
Proof.
  intros Hin Hne. induction d as [|[k' v'] r IH]; [contradiction|]. cbn.
  destruct (str_eqb k' k) eqn:E.
  - apply PyStrFacts.str_eqb_eq in E. subst k'. destruct Hin as [Hin|Hin]; [injection Hin as -> _; contradiction|right; exact Hin].
  - destruct Hin as [Hin|Hin]; [left; exact Hin|right; apply IH, Hin].
Qed.

Lemma oset_values {V} (P : V -> Prop) (d : list (str * V)) k v : Forall P (map snd d) -> P v -> Forall P (map snd (oset str_eqb d k v)).
Proof.
  intros Hd Hv. induction d as [|[k' v'] r IH]; cbn; [constructor; [exact Hv|constructor]|].
  inversion Hd as [|x l Hx Hl]; subst. destruct (str_eqb k' k); cbn; constructor; auto.
Qed.

Lemma in_flow_occs c f k n u : In f (flows c) -> In (k, (n, u)) (flow_refs R Rc f) -> In (k, (n, u)) (occs c).
Proof.
  intros Hf Hr. rewrite occs_eq. unfold occs_g, refs_of. rewrite !in_app_iff. right. right. left.
  apply in_flat_map. exists f. split; assumption.
Qed.

Lemma step_occs_mono st o st' x : o <> ORender -> step st o = Ok st' -> In x (occs (st_c st)) -> In x (occs (st_c st')).
Proof.
  intros Hne H Hin. rewrite occs_eq in *. unfold occs_g, refs_of in *.
  destruct o as [n u|n u|f|c|t|]; cbn in H; [| | | | |contradiction].
  - destruct (record_k KGroup (st_d st) n u); [|discriminate]. injection H as <-. exact Hin.
  - destruct (record_k KFlow (st_d st) n u); [|discriminate]. injection H as <-. exact Hin.
  - destruct (record_k KFlow (st_d st) (f_name f) (f_uuid f)); [|discriminate]. injection H as <-.
    cbn [st_c groups flows campaigns triggers]. rewrite map_app, flat_map_app, !in_app_iff in *. tauto.
  - injection H as <-. cbn [with_c st_c groups flows campaigns triggers]. rewrite flat_map_app, !in_app_iff in *. tauto.
  - injection H as <-. cbn [with_c st_c groups flows campaigns triggers]. rewrite flat_map_app, !in_app_iff in *. tauto.
Qed.

Lemma step_flows_mono st o st' f : o <> ORender -> step st o = Ok st' -> In f (flows (st_c st)) -> In f (flows (st_c st')).
Proof.
  intros Hne H Hin. destruct o as [n u|n u|f0|c|t|]; cbn in H; [| | | | |contradiction].
  - destruct (record_k KGroup (st_d st) n u); [|discriminate]. injection H as <-. exact Hin.
  - destruct (record_k KFlow (st_d st) n u); [|discriminate]. injection H as <-. exact Hin.
  - destruct (record_k KFlow (st_d st) (f_name f0) (f_uuid f0)); [|discriminate]. injection H as <-.
    cbn [st_c flows]. apply in_or_app. left. exact Hin.
  - injection H as <-. exact Hin.
  - injection H as <-. exact Hin.
Qed.

Lemma step_add_flow st f st' : step st (OAddFlow f) = Ok st' -> In f (flows (st_c st')).
Proof.
  cbn. destruct (record_k KFlow (st_d st) (f_name f) (f_uuid f)); [|discriminate]. intros H. injection H as <-.
  cbn [st_c flows]. apply in_or_app. right. left. reflexivity.
Qed.

Lemma run_flows_mono ops : forall st st' f, Forall (fun o => o <> ORender) ops -> run ops st = Ok st' ->
  In f (flows (st_c st)) -> In f (flows (st_c st')).
Proof.
  unfold run. induction ops as [|o r IH]; intros st st' f Hn H Hin; cbn in H.
  - injection H as <-. exact Hin.
  - inversion Hn as [|x l Ho Hr]; subst. destruct (step st o) as [st1|e] eqn:E; [|discriminate].
    apply (IH st1 st' f Hr H). apply (step_flows_mono _ _ _ _ Ho E Hin).
Qed.

Lemma run_adds_flow ops : forall st st' f, Forall (fun o => o <> ORender) ops -> run ops st = Ok st' ->
  In (OAddFlow f) ops -> In f (flows (st_c st')).
Proof.
  unfold run. induction ops as [|o r IH]; intros st st' f Hn H Hin; [contradiction|]. cbn in H.
  inversion Hn as [|x l Ho Hr]; subst. destruct (step st o) as [st1|e] eqn:E; [|discriminate].
  destruct Hin as [->|Hin].
  - apply (run_flows_mono r st1 st' f Hr H). apply (step_add_flow _ _ _ E).
  - apply (IH st1 st' f Hr H Hin).
Qed.

Section Workbook.
Variable rh_ : rhooks.
Variable sh_ : bool.
Notation hook ty := (hook_of rh_ ty).

Lemma parse_flows_grows l : forall ud acc ud' fl, parse_flows rh_ sh_ ud l acc = Ok (ud', fl) -> grows ud ud'.
Proof.
  induction l as [|a r IH]; intros ud acc ud' fl H; cbn in H.
  - injection H as <- _. apply grows_refl.
  - destruct (parse_flow rh_ sh_ ud a) as [[ud1 f1]|e] eqn:E; [|discriminate].
    apply (grows_trans _ ud1); [apply (parse_flow_grows _ _ _ _ _ _ E)|apply (IH _ _ _ _ H)].
Qed.

Lemma parse_flows_acc_keeps l : forall ud acc ud' fl, parse_flows rh_ sh_ ud l acc = Ok (ud', fl) ->
  forall n f, In (n, f) acc -> ~ In n (map fs_name l) -> In (n, f) fl.
Proof.
  induction l as [|a r IH]; intros ud acc ud' fl H n f Hin Hn; cbn in H.
  - injection H as _ <-. exact Hin.
  - destruct (parse_flow rh_ sh_ ud a) as [[ud1 f1]|e] eqn:E; [|discriminate].
    apply (IH _ _ _ _ H).
    + apply oset_in_other; [exact Hin|]. intros ->. apply Hn. left. reflexivity.
    + intros Hr. apply Hn. right. exact Hr.
Qed.

Lemma parse_flows_uuid l : forall ud acc ud' fl, parse_flows rh_ sh_ ud l acc = Ok (ud', fl) ->
  Forall (fun f => truthy (f_uuid f) = true) (map snd acc) -> Forall (fun f => truthy (f_uuid f) = true) (map snd fl).
Proof.
  induction l as [|a r IH]; intros ud acc ud' fl H Ha; cbn in H.
  - injection H as _ <-. exact Ha.
  - destruct (parse_flow rh_ sh_ ud a) as [[ud1 f1]|e] eqn:E; [|discriminate].
    apply (IH _ _ _ _ H). apply oset_values; [exact Ha|]. apply (parse_flow_shape _ _ _ _ _ _ E).
Qed.

(* every flow sheet was parsed at some point of the growing dictionary; its flow object is
   among the added ones unless a later sheet of the same name replaced it *)
Lemma parse_flows_each l : forall ud acc ud' fl, parse_flows rh_ sh_ ud l acc = Ok (ud', fl) ->
  forall fs, In fs l -> exists udi udi' f, parse_flow rh_ sh_ udi fs = Ok (udi', f) /\ grows udi' ud'
    /\ (NoDup (map fs_name l) -> In f (map snd fl)).
Proof.
  induction l as [|a r IH]; intros ud acc ud' fl H fs Hin; [contradiction|]. cbn in H.
  destruct (parse_flow rh_ sh_ ud a) as [[ud1 f1]|e] eqn:E; [|discriminate].
  destruct Hin as [->|Hin].
  - exists ud, ud1, f1. split; [exact E|]. split; [apply (parse_flows_grows _ _ _ _ _ H)|].
    intros Hnd. inversion Hnd as [|x l Hx Hl]; subst.
    apply (in_map snd _ (fs_name fs, f1)). apply (parse_flows_acc_keeps _ _ _ _ _ H); [apply oset_in_new|exact Hx].
  - destruct (IH _ _ _ _ H fs Hin) as (udi & udi' & f & Hp & Hg & Hk). exists udi, udi', f. split; [exact Hp|]. split; [exact Hg|].
    intros Hnd. inversion Hnd; subst. auto.
Qed.

Definition add_ops (fl : list (name * flow)) (wb : workbook) : list op :=
  map OAddFlow (map snd fl) ++ map OAddCampaign (wb_campaigns wb) ++ map OAddTrigger (wb_triggers wb).

Lemma add_ops_no_render fl wb : Forall (fun o => o <> ORender) (add_ops fl wb).
Proof.
  unfold add_ops. apply Forall_forall. intros o Hin. rewrite !in_app_iff, !in_map_iff in Hin.
  destruct Hin as [(x & <- & _)|[(x & <- & _)|(x & <- & _)]]; discriminate.
Qed.

Lemma add_ops_ok fl wb : Forall (fun f => truthy (f_uuid f) = true) (map snd fl) -> Forall op_ok (add_ops fl wb).
Proof.
  intros Hf. unfold add_ops. apply Forall_forall. intros o Hin. rewrite !in_app_iff, !in_map_iff in Hin.
  destruct Hin as [(x & <- & Hx)|[(x & <- & _)|(x & <- & _)]]; cbn; auto.
  rewrite Forall_forall in Hf. apply Hf. apply in_map_iff in Hx as (y & <- & Hy). apply in_map, Hy.
Qed.

Lemma parse_all_split wb st : parse_all rh_ sh_ wb = Ok st ->
  exists ud fl, parse_flows rh_ sh_ empty_udict (wb_flows wb) [] = Ok (ud, fl)
    /\ run (add_ops fl wb) {| st_d := ud; st_c := empty_container |} = Ok st.
Proof.
  unfold parse_all. destruct (parse_flows rh_ sh_ empty_udict (wb_flows wb) []) as [[ud fl]|e]; [|discriminate].
  intros H. exists ud, fl. split; [reflexivity|exact H].
Qed.

Lemma parse_all_inv wb st : parse_all rh_ sh_ wb = Ok st -> hist_inv st.
Proof.
  intros H. apply parse_all_split in H as (ud & fl & Hp & Hr).
  assert (Hi0 : hist_inv {| st_d := ud; st_c := empty_container |}).
  { split; cbn [st_d st_c].
    - apply (proj2 (parse_flows_grows _ _ _ _ _ Hp) dict_wf_empty).
    - intros f Hf. destruct Hf. }
  apply (run_hist_inv _ _ _ Hi0 (add_ops_ok _ _ (parse_flows_uuid _ _ _ _ _ Hp (Forall_nil _))) Hr).
Qed.

(* what [parse_all] establishes for an honoured row of any flow sheet *)
Lemma parse_all_source wb st fs it b ty n u k : parse_all rh_ sh_ wb = Ok st ->
  In fs (wb_flows wb) -> In it (fs_items fs) -> row_in it b ty n u -> truthy u = true ->
  kind_of_shape (h_shape (hook ty)) = Some k -> hook_linked R (hook ty) ->
  (h_rec (hook ty) && (negb b || sh_) = true \/ (carries_ref (hook ty) = true /\ NoDup (map fs_name (wb_flows wb)))) ->
  explicit_source st k n u.
Proof.
  intros H Hfs Hit Hrow Ht Hk Hl Hh. apply parse_all_split in H as (ud & fl & Hp & Hr).
  destruct (parse_flows_each _ _ _ _ _ Hp fs Hfs) as (udi & udi' & f & Hpf & Hg & Hkept).
  assert (Hhon : honoured sh_ (hook ty) b = true).
  { unfold honoured. destruct Hh as [->|[-> _]]; [reflexivity|apply orb_true_r]. }
  destruct Hh as [Hrec|[Hc Hnd]].
  - right. apply andb_prop in Hrec as [Hrec Hb].
    apply parse_flow_shape in Hpf as (_ & _ & ud1 & Hpi & ->).
    apply (run_binding_permanent _ _ _ _ _ _ Hr); [|exact Ht]. cbn [st_d].
    apply (proj1 Hg); [|exact Ht]. rewrite sel_bump.
    apply (recorded_items rh_ sh_ _ _ _ _ _ _ _ _ _ _ Hit Hrow Hpi Ht Hk Hrec).
    destruct b; [right|left; reflexivity]. exact Hb.
  - left. apply (in_flow_occs _ f).
    + apply (run_adds_flow _ _ _ _ (add_ops_no_render fl wb) Hr). unfold add_ops. apply in_or_app. left.
      apply in_map. apply Hkept, Hnd.
    + apply parse_flow_shape in Hpf as (_ & _ & ud1 & Hpi & _). unfold flow_refs.
      apply (carried_items rh_ sh_ R Rc _ _ _ _ _ _ _ _ _ _ Hit Hrow Hpi Ht Hk Hc Hl).
Qed.

Theorem sheet_explicit_wins_g wb st st' fs it b ty n u k : parse_all rh_ sh_ wb = Ok st -> validate st = Ok st' ->
  In fs (wb_flows wb) -> In it (fs_items fs) -> row_in it b ty n u -> truthy u = true ->
  kind_of_shape (h_shape (hook ty)) = Some k -> hook_linked R (hook ty) ->
  (h_rec (hook ty) && (negb b || sh_) = true \/ (carries_ref (hook ty) = true /\ NoDup (map fs_name (wb_flows wb)))) ->
  dget (sel k (st_d st')) n = Some u /\ forall u', In (k, (n, u')) (occs (st_c st')) -> u' = u.
Proof.
  intros H Hv Hfs Hit Hrow Ht Hk Hl Hh. destruct (parse_all_inv _ _ H) as [Hwf Hfl].
  apply (explicit_wins _ _ _ _ _ Hwf Hfl Hv Ht). apply (parse_all_source _ _ _ _ _ _ _ _ _ H Hfs Hit Hrow Ht Hk Hl Hh).
Qed.

(* two honoured rows that give one (kind, name) different uuids: compile + validate fails *)
Theorem sheet_conflict_rejected_g wb fs1 it1 b1 ty1 fs2 it2 b2 ty2 n u1 u2 k :
  In fs1 (wb_flows wb) -> In it1 (fs_items fs1) -> row_in it1 b1 ty1 n u1 -> truthy u1 = true ->
  kind_of_shape (h_shape (hook ty1)) = Some k -> hook_linked R (hook ty1) ->
  (h_rec (hook ty1) && (negb b1 || sh_) = true \/ (carries_ref (hook ty1) = true /\ NoDup (map fs_name (wb_flows wb)))) ->
  In fs2 (wb_flows wb) -> In it2 (fs_items fs2) -> row_in it2 b2 ty2 n u2 -> truthy u2 = true ->
  kind_of_shape (h_shape (hook ty2)) = Some k -> hook_linked R (hook ty2) ->
  (h_rec (hook ty2) && (negb b2 || sh_) = true \/ (carries_ref (hook ty2) = true /\ NoDup (map fs_name (wb_flows wb)))) ->
  u1 <> u2 ->
  exists e, bind (parse_all rh_ sh_ wb) validate = Err e.
Proof.
  intros F1 I1 R1 T1 K1 L1 H1 F2 I2 R2 T2 K2 L2 H2 Hne.
  destruct (parse_all rh_ sh_ wb) as [st|e] eqn:E; [|exists e; reflexivity]. cbn [bind].
  destruct (validate st) as [st'|e] eqn:Ev; [|exists e; reflexivity]. exfalso. apply Hne.
  destruct (sheet_explicit_wins_g _ _ _ _ _ _ _ _ _ _ E Ev F1 I1 R1 T1 K1 L1 H1) as [A _].
  destruct (sheet_explicit_wins_g _ _ _ _ _ _ _ _ _ _ E Ev F2 I2 R2 T2 K2 L2 H2) as [B _]. congruence.
Qed.

(* ---- histories on one container: FlowParser.parse() among other operations ---- *)
Definition sop_ok (o : sop) : Prop :=
  match o with SOp o => op_ok o | SParse _ => True | SParseAll _ => False end.

Lemma sstep_inv st o st' : hist_inv st -> sop_ok o -> sstep rh_ sh_ st o = Ok st' -> hist_inv st'.
Proof.
  intros Hi Hok H. destruct o as [o|fs|wb]; cbn in H, Hok; [apply (step_hist_inv _ _ _ Hi Hok H)| |contradiction].
  destruct (parse_flow rh_ sh_ (st_d st) fs) as [[ud f]|e] eqn:E; [|discriminate].
  apply (step_hist_inv {| st_d := ud; st_c := st_c st |} (OAddFlow f)); [|apply (parse_flow_shape _ _ _ _ _ _ E)|exact H].
  destruct Hi as [Hwf Hfl]. split; [apply (proj2 (parse_flow_grows _ _ _ _ _ _ E) Hwf)|exact Hfl].
Qed.

Lemma step_source_persists st o st' k n u : hist_inv st -> step st o = Ok st' -> truthy u = true ->
  explicit_source st k n u -> explicit_source st' k n u.
Proof.
  intros [Hwf Hfl] H Ht Hs. destruct (op_eq_render o) as [->|Hne].
  - right. cbn in H. apply (explicit_wins _ _ _ _ _ Hwf Hfl H Ht Hs).
  - destruct Hs as [Hs|Hs]; [left; apply (step_occs_mono _ _ _ _ Hne H Hs)|right; apply (step_binding_permanent _ _ _ _ _ _ H Hs Ht)].
Qed.

Lemma sstep_source_persists st o st' k n u : hist_inv st -> sop_ok o -> sstep rh_ sh_ st o = Ok st' -> truthy u = true ->
  explicit_source st k n u -> explicit_source st' k n u.
Proof.
  intros Hi Hok H Ht Hs. destruct o as [o|fs|wb]; cbn in H, Hok; [apply (step_source_persists _ _ _ _ _ _ Hi H Ht Hs)| |contradiction].
  destruct (parse_flow rh_ sh_ (st_d st) fs) as [[ud f]|e] eqn:E; [|discriminate].
  apply (step_source_persists {| st_d := ud; st_c := st_c st |} (OAddFlow f)); [|exact H|exact Ht|].
  - destruct Hi as [Hwf Hfl]. split; [apply (proj2 (parse_flow_grows _ _ _ _ _ _ E) Hwf)|exact Hfl].
  - destruct Hs as [Hs|Hs]; [left; exact Hs|right; apply (proj1 (parse_flow_grows _ _ _ _ _ _ E)); assumption].
Qed.

Lemma srun_source_persists ops : forall st st' k n u, hist_inv st -> Forall sop_ok ops -> srun rh_ sh_ ops st = Ok st' ->
  truthy u = true -> explicit_source st k n u -> hist_inv st' /\ explicit_source st' k n u.
Proof.
  unfold srun. induction ops as [|o r IH]; intros st st' k n u Hi Hok H Ht Hs; cbn in H.
  - injection H as <-. split; assumption.
  - inversion Hok as [|x l Ho Hr]; subst. destruct (sstep rh_ sh_ st o) as [st1|e] eqn:E; [|discriminate].
    apply (IH st1 st' k n u (sstep_inv _ _ _ Hi Ho E) Hr H Ht). apply (sstep_source_persists _ _ _ _ _ _ Hi Ho E Ht Hs).
Qed.

(* a flow sheet parsed into a long-lived container: an honoured obj_id is the uuid of its name
   at every later render of that container, whatever happens in between *)
Theorem sheet_history_wins_g st fs st1 ops st2 st3 it b ty n u k :
  hist_inv st -> sstep rh_ sh_ st (SParse fs) = Ok st1 ->
  In it (fs_items fs) -> row_in it b ty n u -> truthy u = true ->
  kind_of_shape (h_shape (hook ty)) = Some k -> hook_linked R (hook ty) -> honoured sh_ (hook ty) b = true ->
  Forall sop_ok ops -> srun rh_ sh_ ops st1 = Ok st2 -> validate st2 = Ok st3 ->
  dget (sel k (st_d st3)) n = Some u /\ forall u', In (k, (n, u')) (occs (st_c st3)) -> u' = u.
Proof.
  intros Hi H Hit Hrow Ht Hk Hl Hh Hok Hr Hv.
  assert (Hi1 : hist_inv st1) by apply (sstep_inv st (SParse fs) st1 Hi I H).
  assert (Hs1 : explicit_source st1 k n u).
  { cbn [sstep] in H. destruct (parse_flow rh_ sh_ (st_d st) fs) as [[ud f]|e] eqn:E; [|discriminate].
    destruct (parse_flow_source rh_ sh_ R Rc _ _ _ _ _ _ _ _ _ _ E Hit Hrow Ht Hk Hl Hh) as [Hd|Ho].
    - right. apply (step_binding_permanent {| st_d := ud; st_c := st_c st |} _ _ _ _ _ H Hd Ht).
    - left. apply (in_flow_occs _ f); [apply (step_add_flow _ _ _ H)|exact Ho]. }
  destruct (srun_source_persists _ _ _ _ _ _ Hi1 Hok Hr Ht Hs1) as [[Hwf Hfl] Hs2].
  apply (explicit_wins _ _ _ _ _ Hwf Hfl Hv Ht Hs2).
Qed.

(* parse_all starts from nothing: what it returns does not depend on the history before it *)
Lemma sstep_parse_all_independent st1 st2 wb : sstep rh_ sh_ st1 (SParseAll wb) = sstep rh_ sh_ st2 (SParseAll wb).
Proof. reflexivity. Qed.

Lemma strace_parse_all_independent wb ops st1 st2 i :
  strace rh_ sh_ (SParseAll wb :: ops) st1 i = strace rh_ sh_ (SParseAll wb :: ops) st2 i.
Proof. cbn [strace]. rewrite (sstep_parse_all_independent st1 st2). reflexivity. Qed.

End Workbook.

(* ====================================================================================== *)
(* The code in /repo today: the regenerated row hooks and block flag.                      *)
(* ====================================================================================== *)
Definition s_add_to_group : str := [97; 100; 100; 95; 116; 111; 95; 103; 114; 111; 117; 112]%N.
Definition s_remove_from_group : str := [114; 101; 109; 111; 118; 101; 95; 102; 114; 111; 109; 95; 103; 114; 111; 117; 112]%N.
Definition s_split_by_group : str := [115; 112; 108; 105; 116; 95; 98; 121; 95; 103; 114; 111; 117; 112]%N.
Definition s_start_new_flow : str := [115; 116; 97; 114; 116; 95; 110; 101; 119; 95; 102; 108; 111; 119]%N.
Definition s_send_message : str := [115; 101; 110; 100; 95; 109; 101; 115; 115; 97; 103; 101]%N.

Definition hook_entry (e : str * (N * (str * (bool * bool)))) : rhook :=
  {| h_shape := fst (snd e); h_atype := fst (snd (snd e)); h_rec := fst (snd (snd (snd e))); h_carry := snd (snd (snd (snd e))) |}.

(* what the proofs need of a row hook: a row type that creates a reference records a truthy obj_id
   into the container of its FlowParser; a group-action row also puts it on the Group object; the
   action / test type it creates is one the container's record and assign hooks visit, with the
   same kind of reference *)
Definition hook_ok (h : rhook) : bool :=
  match h_shape h with
  | 0%N => true
  | 1%N => h_rec h && h_carry h && N.eqb (assoc_n R (h_atype h)) 1
  | 2%N => h_rec h && N.eqb (assoc_n R (h_atype h)) 2
  | 3%N => h_rec h && mem_str Rc (h_atype h)
  | _ => false
  end.

Definition sheet_tables_ok : bool :=
  forallb (fun e => hook_ok (hook_entry e)) uuid_row_hooks
  && N.eqb (h_shape (hook_of uuid_row_hooks s_add_to_group)) 1
  && N.eqb (h_shape (hook_of uuid_row_hooks s_remove_from_group)) 1
  && N.eqb (h_shape (hook_of uuid_row_hooks s_start_new_flow)) 2
  && N.eqb (h_shape (hook_of uuid_row_hooks s_split_by_group)) 3
  (* a has_group condition on an edge leaving any row becomes a test the container's hooks visit *)
  && mem_str Rc uuid_edge_group_test.

Lemma sheet_tables_ok_true : sheet_tables_ok = true.
Proof. vm_compute. reflexivity. Qed.

Lemma hook_of_cases tbl ty : hook_of tbl ty = no_hook \/ exists e, In e tbl /\ hook_of tbl ty = hook_entry e.
Proof.
  induction tbl as [|[t [s [a [r c]]]] rest IH]; cbn; [left; reflexivity|].
  destruct (str_eqb t ty).
  - right. exists (t, (s, (a, (r, c)))). split; [left; reflexivity|reflexivity].
  - destruct IH as [IH|(e & He & IH)]; [left; exact IH|right; exists e; split; [right; exact He|exact IH]].
Qed.

Lemma hook_ok_all ty : hook_ok (hook_of uuid_row_hooks ty) = true.
Proof.
  pose proof sheet_tables_ok_true as H. unfold sheet_tables_ok in H.
  do 5 (apply andb_prop in H as [H _]). rewrite forallb_forall in H.
  destruct (hook_of_cases uuid_row_hooks ty) as [->|(e & He & ->)]; [reflexivity|apply H, He].
Qed.

Definition ref_kind (ty : str) : option kind := kind_of_shape (h_shape (hook_of uuid_row_hooks ty)).
Definition sheet_honoured (ty : str) (b : bool) : bool := honoured uuid_block_shared (hook_of uuid_row_hooks ty) b.

Lemma hook_facts ty k : ref_kind ty = Some k ->
  h_rec (hook_of uuid_row_hooks ty) = true /\ hook_linked R (hook_of uuid_row_hooks ty)
  /\ (h_shape (hook_of uuid_row_hooks ty) = 1%N -> carries_ref (hook_of uuid_row_hooks ty) = true).
Proof.
  unfold ref_kind. intros Hk. pose proof (hook_ok_all ty) as H. unfold hook_ok in H. unfold hook_linked, carries_ref.
  destruct (h_shape (hook_of uuid_row_hooks ty)) as [|p]; [discriminate|].
  destruct p as [[|p|]|[|p|]|]; try discriminate.
  - apply andb_prop in H as [H _]. split; [exact H|]. split; [exact I|discriminate].
  - apply andb_prop in H as [H1 H2]. apply N.eqb_eq in H2. split; [exact H1|]. split; [exact H2|discriminate].
  - apply andb_prop in H as [H1 H2]. apply andb_prop in H1 as [H1 H3]. apply N.eqb_eq in H2.
    split; [exact H1|]. split; [exact H2|]. intros _. rewrite H3. reflexivity.
Qed.

Lemma sheet_honoured_toplevel ty k : ref_kind ty = Some k -> sheet_honoured ty false = true.
Proof. intros Hk. destruct (hook_facts _ _ Hk) as (Hr & _). unfold sheet_honoured, honoured. rewrite Hr. reflexivity. Qed.

Lemma sheet_honoured_group_action ty b : h_shape (hook_of uuid_row_hooks ty) = 1%N -> sheet_honoured ty b = true.
Proof.
  intros Hs. assert (Hk : ref_kind ty = Some KGroup) by (unfold ref_kind; rewrite Hs; reflexivity).
  destruct (hook_facts _ _ Hk) as (_ & _ & Hc). unfold sheet_honoured, honoured. rewrite (Hc Hs). apply orb_true_r.
Qed.

Lemma group_action_rows : h_shape (hook_of uuid_row_hooks s_add_to_group) = 1%N /\ h_shape (hook_of uuid_row_hooks s_remove_from_group) = 1%N
  /\ h_shape (hook_of uuid_row_hooks s_start_new_flow) = 2%N /\ h_shape (hook_of uuid_row_hooks s_split_by_group) = 3%N.
Proof.
  pose proof sheet_tables_ok_true as H. unfold sheet_tables_ok in H.
  apply andb_prop in H as [H _].
  apply andb_prop in H as [H H4]. apply andb_prop in H as [H H3]. apply andb_prop in H as [H H2]. apply andb_prop in H as [_ H1].
  apply N.eqb_eq in H1, H2, H3, H4. auto.
Qed.

(* ---- the theorems of props/C06.v, sheet level ---- *)
(* an honoured obj_id — [sheet_honoured ty b]: the row type records it and the row is not inside an
   insert_as_block template (or blocks share the container), or the row type puts it on the object
   it creates — is the uuid of its name everywhere in the validated container *)
Theorem sheet_explicit_wins wb st st' fs it b ty n u k :
  sheet_parse_all wb = Ok st -> validate st = Ok st' ->
  In fs (wb_flows wb) -> In it (fs_items fs) -> row_in it b ty n u -> truthy u = true ->
  ref_kind ty = Some k -> sheet_honoured ty b = true -> NoDup (map fs_name (wb_flows wb)) ->
  dget (sel k (st_d st')) n = Some u /\ forall u', In (k, (n, u')) (occs (st_c st')) -> u' = u.
Proof.
  intros H Hv Hfs Hit Hrow Ht Hk Hh Hnd. destruct (hook_facts _ _ Hk) as (_ & Hl & _).
  apply (sheet_explicit_wins_g uuid_row_hooks uuid_block_shared _ _ _ _ _ _ _ _ _ _ H Hv Hfs Hit Hrow Ht Hk Hl).
  unfold sheet_honoured, honoured in Hh. apply orb_prop in Hh as [Hh|Hh]; [left; exact Hh|right; split; assumption].
Qed.

(* a row written in the sheet itself (not in an inserted template), of ANY type that creates a
   reference: no side condition on flow names *)
Theorem sheet_toplevel_wins wb st st' fs ty n u cs k :
  sheet_parse_all wb = Ok st -> validate st = Ok st' ->
  In fs (wb_flows wb) -> In (IRow ty n u cs) (fs_items fs) -> truthy u = true -> ref_kind ty = Some k ->
  dget (sel k (st_d st')) n = Some u /\ forall u', In (k, (n, u')) (occs (st_c st')) -> u' = u.
Proof.
  intros H Hv Hfs Hit Ht Hk. destruct (hook_facts _ _ Hk) as (Hr & Hl & _).
  apply (sheet_explicit_wins_g uuid_row_hooks uuid_block_shared _ _ _ _ _ _ _ _ _ _ H Hv Hfs Hit (RI_row ty n u cs) Ht Hk Hl).
  left. rewrite Hr. reflexivity.
Qed.

(* a group-action row (add_to_group, remove_from_group), wherever it sits — also inside inserted
   templates, at any depth *)
Theorem sheet_group_action_wins wb st st' fs it b ty n u :
  sheet_parse_all wb = Ok st -> validate st = Ok st' ->
  In fs (wb_flows wb) -> In it (fs_items fs) -> row_in it b ty n u -> truthy u = true ->
  h_shape (hook_of uuid_row_hooks ty) = 1%N -> NoDup (map fs_name (wb_flows wb)) ->
  dget (gd (st_d st')) n = Some u /\ forall u', In (KGroup, (n, u')) (occs (st_c st')) -> u' = u.
Proof.
  intros H Hv Hfs Hit Hrow Ht Hs Hnd.
  assert (Hk : ref_kind ty = Some KGroup) by (unfold ref_kind; rewrite Hs; reflexivity).
  apply (sheet_explicit_wins _ _ _ _ _ _ _ _ _ _ H Hv Hfs Hit Hrow Ht Hk (sheet_honoured_group_action _ _ Hs) Hnd).
Qed.

Theorem sheet_conflict_rejected wb fs1 it1 b1 ty1 fs2 it2 b2 ty2 n u1 u2 k :
  In fs1 (wb_flows wb) -> In it1 (fs_items fs1) -> row_in it1 b1 ty1 n u1 -> truthy u1 = true ->
  ref_kind ty1 = Some k -> sheet_honoured ty1 b1 = true ->
  In fs2 (wb_flows wb) -> In it2 (fs_items fs2) -> row_in it2 b2 ty2 n u2 -> truthy u2 = true ->
  ref_kind ty2 = Some k -> sheet_honoured ty2 b2 = true ->
  NoDup (map fs_name (wb_flows wb)) -> u1 <> u2 ->
  exists e, bind (sheet_parse_all wb) validate = Err e.
Proof.
  intros F1 I1 R1 T1 K1 H1 F2 I2 R2 T2 K2 H2 Hnd Hne.
  destruct (hook_facts _ _ K1) as (_ & L1 & _). destruct (hook_facts _ _ K2) as (_ & L2 & _).
  apply (sheet_conflict_rejected_g uuid_row_hooks uuid_block_shared wb fs1 it1 b1 ty1 fs2 it2 b2 ty2 n u1 u2 k); try assumption.
  - unfold sheet_honoured, honoured in H1. apply orb_prop in H1 as [H1|H1]; [left; exact H1|right; split; assumption].
  - unfold sheet_honoured, honoured in H2. apply orb_prop in H2 as [H2|H2]; [left; exact H2|right; split; assumption].
Qed.

Theorem sheet_history_wins st fs st1 ops st2 st3 it b ty n u k :
  hist_inv st -> sheet_step st (SParse fs) = Ok st1 ->
  In it (fs_items fs) -> row_in it b ty n u -> truthy u = true -> ref_kind ty = Some k -> sheet_honoured ty b = true ->
  Forall sop_ok ops -> sheet_run ops st1 = Ok st2 -> validate st2 = Ok st3 ->
  dget (sel k (st_d st3)) n = Some u /\ forall u', In (k, (n, u')) (occs (st_c st3)) -> u' = u.
Proof.
  intros Hi H Hit Hrow Ht Hk Hh Hok Hr Hv. destruct (hook_facts _ _ Hk) as (_ & Hl & _).
  apply (sheet_history_wins_g uuid_row_hooks uuid_block_shared _ _ _ _ _ _ _ _ _ _ _ _ Hi H Hit Hrow Ht Hk Hl Hh Hok Hr Hv).
Qed.

Theorem sheet_parse_all_history_independent wb ops st1 st2 i :
  sheet_trace (SParseAll wb :: ops) st1 i = sheet_trace (SParseAll wb :: ops) st2 i.
Proof. apply strace_parse_all_independent. Qed.

(* ---- rows inside insert_as_block whose type only RECORDS its obj_id: decided by the probed flag ---- *)
Definition nG : name := [103]%N.
Definition nF : name := [102]%N.
Definition nF2 : name := [102; 50]%N.
Definition uA : pyuuid := Some (Given [85; 49]%N).
Definition uB : pyuuid := Some (Given [85; 50]%N).

(* flow f: insert_as_block of a template whose only reference row is split_by_group g, obj_id U1 *)
Definition block_witness_wb : workbook :=
  {| wb_flows := [{| fs_name := nF; fs_items := [IBlock [IRow s_split_by_group nG uA [nG]]] |}];
     wb_campaigns := []; wb_triggers := [] |}.
(* the same, plus a second flow that gives g the uuid U2 in the sheet itself *)
Definition block_conflict_wb : workbook :=
  {| wb_flows := [{| fs_name := nF; fs_items := [IBlock [IRow s_split_by_group nG uA [nG]]] |};
                  {| fs_name := nF2; fs_items := [IRow s_add_to_group nG uB []] |}];
     wb_campaigns := []; wb_triggers := [] |}.

(* the obj_id is replaced by an invented uuid / the conflicting workbook is accepted with U2 *)
Definition sheet_block_witness : bool :=
  match bind (sheet_parse_all block_witness_wb) validate with
  | Ok st' => match dget (gd (st_d st')) nG with Some (Some (Fresh _)) => forallb (fun o => negb (pyuuid_eqb (snd (snd o)) uA)) (occs (st_c st')) | _ => false end
  | Err _ => false
  end
  && match bind (sheet_parse_all block_conflict_wb) validate with
     | Ok st' => match dget (gd (st_d st')) nG with Some v => pyuuid_eqb v uB | None => false end
     | Err _ => false
     end.

Definition sheet_block_decided_b : bool := if uuid_block_shared then true else sheet_block_witness.
Lemma sheet_block_decided_b_true : sheet_block_decided_b = true.
Proof. vm_compute. reflexivity. Qed.

Theorem sheet_block_rows_decided :
  if uuid_block_shared
  then forall wb st st' fs it b ty n u k,
         sheet_parse_all wb = Ok st -> validate st = Ok st' ->
         In fs (wb_flows wb) -> In it (fs_items fs) -> row_in it b ty n u -> truthy u = true -> ref_kind ty = Some k ->
         dget (sel k (st_d st')) n = Some u /\ forall u', In (k, (n, u')) (occs (st_c st')) -> u' = u
  else sheet_block_witness = true.
Proof.
  pose proof sheet_block_decided_b_true as W. unfold sheet_block_decided_b in W.
  destruct uuid_block_shared eqn:E.
  - intros wb st st' fs it b ty n u k H Hv Hfs Hit Hrow Ht Hk. destruct (hook_facts _ _ Hk) as (Hr & Hl & _).
    apply (sheet_explicit_wins_g uuid_row_hooks uuid_block_shared _ _ _ _ _ _ _ _ _ _ H Hv Hfs Hit Hrow Ht Hk Hl).
    left. rewrite Hr, E. destruct b; reflexivity.
  - exact W.
Qed.

(* ---- non-vacuity ---- *)
Definition ex_sheet_wb : workbook :=
  {| wb_flows :=
       [{| fs_name := nF;
           fs_items := [IRow s_send_message [] None [];
                        IRow s_split_by_group nG uA [nG; [104]%N];
                        IBlock [IRow s_send_message [] None []; IBlock [IRow s_remove_from_group [104]%N uB []]];
                        IRow s_start_new_flow [120]%N uB []] |};
        {| fs_name := nF2; fs_items := [IRow s_add_to_group nG None []; IRow s_start_new_flow nF None []] |}];
     wb_campaigns := [{| c_events := [{| e_type := [70]%N; e_flow := ([120]%N, None) |}]; c_group := ([104]%N, None) |}];
     wb_triggers := [{| t_flow := (nF2, None); t_groups := [(nG, None)]; t_exclude := [] |}] |}.

Example sheet_explicit_wins_nonvacuous : exists st st',
  sheet_parse_all ex_sheet_wb = Ok st /\ validate st = Ok st'
  /\ NoDup (map fs_name (wb_flows ex_sheet_wb))
  /\ row_in (IBlock [IRow s_send_message [] None []; IBlock [IRow s_remove_from_group [104]%N uB []]]) true s_remove_from_group [104]%N uB
  /\ sheet_honoured s_remove_from_group true = true /\ ref_kind s_remove_from_group = Some KGroup
  /\ ref_kind s_split_by_group = Some KGroup /\ ref_kind s_start_new_flow = Some KFlow
  /\ dget (gd (st_d st')) [104]%N = Some uB /\ dget (gd (st_d st')) nG = Some uA /\ dget (fd (st_d st')) [120]%N = Some uB
  /\ length (occs (st_c st')) = 14%nat.
Proof.
  eexists. eexists. split; [vm_compute; reflexivity|]. split; [vm_compute; reflexivity|].
  split; [repeat constructor; cbn; intuition discriminate|].
  split; [eapply RI_block; [right; left; reflexivity|]; eapply RI_block; [left; reflexivity|]; constructor|].
  repeat split; vm_compute; reflexivity.
Qed.

Definition ex_sheet_conflict_wb : workbook :=
  {| wb_flows := [{| fs_name := nF; fs_items := [IRow s_split_by_group nG uA [nG]] |};
                  {| fs_name := nF2; fs_items := [IBlock [IRow s_add_to_group nG uB []]] |}];
     wb_campaigns := []; wb_triggers := [] |}.

Example sheet_conflict_rejected_nonvacuous :
  sheet_honoured s_split_by_group false = true /\ sheet_honoured s_add_to_group true = true
  /\ NoDup (map fs_name (wb_flows ex_sheet_conflict_wb)) /\ uA <> uB
  /\ bind (sheet_parse_all ex_sheet_conflict_wb) validate = Err EConflict.
Proof.
  split; [vm_compute; reflexivity|]. split; [vm_compute; reflexivity|].
  split; [repeat constructor; cbn; intuition discriminate|]. split; [discriminate|vm_compute; reflexivity].
Qed.

(* ---- group tests on edges leaving rows of any type ---- *)
Theorem sheet_edge_tests_are_refs ud fs ud' f it c :
  parse_flow uuid_row_hooks uuid_block_shared ud fs = Ok (ud', f) -> In it (fs_items fs) -> test_in it c ->
  In (KGroup, (c, None)) (flow_refs R Rc f).
Proof.
  apply edge_test_flow.
  - pose proof sheet_tables_ok_true as H. unfold sheet_tables_ok in H. apply andb_prop in H as [_ H]. exact H.
  - intros ty Hs. pose proof (hook_ok_all ty) as H. unfold hook_ok in H. rewrite Hs in H.
    apply andb_prop in H as [_ H]. exact H.
Qed.

Definition s_wait_for_response : str := [119; 97; 105; 116; 95; 102; 111; 114; 95; 114; 101; 115; 112; 111; 110; 115; 101]%N.
Definition s_split_by_value : str := [115; 112; 108; 105; 116; 95; 98; 121; 95; 118; 97; 108; 117; 101]%N.
Definition s_no_op : str := [110; 111; 95; 111; 112]%N.

(* has_group conditions on edges leaving a wait_for_response row, a split_by_value row inside an
   inserted template, a no_op decision and an add_to_group row: after parse_all + validate the five
   tests, the action and the top-level list all carry the obj_id of the add_to_group row *)
Definition ex_sheet_edge_wb : workbook :=
  {| wb_flows := [{| fs_name := nF; fs_items := [IRow s_wait_for_response [] None [nG];
                                                  IBlock [IRow s_split_by_value [] None [nG; nG]];
                                                  IRow s_no_op [] None [nG]] |};
                  {| fs_name := nF2; fs_items := [IRow s_add_to_group nG uA [nG]] |}];
     wb_campaigns := []; wb_triggers := [] |}.

Example sheet_edge_tests_nonvacuous : exists st st',
  sheet_parse_all ex_sheet_edge_wb = Ok st /\ validate st = Ok st'
  /\ length (filter (fun o => match fst o with KGroup => true | KFlow => false end) (occs (st_c st'))) = 7%nat
  /\ forallb (fun o => match fst o with KGroup => pyuuid_eqb (snd (snd o)) uA | KFlow => true end) (occs (st_c st')) = true.
Proof.
  destruct (sheet_parse_all ex_sheet_edge_wb) as [st|e] eqn:E; [|vm_compute in E; discriminate].
  destruct (validate st) as [st'|e] eqn:E'.
  - exists st, st'. split; [reflexivity|]. split; [exact E'|].
    vm_compute in E. injection E as <-. vm_compute in E'. injection E' as <-. vm_compute. split; reflexivity.
  - vm_compute in E. injection E as <-. vm_compute in E'. discriminate.
Qed.

Example sheet_history_wins_nonvacuous : exists st1 st2 st3,
  hist_inv (init empty_container)
  /\ sheet_step (init empty_container) (SParse {| fs_name := nF; fs_items := [IRow s_start_new_flow [120]%N uB []] |}) = Ok st1
  /\ Forall sop_ok [SOp ORender; SOp (ORecordGroup nG uA); SParse {| fs_name := nF2; fs_items := [IRow s_start_new_flow [120]%N None []] |}]
  /\ sheet_run [SOp ORender; SOp (ORecordGroup nG uA); SParse {| fs_name := nF2; fs_items := [IRow s_start_new_flow [120]%N None []] |}] st1 = Ok st2
  /\ validate st2 = Ok st3 /\ dget (fd (st_d st3)) [120]%N = Some uB /\ length (occs (st_c st3)) = 5%nat.
Proof.
  eexists. eexists. eexists. split; [apply hist_inv_init; intros f []|].
  split; [vm_compute; reflexivity|]. split; [repeat constructor|]. split; [vm_compute; reflexivity|].
  split; [vm_compute; reflexivity|]. split; vm_compute; reflexivity.
Qed.
