(* E4, sheet level — how an explicit uuid written in a flow sheet (column obj_id) reaches the
   container: model of FlowParser._parse_row / _get_row_action / _get_row_node as far as group and
   flow references go, of FlowParser._parse_insert_as_block_row + ContentIndexParser.get_node_group
   (a template pulled in with insert_as_block is parsed by a nested FlowParser), of
   FlowParser.parse and of ContentIndexParser.parse_all.  Definitions only (facts: SheetFacts.v).

   What a row is here: the sheet AFTER templating, include_if, begin_for and begin_block have
   been resolved (those are C03/C17's business): a list of rows in parsing order, where an
   insert_as_block row is the list of rows of the instantiated template.  Rows that create no
   reference are kept (they create a node without references).

   What FlowParser does with the obj_id of a row type — hand a truthy one to
   record_group_uuid / record_flow_uuid of ITS container, and/or put it on the Group /
   FlowReference object it creates — and which container the nested FlowParser of an
   insert_as_block row is given are NOT written here: both are looked up in tables the
   translator regenerates by probing the source tree (uuid_row_hooks, uuid_block_shared). *)
From Coq Require Import List NArith Bool.
From RPFT Require Import Base.Sexp Base.PyStr Base.Result Base.ODict Gen.Tables Uuid.UuidDict Uuid.Container.
Import ListNotations.
Local Open Scope N_scope.

Inductive item :=
| IRow (ty : str) (n : name) (u : pyuuid) (cases : list name)
    (* a row of type ty, main argument n (group name / flow name), obj_id u; cases: the group names
       of the group tests on the edges that leave the row, in order — for a split_by_group row the
       condition of every row that hangs off it; for a row of ANY other type (wait_for_response,
       split_by_value, an action row, a no_op decision) the conditions written with
       condition_type = has_group *)
| IBlock (its : list item).
    (* insert_as_block: the rows of the instantiated template *)

Record rhook := { h_shape : N; h_atype : str; h_rec : bool; h_carry : bool }.
Definition no_hook : rhook := {| h_shape := 0; h_atype := []; h_rec := false; h_carry := false |}.

Definition rhooks := list (str * (N * (str * (bool * bool)))).

Fixpoint hook_of (tbl : rhooks) (ty : str) : rhook :=
  match tbl with
  | [] => no_hook
  | (t, (s, (a, (r, c)))) :: rest =>
    if str_eqb t ty then {| h_shape := s; h_atype := a; h_rec := r; h_carry := c |} else hook_of rest ty
  end.

(* shape: 1 group action, 2 enter-flow action, 3 router with group-test cases *)
Definition kind_of_shape (s : N) : option kind :=
  match s with 1 => Some KGroup | 2 => Some KFlow | 3 => Some KGroup | _ => None end.

(* Group(name=name, uuid=obj_id or None) when the row type puts the obj_id on the object *)
Definition carried (h : rhook) (u : pyuuid) : pyuuid := if h_carry h && truthy u then u else None.

(* a has_group condition on an edge: RowNodeGroup.add_exit / NoOpNodeGroup.add_exit write the test
   as [None, group name] on the router the row has — or on the switch router they create behind an
   action node — whatever its operand is.  The test type is probed (uuid_edge_group_test). *)
Definition edge_case (c : name) : rcase := {| k_type := uuid_edge_group_test; k_uuid := None; k_name := c |}.

(* the node(s) a row creates, reduced to the references in visiting order: the action of the row,
   then the group tests of the edges that leave it *)
Definition node_of (h : rhook) (n : name) (u : pyuuid) (cs : list name) : node :=
  match h_shape h with
  | 1 => {| n_actions := [{| a_type := h_atype h; a_groups := [(n, carried h u)]; a_flow := None |}];
            n_cases := map edge_case cs |}
  | 2 => {| n_actions := [{| a_type := h_atype h; a_groups := []; a_flow := Some (n, carried h u) |}];
            n_cases := map edge_case cs |}
  | 3 => {| n_actions := [];
            n_cases := map (fun c => {| k_type := h_atype h; k_uuid := None; k_name := c |}) cs |}
  | _ => {| n_actions := []; n_cases := map edge_case cs |}
  end.

Section Parse.
Variable rh_ : rhooks.     (* uuid_row_hooks *)
Variable sh_ : bool.       (* uuid_block_shared *)

(* one row, parsed by a FlowParser whose container has the dictionary ud:
     if row.type in [...] and row.obj_id: self.rapidpro_container.record_group_uuid(name, obj_id)
     (start_new_flow: record_flow_uuid) — a ValueError of the dictionary is not caught *)
Definition parse_row (ud : udict) (ty : str) (n : name) (u : pyuuid) (cs : list name)
  : result err (udict * list node) :=
  let h := hook_of rh_ ty in
  match kind_of_shape (h_shape h) with
  | Some k =>
    if h_rec h && truthy u then
      match record_k k ud n u with
      | Ok ud' => Ok (ud', [node_of h n u cs])
      | Err e => Err e
      end
    else Ok (ud, [node_of h n u cs])
  | None => Ok (ud, [node_of h n u cs])
  end.

(* rows in sequence against one dictionary; the node lists are concatenated *)
Definition seq_parse (f : udict -> item -> result err (udict * list node))
  : udict -> list item -> result err (udict * list node) :=
  fix go (ud0 : udict) (l : list item) {struct l} : result err (udict * list node) :=
    match l with
    | [] => Ok (ud0, [])
    | x :: r =>
      match f ud0 x with
      | Err e => Err e
      | Ok (ud1, ns) =>
        match go ud1 r with
        | Err e => Err e
        | Ok (ud2, ns') => Ok (ud2, ns ++ ns')
        end
      end
    end.

(* insert_as_block: content_index_parser.get_node_group(...) runs a nested FlowParser over the
   template with RapidProContainer() — a NEW container whose dictionary nobody reads again —
   (sh_ = false), or with the container of the inserting parser (sh_ = true); the node group it
   returns is spliced into the flow *)
Fixpoint parse_item (ud : udict) (it : item) {struct it} : result err (udict * list node) :=
  match it with
  | IRow ty n u cs => parse_row ud ty n u cs
  | IBlock its =>
    if sh_ then seq_parse parse_item ud its
    else match seq_parse parse_item empty_udict its with
         | Err e => Err e
         | Ok (_, ns) => Ok (ud, ns)
         end
  end.

Definition parse_items : udict -> list item -> result err (udict * list node) := seq_parse parse_item.

(* one create_flow row of the content index after instantiation: flow name and rows *)
Record fsheet := { fs_name : name; fs_items : list item }.

Definition bump (ud : udict) : udict := {| fd := fd ud; gd := gd ud; ctr := S (ctr ud) |}.

(* FlowParser(container, name, rows).parse(add_to_container=False): the rows are parsed against
   the container's dictionary, then FlowContainer(flow_name, uuid=None) invents the flow's uuid *)
Definition parse_flow (ud : udict) (fs : fsheet) : result err (udict * flow) :=
  match parse_items ud (fs_items fs) with
  | Err e => Err e
  | Ok (ud', ns) =>
    Ok (bump ud', {| f_name := fs_name fs; f_uuid := Some (Fresh (ctr ud')); f_nodes := ns |})
  end.

Record workbook := { wb_flows : list fsheet; wb_campaigns : list campaign; wb_triggers : list trigger }.

(* parse_all_flows: every flow is parsed with the ONE container (records happen now), kept in a
   dict by flow name (a later flow of the same name replaces the object, at the first one's
   position), and only then added *)
Fixpoint parse_flows (ud : udict) (l : list fsheet) (acc : list (name * flow)) : result err (udict * list (name * flow)) :=
  match l with
  | [] => Ok (ud, acc)
  | fs :: r =>
    match parse_flow ud fs with
    | Err e => Err e
    | Ok (ud', f) => parse_flows ud' r (oset str_eqb acc (fs_name fs) f)
    end
  end.

Definition empty_container : container := {| groups := []; flows := []; campaigns := []; triggers := [] |}.

(* ContentIndexParser.parse_all(): a new container; flows, then campaigns, then triggers *)
Definition parse_all (wb : workbook) : result err state :=
  match parse_flows empty_udict (wb_flows wb) [] with
  | Err e => Err e
  | Ok (ud, fl) =>
    run (map OAddFlow (map snd fl) ++ map OAddCampaign (wb_campaigns wb) ++ map OAddTrigger (wb_triggers wb))
        {| st_d := ud; st_c := empty_container |}
  end.

(* ---- histories on the long-lived objects ---- *)
Inductive sop :=
| SOp (o : op)                  (* any operation on the container (Container.v) *)
| SParse (fs : fsheet)          (* FlowParser(container, name, rows, content_index_parser).parse() *)
| SParseAll (wb : workbook).    (* content_index_parser.parse_all(): from here on, the new container *)

Definition sstep (st : state) (o : sop) : result err state :=
  match o with
  | SOp o => step st o
  | SParse fs =>
    match parse_flow (st_d st) fs with
    | Err e => Err e
    | Ok (ud, f) => step {| st_d := ud; st_c := st_c st |} (OAddFlow f)
    end
  | SParseAll wb => parse_all wb
  end.

Definition srun (ops : list sop) (st : state) : result err state := foldM sstep ops st.

Fixpoint strace (ops : list sop) (st : state) (i : nat)
  : list (list (kind * gref) * list bool) * option (nat * err) :=
  match ops with
  | [] => ([], None)
  | o :: r =>
    match sstep st o with
    | Err e => ([], Some (i, e))
    | Ok st' =>
      let '(snaps, stop) := strace r st' (S i) in
      (match o with SOp ORender => (occs (st_c st'), vis_of (st_c st')) :: snaps | _ => snaps end, stop)
    end
  end.

End Parse.

(* the code in /repo today: tables as regenerated *)
Definition sheet_parse_all : workbook -> result err state := parse_all uuid_row_hooks uuid_block_shared.
Definition sheet_step : state -> sop -> result err state := sstep uuid_row_hooks uuid_block_shared.
Definition sheet_run : list sop -> state -> result err state := srun uuid_row_hooks uuid_block_shared.
Definition sheet_trace := strace uuid_row_hooks uuid_block_shared.
