(* E4 — model of containers.py: UUIDDict.  Definitions only (facts: UuidFacts.v).

   A Python uuid value is [None] or a [str]; the model writes it [pyuuid = option uuid]
   with [Given s] a string that came from outside and [Fresh n] the n-th result of
   generate_new_uuid() (uuid4 as a counter; DESIGN 3).  Python truthiness is kept as
   coded: [None] and [""] are falsy, everything else is truthy. *)
From Coq Require Import List NArith Bool.
From RPFT Require Import Base.Sexp Base.PyStr Base.Result Base.ODict.
Import ListNotations.

Inductive uuid := Given (s : str) | Fresh (n : nat).
Definition pyuuid := option uuid.

Definition truthy (u : pyuuid) : bool :=
  match u with
  | None => false
  | Some (Given []) => false
  | Some _ => true
  end.

Definition uuid_eqb (a b : uuid) : bool :=
  match a, b with
  | Given s, Given t => str_eqb s t
  | Fresh n, Fresh m => Nat.eqb n m
  | _, _ => false
  end.

Definition pyuuid_eqb (a b : pyuuid) : bool :=
  match a, b with
  | None, None => true
  | Some x, Some y => uuid_eqb x y
  | _, _ => false
  end.

(* Names are dictionary keys; only their equality matters.  (The harness maps the key
   [None] — which CampaignEvent creates for message events — to a one-element list holding
   a number that is not a code point, so the map Python key -> name is injective.) *)
Definition name := str.

(* flow_dict / group_dict: insertion-ordered, value possibly falsy until generated *)
Definition dict := list (name * pyuuid).
Definition dget (d : dict) (n : name) : option pyuuid := oget str_eqb d n.
Definition dset (d : dict) (n : name) (u : pyuuid) : dict := oset str_eqb d n u.
Definition dhas (d : dict) (n : name) : bool := ocontains str_eqb d n.

Inductive err :=
| EConflict        (* ValueError "Group/Flow … has multiple uuids" *)
| EUnknownFlow     (* RapidProTriggerError "Trigger references undefined flow name" *)
| EKeyError.       (* KeyError of get_group_uuid / get_flow_uuid *)

(* UUIDDict._record_uuid, line by line:
     recorded_uuid = uuid_dict.get(name)
     if recorded_uuid:
         if uuid and uuid != recorded_uuid: raise ValueError
     else:
         uuid_dict[name] = uuid                                                        *)
Definition record (d : dict) (n : name) (u : pyuuid) : result err dict :=
  let recorded := match dget d n with Some r => r | None => None end in
  if truthy recorded then
    if truthy u && negb (pyuuid_eqb u recorded) then Err EConflict else Ok d
  else Ok (dset d n u).

(* one loop of generate_missing_uuids: every falsy value is replaced, in dictionary order *)
Fixpoint gen_missing (d : dict) (c : nat) : dict * nat :=
  match d with
  | [] => ([], c)
  | (k, v) :: r =>
    if truthy v then let '(r', c') := gen_missing r c in ((k, v) :: r', c')
    else let '(r', c') := gen_missing r (S c) in ((k, Some (Fresh c)) :: r', c')
  end.

(* get_group_uuid / get_flow_uuid: plain subscription *)
Definition lookup (d : dict) (n : name) : result err pyuuid :=
  match dget d n with Some v => Ok v | None => Err EKeyError end.

Record udict := { fd : dict; gd : dict; ctr : nat }.

Definition empty_udict : udict := {| fd := []; gd := []; ctr := 0 |}.

Inductive kind := KGroup | KFlow.

Definition kind_eqb (a b : kind) : bool :=
  match a, b with KGroup, KGroup => true | KFlow, KFlow => true | _, _ => false end.

Definition sel (k : kind) (ud : udict) : dict :=
  match k with KGroup => gd ud | KFlow => fd ud end.

Definition upd (k : kind) (ud : udict) (d : dict) : udict :=
  match k with
  | KGroup => {| fd := fd ud; gd := d; ctr := ctr ud |}
  | KFlow => {| fd := d; gd := gd ud; ctr := ctr ud |}
  end.

(* record_group_uuid / record_flow_uuid *)
Definition record_k (k : kind) (ud : udict) (n : name) (u : pyuuid) : result err udict :=
  match record (sel k ud) n u with
  | Ok d => Ok (upd k ud d)
  | Err e => Err e
  end.

(* generate_missing_uuids: flows first, then groups *)
Definition generate_missing (ud : udict) : udict :=
  let '(f', c1) := gen_missing (fd ud) (ctr ud) in
  let '(g', c2) := gen_missing (gd ud) c1 in
  {| fd := f'; gd := g'; ctr := c2 |}.

(* get_group_list: Group(name, uuid) for every item of group_dict, in order *)
Definition group_list (ud : udict) : list (name * pyuuid) := gd ud.
