(* E4 — model of RapidProContainer.update_global_uuids / validate / render, as far as group
   and flow references are concerned.  Definitions only (facts: UuidFacts.v).

   A container keeps its shape (flows > nodes > actions, router cases; campaigns > events,
   group; triggers > flow, groups, exclude groups); every other attribute is dropped.  The
   order in which the code visits references is the order of [instrs_of] / [refs_of]
   below.  Which action types and which router test types carry references is NOT written
   here: it is looked up in the tables that the translator regenerates from the record and
   assign hooks of the current source tree (Gen/Tables.v, the uuid_ constants). *)
From Coq Require Import List NArith Bool.
From RPFT Require Import Base.Sexp Base.PyStr Base.Result Base.ODict Gen.Tables Uuid.UuidDict.
Import ListNotations.
Local Open Scope N_scope.

(* a Group or FlowReference object: name and uuid attribute *)
Definition gref := (name * pyuuid)%type.

Record action := { a_type : str; a_groups : list gref; a_flow : option gref }.
Record rcase := { k_type : str; k_uuid : pyuuid; k_name : name }.      (* arguments = [uuid, name] *)
Record node := { n_actions : list action; n_cases : list rcase }.       (* n_cases = [] without router *)
Record flow := { f_name : name; f_uuid : pyuuid; f_nodes : list node }.
Record event := { e_type : str; e_flow : gref }.
Record campaign := { c_events : list event; c_group : gref }.
Record trigger := { t_flow : gref; t_groups : list gref; t_exclude : list gref }.
Record container := {
  groups : list gref;
  flows : list flow;
  campaigns : list campaign;
  triggers : list trigger }.

Fixpoint assoc_n (tbl : list (str * N)) (ty : str) : N :=
  match tbl with
  | [] => 0            (* a type without entry has the hooks of the base class: pass *)
  | (t, v) :: r => if str_eqb t ty then v else assoc_n r ty
  end.

Fixpoint mem_str (l : list str) (s : str) : bool :=
  match l with [] => false | x :: r => str_eqb x s || mem_str r s end.

Section Tables.
(* at: action type -> 0 none | 1 groups | 2 flow;  ct: router test types that are group refs *)
Variable at_ : list (str * N).
Variable ct_ : list str.

(* references visited by a hook, in visiting order.  (An action whose class visits
   [self.flow] but which has no flow attribute raises AttributeError in Python; the
   constructors always set it, the model visits nothing.) *)
Definition action_refs (a : action) : list (kind * gref) :=
  match assoc_n at_ (a_type a) with
  | 1 => map (fun g => (KGroup, g)) (a_groups a)
  | 2 => match a_flow a with Some g => [(KFlow, g)] | None => [] end
  | _ => []
  end.

Definition case_refs (k : rcase) : list (kind * gref) :=
  if mem_str ct_ (k_type k) then [(KGroup, (k_name k, k_uuid k))] else [].

(* BaseNode hook (actions) then RouterNode hook (router cases) *)
Definition node_refs (n : node) : list (kind * gref) :=
  flat_map action_refs (n_actions n) ++ flat_map case_refs (n_cases n).

Definition flow_refs (f : flow) : list (kind * gref) := flat_map node_refs (f_nodes f).

(* Campaign hook: every event's flow, then the campaign's group *)
Definition campaign_refs (c : campaign) : list (kind * gref) :=
  map (fun e => (KFlow, e_flow e)) (c_events c) ++ [(KGroup, c_group c)].

(* Trigger hook: flow, groups, exclude groups *)
Definition trigger_refs (t : trigger) : list (kind * gref) :=
  (KFlow, t_flow t) :: map (fun g => (KGroup, g)) (t_groups t) ++ map (fun g => (KGroup, g)) (t_exclude t).

(* every reference object that the record/assign loops of update_global_uuids visit *)
Definition refs_of (c : container) : list (kind * gref) :=
  flat_map flow_refs (flows c) ++ flat_map campaign_refs (campaigns c) ++ flat_map trigger_refs (triggers c).

(* ---- record phase as a list of instructions, in the order of update_global_uuids ---- *)
Inductive instr :=
| IRec (k : kind) (n : name) (u : pyuuid)    (* uuid_dict.record_<k>_uuid(n, u) *)
| ICheck (n : name).                         (* require_existing: contains_flow(n) or raise *)

Definition irec (r : kind * gref) : instr := IRec (fst r) (fst (snd r)) (snd (snd r)).

Definition trigger_instrs (t : trigger) : list instr :=
  ICheck (fst (t_flow t)) :: map irec (trigger_refs t).

Definition instrs_of (c : container) : list instr :=
  map (fun g => IRec KGroup (fst g) (snd g)) (groups c)
  ++ map (fun f => IRec KFlow (f_name f) (f_uuid f)) (flows c)
  ++ map irec (flat_map flow_refs (flows c))
  ++ map irec (flat_map campaign_refs (campaigns c))
  ++ flat_map trigger_instrs (triggers c).

(* ---- assign phase: structural, every visited reference gets the dictionary's value ---- *)
Definition asg (ud : udict) (k : kind) (g : gref) : gref :=
  (fst g, match dget (sel k ud) (fst g) with Some v => v | None => snd g end).

Definition assign_action (ud : udict) (a : action) : action :=
  match assoc_n at_ (a_type a) with
  | 1 => {| a_type := a_type a; a_groups := map (asg ud KGroup) (a_groups a); a_flow := a_flow a |}
  | 2 => {| a_type := a_type a; a_groups := a_groups a; a_flow := option_map (asg ud KFlow) (a_flow a) |}
  | _ => a
  end.

Definition assign_case (ud : udict) (k : rcase) : rcase :=
  if mem_str ct_ (k_type k)
  then {| k_type := k_type k; k_uuid := snd (asg ud KGroup (k_name k, k_uuid k)); k_name := k_name k |}
  else k.

Definition assign_node (ud : udict) (n : node) : node :=
  {| n_actions := map (assign_action ud) (n_actions n); n_cases := map (assign_case ud) (n_cases n) |}.

(* the flow's own uuid is NOT assigned (FlowContainer has it from its constructor) *)
Definition assign_flow (ud : udict) (f : flow) : flow :=
  {| f_name := f_name f; f_uuid := f_uuid f; f_nodes := map (assign_node ud) (f_nodes f) |}.

Definition assign_campaign (ud : udict) (c : campaign) : campaign :=
  {| c_events := map (fun e => {| e_type := e_type e; e_flow := asg ud KFlow (e_flow e) |}) (c_events c);
     c_group := asg ud KGroup (c_group c) |}.

Definition assign_trigger (ud : udict) (t : trigger) : trigger :=
  {| t_flow := asg ud KFlow (t_flow t);
     t_groups := map (asg ud KGroup) (t_groups t);
     t_exclude := map (asg ud KGroup) (t_exclude t) |}.

End Tables.

Definition exec (ud : udict) (i : instr) : result err udict :=
  match i with
  | IRec k n u => record_k k ud n u
  | ICheck n => if dhas (fd ud) n then Ok ud else Err EUnknownFlow
  end.

Definition known (ud : udict) (r : kind * gref) : bool := dhas (sel (fst r) ud) (fst (snd r)).

Record state := { st_d : udict; st_c : container }.

Definition init (c : container) : state := {| st_d := empty_udict; st_c := c |}.

(* validate(): update_global_uuids, then self.groups = uuid_dict.get_group_list().
   The four tables: record hooks (at_r, ct_r), assign hooks (at_a, ct_a).
   The assign loops raise KeyError at the first reference whose name is not in the
   dictionary; since a failed validate discards the state here, "check all, then map" is the
   same function. *)
Definition validate_g (at_r : list (str * N)) (ct_r : list str) (at_a : list (str * N)) (ct_a : list str)
  (st : state) : result err state :=
  let c := st_c st in
  match foldM exec (instrs_of at_r ct_r c) (st_d st) with
  | Err e => Err e
  | Ok ud1 =>
    let ud2 := generate_missing ud1 in
    if forallb (known ud2) (refs_of at_a ct_a c) then
      Ok {| st_d := ud2;
            st_c := {| groups := group_list ud2;
                       flows := map (assign_flow at_a ct_a ud2) (flows c);
                       campaigns := map (assign_campaign ud2) (campaigns c);
                       triggers := map (assign_trigger ud2) (triggers c) |} |}
    else Err EKeyError
  end.

(* the model of the code in /repo today: tables as regenerated *)
Definition validate : state -> result err state :=
  validate_g uuid_action_record uuid_case_record uuid_action_assign uuid_case_assign.

(* render() = validate() + serialisation; what C06 observes of the serialisation is the
   list of all (kind, name, uuid) occurrences: top-level groups, the flows themselves, and
   every reference *)
Definition occs_g (at_ : list (str * N)) (ct_ : list str) (c : container) : list (kind * gref) :=
  map (fun g => (KGroup, g)) (groups c)
  ++ map (fun f => (KFlow, (f_name f, f_uuid f))) (flows c)
  ++ refs_of at_ ct_ c.

Definition occs : container -> list (kind * gref) := occs_g uuid_action_assign uuid_case_assign.

(* which of [occs c] are part of the rendered document (same traversal, one flag per
   occurrence): all of them except the flow reference of a campaign event whose type does
   not render it (a message event still owns a FlowReference, which is recorded and
   assigned but not written out) *)
Definition vis_of (c : container) : list bool :=
  map (fun _ => true) (groups c)
  ++ map (fun _ => true) (flows c)
  ++ map (fun _ => true) (flat_map (flow_refs uuid_action_assign uuid_case_assign) (flows c))
  ++ flat_map (fun x => map (fun e => mem_str uuid_event_flow_rendered (e_type e)) (c_events x) ++ [true]) (campaigns c)
  ++ map (fun _ => true) (flat_map trigger_refs (triggers c)).

(* ---- histories: what a caller can do to a container between and around renders ---- *)
Inductive op :=
| ORecordGroup (n : name) (u : pyuuid)     (* container.record_group_uuid — sheet obj_id *)
| ORecordFlow (n : name) (u : pyuuid)      (* container.record_flow_uuid  — sheet obj_id *)
| OAddFlow (f : flow)                      (* add_flow: append + record_flow_uuid(name, uuid) *)
| OAddCampaign (c : campaign)
| OAddTrigger (t : trigger)
| ORender.

Definition with_c (st : state) (c : container) : state := {| st_d := st_d st; st_c := c |}.

Definition step (st : state) (o : op) : result err state :=
  let c := st_c st in
  match o with
  | ORecordGroup n u =>
    match record_k KGroup (st_d st) n u with Ok ud => Ok {| st_d := ud; st_c := c |} | Err e => Err e end
  | ORecordFlow n u =>
    match record_k KFlow (st_d st) n u with Ok ud => Ok {| st_d := ud; st_c := c |} | Err e => Err e end
  | OAddFlow f =>
    match record_k KFlow (st_d st) (f_name f) (f_uuid f) with
    | Ok ud => Ok {| st_d := ud;
                     st_c := {| groups := groups c; flows := flows c ++ [f];
                                campaigns := campaigns c; triggers := triggers c |} |}
    | Err e => Err e
    end
  | OAddCampaign x =>
    Ok (with_c st {| groups := groups c; flows := flows c; campaigns := campaigns c ++ [x]; triggers := triggers c |})
  | OAddTrigger x =>
    Ok (with_c st {| groups := groups c; flows := flows c; campaigns := campaigns c; triggers := triggers c ++ [x] |})
  | ORender => validate st
  end.

Definition run (ops : list op) (st : state) : result err state := foldM step ops st.

(* k consecutive render() calls *)
Fixpoint render_n (k : nat) (st : state) : result err state :=
  match k with
  | O => Ok st
  | S k' => match validate st with Ok st' => render_n k' st' | Err e => Err e end
  end.

(* the trace the correspondence compares: the occurrence list after every ORender, and
   where (index of the operation) and how the history stopped *)
Fixpoint run_trace (ops : list op) (st : state) (i : nat)
  : list (list (kind * gref) * list bool) * option (nat * err) :=
  match ops with
  | [] => ([], None)
  | o :: r =>
    match step st o with
    | Err e => ([], Some (i, e))
    | Ok st' =>
      let '(snaps, stop) := run_trace r st' (S i) in
      (match o with ORender => (occs (st_c st'), vis_of (st_c st')) :: snaps | _ => snaps end, stop)
    end
  end.
