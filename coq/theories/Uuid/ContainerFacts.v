(* E4 — facts about RapidProContainer.update_global_uuids / validate / render (Container.v).
   Everything is proved for an arbitrary pair of hook tables (Section), for containers and
   histories of any size, and then instantiated with the regenerated tables at the end. *)
From Coq Require Import List NArith Bool Lia Arith PeanoNat.
From RPFT Require Import Base.Sexp Base.PyStr Base.PyStrFacts Base.Result Base.ODict Gen.Tables
  Uuid.UuidDict Uuid.Container Uuid.UuidFacts.
Import ListNotations.

(* ---- list helpers ---- *)
Lemma map_flat_map' {A B C} (f : B -> C) (g : A -> list B) l :
  map f (flat_map g l) = flat_map (fun x => map f (g x)) l.
Proof. induction l as [|x l IH]; cbn; [reflexivity|]. rewrite map_app, IH. reflexivity. Qed.

Lemma flat_map_map' {A B C} (f : A -> B) (g : B -> list C) l :
  flat_map g (map f l) = flat_map (fun x => g (f x)) l.
Proof. induction l as [|x l IH]; cbn; [reflexivity|]. rewrite IH. reflexivity. Qed.

Lemma foldM_app {E S A} (f : A -> S -> result E A) l1 l2 a :
  foldM f (l1 ++ l2) a = match foldM f l1 a with Ok a1 => foldM f l2 a1 | Err e => Err e end.
Proof.
  revert a. induction l1 as [|x l1 IH]; intros a; cbn; [reflexivity|].
  destruct (f a x) as [a'|e]; [apply IH|reflexivity].
Qed.

(* ---- sequences of instructions ---- *)
Lemma exec_ext ud i ud' : exec ud i = Ok ud' -> ext ud ud'.
Proof.
  destruct i as [k n u|n]; cbn.
  - apply record_k_ext.
  - destruct (dhas (fd ud) n); [|discriminate]. intros H. injection H as <-. apply ext_refl.
Qed.

Lemma foldM_ext is : forall ud ud', foldM exec is ud = Ok ud' -> ext ud ud'.
Proof.
  induction is as [|i r IH]; intros ud ud' H; cbn in H.
  - injection H as <-. apply ext_refl.
  - destruct (exec ud i) as [ud1|e] eqn:E; [|discriminate].
    apply (ext_trans _ ud1); [apply (exec_ext _ _ _ E)|apply IH, H].
Qed.

(* what an instruction that was executed guarantees about the final dictionary *)
Lemma foldM_recorded is : forall ud ud' k n u, foldM exec is ud = Ok ud' -> In (IRec k n u) is ->
  dhas (sel k ud') n = true /\ (truthy u = true -> dget (sel k ud') n = Some u).
Proof.
  induction is as [|i r IH]; intros ud ud' k n u H Hin; cbn in H; [destruct Hin|].
  destruct (exec ud i) as [ud1|e] eqn:E; [|discriminate].
  destruct Hin as [->|Hin]; [|apply (IH _ _ _ _ _ H Hin)].
  cbn in E. apply record_k_bound in E as [E1 E2]. apply foldM_ext in H.
  split; [apply (ext_has _ _ H), E1|]. intros Ht. apply (ext_bound _ _ H); [apply E2, Ht|exact Ht].
Qed.

Lemma foldM_checked is : forall ud ud' n, foldM exec is ud = Ok ud' -> In (ICheck n) is ->
  dhas (fd ud') n = true.
Proof.
  induction is as [|i r IH]; intros ud ud' n H Hin; cbn in H; [destruct Hin|].
  destruct (exec ud i) as [ud1|e] eqn:E; [|discriminate].
  destruct Hin as [->|Hin]; [|apply (IH _ _ _ H Hin)].
  cbn in E. destruct (dhas (fd ud) n) eqn:Eh; [|discriminate]. injection E as <-.
  apply foldM_ext in H. apply (ext_has _ _ H KFlow), Eh.
Qed.

(* every binding of the final dictionary was there before or was recorded by an instruction *)
Lemma foldM_origin is : forall ud ud' k n v, foldM exec is ud = Ok ud' ->
  dget (sel k ud') n = Some v -> dget (sel k ud) n = Some v \/ In (IRec k n v) is.
Proof.
  induction is as [|i r IH]; intros ud ud' k n v H Hg; cbn in H.
  - injection H as <-. left. exact Hg.
  - destruct (exec ud i) as [ud1|e] eqn:E; [|discriminate].
    destruct (IH _ _ _ _ _ H Hg) as [Hg1|Hin]; [|right; right; exact Hin].
    destruct i as [k0 n0 u0|n0]; cbn in E.
    + apply (record_k_origin _ _ _ _ _ _ _ _ E) in Hg1 as [Hg1|(-> & -> & ->)]; [left; exact Hg1|].
      right. left. reflexivity.
    + destruct (dhas (fd ud) n0); [|discriminate]. injection E as <-. left. exact Hg1.
Qed.

(* an instruction agrees with a dictionary when executing it would change nothing *)
Definition agrees (ud : udict) (i : instr) : Prop :=
  match i with
  | IRec k n u => exists r, dget (sel k ud) n = Some r /\ truthy r = true /\ (truthy u = false \/ u = r)
  | ICheck n => dhas (fd ud) n = true
  end.

Lemma exec_agrees ud i : agrees ud i -> exec ud i = Ok ud.
Proof.
  destruct i as [k n u|n]; cbn.
  - intros (r & Hg & Ht & Hu). apply (record_k_agree _ _ _ _ _ Hg Ht Hu).
  - intros ->. reflexivity.
Qed.

Lemma foldM_agrees is ud : Forall (agrees ud) is -> foldM exec is ud = Ok ud.
Proof.
  induction is as [|i r IH]; intros H; cbn; [reflexivity|].
  inversion H as [|x l Hi Hr]; subst. rewrite (exec_agrees _ _ Hi). apply IH, Hr.
Qed.

(* the only errors of the record phase *)
Lemma foldM_err is : forall ud e, foldM exec is ud = Err e -> e = EConflict \/ e = EUnknownFlow.
Proof.
  induction is as [|i r IH]; intros ud e H; cbn in H; [discriminate|].
  destruct (exec ud i) as [ud1|e1] eqn:E; [apply (IH _ _ H)|]. injection H as <-.
  destruct i as [k n u|n]; cbn in E.
  - apply record_k_err in E as [-> _]. left. reflexivity.
  - destruct (dhas (fd ud) n); [discriminate|]. injection E as <-. right. reflexivity.
Qed.

Lemma foldM_unknown is : forall ud, foldM exec is ud = Err EUnknownFlow ->
  exists n, In (ICheck n) is /\ dhas (fd ud) n = false.
Proof.
  induction is as [|i r IH]; intros ud H; cbn in H; [discriminate|].
  destruct (exec ud i) as [ud1|e1] eqn:E.
  - destruct (IH _ H) as (n & Hin & Hh). exists n. split; [right; exact Hin|].
    apply exec_ext in E. destruct (dhas (fd ud) n) eqn:Eh; [|reflexivity].
    apply (ext_has _ _ E KFlow) in Eh. cbn [sel] in Eh. congruence.
  - injection H as ->. destruct i as [k n u|n]; cbn in E.
    + apply record_k_err in E as [E _]. discriminate.
    + destruct (dhas (fd ud) n) eqn:Eh; [discriminate|]. exists n. split; [left; reflexivity|exact Eh].
Qed.

(* a conflict is met only at a record instruction whose truthy uuid differs from a truthy binding *)
Lemma foldM_conflict_free is : forall ud,
  (forall n, In (ICheck n) is -> dhas (fd ud) n = true) ->
  (forall k n u r, In (IRec k n u) is -> truthy u = true ->
     (dget (sel k ud) n = Some r \/ In (IRec k n r) is) -> truthy r = true -> u = r) ->
  exists ud', foldM exec is ud = Ok ud'.
Proof.
  induction is as [|i r IH]; intros ud Hc Hr; cbn; [eexists; reflexivity|].
  destruct (exec ud i) as [ud1|e] eqn:E.
  - apply IH.
    + intros n Hin. apply exec_ext in E. apply (ext_has _ _ E KFlow). apply Hc. right. exact Hin.
    + intros k n u r0 Hin Hu Hsrc Hr0. apply (Hr k n u r0); [right; exact Hin|exact Hu| |exact Hr0].
      destruct Hsrc as [Hg|Hin']; [|right; right; exact Hin'].
      destruct i as [k0 n0 u0|n0]; cbn in E.
      * apply (record_k_origin _ _ _ _ _ _ _ _ E) in Hg as [Hg|(-> & -> & ->)]; [left; exact Hg|].
        right. left. reflexivity.
      * destruct (dhas (fd ud) n0); [|discriminate]. injection E as <-. left. exact Hg.
  - exfalso. destruct i as [k n u|n]; cbn in E.
    + apply record_k_err in E as (_ & r0 & Hg & Ht & Hu & Hne). apply Hne.
      apply (Hr k n u r0); [left; reflexivity|exact Hu|left; exact Hg|exact Ht].
    + rewrite (Hc n (or_introl eq_refl)) in E. discriminate.
Qed.

(* ====================================================================================== *)
Section Tables.
Variable at_ : list (str * N).
Variable ct_ : list str.

Notation instrs := (instrs_of at_ ct_).
Notation refs := (refs_of at_ ct_).
Notation validateS := (validate_g at_ ct_ at_ ct_).
Notation occsS := (occs_g at_ ct_).

(* ---- which instructions a container gives rise to ---- *)
Lemma in_trigger_instrs t i : In i (trigger_instrs t) <->
  i = ICheck (fst (t_flow t)) \/ exists r, In r (trigger_refs t) /\ i = irec r.
Proof.
  unfold trigger_instrs. cbn [In]. rewrite in_map_iff. split.
  - intros [H|(r & H1 & H2)]; [left; auto|right; exists r; auto].
  - intros [H|(r & H1 & H2)]; [left; auto|right; exists r; auto].
Qed.

Lemma in_instrs_of c i : In i (instrs c) <->
   (exists g, In g (groups c) /\ i = IRec KGroup (fst g) (snd g))
   \/ (exists f, In f (flows c) /\ i = IRec KFlow (f_name f) (f_uuid f))
   \/ (exists r, In r (refs c) /\ i = irec r)
   \/ (exists t, In t (triggers c) /\ i = ICheck (fst (t_flow t))).
Proof.
  unfold instrs_of, refs_of. rewrite !in_app_iff, !in_map_iff, in_flat_map. split.
  - intros [(g & H1 & H2)|[(f & H1 & H2)|[(r & H1 & H2)|[(r & H1 & H2)|(t & H1 & H2)]]]].
    + left. exists g. auto.
    + right. left. exists f. auto.
    + right. right. left. exists r. rewrite !in_app_iff. auto.
    + right. right. left. exists r. rewrite !in_app_iff. auto.
    + apply in_trigger_instrs in H2 as [H2|(r & H2 & H3)].
      * right. right. right. exists t. auto.
      * right. right. left. exists r. rewrite !in_app_iff. split; [|exact H3].
        right. right. apply in_flat_map. exists t. auto.
  - intros [(g & H1 & H2)|[(f & H1 & H2)|[(r & H1 & H2)|(t & H1 & H2)]]].
    + left. exists g. auto.
    + right. left. exists f. auto.
    + rewrite !in_app_iff in H1. destruct H1 as [H1|[H1|H1]]; [| |apply in_flat_map in H1 as (t & H1 & H3)].
      * right. right. left. exists r. auto.
      * right. right. right. left. exists r. auto.
      * right. right. right. right. exists t. split; [exact H1|].
        apply in_trigger_instrs. right. exists r. auto.
    + right. right. right. right. exists t. split; [exact H1|]. apply in_trigger_instrs. left. exact H2.
Qed.

(* an occurrence of the container = a record instruction of update_global_uuids *)
Lemma in_occs c k n u : In (k, (n, u)) (occsS c) <-> In (IRec k n u) (instrs c).
Proof.
  rewrite in_instrs_of. unfold occs_g. rewrite !in_app_iff, !in_map_iff. split.
  - intros [(g & H1 & H2)|[(f & H1 & H2)|H]].
    + injection H1 as <- H3. left. exists g. split; [exact H2|]. destruct g as [gn gu]. cbn in *. congruence.
    + injection H1 as <- <- <-. right. left. exists f. auto.
    + right. right. left. exists (k, (n, u)). split; [exact H|reflexivity].
  - intros [(g & H1 & H2)|[(f & H1 & H2)|[(r & H1 & H2)|(t & H1 & H2)]]].
    + injection H2 as -> -> ->. left. exists g. split; [|exact H1]. destruct g; reflexivity.
    + injection H2 as -> -> ->. right. left. exists f. auto.
    + right. right. destruct r as [rk [rn ru]]. cbn in H2. injection H2 as -> -> ->. exact H1.
    + discriminate.
Qed.

(* instructions and the trigger part, split *)
Definition pre_instrs (c : container) : list instr :=
  map (fun g => IRec KGroup (fst g) (snd g)) (groups c)
  ++ map (fun f => IRec KFlow (f_name f) (f_uuid f)) (flows c)
  ++ map irec (flat_map (flow_refs at_ ct_) (flows c))
  ++ map irec (flat_map campaign_refs (campaigns c)).

Lemma instrs_split c : instrs c = pre_instrs c ++ flat_map trigger_instrs (triggers c).
Proof. unfold instrs_of, pre_instrs. rewrite <- !app_assoc. reflexivity. Qed.

Lemma pre_instrs_no_check c n : ~ In (ICheck n) (pre_instrs c).
Proof.
  unfold pre_instrs. rewrite !in_app_iff, !in_map_iff.
  intros [(g & H & _)|[(f & H & _)|[(r & H & _)|(r & H & _)]]]; try discriminate;
  destruct r as [rk [rn ru]]; discriminate.
Qed.

(* ---- the assign phase ---- *)
Definition asgr (ud : udict) (r : kind * gref) : kind * gref := (fst r, asg ud (fst r) (snd r)).

Definition assigned (ud : udict) (c : container) : container :=
  {| groups := group_list ud;
     flows := map (assign_flow at_ ct_ ud) (flows c);
     campaigns := map (assign_campaign ud) (campaigns c);
     triggers := map (assign_trigger ud) (triggers c) |}.

Lemma action_refs_assign ud a : action_refs at_ (assign_action at_ ud a) = map (asgr ud) (action_refs at_ a).
Proof.
  unfold action_refs, assign_action.
  destruct (assoc_n at_ (a_type a)) as [|[p|[p|p|]|]] eqn:E; cbn [a_type a_groups a_flow]; rewrite ?E; try reflexivity.
  - destruct (a_flow a) as [g|]; reflexivity.
  - rewrite !map_map. apply map_ext. reflexivity.
Qed.

Lemma case_refs_assign ud k : case_refs ct_ (assign_case ct_ ud k) = map (asgr ud) (case_refs ct_ k).
Proof.
  unfold case_refs, assign_case. destruct (mem_str ct_ (k_type k)) eqn:E; cbn [k_type k_name k_uuid]; rewrite ?E; reflexivity.
Qed.

Lemma node_refs_assign ud n : node_refs at_ ct_ (assign_node at_ ct_ ud n) = map (asgr ud) (node_refs at_ ct_ n).
Proof.
  unfold node_refs, assign_node. cbn [n_actions n_cases].
  rewrite map_app, !flat_map_map', !map_flat_map'. f_equal; apply flat_map_ext; intros x.
  - apply action_refs_assign.
  - apply case_refs_assign.
Qed.

Lemma flow_refs_assign ud f : flow_refs at_ ct_ (assign_flow at_ ct_ ud f) = map (asgr ud) (flow_refs at_ ct_ f).
Proof.
  unfold flow_refs, assign_flow. cbn [f_nodes]. rewrite flat_map_map', map_flat_map'.
  apply flat_map_ext. intros x. apply node_refs_assign.
Qed.

Lemma campaign_refs_assign ud c : campaign_refs (assign_campaign ud c) = map (asgr ud) (campaign_refs c).
Proof.
  unfold campaign_refs, assign_campaign. cbn [c_events c_group]. rewrite map_app, !map_map. reflexivity.
Qed.

Lemma trigger_refs_assign ud t : trigger_refs (assign_trigger ud t) = map (asgr ud) (trigger_refs t).
Proof.
  unfold trigger_refs, assign_trigger. cbn [t_flow t_groups t_exclude map]. rewrite map_app, !map_map. reflexivity.
Qed.

Lemma refs_assigned ud c : refs (assigned ud c) = map (asgr ud) (refs c).
Proof.
  unfold refs_of, assigned. cbn [flows campaigns triggers].
  rewrite !map_app, !flat_map_map', !map_flat_map'. f_equal; [|f_equal]; apply flat_map_ext; intros x.
  - apply flow_refs_assign.
  - apply campaign_refs_assign.
  - apply trigger_refs_assign.
Qed.

(* assigning twice is assigning once *)
Lemma asg_idem ud k g : asg ud k (asg ud k g) = asg ud k g.
Proof. unfold asg. cbn [fst snd]. destruct (dget (sel k ud) (fst g)); reflexivity. Qed.

Lemma assign_action_idem ud a : assign_action at_ ud (assign_action at_ ud a) = assign_action at_ ud a.
Proof.
  unfold assign_action.
  destruct (assoc_n at_ (a_type a)) as [|[p|[p|p|]|]] eqn:E; cbn [a_type a_groups a_flow]; rewrite ?E; try reflexivity.
  - f_equal. destruct (a_flow a) as [g|]; cbn; [rewrite asg_idem|]; reflexivity.
  - f_equal. rewrite map_map. apply map_ext. intros g. apply asg_idem.
Qed.

Lemma assign_case_idem ud k : assign_case ct_ ud (assign_case ct_ ud k) = assign_case ct_ ud k.
Proof.
  unfold assign_case. destruct (mem_str ct_ (k_type k)) eqn:E; cbn [k_type k_name k_uuid]; rewrite ?E; [|reflexivity].
  f_equal. unfold asg. cbn [fst snd]. destruct (dget (sel KGroup ud) (k_name k)); reflexivity.
Qed.

Lemma assign_flow_idem ud f : assign_flow at_ ct_ ud (assign_flow at_ ct_ ud f) = assign_flow at_ ct_ ud f.
Proof.
  unfold assign_flow. cbn [f_name f_uuid f_nodes]. f_equal. rewrite map_map. apply map_ext. intros n.
  unfold assign_node. cbn [n_actions n_cases]. rewrite !map_map. f_equal; apply map_ext; intros x.
  - apply assign_action_idem.
  - apply assign_case_idem.
Qed.

Lemma assign_campaign_idem ud c : assign_campaign ud (assign_campaign ud c) = assign_campaign ud c.
Proof.
  unfold assign_campaign. cbn [c_events c_group]. rewrite asg_idem, map_map. f_equal.
  apply map_ext. intros e. cbn [e_type e_flow]. rewrite asg_idem. reflexivity.
Qed.

Lemma assign_trigger_idem ud t : assign_trigger ud (assign_trigger ud t) = assign_trigger ud t.
Proof.
  unfold assign_trigger. cbn [t_flow t_groups t_exclude]. rewrite asg_idem, !map_map.
  f_equal; apply map_ext; intros g; apply asg_idem.
Qed.

Lemma assigned_idem ud c : assigned ud (assigned ud c) = assigned ud c.
Proof.
  unfold assigned. cbn [flows campaigns triggers]. rewrite !map_map. f_equal; apply map_ext; intros x.
  - apply assign_flow_idem.
  - apply assign_campaign_idem.
  - apply assign_trigger_idem.
Qed.

(* ---- validate, taken apart ---- *)
Lemma validate_ok st st' : validateS st = Ok st' ->
  exists ud1, foldM exec (instrs (st_c st)) (st_d st) = Ok ud1
    /\ st' = {| st_d := generate_missing ud1; st_c := assigned (generate_missing ud1) (st_c st) |}.
Proof.
  unfold validate_g. destruct (foldM exec (instrs (st_c st)) (st_d st)) as [ud1|e]; [|discriminate].
  destruct (forallb _ _); [|discriminate]. intros H. injection H as <-. exists ud1. split; reflexivity.
Qed.

(* the assign loops never meet a missing key: every reference they visit was recorded *)
Lemma known_after_record c ud ud1 : foldM exec (instrs c) ud = Ok ud1 ->
  forallb (known (generate_missing ud1)) (refs c) = true.
Proof.
  intros H. apply forallb_forall. intros [k [n u]] Hin. unfold known. cbn [fst snd].
  rewrite generate_missing_has.
  apply (foldM_recorded _ _ _ k n u H). apply in_instrs_of. right. right. left.
  exists (k, (n, u)). split; [exact Hin|reflexivity].
Qed.

Lemma validate_of_record st ud1 : foldM exec (instrs (st_c st)) (st_d st) = Ok ud1 ->
  validateS st = Ok {| st_d := generate_missing ud1; st_c := assigned (generate_missing ud1) (st_c st) |}.
Proof.
  intros H. unfold validate_g. rewrite H, (known_after_record _ _ _ H). reflexivity.
Qed.

Lemma validate_err st e : validateS st = Err e -> foldM exec (instrs (st_c st)) (st_d st) = Err e.
Proof.
  destruct (foldM exec (instrs (st_c st)) (st_d st)) as [ud1|e1] eqn:E.
  - rewrite (validate_of_record _ _ E). discriminate.
  - unfold validate_g. rewrite E. intros H. injection H as ->. reflexivity.
Qed.

(* validate raises a conflict or the trigger error, never a KeyError *)
Lemma validate_err_kinds st e : validateS st = Err e -> e = EConflict \/ e = EUnknownFlow.
Proof. intros H. apply validate_err in H. apply (foldM_err _ _ _ H). Qed.


(* ---- the state after a successful validate ---- *)
Definition dict_wf (ud : udict) : Prop := forall k, NoDup (map fst (sel k ud)).

(* FlowContainer.__init__: self.uuid = uuid or generate_new_uuid() — a flow object always has a uuid *)
Definition flows_have_uuid (c : container) : Prop := forall f, In f (flows c) -> truthy (f_uuid f) = true.

Lemma agrees_after_gen ud1 k n u : dhas (sel k ud1) n = true ->
  (truthy u = true -> dget (sel k ud1) n = Some u) -> agrees (generate_missing ud1) (IRec k n u).
Proof.
  intros Hh Hb. cbn [agrees]. rewrite <- (generate_missing_has ud1 k n) in Hh.
  apply dhas_dget in Hh as [r Hr]. exists r. split; [exact Hr|]. split; [apply (generate_missing_truthy _ _ _ _ Hr)|].
  destruct (truthy u) eqn:Eu; [|left; reflexivity]. right.
  pose proof (generate_missing_bound _ _ _ _ (Hb eq_refl) Eu) as H2. congruence.
Qed.

Lemma dict_wf_validate st st' : dict_wf (st_d st) -> validateS st = Ok st' -> dict_wf (st_d st').
Proof.
  intros Hwf H. apply validate_ok in H as (ud1 & Hf & ->). cbn [st_d]. intros k.
  rewrite generate_missing_keys. apply (ext_nodup _ _ (foldM_ext _ _ _ Hf)), Hwf.
Qed.

(* after validate, every record instruction of the NEW container says what the dictionary
   says; the only uuids that can still be falsy are those of flow definitions (which the
   assign phase does not touch) *)
Lemma after_validate st st' : dict_wf (st_d st) -> validateS st = Ok st' ->
  forall i, In i (instrs (st_c st')) ->
    agrees (st_d st') i
    /\ (forall k n u, i = IRec k n u -> truthy u = false ->
          exists f, In f (flows (st_c st)) /\ k = KFlow /\ n = f_name f /\ u = f_uuid f).
Proof.
  intros Hwf H. pose proof (dict_wf_validate _ _ Hwf H) as Hwf'.
  apply validate_ok in H as (ud1 & Hf & ->). cbn [st_d st_c] in *.
  set (ud2 := generate_missing ud1) in *.
  intros i Hin. apply in_instrs_of in Hin as [(g & H1 & ->)|[(f' & H1 & ->)|[(r' & H1 & ->)|(t' & H1 & ->)]]].
  - (* top-level group list = the dictionary *)
    cbn [assigned groups group_list] in H1. destruct g as [gn gu]. cbn [fst snd].
    pose proof (in_dget _ _ _ (Hwf' KGroup) H1) as Hg. cbn [sel] in Hg.
    pose proof (generate_missing_truthy ud1 KGroup _ _ Hg) as Ht.
    split.
    + cbn [agrees sel]. exists gu. repeat split; auto.
    + intros k n u Heq Hu. injection Heq as <- <- <-. congruence.
  - (* flow definitions: untouched by the assign phase *)
    cbn [assigned flows] in H1. apply in_map_iff in H1 as (f & <- & H1). cbn [assign_flow f_name f_uuid].
    assert (Hi : In (IRec KFlow (f_name f) (f_uuid f)) (instrs (st_c st))).
    { apply in_instrs_of. right. left. exists f. auto. }
    destruct (foldM_recorded _ _ _ _ _ _ Hf Hi) as [Hh Hb]. split.
    + apply agrees_after_gen; assumption.
    + intros k n u Heq Hu. injection Heq as <- <- <-. exists f. auto.
  - (* references: assigned from the dictionary *)
    rewrite refs_assigned in H1. apply in_map_iff in H1 as ([k [n u]] & <- & H1).
    pose proof (known_after_record _ _ _ Hf) as Hk. rewrite forallb_forall in Hk.
    specialize (Hk _ H1). unfold known in Hk. cbn [fst snd] in Hk. fold ud2 in Hk.
    apply dhas_dget in Hk as [v Hv].
    unfold asgr, irec, asg. cbn [fst snd]. rewrite Hv.
    pose proof (generate_missing_truthy ud1 k _ _ Hv) as Ht. split.
    + cbn [agrees]. exists v. repeat split; auto.
    + intros k0 n0 u0 Heq Hu. injection Heq as <- <- <-. congruence.
  - (* existence checks *)
    cbn [assigned triggers] in H1. apply in_map_iff in H1 as (t & <- & H1).
    cbn [assign_trigger t_flow asg fst]. split; [|intros k n u Heq; discriminate].
    cbn [agrees]. change (fd ud2) with (sel KFlow ud2). unfold ud2. rewrite generate_missing_has.
    apply (foldM_checked _ _ _ _ Hf). apply in_instrs_of. right. right. right. exists t. auto.
Qed.

(* 4. validate is a fixed point after the first call: same dictionary, same counter, same
   container — nothing new is invented *)
Lemma validate_idempotent_S st st' : dict_wf (st_d st) -> validateS st = Ok st' -> validateS st' = Ok st'.
Proof.
  intros Hwf H. pose proof (after_validate _ _ Hwf H) as Ha.
  assert (Hf : foldM exec (instrs (st_c st')) (st_d st') = Ok (st_d st')).
  { apply foldM_agrees. apply Forall_forall. intros i Hi. apply (Ha i Hi). }
  rewrite (validate_of_record _ _ Hf).
  apply validate_ok in H as (ud1 & _ & ->). cbn [st_d st_c].
  rewrite generate_missing_id by (intros k; apply generate_missing_all_truthy).
  rewrite assigned_idem. reflexivity.
Qed.

(* 1. one name, one uuid *)
Definition consistent (st : state) : Prop :=
  forall k n u, In (k, (n, u)) (occsS (st_c st)) -> truthy u = true /\ dget (sel k (st_d st)) n = Some u.

Lemma validate_consistent st st' : dict_wf (st_d st) -> flows_have_uuid (st_c st) ->
  validateS st = Ok st' -> consistent st'.
Proof.
  intros Hwf Hfl H k n u Hin. apply in_occs in Hin.
  destruct (after_validate _ _ Hwf H _ Hin) as [(r & Hg & Ht & Hu) Hfalsy].
  destruct (truthy u) eqn:Eu.
  - destruct Hu as [Hu|Hu]; [discriminate|]. subst r. auto.
  - exfalso. destruct (Hfalsy k n u eq_refl Eu) as (f & Hf & _ & _ & ->).
    rewrite (Hfl f Hf) in Eu. discriminate.
Qed.

Lemma consistent_pairwise st k n u1 u2 : consistent st ->
  In (k, (n, u1)) (occsS (st_c st)) -> In (k, (n, u2)) (occsS (st_c st)) -> u1 = u2.
Proof. intros Hc H1 H2. apply Hc in H1 as [_ H1]. apply Hc in H2 as [_ H2]. congruence. Qed.

Lemma validate_groups_once st st' n u : dict_wf (st_d st) -> validateS st = Ok st' ->
  In (KGroup, (n, u)) (occsS (st_c st')) -> count_occ name_dec (map fst (groups (st_c st'))) n = 1.
Proof.
  intros Hwf H Hin. apply in_occs in Hin.
  destruct (after_validate _ _ Hwf H _ Hin) as [(r & Hg & _) _].
  pose proof (dict_wf_validate _ _ Hwf H KGroup) as Hnd.
  apply validate_ok in H as (ud1 & _ & ->). cbn [st_d st_c assigned groups group_list sel] in *.
  apply NoDup_count_occ'; [exact Hnd|]. apply (dget_key_in _ _ _ Hg).
Qed.

Lemma flows_validate st st' f' : validateS st = Ok st' -> In f' (flows (st_c st')) ->
  exists f, In f (flows (st_c st)) /\ f_name f' = f_name f /\ f_uuid f' = f_uuid f.
Proof.
  intros H Hin. apply validate_ok in H as (ud1 & _ & ->). cbn [st_c assigned flows] in Hin.
  apply in_map_iff in Hin as (f & <- & Hin). exists f. auto.
Qed.

Lemma flows_have_uuid_validate st st' : validateS st = Ok st' -> flows_have_uuid (st_c st) -> flows_have_uuid (st_c st').
Proof.
  intros H Hfl f' Hin. destruct (flows_validate _ _ _ H Hin) as (f & Hf & _ & ->). apply Hfl, Hf.
Qed.

Lemma validate_flow_refs st st' f u : dict_wf (st_d st) -> flows_have_uuid (st_c st) -> validateS st = Ok st' ->
  In f (flows (st_c st')) -> In (KFlow, (f_name f, u)) (refs (st_c st')) -> u = f_uuid f.
Proof.
  intros Hwf Hfl H Hf Hr. apply (consistent_pairwise st' KFlow (f_name f)).
  - apply (validate_consistent _ _ Hwf Hfl H).
  - unfold occs_g. rewrite !in_app_iff. right. right. exact Hr.
  - unfold occs_g. rewrite !in_app_iff. right. left. apply in_map_iff. exists f. auto.
Qed.


(* 2. an explicit (truthy) uuid wins, wherever it sits: at any occurrence of the container
   (first, later, container group list, flow definition) or already in the dictionary
   (sheet obj_id / record_*_uuid) *)
Definition source (st : state) (k : kind) (n : name) (u : pyuuid) : Prop :=
  In (k, (n, u)) (occsS (st_c st)) \/ dget (sel k (st_d st)) n = Some u.

Lemma validate_binds st st' k n u : validateS st = Ok st' -> truthy u = true -> source st k n u ->
  dget (sel k (st_d st')) n = Some u.
Proof.
  intros H Ht Hs. apply validate_ok in H as (ud1 & Hf & ->). cbn [st_d].
  apply generate_missing_bound; [|exact Ht]. destruct Hs as [Hs|Hs].
  - apply in_occs in Hs. apply (foldM_recorded _ _ _ _ _ _ Hf Hs), Ht.
  - apply (ext_bound _ _ (foldM_ext _ _ _ Hf)); assumption.
Qed.

Lemma explicit_wins_S st st' k n u : dict_wf (st_d st) -> flows_have_uuid (st_c st) ->
  validateS st = Ok st' -> truthy u = true -> source st k n u ->
  forall u', In (k, (n, u')) (occsS (st_c st')) -> u' = u.
Proof.
  intros Hwf Hfl H Ht Hs u' Hin.
  pose proof (validate_binds _ _ _ _ _ H Ht Hs) as Hb.
  apply (validate_consistent _ _ Hwf Hfl H) in Hin as [_ Hin]. congruence.
Qed.

(* 3. two different explicit uuids for one name are rejected, wherever they sit *)
Lemma conflict_rejected_S st k n u1 u2 : truthy u1 = true -> truthy u2 = true -> u1 <> u2 ->
  source st k n u1 -> source st k n u2 ->
  exists e, validateS st = Err e /\ (e = EConflict \/ e = EUnknownFlow).
Proof.
  intros T1 T2 Hne S1 S2. destruct (validateS st) as [st'|e] eqn:E.
  - exfalso. apply Hne.
    pose proof (validate_binds _ _ _ _ _ E T1 S1). pose proof (validate_binds _ _ _ _ _ E T2 S2). congruence.
  - exists e. split; [reflexivity|apply (validate_err_kinds _ _ E)].
Qed.

(* 5. triggers: which flow names the container knows when the triggers are reached *)
Definition flow_known (st : state) (n : name) : bool :=
  dhas (fd (st_d st)) n
  || existsb (fun f => str_eqb (f_name f) n) (flows (st_c st))
  || existsb (fun r => kind_eqb (fst r) KFlow && str_eqb (fst (snd r)) n)
       (flat_map (flow_refs at_ ct_) (flows (st_c st)) ++ flat_map campaign_refs (campaigns (st_c st))).

Lemma kind_eqb_eq a b : kind_eqb a b = true <-> a = b.
Proof. destruct a, b; cbn; split; congruence. Qed.

Lemma in_pre_instrs_flow c n v : In (IRec KFlow n v) (pre_instrs c) <->
  (exists f, In f (flows c) /\ f_name f = n /\ f_uuid f = v)
  \/ In (KFlow, (n, v)) (flat_map (flow_refs at_ ct_) (flows c) ++ flat_map campaign_refs (campaigns c)).
Proof.
  unfold pre_instrs. rewrite !in_app_iff, !in_map_iff. split.
  - intros [(g & H & _)|[(f & H & Hf)|[(r & H & Hr)|(r & H & Hr)]]].
    + discriminate.
    + injection H as <- <-. left. exists f. auto.
    + destruct r as [rk [rn ru]]. cbn in H. injection H as -> -> ->. right. left. exact Hr.
    + destruct r as [rk [rn ru]]. cbn in H. injection H as -> -> ->. right. right. exact Hr.
  - intros [(f & Hf & <- & <-)|[Hr|Hr]].
    + right. left. exists f. auto.
    + right. right. left. exists (KFlow, (n, v)). auto.
    + right. right. right. exists (KFlow, (n, v)). auto.
Qed.

Lemma flow_known_spec st n : flow_known st n = true <->
  dhas (fd (st_d st)) n = true \/ exists v, In (IRec KFlow n v) (pre_instrs (st_c st)).
Proof.
  unfold flow_known. rewrite !orb_true_iff, !existsb_exists. split.
  - intros [[H|(f & Hf & He)]|([rk [rn ru]] & Hr & He)].
    + left. exact H.
    + right. exists (f_uuid f). apply in_pre_instrs_flow. left. exists f. apply str_eqb_eq in He. auto.
    + right. cbn [fst snd] in He. apply andb_true_iff in He as [E1 E2].
      apply kind_eqb_eq in E1. apply str_eqb_eq in E2. subst. exists ru. apply in_pre_instrs_flow. right. exact Hr.
  - intros [H|(v & H)]; [left; left; exact H|]. apply in_pre_instrs_flow in H as [(f & Hf & <- & <-)|Hr].
    + left. right. exists f. split; [exact Hf|apply str_eqb_refl].
    + right. exists (KFlow, (n, v)). split; [exact Hr|]. cbn. apply str_eqb_refl.
Qed.

(* the dictionary when the triggers are reached knows exactly the [flow_known] names *)
Lemma pre_known st udA n : foldM exec (pre_instrs (st_c st)) (st_d st) = Ok udA ->
  dhas (fd udA) n = flow_known st n.
Proof.
  intros H. destruct (flow_known st n) eqn:E.
  - apply flow_known_spec in E as [E|(v & E)].
    + apply (ext_has _ _ (foldM_ext _ _ _ H) KFlow), E.
    + apply (foldM_recorded _ _ _ _ _ _ H E).
  - destruct (dhas (fd udA) n) eqn:Eh; [|reflexivity]. exfalso.
    apply dhas_dget in Eh as [v Hv]. change (fd udA) with (sel KFlow udA) in Hv.
    apply (foldM_origin _ _ _ _ _ _ H) in Hv as [Hv|Hv].
    + assert (flow_known st n = true); [|congruence]. apply flow_known_spec. left. apply dhas_dget. eauto.
    + assert (flow_known st n = true); [|congruence]. apply flow_known_spec. right. eauto.
Qed.

Lemma trigger_refs_flow t r : In r (trigger_refs t) -> fst r = KFlow -> r = (KFlow, t_flow t).
Proof.
  unfold trigger_refs. cbn [In]. rewrite in_app_iff, !in_map_iff.
  intros [H|[(g & <- & _)|(g & <- & _)]] Hk; [auto|discriminate|discriminate].
Qed.

(* if the trigger loop got through, every trigger's flow name was a key when the loop began *)
Lemma triggers_checked ts : forall ud ud', foldM exec (flat_map trigger_instrs ts) ud = Ok ud' ->
  forall t, In t ts -> dhas (fd ud) (fst (t_flow t)) = true.
Proof.
  induction ts as [|t0 ts IH]; intros ud ud' H t Hin; [destruct Hin|].
  cbn [flat_map] in H. rewrite foldM_app in H.
  destruct (foldM exec (trigger_instrs t0) ud) as [ud0|e] eqn:E0; [|discriminate].
  assert (H0 : dhas (fd ud) (fst (t_flow t0)) = true).
  { unfold trigger_instrs in E0. cbn [foldM exec] in E0.
    destruct (dhas (fd ud) (fst (t_flow t0))); [reflexivity|discriminate]. }
  destruct Hin as [<-|Hin]; [exact H0|].
  pose proof (IH _ _ H t Hin) as Ht. apply dhas_dget in Ht as [v Hv].
  change (fd ud0) with (sel KFlow ud0) in Hv.
  apply (foldM_origin _ _ _ _ _ _ E0) in Hv as [Hv|Hv].
  - apply dhas_dget. eauto.
  - apply in_trigger_instrs in Hv as [Hv|(r & Hr & Hv)]; [discriminate|].
    destruct r as [rk [rn ru]]. cbn in Hv. injection Hv as <- <- <-.
    apply trigger_refs_flow in Hr; [|reflexivity]. injection Hr as Hr. rewrite <- Hr in H0. exact H0.
Qed.

Lemma unknown_trigger_rejected_S st t : In t (triggers (st_c st)) -> flow_known st (fst (t_flow t)) = false ->
  exists e, validateS st = Err e /\ (e = EConflict \/ e = EUnknownFlow).
Proof.
  intros Hin Hk. destruct (validateS st) as [st'|e] eqn:E.
  - exfalso. apply validate_ok in E as (ud1 & Hf & _). rewrite instrs_split, foldM_app in Hf.
    destruct (foldM exec (pre_instrs (st_c st)) (st_d st)) as [udA|e] eqn:EA; [|discriminate].
    pose proof (triggers_checked _ _ _ Hf t Hin) as Hc. rewrite (pre_known _ _ _ EA) in Hc. congruence.
  - exists e. split; [reflexivity|apply (validate_err_kinds _ _ E)].
Qed.

(* ... and the trigger error is raised ONLY for a flow name that is unknown in this sense *)
Lemma unknown_flow_error_S st : validateS st = Err EUnknownFlow ->
  exists t, In t (triggers (st_c st)) /\ flow_known st (fst (t_flow t)) = false.
Proof.
  intros H. apply validate_err in H. rewrite instrs_split, foldM_app in H.
  destruct (foldM exec (pre_instrs (st_c st)) (st_d st)) as [udA|e] eqn:EA.
  - apply foldM_unknown in H as (n & Hin & Hh). apply in_flat_map in Hin as (t & Ht & Hin).
    apply in_trigger_instrs in Hin as [Hin|(r & _ & Hin)]; [|destruct r as [rk [rn ru]]; discriminate].
    injection Hin as ->. exists t. split; [exact Ht|]. rewrite <- (pre_known _ _ _ EA). exact Hh.
  - exfalso. injection H as ->. apply foldM_unknown in EA as (n & Hin & _). apply (pre_instrs_no_check _ _ Hin).
Qed.

Lemma conflict_exact_S st k n u1 u2 : truthy u1 = true -> truthy u2 = true -> u1 <> u2 ->
  source st k n u1 -> source st k n u2 ->
  (forall t, In t (triggers (st_c st)) -> flow_known st (fst (t_flow t)) = true) ->
  validateS st = Err EConflict.
Proof.
  intros T1 T2 Hne S1 S2 Hk.
  destruct (conflict_rejected_S _ _ _ _ _ T1 T2 Hne S1 S2) as (e & He & [->| ->]); [exact He|].
  exfalso. apply unknown_flow_error_S in He as (t & Ht & Hf). rewrite (Hk t Ht) in Hf. discriminate.
Qed.

(* when validate succeeds, a trigger's flow reference carries the one uuid of that flow name *)
Lemma trigger_flow_resolved_S st st' t : dict_wf (st_d st) -> flows_have_uuid (st_c st) ->
  validateS st = Ok st' -> In t (triggers (st_c st')) ->
  truthy (snd (t_flow t)) = true
  /\ dget (fd (st_d st')) (fst (t_flow t)) = Some (snd (t_flow t))
  /\ forall u, In (KFlow, (fst (t_flow t), u)) (occsS (st_c st')) -> u = snd (t_flow t).
Proof.
  intros Hwf Hfl H Hin. pose proof (validate_consistent _ _ Hwf Hfl H) as Hc.
  assert (Ho : In (KFlow, (fst (t_flow t), snd (t_flow t))) (occsS (st_c st'))).
  { unfold occs_g, refs_of. rewrite !in_app_iff. right. right. right. right.
    apply in_flat_map. exists t. split; [exact Hin|]. unfold trigger_refs. left.
    destruct (t_flow t); reflexivity. }
  destruct (Hc _ _ _ Ho) as [Ht Hg]. split; [exact Ht|]. split; [exact Hg|].
  intros u Hu. apply (consistent_pairwise _ _ _ _ _ Hc Hu Ho).
Qed.

(* 6. invented uuids.  The invariant: the counter is above every invented uuid of the
   dictionary, no two (kind, name) share an invented uuid, and an invented uuid that sits
   in the container is the dictionary's value for that name *)
Record fresh_inv (st : state) : Prop := {
  fi_wf : dict_wf (st_d st);
  fi_ctr : forall k n m, dget (sel k (st_d st)) n = Some (Some (Fresh m)) -> m < ctr (st_d st);
  fi_inj : forall k1 n1 k2 n2 m, dget (sel k1 (st_d st)) n1 = Some (Some (Fresh m)) ->
             dget (sel k2 (st_d st)) n2 = Some (Some (Fresh m)) -> k1 = k2 /\ n1 = n2;
  fi_c : forall k n m, In (IRec k n (Some (Fresh m))) (instrs (st_c st)) ->
             dget (sel k (st_d st)) n = Some (Some (Fresh m)) }.

Lemma foldM_fresh is ud ud' : (forall k n m, In (IRec k n (Some (Fresh m))) is -> dget (sel k ud) n = Some (Some (Fresh m))) ->
  foldM exec is ud = Ok ud' ->
  forall k n m, dget (sel k ud') n = Some (Some (Fresh m)) -> dget (sel k ud) n = Some (Some (Fresh m)).
Proof.
  intros Hc H k n m Hg. apply (foldM_origin _ _ _ _ _ _ H) in Hg as [Hg|Hg]; [exact Hg|apply Hc, Hg].
Qed.

Lemma fresh_inv_validate st st' : fresh_inv st -> validateS st = Ok st' -> fresh_inv st'.
Proof.
  intros [Hwf Hctr Hinj Hc] H.
  pose proof (dict_wf_validate _ _ Hwf H) as Hwf'. pose proof (after_validate _ _ Hwf H) as Ha.
  apply validate_ok in H as (ud1 & Hf & ->). cbn [st_d st_c] in *.
  pose proof (foldM_ext _ _ _ Hf) as Hext.
  pose proof (foldM_fresh _ _ _ Hc Hf) as Hold.
  assert (Hctr1 : forall k n m, dget (sel k ud1) n = Some (Some (Fresh m)) -> m < ctr ud1).
  { intros k n m Hg. rewrite (ext_ctr _ _ Hext). apply (Hctr k n m), Hold, Hg. }
  pose proof (generate_missing_ctr ud1) as Hle.
  constructor; cbn [st_d st_c].
  - exact Hwf'.
  - intros k n m Hg. apply generate_missing_fresh_origin in Hg as [Hg|Hg]; [|lia].
    apply Hctr1 in Hg. lia.
  - intros k1 n1 k2 n2 m H1 H2. destruct (le_lt_dec (ctr ud1) m) as [Hm|Hm].
    + apply (generate_missing_inj ud1 k1 n1 k2 n2 m); auto.
      intros k n m' Hi. apply (Hctr1 k n). apply in_dget; [|exact Hi].
      apply (ext_nodup _ _ Hext), Hwf.
    + apply generate_missing_fresh_origin in H1 as [H1|H1]; [|lia].
      apply generate_missing_fresh_origin in H2 as [H2|H2]; [|lia].
      apply (Hinj k1 n1 k2 n2 m); apply Hold; assumption.
  - intros k n m Hin. destruct (Ha _ Hin) as [(r & Hg & _ & [Hu|Hu]) _]; [discriminate|]. subst r. exact Hg.
Qed.

(* the uuids invented by this call are new: they occur nowhere in the state before *)
Lemma invented_new_S st st' k n m : fresh_inv st -> validateS st = Ok st' ->
  dget (sel k (st_d st')) n = Some (Some (Fresh m)) -> ctr (st_d st) <= m ->
  (forall k0 n0, dget (sel k0 (st_d st)) n0 <> Some (Some (Fresh m)))
  /\ (forall k0 n0, ~ In (k0, (n0, Some (Fresh m))) (occsS (st_c st))).
Proof.
  intros [Hwf Hctr Hinj Hc] H Hg Hm. split.
  - intros k0 n0 H0. apply Hctr in H0. lia.
  - intros k0 n0 H0. apply in_occs in H0. apply Hc, Hctr in H0. lia.
Qed.

(* an invented uuid in the rendered container belongs to one (kind, name) only *)
Lemma fresh_inv_occs st k1 n1 k2 n2 m : fresh_inv st ->
  In (k1, (n1, Some (Fresh m))) (occsS (st_c st)) -> In (k2, (n2, Some (Fresh m))) (occsS (st_c st)) ->
  k1 = k2 /\ n1 = n2.
Proof.
  intros [Hwf Hctr Hinj Hc] H1 H2. apply in_occs in H1, H2. apply (Hinj k1 n1 k2 n2 m); apply Hc; assumption.
Qed.

End Tables.

(* ====================================================================================== *)
(* The code in /repo today: the regenerated tables.  [uuid_tables_ok] (recomputed from the  *)
(* record and assign hooks on every run) says both phases visit the same references.        *)
(* ====================================================================================== *)
Notation R := uuid_action_record.
Notation Rc := uuid_case_record.

Lemma validate_eq st : validate st = validate_g R Rc R Rc st.
Proof. unfold validate. destruct uuid_tables_same as [<- <-]. reflexivity. Qed.

Lemma occs_eq c : occs c = occs_g R Rc c.
Proof. unfold occs. destruct uuid_tables_same as [<- <-]. reflexivity. Qed.

Lemma dict_wf_empty : dict_wf empty_udict.
Proof. intros k. destruct k; constructor. Qed.

Lemma flows_have_uuid_b c : forallb (fun f => truthy (f_uuid f)) (flows c) = true -> flows_have_uuid c.
Proof. intros H f Hf. rewrite forallb_forall in H. apply (H f Hf). Qed.

(* ---- 1 ---- *)
Definition one_name_one_uuid_at (st : state) : Prop :=
  (forall k n u, In (k, (n, u)) (occs (st_c st)) -> truthy u = true /\ dget (sel k (st_d st)) n = Some u)
  /\ (forall k n u1 u2, In (k, (n, u1)) (occs (st_c st)) -> In (k, (n, u2)) (occs (st_c st)) -> u1 = u2)
  /\ (forall n u, In (KGroup, (n, u)) (occs (st_c st)) -> count_occ name_dec (map fst (groups (st_c st))) n = 1)
  /\ (forall f u, In f (flows (st_c st)) -> In (KFlow, (f_name f, u)) (occs (st_c st)) -> u = f_uuid f).

Lemma one_name_one_uuid st st' : dict_wf (st_d st) -> flows_have_uuid (st_c st) -> validate st = Ok st' ->
  one_name_one_uuid_at st'.
Proof.
  intros Hwf Hfl H. rewrite validate_eq in H. unfold one_name_one_uuid_at.
  pose proof (validate_consistent R Rc _ _ Hwf Hfl H) as Hc.
  split; [|split; [|split]].
  - intros k n u H0. rewrite occs_eq in H0. apply (Hc _ _ _ H0).
  - intros k n u1 u2 H1 H2. rewrite occs_eq in H1, H2. apply (consistent_pairwise R Rc _ _ _ _ _ Hc H1 H2).
  - intros n u H1. rewrite occs_eq in H1. apply (validate_groups_once R Rc _ _ _ _ Hwf H H1).
  - intros f u Hf H1. rewrite occs_eq in H1. apply (consistent_pairwise R Rc _ _ _ _ _ Hc H1).
    unfold occs_g. rewrite !in_app_iff. right. left. apply in_map_iff. exists f. auto.
Qed.

(* ---- 2 ---- *)
Definition explicit_source (st : state) (k : kind) (n : name) (u : pyuuid) : Prop :=
  In (k, (n, u)) (occs (st_c st)) \/ dget (sel k (st_d st)) n = Some u.

Lemma source_eq st k n u : explicit_source st k n u <-> source R Rc st k n u.
Proof. unfold explicit_source, source. rewrite occs_eq. tauto. Qed.

Lemma explicit_wins st st' k n u : dict_wf (st_d st) -> flows_have_uuid (st_c st) -> validate st = Ok st' ->
  truthy u = true -> explicit_source st k n u ->
  dget (sel k (st_d st')) n = Some u /\ forall u', In (k, (n, u')) (occs (st_c st')) -> u' = u.
Proof.
  intros Hwf Hfl H Ht Hs. rewrite validate_eq in H. apply source_eq in Hs. split.
  - apply (validate_binds R Rc _ _ _ _ _ H Ht Hs).
  - intros u' Hin. rewrite occs_eq in Hin. apply (explicit_wins_S R Rc _ _ _ _ _ Hwf Hfl H Ht Hs _ Hin).
Qed.

(* ---- 3 ---- *)
Lemma conflict_rejected st k n u1 u2 : truthy u1 = true -> truthy u2 = true -> u1 <> u2 ->
  explicit_source st k n u1 -> explicit_source st k n u2 ->
  validate st = Err EConflict \/ validate st = Err EUnknownFlow.
Proof.
  intros T1 T2 Hne S1 S2. apply source_eq in S1, S2. rewrite validate_eq.
  destruct (conflict_rejected_S R Rc _ _ _ _ _ T1 T2 Hne S1 S2) as (e & He & [->| ->]); auto.
Qed.

Definition flow_known_now : state -> name -> bool := flow_known R Rc.

Lemma conflict_rejected_exact st k n u1 u2 : truthy u1 = true -> truthy u2 = true -> u1 <> u2 ->
  explicit_source st k n u1 -> explicit_source st k n u2 ->
  (forall t, In t (triggers (st_c st)) -> flow_known_now st (fst (t_flow t)) = true) ->
  validate st = Err EConflict.
Proof.
  intros T1 T2 Hne S1 S2 Hk. apply source_eq in S1, S2. rewrite validate_eq.
  apply (conflict_exact_S R Rc _ _ _ _ _ T1 T2 Hne S1 S2 Hk).
Qed.

(* validate never fails with a KeyError in the assign loops *)
Lemma validate_errors st e : validate st = Err e -> e = EConflict \/ e = EUnknownFlow.
Proof. rewrite validate_eq. apply validate_err_kinds. Qed.

(* ---- 4 ---- *)
Lemma validate_idempotent st st' : dict_wf (st_d st) -> validate st = Ok st' -> validate st' = Ok st'.
Proof. rewrite !validate_eq. apply validate_idempotent_S. Qed.

Lemma dict_wf_validate' st st' : dict_wf (st_d st) -> validate st = Ok st' -> dict_wf (st_d st').
Proof. rewrite validate_eq. apply dict_wf_validate. Qed.

Lemma render_n_fixed k : forall st st', dict_wf (st_d st) -> validate st = Ok st' -> render_n (S k) st = Ok st'.
Proof.
  induction k as [|k IH]; intros st st' Hwf H.
  - cbn. rewrite H. reflexivity.
  - change (render_n (S (S k)) st) with (match validate st with Ok s => render_n (S k) s | Err e => Err e end).
    rewrite H. apply IH; [apply (dict_wf_validate' _ _ Hwf H)|apply (validate_idempotent _ _ Hwf H)].
Qed.

(* ---- 5 ---- *)
Lemma trigger_unknown_flow_rejected st t : In t (triggers (st_c st)) -> flow_known_now st (fst (t_flow t)) = false ->
  validate st = Err EUnknownFlow \/ validate st = Err EConflict.
Proof.
  intros Hin Hk. rewrite validate_eq.
  destruct (unknown_trigger_rejected_S R Rc _ _ Hin Hk) as (e & He & [->| ->]); auto.
Qed.

Lemma trigger_error_only_unknown st : validate st = Err EUnknownFlow ->
  exists t, In t (triggers (st_c st)) /\ flow_known_now st (fst (t_flow t)) = false.
Proof. rewrite validate_eq. apply unknown_flow_error_S. Qed.

Lemma trigger_flow_resolved st st' t : dict_wf (st_d st) -> flows_have_uuid (st_c st) ->
  validate st = Ok st' -> In t (triggers (st_c st')) ->
  truthy (snd (t_flow t)) = true
  /\ dget (fd (st_d st')) (fst (t_flow t)) = Some (snd (t_flow t))
  /\ forall u, In (KFlow, (fst (t_flow t), u)) (occs (st_c st')) -> u = snd (t_flow t).
Proof.
  intros Hwf Hfl H Hin. rewrite validate_eq in H.
  destruct (trigger_flow_resolved_S R Rc _ _ _ Hwf Hfl H Hin) as (A & B & C).
  split; [exact A|]. split; [exact B|]. intros u Hu. rewrite occs_eq in Hu. apply C, Hu.
Qed.

(* ---- histories ---- *)
Definition op_ok (o : op) : Prop := match o with OAddFlow f => truthy (f_uuid f) = true | _ => True end.

Definition hist_inv (st : state) : Prop := dict_wf (st_d st) /\ flows_have_uuid (st_c st).

Lemma hist_inv_init c : flows_have_uuid c -> hist_inv (init c).
Proof. intros H. split; [apply dict_wf_empty|exact H]. Qed.

Lemma record_k_wf k ud n u ud' : dict_wf ud -> record_k k ud n u = Ok ud' -> dict_wf ud'.
Proof. intros Hwf H k'. apply (ext_nodup _ _ (record_k_ext _ _ _ _ _ H)), Hwf. Qed.

Lemma step_hist_inv st o st' : hist_inv st -> op_ok o -> step st o = Ok st' -> hist_inv st'.
Proof.
  intros [Hwf Hfl] Hok H. destruct o as [n u|n u|f|x|x|]; cbn in H.
  - destruct (record_k KGroup (st_d st) n u) as [ud|e] eqn:E; [|discriminate]. injection H as <-.
    split; [apply (record_k_wf _ _ _ _ _ Hwf E)|exact Hfl].
  - destruct (record_k KFlow (st_d st) n u) as [ud|e] eqn:E; [|discriminate]. injection H as <-.
    split; [apply (record_k_wf _ _ _ _ _ Hwf E)|exact Hfl].
  - destruct (record_k KFlow (st_d st) (f_name f) (f_uuid f)) as [ud|e] eqn:E; [|discriminate]. injection H as <-.
    split; [apply (record_k_wf _ _ _ _ _ Hwf E)|]. intros f' Hin. cbn [st_c flows] in Hin.
    apply in_app_iff in Hin as [Hin|[<-|[]]]; [apply Hfl, Hin|exact Hok].
  - injection H as <-. split; [exact Hwf|exact Hfl].
  - injection H as <-. split; [exact Hwf|exact Hfl].
  - split; [apply (dict_wf_validate' _ _ Hwf H)|].
    rewrite validate_eq in H. apply (flows_have_uuid_validate R Rc _ _ H Hfl).
Qed.

(* a truthy binding of the dictionary is permanent: no operation ever changes it *)
Lemma step_binding_permanent st o st' k n u : step st o = Ok st' ->
  dget (sel k (st_d st)) n = Some u -> truthy u = true -> dget (sel k (st_d st')) n = Some u.
Proof.
  intros H Hg Ht. destruct o as [n0 u0|n0 u0|f|x|x|]; cbn in H.
  - destruct (record_k KGroup (st_d st) n0 u0) as [ud|e] eqn:E; [|discriminate]. injection H as <-.
    apply (ext_bound _ _ (record_k_ext _ _ _ _ _ E)); assumption.
  - destruct (record_k KFlow (st_d st) n0 u0) as [ud|e] eqn:E; [|discriminate]. injection H as <-.
    apply (ext_bound _ _ (record_k_ext _ _ _ _ _ E)); assumption.
  - destruct (record_k KFlow (st_d st) (f_name f) (f_uuid f)) as [ud|e] eqn:E; [|discriminate]. injection H as <-.
    apply (ext_bound _ _ (record_k_ext _ _ _ _ _ E)); assumption.
  - injection H as <-. exact Hg.
  - injection H as <-. exact Hg.
  - rewrite validate_eq in H. apply (validate_binds R Rc _ _ _ _ _ H Ht). right. exact Hg.
Qed.

Lemma run_hist_inv ops : forall st st', hist_inv st -> Forall op_ok ops -> run ops st = Ok st' -> hist_inv st'.
Proof.
  unfold run. induction ops as [|o r IH]; intros st st' Hi Hok H; cbn in H.
  - injection H as <-. exact Hi.
  - inversion Hok as [|x l Ho Hr]; subst. destruct (step st o) as [st1|e] eqn:E; [|discriminate].
    apply (IH st1 st' (step_hist_inv _ _ _ Hi Ho E) Hr H).
Qed.

Lemma run_binding_permanent ops : forall st st' k n u, run ops st = Ok st' ->
  dget (sel k (st_d st)) n = Some u -> truthy u = true -> dget (sel k (st_d st')) n = Some u.
Proof.
  unfold run. induction ops as [|o r IH]; intros st st' k n u H Hg Ht; cbn in H.
  - injection H as <-. exact Hg.
  - destruct (step st o) as [st1|e] eqn:E; [|discriminate].
    apply (IH st1 st' k n u H); [apply (step_binding_permanent _ _ _ _ _ _ E Hg Ht)|exact Ht].
Qed.

(* every render of a history is consistent in itself, and any two renders of the same
   history agree on every (kind, name): the whole [run_trace] the correspondence compares *)
Lemma run_trace_consistent ops : forall st i snaps stop, hist_inv st -> Forall op_ok ops ->
  run_trace ops st i = (snaps, stop) ->
  (forall s k n u, In s snaps -> In (k, (n, u)) (fst s) ->
     truthy u = true /\ forall r, dget (sel k (st_d st)) n = Some r -> truthy r = true -> r = u)
  /\ (forall s1 s2 k n u1 u2, In s1 snaps -> In s2 snaps ->
        In (k, (n, u1)) (fst s1) -> In (k, (n, u2)) (fst s2) -> u1 = u2).
Proof.
  induction ops as [|o r IH]; intros st i snaps stop Hi Hok H; cbn [run_trace] in H.
  - injection H as <- <-. split; intros; contradiction.
  - inversion Hok as [|x l Ho Hr]; subst.
    destruct (step st o) as [st1|e] eqn:E.
    2:{ injection H as <- <-. split; intros; contradiction. }
    destruct (run_trace r st1 (S i)) as [snaps_r stop_r] eqn:Er.
    pose proof (step_hist_inv _ _ _ Hi Ho E) as Hi1.
    destruct (IH st1 (S i) snaps_r stop_r Hi1 Hr Er) as [IH1 IH2].
    assert (Hperm : forall k n r0, dget (sel k (st_d st)) n = Some r0 -> truthy r0 = true ->
                                   dget (sel k (st_d st1)) n = Some r0).
    { intros k n r0. apply (step_binding_permanent _ _ _ _ _ _ E). }
    assert (Hold : forall s k n u, In s snaps_r -> In (k, (n, u)) (fst s) ->
              truthy u = true /\ forall r0, dget (sel k (st_d st)) n = Some r0 -> truthy r0 = true -> r0 = u).
    { intros s k n u Hs Hin. destruct (IH1 s k n u Hs Hin) as [A B]. split; [exact A|].
      intros r0 Hg Ht. apply B; [apply Hperm; assumption|exact Ht]. }
    assert (Hsn : snaps = snaps_r \/ (o = ORender /\ snaps = (occs (st_c st1), vis_of (st_c st1)) :: snaps_r)).
    { destruct o; injection H as <- <-; auto. }
    destruct Hsn as [->|[-> ->]]; [split; [exact Hold|exact IH2]|].
    cbn [step] in E. destruct Hi as [Hwf Hfl].
    destruct (one_name_one_uuid _ _ Hwf Hfl E) as (C1 & C2 & _).
    split.
    + intros s k n u [<-|Hs] Hin; [|apply (Hold s k n u Hs Hin)].
      cbn [fst] in Hin. destruct (C1 _ _ _ Hin) as [A B]. split; [exact A|].
      intros r0 Hg Ht. apply Hperm in Hg; [|exact Ht]. congruence.
    + intros s1 s2 k n u1 u2 [<-|H1] [<-|H2] I1 I2; cbn [fst] in *.
      * apply (C2 _ _ _ _ I1 I2).
      * destruct (C1 _ _ _ I1) as [A B]. destruct (IH1 s2 k n u2 H2 I2) as [_ D]. apply (D u1 B A).
      * destruct (C1 _ _ _ I2) as [A B]. destruct (IH1 s1 k n u1 H1 I1) as [_ D]. symmetry. apply (D u2 B A).
      * apply (IH2 s1 s2 k n u1 u2 H1 H2 I1 I2).
Qed.

(* ---- 6. invented uuids along histories ---- *)
(* what comes from outside (constructor arguments, sheet obj_id, from_dict) carries no uuid
   invented by THIS container: the modelling assumption behind "uuid4 is a counter" *)
Definition instr_nofreshb (i : instr) : bool :=
  match i with IRec _ _ (Some (Fresh _)) => false | _ => true end.

Definition op_instrs (o : op) : list instr :=
  match o with
  | ORecordGroup n u => [IRec KGroup n u]
  | ORecordFlow n u => [IRec KFlow n u]
  | OAddFlow f => IRec KFlow (f_name f) (f_uuid f) :: map irec (flow_refs R Rc f)
  | OAddCampaign x => map irec (campaign_refs x)
  | OAddTrigger t => trigger_instrs t
  | ORender => []
  end.

Definition op_nofresh (o : op) : Prop := forallb instr_nofreshb (op_instrs o) = true.
Definition container_nofresh (c : container) : Prop := forallb instr_nofreshb (instrs_of R Rc c) = true.

Lemma fresh_inv_init c : container_nofresh c -> fresh_inv R Rc (init c).
Proof.
  intros Hnf. constructor; cbn [init st_d st_c].
  - apply dict_wf_empty.
  - intros k n m H. destruct k; discriminate.
  - intros k1 n1 k2 n2 m H. destruct k1; discriminate.
  - intros k n m Hin. unfold container_nofresh in Hnf. rewrite forallb_forall in Hnf.
    apply Hnf in Hin. discriminate.
Qed.

Lemma fresh_inv_ext st ud' c' : fresh_inv R Rc st -> ext (st_d st) ud' ->
  (forall k n m, dget (sel k ud') n = Some (Some (Fresh m)) -> dget (sel k (st_d st)) n = Some (Some (Fresh m))) ->
  (forall i, In i (instrs_of R Rc c') -> In i (instrs_of R Rc (st_c st)) \/ instr_nofreshb i = true) ->
  fresh_inv R Rc {| st_d := ud'; st_c := c' |}.
Proof.
  intros [Hwf Hctr Hinj Hc] Hext Hold Hins. constructor; cbn [st_d st_c].
  - intros k. apply (ext_nodup _ _ Hext), Hwf.
  - intros k n m Hg. rewrite (ext_ctr _ _ Hext). apply (Hctr k n m), Hold, Hg.
  - intros k1 n1 k2 n2 m H1 H2. apply (Hinj k1 n1 k2 n2 m); apply Hold; assumption.
  - intros k n m Hin. destruct (Hins _ Hin) as [Hi|Hi]; [|discriminate].
    apply (ext_bound _ _ Hext); [apply Hc, Hi|reflexivity].
Qed.

Lemma record_k_fresh k ud n u ud' : record_k k ud n u = Ok ud' -> instr_nofreshb (IRec k n u) = true ->
  forall k' n' m, dget (sel k' ud') n' = Some (Some (Fresh m)) -> dget (sel k' ud) n' = Some (Some (Fresh m)).
Proof.
  intros H Hnf k' n' m Hg. apply (record_k_origin _ _ _ _ _ _ _ _ H) in Hg as [Hg|(-> & -> & <-)]; [exact Hg|].
  discriminate.
Qed.

Lemma op_eq_render o : o = ORender \/ o <> ORender.
Proof. destruct o; [right|right|right|right|right|left]; congruence. Qed.

(* the record instructions of the container after a non-render operation *)
Lemma step_instrs st o st' : o <> ORender -> step st o = Ok st' ->
  forall i, In i (instrs_of R Rc (st_c st')) -> In i (instrs_of R Rc (st_c st)) \/ In i (op_instrs o).
Proof.
  intros Hne H i Hin. destruct o as [n u|n u|f|x|x|]; cbn in H; [| | | | |congruence].
  - destruct (record_k KGroup (st_d st) n u); [|discriminate]. injection H as <-. left. exact Hin.
  - destruct (record_k KFlow (st_d st) n u); [|discriminate]. injection H as <-. left. exact Hin.
  - destruct (record_k KFlow (st_d st) (f_name f) (f_uuid f)); [|discriminate]. injection H as <-.
    cbn [st_c] in Hin. rewrite in_instrs_of in Hin. rewrite in_instrs_of. cbn [groups flows campaigns triggers op_instrs] in *.
    destruct Hin as [Hg|[(f' & Hf & ->)|[(r & Hr & ->)|Ht]]].
    + left. left. exact Hg.
    + apply in_app_iff in Hf as [Hf|[<-|[]]]; [left; right; left; exists f'; auto|right; left; reflexivity].
    + unfold refs_of in Hr. cbn [flows campaigns triggers] in Hr. rewrite flat_map_app, <- app_assoc in Hr.
      cbn [flat_map] in Hr. rewrite app_nil_r in Hr.
      apply in_app_iff in Hr as [Hr|Hr]; [|apply in_app_iff in Hr as [Hr|Hr]].
      * left. right. right. left. exists r. split; [|reflexivity]. unfold refs_of. rewrite !in_app_iff. auto.
      * right. right. apply in_map. exact Hr.
      * left. right. right. left. exists r. split; [|reflexivity]. unfold refs_of. rewrite !in_app_iff.
        apply in_app_iff in Hr. tauto.
    + left. right. right. right. exact Ht.
  - injection H as <-. cbn [with_c st_c] in Hin. rewrite in_instrs_of in Hin. rewrite in_instrs_of.
    cbn [groups flows campaigns triggers op_instrs] in *.
    destruct Hin as [Hg|[Hf|[(r & Hr & ->)|Ht]]]; [left; left; exact Hg|left; right; left; exact Hf| |left; right; right; right; exact Ht].
    unfold refs_of in Hr. cbn [flows campaigns triggers] in Hr. rewrite flat_map_app in Hr. cbn [flat_map] in Hr.
    rewrite app_nil_r in Hr. rewrite !in_app_iff in Hr. destruct Hr as [Hr|[[Hr|Hr]|Hr]].
    + left. right. right. left. exists r. split; [|reflexivity]. unfold refs_of. rewrite !in_app_iff. auto.
    + left. right. right. left. exists r. split; [|reflexivity]. unfold refs_of. rewrite !in_app_iff. auto.
    + right. apply in_map. exact Hr.
    + left. right. right. left. exists r. split; [|reflexivity]. unfold refs_of. rewrite !in_app_iff. auto.
  - injection H as <-. cbn [with_c st_c] in Hin. rewrite in_instrs_of in Hin. rewrite in_instrs_of.
    cbn [groups flows campaigns triggers op_instrs] in *.
    destruct Hin as [Hg|[Hf|[(r & Hr & ->)|(t & Ht & ->)]]]; [left; left; exact Hg|left; right; left; exact Hf| |].
    + unfold refs_of in Hr. cbn [flows campaigns triggers] in Hr. rewrite flat_map_app in Hr. cbn [flat_map] in Hr.
      rewrite app_nil_r in Hr. rewrite !in_app_iff in Hr. destruct Hr as [Hr|[Hr|[Hr|Hr]]].
      * left. right. right. left. exists r. split; [|reflexivity]. unfold refs_of. rewrite !in_app_iff. auto.
      * left. right. right. left. exists r. split; [|reflexivity]. unfold refs_of. rewrite !in_app_iff. auto.
      * left. right. right. left. exists r. split; [|reflexivity]. unfold refs_of. rewrite !in_app_iff. auto.
      * right. apply in_trigger_instrs. right. exists r. auto.
    + apply in_app_iff in Ht as [Ht|[<-|[]]].
      * left. right. right. right. exists t. auto.
      * right. apply in_trigger_instrs. left. reflexivity.
Qed.

Lemma fresh_inv_step st o st' : fresh_inv R Rc st -> op_nofresh o -> step st o = Ok st' -> fresh_inv R Rc st'.
Proof.
  intros Hi Hnf H. destruct (op_eq_render o) as [->|Hne].
  - cbn in H. rewrite validate_eq in H. apply (fresh_inv_validate R Rc _ _ Hi H).
  - pose proof (step_instrs _ _ _ Hne H) as Hins.
    assert (Hins' : forall i, In i (instrs_of R Rc (st_c st')) -> In i (instrs_of R Rc (st_c st)) \/ instr_nofreshb i = true).
    { intros i Hin. destruct (Hins i Hin) as [Hl|Hr]; [left; exact Hl|right].
      unfold op_nofresh in Hnf. rewrite forallb_forall in Hnf. apply Hnf, Hr. }
    unfold op_nofresh in Hnf.
    destruct o as [n u|n u|f|x|x|]; cbn in H; [| | | | |congruence].
    + destruct (record_k KGroup (st_d st) n u) as [ud|e] eqn:E; [|discriminate]. injection H as <-.
      cbn [op_instrs forallb] in Hnf. rewrite andb_true_r in Hnf.
      apply (fresh_inv_ext _ _ _ Hi (record_k_ext _ _ _ _ _ E) (record_k_fresh _ _ _ _ _ E Hnf) Hins').
    + destruct (record_k KFlow (st_d st) n u) as [ud|e] eqn:E; [|discriminate]. injection H as <-.
      cbn [op_instrs forallb] in Hnf. rewrite andb_true_r in Hnf.
      apply (fresh_inv_ext _ _ _ Hi (record_k_ext _ _ _ _ _ E) (record_k_fresh _ _ _ _ _ E Hnf) Hins').
    + destruct (record_k KFlow (st_d st) (f_name f) (f_uuid f)) as [ud|e] eqn:E; [|discriminate]. injection H as <-.
      cbn [op_instrs forallb] in Hnf. apply andb_true_iff in Hnf as [Hnf _].
      apply (fresh_inv_ext _ _ _ Hi (record_k_ext _ _ _ _ _ E) (record_k_fresh _ _ _ _ _ E Hnf) Hins').
    + injection H as <-. apply (fresh_inv_ext _ _ _ Hi (ext_refl _) (fun _ _ _ h => h) Hins').
    + injection H as <-. apply (fresh_inv_ext _ _ _ Hi (ext_refl _) (fun _ _ _ h => h) Hins').
Qed.

Lemma fresh_inv_run ops : forall st st', fresh_inv R Rc st -> Forall op_nofresh ops -> run ops st = Ok st' ->
  fresh_inv R Rc st'.
Proof.
  unfold run. induction ops as [|o r IH]; intros st st' Hi Hok H; cbn in H.
  - injection H as <-. exact Hi.
  - inversion Hok as [|x l Ho Hr]; subst. destruct (step st o) as [st1|e] eqn:E; [|discriminate].
    apply (IH st1 st' (fresh_inv_step _ _ _ Hi Ho E) Hr H).
Qed.

(* the statement of 6 for whole histories that start from a fresh container *)
Definition fresh_ok (st : state) : Prop :=
  (forall k n m, dget (sel k (st_d st)) n = Some (Some (Fresh m)) -> m < ctr (st_d st))
  /\ (forall k1 n1 k2 n2 m, dget (sel k1 (st_d st)) n1 = Some (Some (Fresh m)) ->
        dget (sel k2 (st_d st)) n2 = Some (Some (Fresh m)) -> k1 = k2 /\ n1 = n2)
  /\ (forall k n m, In (k, (n, Some (Fresh m))) (occs (st_c st)) -> dget (sel k (st_d st)) n = Some (Some (Fresh m)))
  /\ (forall k1 n1 k2 n2 m, In (k1, (n1, Some (Fresh m))) (occs (st_c st)) ->
        In (k2, (n2, Some (Fresh m))) (occs (st_c st)) -> k1 = k2 /\ n1 = n2).

Lemma fresh_inv_ok st : fresh_inv R Rc st -> fresh_ok st.
Proof.
  intros Hi. pose proof Hi as [Hwf Hctr Hinj Hc]. split; [exact Hctr|]. split; [exact Hinj|]. split.
  - intros k n m Hin. rewrite occs_eq in Hin. apply in_occs in Hin. apply Hc, Hin.
  - intros k1 n1 k2 n2 m H1 H2. rewrite occs_eq in H1, H2. apply (fresh_inv_occs R Rc _ _ _ _ _ _ Hi H1 H2).
Qed.

Lemma fresh_uuids_unique c ops st' : container_nofresh c -> Forall op_nofresh ops ->
  run ops (init c) = Ok st' -> fresh_ok st'.
Proof.
  intros Hc Hops H. apply fresh_inv_ok. apply (fresh_inv_run ops (init c) st' (fresh_inv_init _ Hc) Hops H).
Qed.

(* what one validate invents is new, and it invents only for names that have no uuid yet *)
Lemma invented_is_new st st' k n m : fresh_inv R Rc st -> validate st = Ok st' ->
  dget (sel k (st_d st')) n = Some (Some (Fresh m)) -> ctr (st_d st) <= m ->
  (forall k0 n0, dget (sel k0 (st_d st)) n0 <> Some (Some (Fresh m)))
  /\ (forall k0 n0, ~ In (k0, (n0, Some (Fresh m))) (occs (st_c st)))
  /\ (forall u, truthy u = true -> ~ explicit_source st k n u).
Proof.
  intros Hi H Hg Hm. rewrite validate_eq in H.
  destruct (invented_new_S R Rc _ _ _ _ _ Hi H Hg Hm) as [A B]. split; [exact A|]. split.
  - intros k0 n0. rewrite occs_eq. apply B.
  - intros u Ht Hs. apply source_eq in Hs. pose proof (validate_binds R Rc _ _ _ _ _ H Ht Hs) as Hb.
    rewrite Hg in Hb. injection Hb as <-. destruct Hs as [Hs|Hs]; [apply (B k n Hs)|apply (A k n Hs)].
Qed.

(* 1 for every reachable state: any container, any history of record/add/render operations *)
Lemma one_name_one_uuid_run c ops st st' : flows_have_uuid c -> Forall op_ok ops ->
  run ops (init c) = Ok st -> validate st = Ok st' -> one_name_one_uuid_at st'.
Proof.
  intros Hfl Hops Hrun H. destruct (run_hist_inv ops (init c) st (hist_inv_init _ Hfl) Hops Hrun) as [Hwf Hfl'].
  apply (one_name_one_uuid _ _ Hwf Hfl' H).
Qed.

Definition fresh_inv_now : state -> Prop := fresh_inv R Rc.
