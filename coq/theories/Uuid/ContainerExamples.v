(* E4 — concrete containers: non-vacuity of the C06 theorems, and witnesses showing that
   their side conditions are needed. *)
From Coq Require Import List NArith Bool Lia Arith PeanoNat.
From RPFT Require Import Base.Sexp Base.PyStr Base.PyStrFacts Base.Result Base.ODict Gen.Tables
  Uuid.UuidDict Uuid.Container Uuid.UuidFacts Uuid.ContainerFacts.
Import ListNotations.
Local Open Scope N_scope.

Definition nA : name := [97].        (* group "a" *)
Definition nB : name := [98].        (* group "b" *)
Definition nF : name := [102].       (* flow "f": defined *)
Definition nG : name := [103].       (* flow "g": defined *)
Definition nH : name := [104].       (* flow "h": only referenced (lives on the server) *)
Definition nZ : name := [122].       (* flow "z": mentioned by nobody but a trigger *)
Definition U1 : pyuuid := Some (Given [85; 49]).
Definition U2 : pyuuid := Some (Given [85; 50]).
Definition UF : pyuuid := Some (Given [85; 70]).
Definition UG : pyuuid := Some (Given [85; 71]).

Definition add_groups (gs : list gref) : action := {| a_type := s_add_contact_groups; a_groups := gs; a_flow := None |}.
Definition remove_groups (gs : list gref) : action := {| a_type := s_remove_contact_groups; a_groups := gs; a_flow := None |}.
Definition enter_flow (g : gref) : action := {| a_type := s_enter_flow; a_groups := []; a_flow := Some g |}.
Definition has_group (g : gref) : rcase := {| k_type := s_has_group; k_uuid := snd g; k_name := fst g |}.

Definition flow_f : flow :=
  {| f_name := nF; f_uuid := UF;
     f_nodes := [ {| n_actions := [add_groups [(nA, None); (nB, None)]; enter_flow (nG, None)];
                     n_cases := [has_group (nB, None)] |} ] |}.
Definition flow_g : flow :=
  {| f_name := nG; f_uuid := UG;
     f_nodes := [ {| n_actions := [remove_groups [(nB, Some (Given []))]; enter_flow (nF, None); enter_flow (nH, None)];
                     n_cases := [] |} ] |}.
Definition camp (g : gref) : campaign :=
  {| c_events := [ {| e_type := [70]; e_flow := (nF, None) |}; {| e_type := [70]; e_flow := (nH, None) |} ];
     c_group := g |}.
Definition trig (fl : gref) (excl : gref) : trigger :=
  {| t_flow := fl; t_groups := [(nB, None)]; t_exclude := [excl] |}.

(* two flows, a campaign and two triggers sharing the names a, b, f, g, h; the only explicit
   group uuid sits in the container's group list *)
Definition ex_c : container :=
  {| groups := [(nA, U1)];
     flows := [flow_f; flow_g];
     campaigns := [camp (nA, None)];
     triggers := [trig (nG, None) (nA, None); trig (nH, None) (nB, None)] |}.

(* the explicit uuid sits at the LAST occurrence instead (a trigger's exclude group) *)
Definition ex_late : container :=
  {| groups := []; flows := [flow_f; flow_g]; campaigns := [camp (nA, None)];
     triggers := [trig (nG, None) (nA, None); trig (nH, None) (nA, U1)] |}.

(* two different explicit uuids for group a: container list and a trigger's exclude group *)
Definition ex_conflict : container :=
  {| groups := [(nA, U1)]; flows := [flow_f; flow_g]; campaigns := [camp (nA, None)];
     triggers := [trig (nG, None) (nA, U2)] |}.

(* ... the same, plus an earlier trigger for a flow nobody knows: the trigger error comes first *)
Definition ex_conflict_ghost : container :=
  {| groups := [(nA, U1)]; flows := [flow_f; flow_g]; campaigns := [camp (nA, None)];
     triggers := [trig (nZ, None) (nB, None); trig (nG, None) (nA, U2)] |}.

(* a trigger for a flow the container knows in no way *)
Definition ex_ghost : container :=
  {| groups := [(nA, U1)]; flows := [flow_f; flow_g]; campaigns := [camp (nA, None)];
     triggers := [trig (nG, None) (nA, None); trig (nZ, None) (nB, None)] |}.

(* a flow object without uuid: not constructible (FlowContainer.__init__ invents one) *)
Definition ex_nouuid : container :=
  {| groups := []; flows := [ {| f_name := nF; f_uuid := None; f_nodes := [] |};
                              {| f_name := nG; f_uuid := UG; f_nodes := [ {| n_actions := [enter_flow (nF, None)]; n_cases := [] |} ] |} ];
     campaigns := []; triggers := [] |}.

Definition ex_st : state :=
  match validate (init ex_c) with Ok s => s | Err _ => init ex_c end.

Lemma ex_validate : validate (init ex_c) = Ok ex_st.
Proof. vm_compute. reflexivity. Qed.

Lemma ex_flows_uuid : flows_have_uuid ex_c.
Proof. apply flows_have_uuid_b. reflexivity. Qed.

Ltac in_list := vm_compute; repeat first [left; reflexivity | right].

(* 1 *)
Lemma one_name_one_uuid_nonvacuous :
  dict_wf (st_d (init ex_c)) /\ flows_have_uuid (st_c (init ex_c)) /\ validate (init ex_c) = Ok ex_st
  /\ In (KGroup, (nB, Some (Fresh 1))) (occs (st_c ex_st)) /\ In (KGroup, (nA, U1)) (occs (st_c ex_st))
  /\ In (KFlow, (nH, Some (Fresh 0))) (occs (st_c ex_st))
  /\ length (occs (st_c ex_st)) = 20%nat.
Proof.
  split; [apply dict_wf_empty|]. split; [apply ex_flows_uuid|]. split; [apply ex_validate|].
  split; [in_list|]. split; [in_list|]. split; [in_list|]. vm_compute. reflexivity.
Qed.

(* the side condition "a flow object has a uuid" is needed: without it the flow's own uuid
   and the references to it differ *)
Lemma one_name_one_uuid_needs_flow_uuid : exists st',
  dict_wf (st_d (init ex_nouuid)) /\ validate (init ex_nouuid) = Ok st'
  /\ In (KFlow, (nF, None)) (occs (st_c st')) /\ In (KFlow, (nF, Some (Fresh 0))) (occs (st_c st')).
Proof.
  eexists. split; [apply dict_wf_empty|]. split; [vm_compute; reflexivity|]. split; in_list.
Qed.

(* 2 *)
Lemma explicit_wins_nonvacuous :
  (validate (init ex_c) = Ok ex_st /\ truthy U1 = true /\ explicit_source (init ex_c) KGroup nA U1)
  /\ (exists st', validate (init ex_late) = Ok st' /\ flows_have_uuid ex_late
        /\ explicit_source (init ex_late) KGroup nA U1
        /\ nth_error (occs (st_c (init ex_late))) 17 = Some (KGroup, (nA, U1))
        /\ nth_error (occs (st_c (init ex_late))) 2 = Some (KGroup, (nA, None))
        /\ nth_error (occs (st_c st')) 4 = Some (KGroup, (nA, U1))).
Proof.
  split.
  - split; [apply ex_validate|]. split; [reflexivity|]. left. in_list.
  - eexists. split; [vm_compute; reflexivity|]. split; [apply flows_have_uuid_b; reflexivity|].
    split; [left; in_list|]. repeat split; vm_compute; reflexivity.
Qed.

(* 3 *)
Lemma conflict_rejected_nonvacuous :
  truthy U1 = true /\ truthy U2 = true /\ U1 <> U2
  /\ explicit_source (init ex_conflict) KGroup nA U1 /\ explicit_source (init ex_conflict) KGroup nA U2
  /\ (forall t, In t (triggers ex_conflict) -> flow_known_now (init ex_conflict) (fst (t_flow t)) = true)
  /\ validate (init ex_conflict) = Err EConflict.
Proof.
  split; [reflexivity|]. split; [reflexivity|]. split; [discriminate|].
  split; [left; in_list|]. split; [left; in_list|]. split; [|vm_compute; reflexivity].
  intros t [<-|[]]. vm_compute. reflexivity.
Qed.

(* "always the conflict error" would be false: an unknown trigger flow met earlier wins *)
Lemma conflict_error_not_always_first :
  explicit_source (init ex_conflict_ghost) KGroup nA U1 /\ explicit_source (init ex_conflict_ghost) KGroup nA U2
  /\ validate (init ex_conflict_ghost) = Err EUnknownFlow.
Proof. split; [left; in_list|]. split; [left; in_list|]. vm_compute. reflexivity. Qed.

(* 4 *)
Lemma validate_idempotent_nonvacuous :
  validate (init ex_c) = Ok ex_st /\ ctr (st_d ex_st) = 2%nat /\ st_d ex_st <> st_d (init ex_c)
  /\ render_n 3 (init ex_c) = Ok ex_st.
Proof.
  split; [apply ex_validate|]. split; [vm_compute; reflexivity|]. split; [vm_compute; discriminate|].
  vm_compute. reflexivity.
Qed.

(* 5 *)
Lemma trigger_unknown_nonvacuous :
  In (trig (nZ, None) (nB, None)) (triggers (st_c (init ex_ghost)))
  /\ flow_known_now (init ex_ghost) nZ = false
  /\ validate (init ex_ghost) = Err EUnknownFlow.
Proof. split; [right; left; reflexivity|]. split; vm_compute; reflexivity. Qed.

(* a trigger for a flow that is only referenced (enter_flow h) is accepted and resolved *)
Lemma trigger_referenced_only_accepted :
  validate (init ex_c) = Ok ex_st
  /\ flow_known_now (init ex_c) nH = true
  /\ existsb (fun f => str_eqb (f_name f) nH) (flows ex_c) = false
  /\ In {| t_flow := (nH, Some (Fresh 0)); t_groups := [(nB, Some (Fresh 1))]; t_exclude := [(nB, Some (Fresh 1))] |}
       (triggers (st_c ex_st)).
Proof.
  split; [apply ex_validate|]. split; [vm_compute; reflexivity|]. split; [vm_compute; reflexivity|]. in_list.
Qed.

(* 6 / histories: record (sheet obj_id), render, add a flow, a campaign and a trigger, render again *)
Definition flow_k : flow :=
  {| f_name := [107]; f_uuid := Some (Given [85; 75]);
     f_nodes := [ {| n_actions := [add_groups [([99], None); (nB, None)]; enter_flow (nH, None)]; n_cases := [has_group ([99], None)] |} ] |}.
Definition ex_ops : list op :=
  [ORecordGroup nB U2; ORender; OAddFlow flow_k; OAddCampaign (camp ([99], None));
   OAddTrigger (trig ([107], None) ([100], None)); ORender; ORender].

Definition ex_st2 : state :=
  match run ex_ops (init ex_c) with Ok s => s | Err _ => init ex_c end.

Lemma ex_run : run ex_ops (init ex_c) = Ok ex_st2.
Proof. vm_compute. reflexivity. Qed.

Lemma fresh_uuids_nonvacuous :
  container_nofresh ex_c /\ Forall op_nofresh ex_ops /\ Forall op_ok ex_ops /\ run ex_ops (init ex_c) = Ok ex_st2
  /\ ctr (st_d ex_st2) = 3%nat
  /\ In (KGroup, ([99], Some (Fresh 1))) (occs (st_c ex_st2))
  /\ In (KGroup, ([100], Some (Fresh 2))) (occs (st_c ex_st2))
  /\ In (KGroup, (nB, U2)) (occs (st_c ex_st2))
  /\ length (fst (run_trace ex_ops (init ex_c) 0)) = 3%nat.
Proof.
  split; [vm_compute; reflexivity|].
  split; [repeat constructor|]. split; [repeat constructor|]. split; [apply ex_run|].
  split; [vm_compute; reflexivity|]. split; [in_list|]. split; [in_list|]. split; [in_list|].
  vm_compute. reflexivity.
Qed.
