(* E5 / C10 — rpft.parsers.creation.contentindexparser.ContentIndexParser: the registries,
   the row-by-row fold over the index sheets (nested indexes in place), ignore_row,
   multi-workbook sheet resolution, and parse_all (flows keyed by name).  Definitions only.

   What a sheet *contains* is abstracted to what C10 talks about: its identity
   (workbook position, name) and, by kind,
     index      its rows (already parsed by the row codec: that is E2's business),
     data       the row IDs in order,
     triggers   the flow name each trigger row refers to,
     flow / campaign   nothing further.
   A sheet used in the wrong role (a flow sheet nested as an index, ...) is an error at
   the moment the Python code parses its table.
   Not modelled here: data_sheet operations (C11), template arguments beyond one optional
   argument default (C12), user data models. *)
From Coq Require Import List NArith ZArith Bool.
From RPFT Require Import Base.Sexp Base.PyStr Base.Result Base.ODict Gen.Tables Index.TagMatch.
Import ListNotations.

(* ---------------------------------------------------------------- inputs *)

Record irow := mk_irow {
  r_type : str;            (* type *)
  r_status : str;          (* status *)
  r_tags : list str;       (* tags *)
  r_sheets : list str;     (* sheet_name (a list) *)
  r_new : str;             (* new_name *)
  r_dsheet : str;          (* data_sheet *)
  r_drow : str;            (* data_row_id *)
  r_group : str;           (* group *)
  r_targ : str             (* template_definition rows: default value of the single template
                              argument the row declares; empty = the row declares none *)
}.

Inductive body :=
| BIndex (rows : list irow)
| BFlow
| BData (ids : list str)
| BCampaign
| BTriggers (flows : list str).

Definition workbook := list (str * body).     (* a reader's [_sheets]: names are unique *)

Definition sid := (nat * str)%type.            (* sheet identity: workbook position, name *)

Inductive err :=
| ETags          (* TagMatcher: ValueError *)
| ENoIndex       (* critical: no content index sheet *)
| ESheetNames    (* critical: exactly one / at least one sheet_name *)
| ENotFound      (* ParserError: sheet not found *)
| EKind          (* a table parsed with the wrong row model *)
| EKey           (* KeyError: data sheet / data row / template not registered *)
| ERowId         (* critical: data_row_id without data_sheet *)
| EConcat        (* critical: different underlying models *)
| ETrigger       (* RapidProTriggerError: trigger refers to an undefined flow *)
| EOutOfFuel.    (* nesting deeper than the fuel: never accepted by a theorem *)

(* ---------------------------------------------------------------- sheet resolution *)

Fixpoint wb_get (wb : workbook) (name : str) : option body :=
  match wb with
  | [] => None
  | (n, b) :: r => if str_eqb n name then Some b else wb_get r name
  end.

(* CompositeSheetReader.get_sheets_by_name: one candidate per reader, in reader order *)
Fixpoint candidates_from (i : nat) (wbs : list workbook) (name : str) : list (sid * body) :=
  match wbs with
  | [] => []
  | wb :: r =>
    match wb_get wb name with
    | Some b => ((i, name), b) :: candidates_from (S i) r name
    | None => candidates_from (S i) r name
    end
  end.
Definition candidates (wbs : list workbook) (name : str) := candidates_from 0 wbs name.

Fixpoint last_opt {T} (l : list T) : option T :=
  match l with
  | [] => None
  | [x] => Some x
  | _ :: r => last_opt r
  end.

(* _get_sheet_or_die: candidates[-1] *)
Definition resolve (wbs : list workbook) (name : str) : option (sid * body) :=
  last_opt (candidates wbs name).

(* ---------------------------------------------------------------- registries *)

Definition sget {V} (d : list (str * V)) (k : str) : option V := oget str_eqb d k.
Definition sset {V} (d : list (str * V)) (k : str) (v : V) : list (str * V) := oset str_eqb d k v.
Definition spop {V} (d : list (str * V)) (k : str) : list (str * V) := opop str_eqb d k.
Definition shas {V} (d : list (str * V)) (k : str) : bool := ocontains str_eqb d k.
(* dict built by successive assignment *)
Definition of_list {V} (l : list (str * V)) : list (str * V) :=
  fold_left (fun acc kv => sset acc (fst kv) (snd kv)) l [].

Definition dmark := (sid * nat)%type.          (* a data row: sheet identity, row position *)

Record dsheet := mk_dsheet {
  ds_model : nat;                       (* identity of the (inferred) row model class *)
  ds_rows : list (str * dmark)          (* OrderedDict ID -> row *)
}.

Record fdef := mk_fdef {                (* an entry of flow_definition_rows *)
  fd_sheet : str;                       (* row.sheet_name[0] *)
  fd_new : str; fd_dsheet : str; fd_drow : str
}.

Record state := mk_state {
  st_templates : list (str * (sid * body * str));   (* template_sheets: table, argument default *)
  st_data : list (str * dsheet);                    (* data_sheets *)
  st_flows : list fdef;                             (* flow_definition_rows *)
  st_camps : list (str * (sid * str));              (* campaign_parsers: name -> sheet, group *)
  st_trigs : list (str * (sid * list str));         (* trigger_parsers: sheet_name -> sheet, flows *)
  st_models : nat                                   (* model classes created so far *)
}.

Definition st0 : state := mk_state [] [] [] [] [] 0.

Definition set_templates st v := mk_state v (st_data st) (st_flows st) (st_camps st) (st_trigs st) (st_models st).
Definition set_data st v m := mk_state (st_templates st) v (st_flows st) (st_camps st) (st_trigs st) m.
Definition set_flows st v := mk_state (st_templates st) (st_data st) v (st_camps st) (st_trigs st) (st_models st).
Definition set_camps st v := mk_state (st_templates st) (st_data st) (st_flows st) v (st_trigs st) (st_models st).
Definition set_trigs st v := mk_state (st_templates st) (st_data st) (st_flows st) (st_camps st) v (st_models st).

(* ---------------------------------------------------------------- row dispatch *)

Inductive rtype := TIndex | TData | TTemplate | TFlow | TCampaign | TTriggers | TIgnore | TOther.

(* the if/elif chain of _process_content_index_table, in its order *)
Definition classify (t : str) : rtype :=
  if str_eqb t ci_ty_index then TIndex
  else if str_eqb t ci_ty_data then TData
  else if str_eqb t ci_ty_template then TTemplate
  else if str_eqb t ci_ty_flow then TFlow
  else if str_eqb t ci_ty_campaign then TCampaign
  else if str_eqb t ci_ty_triggers then TTriggers
  else if str_eqb t ci_ty_ignore then TIgnore
  else TOther.

Definition active (pats : patterns) (r : irow) : bool :=
  negb (str_eqb (r_status r) ci_draft) && matches pats (r_tags r).

(* [x or y] on strings *)
Definition str_or (a b : str) : str := if nonempty a then a else b.

Definition fd_key (f : fdef) : str := str_or (fd_new f) (fd_sheet f).

(* _process_ignore_row *)
Definition ignore_row (name : str) (st : state) : state :=
  let st1 := set_flows st (filter (fun f => negb (str_eqb (fd_key f) name)) (st_flows st)) in
  let st2 := set_camps st1 (spop (st_camps st1) name) in
  set_trigs st2 (spop (st_trigs st2) name).

(* _add_template(row, True) *)
Definition add_template (wbs : list workbook) (sheet targ : str) (st : state) : result err state :=
  match resolve wbs sheet with
  | None => Err ENotFound
  | Some (id, b) => Ok (set_templates st (sset (st_templates st) sheet (id, b, targ)))
  end.

(* ---- data sheets (plain rows and implicit concatenation only) *)
Fixpoint number_from {T} (i : nat) (l : list T) : list (T * nat) :=
  match l with [] => [] | x :: r => (x, i) :: number_from (S i) r end.

Definition load_rows (id : sid) (ids : list str) : list (str * dmark) :=
  of_list (map (fun xi => (fst xi, (id, snd xi))) (number_from 0 ids)).

(* _get_data_sheet *)
Definition get_data (wbs : list workbook) (name : str) (st : state) : result err (dsheet * state) :=
  match sget (st_data st) name with
  | Some ds => Ok (ds, st)
  | None =>
    match resolve wbs name with
    | None => Err ENotFound
    | Some (id, BData ids) =>
      Ok (mk_dsheet (st_models st) (load_rows id ids), set_data st (st_data st) (S (st_models st)))
    | Some _ => Err EKind
    end
  end.

(* _data_sheets_concat *)
Fixpoint concat_data (wbs : list workbook) (names : list str) (model : option nat)
         (rows : list (str * dmark)) (st : state) : result err (option nat * list (str * dmark) * state) :=
  match names with
  | [] => Ok (model, rows, st)
  | n :: rest =>
    match get_data wbs n st with
    | Err e => Err e
    | Ok (ds, st') =>
      let clash := match model with Some m => negb (Nat.eqb m (ds_model ds)) | None => false end in
      if clash then Err EConcat
      else concat_data wbs rest (Some (ds_model ds))
                       (oupdate str_eqb rows (ds_rows ds)) st'
    end
  end.

(* _process_data_sheet without operation *)
Definition process_data (wbs : list workbook) (r : irow) (st : state) : result err state :=
  match r_sheets r with
  | [] => Err ESheetNames
  | first :: _ =>
    match concat_data wbs (r_sheets r) None [] st with
    | Err e => Err e
    | Ok (model, rows, st') =>
      let m := match model with Some m => m | None => 0 end in
      Ok (set_data st' (sset (st_data st') (str_or (r_new r) first) (mk_dsheet m rows)) (st_models st'))
    end
  end.

(* ---- every row type except a nested index that resolves *)
Definition step_single (wbs : list workbook) (ty : rtype) (r : irow) (sheet : str) (st : state)
  : result err state :=
  match ty with
  | TIndex =>                      (* reached only when the sheet does not resolve to an index *)
    match resolve wbs sheet with
    | None => Err ENotFound
    | Some (_, BIndex _) => Err EOutOfFuel
    | Some _ => Err EKind
    end
  | TData => process_data wbs r st
  | TTemplate => add_template wbs sheet (r_targ r) st
  | TFlow => Ok (set_flows st (st_flows st ++ [mk_fdef sheet (r_new r) (r_dsheet r) (r_drow r)]))
  | TCampaign =>
    match resolve wbs sheet with
    | None => Err ENotFound
    | Some (id, BCampaign) =>
      Ok (set_camps st (sset (st_camps st) (str_or (r_new r) sheet) (id, r_group r)))
    | Some _ => Err EKind
    end
  | TTriggers =>
    match resolve wbs sheet with
    | None => Err ENotFound
    | Some (id, BTriggers fl) => Ok (set_trigs st (sset (st_trigs st) sheet (id, fl)))
    | Some _ => Err EKind
    end
  | TIgnore => Ok (ignore_row sheet st)
  | TOther => Ok st                (* LOGGER.error: does not stop the run *)
  end.

Definition step_other (wbs : list workbook) (r : irow) (st : state) : result err state :=
  let ty := classify (r_type r) in
  match ty, r_sheets r with
  | TData, _ => process_data wbs r st
  | _, [sheet] => step_single wbs ty r sheet st
  | _, _ => Err ESheetNames
  end.

(* the rows of the nested index an *active* content_index row expands to *)
Definition nestable (pats : patterns) (wbs : list workbook) (r : irow) : option (list irow) :=
  if active pats r then
    match classify (r_type r), r_sheets r with
    | TIndex, [sheet] =>
      match resolve wbs sheet with
      | Some (_, BIndex sub) => Some sub
      | _ => None
      end
    | _, _ => None
    end
  else None.

(* one row of _process_content_index_table; [rec] handles the nested table *)
Definition step_row (rec : list irow -> state -> result err state)
           (pats : patterns) (wbs : list workbook) (r : irow) (st : state) : result err state :=
  if active pats r then
    match nestable pats wbs r with
    | Some sub => rec sub st
    | None => step_other wbs r st
    end
  else Ok st.

Definition process_with (rec : list irow -> state -> result err state)
           (pats : patterns) (wbs : list workbook) : list irow -> state -> result err state :=
  fix go rows st :=
    match rows with
    | [] => Ok st
    | r :: rest =>
      match step_row rec pats wbs r st with
      | Err e => Err e
      | Ok st' => go rest st'
      end
    end.

Definition no_fuel : list irow -> state -> result err state := fun _ _ => Err EOutOfFuel.

(* _process_content_index_table; fuel = remaining nesting depth *)
Fixpoint process (fuel : nat) (pats : patterns) (wbs : list workbook)
  : list irow -> state -> result err state :=
  process_with (match fuel with 0 => no_fuel | S f => process f pats wbs end) pats wbs.

(* ---------------------------------------------------------------- the same, over trees *)

Inductive item :=
| IRow (r : irow)
| INest (r : irow) (sub : list item).

Fixpoint run_item (pats : patterns) (wbs : list workbook) (i : item) (st : state) {struct i}
  : result err state :=
  match i with
  | IRow r => if active pats r then step_other wbs r st else Ok st
  | INest r sub =>
    if active pats r then
      (fix go (l : list item) (st : state) : result err state :=
         match l with
         | [] => Ok st
         | x :: l' => match run_item pats wbs x st with Err e => Err e | Ok st' => go l' st' end
         end) sub st
    else Ok st
  end.

Fixpoint run_tree (pats : patterns) (wbs : list workbook) (t : list item) (st : state)
  : result err state :=
  match t with
  | [] => Ok st
  | x :: l => match run_item pats wbs x st with Err e => Err e | Ok st' => run_tree pats wbs l st' end
  end.

(* the tree an index table unfolds to (None = deeper than the fuel) *)
Definition expand_with (rec : list irow -> option (list item)) (pats : patterns) (wbs : list workbook)
  : list irow -> option (list item) :=
  fix go rows :=
    match rows with
    | [] => Some []
    | r :: rest =>
      match nestable pats wbs r with
      | None => option_map (cons (IRow r)) (go rest)
      | Some sub =>
        match rec sub, go rest with
        | Some t, Some ts => Some (INest r t :: ts)
        | _, _ => None
        end
      end
    end.

Fixpoint expand (fuel : nat) (pats : patterns) (wbs : list workbook) : list irow -> option (list item) :=
  expand_with (match fuel with 0 => fun _ => None | S f => expand f pats wbs end) pats wbs.

(* active rows of a tree in processing order, nested tables in place *)
Fixpoint flatten_item (pats : patterns) (i : item) : list irow :=
  match i with
  | IRow r => if active pats r then [r] else []
  | INest r sub =>
    if active pats r then
      (fix go (l : list item) : list irow :=
         match l with [] => [] | x :: l' => flatten_item pats x ++ go l' end) sub
    else []
  end.
Fixpoint flatten (pats : patterns) (t : list item) : list irow :=
  match t with [] => [] | x :: l => flatten_item pats x ++ flatten pats l end.

(* ---------------------------------------------------------------- parse_all *)

(* _populate_missing_templates *)
Fixpoint populate (wbs : list workbook) (fl : list fdef) (st : state) : result err state :=
  match fl with
  | [] => Ok st
  | f :: rest =>
    if shas (st_templates st) (fd_sheet f) then populate wbs rest st
    else match add_template wbs (fd_sheet f) [] st with
         | Err e => Err e
         | Ok st' => populate wbs rest st'
         end
  end.

Record oflow := mk_oflow {
  of_name : str;
  of_sheet : sid;                  (* the flow sheet it was built from *)
  of_targ : str;                   (* argument default of the template definition in force *)
  of_data : option dmark           (* the data row it was instantiated with *)
}.

(* _parse_flow *)
Definition parse_flow (st : state) (f : fdef) (name : str) (d : option dmark) : result err (str * oflow) :=
  match sget (st_templates st) (fd_sheet f) with
  | None => Err EKey
  | Some (id, BFlow, targ) => Ok (name, mk_oflow name id targ d)
  | Some _ => Err EKind
  end.

Definition base_name (f : fdef) : str := str_or (fd_new f) (fd_sheet f).
Definition row_name (f : fdef) (row_id : str) : str := base_name f ++ ci_name_sep ++ row_id.

(* the flows one flow_definition_rows entry yields, in order *)
Definition instances (st : state) (f : fdef) : result err (list (str * oflow)) :=
  if nonempty (fd_dsheet f) && negb (nonempty (fd_drow f)) then
    match sget (st_data st) (fd_dsheet f) with
    | None => Err EKey
    | Some ds => mapM (fun kv => parse_flow st f (row_name f (fst kv)) (Some (snd kv))) (ds_rows ds)
    end
  else if negb (nonempty (fd_dsheet f)) && nonempty (fd_drow f) then Err ERowId
  else if nonempty (fd_dsheet f) then
    match sget (st_data st) (fd_dsheet f) with
    | None => Err EKey
    | Some ds =>
      match sget (ds_rows ds) (fd_drow f) with
      | None => Err EKey
      | Some m => rmap (fun x => [x]) (parse_flow st f (row_name f (fd_drow f)) (Some m))
      end
    end
  else rmap (fun x => [x]) (parse_flow st f (base_name f) None).

Fixpoint all_instances (st : state) (fl : list fdef) : result err (list (str * oflow)) :=
  match fl with
  | [] => Ok []
  | f :: rest =>
    match instances st f with
    | Err e => Err e
    | Ok l => match all_instances st rest with Err e => Err e | Ok ls => Ok (l ++ ls) end
    end
  end.

Record ocamp := mk_ocamp { oc_name : str; oc_sheet : sid; oc_group : str }.
Record otrig := mk_otrig { ot_sheet : sid; ot_row : nat; ot_flow : str }.

Record output := mk_output {
  o_flows : list oflow;
  o_camps : list ocamp;
  o_trigs : list otrig
}.

Definition trig_rows (e : str * (sid * list str)) : list otrig :=
  map (fun fi => mk_otrig (fst (snd e)) (snd fi) (fst fi)) (number_from 0 (snd (snd e))).

Definition mem_str (s : str) (l : list str) : bool := existsb (str_eqb s) l.

(* parse_all + render *)
Definition finish (st : state) : result err output :=
  match all_instances st (st_flows st) with
  | Err e => Err e
  | Ok insts =>
    let flows := map snd (of_list insts) in
    let camps := map (fun e => mk_ocamp (fst e) (fst (snd e)) (snd (snd e))) (st_camps st) in
    let trigs := flat_map trig_rows (st_trigs st) in
    if forallb (fun t => mem_str (ot_flow t) (map of_name flows)) trigs
    then Ok (mk_output flows camps trigs)
    else Err ETrigger
  end.

(* ---------------------------------------------------------------- the whole run *)

(* ContentIndexParser.__init__: every root index sheet, in reader order, on one state *)
Fixpoint process_indices (fuel : nat) (pats : patterns) (wbs : list workbook)
         (idxs : list (sid * body)) (st : state) : result err state :=
  match idxs with
  | [] => Ok st
  | (_, BIndex rows) :: rest =>
    match process fuel pats wbs rows st with
    | Err e => Err e
    | Ok st' => process_indices fuel pats wbs rest st'
    end
  | _ :: _ => Err EKind
  end.

Definition load (fuel : nat) (pats : patterns) (wbs : list workbook) : result err state :=
  match candidates wbs ci_root_sheet with
  | [] => Err ENoIndex
  | idxs =>
    match process_indices fuel pats wbs idxs st0 with
    | Err e => Err e
    | Ok st => populate wbs (st_flows st) st
    end
  end.

(* converters.create_flows *)
Definition create_flows (fuel : nat) (params : list str) (wbs : list workbook) : result err output :=
  match tag_matcher params with
  | None => Err ETags
  | Some pats =>
    match load fuel pats wbs with
    | Err e => Err e
    | Ok st => finish st
    end
  end.
