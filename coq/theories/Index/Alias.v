(* E5 — template instances that CHANGE, in place, the values they are given (definitions only).

   "Nothing evaluated for one instance (data row, arguments, loop variables) is visible to
   another" also has to hold when a template expression mutates a value: {{ pair.pop() }},
   {{ items.append('Z') or '' }}, {% set _ = x.sort() %} ...  The values of Index/Args.v and
   Index/Bulk.v are pure ([nv]); a Python list is an OBJECT.  This file gives the lists an
   identity: a heap of list objects, references to them, and the operations of a run on it.

     hv / heap          a Python value is a str or a reference to a list object; the heap holds
                        the list objects of the process, by address;
     alloc              builds a nested value out of NEW list objects (what copy.deepcopy of a
                        context value and CellParser.split_into_lists of a cell text do);
     mop / apply_op     the in-place methods a template expression can call on a list;
     item               what one row of a template does with a mutable value: a cell that applies
                        operations to a context variable (or its first / last element) and shows
                        it; a begin_for over a literal cell or over {@ x @} whose body does the
                        same with the loop variable — the loop variable IS the entry object;
     minst / run_inst    one template instance: SheetParser.__init__ copies the context it is
                        handed, then the rows are evaluated in order;
     run_all            the instances of a run, one after another, in ONE process (one heap);
                        a failing template expression is LOGGER.critical: the run ends there.

   Where the objects of an instance come from is a [policy] of two switches, each read from the
   behaviour of the code on every run (Gen/Tables.v: instance_context_private,
   literal_lists_fresh): the context is copied per instance or the registry's objects are handed
   out as they are; a literal cell yields new lists on every parse or the lists are kept by cell
   text.  AliasFacts.v proves that under the policy (private, fresh) every instance of a run
   yields what it yields ALONE in an empty process, whatever the instances before it did —
   and shows by example that neither switch can be dropped. *)
From Coq Require Import List NArith Bool.
From RPFT Require Import Base.Sexp Base.PyStr Base.Result Gen.Tables Cell.Cell.
Import ListNotations.
Local Open Scope N_scope.

Definition addr := nat.
Inductive hv := HS (s : str) | HR (a : addr).
Definition heap := list (list hv).

Definition hget (h : heap) (a : addr) : option (list hv) := nth_error h a.

Fixpoint hset (h : heap) (a : addr) (l : list hv) : heap :=
  match h, a with
  | [], _ => []
  | _ :: r, O => l :: r
  | x :: r, S a' => x :: hset r a' l
  end.

(* a nested value built out of new list objects: the children first, then the list itself, at the
   end of the heap *)
Section AllocList.
Variable f : nv -> heap -> hv * heap.
Fixpoint alloc_list_with (l : list nv) (h : heap) : list hv * heap :=
  match l with
  | [] => ([], h)
  | v :: t => let p := f v h in
              let q := alloc_list_with t (snd p) in
              (fst p :: fst q, snd q)
  end.
End AllocList.

Fixpoint alloc (v : nv) (h : heap) : hv * heap :=
  match v with
  | Str s => (HS s, h)
  | Lst l => let r := alloc_list_with alloc l h in (HR (length (snd r)), snd r ++ [fst r])
  end.

(* reading a value back; explicit fuel = nesting depth, [None] = out of fuel or a dangling reference *)
Fixpoint omapM {S T} (f : S -> option T) (l : list S) : option (list T) :=
  match l with
  | [] => Some []
  | x :: r => match f x, omapM f r with Some y, Some ys => Some (y :: ys) | _, _ => None end
  end.

Fixpoint read (fuel : nat) (h : heap) (x : hv) : option nv :=
  match x with
  | HS s => Some (Str s)
  | HR a =>
    match fuel with
    | O => None
    | S f => match hget h a with
             | None => None
             | Some l => match omapM (read f h) l with Some vs => Some (Lst vs) | None => None end
             end
    end
  end.

Definition read_fuel : nat := 8%nat.

(* ---- the in-place methods of a list a template expression calls ---- *)
Inductive mop :=
| MPop | MPop0                        (* {{ X.pop() }}  {{ X.pop(0) }} *)
| MPopG | MPop0G                      (* {{ X.pop() if X else '-' }}  {{ X.pop(0) if X else '-' }} *)
| MAppend (s : str)                   (* {{ X.append(s) or '' }}  {% set _ = X.append(s) %} *)
| MInsert0 (s : str)                  (* X.insert(0, s) *)
| MReverse                            (* X.reverse() *)
| MSort | MSortRev                    (* X.sort()  X.sort(reverse=True) *)
| MExtend (ss : list str)             (* X.extend([...]) *)
| MClear                              (* X.clear() *)
| MRemoveFirst                        (* {% if X %}{% set _ = X.remove(X[0]) %}{% endif %} *)
| MSetItem0 (s : str)                 (* {% if X %}{% set _ = X.__setitem__(0, s) %}{% endif %} *)
| MForPop.                            (* {% for q in X[1:] %}{{ X.pop() }}{% endfor %} *)

Inductive xerr :=
| XStop                 (* the expression raises (IndexError, UndefinedError ...): LOGGER.critical *)
| XUnsupported          (* outside the model: nothing is claimed *)
| XFuel.                (* read ran out of fuel *)

(* str < str in Python: lexicographic on code points *)
Fixpoint str_leb (s t : str) : bool :=
  match s, t with
  | [], _ => true
  | _ :: _, [] => false
  | a :: s', b :: t' => if a <? b then true else if b <? a then false else str_leb s' t'
  end.

Fixpoint insert_sorted (x : str) (l : list str) : list str :=
  match l with
  | [] => [x]
  | y :: r => if str_leb y x then y :: insert_sorted x r else x :: l
  end.

Definition sort_strs (l : list str) : list str := fold_right insert_sorted [] l.

Definition as_str (x : hv) : option str := match x with HS s => Some s | HR _ => None end.

Definition dash : str := [45].

(* the new content of the list and what the expression prints; list.remove(X[0]) removes the first
   element equal to X[0], i.e. X[0] itself *)
Definition apply_op (o : mop) (l : list hv) : result xerr (list hv * list hv) :=
  match o with
  | MPop => match rev l with [] => Err XStop | x :: r => Ok (rev r, [x]) end
  | MPop0 => match l with [] => Err XStop | x :: r => Ok (r, [x]) end
  | MPopG => match rev l with [] => Ok ([], [HS dash]) | x :: r => Ok (rev r, [x]) end
  | MPop0G => match l with [] => Ok ([], [HS dash]) | x :: r => Ok (r, [x]) end
  | MAppend s => Ok (l ++ [HS s], [])
  | MInsert0 s => Ok (HS s :: l, [])
  | MReverse => Ok (rev l, [])
  | MSort => match omapM as_str l with Some ss => Ok (map HS (sort_strs ss), []) | None => Err XUnsupported end
  | MSortRev => match omapM as_str l with Some ss => Ok (map HS (rev (sort_strs ss)), []) | None => Err XUnsupported end
  | MExtend ss => Ok (l ++ map HS ss, [])
  | MClear => Ok ([], [])
  | MRemoveFirst => match l with [] => Ok ([], []) | _ :: r => Ok (r, []) end
  | MSetItem0 s => match l with [] => Ok ([], []) | _ :: r => Ok (HS s :: r, []) end
  | MForPop => match l with [] => Ok ([], []) | x :: r => Ok ([x], rev r) end
  end.

(* what a cell shows: what its expressions printed, in order, and the list afterwards *)
Record obs := mk_obs { o_printed : list nv; o_shown : nv }.

(* the operations of one cell on the list object at address a; what an expression prints is
   rendered when it is evaluated *)
Fixpoint do_ops (h : heap) (a : addr) (ops : list mop) : result xerr (heap * list nv) :=
  match ops with
  | [] => Ok (h, [])
  | o :: r =>
    match hget h a with
    | None => Err XStop
    | Some l =>
      match apply_op o l with
      | Err e => Err e
      | Ok (l', pr) =>
        let h1 := hset h a l' in
        match omapM (read read_fuel h1) pr with
        | None => Err XFuel
        | Some pv =>
          match do_ops h1 a r with
          | Err e => Err e
          | Ok (h2, pvs) => Ok (h2, pv ++ pvs)
          end
        end
      end
    end
  end.

Definition cell (h : heap) (a : addr) (ops : list mop) : result xerr (heap * obs) :=
  match do_ops h a ops with
  | Err e => Err e
  | Ok (h1, pv) => match read read_fuel h1 (HR a) with
                   | Some s => Ok (h1, mk_obs pv s)
                   | None => Err XFuel
                   end
  end.

(* ---- the rows of a template ---- *)
Definition env := list (str * hv).

Fixpoint env_get (e : env) (x : str) : option hv :=
  match e with
  | [] => None
  | (k, v) :: r => if str_eqb k x then Some v else env_get r x
  end.

Inductive sel := SelSelf | SelFirst | SelLast.       (* X   X[0]   X[-1] *)
Inductive lsrc := LLit (text : str) | LVar (x : str).  (* begin_for over a literal cell / over {@ x @} *)

Inductive item :=
| IMsg (x : str) (s : sel) (ops : list mop)
| ILoop (src : lsrc) (ops : list mop).

(* the list object a cell works on *)
Definition target (h : heap) (e : env) (x : str) (s : sel) : result xerr addr :=
  match env_get e x with
  | None => Err XStop
  | Some (HS _) => Err XUnsupported
  | Some (HR a) =>
    match s with
    | SelSelf => Ok a
    | SelFirst => match hget h a with
                  | Some (HR b :: _) => Ok b
                  | Some (HS _ :: _) => Err XUnsupported
                  | _ => Err XStop
                  end
    | SelLast => match hget h a with
                 | Some l => match rev l with
                             | HR b :: _ => Ok b
                             | HS _ :: _ => Err XUnsupported
                             | [] => Err XStop
                             end
                 | None => Err XStop
                 end
    end
  end.

(* where the objects come from *)
Record policy := mk_policy { pol_ctx_private : bool; pol_lit_fresh : bool }.

(* the process: its list objects; the objects of the registries (by key) and of the literal cells
   (by text) that have been handed out — consulted only when the policy shares them *)
Record pstate := mk_ps { ps_heap : heap; ps_reg : env; ps_lit : env }.

Definition obtain_ctx (pol : policy) (key : str) (v : nv) (st : pstate) : hv * pstate :=
  if pol_ctx_private pol then
    let p := alloc v (ps_heap st) in (fst p, mk_ps (snd p) (ps_reg st) (ps_lit st))
  else
    match env_get (ps_reg st) key with
    | Some x => (x, st)
    | None => let p := alloc v (ps_heap st) in (fst p, mk_ps (snd p) ((key, fst p) :: ps_reg st) (ps_lit st))
    end.

Definition obtain_lit (pol : policy) (text : str) (st : pstate) : hv * pstate :=
  if pol_lit_fresh pol then
    let p := alloc (split_into_lists text) (ps_heap st) in (fst p, mk_ps (snd p) (ps_reg st) (ps_lit st))
  else
    match env_get (ps_lit st) text with
    | Some x => (x, st)
    | None => let p := alloc (split_into_lists text) (ps_heap st) in
              (fst p, mk_ps (snd p) (ps_reg st) ((text, fst p) :: ps_lit st))
    end.

Definition with_heap (st : pstate) (h : heap) : pstate := mk_ps h (ps_reg st) (ps_lit st).

(* the body of a loop, once per entry: the loop variable is the entry itself *)
Fixpoint loop_body (h : heap) (entries : list hv) (ops : list mop) : result xerr (heap * list obs) :=
  match entries with
  | [] => Ok (h, [])
  | HS _ :: _ => Err XUnsupported
  | HR b :: r =>
    match cell h b ops with
    | Err e => Err e
    | Ok (h1, o) => match loop_body h1 r ops with
                    | Err e => Err e
                    | Ok (h2, os) => Ok (h2, o :: os)
                    end
    end
  end.

(* mainarg_iterlist of a begin_for row: RowParser.assign_value makes a list(value) of the parsed
   cell — the entries are the objects the cell / the context holds *)
Definition iterlist (pol : policy) (e : env) (src : lsrc) (st : pstate) : result xerr (list hv * pstate) :=
  match src with
  | LLit t =>
    let p := obtain_lit pol t st in
    match fst p with
    | HS _ => Err XUnsupported
    | HR a => match hget (ps_heap (snd p)) a with Some l => Ok (l, snd p) | None => Err XStop end
    end
  | LVar x =>
    match env_get e x with
    | None => Err XStop
    | Some (HS _) => Err XUnsupported
    | Some (HR a) => match hget (ps_heap st) a with Some l => Ok (l, st) | None => Err XStop end
    end
  end.

Definition run_item (pol : policy) (e : env) (st : pstate) (it : item) : result xerr (pstate * list obs) :=
  match it with
  | IMsg x s ops =>
    match target (ps_heap st) e x s with
    | Err er => Err er
    | Ok a => match cell (ps_heap st) a ops with
              | Err er => Err er
              | Ok (h1, o) => Ok (with_heap st h1, [o])
              end
    end
  | ILoop src ops =>
    match iterlist pol e src st with
    | Err er => Err er
    | Ok (l, st1) => match loop_body (ps_heap st1) l ops with
                     | Err er => Err er
                     | Ok (h2, os) => Ok (with_heap st1 h2, os)
                     end
    end
  end.

Fixpoint run_items (pol : policy) (e : env) (st : pstate) (its : list item) : pstate * result xerr (list obs) :=
  match its with
  | [] => (st, Ok [])
  | it :: r =>
    match run_item pol e st it with
    | Err er => (st, Err er)
    | Ok (st1, os) =>
      let q := run_items pol e st1 r in
      (fst q, match snd q with Err er => Err er | Ok os' => Ok (os ++ os') end)
    end
  end.

(* one instance: the context it is handed — (variable, key of the registry object, value) — and its rows *)
Record minst := mk_minst { i_ctx : list (str * str * nv); i_items : list item }.

(* SheetParser.__init__: self.context = copy.deepcopy(context) — or not *)
Fixpoint bind_ctx (pol : policy) (c : list (str * str * nv)) (st : pstate) : env * pstate :=
  match c with
  | [] => ([], st)
  | (x, key, v) :: r =>
    let p := obtain_ctx pol key v st in
    let q := bind_ctx pol r (snd p) in
    ((x, fst p) :: fst q, snd q)
  end.

Definition run_inst (pol : policy) (st : pstate) (i : minst) : pstate * result xerr (list obs) :=
  let p := bind_ctx pol (i_ctx i) st in
  run_items pol (fst p) (snd p) (i_items i).

(* the instances of a run, in one process; a critical error ends the run *)
Fixpoint run_all (pol : policy) (st : pstate) (is : list minst) : list (result xerr (list obs)) :=
  match is with
  | [] => []
  | i :: r =>
    let p := run_inst pol st i in
    match snd p with
    | Ok os => Ok os :: run_all pol (fst p) r
    | Err er => [Err er]
    end
  end.

Definition ps_empty : pstate := mk_ps [] [] [].
Definition fresh_policy : policy := mk_policy true true.

(* the instance on its own, in a process where nothing has happened *)
Definition run_alone (i : minst) : result xerr (list obs) := snd (run_inst fresh_policy ps_empty i).

(* the results up to and including the first error *)
Fixpoint cut {E T} (l : list (result E T)) : list (result E T) :=
  match l with
  | [] => []
  | Ok v :: r => Ok v :: cut r
  | Err e :: _ => [Err e]
  end.

(* the policy of the code, measured on every run *)
Definition as_coded : policy := mk_policy instance_context_private literal_lists_fresh.
Definition policy_fresh (p : policy) : bool := pol_ctx_private p && pol_lit_fresh p.
