(* E5 / C10 — TagMatcher.matches, declaratively; when the construction fails. *)
From Coq Require Import List NArith ZArith Bool Lia.
From RPFT Require Import Base.Sexp Base.PyStr Base.PyStrFacts Index.TagMatch.
Import ListNotations.

Lemma constrained_spec pats i : constrained pats i = true <-> exists p, In (i, p) pats.
Proof.
  unfold constrained. rewrite existsb_exists. split.
  - intros [[j p] [Hin He]]. cbn in He. apply Z.eqb_eq in He. subst j. exists p. exact Hin.
  - intros [p Hin]. exists (i, p). split; [exact Hin|apply Z.eqb_refl].
Qed.

Lemma listed_spec pats i tag : listed pats i tag = true <-> In (i, tag) pats.
Proof.
  unfold listed. rewrite existsb_exists. split.
  - intros [[j p] [Hin He]]. cbn in He. apply andb_true_iff in He as [H1 H2].
    apply Z.eqb_eq in H1. apply str_eqb_eq in H2. subst. exact Hin.
  - intros Hin. exists (i, tag). split; [exact Hin|]. cbn. rewrite Z.eqb_refl, str_eqb_refl. reflexivity.
Qed.

Lemma nonempty_spec (s : str) : nonempty s = true <-> s <> [].
Proof. destruct s; cbn; split; congruence. Qed.

Lemma matches_from_spec pats : forall tags z,
  matches_from pats z tags = true <->
  forall i tag, nth_error tags i = Some tag -> tag <> [] ->
                constrained pats (z + Z.of_nat i) = true -> listed pats (z + Z.of_nat i) tag = true.
Proof.
  induction tags as [|t r IH]; intros z; cbn [matches_from].
  - split; [|reflexivity]. intros _ i tag H. destruct i; discriminate.
  - rewrite andb_true_iff, IH. split.
    + intros [Hok Hr] i tag Hn Hne Hc. destruct i as [|i]; cbn [nth_error] in Hn.
      * injection Hn as ->. rewrite Z.add_0_r in *. unfold tag_ok in Hok.
        apply nonempty_spec in Hne. rewrite Hne, Hc in Hok. cbn in Hok. apply negb_true_iff in Hok.
        apply negb_false_iff in Hok. exact Hok.
      * replace (z + Z.of_nat (S i))%Z with (z + 1 + Z.of_nat i)%Z in * by lia. apply (Hr i tag); assumption.
    + intros H. split.
      * unfold tag_ok. destruct (nonempty t) eqn:Ene; [|reflexivity].
        destruct (constrained pats z) eqn:Ec; [|reflexivity]. cbn.
        rewrite negb_involutive. specialize (H 0%nat t eq_refl). rewrite Z.add_0_r in H.
        apply H; [apply nonempty_spec; exact Ene|exact Ec].
      * intros i tag Hn Hne Hc. replace (z + 1 + Z.of_nat i)%Z with (z + Z.of_nat (S i))%Z in * by lia.
        apply (H (S i) tag); assumption.
Qed.

(* a row passes the filter iff every non-empty tag standing at a constrained position (a
   position some pattern was given for) is one of the patterns given for that position;
   empty tags, unconstrained positions and positions beyond the row's tags never reject *)
Theorem matches_spec pats tags :
  matches pats tags = true <->
  forall i tag, nth_error tags i = Some tag -> tag <> [] ->
                (exists p, In (Z.of_nat i, p) pats) -> In (Z.of_nat i, tag) pats.
Proof.
  unfold matches. rewrite matches_from_spec. split; intros H i tag Hn Hne Hc.
  - apply listed_spec. apply (H i tag Hn Hne). apply constrained_spec. exact Hc.
  - cbn [Z.add] in *. apply listed_spec. apply constrained_spec in Hc. apply (H i tag Hn Hne Hc).
Qed.

(* no pattern => everything matches *)
Corollary matches_nil tags : matches [] tags = true.
Proof. apply matches_spec. intros i tag _ _ [p []]. Qed.

(* the construction fails exactly when the first parameter is not a number *)
Lemma tm_build_some i : forall params acc, tm_build (Some i) acc params <> None.
Proof.
  intros params. revert i. induction params as [|p r IH]; intros i acc; cbn [tm_build]; [discriminate|].
  destruct (py_int p); apply IH.
Qed.

Theorem tag_matcher_none params :
  tag_matcher params = None <-> exists p rest, params = p :: rest /\ py_int p = None.
Proof.
  unfold tag_matcher. destruct params as [|p r]; cbn [tm_build].
  - split; [discriminate|]. intros [p [rest [H _]]]. discriminate.
  - destruct (py_int p) as [v|] eqn:E.
    + split; [intros H; exfalso; exact (tm_build_some _ _ _ H)|]. intros [p' [rest [H1 H2]]].
      injection H1 as <- _. congruence.
    + split; [|reflexivity]. intros _. exists p, r. split; [reflexivity|exact E].
Qed.
