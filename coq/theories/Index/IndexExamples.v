(* E5 / C10 — one concrete history exercising everything the theorems talk about: a rename,
   a duplicate name, an ignore_row followed by a re-definition, a draft row, a tagged row
   that passes and one that fails the filter, a nested index, two workbooks sharing a sheet
   name, two root index sheets.  Used for the non-vacuity Examples of props/C10.v. *)
From Coq Require Import String List NArith ZArith Bool.
From RPFT Require Import Base.Sexp Base.PyStr Base.Result Base.ODict Gen.Tables
     Index.Names Index.TagMatch Index.Index Index.DictFacts Index.IndexSpec.
Import ListNotations.
Local Open Scope string_scope.

Definition sA : str := Eval vm_compute in s2l "A".
Definition sB : str := Eval vm_compute in s2l "B".
Definition sC : str := Eval vm_compute in s2l "C".
Definition sX : str := Eval vm_compute in s2l "X".
Definition sD1 : str := Eval vm_compute in s2l "D1".
Definition sC1 : str := Eval vm_compute in s2l "C1".
Definition sT1 : str := Eval vm_compute in s2l "T1".
Definition sSub : str := Eval vm_compute in s2l "sub1".
Definition sCamp : str := Eval vm_compute in s2l "camp".
Definition s_a : str := Eval vm_compute in s2l "a".
Definition s_b : str := Eval vm_compute in s2l "b".
Definition s_1 : str := Eval vm_compute in s2l "1".
Definition s_g1 : str := Eval vm_compute in s2l "g1".
Definition s_g2 : str := Eval vm_compute in s2l "g2".
Definition s_t1 : str := Eval vm_compute in s2l "t1".
Definition s_r1 : str := Eval vm_compute in s2l "r1".
Definition s_r2 : str := Eval vm_compute in s2l "r2".

Definition row (ty status : str) (tags sheets : list str) (new : str) : irow :=
  mk_irow ty status tags sheets new [] [] [] [].

Definition r_flowA_tag_a := row ci_ty_flow [] [s_a] [sA] [].           (* tagged, passes "1 a" *)
Definition r_flowB_as_X := row ci_ty_flow [] [] [sB] sX.                (* rename *)
Definition r_flowA_as_X := row ci_ty_flow [] [] [sA] sX.                (* duplicate name X *)
Definition r_draft := row ci_ty_flow ci_draft [] [sC] [].               (* draft *)
Definition r_flowC_tag_b := row ci_ty_flow [] [s_b] [sC] [].            (* tagged, fails "1 a" *)
Definition r_ignoreA := row ci_ty_ignore [] [] [sA] [].
Definition r_nest := row ci_ty_index [] [] [sSub] [].                   (* nested index *)
Definition r_camp1 := mk_irow ci_ty_campaign [] [] [sC1] sCamp [] [] s_g1 [].
Definition r_camp2 := mk_irow ci_ty_campaign [] [] [sC1] sCamp [] [] s_g2 [].
Definition r_trig := row ci_ty_triggers [] [] [sT1] [].
Definition r_tmplA := mk_irow ci_ty_template [] [] [sA] [] [] [] [] s_t1.
Definition r_data := row ci_ty_data [] [] [sD1] [].
Definition r_flowC_data := mk_irow ci_ty_flow [] [] [sC] [] sD1 [] [] [].  (* one flow per data row *)
Definition r_ignoreCamp := row ci_ty_ignore [] [] [sCamp] [].

Definition ex_root1 : list irow :=
  [r_flowA_tag_a; r_flowB_as_X; r_flowA_as_X; r_draft; r_flowC_tag_b; r_camp1; r_ignoreA; r_nest; r_trig].
Definition ex_sub : list irow := [r_flowA_tag_a; r_camp2; r_tmplA].     (* A re-defined after the ignore *)
Definition ex_root2 : list irow := [r_data; r_flowC_data].

Definition ex_wb1 : workbook :=
  [(ci_root_sheet, BIndex ex_root1); (sSub, BIndex ex_sub); (sA, BFlow); (sB, BFlow); (sC1, BCampaign);
   (sT1, BTriggers [sX])].
Definition ex_wb2 : workbook :=
  [(ci_root_sheet, BIndex ex_root2); (sA, BFlow); (sC, BFlow); (sD1, BData [s_r1; s_r2])].
Definition ex_wbs : list workbook := [ex_wb1; ex_wb2].

Definition ex_params : list str := [s_1; s_a].                           (* --tags 1 a *)
Definition ex_pats : patterns := [(0%Z, s_a)].
Definition ex_fuel : nat := 3.

Definition ex_hist : list irow :=
  [r_flowA_tag_a; r_flowB_as_X; r_flowA_as_X; r_camp1; r_ignoreA; r_flowA_tag_a; r_camp2; r_tmplA; r_trig;
   r_data; r_flowC_data].
