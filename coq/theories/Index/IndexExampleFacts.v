(* E5 / C10 — the hypotheses of the property theorems are satisfiable: facts about the
   concrete history of IndexExamples.v, all closed equations decided by [vm_compute]. *)
From Coq Require Import List NArith ZArith Bool.
From RPFT Require Import Base.Sexp Base.PyStr Base.PyStrFacts Base.Result Base.ODict Gen.Tables
     Index.TagMatch Index.Index Index.DictFacts Index.IndexSpec Index.IndexFacts Index.IndexRegFacts
     Index.WorkbookFacts Index.TagMatchFacts Index.IndexExamples.
Import ListNotations.

Definition sC_r1 : str := Eval vm_compute in sC ++ ci_name_sep ++ s_r1.
Definition sC_r2 : str := Eval vm_compute in sC ++ ci_name_sep ++ s_r2.

Lemma rmap_ok {E S T} (f : S -> T) (r : result E S) v : rmap f r = Ok v -> exists x, r = Ok x /\ f x = v.
Proof. destruct r as [x|e]; [|discriminate]. intros H. injection H as <-. exists x. split; reflexivity. Qed.

Lemma omap_some {S T} (f : S -> T) (o : option S) v : option_map f o = Some v -> exists x, o = Some x /\ f x = v.
Proof. destruct o as [x|]; [|discriminate]. intros H. injection H as <-. exists x. split; reflexivity. Qed.

(* a draft row and a row failing the tag filter (and that one is not a draft) *)
Lemma ex_inactive :
  r_status r_draft = ci_draft /\
  matches ex_pats (r_tags r_flowC_tag_b) = false /\ r_status r_flowC_tag_b <> ci_draft /\
  matches ex_pats (r_tags r_flowA_tag_a) = true.
Proof. split; [reflexivity|]. split; [vm_compute; reflexivity|]. split; [discriminate|vm_compute; reflexivity]. Qed.

Lemma ex_filter_nontrivial :
  filter (active ex_pats) ex_root1 =
  [r_flowA_tag_a; r_flowB_as_X; r_flowA_as_X; r_camp1; r_ignoreA; r_nest; r_trig].
Proof. vm_compute. reflexivity. Qed.

Definition ex_pre : list irow :=
  [r_flowA_tag_a; r_flowB_as_X; r_flowA_as_X; r_draft; r_flowC_tag_b; r_camp1; r_ignoreA].

Lemma ex_nested :
  ex_root1 = ex_pre ++ r_nest :: [r_trig] /\
  nestable ex_pats ex_wbs r_nest = Some ex_sub /\
  option_map depth (expand ex_fuel ex_pats ex_wbs (ex_pre ++ r_nest :: [r_trig])) = Some 1.
Proof. split; [reflexivity|]. split; vm_compute; reflexivity. Qed.

Lemma ex_fuel_needed :
  expand 0 ex_pats ex_wbs ex_root1 = None /\
  option_map depth (expand 1 ex_pats ex_wbs ex_root1) = Some 1.
Proof. split; vm_compute; reflexivity. Qed.

Lemma ex_history :
  tag_matcher ex_params = Some ex_pats /\ history ex_fuel ex_pats ex_wbs = Some ex_hist.
Proof. split; vm_compute; reflexivity. Qed.

Lemma ex_process_ok :
  rmap (fun st => map fd_key (st_flows st)) (process ex_fuel ex_pats ex_wbs ex_root1 st0) = Ok [sX; sX; sA].
Proof. vm_compute. reflexivity. Qed.

(* rename (B as X), duplicate name (X again, from A: content of the last, place of the
   first), A ignored then re-defined in the nested index (moves to the end), two flows from
   a data sheet, campaign re-defined in the nested index (group g2), sheet A taken from the
   second workbook *)
Definition ex_view (out : output) :=
  (map of_name (o_flows out), map of_sheet (o_flows out), map of_targ (o_flows out), o_camps out, o_trigs out).

Lemma ex_run :
  rmap ex_view (create_flows ex_fuel ex_params ex_wbs) =
  Ok ([sX; sA; sC_r1; sC_r2], [(1, sA); (1, sA); (1, sC); (1, sC)], [s_t1; s_t1; []; []],
      [mk_ocamp sCamp (0, sC1) s_g2], [mk_otrig (0, sT1) 0 sX]).
Proof. vm_compute. reflexivity. Qed.

Lemma ex_run_rows :
  rmap (fun st => (map fd_key (st_flows st), okeys (st_camps st))) (run_rows ex_wbs ex_hist st0) =
  Ok ([sX; sX; sA; sC], [sCamp]).
Proof. vm_compute. reflexivity. Qed.

(* the first root index alone: plain flows only *)
Definition ex_hist1 : list irow :=
  [r_flowA_tag_a; r_flowB_as_X; r_flowA_as_X; r_camp1; r_ignoreA; r_flowA_tag_a; r_camp2; r_tmplA; r_trig].

Definition ex_insts1 : result err (list (str * oflow)) :=
  bind (load ex_fuel ex_pats [ex_wb1]) (fun st => all_instances st (spec_flows ex_hist1)).

Lemma ex_plain_compute :
  history ex_fuel ex_pats [ex_wb1] = Some ex_hist1 /\
  map fd_key (spec_flows ex_hist1) = [sX; sX; sA] /\
  forallb (fun f => negb (nonempty (fd_dsheet f)) && negb (nonempty (fd_drow f))) (spec_flows ex_hist1) = true /\
  rmap (fun insts => (map fst insts, map of_name (map snd (of_list insts)), map of_targ (map snd (of_list insts))))
       ex_insts1 = Ok ([sX; sX; sA], [sX; sA], [s_t1; s_t1]).
Proof. repeat split; vm_compute; reflexivity. Qed.

Lemma ex_plain :
  Forall plain (spec_flows ex_hist1) /\
  exists st insts flows,
    load ex_fuel ex_pats [ex_wb1] = Ok st /\
    all_instances st (spec_flows ex_hist1) = Ok insts /\ flows_by_name insts flows /\
    map of_name flows = [sX; sA].
Proof.
  destruct ex_plain_compute as [_ [_ [Hpl Hc]]]. split.
  - rewrite forallb_forall in Hpl. apply Forall_forall. intros f Hin. apply Hpl in Hin.
    apply andb_true_iff in Hin as [H1 H2]. split.
    + destruct (fd_dsheet f); [reflexivity|discriminate].
    + destruct (fd_drow f); [reflexivity|discriminate].
  - apply rmap_ok in Hc as [insts [Hi Hv]]. unfold ex_insts1 in Hi.
    destruct (load ex_fuel ex_pats [ex_wb1]) as [st|e]; [|discriminate]. cbn [bind] in Hi.
    exists st, insts, (map snd (of_list insts)). split; [reflexivity|]. split; [exact Hi|].
    split; [apply of_list_flows_by_name, (all_instances_named _ _ _ Hi)|]. congruence.
Qed.

Lemma ex_last_word :
  last_word str_eqb row_ignores keyed_flow ex_hist sA = Some (Some (mk_fdef sA [] [] [])) /\
  last_word str_eqb row_ignores keyed_flow (firstn 5 ex_hist) sA = Some None /\
  last_word str_eqb row_ignores keyed_flow ex_hist sX = Some (Some (mk_fdef sA sX [] [])) /\
  last_word str_eqb row_ignores keyed_flow ex_hist sB = None /\
  last_word str_eqb row_ignores (row_camp ex_wbs) ex_hist sCamp = Some (Some ((0, sC1), s_g2)).
Proof. repeat split; vm_compute; reflexivity. Qed.

Definition ex_ignore_view (st : state) :=
  (sget (st_camps st) sCamp, sget (st_camps (ignore_row sCamp st)) sCamp,
   map fd_key (st_flows st), map fd_key (st_flows (ignore_row sX st)),
   okeys (st_templates (ignore_row sX st))).

Lemma ex_ignore_compute :
  rmap ex_ignore_view (run_rows ex_wbs (firstn 8 ex_hist) st0) =
  Ok (Some ((0, sC1), s_g2), None, [sX; sX; sA], [sA], [sA]).
Proof. vm_compute. reflexivity. Qed.

Lemma ex_ignore :
  exists st, run_rows ex_wbs (firstn 8 ex_hist) st0 = Ok st /\
    NoDup (okeys (st_camps st)) /\ NoDup (okeys (st_trigs st)) /\
    sget (st_camps st) sCamp <> None /\ map fd_key (st_flows st) = [sX; sX; sA] /\
    okeys (st_templates st) = [sA].
Proof.
  destruct (rmap_ok _ _ _ ex_ignore_compute) as [st [Hr Hv]]. exists st. split; [exact Hr|].
  destruct (reachable_nodup _ _ _ Hr) as [N1 N2]. split; [exact N1|]. split; [exact N2|].
  unfold ex_ignore_view in Hv. injection Hv as H1 H2 H3 H4 H5. split; [congruence|]. split; [exact H3|].
  rewrite <- H5. reflexivity.
Qed.

Lemma ex_resolve :
  resolve ex_wbs sA = Some ((1, sA), BFlow) /\         (* both workbooks have A: the last wins *)
  resolve [ex_wb2; ex_wb1] sA = Some ((1, sA), BFlow) /\
  resolve ex_wbs sB = Some ((0, sB), BFlow) /\         (* only the first has B *)
  resolve ex_wbs s_a = None /\
  candidates ex_wbs ci_root_sheet = [((0, ci_root_sheet), BIndex ex_root1); ((1, ci_root_sheet), BIndex ex_root2)].
Proof. repeat split; vm_compute; reflexivity. Qed.

Lemma ex_matches :
  matches ex_pats [s_a] = true /\ matches ex_pats [s_b] = false /\
  matches ex_pats [[]; s_b] = true /\ matches ex_pats [] = true /\
  tag_matcher [s_a] = None /\ tag_matcher [s_1; s_a] = Some ex_pats.
Proof. repeat split; vm_compute; reflexivity. Qed.

(* DESIGN §5-C10 item 3 read LITERALLY ("the output flow named n exists iff some surviving
   create_flow row has (new) name n") is false of the model — and of the code — as soon as a
   row instantiates a template once per data row: the names are "<name> - <row id>".  The
   property text speaks of *definitions* of that name, which is what is proved. *)
Definition design_item3_literal : Prop :=
  forall fuel params wbs out pats hist,
    create_flows fuel params wbs = Ok out -> tag_matcher params = Some pats ->
    history fuel pats wbs = Some hist ->
    forall n, In n (map of_name (o_flows out)) <-> exists f, In f (spec_flows hist) /\ fd_key f = n.

Lemma ex_keys : map fd_key (spec_flows ex_hist) = [sX; sX; sA; sC].
Proof. vm_compute. reflexivity. Qed.

Lemma design_item3_literal_refuted : ~ design_item3_literal.
Proof.
  intros H. destruct (rmap_ok _ _ _ ex_run) as [out [Hc Hv]]. destruct ex_history as [Hp Hh].
  specialize (H _ _ _ _ _ _ Hc Hp Hh sC_r1). unfold ex_view in Hv. injection Hv as Hn _ _ _ _. rewrite Hn in H.
  destruct (proj1 H) as [f [Hin Hk]]; [right; right; left; reflexivity|].
  apply (in_map fd_key) in Hin. rewrite ex_keys, Hk in Hin.
  destruct Hin as [Hx|[Hx|[Hx|[Hx|[]]]]]; vm_compute in Hx; discriminate.
Qed.

Lemma ex_data :
  ex_hist = firstn 9 ex_hist ++ r_data :: [r_flowC_data] /\
  row_data_key r_data = Some sD1 /\ row_data_key r_flowC_data = None /\
  rmap (fun st => option_map (fun ds => okeys (ds_rows ds)) (sget (st_data st) sD1))
       (run_rows ex_wbs ex_hist st0) = Ok (Some [s_r1; s_r2]).
Proof. repeat split; vm_compute; reflexivity. Qed.
