(* E5 — model of ContentIndexParser.map_template_arguments_to_context
   (rpft/parsers/creation/contentindexparser.py), definitions only.

   A template argument as it arrives from the index row / the insert_as_block row is an
   untyped parsed cell value: a string or a (nested) list — [nv] of E1.  A declaration is
   a TemplateArgument (name, type, default_value).  The context is an insertion-ordered
   dict; its values are
     - a field of the data row  ([VData d], d of an arbitrary type D: the function never
       looks inside),
     - an argument value        ([VArg v]),
     - the rows of a data sheet ([VRows rows], what get_data_sheet_rows returns).
   The keyword that makes a declaration sheet-typed comes from the regenerated tables. *)
From Coq Require Import List NArith Bool.
From RPFT Require Import Base.Sexp Base.PyStr Base.ODict Base.Result Gen.Tables Cell.Cell.
Import ListNotations.

Record argdef := mk_argdef { ad_name : str; ad_type : str; ad_default : str }.

(* every way the Python stops: two LOGGER.critical sites and two uncaught exceptions *)
Inductive aerr :=
| EDoubly (name : str)          (* critical: Template argument ... doubly defined *)
| ERequired (name : str)        (* critical: Required template argument ... not provided *)
| EUnknownSheet (name : str)    (* KeyError in self.data_sheets[arg_value] *)
| EUnhashable.                  (* TypeError: a list used as a dict key *)

Section Args.
Context {D : Type}.

Definition drow := list (str * D).          (* dict(data row): field name -> value *)
Definition dsheet := list (str * drow).     (* DataSheet.rows: OrderedDict ID -> row *)

Inductive cval := VData (d : D) | VArg (v : nv) | VRows (rows : dsheet).
Definition ctx := list (str * cval).

(* [ea for ea in extra_args if ea]: Python truthiness of a str / list *)
Definition truthy (v : nv) : bool :=
  match v with Str [] => false | Lst [] => false | _ => true end.

(* arg != "" *)
Definition is_blank (v : nv) : bool :=
  match v with Str [] => true | _ => false end.

(* the warning of the first block (not an error): some extra argument is non-empty *)
Definition too_many_warning (n : nat) (args : list nv) : bool :=
  existsb truthy (skipn n args).

(* args[:len(arg_defs)] when longer, then args + [""] * (len(arg_defs) - len(args)) *)
Definition fit_args (n : nat) (args : list nv) : list nv :=
  let a := firstn n args in a ++ repeat (Str []) (n - length a).

(* arg if arg != "" else arg_def.default_value *)
Definition arg_value (d : argdef) (a : nv) : nv :=
  if is_blank a then Str (ad_default d) else a.

(* one turn of the loop body *)
Definition bind_one (sheets : list (str * dsheet)) (c : ctx) (d : argdef) (a : nv)
  : result aerr ctx :=
  if ocontains str_eqb c (ad_name d) then Err (EDoubly (ad_name d))
  else
    let v := arg_value d a in
    if is_blank v then Err (ERequired (ad_name d))
    else if str_eqb (ad_type d) sheet_type_kw then
      match v with
      | Str s => match oget str_eqb sheets s with
                 | Some rows => Ok (oset str_eqb c (ad_name d) (VRows rows))
                 | None => Err (EUnknownSheet s)
                 end
      | Lst _ => Err EUnhashable
      end
    else Ok (oset str_eqb c (ad_name d) (VArg v)).

(* for arg_def, arg in zip(arg_defs, args + args_padding) *)
Fixpoint bind_all (sheets : list (str * dsheet)) (das : list (argdef * nv)) (c : ctx)
  : result aerr ctx :=
  match das with
  | [] => Ok c
  | (d, a) :: r => match bind_one sheets c d a with
                   | Err e => Err e
                   | Ok c' => bind_all sheets r c'
                   end
  end.

Definition map_template_arguments_to_context
  (sheets : list (str * dsheet)) (defs : list argdef) (args : list nv) (c : ctx)
  : result aerr ctx :=
  bind_all sheets (combine defs (fit_args (length defs) args)) c.

(* dict(context) of a data row *)
Definition ctx_of_row (r : drow) : ctx := map (fun kv => (fst kv, VData (snd kv))) r.

End Args.

Arguments cval D : clear implicits.
Arguments ctx D : clear implicits.
Arguments drow D : clear implicits.
Arguments dsheet D : clear implicits.
