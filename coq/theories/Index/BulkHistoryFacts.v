(* History-independence of the calls on one ContentIndexParser (BulkHistory.v), and of one instance
   inside an index. *)
From Coq Require Import List NArith Bool Lia.
From RPFT Require Import Base.Sexp Base.PyStr Base.ODict Base.Result Gen.Tables Cell.Cell
  Index.Args Index.ArgsFacts Index.Bulk Index.BulkFacts Index.BulkHistory.
Import ListNotations.

Section HistoryFacts.
Context {D T F S E : Type}.
Variable compile_one : str -> T -> ctx D -> S -> result E (F * S).
Variable st0 : S.

(* running a sequence of calls through the step function = the pure function applied to each call,
   and the object comes out as it went in *)
Theorem run_calls_is_map : forall (reg : registry D T) (cs : list (@call)),
  run_calls compile_one st0 reg cs = (reg, map (do_call compile_one st0 reg) cs).
Proof.
  intros reg cs. induction cs as [|c r IH]; [reflexivity|].
  cbn [run_calls step map]. rewrite IH. reflexivity.
Qed.

(* the outcome of a call does not depend on the calls made before it on the same object *)
Theorem call_history_free : forall (reg : registry D T) (h1 h2 : list call) (c : call) (t1 t2 : list call),
  nth_error (snd (run_calls compile_one st0 reg (h1 ++ c :: t1))) (length h1)
  = nth_error (snd (run_calls compile_one st0 reg (h2 ++ c :: t2))) (length h2).
Proof.
  intros reg h1 h2 c t1 t2. rewrite !run_calls_is_map. cbn [snd]. rewrite !map_app. cbn [map].
  rewrite !nth_error_app2 by (rewrite map_length; lia). rewrite !map_length, !PeanoNat.Nat.sub_diag.
  reflexivity.
Qed.

Corollary call_outcome : forall (reg : registry D T) (h : list call) (c : call) (t : list call),
  nth_error (snd (run_calls compile_one st0 reg (h ++ c :: t))) (length h) = Some (do_call compile_one st0 reg c).
Proof.
  intros reg h c t. rewrite run_calls_is_map. cbn [snd]. rewrite map_app. cbn [map].
  rewrite nth_error_app2 by (rewrite map_length; lia). rewrite map_length, PeanoNat.Nat.sub_diag. reflexivity.
Qed.

End HistoryFacts.

Section Alone.
Context {D T F S E : Type}.
Variable comp : str -> T -> ctx D -> result E F.
Variable next : S -> S.

(* an index row that names its data row (or needs none) *)
Definition names_one (r : cfrow) : Prop :=
  is_bulk r = false /\ (negb (nonblank (cf_data_sheet r)) && nonblank (cf_data_row_id r)) = false.

(* the flow such a row leaves in the flows dict is the compilation of ITS (name, table, context) —
   whatever rows were processed before it, whatever the dict and the state were: it is the flow the
   row gives in an index of its own *)
Theorem instance_in_any_history : forall (reg : registry D T) (pre : list cfrow) (r : cfrow)
                                         (a a1 : list (str * F) * S) n t c,
  names_one r ->
  @prepare_row D T E reg r (cf_data_row_id r) = Ok (n, t, c) ->
  paf_rows (blind comp next) reg (pre ++ [r]) a = Ok a1 ->
  exists f, comp n t c = Ok f /\ oget str_eqb (fst a1) n = Some f.
Proof.
  intros reg pre r a a1 n t c [Hb Hw] Hp H.
  unfold paf_rows in H. rewrite foldM_app in H.
  destruct (foldM (paf_row (blind comp next) reg) pre a) as [a0|e]; [|discriminate].
  cbn [foldM] in H. unfold paf_row in H. rewrite Hb, Hw in H.
  unfold instance in H. rewrite Hp in H. unfold compile_inst, blind in H.
  destruct (comp n t c) as [f|e]; [|discriminate].
  inversion H; subst a1. exists f. split; [reflexivity|]. cbn [fst].
  apply (oget_oset_same str_eqb str_eqb_iff).
Qed.

Corollary instance_alone : forall (reg : registry D T) (pre : list cfrow) (r : cfrow)
                                  (a a1 a2 : list (str * F) * S) st n t c,
  names_one r ->
  @prepare_row D T E reg r (cf_data_row_id r) = Ok (n, t, c) ->
  paf_rows (blind comp next) reg (pre ++ [r]) a = Ok a1 ->
  parse_all_flows (blind comp next) reg [r] st = Ok a2 ->
  oget str_eqb (fst a1) n = oget str_eqb (fst a2) n.
Proof.
  intros reg pre r a a1 a2 st n t c Hn Hp H1 H2.
  destruct (instance_in_any_history reg pre r a a1 n t c Hn Hp H1) as [f [Hf Hg]].
  unfold parse_all_flows in H2.
  destruct (instance_in_any_history reg [] r ([], st) a2 n t c Hn Hp H2) as [f' [Hf' Hg']].
  rewrite Hg, Hg'. congruence.
Qed.

End Alone.

(* ---- non-vacuity: a history on the example registry of BulkExamples.v ---- *)
From RPFT Require Import Index.BulkExamples.
Local Open Scope N_scope.

(* a compiler that shows what it was given: the flow is (name, context) *)
Definition show_comp (name : str) (t : N) (c : ctx nv) : result unit (str * ctx nv) := Ok (name, c).

Definition history_example : Prop :=
  let r1 := mk_cfrow st_ [] sd sr1 [Str sz] in       (* create_flow t, data row r1, argument z *)
  let r2 := mk_cfrow st_ [] sd sr2 [] in             (* create_flow t, data row r2, default argument *)
  let bulk := mk_cfrow st_ [] sd [] [Str sz] in
  names_one r1
  /\ (* the same calls in two orders, one of them repeated: every outcome is the call's own *)
  snd (run_calls (blind show_comp N.succ) 0 ex_reg [CAll [r2]; CBlock st_ sd sr1 [Str sz]; CAll [r1]; CAll [r2]])
  = map (do_call (blind show_comp N.succ) 0 ex_reg) [CAll [r2]; CBlock st_ sd sr1 [Str sz]; CAll [r1]; CAll [r2]]
  /\ (* r1 after the bulk row and after r2, in a dict that already holds other flows: the flow of r1 alone *)
  (exists a1 a2,
     paf_rows (blind show_comp N.succ) ex_reg ([bulk; r2] ++ [r1]) ([], 5) = Ok a1
     /\ parse_all_flows (blind show_comp N.succ) ex_reg [r1] 0 = Ok a2
     /\ oget str_eqb (fst a1) (st_ ++ sep ++ sr1) = Some (st_ ++ sep ++ sr1, [(sv, VData (Str sx)); (sA, VArg (Str sz))])
     /\ oget str_eqb (fst a2) (st_ ++ sep ++ sr1) = oget str_eqb (fst a1) (st_ ++ sep ++ sr1)).

Lemma history_example_holds : history_example.
Proof.
  unfold history_example. split; [split; vm_compute; reflexivity|]. split; [vm_compute; reflexivity|].
  eexists. eexists. split; [vm_compute; reflexivity|]. split; [vm_compute; reflexivity|].
  split; vm_compute; reflexivity.
Qed.
