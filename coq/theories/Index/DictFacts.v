(* E5 / C10 — facts about insertion-ordered dictionaries that are driven by a history of
   "define (k,v)" / "forget k" events: the dictionary a sequential run ends with is the
   last-writer-wins dictionary of the definitions that no later "forget" names.
   Generic in the key type; no size bounds. *)
From Coq Require Import List Bool Lia.
From RPFT Require Import Base.ODict.
Import ListNotations.

Section DictFacts.
Context {K V : Type}.
Variable keqb : K -> K -> bool.
Hypothesis keqb_spec : forall a b, keqb a b = true <-> a = b.

Notation oget := (oget keqb).
Notation oset := (oset keqb).
Notation opop := (opop keqb).
Notation oupdate := (oupdate keqb).
Notation odict := (list (K * V)).

Definition kmem (k : K) (l : list K) : bool := existsb (keqb k) l.

Lemma kmem_in k l : kmem k l = true <-> In k l.
Proof.
  unfold kmem. rewrite existsb_exists. split.
  - intros [x [Hin He]]. apply keqb_spec in He. subst. exact Hin.
  - intros Hin. exists k. split; [exact Hin|apply keqb_spec; reflexivity].
Qed.

Lemma kmem_false k l : kmem k l = false <-> ~ In k l.
Proof.
  rewrite <- kmem_in. destruct (kmem k l); split; intros H.
  - discriminate.
  - exfalso. apply H. reflexivity.
  - intros H'. discriminate.
  - reflexivity.
Qed.

Lemma keqb_sym a b : keqb a b = keqb b a.
Proof.
  destruct (keqb a b) eqn:E1, (keqb b a) eqn:E2; try reflexivity.
  - apply keqb_spec in E1. subst. rewrite (keqb_refl keqb keqb_spec) in E2. discriminate.
  - apply keqb_spec in E2. subst. rewrite (keqb_refl keqb keqb_spec) in E1. discriminate.
Qed.

(* ------------------------------------------------------------ oget / oset / opop *)

Lemma oget_oset (d : odict) k v k2 :
  oget (oset d k v) k2 = if keqb k k2 then Some v else oget d k2.
Proof.
  destruct (keqb k k2) eqn:E.
  - apply keqb_spec in E. subst. apply (oget_oset_same keqb keqb_spec).
  - apply (oget_oset_other keqb keqb_spec). intros ->. rewrite (keqb_refl keqb keqb_spec) in E. discriminate.
Qed.

Lemma oget_in_keys (d : odict) k : oget d k <> None <-> In k (okeys d).
Proof.
  pose proof (oget_none_notin keqb keqb_spec d k) as H.
  destruct (oget d k) eqn:E.
  - split; [|congruence]. intros _.
    destruct (kmem k (okeys d)) eqn:Em; [apply kmem_in; exact Em|].
    apply kmem_false in Em. apply H in Em. discriminate.
  - split; [congruence|]. intros Hin. exfalso. apply H; [reflexivity|exact Hin].
Qed.

Lemma ocontains_in (d : odict) k : ocontains keqb d k = true <-> In k (okeys d).
Proof.
  unfold ocontains. rewrite <- oget_in_keys. destruct (oget d k); split; congruence.
Qed.

Lemma okeys_oset (d : odict) k v :
  okeys (oset d k v) = if kmem k (okeys d) then okeys d else okeys d ++ [k].
Proof.
  destruct (kmem k (okeys d)) eqn:E.
  - apply kmem_in in E. apply (okeys_oset_in keqb). apply oget_in_keys. exact E.
  - apply kmem_false in E. apply (okeys_oset_new keqb). apply (oget_none_notin keqb keqb_spec). exact E.
Qed.

Lemma filter_all_true {A} (f : A -> bool) (l : list A) :
  (forall x, In x l -> f x = true) -> filter f l = l.
Proof.
  induction l as [|x l IH]; cbn; [reflexivity|]. intros H. rewrite (H x) by (left; reflexivity).
  f_equal. apply IH. intros y Hy. apply H. right. exact Hy.
Qed.

Lemma opop_filter (d : odict) k :
  NoDup (okeys d) -> opop d k = filter (fun kv => negb (keqb (fst kv) k)) d.
Proof.
  induction d as [|[k' v'] r IH]; cbn; [reflexivity|]. intros Hnd. inversion Hnd as [|x l Hnot Hnd']; subst.
  destruct (keqb k' k) eqn:E; cbn.
  - apply keqb_spec in E. subst k'. symmetry. apply filter_all_true.
    intros [k2 v2] Hin. cbn. destruct (keqb k2 k) eqn:E2; [|reflexivity].
    apply keqb_spec in E2. subst k2. exfalso. apply Hnot. change k with (fst (k, v2)). apply in_map. exact Hin.
  - f_equal. apply IH. exact Hnd'.
Qed.

Lemma okeys_filter (f : K -> bool) (d : odict) :
  okeys (filter (fun kv => f (fst kv)) d) = filter f (okeys d).
Proof.
  unfold okeys. induction d as [|[k v] r IH]; cbn; [reflexivity|]. destruct (f k); cbn; rewrite IH; reflexivity.
Qed.

Lemma NoDup_filter {A} (f : A -> bool) (l : list A) : NoDup l -> NoDup (filter f l).
Proof.
  induction l as [|x l IH]; cbn; [intros; constructor|]. intros H. inversion H as [|y m Hnot Hnd]; subst.
  destruct (f x); [constructor; [rewrite filter_In; tauto|apply IH; exact Hnd]|apply IH; exact Hnd].
Qed.

Lemma opop_nodup (d : odict) k : NoDup (okeys d) -> NoDup (okeys (opop d k)).
Proof.
  intros H. rewrite opop_filter by exact H.
  rewrite (okeys_filter (fun x => negb (keqb x k))). apply NoDup_filter. exact H.
Qed.

Lemma oget_opop (d : odict) k k2 :
  NoDup (okeys d) -> oget (opop d k) k2 = if keqb k k2 then None else oget d k2.
Proof.
  intros Hnd. destruct (keqb k k2) eqn:E.
  - apply keqb_spec in E. subst k2. apply (oget_none_notin keqb keqb_spec). apply (opop_notin keqb keqb_spec). exact Hnd.
  - apply (oget_opop_other keqb keqb_spec). intros ->. rewrite (keqb_refl keqb keqb_spec) in E. discriminate.
Qed.

Lemma okeys_opop (d : odict) k :
  NoDup (okeys d) -> okeys (opop d k) = filter (fun x => negb (keqb x k)) (okeys d).
Proof.
  intros H. rewrite opop_filter by exact H. apply (okeys_filter (fun x => negb (keqb x k))).
Qed.

(* a filter on keys commutes with an assignment to a key that passes it *)
Lemma filter_oset (f : K -> bool) (d : odict) k v :
  f k = true ->
  filter (fun kv => f (fst kv)) (oset d k v) = oset (filter (fun kv => f (fst kv)) d) k v.
Proof.
  intros Hk. induction d as [|[k' v'] r IH]; cbn.
  - rewrite Hk. reflexivity.
  - destruct (keqb k' k) eqn:E; cbn.
    + apply keqb_spec in E. subst k'. rewrite Hk. cbn. rewrite (keqb_refl keqb keqb_spec). reflexivity.
    + destruct (f k') eqn:Ef; cbn; [rewrite E, IH; reflexivity|exact IH].
Qed.

(* ... and swallows an assignment to a key that does not *)
Lemma filter_oset_out (f : K -> bool) (d : odict) k v :
  f k = false ->
  filter (fun kv => f (fst kv)) (oset d k v) = filter (fun kv => f (fst kv)) d.
Proof.
  intros Hk. induction d as [|[k' v'] r IH]; cbn.
  - rewrite Hk. reflexivity.
  - destruct (keqb k' k) eqn:E; cbn.
    + apply keqb_spec in E. subst k'. rewrite Hk. reflexivity.
    + destruct (f k'); [f_equal|]; exact IH.
Qed.

(* ------------------------------------------------------------ dict.update / built by assignment *)

(* the value of the last pair with key k *)
Fixpoint last_val (l : odict) (k : K) : option V :=
  match l with
  | [] => None
  | (k', v) :: r =>
    match last_val r k with
    | Some x => Some x
    | None => if keqb k' k then Some v else None
    end
  end.

(* keys in order of first occurrence, skipping those already [seen] *)
Fixpoint first_occ (seen : list K) (l : list K) : list K :=
  match l with
  | [] => []
  | k :: r => if kmem k seen then first_occ seen r else k :: first_occ (seen ++ [k]) r
  end.

Lemma last_val_none l k : last_val l k = None <-> ~ In k (okeys l).
Proof.
  induction l as [|[k' v'] r IH]; cbn; [tauto|].
  destruct (last_val r k) eqn:E.
  - split; [discriminate|]. intros H. exfalso. assert (Hn : ~ In k (okeys r)) by tauto. apply IH in Hn. discriminate.
  - destruct (keqb k' k) eqn:Ek.
    + apply keqb_spec in Ek. subst. split; [discriminate|]. intros H. exfalso. apply H. left. reflexivity.
    + split; [|reflexivity]. intros _ [H|H]; [subst; rewrite (keqb_refl keqb keqb_spec) in Ek; discriminate|].
      apply IH in H; [exact H|reflexivity].
Qed.

Lemma last_val_spec l k v :
  last_val l k = Some v <->
  exists pre post, l = pre ++ (k, v) :: post /\ ~ In k (okeys post).
Proof.
  revert v. induction l as [|[k' v'] r IH]; intros v; cbn.
  - split; [discriminate|]. intros [pre [post [H _]]]. destruct pre; discriminate.
  - assert (Hmid : forall (a b : odict) w, In k (okeys (a ++ (k, w) :: b))).
    { intros a b w. unfold okeys. rewrite map_app. apply in_or_app. right. left. reflexivity. }
    destruct (last_val r k) as [x|] eqn:E.
    + split.
      * intros H. injection H as Hxv. subst x. destruct (proj1 (IH v) eq_refl) as [pre [post [H1 H2]]].
        exists ((k', v') :: pre), post. split; [rewrite H1; reflexivity|exact H2].
      * intros [pre [post [H1 H2]]]. f_equal. destruct pre as [|p pre]; cbn in H1.
        -- injection H1 as Hk Hv Hr. subst post. destruct (proj1 (IH x) eq_refl) as [pre' [post' [H3 _]]].
           exfalso. apply H2. rewrite H3. apply Hmid.
        -- injection H1 as Hp Hr. assert (Hx : Some x = Some v); [|injection Hx as Hx; exact Hx].
           apply IH. exists pre, post. split; [exact Hr|exact H2].
    + assert (Hnot : ~ In k (okeys r)) by (apply last_val_none; exact E).
      destruct (keqb k' k) eqn:Ek.
      * apply keqb_spec in Ek. subst k'. split.
        -- intros H. injection H as Hv. subst v'. exists [], r. split; [reflexivity|exact Hnot].
        -- intros [pre [post [H1 H2]]]. destruct pre as [|p pre]; cbn in H1.
           ++ injection H1 as Hv _. subst v'. reflexivity.
           ++ injection H1 as _ Hr. exfalso. apply Hnot. rewrite Hr. apply Hmid.
      * split; [discriminate|]. intros [pre [post [H1 H2]]]. destruct pre as [|p pre]; cbn in H1.
        -- injection H1 as Hk _ _. subst k'. rewrite (keqb_refl keqb keqb_spec) in Ek. discriminate.
        -- injection H1 as _ Hr. exfalso. apply Hnot. rewrite Hr. apply Hmid.
Qed.

Lemma oupdate_cons (d : odict) k v l : oupdate d ((k, v) :: l) = oupdate (oset d k v) l.
Proof. reflexivity. Qed.

Lemma oupdate_app (d : odict) l1 l2 : oupdate d (l1 ++ l2) = oupdate (oupdate d l1) l2.
Proof. unfold ODict.oupdate. apply fold_left_app. Qed.

(* value: that of the LAST pair *)
Lemma oget_oupdate (d l : odict) k :
  oget (oupdate d l) k = match last_val l k with Some v => Some v | None => oget d k end.
Proof.
  revert d. induction l as [|[k' v'] r IH]; intros d; [reflexivity|].
  rewrite oupdate_cons, IH. cbn [last_val]. destruct (last_val r k); [reflexivity|].
  rewrite oget_oset. destruct (keqb k' k); reflexivity.
Qed.

(* position: that of the FIRST pair *)
Lemma okeys_oupdate (d l : odict) :
  okeys (oupdate d l) = okeys d ++ first_occ (okeys d) (okeys l).
Proof.
  revert d. induction l as [|[k' v'] r IH]; intros d; [cbn; rewrite app_nil_r; reflexivity|].
  rewrite oupdate_cons, IH, okeys_oset. cbn [okeys map fst first_occ]. fold (okeys r).
  destruct (kmem k' (okeys d)); [reflexivity|]. rewrite <- app_assoc. reflexivity.
Qed.

Lemma oupdate_nodup (d l : odict) : NoDup (okeys d) -> NoDup (okeys (oupdate d l)).
Proof.
  revert d. induction l as [|[k' v'] r IH]; intros d H; [exact H|].
  rewrite oupdate_cons. apply IH. apply (oset_nodup keqb keqb_spec). exact H.
Qed.

Lemma first_occ_in seen l k : In k (first_occ seen l) <-> In k l /\ ~ In k seen.
Proof.
  revert seen. induction l as [|x r IH]; intros seen; cbn; [tauto|].
  destruct (kmem x seen) eqn:E.
  - apply kmem_in in E. rewrite IH. split; [tauto|]. intros [[H|H] Hn]; [subst; contradiction|tauto].
  - apply kmem_false in E. cbn. rewrite IH. rewrite in_app_iff. cbn. split.
    + intros [H|[H Hn]]; [subst; tauto|tauto].
    + intros [[H|H] Hn]; [tauto|].
      destruct (kmem k [x]) eqn:Ex.
      * apply kmem_in in Ex. destruct Ex as [Ex|[]]. tauto.
      * apply kmem_false in Ex. right. split; [exact H|]. cbn in Ex. tauto.
Qed.

Lemma first_occ_nodup seen l : NoDup (first_occ seen l).
Proof.
  revert seen. induction l as [|x r IH]; intros seen; cbn; [constructor|].
  destruct (kmem x seen); [apply IH|]. constructor; [|apply IH].
  rewrite first_occ_in. intros [_ H]. apply H. apply in_or_app. right. left. reflexivity.
Qed.

(* [first_occ] only looks at membership in [seen] *)
Lemma first_occ_ext s1 s2 l :
  (forall k, In k s1 <-> In k s2) -> first_occ s1 l = first_occ s2 l.
Proof.
  revert s1 s2. induction l as [|x r IH]; intros s1 s2 H; cbn; [reflexivity|].
  assert (Hm : kmem x s1 = kmem x s2).
  { destruct (kmem x s1) eqn:E1, (kmem x s2) eqn:E2; try reflexivity.
    - apply kmem_in in E1. apply kmem_false in E2. apply H in E1. contradiction.
    - apply kmem_in in E2. apply kmem_false in E1. apply H in E2. contradiction. }
  rewrite Hm. destruct (kmem x s2); [apply IH, H|]. f_equal. apply IH.
  intros k. rewrite !in_app_iff. rewrite H. tauto.
Qed.

(* the place of a name is the place of its first definition: everything defined before it
   stays before it, everything first defined after it comes after it *)
Lemma first_occ_app seen a b :
  first_occ seen (a ++ b) = first_occ seen a ++ first_occ (seen ++ a) b.
Proof.
  revert seen. induction a as [|x r IH]; intros seen; cbn; [rewrite app_nil_r; reflexivity|].
  destruct (kmem x seen) eqn:E.
  - rewrite IH. f_equal. apply first_occ_ext. intros k. rewrite !in_app_iff. cbn.
    apply kmem_in in E. split; [tauto|]. intros [H|[H|H]]; [tauto|subst; tauto|tauto].
  - cbn. rewrite IH. f_equal. f_equal. rewrite <- app_assoc. reflexivity.
Qed.

Lemma oget_in_nodup (d : odict) k v : NoDup (okeys d) -> In (k, v) d -> oget d k = Some v.
Proof.
  induction d as [|[k' v'] r IH]; cbn; [intros _ []|]. intros Hnd Hin. inversion Hnd as [|x l Hnot Hnd']; subst.
  destruct Hin as [H|H].
  - injection H as -> ->. rewrite (keqb_refl keqb keqb_spec). reflexivity.
  - destruct (keqb k' k) eqn:E; [|apply IH; assumption]. apply keqb_spec in E. subst k'.
    exfalso. apply Hnot. change k with (fst (k, v)). apply in_map. exact H.
Qed.

Lemma oset_in (d : odict) k v k' v' : In (k, v) (oset d k' v') -> In (k, v) d \/ (k, v) = (k', v').
Proof.
  induction d as [|[k2 v2] d IHd]; cbn.
  - intros [H|[]]. right. symmetry. exact H.
  - destruct (keqb k2 k') eqn:E; cbn.
    + apply keqb_spec in E. subst k2. intros [H|H]; [right; symmetry; exact H|left; right; exact H].
    + intros [H|H]; [left; left; exact H|]. apply IHd in H. tauto.
Qed.

Lemma oupdate_in (d l : odict) k v : In (k, v) (oupdate d l) -> In (k, v) d \/ In (k, v) l.
Proof.
  revert d. induction l as [|[k' v'] r IH]; intros d H; [left; exact H|].
  rewrite oupdate_cons in H. apply IH in H as [H|H]; [|right; right; exact H].
  apply oset_in in H as [H|H]; [left; exact H|right; left; symmetry; exact H].
Qed.

(* ------------------------------------------------------------ histories of define / forget *)

Section History.
Context {R : Type}.
Variable ign : R -> option K.               (* the row forgets this name *)
Variable def : R -> option (K * V).         (* the row defines this name (only looked at when it forgets nothing) *)

Definition forgets (n : K) (r : R) : bool :=
  match ign r with Some m => keqb m n | None => false end.
Definition forgotten_in (rows : list R) (n : K) : bool := existsb (forgets n) rows.

(* declarative: the definitions that no LATER row forgets, in order *)
Fixpoint survivors (rows : list R) : odict :=
  match rows with
  | [] => []
  | r :: rest =>
    match ign r with
    | Some _ => survivors rest
    | None =>
      match def r with
      | Some (k, v) => if forgotten_in rest k then survivors rest else (k, v) :: survivors rest
      | None => survivors rest
      end
    end
  end.

(* operational: what one row does to the dictionary *)
Definition effect (d : odict) (r : R) : odict :=
  match ign r with
  | Some n => opop d n
  | None => match def r with Some (k, v) => oset d k v | None => d end
  end.

Lemma effect_nodup d r : NoDup (okeys d) -> NoDup (okeys (effect d r)).
Proof.
  intros H. unfold effect. destruct (ign r); [apply opop_nodup; exact H|].
  destruct (def r) as [[k v]|]; [apply (oset_nodup keqb keqb_spec); exact H|exact H].
Qed.

Lemma fold_effect_nodup rows d : NoDup (okeys d) -> NoDup (okeys (fold_left effect rows d)).
Proof.
  revert d. induction rows as [|r rest IH]; intros d H; [exact H|]. cbn. apply IH, effect_nodup, H.
Qed.

Lemma filter_filter {A} (f g : A -> bool) (l : list A) :
  filter f (filter g l) = filter (fun x => g x && f x) l.
Proof.
  induction l as [|x l IH]; cbn; [reflexivity|]. destruct (g x); cbn; [destruct (f x)|]; rewrite IH; reflexivity.
Qed.

Lemma filter_ext' {A} (f g : A -> bool) (l : list A) :
  (forall x, f x = g x) -> filter f l = filter g l.
Proof. intros H. apply filter_ext. exact H. Qed.

(* the sequential run ends with: the initial entries nobody forgot, updated by the survivors *)
Theorem fold_effect_spec rows d :
  NoDup (okeys d) ->
  fold_left effect rows d =
  oupdate (filter (fun kv => negb (forgotten_in rows (fst kv))) d) (survivors rows).
Proof.
  revert d. induction rows as [|r rest IH]; intros d Hnd.
  - cbn. symmetry. apply filter_all_true. reflexivity.
  - cbn [fold_left]. rewrite IH by (apply effect_nodup; exact Hnd).
    unfold effect. cbn [survivors].
    destruct (ign r) as [n|] eqn:Ei.
    + f_equal. rewrite opop_filter by exact Hnd. rewrite filter_filter. apply filter_ext'.
      intros [k v]. cbn [fst forgotten_in existsb]. unfold forgets at 1. rewrite Ei.
      rewrite negb_orb, (keqb_sym k n). reflexivity.
    + assert (Hf : forall x, forgotten_in (r :: rest) x = forgotten_in rest x).
      { intros x. cbn [forgotten_in existsb]. unfold forgets at 1. rewrite Ei. reflexivity. }
      replace (filter (fun kv => negb (forgotten_in (r :: rest) (fst kv))) d)
        with (filter (fun kv => negb (forgotten_in rest (fst kv))) d)
        by (apply filter_ext'; intros kv; rewrite Hf; reflexivity).
      destruct (def r) as [[k v]|] eqn:Ed; [|reflexivity].
      destruct (forgotten_in rest k) eqn:Ef.
      * f_equal. apply (filter_oset_out (fun x => negb (forgotten_in rest x))). rewrite Ef. reflexivity.
      * rewrite oupdate_cons. f_equal. apply (filter_oset (fun x => negb (forgotten_in rest x))). rewrite Ef. reflexivity.
Qed.

Corollary fold_effect_empty rows : fold_left effect rows [] = oupdate [] (survivors rows).
Proof. rewrite fold_effect_spec by constructor. reflexivity. Qed.

(* "follows the last forget": a definition survives iff no later row forgets its name *)
Lemma survivors_in rows k v :
  In (k, v) (survivors rows) <->
  exists pre r post, rows = pre ++ r :: post /\ ign r = None /\ def r = Some (k, v) /\
                     forgotten_in post k = false.
Proof.
  induction rows as [|r rest IH]; cbn.
  - split; [intros []|]. intros [pre [r [post [H _]]]]. destruct pre; discriminate.
  - assert (Hrest : (exists pre r0 post, rest = pre ++ r0 :: post /\ ign r0 = None /\ def r0 = Some (k, v) /\
                       forgotten_in post k = false) ->
                    exists pre r0 post, r :: rest = pre ++ r0 :: post /\ ign r0 = None /\ def r0 = Some (k, v) /\
                       forgotten_in post k = false).
    { intros [pre [r0 [post [H1 H2]]]]. exists (r :: pre), r0, post. split; [rewrite H1; reflexivity|exact H2]. }
    assert (Hinv : forall pre r0 post, r :: rest = pre ++ r0 :: post -> ign r0 = None -> def r0 = Some (k, v) ->
                     forgotten_in post k = false ->
                     (pre = [] /\ r0 = r /\ post = rest) \/
                     (exists pre', rest = pre' ++ r0 :: post)).
    { intros pre r0 post H. destruct pre as [|p pre]; cbn in H; injection H as -> ->; [left; tauto|right; exists pre; reflexivity]. }
    destruct (ign r) as [n|] eqn:Ei.
    + rewrite IH. split; [exact Hrest|]. intros [pre [r0 [post [H1 [H2 [H3 H4]]]]]].
      destruct (Hinv pre r0 post H1 H2 H3 H4) as [[_ [-> _]]|[pre' ->]]; [congruence|].
      exists pre', r0, post. tauto.
    + destruct (def r) as [[k' v']|] eqn:Ed.
      * destruct (forgotten_in rest k') eqn:Ef.
        -- rewrite IH. split; [exact Hrest|]. intros [pre [r0 [post [H1 [H2 [H3 H4]]]]]].
           destruct (Hinv pre r0 post H1 H2 H3 H4) as [[_ [-> ->]]|[pre' ->]].
           ++ rewrite Ed in H3. injection H3 as -> ->. congruence.
           ++ exists pre', r0, post. tauto.
        -- cbn. rewrite IH. split.
           ++ intros [H|H]; [|apply Hrest, H]. injection H as -> ->. exists [], r, rest. tauto.
           ++ intros [pre [r0 [post [H1 [H2 [H3 H4]]]]]].
              destruct (Hinv pre r0 post H1 H2 H3 H4) as [[_ [-> ->]]|[pre' ->]].
              ** left. congruence.
              ** right. exists pre', r0, post. tauto.
      * rewrite IH. split; [exact Hrest|]. intros [pre [r0 [post [H1 [H2 [H3 H4]]]]]].
        destruct (Hinv pre r0 post H1 H2 H3 H4) as [[_ [-> _]]|[pre' ->]]; [congruence|].
        exists pre', r0, post. tauto.
Qed.

Lemma forgotten_in_spec rows n :
  forgotten_in rows n = true <-> exists r, In r rows /\ ign r = Some n.
Proof.
  unfold forgotten_in. rewrite existsb_exists. split.
  - intros [r [Hin Hf]]. exists r. split; [exact Hin|]. unfold forgets in Hf.
    destruct (ign r) as [m|]; [|discriminate]. apply keqb_spec in Hf. subst. reflexivity.
  - intros [r [Hin Hi]]. exists r. split; [exact Hin|]. unfold forgets. rewrite Hi. apply keqb_spec. reflexivity.
Qed.

(* ---- "the last word": the lookup of a name is decided by the LAST row that mentions it *)
Fixpoint last_word (rows : list R) (n : K) : option (option V) :=
  match rows with
  | [] => None                                   (* nobody mentions n *)
  | r :: rest =>
    match last_word rest n with
    | Some w => Some w
    | None =>
      match ign r with
      | Some m => if keqb m n then Some None else None            (* forgets n *)
      | None =>
        match def r with
        | Some (k, v) => if keqb k n then Some (Some v) else None  (* defines n *)
        | None => None
        end
      end
    end
  end.

Theorem oget_fold_effect rows d n :
  NoDup (okeys d) ->
  oget (fold_left effect rows d) n =
  match last_word rows n with Some w => w | None => oget d n end.
Proof.
  revert d. induction rows as [|r rest IH]; intros d Hnd; [reflexivity|].
  cbn [fold_left last_word]. rewrite IH by (apply effect_nodup; exact Hnd).
  destruct (last_word rest n) as [w|]; [reflexivity|]. unfold effect.
  destruct (ign r) as [m|].
  - rewrite oget_opop by exact Hnd. destruct (keqb m n); reflexivity.
  - destruct (def r) as [[k v]|]; [|reflexivity]. rewrite oget_oset. destruct (keqb k n); reflexivity.
Qed.

Lemma last_word_spec rows n w :
  last_word rows n = Some w <->
  exists pre r post, rows = pre ++ r :: post /\ last_word post n = None /\
    ((exists m, ign r = Some m /\ keqb m n = true /\ w = None) \/
     (exists k v, ign r = None /\ def r = Some (k, v) /\ keqb k n = true /\ w = Some v)).
Proof.
  induction rows as [|r rest IH]; cbn [last_word].
  - split; [discriminate|]. intros [pre [r [post [H _]]]]. destruct pre; discriminate.
  - destruct (last_word rest n) as [w'|] eqn:E.
    + split.
      * intros H. injection H as ->. destruct (proj1 IH eq_refl) as [pre [r0 [post [H1 H2]]]].
        exists (r :: pre), r0, post. split; [rewrite H1; reflexivity|exact H2].
      * intros [pre [r0 [post [H1 [H2 H3]]]]]. destruct pre as [|p pre]; cbn in H1.
        -- injection H1 as _ Hr. subst post. congruence.
        -- injection H1 as _ Hr. f_equal. assert (Hx : Some w' = Some w); [|injection Hx as Hx; exact Hx].
           apply IH. exists pre, r0, post. tauto.
    + split.
      * intros H. exists [], r, rest. split; [reflexivity|]. split; [exact E|].
        destruct (ign r) as [m|].
        -- destruct (keqb m n) eqn:Em; [|discriminate]. injection H as <-. left. exists m. tauto.
        -- destruct (def r) as [[k v]|]; [|discriminate]. destruct (keqb k n) eqn:Ek; [|discriminate].
           injection H as <-. right. exists k, v. tauto.
      * intros [pre [r0 [post [H1 [H2 H3]]]]]. destruct pre as [|p pre]; cbn in H1.
        -- injection H1 as Hr0 Hp. subst r0 post.
           destruct H3 as [[m [Hi [Hm ->]]]|[k [v [Hi [Hd [Hk ->]]]]]].
           ++ rewrite Hi, Hm. reflexivity.
           ++ rewrite Hi, Hd, Hk. reflexivity.
        -- injection H1 as _ Hr. exfalso.
           assert (Hs : None = Some w) by (apply IH; exists pre, r0, post; tauto). discriminate.
Qed.

(* the survivors' last value is the last word *)
Corollary last_val_survivors rows n :
  last_val (survivors rows) n = match last_word rows n with Some w => w | None => None end.
Proof.
  pose proof (oget_fold_effect rows [] n (NoDup_nil K)) as H.
  rewrite fold_effect_empty, oget_oupdate in H. cbn [ODict.oget] in H.
  destruct (last_val (survivors rows) n); exact H.
Qed.

(* ---- the same for a registry that is a plain list (duplicates kept, forget removes all) *)
Variable key : V -> K.
Variable ldef : R -> option V.

Definition leffect (l : list V) (r : R) : list V :=
  match ign r with
  | Some n => filter (fun x => negb (keqb (key x) n)) l
  | None => match ldef r with Some x => l ++ [x] | None => l end
  end.

Fixpoint lsurvivors (rows : list R) : list V :=
  match rows with
  | [] => []
  | r :: rest =>
    match ign r with
    | Some _ => lsurvivors rest
    | None =>
      match ldef r with
      | Some x => if forgotten_in rest (key x) then lsurvivors rest else x :: lsurvivors rest
      | None => lsurvivors rest
      end
    end
  end.

Theorem fold_leffect_spec rows l :
  fold_left leffect rows l =
  filter (fun x => negb (forgotten_in rows (key x))) l ++ lsurvivors rows.
Proof.
  revert l. induction rows as [|r rest IH]; intros l.
  - cbn. rewrite app_nil_r. symmetry. apply filter_all_true. reflexivity.
  - cbn [fold_left]. rewrite IH. unfold leffect. cbn [lsurvivors].
    destruct (ign r) as [n|] eqn:Ei.
    + f_equal. rewrite filter_filter. apply filter_ext'. intros x.
      cbn [forgotten_in existsb]. unfold forgets at 1. rewrite Ei.
      rewrite negb_orb, (keqb_sym (key x) n). reflexivity.
    + assert (Hf : forall x, forgotten_in (r :: rest) x = forgotten_in rest x).
      { intros x. cbn [forgotten_in existsb]. unfold forgets at 1. rewrite Ei. reflexivity. }
      replace (filter (fun x => negb (forgotten_in (r :: rest) (key x))) l)
        with (filter (fun x => negb (forgotten_in rest (key x))) l)
        by (apply filter_ext'; intros x; rewrite Hf; reflexivity).
      destruct (ldef r) as [x|] eqn:Ed; [|reflexivity].
      rewrite filter_app. cbn [filter].
      destruct (forgotten_in rest (key x)); cbn [negb]; [rewrite app_nil_r; reflexivity|].
      rewrite <- app_assoc. reflexivity.
Qed.

(* the list registry is the dictionary history read without keys *)
Definition keyed (r : R) : option (K * V) := option_map (fun x => (key x, x)) (ldef r).

Lemma lsurvivors_in rows x :
  In x (lsurvivors rows) <->
  exists pre r post, rows = pre ++ r :: post /\ ign r = None /\ ldef r = Some x /\
                     forgotten_in post (key x) = false.
Proof.
  clear def. induction rows as [|r rest IH]; cbn.
  - split; [intros []|]. intros [pre [r [post [H _]]]]. destruct pre; discriminate.
  - assert (Hrest : (exists pre r0 post, rest = pre ++ r0 :: post /\ ign r0 = None /\ ldef r0 = Some x /\
                       forgotten_in post (key x) = false) ->
                    exists pre r0 post, r :: rest = pre ++ r0 :: post /\ ign r0 = None /\ ldef r0 = Some x /\
                       forgotten_in post (key x) = false).
    { intros [pre [r0 [post [H1 H2]]]]. exists (r :: pre), r0, post. split; [rewrite H1; reflexivity|exact H2]. }
    assert (Hinv : forall pre r0 post, r :: rest = pre ++ r0 :: post ->
                     (pre = [] /\ r0 = r /\ post = rest) \/ (exists pre', rest = pre' ++ r0 :: post)).
    { intros pre r0 post H. destruct pre as [|p pre]; cbn in H; injection H as -> ->; [left; tauto|right; exists pre; reflexivity]. }
    assert (Hback : forall (P : Prop),
              ((exists pre r0 post, rest = pre ++ r0 :: post /\ ign r0 = None /\ ldef r0 = Some x /\
                       forgotten_in post (key x) = false) -> P) ->
              (ign r = None -> ldef r = Some x -> forgotten_in rest (key x) = false -> P) ->
              (exists pre r0 post, r :: rest = pre ++ r0 :: post /\ ign r0 = None /\ ldef r0 = Some x /\
                       forgotten_in post (key x) = false) -> P).
    { intros P H1 H2 [pre [r0 [post [Ha [Hb [Hc Hd]]]]]].
      destruct (Hinv pre r0 post Ha) as [[_ [-> ->]]|[pre' ->]]; [apply H2; assumption|].
      apply H1. exists pre', r0, post. tauto. }
    destruct (ign r) as [n|] eqn:Ei.
    + rewrite IH. split; [exact Hrest|]. apply Hback; [tauto|discriminate].
    + destruct (ldef r) as [y|] eqn:Ed.
      * destruct (forgotten_in rest (key y)) eqn:Ef.
        -- rewrite IH. split; [exact Hrest|]. apply Hback; [tauto|]. intros _ Hy Hf. injection Hy as ->. congruence.
        -- cbn. rewrite IH. split.
           ++ intros [H|H]; [|apply Hrest, H]. subst y. exists [], r, rest. tauto.
           ++ apply Hback; [tauto|]. intros _ Hy _. left. congruence.
      * rewrite IH. split; [exact Hrest|]. apply Hback; [tauto|discriminate].
Qed.

End History.

Lemma lsurvivors_keyed {R} (ign : R -> option K) (key : V -> K) (ldef : R -> option V) rows :
  map (fun x => (key x, x)) (lsurvivors ign key ldef rows) = survivors ign (keyed key ldef) rows.
Proof.
  induction rows as [|r rest IH]; [reflexivity|]. cbn [lsurvivors survivors].
  destruct (ign r); [exact IH|]. unfold keyed at 1. destruct (ldef r) as [x|]; cbn [option_map]; [|exact IH].
  destruct (forgotten_in ign rest (key x)); [exact IH|]. cbn [map]. rewrite IH. reflexivity.
Qed.


(* two dictionaries with the same keys (no duplicates) and the same lookups are equal *)
Lemma odict_ext (d1 d2 : odict) :
  okeys d1 = okeys d2 -> NoDup (okeys d1) -> (forall k, oget d1 k = oget d2 k) -> d1 = d2.
Proof.
  revert d2. induction d1 as [|[k v] r IH]; intros [|[k2 v2] r2] Hk Hnd Hg; try discriminate; [reflexivity|].
  cbn in Hk. injection Hk as <- Hk. inversion Hnd as [|x l Hnot Hnd']; subst.
  pose proof (Hg k) as Hgk. cbn in Hgk. rewrite (keqb_refl keqb keqb_spec) in Hgk. injection Hgk as <-.
  f_equal. apply IH; [exact Hk|exact Hnd'|]. intros k'. specialize (Hg k'). cbn in Hg.
  destruct (keqb k k') eqn:E; [|exact Hg]. apply keqb_spec in E. subst k'.
  transitivity (@None V).
  - apply (oget_none_notin keqb keqb_spec). exact Hnot.
  - symmetry. apply (oget_none_notin keqb keqb_spec). unfold okeys in *. rewrite <- Hk. exact Hnot.
Qed.

End DictFacts.
