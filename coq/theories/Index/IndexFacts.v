(* Facts about the content-index fold (E5 / C10): inactive rows, nested indexes in place and
   the fuel they need, the fold over a history.  The registries' declarative reading is in
   IndexRegFacts.v, workbooks in WorkbookFacts.v, the tag matcher in TagMatchFacts.v. *)
From Coq Require Import List NArith ZArith Bool Lia.
From RPFT Require Import Base.Sexp Base.PyStr Base.PyStrFacts Base.Result Base.ODict Gen.Tables
     Index.TagMatch Index.Index Index.DictFacts Index.IndexSpec.
Import ListNotations.

Lemma ignore_never_template : forall n st, st_templates (ignore_row n st) = st_templates st.
Proof. reflexivity. Qed.

(* ------------------------------------------------------------ unfolding *)

Lemma process_with_nil rec pats wbs st : process_with rec pats wbs [] st = Ok st.
Proof. reflexivity. Qed.

Lemma process_with_cons rec pats wbs r rest st :
  process_with rec pats wbs (r :: rest) st =
  match step_row rec pats wbs r st with
  | Err e => Err e
  | Ok st' => process_with rec pats wbs rest st'
  end.
Proof. reflexivity. Qed.

Definition rec_of (fuel : nat) (pats : patterns) (wbs : list workbook) : list irow -> state -> result err state :=
  match fuel with 0 => no_fuel | S f => process f pats wbs end.

Lemma process_unfold fuel pats wbs :
  process fuel pats wbs = process_with (rec_of fuel pats wbs) pats wbs.
Proof. destruct fuel; reflexivity. Qed.

Definition erec_of (fuel : nat) (pats : patterns) (wbs : list workbook) : list irow -> option (list item) :=
  match fuel with 0 => fun _ => None | S f => expand f pats wbs end.

Lemma expand_unfold fuel pats wbs :
  expand fuel pats wbs = expand_with (erec_of fuel pats wbs) pats wbs.
Proof. destruct fuel; reflexivity. Qed.

Lemma expand_with_nil rec pats wbs : expand_with rec pats wbs [] = Some [].
Proof. reflexivity. Qed.

Lemma expand_with_cons rec pats wbs r rest :
  expand_with rec pats wbs (r :: rest) =
  match nestable pats wbs r with
  | None => option_map (cons (IRow r)) (expand_with rec pats wbs rest)
  | Some sub =>
    match rec sub, expand_with rec pats wbs rest with
    | Some t, Some ts => Some (INest r t :: ts)
    | _, _ => None
    end
  end.
Proof. reflexivity. Qed.

Lemma process_with_app rec pats wbs a b st :
  process_with rec pats wbs (a ++ b) st =
  match process_with rec pats wbs a st with
  | Err e => Err e
  | Ok st' => process_with rec pats wbs b st'
  end.
Proof.
  revert st. induction a as [|r a IH]; intros st; [reflexivity|].
  cbn [app]. rewrite !process_with_cons. destruct (step_row rec pats wbs r st); [apply IH|reflexivity].
Qed.

(* ------------------------------------------------------------ 1. inactive rows *)

Lemma active_false_iff pats r :
  active pats r = false <-> r_status r = ci_draft \/ matches pats (r_tags r) = false.
Proof.
  unfold active. rewrite andb_false_iff, negb_false_iff, str_eqb_eq. reflexivity.
Qed.

Lemma nestable_active pats wbs r sub : nestable pats wbs r = Some sub -> active pats r = true.
Proof. unfold nestable. destruct (active pats r); [reflexivity|discriminate]. Qed.

Lemma step_row_inactive rec pats wbs r st :
  active pats r = false -> step_row rec pats wbs r st = Ok st.
Proof. intros H. unfold step_row. rewrite H. reflexivity. Qed.

(* a draft row, or a row whose tags fail the filter, leaves the state unchanged — whatever its
   type, sheet names (even malformed) and whatever the nested tables contain *)
Lemma inactive_row_no_effect rec pats wbs r st :
  r_status r = ci_draft \/ matches pats (r_tags r) = false ->
  step_row rec pats wbs r st = Ok st.
Proof. intros H. apply step_row_inactive, active_false_iff, H. Qed.

Lemma process_with_filter rec pats wbs rows st :
  process_with rec pats wbs rows st = process_with rec pats wbs (filter (active pats) rows) st.
Proof.
  revert st. induction rows as [|r rest IH]; intros st; [reflexivity|].
  cbn [filter]. destruct (active pats r) eqn:Ea.
  - rewrite !process_with_cons. destruct (step_row rec pats wbs r st); [apply IH|reflexivity].
  - rewrite process_with_cons, step_row_inactive by exact Ea. apply IH.
Qed.

Theorem inactive_no_effect fuel pats wbs rows st :
  process fuel pats wbs rows st = process fuel pats wbs (filter (active pats) rows) st.
Proof. rewrite process_unfold. apply process_with_filter. Qed.

(* inserting inactive rows anywhere changes nothing *)
Corollary inactive_rows_anywhere fuel pats wbs pre junk post st :
  forallb (fun r => negb (active pats r)) junk = true ->
  process fuel pats wbs (pre ++ junk ++ post) st = process fuel pats wbs (pre ++ post) st.
Proof.
  intros H. rewrite (inactive_no_effect fuel pats wbs (pre ++ junk ++ post)),
                    (inactive_no_effect fuel pats wbs (pre ++ post)).
  rewrite !filter_app. replace (filter (active pats) junk) with (@nil irow); [reflexivity|].
  symmetry. induction junk as [|x l IH]; [reflexivity|]. cbn in H. apply andb_true_iff in H as [H1 H2].
  cbn. apply negb_true_iff in H1. rewrite H1. apply IH, H2.
Qed.

(* ------------------------------------------------------------ index trees *)

Section ItemInd.
Variable P : item -> Prop.
Hypothesis HRow : forall r, P (IRow r).
Hypothesis HNest : forall r sub, Forall P sub -> P (INest r sub).
Fixpoint item_ind' (i : item) : P i :=
  match i with
  | IRow r => HRow r
  | INest r sub =>
    HNest r sub ((fix go (l : list item) : Forall P l :=
                    match l with
                    | [] => Forall_nil P
                    | x :: l' => Forall_cons x (item_ind' x) (go l')
                    end) sub)
  end.
End ItemInd.

Lemma run_item_nest pats wbs r sub st :
  run_item pats wbs (INest r sub) st = if active pats r then run_tree pats wbs sub st else Ok st.
Proof.
  cbn [run_item]. destruct (active pats r); [|reflexivity].
  revert st. induction sub as [|x l IH]; intros st; [reflexivity|].
  cbn [run_tree].
  destruct (run_item pats wbs x st); [apply IH|reflexivity].
Qed.

Lemma flatten_item_nest pats r sub :
  flatten_item pats (INest r sub) = if active pats r then flatten pats sub else [].
Proof.
  cbn [flatten_item]. destruct (active pats r); [|reflexivity].
  induction sub as [|x l IH]; [reflexivity|]. cbn [flatten]. rewrite <- IH. reflexivity.
Qed.

Lemma depth_item_nest r sub : depth_item (INest r sub) = S (depth sub).
Proof.
  reflexivity.
Qed.

Lemma run_tree_app pats wbs a b st :
  run_tree pats wbs (a ++ b) st =
  match run_tree pats wbs a st with Err e => Err e | Ok st' => run_tree pats wbs b st' end.
Proof.
  revert st. induction a as [|x a IH]; intros st; [reflexivity|].
  cbn [app run_tree]. destruct (run_item pats wbs x st); [apply IH|reflexivity].
Qed.

Lemma run_rows_app wbs a b st :
  run_rows wbs (a ++ b) st =
  match run_rows wbs a st with Err e => Err e | Ok st' => run_rows wbs b st' end.
Proof.
  unfold run_rows. revert st. induction a as [|x a IH]; intros st; [reflexivity|].
  cbn [app foldM]. destruct (step_other wbs x st); [apply IH|reflexivity].
Qed.

Lemma flatten_app pats a b : flatten pats (a ++ b) = flatten pats a ++ flatten pats b.
Proof. induction a as [|x a IH]; [reflexivity|]. cbn [app flatten]. rewrite IH, app_assoc. reflexivity. Qed.

(* a tree is run exactly as the list of its active rows, nested tables in place *)
Lemma run_item_flatten pats wbs i :
  forall st, run_item pats wbs i st = run_rows wbs (flatten_item pats i) st.
Proof.
  induction i as [r|r sub IH] using item_ind'; intros st.
  - cbn [run_item flatten_item]. destruct (active pats r); [|reflexivity].
    unfold run_rows. cbn [foldM]. destruct (step_other wbs r st); reflexivity.
  - rewrite run_item_nest, flatten_item_nest. destruct (active pats r); [|reflexivity].
    revert st. induction IH as [|x l Hx Hl IHl]; intros st; [reflexivity|].
    cbn [run_tree flatten]. rewrite run_rows_app, Hx. destruct (run_rows wbs (flatten_item pats x) st); [apply IHl|reflexivity].
Qed.

Theorem run_tree_flatten pats wbs t st :
  run_tree pats wbs t st = run_rows wbs (flatten pats t) st.
Proof.
  revert st. induction t as [|x l IH]; intros st; [reflexivity|].
  cbn [run_tree flatten]. rewrite run_rows_app, run_item_flatten.
  destruct (run_rows wbs (flatten_item pats x) st); [apply IH|reflexivity].
Qed.

(* ------------------------------------------------------------ 2. nested indexes, fuel *)

(* the fold over index rows is the run of the tree the rows unfold to *)
Lemma process_with_expand_with rec_p rec_e pats wbs :
  (forall sub t st, rec_e sub = Some t -> rec_p sub st = run_tree pats wbs t st) ->
  forall rows t st, expand_with rec_e pats wbs rows = Some t ->
                    process_with rec_p pats wbs rows st = run_tree pats wbs t st.
Proof.
  intros Hrec. induction rows as [|r rest IH]; intros t st He.
  - rewrite expand_with_nil in He. injection He as <-. reflexivity.
  - rewrite expand_with_cons in He. rewrite process_with_cons. unfold step_row.
    destruct (nestable pats wbs r) as [sub|] eqn:En.
    + rewrite (nestable_active _ _ _ _ En).
      destruct (rec_e sub) as [t1|] eqn:E1; [|discriminate].
      destruct (expand_with rec_e pats wbs rest) as [ts|] eqn:E2; [|discriminate].
      injection He as <-. cbn [run_tree]. rewrite run_item_nest, (nestable_active _ _ _ _ En).
      rewrite (Hrec sub t1 st E1). destruct (run_tree pats wbs t1 st); [apply IH; reflexivity|reflexivity].
    + destruct (expand_with rec_e pats wbs rest) as [ts|] eqn:E2; [|discriminate].
      cbn in He. injection He as <-. cbn [run_tree run_item].
      destruct (active pats r).
      * destruct (step_other wbs r st); [apply IH; reflexivity|reflexivity].
      * apply IH; reflexivity.
Qed.

Theorem process_expand fuel pats wbs rows t st :
  expand fuel pats wbs rows = Some t ->
  process fuel pats wbs rows st = run_tree pats wbs t st.
Proof.
  revert rows t st. induction fuel as [|f IH]; intros rows t st He.
  - rewrite process_unfold. rewrite expand_unfold in He.
    apply (process_with_expand_with _ (erec_of 0 pats wbs)); [|exact He]. intros sub t0 st0 H. discriminate.
  - rewrite process_unfold. rewrite expand_unfold in He.
    apply (process_with_expand_with _ (erec_of (S f) pats wbs)); [|exact He]. intros sub t0 st0 H. apply IH, H.
Qed.

(* more fuel never changes the tree *)
Lemma expand_with_mono rec1 rec2 pats wbs :
  (forall sub t, rec1 sub = Some t -> rec2 sub = Some t) ->
  forall rows t, expand_with rec1 pats wbs rows = Some t -> expand_with rec2 pats wbs rows = Some t.
Proof.
  intros Hrec. induction rows as [|r rest IH]; intros t He; [exact He|].
  rewrite expand_with_cons in *. destruct (nestable pats wbs r) as [sub|].
  - destruct (rec1 sub) as [t1|] eqn:E1; [|discriminate].
    destruct (expand_with rec1 pats wbs rest) as [ts|] eqn:E2; [|discriminate].
    rewrite (Hrec _ _ E1), (IH _ eq_refl). exact He.
  - destruct (expand_with rec1 pats wbs rest) as [ts|] eqn:E2; [|discriminate].
    rewrite (IH _ eq_refl). exact He.
Qed.

Lemma expand_S fuel pats wbs rows t :
  expand fuel pats wbs rows = Some t -> expand (S fuel) pats wbs rows = Some t.
Proof.
  revert rows t. induction fuel as [|f IH]; intros rows t He.
  - rewrite expand_unfold in *. revert He. apply expand_with_mono. intros sub t0 H. discriminate.
  - rewrite (expand_unfold (S (S f))). rewrite (expand_unfold (S f)) in He. revert He.
    apply expand_with_mono. intros sub t0 H. apply IH, H.
Qed.

Lemma expand_le fuel fuel' pats wbs rows t :
  fuel <= fuel' -> expand fuel pats wbs rows = Some t -> expand fuel' pats wbs rows = Some t.
Proof. intros Hle He. induction Hle as [|m Hle IH]; [exact He|apply expand_S, IH]. Qed.

(* the fuel a table needs is the nesting depth of its tree: never less ... *)
Lemma expand_with_depth rec pats wbs n :
  (forall sub t, rec sub = Some t -> S (depth t) <= n) ->
  forall rows t, expand_with rec pats wbs rows = Some t -> depth t <= n.
Proof.
  intros Hrec. induction rows as [|r rest IH]; intros t He.
  - injection He as <-. cbn. lia.
  - rewrite expand_with_cons in He. destruct (nestable pats wbs r) as [sub|].
    + destruct (rec sub) as [t1|] eqn:E1; [|discriminate].
      destruct (expand_with rec pats wbs rest) as [ts|] eqn:E2; [|discriminate].
      injection He as <-. cbn [depth]. rewrite depth_item_nest.
      specialize (Hrec _ _ E1). specialize (IH _ eq_refl). lia.
    + destruct (expand_with rec pats wbs rest) as [ts|] eqn:E2; [|discriminate].
      cbn in He. injection He as <-. cbn [depth depth_item]. specialize (IH _ eq_refl). lia.
Qed.

Lemma expand_depth fuel pats wbs rows t :
  expand fuel pats wbs rows = Some t -> depth t <= fuel.
Proof.
  revert rows t. induction fuel as [|f IH]; intros rows t He; rewrite expand_unfold in He.
  - apply (expand_with_depth _ _ _ 0) in He; [exact He|]. intros sub t0 H. discriminate.
  - apply (expand_with_depth _ _ _ (S f)) in He; [exact He|]. intros sub t0 H. apply IH in H. lia.
Qed.

(* ... and never more *)
Lemma expand_with_transfer rec1 rec2 pats wbs (P : list item -> Prop) :
  (forall sub t, rec1 sub = Some t -> P t -> rec2 sub = Some t) ->
  forall rows t, expand_with rec1 pats wbs rows = Some t ->
                 (forall r t', In (INest r t') t -> P t') ->
                 expand_with rec2 pats wbs rows = Some t.
Proof.
  intros Hrec. induction rows as [|r rest IH]; intros t He HP; [exact He|].
  rewrite expand_with_cons in *. destruct (nestable pats wbs r) as [sub|].
  - destruct (rec1 sub) as [t1|] eqn:E1; [|discriminate].
    destruct (expand_with rec1 pats wbs rest) as [ts|] eqn:E2; [|discriminate].
    injection He as <-. rewrite (Hrec _ _ E1) by (apply (HP r); left; reflexivity).
    rewrite (IH _ eq_refl); [reflexivity|]. intros r' t' Hin. apply (HP r'). right. exact Hin.
  - destruct (expand_with rec1 pats wbs rest) as [ts|] eqn:E2; [|discriminate].
    cbn in He. injection He as <-. rewrite (IH _ eq_refl); [reflexivity|].
    intros r' t' Hin. apply (HP r'). right. exact Hin.
Qed.

Lemma depth_in_nest r t' t : In (INest r t') t -> S (depth t') <= depth t.
Proof.
  induction t as [|x l IH]; [intros []|]. intros [H|H]; cbn [depth].
  - subst x. rewrite depth_item_nest. lia.
  - specialize (IH H). lia.
Qed.

Lemma expand_depth_enough fuel fuel' pats wbs rows t :
  expand fuel pats wbs rows = Some t -> depth t <= fuel' -> expand fuel' pats wbs rows = Some t.
Proof.
  revert fuel rows t. induction fuel' as [|f' IH]; intros fuel rows t He Hd.
  - rewrite expand_unfold in *.
    apply (expand_with_transfer (erec_of fuel pats wbs) (erec_of 0 pats wbs) pats wbs (fun _ => False)) with (t := t); [|exact He|].
    + intros sub t0 _ [].
    + intros r t' Hin. apply depth_in_nest in Hin. lia.
  - rewrite expand_unfold in He. rewrite expand_unfold.
    apply (expand_with_transfer (erec_of fuel pats wbs) (erec_of (S f') pats wbs) pats wbs (fun t' => depth t' <= f')) with (t := t); [|exact He|].
    + intros sub t0 H Hd0. destruct fuel as [|f]; [discriminate|]. cbn [erec_of] in *. apply (IH f); assumption.
    + intros r t' Hin. apply depth_in_nest in Hin. lia.
Qed.

(* the fuel bound, explicitly: a table unfolds with fuel [f] iff it unfolds at all and
   [f] is at least the nesting depth of its tree *)
Theorem fuel_bound fuel pats wbs rows t :
  expand fuel pats wbs rows = Some t <->
  (exists f0, expand f0 pats wbs rows = Some t) /\ depth t <= fuel.
Proof.
  split.
  - intros H. split; [exists fuel; exact H|apply (expand_depth _ _ _ _ _ H)].
  - intros [[f0 H] Hd]. apply (expand_depth_enough f0); assumption.
Qed.

Lemma expand_with_app rec pats wbs a b :
  expand_with rec pats wbs (a ++ b) =
  match expand_with rec pats wbs a, expand_with rec pats wbs b with
  | Some ta, Some tb => Some (ta ++ tb)
  | _, _ => None
  end.
Proof.
  induction a as [|r a IH].
  - cbn [app]. rewrite expand_with_nil. destruct (expand_with rec pats wbs b); reflexivity.
  - cbn [app]. rewrite !expand_with_cons, IH. destruct (nestable pats wbs r) as [sub|].
    + destruct (rec sub) as [t1|]; [|reflexivity].
      destruct (expand_with rec pats wbs a) as [ta|]; [|reflexivity].
      destruct (expand_with rec pats wbs b) as [tb|]; reflexivity.
    + destruct (expand_with rec pats wbs a) as [ta|]; [|reflexivity].
      destruct (expand_with rec pats wbs b) as [tb|]; reflexivity.
Qed.

(* an active content_index row whose sheet resolves to an index table is exactly the rows
   of that table written in its place — state (or error) equal, provided the fuel covers
   the nesting depth ([expand fuel ... = Some t], i.e. [depth t <= fuel] by [fuel_bound]) *)
Theorem nested_in_place fuel pats wbs pre r sub post t st :
  nestable pats wbs r = Some sub ->
  expand fuel pats wbs (pre ++ r :: post) = Some t ->
  process fuel pats wbs (pre ++ r :: post) st = process fuel pats wbs (pre ++ sub ++ post) st.
Proof.
  intros Hn He. rewrite expand_unfold, expand_with_app, expand_with_cons, Hn in He.
  destruct (expand_with (erec_of fuel pats wbs) pats wbs pre) as [tpre|]; [|discriminate].
  destruct (erec_of fuel pats wbs sub) as [t1|] eqn:E1; [|discriminate].
  destruct fuel as [|f]; [discriminate|]. cbn [erec_of] in E1.
  rewrite process_unfold, !process_with_app. cbn [rec_of].
  destruct (process_with (process f pats wbs) pats wbs pre st) as [st1|e]; [|reflexivity].
  rewrite process_with_cons, process_with_app. unfold step_row. rewrite (nestable_active _ _ _ _ Hn), Hn.
  rewrite (process_expand _ _ _ _ _ st1 E1).
  change (process_with (process f pats wbs) pats wbs sub st1) with (process (S f) pats wbs sub st1).
  rewrite (process_expand _ _ _ _ _ st1 (expand_S _ _ _ _ _ E1)). reflexivity.
Qed.

(* ... and the histories are the same *)
Theorem nested_in_place_history fuel pats wbs pre r sub post t :
  nestable pats wbs r = Some sub ->
  expand fuel pats wbs (pre ++ r :: post) = Some t ->
  exists t', expand fuel pats wbs (pre ++ sub ++ post) = Some t' /\ flatten pats t' = flatten pats t.
Proof.
  intros Hn He. rewrite expand_unfold, expand_with_app, expand_with_cons, Hn in He.
  destruct (expand_with (erec_of fuel pats wbs) pats wbs pre) as [tpre|] eqn:Epre; [|discriminate].
  destruct (erec_of fuel pats wbs sub) as [t1|] eqn:E1; [|discriminate].
  destruct (expand_with (erec_of fuel pats wbs) pats wbs post) as [tpost|] eqn:Epost; [|discriminate].
  injection He as <-.
  destruct fuel as [|f]; [discriminate|]. cbn [erec_of] in E1.
  apply expand_S in E1. rewrite expand_unfold in E1.
  exists (tpre ++ t1 ++ tpost). split.
  - rewrite expand_unfold, !expand_with_app, Epre, E1, Epost. reflexivity.
  - rewrite !flatten_app. cbn [flatten]. rewrite flatten_item_nest, (nestable_active _ _ _ _ Hn). reflexivity.
Qed.

(* a run that ends well never ran out of fuel: its rows unfold to a tree *)
Lemma process_with_ok_expand rec_p rec_e pats wbs :
  (forall sub st st', rec_p sub st = Ok st' -> exists t, rec_e sub = Some t) ->
  forall rows st st', process_with rec_p pats wbs rows st = Ok st' ->
                      exists t, expand_with rec_e pats wbs rows = Some t.
Proof.
  intros Hrec. induction rows as [|r rest IH]; intros st st' Hp.
  - exists []. reflexivity.
  - rewrite process_with_cons in Hp. rewrite expand_with_cons. unfold step_row in Hp.
    destruct (nestable pats wbs r) as [sub|] eqn:En.
    + rewrite (nestable_active _ _ _ _ En) in Hp.
      destruct (rec_p sub st) as [st1|e] eqn:E1; [|discriminate].
      destruct (Hrec _ _ _ E1) as [t1 ->]. destruct (IH _ _ Hp) as [ts ->]. eexists. reflexivity.
    + assert (Hrest : exists st1, process_with rec_p pats wbs rest st1 = Ok st').
      { destruct (active pats r); [|exists st; exact Hp].
        destruct (step_other wbs r st) as [st1|e]; [exists st1; exact Hp|discriminate]. }
      destruct Hrest as [st1 H1]. destruct (IH _ _ H1) as [ts ->]. eexists. reflexivity.
Qed.

Lemma process_ok_expand fuel pats wbs rows st st' :
  process fuel pats wbs rows st = Ok st' -> exists t, expand fuel pats wbs rows = Some t.
Proof.
  revert rows st st'. induction fuel as [|f IH]; intros rows st st' Hp;
    rewrite process_unfold in Hp; rewrite expand_unfold.
  - apply (process_with_ok_expand _ (erec_of 0 pats wbs)) in Hp; [exact Hp|]. intros sub s s' H. discriminate.
  - apply (process_with_ok_expand _ (erec_of (S f) pats wbs)) in Hp; [exact Hp|]. intros sub s s' H. apply (IH _ _ _ H).
Qed.

(* the fold over an index table is the plain fold over its history *)
Theorem process_history fuel pats wbs rows t st :
  expand fuel pats wbs rows = Some t ->
  process fuel pats wbs rows st = run_rows wbs (flatten pats t) st.
Proof. intros He. rewrite (process_expand _ _ _ _ _ st He). apply run_tree_flatten. Qed.

(* all root index sheets, in candidate (= reader = input) order, on one state *)
Theorem process_indices_history fuel pats wbs idxs h st :
  histories fuel pats wbs idxs = Some h ->
  process_indices fuel pats wbs idxs st = run_rows wbs h st.
Proof.
  revert h st. induction idxs as [|[id b] rest IH]; intros h st Hh.
  - injection Hh as <-. reflexivity.
  - cbn [histories] in Hh. destruct b as [rows| | | |]; try discriminate.
    destruct (expand fuel pats wbs rows) as [t|] eqn:Et; [|discriminate].
    destruct (histories fuel pats wbs rest) as [h'|] eqn:Eh; [|discriminate].
    injection Hh as <-. cbn [process_indices]. rewrite (process_history _ _ _ _ _ st Et), run_rows_app.
    destruct (run_rows wbs (flatten pats t) st); [apply IH; reflexivity|reflexivity].
Qed.

Lemma process_indices_ok_history fuel pats wbs idxs st st' :
  process_indices fuel pats wbs idxs st = Ok st' -> exists h, histories fuel pats wbs idxs = Some h.
Proof.
  revert st. induction idxs as [|[id b] rest IH]; intros st Hp.
  - exists []. reflexivity.
  - cbn [process_indices] in Hp. destruct b as [rows| | | |]; try discriminate.
    destruct (process fuel pats wbs rows st) as [st1|e] eqn:E1; [|discriminate].
    destruct (process_ok_expand _ _ _ _ _ _ E1) as [t Ht]. destruct (IH _ Hp) as [h' Hh'].
    cbn [histories]. rewrite Ht, Hh'. eexists. reflexivity.
Qed.

Theorem load_history fuel pats wbs st :
  load fuel pats wbs = Ok st ->
  exists h st1, candidates wbs ci_root_sheet <> [] /\
                history fuel pats wbs = Some h /\
                run_rows wbs h st0 = Ok st1 /\
                populate wbs (st_flows st1) st1 = Ok st.
Proof.
  unfold load, history. intros Hl. destruct (candidates wbs ci_root_sheet) as [|c cs] eqn:Ec; [discriminate|].
  destruct (process_indices fuel pats wbs (c :: cs) st0) as [st1|e] eqn:Ep; [|discriminate].
  destruct (process_indices_ok_history _ _ _ _ _ _ Ep) as [h Hh].
  exists h, st1. split; [discriminate|]. split; [exact Hh|]. split; [|exact Hl].
  rewrite <- (process_indices_history _ _ _ _ _ st0 Hh). exact Ep.
Qed.
