(* Facts about the content-index fold (E5 / C10). *)
From Coq Require Import List NArith ZArith Bool Lia.
From RPFT Require Import Base.Sexp Base.PyStr Base.Result Base.ODict Gen.Tables Index.TagMatch Index.Index.
Import ListNotations.

Lemma ignore_never_template : forall n st, st_templates (ignore_row n st) = st_templates st.
Proof. reflexivity. Qed.
