(* Facts about map_template_arguments_to_context (Args.v): a complete characterisation of
   when it succeeds and what it returns, and the named corollaries of C12. *)
From Coq Require Import List NArith Bool Lia PeanoNat Arith.
From RPFT Require Import Base.Sexp Base.PyStr Base.ODict Base.Result Gen.Tables Cell.Cell Index.Args.
Import ListNotations.

Lemma str_eqb_iff : forall a b : str, str_eqb a b = true <-> a = b.
Proof.
  induction a as [|x a IH]; destruct b as [|y b]; cbn; split; intros H;
    try reflexivity; try discriminate.
  - apply andb_true_iff in H. destruct H as [H1 H2]. apply N.eqb_eq in H1.
    apply IH in H2. subst. reflexivity.
  - inversion H; subst. apply andb_true_iff. split; [apply N.eqb_refl|apply IH; reflexivity].
Qed.

Lemma str_eqb_refl : forall a, str_eqb a a = true.
Proof. intros a. apply str_eqb_iff. reflexivity. Qed.

Lemma str_eqb_neq : forall a b : str, a <> b -> str_eqb a b = false.
Proof.
  intros a b H. destruct (str_eqb a b) eqn:E; [apply str_eqb_iff in E; contradiction|reflexivity].
Qed.

Section ArgsFacts.
Context {D : Type}.
Notation cval := (cval D).
Notation ctx := (ctx D).
Notation dsheet := (dsheet D).

(* ---- association lists: a new key is appended ---- *)
Lemma oset_new : forall (c : ctx) k v, oget str_eqb c k = None -> oset str_eqb c k v = c ++ [(k, v)].
Proof.
  induction c as [|[k' v'] r IH]; intros k v H; cbn in *; [reflexivity|].
  destruct (str_eqb k' k); [discriminate|]. rewrite IH by exact H. reflexivity.
Qed.

Lemma oget_app : forall (c l : ctx) k,
  oget str_eqb (c ++ l) k = match oget str_eqb c k with Some v => Some v | None => oget str_eqb l k end.
Proof.
  induction c as [|[k' v'] r IH]; intros l k; cbn; [reflexivity|].
  destruct (str_eqb k' k); [reflexivity|apply IH].
Qed.

Lemma ocontains_false : forall (c : ctx) k, ocontains str_eqb c k = false <-> oget str_eqb c k = None.
Proof. intros c k. unfold ocontains. destruct (oget str_eqb c k); split; congruence. Qed.

(* ---- what one declaration/argument pair binds, declaratively ---- *)
Definition bound (sheets : list (str * dsheet)) (d : argdef) (a : nv) : option cval :=
  let v := arg_value d a in
  if is_blank v then None
  else if str_eqb (ad_type d) sheet_type_kw then
    match v with
    | Str s => match oget str_eqb sheets s with Some rows => Some (VRows rows) | None => None end
    | Lst _ => None
    end
  else Some (VArg v).

Fixpoint bound_all (sheets : list (str * dsheet)) (das : list (argdef * nv)) : option ctx :=
  match das with
  | [] => Some []
  | (d, a) :: r => match bound sheets d a, bound_all sheets r with
                   | Some v, Some l => Some ((ad_name d, v) :: l)
                   | _, _ => None
                   end
  end.

Lemma bind_one_ok : forall sheets (c c' : ctx) d a,
  bind_one sheets c d a = Ok c' <->
  oget str_eqb c (ad_name d) = None /\ exists v, bound sheets d a = Some v /\ c' = c ++ [(ad_name d, v)].
Proof.
  intros sheets c c' d a. unfold bind_one, bound.
  destruct (ocontains str_eqb c (ad_name d)) eqn:Hc.
  - split; [discriminate|]. intros [H _]. apply ocontains_false in H. congruence.
  - apply ocontains_false in Hc.
    destruct (is_blank (arg_value d a)).
    { split; [discriminate|]. intros [_ [v [H _]]]. discriminate. }
    destruct (str_eqb (ad_type d) sheet_type_kw).
    + destruct (arg_value d a) as [s|l].
      * destruct (oget str_eqb sheets s) as [rows|].
        -- rewrite oset_new by exact Hc. split.
           ++ intros H. inversion H; subst. split; [exact Hc|]. eexists. split; reflexivity.
           ++ intros [_ [v [H1 H2]]]. inversion H1; subst. reflexivity.
        -- split; [discriminate|]. intros [_ [v [H _]]]. discriminate.
      * split; [discriminate|]. intros [_ [v [H _]]]. discriminate.
    + rewrite oset_new by exact Hc. split.
      * intros H. inversion H; subst. split; [exact Hc|]. eexists. split; reflexivity.
      * intros [_ [v [H1 H2]]]. inversion H1; subst. reflexivity.
Qed.

Definition names (das : list (argdef * nv)) : list str := map (fun da => ad_name (fst da)) das.

(* the complete characterisation of the loop *)
Lemma bind_all_ok : forall sheets das (c c' : ctx),
  bind_all sheets das c = Ok c' <->
  NoDup (names das) /\ (forall n, In n (names das) -> oget str_eqb c n = None)
  /\ exists l, bound_all sheets das = Some l /\ c' = c ++ l.
Proof.
  intros sheets das. induction das as [|[d a] r IH]; intros c c'; cbn [bind_all bound_all names map fst].
  - split.
    + intros H. inversion H; subst. split; [constructor|]. split; [intros n []|].
      exists []. rewrite app_nil_r. split; reflexivity.
    + intros [_ [_ [l [H1 H2]]]]. inversion H1; subst. rewrite app_nil_r. reflexivity.
  - destruct (bind_one sheets c d a) as [c1|e] eqn:Hb.
    + apply bind_one_ok in Hb. destruct Hb as [Hc [v [Hv Hc1]]]. subst c1.
      rewrite IH. rewrite Hv. fold (names r). split.
      * intros [Hnd [Hdis [l [Hl Hc']]]]. split; [|split].
        -- constructor; [|exact Hnd]. intros Hin. specialize (Hdis _ Hin).
           rewrite oget_app, Hc in Hdis. cbn in Hdis. rewrite str_eqb_refl in Hdis. discriminate.
        -- intros n [Hn|Hn]; [subst; exact Hc|]. specialize (Hdis _ Hn).
           rewrite oget_app in Hdis. destruct (oget str_eqb c n); [discriminate|reflexivity].
        -- rewrite Hl. eexists. split; [reflexivity|]. rewrite Hc', <- app_assoc. reflexivity.
      * intros [Hnd [Hdis [l [Hl Hc']]]]. inversion Hnd as [|x xs Hnotin Hnd']; subst.
        destruct (bound_all sheets r) as [l'|]; [|discriminate]. inversion Hl; subst.
        split; [exact Hnd'|]. split.
        -- intros n Hn. rewrite oget_app. rewrite (Hdis n (or_intror Hn)). cbn.
           rewrite str_eqb_neq; [reflexivity|]. intros Heq. subst. contradiction.
        -- exists l'. split; [reflexivity|]. rewrite <- app_assoc. reflexivity.
    + split; [discriminate|]. intros [Hnd [Hdis [l [Hl Hc']]]]. exfalso.
      assert (Hno : forall c1, bind_one sheets c d a <> Ok c1) by (intros c1; rewrite Hb; discriminate).
      destruct (bound sheets d a) as [v|] eqn:Hv; [|discriminate].
      apply (Hno (c ++ [(ad_name d, v)])). apply bind_one_ok. split.
      * apply Hdis. left. reflexivity.
      * exists v. split; [exact Hv|reflexivity].
Qed.

(* ---- fit_args: exactly one argument per declaration, positional ---- *)
Lemma fit_args_length : forall n (args : list nv), length (fit_args n args) = n.
Proof.
  intros n args. unfold fit_args. rewrite app_length, repeat_length, firstn_length. lia.
Qed.

Lemma fit_args_nth : forall n (args : list nv) i, (i < n)%nat ->
  nth i (fit_args n args) (Str []) = nth i args (Str []).
Proof.
  intros n args i Hi. unfold fit_args.
  destruct (Nat.lt_ge_cases i (length (firstn n args))) as [Hlt|Hge].
  - rewrite app_nth1 by exact Hlt. rewrite firstn_length in Hlt.
    rewrite <- (firstn_skipn n args) at 2. rewrite app_nth1; [reflexivity|].
    rewrite firstn_length. exact Hlt.
  - rewrite app_nth2 by exact Hge.
    assert (Hr : forall k m, nth k (repeat (Str []) m) (Str []) = Str []).
    { intros k m. revert k. induction m as [|m IHm]; intros [|k]; cbn; auto. }
    rewrite Hr. rewrite firstn_length in Hge.
    symmetry. apply nth_overflow. lia.
Qed.

Lemma fit_args_extra : forall n (args extra : list nv), (n <= length args)%nat ->
  fit_args n (args ++ extra) = fit_args n args.
Proof.
  intros n args extra H. unfold fit_args. rewrite firstn_app.
  replace (n - length args)%nat with 0%nat by lia. cbn. rewrite app_nil_r. reflexivity.
Qed.

Definition pairs (defs : list argdef) (args : list nv) : list (argdef * nv) :=
  combine defs (fit_args (length defs) args).

Lemma pairs_names : forall defs args, names (pairs defs args) = map ad_name defs.
Proof.
  intros defs args. unfold pairs, names.
  rewrite <- (map_map fst ad_name). f_equal.
  assert (H := fit_args_length (length defs) args).
  revert H. generalize (fit_args (length defs) args) as l.
  induction defs as [|d r IH]; intros [|x l] H; cbn in *; try reflexivity; try discriminate.
  f_equal. apply IH. lia.
Qed.

Lemma combine_nth_error : forall (A B : Type) (l : list A) (l' : list B) i a dflt,
  length l = length l' -> nth_error l i = Some a ->
  nth_error (combine l l') i = Some (a, nth i l' dflt).
Proof.
  intros A B l. induction l as [|x l IH]; intros l' i a dflt Hl H.
  - destruct i; discriminate.
  - destruct l' as [|y l']; [discriminate|]. destruct i as [|i]; cbn in *.
    + inversion H; subst. reflexivity.
    + apply IH; [lia|exact H].
Qed.

Lemma pairs_nth : forall defs args i d,
  nth_error defs i = Some d -> nth_error (pairs defs args) i = Some (d, nth i args (Str [])).
Proof.
  intros defs args i d H. unfold pairs.
  assert (Hi : (i < length defs)%nat) by (apply nth_error_Some; congruence).
  rewrite <- (fit_args_nth (length defs) args i Hi).
  apply combine_nth_error; [|exact H]. rewrite fit_args_length. reflexivity.
Qed.

Lemma bound_all_nth : forall sheets das l i d a,
  bound_all sheets das = Some l -> nth_error das i = Some (d, a) ->
  exists v, bound sheets d a = Some v /\ nth_error l i = Some (ad_name d, v).
Proof.
  intros sheets das. induction das as [|[d0 a0] r IH]; intros l i d a Hl Hn.
  - destruct i; discriminate.
  - cbn in Hl. destruct (bound sheets d0 a0) as [v0|] eqn:Hv0; [|discriminate].
    destruct (bound_all sheets r) as [l0|] eqn:Hl0; [|discriminate]. inversion Hl; subst.
    destruct i as [|i]; cbn in *.
    + inversion Hn; subst. exists v0. split; [exact Hv0|reflexivity].
    + apply (IH l0 i d a eq_refl Hn).
Qed.

Lemma bound_all_keys : forall sheets das l, bound_all sheets das = Some l -> okeys l = names das.
Proof.
  intros sheets das. induction das as [|[d0 a0] r IH]; intros l Hl; cbn in *.
  - inversion Hl; reflexivity.
  - destruct (bound sheets d0 a0); [|discriminate]. destruct (bound_all sheets r) as [l0|]; [|discriminate].
    inversion Hl; subst. cbn. f_equal. apply IH. reflexivity.
Qed.

Lemma oget_nodup_nth : forall (l : ctx) i k v,
  NoDup (okeys l) -> nth_error l i = Some (k, v) -> oget str_eqb l k = Some v.
Proof.
  induction l as [|[k0 v0] r IH]; intros i k v Hnd Hn.
  - destruct i; discriminate.
  - cbn in Hnd. inversion Hnd as [|x xs Hnotin Hnd']; subst. destruct i as [|i]; cbn in *.
    + inversion Hn; subst. rewrite str_eqb_refl. reflexivity.
    + rewrite str_eqb_neq; [apply (IH i); assumption|].
      intros Heq. subst. apply Hnotin. apply nth_error_In in Hn.
      apply (in_map fst) in Hn. exact Hn.
Qed.

(* ================= the statements of C12, second sentence ================= *)

(* complete characterisation: success iff the declared names are pairwise distinct, none is
   already in the context (a field of the data row), and every declaration gets a value;
   the result is the old context followed by the declared names IN DECLARATION ORDER, the
   i-th bound to what the i-th argument (blank when absent) determines *)
Theorem mtac_ok_iff : forall sheets defs args (c c' : ctx),
  map_template_arguments_to_context sheets defs args c = Ok c' <->
  NoDup (map ad_name defs) /\ (forall n, In n (map ad_name defs) -> oget str_eqb c n = None)
  /\ exists l, bound_all sheets (pairs defs args) = Some l /\ c' = c ++ l.
Proof.
  intros. unfold map_template_arguments_to_context. fold (pairs defs args).
  rewrite bind_all_ok, pairs_names. reflexivity.
Qed.

Theorem args_positional : forall sheets defs args (c c' : ctx) i d,
  map_template_arguments_to_context sheets defs args c = Ok c' ->
  nth_error defs i = Some d ->
  exists v, bound sheets d (nth i args (Str [])) = Some v
            /\ oget str_eqb c' (ad_name d) = Some v
            /\ nth_error c' (length c + i) = Some (ad_name d, v).
Proof.
  intros sheets defs args c c' i d H Hn. apply mtac_ok_iff in H.
  destruct H as [Hnd [Hdis [l [Hl Hc']]]].
  destruct (bound_all_nth _ _ _ _ _ _ Hl (pairs_nth defs args i d Hn)) as [v [Hv Hnth]].
  exists v. split; [exact Hv|]. subst c'. split.
  - rewrite oget_app. rewrite Hdis.
    + apply (oget_nodup_nth l i); [|exact Hnth].
      rewrite (bound_all_keys _ _ _ Hl), pairs_names. exact Hnd.
    + apply in_map. apply nth_error_In in Hn. exact Hn.
  - rewrite nth_error_app2 by lia. replace (length c + i - length c)%nat with i by lia. exact Hnth.
Qed.

Theorem context_kept : forall sheets defs args (c c' : ctx),
  map_template_arguments_to_context sheets defs args c = Ok c' ->
  okeys c' = okeys c ++ map ad_name defs
  /\ forall k, ~ In k (map ad_name defs) -> oget str_eqb c' k = oget str_eqb c k.
Proof.
  intros sheets defs args c c' H. apply mtac_ok_iff in H.
  destruct H as [Hnd [Hdis [l [Hl Hc']]]]. subst c'. split.
  - unfold okeys. rewrite map_app. f_equal. fold (okeys l).
    rewrite (bound_all_keys _ _ _ Hl), pairs_names. reflexivity.
  - intros k Hk. rewrite oget_app. destruct (oget str_eqb c k); [reflexivity|].
    apply (oget_none_notin str_eqb str_eqb_iff). rewrite (bound_all_keys _ _ _ Hl), pairs_names. exact Hk.
Qed.

Theorem blank_takes_default : forall sheets defs args (c c' : ctx) i d,
  map_template_arguments_to_context sheets defs args c = Ok c' ->
  nth_error defs i = Some d -> nth i args (Str []) = Str [] ->
  str_eqb (ad_type d) sheet_type_kw = false ->
  oget str_eqb c' (ad_name d) = Some (VArg (Str (ad_default d))) /\ ad_default d <> [].
Proof.
  intros sheets defs args c c' i d H Hn Hb Ht.
  destruct (args_positional _ _ _ _ _ _ _ H Hn) as [v [Hv [Hg _]]].
  rewrite Hb in Hv. unfold bound, arg_value in Hv. cbn [is_blank] in Hv.
  destruct (ad_default d) as [|x s] eqn:Hd; cbn in Hv; [discriminate|].
  rewrite Ht in Hv. inversion Hv; subst. split; [exact Hg|discriminate].
Qed.

Theorem given_argument_wins : forall sheets defs args (c c' : ctx) i d,
  map_template_arguments_to_context sheets defs args c = Ok c' ->
  nth_error defs i = Some d -> is_blank (nth i args (Str [])) = false ->
  str_eqb (ad_type d) sheet_type_kw = false ->
  oget str_eqb c' (ad_name d) = Some (VArg (nth i args (Str []))).
Proof.
  intros sheets defs args c c' i d H Hn Hb Ht.
  destruct (args_positional _ _ _ _ _ _ _ H Hn) as [v [Hv [Hg _]]].
  unfold bound, arg_value in Hv. rewrite Hb in Hv. rewrite Hb, Ht in Hv.
  inversion Hv; subst. exact Hg.
Qed.

Theorem sheet_arg_binds_rows : forall sheets defs args (c c' : ctx) i d,
  map_template_arguments_to_context sheets defs args c = Ok c' ->
  nth_error defs i = Some d -> str_eqb (ad_type d) sheet_type_kw = true ->
  exists s rows, arg_value d (nth i args (Str [])) = Str s /\ s <> []
                 /\ oget str_eqb sheets s = Some rows
                 /\ oget str_eqb c' (ad_name d) = Some (VRows rows).
Proof.
  intros sheets defs args c c' i d H Hn Ht.
  destruct (args_positional _ _ _ _ _ _ _ H Hn) as [v [Hv [Hg _]]].
  unfold bound in Hv. destruct (is_blank (arg_value d (nth i args (Str [])))) eqn:Hbl; [discriminate|].
  rewrite Ht in Hv. destruct (arg_value d (nth i args (Str []))) as [s|l]; [|discriminate].
  destruct (oget str_eqb sheets s) as [rows|] eqn:Hs; [|discriminate]. inversion Hv; subst.
  exists s, rows. repeat split; try assumption; try reflexivity.
  intros He. subst. discriminate.
Qed.

Theorem missing_required_is_error : forall sheets defs args (c : ctx) i d,
  nth_error defs i = Some d -> nth i args (Str []) = Str [] -> ad_default d = [] ->
  exists e, map_template_arguments_to_context sheets defs args c = Err e.
Proof.
  intros sheets defs args c i d Hn Hb Hd.
  destruct (map_template_arguments_to_context sheets defs args c) as [c'|e] eqn:H; [|eexists; reflexivity].
  exfalso. destruct (args_positional _ _ _ _ _ _ _ H Hn) as [v [Hv _]].
  rewrite Hb in Hv. unfold bound, arg_value in Hv. cbn [is_blank] in Hv. rewrite Hd in Hv. discriminate.
Qed.

Theorem doubly_defined_is_error : forall sheets defs args (c : ctx) d,
  In d defs -> ocontains str_eqb c (ad_name d) = true ->
  exists e, map_template_arguments_to_context sheets defs args c = Err e.
Proof.
  intros sheets defs args c d Hin Hc.
  destruct (map_template_arguments_to_context sheets defs args c) as [c'|e] eqn:H; [|eexists; reflexivity].
  exfalso. apply mtac_ok_iff in H. destruct H as [_ [Hdis _]].
  specialize (Hdis (ad_name d) (in_map ad_name _ _ Hin)).
  apply ocontains_false in Hdis. congruence.
Qed.

Theorem duplicate_declaration_is_error : forall sheets defs args (c : ctx),
  ~ NoDup (map ad_name defs) ->
  exists e, map_template_arguments_to_context sheets defs args c = Err e.
Proof.
  intros sheets defs args c Hn.
  destruct (map_template_arguments_to_context sheets defs args c) as [c'|e] eqn:H; [|eexists; reflexivity].
  exfalso. apply mtac_ok_iff in H. destruct H as [Hnd _]. contradiction.
Qed.

Theorem unknown_sheet_is_error : forall sheets defs args (c : ctx) i d s,
  nth_error defs i = Some d -> str_eqb (ad_type d) sheet_type_kw = true ->
  arg_value d (nth i args (Str [])) = Str s -> oget str_eqb sheets s = None ->
  exists e, map_template_arguments_to_context sheets defs args c = Err e.
Proof.
  intros sheets defs args c i d s Hn Ht Hv Hs.
  destruct (map_template_arguments_to_context sheets defs args c) as [c'|e] eqn:H; [|eexists; reflexivity].
  exfalso. destruct (sheet_arg_binds_rows _ _ _ _ _ _ _ H Hn Ht) as [s' [rows [Hv' [_ [Hs' _]]]]].
  rewrite Hv in Hv'. inversion Hv'; subst. congruence.
Qed.

(* arguments beyond the declared ones are dropped (with a warning when non-empty), not an error *)
Theorem extra_args_ignored : forall sheets defs args extra (c : ctx),
  (length defs <= length args)%nat ->
  map_template_arguments_to_context sheets defs (args ++ extra) c
  = map_template_arguments_to_context sheets defs args c.
Proof.
  intros. unfold map_template_arguments_to_context. rewrite fit_args_extra by assumption. reflexivity.
Qed.

End ArgsFacts.
