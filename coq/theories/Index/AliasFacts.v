(* Isolation of template instances that change their values in place (Index/Alias.v).

   Main result ([run_all_isolated]): under a policy that gives every instance objects of its own
   (the context copied per instance, a literal cell parsed into new lists every time) the instances
   of a run yield, one by one, what each of them yields ALONE in an empty process — whatever the
   operations are, whatever state the process is in.  The proof is a relocation argument: an
   instance only ever holds references to objects it allocated itself, i.e. to addresses beyond the
   heap it started on; running it on [pre ++ own] is running it on [own] with every address moved
   by [length pre].

   The examples at the end run the same instances under the two policies that share objects (the
   registry's objects handed out uncopied; the lists of a literal cell kept by cell text): the second
   instance sees what the first one left behind.  Neither switch of the policy can be dropped. *)
From Coq Require Import List NArith Bool Lia.
From RPFT Require Import Base.Sexp Base.PyStr Base.Result Gen.Tables Cell.Cell Index.Alias.
Import ListNotations.

(* ---- induction on nested values ---- *)
Section NvInd.
Variable P : nv -> Prop.
Hypothesis P_str : forall s, P (Str s).
Hypothesis P_lst : forall l, Forall P l -> P (Lst l).
Fixpoint nv_induction (v : nv) : P v :=
  match v with
  | Str s => P_str s
  | Lst l => P_lst l ((fix go (l : list nv) : Forall P l :=
                         match l with
                         | [] => Forall_nil _
                         | y :: r => Forall_cons y (nv_induction y) (go r)
                         end) l)
  end.
End NvInd.

(* ---- moving addresses ---- *)
Definition shift (k : nat) (x : hv) : hv := match x with HS s => HS s | HR a => HR (k + a) end.
Definition shiftL (k : nat) (l : list hv) : list hv := map (shift k) l.
Definition shiftH (k : nat) (h : heap) : heap := map (shiftL k) h.
Definition shiftE (k : nat) (e : env) : env := map (fun kv => (fst kv, shift k (snd kv))) e.
(* the heap [h] of an instance, sitting behind the objects [pre] that were there before *)
Definition reloc (pre h : heap) : heap := pre ++ shiftH (length pre) h.

Lemma reloc_nil pre : reloc pre [] = pre.
Proof. unfold reloc. cbn [shiftH map]. apply app_nil_r. Qed.

Lemma reloc_length pre h : length (reloc pre h) = length pre + length h.
Proof. unfold reloc, shiftH. rewrite app_length, map_length. reflexivity. Qed.

Lemma reloc_snoc pre h l : reloc pre h ++ [shiftL (length pre) l] = reloc pre (h ++ [l]).
Proof. unfold reloc, shiftH. rewrite map_app, app_assoc. reflexivity. Qed.

Lemma hget_reloc pre h a :
  hget (reloc pre h) (length pre + a) = option_map (shiftL (length pre)) (hget h a).
Proof.
  unfold hget, reloc. rewrite nth_error_app2 by lia.
  replace (length pre + a - length pre) with a by lia.
  unfold shiftH. apply nth_error_map.
Qed.

Lemma hset_app_r (pre h : heap) a l : hset (pre ++ h) (length pre + a) l = pre ++ hset h a l.
Proof.
  induction pre as [|x pre IH]; [reflexivity|].
  cbn [app length Nat.add hset]. f_equal. exact IH.
Qed.

Lemma hset_shift k (h : heap) : forall a l, hset (shiftH k h) a (shiftL k l) = shiftH k (hset h a l).
Proof.
  induction h as [|x h IH]; intros a l; [destruct a; reflexivity|].
  destruct a as [|a]; cbn [shiftH map hset]; [reflexivity|].
  f_equal. apply IH.
Qed.

Lemma hset_reloc pre h a l :
  hset (reloc pre h) (length pre + a) (shiftL (length pre) l) = reloc pre (hset h a l).
Proof. unfold reloc. rewrite hset_app_r, hset_shift. reflexivity. Qed.

Lemma omapM_map {S S' T} (g : S' -> option T) (g' : S -> option T) (s : S -> S') (l : list S) :
  (forall x, g (s x) = g' x) -> omapM g (map s l) = omapM g' l.
Proof.
  intros H. induction l as [|x l IH]; [reflexivity|].
  cbn [map omapM]. rewrite H, IH. reflexivity.
Qed.

(* ---- alloc ---- *)
Definition alloc_moves (v : nv) : Prop := forall pre h,
  alloc v (reloc pre h) = (shift (length pre) (fst (alloc v h)), reloc pre (snd (alloc v h))).

Lemma alloc_list_reloc (l : list nv) : Forall alloc_moves l -> forall pre h,
  alloc_list_with alloc l (reloc pre h)
  = (shiftL (length pre) (fst (alloc_list_with alloc l h)), reloc pre (snd (alloc_list_with alloc l h))).
Proof.
  intros HF. induction HF as [|v t Hv Ht IH]; intros pre h; [reflexivity|].
  cbn [alloc_list_with]. rewrite (Hv pre h). cbn [fst snd]. rewrite IH. reflexivity.
Qed.

Lemma alloc_reloc (v : nv) : alloc_moves v.
Proof.
  induction v as [s|l HF] using nv_induction; intros pre h; [reflexivity|].
  cbn [alloc]. rewrite (alloc_list_reloc l HF pre h). cbn [fst snd].
  rewrite reloc_length, reloc_snoc. reflexivity.
Qed.

(* ---- read ---- *)
Lemma read_reloc (f : nat) : forall pre h x, read f (reloc pre h) (shift (length pre) x) = read f h x.
Proof.
  induction f as [|f IH]; intros pre h x; destruct x as [s|a]; try reflexivity.
  cbn [shift read]. rewrite hget_reloc. destruct (hget h a) as [l|]; [|reflexivity].
  cbn [option_map]. unfold shiftL.
  rewrite (omapM_map (read f (reloc pre h)) (read f h) (shift (length pre)) l (IH pre h)).
  reflexivity.
Qed.

Lemma read_list_reloc f pre h (l : list hv) :
  omapM (read f (reloc pre h)) (shiftL (length pre) l) = omapM (read f h) l.
Proof. unfold shiftL. apply omapM_map. intros x. apply read_reloc. Qed.

(* ---- the list methods do not look at addresses ---- *)
Lemma as_str_shift k x : as_str (shift k x) = as_str x.
Proof. destruct x; reflexivity. Qed.

Lemma shiftL_strs k (ss : list str) : shiftL k (map HS ss) = map HS ss.
Proof. unfold shiftL. rewrite map_map. reflexivity. Qed.

Lemma shiftL_rev k l : shiftL k (rev l) = rev (shiftL k l).
Proof. unfold shiftL. apply map_rev. Qed.

Lemma shiftL_app k l1 l2 : shiftL k (l1 ++ l2) = shiftL k l1 ++ shiftL k l2.
Proof. unfold shiftL. apply map_app. Qed.

Definition move_op (k : nat) (r : result xerr (list hv * list hv)) : result xerr (list hv * list hv) :=
  match r with Ok (l', pr) => Ok (shiftL k l', shiftL k pr) | Err e => Err e end.

Lemma apply_op_shift k o l : apply_op o (shiftL k l) = move_op k (apply_op o l).
Proof.
  destruct o; cbn [apply_op move_op].
  - rewrite <- shiftL_rev. destruct (rev l) as [|x r]; [reflexivity|].
    cbn [shiftL map move_op]. fold (shiftL k r). rewrite <- shiftL_rev. reflexivity.
  - destruct l as [|x r]; reflexivity.
  - rewrite <- shiftL_rev. destruct (rev l) as [|x r]; [reflexivity|].
    cbn [shiftL map move_op]. fold (shiftL k r). rewrite <- shiftL_rev. reflexivity.
  - destruct l as [|x r]; reflexivity.
  - rewrite shiftL_app. reflexivity.
  - reflexivity.
  - rewrite shiftL_rev. reflexivity.
  - unfold shiftL at 1. rewrite (omapM_map as_str as_str (shift k) l (as_str_shift k)).
    destruct (omapM as_str l) as [ss|]; [|reflexivity]. cbn [move_op]. rewrite shiftL_strs. reflexivity.
  - unfold shiftL at 1. rewrite (omapM_map as_str as_str (shift k) l (as_str_shift k)).
    destruct (omapM as_str l) as [ss|]; [|reflexivity]. cbn [move_op]. rewrite shiftL_strs. reflexivity.
  - rewrite shiftL_app, shiftL_strs. reflexivity.
  - reflexivity.
  - destruct l as [|x r]; reflexivity.
  - destruct l as [|x r]; reflexivity.
  - destruct l as [|x r]; [reflexivity|]. cbn [shiftL map move_op]. fold (shiftL k r).
    rewrite <- shiftL_rev. reflexivity.
Qed.

(* ---- one cell ---- *)
Definition move_heap {T} (pre : heap) (r : result xerr (heap * T)) : result xerr (heap * T) :=
  match r with Ok (h, x) => Ok (reloc pre h, x) | Err e => Err e end.

Lemma do_ops_reloc pre ops : forall h a,
  do_ops (reloc pre h) (length pre + a) ops = move_heap pre (do_ops h a ops).
Proof.
  induction ops as [|o r IH]; intros h a; [reflexivity|].
  cbn [do_ops]. rewrite hget_reloc. destruct (hget h a) as [l|]; [|reflexivity].
  cbn [option_map]. rewrite apply_op_shift. destruct (apply_op o l) as [[l' pr]|e]; [|reflexivity].
  cbn [move_op]. rewrite hset_reloc, read_list_reloc.
  destruct (omapM (read read_fuel (hset h a l')) pr) as [pv|]; [|reflexivity].
  rewrite IH. destruct (do_ops (hset h a l') a r) as [[h2 pvs]|e]; reflexivity.
Qed.

Lemma cell_reloc pre h a ops :
  cell (reloc pre h) (length pre + a) ops = move_heap pre (cell h a ops).
Proof.
  unfold cell. rewrite do_ops_reloc. destruct (do_ops h a ops) as [[h1 pv]|e]; [|reflexivity].
  cbn [move_heap]. change (HR (length pre + a)) with (shift (length pre) (HR a)).
  rewrite read_reloc. destruct (read read_fuel h1 (HR a)); reflexivity.
Qed.

Lemma loop_body_reloc pre ops (entries : list hv) : forall h,
  loop_body (reloc pre h) (shiftL (length pre) entries) ops = move_heap pre (loop_body h entries ops).
Proof.
  induction entries as [|x r IH]; intros h; [reflexivity|].
  destruct x as [s|b]; [reflexivity|].
  cbn [shiftL map shift loop_body]. fold (shiftL (length pre) r). rewrite cell_reloc.
  destruct (cell h b ops) as [[h1 o]|e]; [|reflexivity].
  cbn [move_heap]. rewrite IH. destruct (loop_body h1 r ops) as [[h2 os]|e]; reflexivity.
Qed.

Lemma env_get_shift k (e : env) x : env_get (shiftE k e) x = option_map (shift k) (env_get e x).
Proof.
  induction e as [|[y v] e IH]; [reflexivity|].
  cbn [shiftE map env_get fst snd]. destruct (str_eqb y x); [reflexivity|]. exact IH.
Qed.

Lemma target_reloc pre h e x s :
  target (reloc pre h) (shiftE (length pre) e) x s
  = match target h e x s with Ok a => Ok (length pre + a) | Err er => Err er end.
Proof.
  unfold target. rewrite env_get_shift. destruct (env_get e x) as [[t|a]|]; try reflexivity.
  cbn [option_map shift]. destruct s; [reflexivity| |].
  - rewrite hget_reloc. destruct (hget h a) as [[|[t|b] r]|]; reflexivity.
  - rewrite hget_reloc. destruct (hget h a) as [l|]; [|reflexivity].
    cbn [option_map]. rewrite <- shiftL_rev. destruct (rev l) as [|[t|b] r]; reflexivity.
Qed.

(* ---- the policy that gives every instance objects of its own, on heaps alone ---- *)
Fixpoint bind_f (c : list (str * str * nv)) (h : heap) : env * heap :=
  match c with
  | [] => ([], h)
  | (x, key, v) :: r =>
    let p := alloc v h in
    let q := bind_f r (snd p) in
    ((x, fst p) :: fst q, snd q)
  end.

Definition iterlist_f (e : env) (src : lsrc) (h : heap) : result xerr (list hv * heap) :=
  match src with
  | LLit t =>
    let p := alloc (split_into_lists t) h in
    match fst p with
    | HS _ => Err XUnsupported
    | HR a => match hget (snd p) a with Some l => Ok (l, snd p) | None => Err XStop end
    end
  | LVar x =>
    match env_get e x with
    | None => Err XStop
    | Some (HS _) => Err XUnsupported
    | Some (HR a) => match hget h a with Some l => Ok (l, h) | None => Err XStop end
    end
  end.

Definition run_item_f (e : env) (h : heap) (it : item) : result xerr (heap * list obs) :=
  match it with
  | IMsg x s ops =>
    match target h e x s with
    | Err er => Err er
    | Ok a => match cell h a ops with Err er => Err er | Ok (h1, o) => Ok (h1, [o]) end
    end
  | ILoop src ops =>
    match iterlist_f e src h with
    | Err er => Err er
    | Ok (l, h1) => loop_body h1 l ops
    end
  end.

Fixpoint run_items_f (e : env) (h : heap) (its : list item) : heap * result xerr (list obs) :=
  match its with
  | [] => (h, Ok [])
  | it :: r =>
    match run_item_f e h it with
    | Err er => (h, Err er)
    | Ok (h1, os) =>
      let q := run_items_f e h1 r in
      (fst q, match snd q with Err er => Err er | Ok os' => Ok (os ++ os') end)
    end
  end.

Definition run_inst_f (h : heap) (i : minst) : heap * result xerr (list obs) :=
  let p := bind_f (i_ctx i) h in run_items_f (fst p) (snd p) (i_items i).

(* the bridge: under such a policy the process state beyond the heap is neither read nor written *)
Section Bridge.
Variable pol : policy.
Hypothesis Hctx : pol_ctx_private pol = true.
Hypothesis Hlit : pol_lit_fresh pol = true.

Lemma with_heap_same st : with_heap st (ps_heap st) = st.
Proof. destruct st; reflexivity. Qed.

Lemma bind_ctx_f c : forall st,
  bind_ctx pol c st = (fst (bind_f c (ps_heap st)), with_heap st (snd (bind_f c (ps_heap st)))).
Proof.
  induction c as [|[[x key] v] r IH]; intros st.
  - cbn [bind_ctx bind_f fst snd]. rewrite with_heap_same. reflexivity.
  - cbn [bind_ctx bind_f]. unfold obtain_ctx. rewrite Hctx. cbn [fst snd]. rewrite IH. reflexivity.
Qed.

Lemma run_item_bridge e st it :
  run_item pol e st it
  = match run_item_f e (ps_heap st) it with Ok (h, os) => Ok (with_heap st h, os) | Err er => Err er end.
Proof.
  destruct it as [x s ops|src ops]; cbn [run_item run_item_f].
  - destruct (target (ps_heap st) e x s) as [a|er]; [|reflexivity].
    destruct (cell (ps_heap st) a ops) as [[h1 o]|er]; reflexivity.
  - destruct src as [t|x]; cbn [iterlist iterlist_f].
    + unfold obtain_lit. rewrite Hlit. cbn [fst snd ps_heap].
      destruct (fst (alloc (split_into_lists t) (ps_heap st))) as [u|a]; [reflexivity|].
      destruct (hget (snd (alloc (split_into_lists t) (ps_heap st))) a) as [l|]; [|reflexivity].
      cbn [ps_heap]. destruct (loop_body (snd (alloc (split_into_lists t) (ps_heap st))) l ops) as [[h2 os]|er]; reflexivity.
    + destruct (env_get e x) as [[u|a]|]; try reflexivity.
      destruct (hget (ps_heap st) a) as [l|]; [|reflexivity].
      destruct (loop_body (ps_heap st) l ops) as [[h2 os]|er]; reflexivity.
Qed.

Lemma run_items_bridge e its : forall st,
  run_items pol e st its
  = (with_heap st (fst (run_items_f e (ps_heap st) its)), snd (run_items_f e (ps_heap st) its)).
Proof.
  induction its as [|it r IH]; intros st.
  - cbn [run_items run_items_f fst snd]. rewrite with_heap_same. reflexivity.
  - cbn [run_items run_items_f]. rewrite run_item_bridge.
    destruct (run_item_f e (ps_heap st) it) as [[h1 os]|er].
    + rewrite IH. cbn [fst snd]. destruct st; reflexivity.
    + cbn [fst snd]. rewrite with_heap_same. reflexivity.
Qed.

Lemma run_inst_bridge st i :
  run_inst pol st i = (with_heap st (fst (run_inst_f (ps_heap st) i)), snd (run_inst_f (ps_heap st) i)).
Proof.
  unfold run_inst, run_inst_f. rewrite bind_ctx_f. cbn [fst snd]. rewrite run_items_bridge.
  destruct st; reflexivity.
Qed.

End Bridge.

(* ---- relocation of a whole instance ---- *)
Lemma bind_f_reloc c : forall pre h,
  bind_f c (reloc pre h) = (shiftE (length pre) (fst (bind_f c h)), reloc pre (snd (bind_f c h))).
Proof.
  induction c as [|[[x key] v] r IH]; intros pre h; [reflexivity|].
  cbn [bind_f]. rewrite (alloc_reloc v pre h). cbn [fst snd]. rewrite IH. reflexivity.
Qed.

Lemma iterlist_f_reloc pre e src h :
  iterlist_f (shiftE (length pre) e) src (reloc pre h)
  = match iterlist_f e src h with
    | Ok (l, h1) => Ok (shiftL (length pre) l, reloc pre h1)
    | Err er => Err er
    end.
Proof.
  destruct src as [t|x]; cbn [iterlist_f].
  - rewrite (alloc_reloc (split_into_lists t) pre h). cbn [fst snd].
    destruct (fst (alloc (split_into_lists t) h)) as [u|a]; [reflexivity|].
    cbn [shift]. rewrite hget_reloc.
    destruct (hget (snd (alloc (split_into_lists t) h)) a) as [l|]; reflexivity.
  - rewrite env_get_shift. destruct (env_get e x) as [[u|a]|]; try reflexivity.
    cbn [option_map shift]. rewrite hget_reloc. destruct (hget h a) as [l|]; reflexivity.
Qed.

Lemma run_item_f_reloc pre e h it :
  run_item_f (shiftE (length pre) e) (reloc pre h) it = move_heap pre (run_item_f e h it).
Proof.
  destruct it as [x s ops|src ops]; cbn [run_item_f].
  - rewrite target_reloc. destruct (target h e x s) as [a|er]; [|reflexivity].
    rewrite cell_reloc. destruct (cell h a ops) as [[h1 o]|er]; reflexivity.
  - rewrite iterlist_f_reloc. destruct (iterlist_f e src h) as [[l h1]|er]; [|reflexivity].
    apply loop_body_reloc.
Qed.

Lemma run_items_f_reloc pre e its : forall h,
  run_items_f (shiftE (length pre) e) (reloc pre h) its
  = (reloc pre (fst (run_items_f e h its)), snd (run_items_f e h its)).
Proof.
  induction its as [|it r IH]; intros h; [reflexivity|].
  cbn [run_items_f]. rewrite run_item_f_reloc.
  destruct (run_item_f e h it) as [[h1 os]|er]; cbn [move_heap]; [|reflexivity].
  rewrite IH. reflexivity.
Qed.

Lemma run_inst_f_reloc pre h i :
  run_inst_f (reloc pre h) i = (reloc pre (fst (run_inst_f h i)), snd (run_inst_f h i)).
Proof.
  unfold run_inst_f. rewrite bind_f_reloc. cbn [fst snd]. apply run_items_f_reloc.
Qed.

(* what an instance yields does not depend on the heap it starts on *)
Lemma run_inst_f_any_heap pre i : snd (run_inst_f pre i) = snd (run_inst_f [] i).
Proof. rewrite <- (reloc_nil pre) at 1. rewrite run_inst_f_reloc. reflexivity. Qed.

Lemma run_alone_f i : run_alone i = snd (run_inst_f [] i).
Proof. unfold run_alone. rewrite (run_inst_bridge fresh_policy eq_refl eq_refl). reflexivity. Qed.

(* ---- the theorems ---- *)

(* one instance, in whatever state the process is: what it yields alone *)
Theorem instance_state_free (pol : policy) (st : pstate) (i : minst) :
  policy_fresh pol = true -> snd (run_inst pol st i) = run_alone i.
Proof.
  unfold policy_fresh. intros H. apply andb_prop in H. destruct H as [Hc Hl].
  rewrite (run_inst_bridge pol Hc Hl). cbn [snd]. rewrite run_inst_f_any_heap, run_alone_f. reflexivity.
Qed.

(* the instances of a run: each yields what it yields alone; the run ends at the first that fails *)
Theorem run_all_isolated (pol : policy) : policy_fresh pol = true ->
  forall (is : list minst) (st : pstate), run_all pol st is = cut (map run_alone is).
Proof.
  intros H is. induction is as [|i r IH]; intros st; [reflexivity|].
  cbn [run_all map cut]. rewrite (instance_state_free pol st i H).
  destruct (run_alone i) as [os|er]; [|reflexivity].
  rewrite IH. reflexivity.
Qed.

(* history-independence: the outcome of an instance after one history of the process = after another *)
Corollary instance_history_free (pol : policy) (st1 st2 : pstate) (i : minst) :
  policy_fresh pol = true -> snd (run_inst pol st1 i) = snd (run_inst pol st2 i).
Proof. intros H. rewrite !(instance_state_free pol _ i H). reflexivity. Qed.

(* in particular the order in which two instances are generated does not matter to either *)
Corollary two_instances_commute (pol : policy) (st : pstate) (i j : minst) os_i os_j :
  policy_fresh pol = true ->
  run_all pol st [i; j] = [Ok os_i; Ok os_j] -> run_all pol st [j; i] = [Ok os_j; Ok os_i].
Proof.
  intros H. rewrite !(run_all_isolated pol H). cbn [map cut].
  destruct (run_alone i) as [a|e]; destruct (run_alone j) as [b|e']; intros E; inversion E; reflexivity.
Qed.

(* the code's policy, as measured on this run *)
Lemma as_coded_fresh : policy_fresh as_coded = true.
Proof. vm_compute. reflexivity. Qed.

Theorem as_coded_isolated (is : list minst) (st : pstate) : run_all as_coded st is = cut (map run_alone is).
Proof. apply run_all_isolated. exact as_coded_fresh. Qed.

(* ---- examples: the seeded scenarios ---- *)
Local Open Scope N_scope.
Definition s_pr : str := [112; 114].                         (* pr *)
Definition s_items : str := [105; 116; 101; 109; 115].       (* items *)
Definition s_key : str := [100; 97; 116; 97; 47; 114; 49].   (* data/r1 *)
(* Red;r|Green;g *)
Definition s_lit : str := [82; 101; 100; 59; 114; 124; 71; 114; 101; 101; 110; 59; 103].
Definition s_Q : str := [81].

(* a template whose loop over a literal two-level list takes every pair apart with pop(), twice:
   "Send {{ pair.pop() }} for {{ pair.pop() }}" *)
Definition quiz : minst := mk_minst [] [ILoop (LLit s_lit) [MPop; MPop]].
(* a template that appends to a list field of its data row and shows it *)
Definition grow : minst := mk_minst [(s_items, s_key, Lst [Str [97]; Str [98]])] [IMsg s_items SelSelf [MAppend s_Q]].

Definition alias_example : Prop :=
  (* objects of their own: the second instance yields what the first one does, each pair popped apart *)
  run_all fresh_policy ps_empty [quiz; quiz]
  = [Ok [mk_obs [Str [114]; Str [82; 101; 100]] (Lst []); mk_obs [Str [103]; Str [71; 114; 101; 101; 110]] (Lst [])];
     Ok [mk_obs [Str [114]; Str [82; 101; 100]] (Lst []); mk_obs [Str [103]; Str [71; 114; 101; 101; 110]] (Lst [])]]
  (* the lists of the literal cell kept by cell text: the second instance finds them empty, pop() raises *)
  /\ run_all (mk_policy true false) ps_empty [quiz; quiz]
     = [Ok [mk_obs [Str [114]; Str [82; 101; 100]] (Lst []); mk_obs [Str [103]; Str [71; 114; 101; 101; 110]] (Lst [])];
        Err XStop]
  (* the same data row instantiated twice *)
  /\ run_all fresh_policy ps_empty [grow; grow]
     = [Ok [mk_obs [] (Lst [Str [97]; Str [98]; Str s_Q])]; Ok [mk_obs [] (Lst [Str [97]; Str [98]; Str s_Q])]]
  (* the registry's object handed out uncopied: the second instance sees the first one's append *)
  /\ run_all (mk_policy false true) ps_empty [grow; grow]
     = [Ok [mk_obs [] (Lst [Str [97]; Str [98]; Str s_Q])]; Ok [mk_obs [] (Lst [Str [97]; Str [98]; Str s_Q; Str s_Q])]]
  (* inside ONE instance the loop variable is the entry of the instance's own list: the change is seen *)
  /\ run_alone (mk_minst [(s_items, s_key, Lst [Lst [Str [97]]; Lst [Str [98]]])]
                        [ILoop (LVar s_items) [MAppend s_Q]; IMsg s_items SelLast []])
     = Ok [mk_obs [] (Lst [Str [97]; Str s_Q]); mk_obs [] (Lst [Str [98]; Str s_Q]); mk_obs [] (Lst [Str [98]; Str s_Q])].

Lemma alias_example_holds : alias_example.
Proof. unfold alias_example. repeat split; vm_compute; reflexivity. Qed.

(* neither switch can be dropped: under each sharing policy some run is NOT the instances alone *)
Lemma sharing_literals_leaks :
  exists is, run_all (mk_policy true false) ps_empty is <> cut (map run_alone is).
Proof. exists [quiz; quiz]. vm_compute. discriminate. Qed.

Lemma sharing_context_leaks :
  exists is, run_all (mk_policy false true) ps_empty is <> cut (map run_alone is).
Proof. exists [grow; grow]. vm_compute. discriminate. Qed.
