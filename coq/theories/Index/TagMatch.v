(* E5 / C10 — rpft.parsers.creation.tagmatcher.TagMatcher: construction from the CLI
   parameter list and [matches].  Definitions only (facts in IndexFacts.v).

   Python:
     tag_patterns = defaultdict(list); current_index = None
     for param in params:
         try: val = int(param) - 1  except ValueError: val = None
         if val is not None: current_index = val
         else:
             if current_index is None: raise ValueError
             tag_patterns[current_index].append(param)
     matches(tags): all(not (tag and i in tag_patterns and tag not in tag_patterns[i]))
   A key exists in tag_patterns only once a pattern was appended under it, so the
   dictionary is modelled by the list of (position, pattern) pairs in insertion order. *)
From Coq Require Import List NArith ZArith Bool.
From RPFT Require Import Base.Sexp Base.PyStr.
Import ListNotations.
Local Open Scope N_scope.

(* ---- int(str) on ASCII input: surrounding whitespace, optional sign, decimal digits
   with single underscores between digits.  (Non-ASCII decimal digits, which CPython also
   accepts, are outside the modelled domain: the model answers "not a number".) *)
Definition is_digit (c : char) : bool := (48 <=? c) && (c <=? 57).
Definition digit_val (c : char) : Z := Z.of_N (c - 48).

Fixpoint parse_digits (acc : Z) (prev_digit : bool) (s : str) : option Z :=
  match s with
  | [] => if prev_digit then Some acc else None
  | c :: r =>
    if is_digit c then parse_digits (acc * 10 + digit_val c)%Z true r
    else if (c =? 95) && prev_digit then
      match r with
      | d :: _ => if is_digit d then parse_digits acc false r else None
      | [] => None
      end
    else None
  end.

(* the white space int() skips on both sides: str.strip()'s set without U+001C..U+001F
   (found by the correspondence: int("1\x1f") is a ValueError) *)
Definition is_int_ws (c : char) : bool := is_ws c && negb ((28 <=? c) && (c <=? 31)).

Fixpoint int_lstrip (s : str) : str :=
  match s with
  | [] => []
  | c :: r => if is_int_ws c then int_lstrip r else s
  end.
Fixpoint int_rstrip (s : str) : str :=
  match s with
  | [] => []
  | c :: r => match int_rstrip r with
              | [] => if is_int_ws c then [] else [c]
              | t => c :: t
              end
  end.

Definition py_int (s : str) : option Z :=
  let t := int_rstrip (int_lstrip s) in
  match t with
  | 45 :: r => option_map Z.opp (parse_digits 0%Z false r)
  | 43 :: r => parse_digits 0%Z false r
  | _ => parse_digits 0%Z false t
  end.

(* ---- construction *)
Definition patterns := list (Z * str).

Fixpoint tm_build (cur : option Z) (acc : patterns) (params : list str) : option patterns :=
  match params with
  | [] => Some acc
  | p :: r =>
    match py_int p with
    | Some v => tm_build (Some (v - 1)%Z) acc r
    | None =>
      match cur with
      | None => None                                  (* ValueError *)
      | Some i => tm_build cur (acc ++ [(i, p)]) r
      end
    end
  end.

Definition tag_matcher (params : list str) : option patterns := tm_build None [] params.

(* ---- matches *)
Definition nonempty (s : str) : bool := match s with [] => false | _ :: _ => true end.

Definition constrained (pats : patterns) (i : Z) : bool :=
  existsb (fun ip => Z.eqb (fst ip) i) pats.
Definition listed (pats : patterns) (i : Z) (tag : str) : bool :=
  existsb (fun ip => Z.eqb (fst ip) i && str_eqb (snd ip) tag) pats.

Definition tag_ok (pats : patterns) (i : Z) (tag : str) : bool :=
  negb (nonempty tag && constrained pats i && negb (listed pats i tag)).

Fixpoint matches_from (pats : patterns) (i : Z) (tags : list str) : bool :=
  match tags with
  | [] => true
  | t :: r => tag_ok pats i t && matches_from pats (i + 1)%Z r
  end.

Definition matches (pats : patterns) (tags : list str) : bool := matches_from pats 0%Z tags.
