(* C19 — facts about the campaign / trigger sheet models (Campaign.v, Trigger.v,
   CampTrigIndex.v).  All by induction over the row list / the index, no size bound. *)
From Coq Require Import List NArith ZArith Bool Lia.
From RPFT Require Import Base.Sexp Base.PyStr Base.Result Base.ODict Base.Json Gen.Tables
  Cell.Cell Index.Names Index.Campaign Index.Trigger Index.CampTrigIndex.
Import ListNotations.
Local Open Scope N_scope.

(* ---------------------------------------------------------------- strings, membership *)
Lemma str_eqb_spec s t : str_eqb s t = true <-> s = t.
Proof.
  revert t. induction s as [|a s IH]; intros [|b t]; cbn; split; intros H;
    try reflexivity; try discriminate.
  - apply andb_true_iff in H. destruct H as [H1 H2]. apply N.eqb_eq in H1.
    apply IH in H2. subst. reflexivity.
  - inversion H; subst. apply andb_true_iff. split; [apply N.eqb_refl|apply IH; reflexivity].
Qed.

Lemma mem_str_In v l : mem_str v l = true <-> In v l.
Proof.
  unfold mem_str. rewrite existsb_exists. split.
  - intros [x [Hin Heq]]. apply str_eqb_spec in Heq. subst. exact Hin.
  - intros Hin. exists v. split; [exact Hin|apply str_eqb_spec; reflexivity].
Qed.

Lemma mem_str_false v l : ~ In v l -> mem_str v l = false.
Proof.
  intros H. destruct (mem_str v l) eqn:E; [|reflexivity]. apply mem_str_In in E. contradiction.
Qed.

Lemma is_nil_true {T} (l : list T) : is_nil l = true <-> l = [].
Proof. destruct l; cbn; split; intros H; congruence. Qed.

(* ---------------------------------------------------------------- mapM / foldM *)
Section MapM.
Context {E S T : Type} (f : S -> result E T).

Lemma mapM_Forall2 l ys : mapM f l = Ok ys <-> Forall2 (fun x y => f x = Ok y) l ys.
Proof.
  revert ys. induction l as [|x l IH]; intros ys; cbn.
  - split; intros H; [inversion H; constructor|inversion H; reflexivity].
  - destruct (f x) as [y|e] eqn:Ex.
    + destruct (mapM f l) as [ys'|e'] eqn:Em.
      * split; intros H.
        -- inversion H; subst. constructor; [exact Ex|apply IH; reflexivity].
        -- inversion H as [|x0 y0 l0 ys0 Hxy Hrest]; subst. rewrite Ex in Hxy. inversion Hxy; subst.
           apply IH in Hrest. inversion Hrest; subst. reflexivity.
      * split; intros H; [discriminate|].
        inversion H as [|x0 y0 l0 ys0 Hxy Hrest]; subst. apply IH in Hrest. discriminate.
    + split; intros H; [discriminate|].
      inversion H as [|x0 y0 l0 ys0 Hxy Hrest]; subst. rewrite Ex in Hxy. discriminate.
Qed.

Lemma mapM_length l ys : mapM f l = Ok ys -> length ys = length l.
Proof.
  intros H. apply mapM_Forall2 in H. induction H; cbn; [reflexivity|f_equal; assumption].
Qed.

Lemma mapM_nth l ys : mapM f l = Ok ys ->
  forall i x, nth_error l i = Some x -> exists y, nth_error ys i = Some y /\ f x = Ok y.
Proof.
  intros H. apply mapM_Forall2 in H. induction H as [|x0 y0 l0 ys0 Hxy Hrest IH]; intros i x Hi.
  - destruct i; discriminate.
  - destruct i as [|i]; cbn in *.
    + inversion Hi; subst. exists y0. split; [reflexivity|exact Hxy].
    + apply IH. exact Hi.
Qed.

(* a failing element at ANY position makes the whole map fail *)
Lemma mapM_err_in l x e : In x l -> f x = Err e -> exists e', mapM f l = Err e'.
Proof.
  induction l as [|a l IH]; intros Hin Hx; [destruct Hin|]. cbn.
  destruct Hin as [->|Hin].
  - rewrite Hx. eexists; reflexivity.
  - destruct (f a); [|eexists; reflexivity].
    destruct (IH Hin Hx) as [e' ->]. eexists; reflexivity.
Qed.

Lemma mapM_ok_all l ys x : mapM f l = Ok ys -> In x l -> exists y, f x = Ok y /\ In y ys.
Proof.
  intros H. apply mapM_Forall2 in H. induction H as [|x0 y0 l0 ys0 Hxy Hrest IH]; intros Hin; [destruct Hin|].
  destruct Hin as [->|Hin].
  - exists y0. split; [exact Hxy|left; reflexivity].
  - destruct (IH Hin) as [y [H1 H2]]. exists y. split; [exact H1|right; exact H2].
Qed.
End MapM.

Lemma foldM_err_in {E S A} (f : A -> S -> result E A) l x :
  In x l -> (forall a, exists e, f a x = Err e) -> forall a, exists e, foldM f l a = Err e.
Proof.
  induction l as [|y l IH]; intros Hin Hx a; [destruct Hin|]. cbn.
  destruct Hin as [->|Hin].
  - destruct (Hx a) as [e ->]. eexists; reflexivity.
  - destruct (f a y); [apply IH; assumption|eexists; reflexivity].
Qed.

Lemma foldM_invariant {E S A} (f : A -> S -> result E A) (P : A -> Prop) l :
  (forall a x a', In x l -> P a -> f a x = Ok a' -> P a') ->
  forall a a', P a -> foldM f l a = Ok a' -> P a'.
Proof.
  induction l as [|y l IH]; intros Hstep a a' Pa H; cbn in H.
  - inversion H; subst. exact Pa.
  - destruct (f a y) as [a1|e] eqn:Efa; [|discriminate].
    apply (IH (fun a0 x a0' Hin => Hstep a0 x a0' (or_intror Hin)) a1 a'); [|exact H].
    apply (Hstep a y a1); [left; reflexivity|exact Pa|exact Efa].
Qed.

(* ---------------------------------------------------------------- cells and fields *)
Lemma cell_text_ok c s : cell_text c = Ok s -> s = strip c.
Proof. unfold cell_text. destruct (mem_char lbrace (strip c)); intros H; inversion H; reflexivity. Qed.

Lemma get_str_some fields name c s : get_str fields name (Some c) = Ok s -> s = strip c.
Proof.
  unfold get_str. destruct (assoc name fields) as [[k [req d]]|]; [apply cell_text_ok|discriminate].
Qed.

(* ---------------------------------------------------------------- validate_camp_row *)
Lemma validate_camp_row_inv r row : validate_camp_row r = Ok row ->
  get_str camp_fields f_offset (cr_offset r) = Ok (c_offset row) /\
  get_str camp_fields f_unit (cr_unit r) = Ok (c_unit row) /\
  get_str camp_fields f_event_type (cr_event_type r) = Ok (c_event_type row) /\
  get_str camp_fields f_delivery_hour (cr_delivery_hour r) = Ok (c_delivery_hour row) /\
  get_str camp_fields f_message (cr_message r) = Ok (c_message row) /\
  get_str camp_fields f_relative_to (cr_relative_to r) = Ok (c_relative_to row) /\
  get_str camp_fields f_start_mode (cr_start_mode r) = Ok (c_start_mode row) /\
  get_str camp_fields f_flow (cr_flow r) = Ok (c_flow row) /\
  get_str camp_fields f_base_language (cr_base_language r) = Ok (c_base_language row) /\
  enum_ok unit_enum (c_unit row) = true /\
  enum_ok start_mode_enum (c_start_mode row) = true /\
  enum_ok event_type_enum (c_event_type row) = true.
Proof.
  unfold validate_camp_row, bind.
  destruct (get_str camp_fields f_uuid (cr_uuid r)) as [v0|]; [|discriminate].
  destruct (get_str camp_fields f_offset (cr_offset r)) as [v1|]; [|discriminate].
  destruct (get_str camp_fields f_unit (cr_unit r)) as [v2|]; [|discriminate].
  destruct (get_str camp_fields f_event_type (cr_event_type r)) as [v3|]; [|discriminate].
  destruct (get_str camp_fields f_delivery_hour (cr_delivery_hour r)) as [v4|]; [|discriminate].
  destruct (get_str camp_fields f_message (cr_message r)) as [v5|]; [|discriminate].
  destruct (get_str camp_fields f_relative_to (cr_relative_to r)) as [v6|]; [|discriminate].
  destruct (get_str camp_fields f_start_mode (cr_start_mode r)) as [v7|]; [|discriminate].
  destruct (get_str camp_fields f_flow (cr_flow r)) as [v8|]; [|discriminate].
  destruct (get_str camp_fields f_base_language (cr_base_language r)) as [v9|]; [|discriminate].
  destruct (enum_ok unit_enum v2) eqn:E1; cbn [negb]; [|discriminate].
  destruct (enum_ok start_mode_enum v7) eqn:E2; cbn [negb]; [|discriminate].
  destruct (enum_ok event_type_enum v3) eqn:E3; cbn [negb]; [|discriminate].
  intros H. inversion H; subst; cbn. repeat split; first [reflexivity|assumption].
Qed.

Lemma enum_ok_false tbl l v : tbl = Some l -> ~ In v l -> enum_ok tbl v = false.
Proof. intros -> H. cbn. apply mem_str_false, H. Qed.

(* a written unit / start mode / event type outside the list the code has NOW: the row
   does not validate *)
Definition camp_enum_invalid (r : camp_raw) : Prop :=
  (exists u l, cr_unit r = Some u /\ unit_enum = Some l /\ ~ In (strip u) l) \/
  (exists u l, cr_start_mode r = Some u /\ start_mode_enum = Some l /\ ~ In (strip u) l) \/
  (exists u l, cr_event_type r = Some u /\ event_type_enum = Some l /\ ~ In (strip u) l).

Lemma camp_enum_invalid_rejected r : camp_enum_invalid r -> exists e, validate_camp_row r = Err e.
Proof.
  intros H. destruct (validate_camp_row r) as [row|e] eqn:E; [|eexists; reflexivity]. exfalso.
  apply validate_camp_row_inv in E.
  destruct E as (_ & Hu & He & _ & _ & _ & Hs & _ & _ & E1 & E2 & E3).
  destruct H as [(u & l & Hc & Ht & Hn)|[(u & l & Hc & Ht & Hn)|(u & l & Hc & Ht & Hn)]].
  - rewrite Hc in Hu. apply get_str_some in Hu. rewrite Hu in E1.
    rewrite (enum_ok_false _ _ _ Ht Hn) in E1. discriminate.
  - rewrite Hc in Hs. apply get_str_some in Hs. rewrite Hs in E2.
    rewrite (enum_ok_false _ _ _ Ht Hn) in E2. discriminate.
  - rewrite Hc in He. apply get_str_some in He. rewrite He in E3.
    rewrite (enum_ok_false _ _ _ Ht Hn) in E3. discriminate.
Qed.

(* ---------------------------------------------------------------- event_of_row *)
Definition event_spec (r : camp_row) (e : event) : Prop :=
  parse_int (c_offset r) = Some (ev_offset e) /\
  ev_unit e = c_unit r /\
  ev_type e = c_event_type r /\
  ((c_delivery_hour r = [] /\ ev_hour e = default_delivery_hour) \/
   (c_delivery_hour r <> [] /\ parse_int (c_delivery_hour r) = Some (ev_hour e))) /\
  ev_start_mode e = c_start_mode r /\
  ev_label e = c_relative_to r /\
  generate_field_key (c_relative_to r) = Ok (ev_key e) /\
  ((c_message r = [] /\ ev_message e = None /\ ev_base_language e = None) \/
   (c_message r <> [] /\ ev_message e = Some (message_lang_key, c_message r) /\
    ev_base_language e = Some (match c_base_language r with [] => default_base_language | l => l end))) /\
  ev_flow e = (match c_flow r with [] => None | f => Some f end) /\
  (In (c_event_type r) event_types_needing_message -> c_message r <> []).

Lemma int_or_err_ok s z : int_or_err s = Ok z <-> parse_int s = Some z.
Proof. unfold int_or_err. destruct (parse_int s); split; intros H; inversion H; reflexivity. Qed.

Lemma event_of_row_spec r e : event_of_row r = Ok e <-> event_spec r e.
Proof.
  unfold event_of_row, event_spec, bind. split.
  - intros H.
    destruct (if is_nil (c_delivery_hour r) then Ok default_delivery_hour
              else int_or_err (c_delivery_hour r)) as [hour|] eqn:Eh; [|discriminate].
    destruct (int_or_err (c_offset r)) as [off|] eqn:Eo; [|discriminate].
    destruct (generate_field_key (c_relative_to r)) as [k|] eqn:Ek; [|discriminate].
    match type of H with (if ?c then _ else _) = _ => destruct c eqn:En; [discriminate|] end.
    inversion H; subst; clear H.
    cbn [ev_offset ev_unit ev_type ev_hour ev_message ev_label ev_key ev_start_mode ev_flow ev_base_language].
    apply int_or_err_ok in Eo.
    assert (H4 : (c_delivery_hour r = [] /\ hour = default_delivery_hour) \/
                 (c_delivery_hour r <> [] /\ parse_int (c_delivery_hour r) = Some hour)).
    { destruct (c_delivery_hour r) as [|h hs]; cbn [is_nil] in Eh.
      - left. inversion Eh. split; reflexivity.
      - right. split; [discriminate|apply int_or_err_ok; exact Eh]. }
    assert (H8 : (c_message r = [] /\ (if is_nil (c_message r) then None else Some (message_lang_key, c_message r)) = None /\
                  (if is_nil (c_message r) then None
                   else Some (if is_nil (c_base_language r) then default_base_language else c_base_language r)) = None) \/
                 (c_message r <> [] /\
                  (if is_nil (c_message r) then None else Some (message_lang_key, c_message r)) = Some (message_lang_key, c_message r) /\
                  (if is_nil (c_message r) then None
                   else Some (if is_nil (c_base_language r) then default_base_language else c_base_language r))
                  = Some (match c_base_language r with [] => default_base_language | l => l end))).
    { destruct (c_message r) as [|m ms]; cbn [is_nil].
      - left. repeat split; reflexivity.
      - right. split; [discriminate|]. split; [reflexivity|]. destruct (c_base_language r); reflexivity. }
    assert (H9 : (if is_nil (c_flow r) then None else Some (c_flow r)) = match c_flow r with [] => None | f => Some f end).
    { destruct (c_flow r); reflexivity. }
    assert (H10 : In (c_event_type r) event_types_needing_message -> c_message r <> []).
    { intros Hin Hm. apply mem_str_In in Hin. rewrite Hin, Hm in En. cbn in En. discriminate. }
    split; [exact Eo|]. split; [reflexivity|]. split; [reflexivity|]. split; [exact H4|].
    split; [reflexivity|]. split; [reflexivity|]. split; [reflexivity|]. split; [exact H8|].
    split; [exact H9|exact H10].
  - intros (Hoff & Hu & Ht & Hh & Hs & Hl & Hk & Hm & Hf & Hneed).
    apply int_or_err_ok in Hoff.
    assert (Hhour : (if is_nil (c_delivery_hour r) then Ok default_delivery_hour
                     else int_or_err (c_delivery_hour r)) = @Ok err Z (ev_hour e)).
    { destruct Hh as [[H1 H2]|[H1 H2]].
      - rewrite H1. cbn [is_nil]. rewrite H2. reflexivity.
      - destruct (c_delivery_hour r); [congruence|]. cbn [is_nil]. apply int_or_err_ok. exact H2. }
    rewrite Hhour, Hoff, Hk.
    match goal with |- (if ?c then _ else _) = _ => assert (En : c = false) end.
    { destruct (mem_str (c_event_type r) event_types_needing_message) eqn:E1; [|reflexivity].
      apply mem_str_In in E1. specialize (Hneed E1). destruct (c_message r); [congruence|reflexivity]. }
    rewrite En. clear En Hhour.
    destruct e as [eo eu et eh em el ek es ef eb].
    cbn [ev_offset ev_unit ev_type ev_hour ev_message ev_label ev_key ev_start_mode ev_flow ev_base_language] in *.
    subst eu et es el ef.
    assert (Hflow : (if is_nil (c_flow r) then None else Some (c_flow r)) = match c_flow r with [] => None | f => Some f end).
    { destruct (c_flow r); reflexivity. }
    rewrite Hflow.
    destruct Hm as [(H1 & H2 & H3)|(H1 & H2 & H3)].
    + rewrite H1. cbn [is_nil]. subst em eb. reflexivity.
    + destruct (c_message r) as [|m ms] eqn:Em; [congruence|]. cbn [is_nil]. subst em eb.
      destruct (c_base_language r); reflexivity.
Qed.

(* a message event without text is rejected, whatever else the row says *)
Lemma no_text_rejected r :
  In (c_event_type r) event_types_needing_message -> c_message r = [] ->
  exists e, event_of_row r = Err e.
Proof.
  intros Hin Hm. destruct (event_of_row r) as [ev|e] eqn:E; [|eexists; reflexivity]. exfalso.
  apply event_of_row_spec in E. destruct E as (_ & _ & _ & _ & _ & _ & _ & _ & _ & Hneed).
  apply (Hneed Hin Hm).
Qed.

(* ---------------------------------------------------------------- campaign sheets, row-wise *)
Theorem campaign_rowwise rows evs : parse_campaign rows = Ok evs ->
  length evs = length rows /\
  Forall2 event_spec rows evs /\
  forall i r, nth_error rows i = Some r ->
    exists e, nth_error evs i = Some e /\ event_of_row r = Ok e.
Proof.
  unfold parse_campaign. intros H. split; [exact (mapM_length _ _ _ H)|]. split.
  - apply mapM_Forall2 in H. induction H; constructor; [apply event_of_row_spec; assumption|assumption].
  - exact (mapM_nth _ _ _ H).
Qed.

(* ... and conversely: rows that each have an event compile to exactly those events *)
Theorem campaign_rowwise_complete rows evs :
  Forall2 event_spec rows evs -> parse_campaign rows = Ok evs.
Proof.
  intros H. apply mapM_Forall2. induction H; constructor; [apply event_of_row_spec; assumption|assumption].
Qed.

Theorem campaign_sheet_rowwise raws evs : parse_campaign_sheet raws = Ok evs ->
  length evs = length raws /\
  exists rows, Forall2 (fun raw row => validate_camp_row raw = Ok row) raws rows /\
               Forall2 event_spec rows evs.
Proof.
  unfold parse_campaign_sheet, bind. destruct (mapM validate_camp_row raws) as [rows|] eqn:E; [|discriminate].
  intros H. destruct (campaign_rowwise _ _ H) as (Hlen & Hall & _). split.
  - rewrite Hlen. exact (mapM_length _ _ _ E).
  - exists rows. split; [apply mapM_Forall2; exact E|exact Hall].
Qed.

Theorem campaign_invalid_rejected raws r :
  In r raws -> camp_enum_invalid r -> exists e, parse_campaign_sheet raws = Err e.
Proof.
  intros Hin Hinv. destruct (camp_enum_invalid_rejected r Hinv) as [e He].
  unfold parse_campaign_sheet, bind.
  destruct (mapM_err_in validate_camp_row raws r e Hin He) as [e' ->]. eexists; reflexivity.
Qed.

Theorem campaign_no_text_rejected rows r :
  In r rows -> In (c_event_type r) event_types_needing_message -> c_message r = [] ->
  exists e, parse_campaign rows = Err e.
Proof.
  intros Hin Ht Hm. destruct (no_text_rejected r Ht Hm) as [e He].
  exact (mapM_err_in event_of_row rows r e Hin He).
Qed.

(* the same at sheet level: the text is what the message cell holds after stripping *)
Theorem campaign_sheet_no_text_rejected raws r t m :
  In r raws -> cr_event_type r = Some t -> In (strip t) event_types_needing_message ->
  cr_message r = Some m -> strip m = [] ->
  exists e, parse_campaign_sheet raws = Err e.
Proof.
  intros Hin Ht Hneed Hm Hblank. unfold parse_campaign_sheet, bind.
  destruct (mapM validate_camp_row raws) as [rows|e] eqn:E; [|eexists; reflexivity].
  destruct (mapM_ok_all _ _ _ _ E Hin) as [row [Hrow Hinrow]].
  apply validate_camp_row_inv in Hrow. destruct Hrow as (_ & _ & He & _ & Hmsg & _).
  rewrite Ht in He. apply get_str_some in He. rewrite Hm in Hmsg. apply get_str_some in Hmsg.
  apply (campaign_no_text_rejected rows row Hinrow); [rewrite He; exact Hneed|rewrite Hmsg; exact Hblank].
Qed.

(* ---------------------------------------------------------------- the derived key *)
Lemma replace1_space_spec s : replace1 32 [95] s = map (fun c => if c =? 32 then 95 else c) s.
Proof. induction s as [|c s IH]; cbn; [reflexivity|]. destruct (c =? 32); cbn; rewrite IH; reflexivity. Qed.

Theorem field_key_spec name k : generate_field_key name = Ok k <->
  k = map (fun c => if c =? 32 then 95 else c) (lower (strip name)) /\
  (length k <= field_key_max_len)%nat /\
  exists c, In c k /\ is_key_letter c = true.
Proof.
  unfold generate_field_key, field_key_of. rewrite replace1_space_spec.
  set (key := map (fun c : N => if c =? 32 then 95 else c) (lower (strip name))).
  match goal with |- context [Nat.leb ?a ?b] => destruct (Nat.leb a b) eqn:El end; cbn [negb].
  - match goal with |- context [existsb ?a ?b] => destruct (existsb a b) eqn:Ex end; cbn [negb].
    + split.
      * intros H. inversion H; subst. split; [reflexivity|]. split; [apply Nat.leb_le; exact El|].
        apply existsb_exists in Ex. exact Ex.
      * intros (-> & _ & _). reflexivity.
    + split; [discriminate|]. intros (-> & _ & Hc). apply existsb_exists in Hc. congruence.
  - split; [discriminate|]. intros (-> & Hl & _). apply Nat.leb_le in Hl. congruence.
Qed.

Theorem field_key_no_space name k : generate_field_key name = Ok k -> ~ In 32 k.
Proof.
  intros H. apply field_key_spec in H. destruct H as (-> & _ & _). intros Hin.
  apply in_map_iff in Hin. destruct Hin as [c [Hc _]]. destruct (c =? 32) eqn:E; [discriminate|].
  apply N.eqb_neq in E. congruence.
Qed.

Theorem field_key_no_upper name k c : generate_field_key name = Ok k -> In c k -> ~ (65 <= c <= 90).
Proof.
  intros H Hin. apply field_key_spec in H. destruct H as (-> & _ & _).
  apply in_map_iff in Hin. destruct Hin as [d [Hd Hin]]. unfold lower in Hin.
  apply in_map_iff in Hin. destruct Hin as [x [Hx _]]. unfold lower_char in Hx.
  destruct ((65 <=? x) && (x <=? 90)) eqn:E.
  - apply andb_true_iff in E. destruct E as [E1 E2]. apply N.leb_le in E1. apply N.leb_le in E2.
    destruct (d =? 32) eqn:E3; [subst; lia|]. subst. lia.
  - destruct (d =? 32) eqn:E3; [subst; lia|]. subst.
    apply andb_false_iff in E. destruct E as [E|E]; apply N.leb_gt in E; lia.
Qed.

(* ---------------------------------------------------------------- triggers *)
Definition trigger_spec (r : trig_row) (t : trigger) : Prop :=
  g_type t = t_type r /\
  g_keywords t = t_keywords r /\
  g_match_type t = (match t_match_type r with [] => snd (kw_rule (t_type r)) | m => Some m end) /\
  g_channel t = (match t_channel r with [] => None | c => Some c end) /\
  g_flow t = t_flow r /\ t_flow r <> [] /\
  g_groups t = t_groups r /\ ~ In [] (t_groups r) /\
  g_exclude_groups t = t_exclude_groups r /\ ~ In [] (t_exclude_groups r) /\
  (fst (kw_rule (t_type r)) = true -> exists k ks, t_keywords r = k :: ks /\ k <> []).

Lemma existsb_is_nil_false (l : list str) : existsb is_nil l = false <-> ~ In [] l.
Proof.
  split.
  - intros H Hin. assert (existsb is_nil l = true) by (apply existsb_exists; exists []; split; [exact Hin|reflexivity]).
    congruence.
  - intros H. destruct (existsb is_nil l) eqn:E; [|reflexivity]. apply existsb_exists in E.
    destruct E as [x [Hin Hx]]. apply is_nil_true in Hx. subst. contradiction.
Qed.

Lemma trigger_of_row_spec r t : trigger_of_row r = Ok t <-> trigger_spec r t.
Proof.
  unfold trigger_of_row, trigger_spec. split.
  - intros H.
    destruct (fst (kw_rule (t_type r)) && match t_keywords r with [] => true | k :: _ => is_nil k end) eqn:Ek; [discriminate|].
    destruct (is_nil (t_flow r)) eqn:Ef; [discriminate|].
    destruct (existsb is_nil (t_groups r)) eqn:Eg; [discriminate|].
    destruct (existsb is_nil (t_exclude_groups r)) eqn:Ee; [discriminate|].
    inversion H; subst; cbn.
    repeat split; try reflexivity.
    + destruct (t_match_type r); reflexivity.
    + destruct (t_channel r); reflexivity.
    + intros Hn. apply is_nil_true in Hn. congruence.
    + apply existsb_is_nil_false. exact Eg.
    + apply existsb_is_nil_false. exact Ee.
    + intros Hneed. rewrite Hneed in Ek. cbn in Ek. destruct (t_keywords r) as [|k ks]; [discriminate|].
      exists k, ks. split; [reflexivity|]. intros ->. discriminate.
  - intros (H1 & H2 & H3 & H4 & H5 & H6 & H7 & H8 & H9 & H10 & H11).
    assert (Ek : fst (kw_rule (t_type r)) && match t_keywords r with [] => true | k :: _ => is_nil k end = false).
    { destruct (fst (kw_rule (t_type r))) eqn:En; [|reflexivity]. cbn.
      destruct (H11 eq_refl) as (k & ks & -> & Hk). destruct k; [congruence|reflexivity]. }
    rewrite Ek. destruct (t_flow r) eqn:Ef; [congruence|]. cbn [is_nil].
    apply existsb_is_nil_false in H8. apply existsb_is_nil_false in H10. rewrite H8, H10.
    destruct t as [ga gb gc gd ge gf gg].
    cbn [g_type g_keywords g_match_type g_channel g_flow g_groups g_exclude_groups] in *. subst.
    destruct (t_match_type r); destruct (t_channel r); reflexivity.
Qed.

Theorem trigger_rowwise rows ts : parse_triggers rows = Ok ts ->
  length ts = length rows /\
  Forall2 trigger_spec rows ts /\
  forall i r, nth_error rows i = Some r ->
    exists t, nth_error ts i = Some t /\ trigger_of_row r = Ok t.
Proof.
  unfold parse_triggers. intros H. split; [exact (mapM_length _ _ _ H)|]. split.
  - apply mapM_Forall2 in H. induction H; constructor; [apply trigger_of_row_spec; assumption|assumption].
  - exact (mapM_nth _ _ _ H).
Qed.

Theorem trigger_rowwise_complete rows ts :
  Forall2 trigger_spec rows ts -> parse_triggers rows = Ok ts.
Proof.
  intros H. apply mapM_Forall2. induction H; constructor; [apply trigger_of_row_spec; assumption|assumption].
Qed.

Lemma validate_trig_row_inv r row : validate_trig_row r = Ok row ->
  get_str trig_fields f_type (tr_type r) = Ok (t_type row) /\
  get_str trig_fields f_match_type (tr_match_type r) = Ok (t_match_type row) /\
  get_list trig_fields f_keywords (tr_keywords r) = Ok (t_keywords row) /\
  enum_ok trigger_type_enum (t_type row) = true /\
  (tr_match_type r <> None -> match_type_ok (t_type row) (t_match_type row) = true).
Proof.
  unfold validate_trig_row, bind.
  destruct (get_str trig_fields f_type (tr_type r)) as [v0|]; [|discriminate].
  destruct (get_list trig_fields f_keywords (tr_keywords r)) as [v1|]; [|discriminate].
  destruct (get_str trig_fields f_flow (tr_flow r)) as [v2|]; [|discriminate].
  destruct (get_list trig_fields f_groups (tr_groups r)) as [v3|]; [|discriminate].
  destruct (get_list trig_fields f_exclude_groups (tr_exclude_groups r)) as [v4|]; [|discriminate].
  destruct (get_str trig_fields f_channel (tr_channel r)) as [v5|]; [|discriminate].
  destruct (get_str trig_fields f_match_type (tr_match_type r)) as [v6|]; [|discriminate].
  destruct (enum_ok trigger_type_enum v0) eqn:E1; cbn [negb]; [|discriminate].
  destruct (tr_match_type r) as [m|] eqn:Em.
  - destruct (match_type_ok v0 v6) eqn:E2; cbn [negb andb]; [|discriminate].
    intros H. inversion H; subst; cbn [t_type t_match_type t_keywords].
    split; [reflexivity|]. split; [reflexivity|]. split; [reflexivity|]. split; [exact E1|]. intros _. exact E2.
  - cbn [negb andb]. intros H. inversion H; subst; cbn [t_type t_match_type t_keywords].
    split; [reflexivity|]. split; [reflexivity|]. split; [reflexivity|]. split; [exact E1|]. congruence.
Qed.

(* a written trigger type outside the list, or a written match type outside the list that
   the code has NOW for the (valid) type of the row *)
Definition trig_enum_invalid (r : trig_raw) : Prop :=
  (exists u l, tr_type r = Some u /\ trigger_type_enum = Some l /\ ~ In (strip u) l) \/
  (exists u m l, tr_type r = Some u /\ tr_match_type r = Some m /\
                 assoc (strip u) match_type_rules = Some (Some l) /\ ~ In (strip m) l).

Lemma trig_enum_invalid_rejected r : trig_enum_invalid r -> exists e, validate_trig_row r = Err e.
Proof.
  intros H. destruct (validate_trig_row r) as [row|e] eqn:E; [|eexists; reflexivity]. exfalso.
  apply validate_trig_row_inv in E. destruct E as (Ht & Hm & _ & E1 & E2).
  destruct H as [(u & l & Hc & Htb & Hn)|(u & m & l & Hc & Hmc & Htb & Hn)].
  - rewrite Hc in Ht. apply get_str_some in Ht. rewrite Ht in E1.
    rewrite (enum_ok_false _ _ _ Htb Hn) in E1. discriminate.
  - rewrite Hc in Ht. apply get_str_some in Ht. rewrite Hmc in Hm. apply get_str_some in Hm.
    assert (Hsome : tr_match_type r <> None) by congruence. specialize (E2 Hsome).
    unfold match_type_ok in E2. rewrite Ht, Hm, Htb in E2. cbn in E2.
    rewrite (mem_str_false _ _ Hn) in E2. discriminate.
Qed.

Theorem trigger_invalid_rejected raws r :
  In r raws -> trig_enum_invalid r -> exists e, parse_trigger_sheet raws = Err e.
Proof.
  intros Hin Hinv. destruct (trig_enum_invalid_rejected r Hinv) as [e He].
  unfold parse_trigger_sheet, bind.
  destruct (mapM_err_in validate_trig_row raws r e Hin He) as [e' ->]. eexists; reflexivity.
Qed.

Theorem trigger_sheet_rowwise raws ts : parse_trigger_sheet raws = Ok ts ->
  length ts = length raws /\
  exists rows, Forall2 (fun raw row => validate_trig_row raw = Ok row) raws rows /\
               Forall2 trigger_spec rows ts.
Proof.
  unfold parse_trigger_sheet, bind. destruct (mapM validate_trig_row raws) as [rows|] eqn:E; [|discriminate].
  intros H. destruct (trigger_rowwise _ _ H) as (Hlen & Hall & _). split.
  - rewrite Hlen. exact (mapM_length _ _ _ E).
  - exists rows. split; [apply mapM_Forall2; exact E|exact Hall].
Qed.

(* a keyword trigger without a (first) keyword is rejected *)
Theorem trigger_no_keyword_rejected rows r :
  In r rows -> fst (kw_rule (t_type r)) = true ->
  (t_keywords r = [] \/ exists ks, t_keywords r = [] :: ks) ->
  exists e, parse_triggers rows = Err e.
Proof.
  intros Hin Hneed Hk.
  assert (He : exists e, trigger_of_row r = Err e).
  { destruct (trigger_of_row r) as [t|e] eqn:E; [|eexists; reflexivity]. exfalso.
    apply trigger_of_row_spec in E. destruct E as (_ & _ & _ & _ & _ & _ & _ & _ & _ & _ & H11).
    destruct (H11 Hneed) as (k & ks & Hk1 & Hk2). destruct Hk as [Hk|[ks' Hk]]; rewrite Hk in Hk1.
    - discriminate.
    - inversion Hk1; subst. congruence. }
  destruct He as [e He]. exact (mapM_err_in trigger_of_row rows r e Hin He).
Qed.

(* ---------------------------------------------------------------- tables against the property text *)
Definition is_some {T} (o : option T) : bool := match o with Some _ => true | None => false end.

(* every validator the property names still rejects something, for match types at least one
   trigger type has a list; a row without delivery hour gets -1; the field names the model
   reads exist in the row models with the kind the model assumes *)
Definition c19_tables_ok : bool :=
  is_some unit_enum && is_some start_mode_enum && is_some event_type_enum
  && is_some trigger_type_enum
  && existsb (fun r => is_some (snd r)) match_type_rules
  && Z.eqb default_delivery_hour (-1)
  && negb (is_nil event_types_needing_message)
  && forallb (fun n => match assoc n camp_fields with Some (0, _) => true | _ => false end)
       [f_offset; f_unit; f_event_type; f_delivery_hour; f_message; f_relative_to; f_start_mode;
        f_flow; f_base_language]
  && forallb (fun n => match assoc n trig_fields with Some (0, _) => true | _ => false end)
       [f_type; f_flow; f_channel; f_match_type]
  && forallb (fun n => match assoc n trig_fields with Some (1, _) => true | _ => false end)
       [f_keywords; f_groups; f_exclude_groups].

Lemma c19_tables_ok_true : c19_tables_ok = true.
Proof. vm_compute. reflexivity. Qed.

Lemma default_hour_minus_one : default_delivery_hour = (-1)%Z.
Proof. vm_compute. reflexivity. Qed.

(* ---------------------------------------------------------------- the index: registries *)
Section Registry.
Context {V : Type} (Q : V -> Prop).

Lemma Forall_oset (d : list (str * V)) k v :
  Forall (fun x => Q (snd x)) d -> Q v -> Forall (fun x => Q (snd x)) (oset str_eqb d k v).
Proof.
  intros Hd Hv. induction Hd as [|[k' v'] r Hx Hr IH]; cbn.
  - constructor; [exact Hv|constructor].
  - destruct (str_eqb k' k); constructor; try assumption.
Qed.

Lemma Forall_opop (d : list (str * V)) k :
  Forall (fun x => Q (snd x)) d -> Forall (fun x => Q (snd x)) (opop str_eqb d k).
Proof.
  intros Hd. induction Hd as [|[k' v'] r Hx Hr IH]; cbn; [constructor|].
  destruct (str_eqb k' k); [exact Hr|constructor; assumption].
Qed.
End Registry.

Definition camp_rows_ok (e : env) (v : str * list camp_row) : Prop :=
  exists sheet raws, assoc sheet (camp_sheets e) = Some raws /\
                     Forall2 (fun raw row => validate_camp_row raw = Ok row) raws (snd v).
Definition trig_rows_ok (e : env) (rows : list trig_row) : Prop :=
  exists sheet raws, assoc sheet (trig_sheets e) = Some raws /\
                     Forall2 (fun raw row => validate_trig_row raw = Ok row) raws rows.

Definition state_ok (e : env) (st : state) : Prop :=
  Forall (fun x => camp_rows_ok e (snd x)) (st_campaigns st) /\
  Forall (fun x => trig_rows_ok e (snd x)) (st_triggers st).

Lemma step_ok e st r st' : state_ok e st -> step e st r = Ok st' -> state_ok e st'.
Proof.
  intros [Hc Ht] H. destruct r as [sheet new group|sheet|name]; cbn in H.
  - destruct (assoc sheet (camp_sheets e)) as [raws|] eqn:Ea; [|discriminate]. unfold bind in H.
    destruct (mapM validate_camp_row raws) as [rows|] eqn:Em; [|discriminate].
    inversion H; subst; clear H. split; cbn; [|exact Ht].
    apply Forall_oset; [exact Hc|]. exists sheet, raws. split; [exact Ea|]. apply mapM_Forall2. exact Em.
  - destruct (assoc sheet (trig_sheets e)) as [raws|] eqn:Ea; [|discriminate]. unfold bind in H.
    destruct (mapM validate_trig_row raws) as [rows|] eqn:Em; [|discriminate].
    inversion H; subst; clear H. split; cbn; [exact Hc|].
    apply Forall_oset; [exact Ht|]. exists sheet, raws. split; [exact Ea|]. apply mapM_Forall2. exact Em.
  - inversion H; subst; clear H. split; cbn; apply Forall_opop; assumption.
Qed.

Lemma register_ok e idx st : register e idx = Ok st -> state_ok e st.
Proof.
  unfold register. apply (foldM_invariant (step e) (state_ok e)).
  - intros a x a' _ Pa Hs. exact (step_ok e a x a' Pa Hs).
  - split; constructor.
Qed.

Lemma Forall2_length {X Y} (R : X -> Y -> Prop) l l' : Forall2 R l l' -> length l = length l'.
Proof. induction 1; cbn; congruence. Qed.

(* what a compiled campaign is: the rows of one campaign sheet of the index, validated,
   one event per row in order *)
Definition campaign_rowwise_from (e : env) (c : campaign) : Prop :=
  exists sheet raws rows,
    assoc sheet (camp_sheets e) = Some raws /\
    Forall2 (fun raw row => validate_camp_row raw = Ok row) raws rows /\
    Forall2 event_spec rows (cp_events c) /\
    length (cp_events c) = length raws.

Definition triggers_rowwise_from (e : env) (ts : list trigger) : Prop :=
  exists sheet raws rows,
    assoc sheet (trig_sheets e) = Some raws /\
    Forall2 (fun raw row => validate_trig_row raw = Ok row) raws rows /\
    Forall2 trigger_spec rows ts /\
    length ts = length raws.

Theorem compile_rowwise e idx known cs ts :
  compile e idx known = Ok (cs, ts) ->
  Forall (campaign_rowwise_from e) cs /\
  (exists tss, ts = List.concat tss /\ Forall (triggers_rowwise_from e) tss) /\
  Forall (fun t => In (g_flow t) (known ++ campaign_flow_names cs)) ts.
Proof.
  unfold compile, bind. destruct (register e idx) as [st|] eqn:Er; [|discriminate].
  destruct (parse_all st) as [out|] eqn:Ep; [|discriminate].
  unfold check_known.
  destruct (forallb _ (snd out)) eqn:Ek; [|discriminate].
  intros H. inversion H; subst; clear H.
  apply register_ok in Er. destruct Er as [Hc Ht].
  unfold parse_all, bind in Ep.
  destruct (mapM campaign_of (st_campaigns st)) as [cs0|] eqn:Ec; [|discriminate].
  destruct (mapM (fun entry => parse_triggers (snd entry)) (st_triggers st)) as [tss|] eqn:Et; [|discriminate].
  inversion Ep; subst; clear Ep. cbn [fst snd] in *.
  split; [|split].
  - apply mapM_Forall2 in Ec. clear Ek.
    induction Ec as [|entry c l l' Hentry Hrest IH]; [constructor|].
    inversion Hc as [|x0 l0 Hx Hl]; subst. constructor; [|apply IH; exact Hl].
    unfold campaign_of, bind in Hentry.
    destruct (parse_campaign (snd (snd entry))) as [evs|] eqn:Epc; [|discriminate].
    inversion Hentry; subst; clear Hentry. cbn [cp_events].
    destruct Hx as (sheet & raws & Ha & Hv).
    destruct (campaign_rowwise _ _ Epc) as (Hlen & Hall & _).
    exists sheet, raws, (snd (snd entry)).
    split; [exact Ha|]. split; [exact Hv|]. split; [exact Hall|].
    transitivity (length (snd (snd entry))); [exact Hlen|symmetry; exact (Forall2_length _ _ _ Hv)].
  - exists tss. split; [reflexivity|].
    apply mapM_Forall2 in Et. clear Ek.
    induction Et as [|entry tl l l' Hentry Hrest IH]; [constructor|].
    inversion Ht as [|x0 l0 Hx Hl]; subst. constructor; [|apply IH; exact Hl].
    destruct Hx as (sheet & raws & Ha & Hv).
    destruct (trigger_rowwise _ _ Hentry) as (Hlen & Hall & _).
    exists sheet, raws, (snd entry).
    split; [exact Ha|]. split; [exact Hv|]. split; [exact Hall|].
    transitivity (length (snd entry)); [exact Hlen|symmetry; exact (Forall2_length _ _ _ Hv)].
  - apply Forall_forall. intros t Hin. rewrite forallb_forall in Ek. specialize (Ek t Hin).
    apply mem_str_In in Ek. exact Ek.
Qed.

(* an enum-invalid row in a sheet that some create_campaign / create_triggers row of the
   index names stops the whole run — wherever the row is, wherever the index row is, and
   even if the definition is overwritten or ignored later *)
Theorem compile_campaign_invalid_rejected e idx known sheet new group raws r :
  In (ICampaign sheet new group) idx -> assoc sheet (camp_sheets e) = Some raws ->
  In r raws -> camp_enum_invalid r -> exists err, compile e idx known = Err err.
Proof.
  intros Hidx Ha Hin Hinv. unfold compile, bind.
  destruct (foldM_err_in (step e) idx (ICampaign sheet new group) Hidx) with (a := empty_state) as [err Herr].
  - intros a. cbn. rewrite Ha. unfold bind.
    destruct (camp_enum_invalid_rejected r Hinv) as [e1 He1].
    destruct (mapM_err_in validate_camp_row raws r e1 Hin He1) as [e2 ->]. eexists; reflexivity.
  - unfold register. rewrite Herr. eexists; reflexivity.
Qed.

Theorem compile_trigger_invalid_rejected e idx known sheet raws r :
  In (ITriggers sheet) idx -> assoc sheet (trig_sheets e) = Some raws ->
  In r raws -> trig_enum_invalid r -> exists err, compile e idx known = Err err.
Proof.
  intros Hidx Ha Hin Hinv. unfold compile, bind.
  destruct (foldM_err_in (step e) idx (ITriggers sheet) Hidx) with (a := empty_state) as [err Herr].
  - intros a. cbn. rewrite Ha. unfold bind.
    destruct (trig_enum_invalid_rejected r Hinv) as [e1 He1].
    destruct (mapM_err_in validate_trig_row raws r e1 Hin He1) as [e2 ->]. eexists; reflexivity.
  - unfold register. rewrite Herr. eexists; reflexivity.
Qed.

(* for witnesses computed over the regenerated tables, whatever the lists contain *)
Definition enum_rejects (tbl : option (list str)) (v : str) : bool :=
  match tbl with Some l => negb (mem_str v l) | None => false end.

Lemma enum_rejects_spec tbl v : enum_rejects tbl v = true -> exists l, tbl = Some l /\ ~ In v l.
Proof.
  destruct tbl as [l|]; cbn; [|discriminate]. intros H. exists l. split; [reflexivity|].
  intros Hin. apply mem_str_In in Hin. rewrite Hin in H. discriminate.
Qed.

Lemma camp_unit_invalid_witness r u :
  cr_unit r = Some u -> enum_rejects unit_enum (strip u) = true -> camp_enum_invalid r.
Proof.
  intros Hu H. destruct (enum_rejects_spec _ _ H) as (l & Hl & Hn). left. exists u, l. auto.
Qed.

Lemma trig_match_type_invalid_witness r u m :
  tr_type r = Some u -> tr_match_type r = Some m ->
  (match assoc (strip u) match_type_rules with Some tbl => enum_rejects tbl (strip m) | None => false end) = true ->
  trig_enum_invalid r.
Proof.
  intros Hu Hm H. destruct (assoc (strip u) match_type_rules) as [tbl|] eqn:Ea; [|discriminate].
  destruct (enum_rejects_spec _ _ H) as (l & Hl & Hn). subst tbl. right. exists u, m, l. auto.
Qed.

(* ---------------------------------------------------------------- rows are independent *)
(* What a row becomes does not depend on the rows around it: a sheet that is two sheets one
   after the other compiles to the two results one after the other, and the error of a sheet
   is the error of its FIRST offending row (nothing after that row is looked at). *)
Section MapMApp.
Context {E S T : Type} (f : S -> result E T).

Lemma mapM_app a b : mapM f (a ++ b) =
  match mapM f a with
  | Err e => Err e
  | Ok ya => match mapM f b with Err e => Err e | Ok yb => Ok (ya ++ yb) end
  end.
Proof.
  induction a as [|x a IH]; cbn.
  - destruct (mapM f b); reflexivity.
  - destruct (f x) as [y|e]; [|reflexivity]. rewrite IH.
    destruct (mapM f a) as [ya|e]; [|reflexivity]. destruct (mapM f b); reflexivity.
Qed.

Lemma mapM_app_ok a b ys : mapM f (a ++ b) = Ok ys <->
  exists ya yb, mapM f a = Ok ya /\ mapM f b = Ok yb /\ ys = ya ++ yb.
Proof.
  rewrite mapM_app. destruct (mapM f a) as [ya|e].
  - destruct (mapM f b) as [yb|e].
    + split.
      * intros H. inversion H. exists ya, yb. auto.
      * intros (ya' & yb' & Ha & Hb & ->). inversion Ha. inversion Hb. reflexivity.
    + split; [discriminate|]. intros (ya' & yb' & _ & Hb & _). discriminate.
  - split; [discriminate|]. intros (ya' & yb' & Ha & _). discriminate.
Qed.

Lemma mapM_first_err a x b ya e :
  mapM f a = Ok ya -> f x = Err e -> mapM f (a ++ x :: b) = Err e.
Proof. intros Ha Hx. rewrite mapM_app, Ha. cbn. rewrite Hx. reflexivity. Qed.
End MapMApp.

Theorem campaign_rows_independent a b evs : parse_campaign (a ++ b) = Ok evs <->
  exists ea eb, parse_campaign a = Ok ea /\ parse_campaign b = Ok eb /\ evs = ea ++ eb.
Proof. unfold parse_campaign. apply mapM_app_ok. Qed.

Theorem campaign_first_offending_row a r b ea e :
  parse_campaign a = Ok ea -> event_of_row r = Err e -> parse_campaign (a ++ r :: b) = Err e.
Proof. unfold parse_campaign. apply mapM_first_err. Qed.

Theorem trigger_rows_independent a b ts : parse_triggers (a ++ b) = Ok ts <->
  exists ta tb, parse_triggers a = Ok ta /\ parse_triggers b = Ok tb /\ ts = ta ++ tb.
Proof. unfold parse_triggers. apply mapM_app_ok. Qed.

Theorem trigger_first_offending_row a r b ta e :
  parse_triggers a = Ok ta -> trigger_of_row r = Err e -> parse_triggers (a ++ r :: b) = Err e.
Proof. unfold parse_triggers. apply mapM_first_err. Qed.

(* the same for whole sheets of raw cells (validation of every row, then the events) *)
Theorem campaign_sheet_rows_independent a b evs : parse_campaign_sheet (a ++ b) = Ok evs <->
  exists ea eb, parse_campaign_sheet a = Ok ea /\ parse_campaign_sheet b = Ok eb /\ evs = ea ++ eb.
Proof.
  unfold parse_campaign_sheet, bind. rewrite mapM_app.
  destruct (mapM validate_camp_row a) as [ra|e].
  - destruct (mapM validate_camp_row b) as [rb|e].
    + apply campaign_rows_independent.
    + split; [discriminate|]. intros (ea & eb & _ & Hb & _). discriminate.
  - split; [discriminate|]. intros (ea & eb & Ha & _). discriminate.
Qed.

Theorem trigger_sheet_rows_independent a b ts : parse_trigger_sheet (a ++ b) = Ok ts <->
  exists ta tb, parse_trigger_sheet a = Ok ta /\ parse_trigger_sheet b = Ok tb /\ ts = ta ++ tb.
Proof.
  unfold parse_trigger_sheet, bind. rewrite mapM_app.
  destruct (mapM validate_trig_row a) as [ra|e].
  - destruct (mapM validate_trig_row b) as [rb|e].
    + apply trigger_rows_independent.
    + split; [discriminate|]. intros (ea & eb & _ & Hb & _). discriminate.
  - split; [discriminate|]. intros (ea & eb & Ha & _). discriminate.
Qed.
