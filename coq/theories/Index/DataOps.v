(* E5 / C11 — model of the data-sheet operations of
   rpft/parsers/creation/contentindexparser.py:
     _process_data_sheet, _get_data_sheet, _get_new_data_sheet, _data_sheets_concat,
     _data_sheets_filter, _data_sheets_sort, DataSheet.to_dict / data_sheets_to_dict.
   Definitions only (facts are in DataOpsFacts.v).

   Rows are abstract ([R]); the Python [eval]s a user expression with the row's fields as
   variables: the model receives the outcome as [pred : R -> option bool] (None = the
   evaluation raises, Some true = the value [is True], Some false = any other value) and
   [key : R -> option K] (None = raises) with an order [kleb] on K.  The operation words
   ("concat", "filter", "sort", "descending") come from the regenerated Gen/Tables.v. *)
From Coq Require Import List NArith Bool.
From RPFT Require Import Base.Sexp Base.PyStr Base.ODict Base.Result Gen.Tables.
Import ListNotations.

(* every LOGGER.critical site / uncaught exception of the modelled functions *)
Inductive derr :=
| ENoSheetName      (* "at least one sheet_name has to be specified" *)
| ENoNewName        (* "If an operation is applied to a data_sheet, a new_name has to be provided" *)
| EUnknownOp        (* 'Unknown operation "..."' *)
| ESheetNotFound    (* ParserError("Sheet not found") from _get_sheet_or_die *)
| EUndefinedModel   (* 'Undefined data_model_name' *)
| EModelMismatch    (* "Cannot concatenate data_sheets with different underlying models" *)
| EEval.            (* the filter / sort expression raises (NameError, SyntaxError -> critical;
                       anything else -> uncaught exception) *)

(* identity of a row-model class: [user_model is not data_sheet.row_model] compares classes
   by identity; every inference (model_from_headers) creates a new class *)
Inductive mid := MExplicit (name : str) | MInferred (stamp : nat).

Definition mid_eqb (a b : mid) : bool :=
  match a, b with
  | MExplicit x, MExplicit y => str_eqb x y
  | MInferred x, MInferred y => Nat.eqb x y
  | _, _ => false
  end.

Definition is_empty (s : str) : bool := match s with [] => true | _ => false end.

(* operation.order.lower() == "descending" *)
Definition is_descending (order : str) : bool :=
  str_eqb (if dop_desc_case_insensitive then lower order else order) dop_word_desc.

(* ------------------------------------------------------------------ stable sort, generic *)
Section Sort.
Context {A K : Type}.
Variable le : K -> K -> bool.
Variable kf : A -> K.

(* x came before every element of l in the source: it goes in front of the first element
   that is not smaller, hence in front of its equals *)
Fixpoint insert (x : A) (l : list A) : list A :=
  match l with
  | [] => [x]
  | y :: r => if le (kf x) (kf y) then x :: y :: r else y :: insert x r
  end.

Fixpoint isort (l : list A) : list A :=
  match l with
  | [] => []
  | x :: r => insert x (isort r)
  end.
End Sort.

Section DataOps.
Context {I R K : Type}.
Variable ieqb : I -> I -> bool.
Variable kleb : K -> K -> bool.       (* key a <= key b *)
Variable rid : R -> I.                (* row.ID *)

Definition rows_t := list (I * R).    (* OrderedDict row_id -> row *)

(* sorted(..., reverse=True) is the stable sort by the reversed ORDER, not the reversed
   list: equal keys keep source order in both directions *)
Definition dir_le (desc : bool) (a b : K) : bool := if desc then kleb b a else kleb a b.

(* OrderedDict(pairs): a later pair with a seen key replaces the content in place *)
Definition of_items (l : list (I * R)) : rows_t := oupdate ieqb [] l.

(* OrderedDict((row.ID, row) for row in data_rows) *)
Definition of_rows (l : list R) : rows_t := of_items (map (fun r => (rid r, r)) l).

(* all_data_rows = OrderedDict(); for each source: all_data_rows.update(source.rows) *)
Definition concat_rows (srcs : list rows_t) : rows_t := fold_left (oupdate ieqb) srcs [].

(* for row_id, row in rows.items(): if eval(...) is True: new[row_id] = row *)
Fixpoint filter_loop (pred : R -> option bool) (d : list (I * R)) (acc : rows_t) : result derr rows_t :=
  match d with
  | [] => Ok acc
  | (i, r) :: t =>
    match pred r with
    | None => Err EEval
    | Some true => filter_loop pred t (oset ieqb acc i r)
    | Some false => filter_loop pred t acc
    end
  end.
Definition filter_rows (pred : R -> option bool) (d : rows_t) : result derr rows_t :=
  filter_loop pred d [].

(* sorted() evaluates the key of every item first (decorate), then sorts *)
Fixpoint decorate (key : R -> option K) (d : list (I * R)) : result derr (list (K * (I * R))) :=
  match d with
  | [] => Ok []
  | (i, r) :: t =>
    match key r with
    | None => Err EEval
    | Some k => match decorate key t with
                | Err e => Err e
                | Ok dl => Ok ((k, (i, r)) :: dl)
                end
    end
  end.

Definition sort_rows (key : R -> option K) (desc : bool) (d : rows_t) : result derr rows_t :=
  match decorate key d with
  | Err e => Err e
  | Ok dl => Ok (of_items (map snd (isort (dir_le desc) fst dl)))
  end.

(* ------------------------------------------------------------------ registry *)
Record dsheet := mk_dsheet { ds_rows : rows_t; ds_model : mid }.

Record state := mk_state {
  reg : list (str * dsheet);   (* self.data_sheets: name -> DataSheet, insertion ordered *)
  next_stamp : nat             (* number of row-model classes inferred so far *)
}.

Definition init_state : state := mk_state [] 0.

(* the sheet reader + row parser: the rows of a fresh sheet, parsed under an explicit
   user model (true) or the inferred one (false); None = no such sheet *)
Variable raw : str -> bool -> option (list R).
Variable model_defined : str -> bool.   (* hasattr(user_models_module, name) *)

(* one data_sheet row of the content index *)
Record irow := mk_irow {
  ir_sheet_names : list str;
  ir_new_name : str;
  ir_data_model : str;
  ir_op_type : str;
  ir_pred : R -> option bool;   (* meaning of operation.expression as a filter *)
  ir_key : R -> option K;       (* meaning of operation.expression as a sort key *)
  ir_order : str
}.

(* _get_new_data_sheet (a user models module is always supplied: save_data_sheets needs it) *)
Definition load_fresh (n : nat) (name dm : str) : result derr (dsheet * nat) :=
  if is_empty dm then
    match raw name false with
    | None => Err ESheetNotFound
    | Some rows => Ok (mk_dsheet (of_rows rows) (MInferred n), S n)
    end
  else if model_defined dm then
    match raw name true with
    | None => Err ESheetNotFound
    | Some rows => Ok (mk_dsheet (of_rows rows) (MExplicit dm), n)
    end
  else Err EUndefinedModel.

(* _get_data_sheet: a registered sheet wins (data_model is then ignored) *)
Definition get_sheet (st : state) (n : nat) (name dm : str) : result derr (dsheet * nat) :=
  match oget str_eqb (reg st) name with
  | Some d => Ok (d, n)
  | None => load_fresh n name dm
  end.

(* _data_sheets_concat *)
Fixpoint concat_loop (st : state) (names : list str) (dm : str) (acc : rows_t) (um : option mid) (n : nat)
  : result derr (rows_t * option mid * nat) :=
  match names with
  | [] => Ok (acc, um, n)
  | name :: rest =>
    match get_sheet st n name dm with
    | Err e => Err e
    | Ok (d, n') =>
      if match um with Some m => negb (mid_eqb m (ds_model d)) | None => false end
      then Err EModelMismatch
      else concat_loop st rest dm (oupdate ieqb acc (ds_rows d)) (Some (ds_model d)) n'
    end
  end.

Definition op_concat (st : state) (names : list str) (dm : str) : result derr (dsheet * nat) :=
  match concat_loop st names dm [] None (next_stamp st) with
  | Err e => Err e
  | Ok (acc, Some m, n) => Ok (mk_dsheet acc m, n)
  | Ok (_, None, _) => Err ENoSheetName   (* unreachable: names is checked non-empty before *)
  end.

(* _data_sheets_filter *)
Definition op_filter (st : state) (name dm : str) (pred : R -> option bool) : result derr (dsheet * nat) :=
  match get_sheet st (next_stamp st) name dm with
  | Err e => Err e
  | Ok (d, n) => match filter_rows pred (ds_rows d) with
                 | Err e => Err e
                 | Ok rows => Ok (mk_dsheet rows (ds_model d), n)
                 end
  end.

(* _data_sheets_sort *)
Definition op_sort (st : state) (name dm : str) (key : R -> option K) (order : str) : result derr (dsheet * nat) :=
  match get_sheet st (next_stamp st) name dm with
  | Err e => Err e
  | Ok (d, n) => match sort_rows key (is_descending order) (ds_rows d) with
                 | Err e => Err e
                 | Ok rows => Ok (mk_dsheet rows (ds_model d), n)
                 end
  end.

(* the sheet an index row produces, before registration *)
Definition op_result (st : state) (r : irow) : result derr (dsheet * nat) :=
  match ir_sheet_names r with
  | [] => Err ENoSheetName
  | first :: _ =>
    if is_empty (ir_op_type r) then op_concat st (ir_sheet_names r) (ir_data_model r)
    else if is_empty (ir_new_name r) then Err ENoNewName
    else if str_eqb (ir_op_type r) dop_word_concat then op_concat st (ir_sheet_names r) (ir_data_model r)
    else if str_eqb (ir_op_type r) dop_word_filter then op_filter st first (ir_data_model r) (ir_pred r)
    else if str_eqb (ir_op_type r) dop_word_sort then op_sort st first (ir_data_model r) (ir_key r) (ir_order r)
    else Err EUnknownOp
  end.

(* new_name = row.new_name or sheet_names[0] *)
Definition target (r : irow) : str :=
  if is_empty (ir_new_name r) then hd [] (ir_sheet_names r) else ir_new_name r.

(* _process_data_sheet: self.data_sheets[new_name] = data_sheet *)
Definition step (st : state) (r : irow) : result derr state :=
  match op_result st r with
  | Err e => Err e
  | Ok (d, n) => Ok (mk_state (oset str_eqb (reg st) (target r) d) n)
  end.

(* the data_sheet rows of a content index, in order; stops at the first error (CLI mode) *)
Definition run (rows : list irow) (st : state) : result derr state := foldM step rows st.

(* the states after every prefix, up to and including the first error: what the harness
   compares with prefix runs of the implementation *)
Fixpoint scan (rows : list irow) (st : state) : list (result derr state) :=
  match rows with
  | [] => []
  | r :: rest => match step st r with
                 | Err e => [Err e]
                 | Ok st' => Ok st' :: scan rest st'
                 end
  end.

(* ------------------------------------------------------------------ export *)
Context {J : Type}.
Variable todict : R -> J.             (* content.dict() *)

(* DataSheet.to_dict()["rows"] *)
Definition sheet_to_dict_rows (d : dsheet) : list J := map (fun kv => todict (snd kv)) (ds_rows d).

(* data_sheets_to_dict()["sheets"] *)
Definition data_sheets_to_dict (st : state) : list (str * list J) :=
  map (fun nd => (fst nd, sheet_to_dict_rows (snd nd))) (reg st).

End DataOps.

(* ------------------------------------------------------------------ the key type of the wire
   Python sort keys of the generated expression family are ints, bools, strs and tuples of
   ints: all are rendered as lists of integers (int n -> [n], str -> code points, tuple ->
   components) compared lexicographically, which is Python's order within each of these types. *)
From Coq Require Import ZArith.
Fixpoint lex_leb (a b : list Z) : bool :=
  match a, b with
  | [], _ => true
  | _ :: _, [] => false
  | x :: a', y :: b' => if Z.ltb x y then true else if Z.ltb y x then false else lex_leb a' b'
  end.
