(* Concrete witnesses (vm_compute) for C12: non-vacuity of the hypotheses, facts about the
   regenerated tables, and the blank-ID witness. *)
From Coq Require Import List NArith Bool.
From RPFT Require Import Base.Sexp Base.PyStr Base.ODict Base.Result Gen.Tables Cell.Cell
  Index.Args Index.ArgsFacts Index.Bulk Index.BulkFacts.
Import ListNotations.
Local Open Scope N_scope.

(* ---- tables ---- *)
Definition field_eqb (a b : str * bool * str) : bool :=
  let '(n1, r1, d1) := a in let '(n2, r2, d2) := b in
  str_eqb n1 n2 && Bool.eqb r1 r2 && str_eqb d1 d2.

Fixpoint fields_eqb (a b : list (str * bool * str)) : bool :=
  match a, b with
  | [], [] => true
  | x :: a', y :: b' => field_eqb x y && fields_eqb a' b'
  | _, _ => false
  end.

(* "name" required; "type" and "default_value" optional with default "" — the shape
   [argdef] and [arg_value] assume; the sheet keyword is non-blank (so an untyped
   declaration is never sheet-typed); one separator on both paths *)
Definition c12_tables_ok : bool :=
  fields_eqb template_argument_fields
    [([110; 97; 109; 101], true, []);
     ([116; 121; 112; 101], false, []);
     ([100; 101; 102; 97; 117; 108; 116; 95; 118; 97; 108; 117; 101], false, [])]
  && nonblank sheet_type_kw
  && str_eqb flow_name_sep_bulk flow_name_sep_single
  && nonblank flow_name_sep_single.

Lemma c12_tables_ok_true : c12_tables_ok = true.
Proof. vm_compute. reflexivity. Qed.

Lemma name_sep_same : flow_name_sep_bulk = flow_name_sep_single.
Proof.
  assert (H := c12_tables_ok_true). unfold c12_tables_ok in H.
  apply andb_true_iff in H. destruct H as [H _]. apply andb_true_iff in H. destruct H as [_ H].
  apply str_eqb_iff. exact H.
Qed.

(* ---- examples ---- *)
Definition sA : str := [65].   Definition sB : str := [66].  Definition sC : str := [67].
Definition sx : str := [120].  Definition sy : str := [121]. Definition sz : str := [122].
Definition sv : str := [118].  Definition st_ : str := [116]. Definition sd : str := [100].
Definition sr1 : str := [114; 49]. Definition sr2 : str := [114; 50].
Definition slk : str := [108; 107].

Definition ex_sheets : list (str * dsheet nv) :=
  [(sd, [(sr1, [(sv, Str sx)]); (sr2, [(sv, Str sy)])]);
   (slk, [(sx, [(sC, Str sz)])])].

(* declarations  A | B;;y | C;sheet;lk   arguments  x ; "" ; ""   over the data row r1 *)
Definition ex_defs : list argdef :=
  [mk_argdef sA [] []; mk_argdef sB [] sy; mk_argdef sC sheet_type_kw slk].

Definition args_example : Prop :=
  map_template_arguments_to_context ex_sheets ex_defs [Str sx; Str []] (ctx_of_row [(sv, Str sx)])
  = Ok [(sv, VData (Str sx)); (sA, VArg (Str sx)); (sB, VArg (Str sy));
        (sC, VRows [(sx, [(sC, Str sz)])])]
  /\ (* missing required *)
  map_template_arguments_to_context ex_sheets ex_defs [Str []] (@nil (str * cval nv)) = Err (ERequired sA)
  /\ (* clash with a data-row field *)
  map_template_arguments_to_context ex_sheets [mk_argdef sv [] []] [Str sx] (ctx_of_row [(sv, Str sx)])
  = Err (EDoubly sv)
  /\ (* extra arguments dropped *)
  map_template_arguments_to_context ex_sheets [mk_argdef sA [] []] [Str sx; Str sy] (@nil (str * cval nv))
  = Ok [(sA, VArg (Str sx))].

Lemma args_example_holds : args_example.
Proof. vm_compute. repeat split; reflexivity. Qed.

Definition ex_reg : registry nv N :=
  @mk_registry nv N [(st_, (7, [mk_argdef sA [] sy]))] ex_sheets.

Definition ex_compile (name : str) (t : N) (c : ctx nv) (s : N) : result unit ((str * N) * N) :=
  Ok ((name, s), s + 1).

Definition sep := flow_name_sep_single.

Definition bulk_example : Prop :=
  let r := mk_cfrow st_ [] sd [] [Str sz] in
  is_bulk r = true
  /\ paf_rows ex_compile ex_reg [r] ([], 0)
     = Ok ([(st_ ++ sep ++ sr1, (st_ ++ sep ++ sr1, 0)); (st_ ++ sep ++ sr2, (st_ ++ sep ++ sr2, 1))], 2)
  /\ @plan nv N unit ex_reg [r]
     = [Ok (st_ ++ sep ++ sr1, 7, [(sv, VData (Str sx)); (sA, VArg (Str sz))]);
        Ok (st_ ++ sep ++ sr2, 7, [(sv, VData (Str sy)); (sA, VArg (Str sz))])].

Lemma bulk_example_holds : bulk_example.
Proof. vm_compute. repeat split; reflexivity. Qed.

(* a data row whose ID is blank: the bulk row hands _parse_flow a blank data_row_id, which
   takes the branch "no data row": flow named <name>, empty context *)
Definition blank_id_witness : Prop :=
  let reg := @mk_registry nv N [(st_, (7, []))] [(sd, [([], [(sv, Str sx)]); (sr2, [(sv, Str sy)])])] in
  let r := mk_cfrow st_ [] sd [] [] in
  is_bulk r = true
  /\ @plan nv N unit reg [r] = [Ok (st_, 7, []); Ok (st_ ++ sep ++ sr2, 7, [(sv, VData (Str sy))])]
  /\ @plan nv N unit reg (map (with_id r) [[]; sr2]) <> plan reg [r].

Lemma blank_id_witness_holds : blank_id_witness.
Proof. vm_compute. repeat split; try reflexivity. intros H. discriminate H. Qed.
