(* E5 / C10 — the DECLARATIVE reading of a content index, against which the sequential
   fold of Index.v is proved (IndexFacts.v).  Definitions only, all executable.

   A *history* is the list of effective rows: the active rows of the root index sheets in
   reader order, every nested index replaced in place by its own effective rows.
   From a history the final registries are read off without any state:
     - a definition survives iff no LATER row of the history is an ignore_row of its name;
     - flows: the surviving create_flow rows, in order (a list: duplicates stay, the
       dictionary by flow name is built in parse_all);
     - campaigns (by name) / trigger sheets (by sheet name) / templates (by sheet name):
       the last-writer-wins dictionary of the surviving definitions: the value of the LAST
       one, at the place of the FIRST one. *)
From Coq Require Import List NArith ZArith Bool.
From RPFT Require Import Base.Sexp Base.PyStr Base.Result Base.ODict Gen.Tables
     Index.TagMatch Index.Index Index.DictFacts.
Import ListNotations.

(* ---------------------------------------------------------------- sequential run over a history *)

Definition run_rows (wbs : list workbook) (rows : list irow) (st : state) : result err state :=
  foldM (fun st r => step_other wbs r st) rows st.

(* ---------------------------------------------------------------- what a row of the history says *)

Definition row_ignores (r : irow) : option str :=
  match classify (r_type r), r_sheets r with
  | TIgnore, [s] => Some s
  | _, _ => None
  end.

Definition row_flow (r : irow) : option fdef :=
  match classify (r_type r), r_sheets r with
  | TFlow, [s] => Some (mk_fdef s (r_new r) (r_dsheet r) (r_drow r))
  | _, _ => None
  end.

Definition row_camp (wbs : list workbook) (r : irow) : option (str * (sid * str)) :=
  match classify (r_type r), r_sheets r with
  | TCampaign, [s] =>
    match resolve wbs s with
    | Some (id, BCampaign) => Some (str_or (r_new r) s, (id, r_group r))
    | _ => None
    end
  | _, _ => None
  end.

Definition row_trig (wbs : list workbook) (r : irow) : option (str * (sid * list str)) :=
  match classify (r_type r), r_sheets r with
  | TTriggers, [s] =>
    match resolve wbs s with
    | Some (id, BTriggers fl) => Some (s, (id, fl))
    | _ => None
    end
  | _, _ => None
  end.

Definition row_tmpl (wbs : list workbook) (r : irow) : option (str * (sid * body * str)) :=
  match classify (r_type r), r_sheets r with
  | TTemplate, [s] =>
    match resolve wbs s with
    | Some (id, b) => Some (s, (id, b, r_targ r))
    | None => None
    end
  | _, _ => None
  end.

Definition never {T} (_ : irow) : option T := None.      (* templates are never forgotten *)

(* ---------------------------------------------------------------- the registries, declaratively *)

Definition ignored_later (rows : list irow) (n : str) : bool := forgotten_in str_eqb row_ignores rows n.

Definition spec_flows (rows : list irow) : list fdef :=
  lsurvivors str_eqb row_ignores fd_key row_flow rows.

Definition spec_camps (wbs : list workbook) (rows : list irow) : list (str * (sid * str)) :=
  of_list (survivors str_eqb row_ignores (row_camp wbs) rows).

Definition spec_trigs (wbs : list workbook) (rows : list irow) : list (str * (sid * list str)) :=
  of_list (survivors str_eqb row_ignores (row_trig wbs) rows).

Definition tmpl_defs (wbs : list workbook) (rows : list irow) : list (str * (sid * body * str)) :=
  survivors str_eqb never (row_tmpl wbs) rows.

(* the template a flow definition is built from: the last template_definition of that sheet
   name anywhere in the history (before or after the create_flow row, before or after any
   ignore_row), else the sheet itself, resolved, with no argument *)
Definition implicit_template (wbs : list workbook) (fl : list fdef) (s : str) : option (sid * body * str) :=
  if mem_str s (map fd_sheet fl) then
    match resolve wbs s with
    | Some (id, b) => Some (id, b, [])
    | None => None
    end
  else None.

Definition spec_template (wbs : list workbook) (rows : list irow) (s : str) : option (sid * body * str) :=
  match last_val str_eqb (tmpl_defs wbs rows) s with
  | Some x => Some x
  | None => implicit_template wbs (spec_flows rows) s
  end.

(* ---------------------------------------------------------------- the history of a run *)

Fixpoint histories (fuel : nat) (pats : patterns) (wbs : list workbook) (idxs : list (sid * body))
  : option (list irow) :=
  match idxs with
  | [] => Some []
  | (_, BIndex rows) :: rest =>
    match expand fuel pats wbs rows, histories fuel pats wbs rest with
    | Some t, Some h => Some (flatten pats t ++ h)
    | _, _ => None
    end
  | _ :: _ => None
  end.

(* every root index sheet, in reader (= input) order *)
Definition history (fuel : nat) (pats : patterns) (wbs : list workbook) : option (list irow) :=
  histories fuel pats wbs (candidates wbs ci_root_sheet).

(* ---------------------------------------------------------------- nesting depth of an index tree *)

Fixpoint depth_item (i : item) : nat :=
  match i with
  | IRow _ => 0
  | INest _ sub =>
    S ((fix go (l : list item) : nat :=
          match l with [] => 0 | x :: l' => Nat.max (depth_item x) (go l') end) sub)
  end.
Fixpoint depth (t : list item) : nat :=
  match t with [] => 0 | x :: l => Nat.max (depth_item x) (depth l) end.

(* ---------------------------------------------------------------- the state a history resolves to *)

Record resolved (wbs : list workbook) (hist : list irow) (st : state) : Prop := mk_resolved {
  rs_flows : st_flows st = spec_flows hist;
  rs_camps : st_camps st = spec_camps wbs hist;
  rs_trigs : st_trigs st = spec_trigs wbs hist;
  rs_tmpls : forall s, sget (st_templates st) s = spec_template wbs hist s;
  (* the data-sheet registry is the one the sequential run builds (its content is C11's business) *)
  rs_data : exists st1, run_rows wbs hist st0 = Ok st1 /\ st_data st = st_data st1
}.
