(* E5 / C10 — the registries a sequential run ends with are the declarative reading of its
   history (IndexSpec.v): last definition wins, ignore_row forgets exactly one name. *)
From Coq Require Import List NArith ZArith Bool Lia.
From RPFT Require Import Base.Sexp Base.PyStr Base.PyStrFacts Base.Result Base.ODict Gen.Tables
     Index.TagMatch Index.Index Index.DictFacts Index.IndexSpec Index.IndexFacts.
Import ListNotations.

(* ------------------------------------------------------------ frames *)

(* the four registries C10 talks about (the data registry is left to C11) *)
Definition same_regs (st st' : state) : Prop :=
  st_templates st' = st_templates st /\ st_flows st' = st_flows st /\
  st_camps st' = st_camps st /\ st_trigs st' = st_trigs st.

Lemma same_regs_refl st : same_regs st st.
Proof. repeat split. Qed.

Lemma same_regs_trans a b c : same_regs a b -> same_regs b c -> same_regs a c.
Proof. unfold same_regs. intros [H1 [H2 [H3 H4]]] [H5 [H6 [H7 H8]]]. repeat split; congruence. Qed.

Lemma get_data_frame wbs n st ds st' : get_data wbs n st = Ok (ds, st') -> same_regs st st'.
Proof.
  unfold get_data. destruct (sget (st_data st) n) as [d|].
  - intros H. injection H as _ <-. apply same_regs_refl.
  - destruct (resolve wbs n) as [[id b]|]; [|discriminate].
    destruct b; try discriminate. intros H. injection H as _ <-. repeat split.
Qed.

Lemma concat_data_frame wbs names : forall model rows st model' rows' st',
  concat_data wbs names model rows st = Ok (model', rows', st') -> same_regs st st'.
Proof.
  induction names as [|n rest IH]; intros model rows st model' rows' st' H; cbn [concat_data] in H.
  - injection H as _ _ <-. apply same_regs_refl.
  - destruct (get_data wbs n st) as [[ds st1]|e] eqn:Eg; [|discriminate].
    match type of H with (if ?c then _ else _) = _ => destruct c end; [discriminate|].
    apply (same_regs_trans _ st1); [apply (get_data_frame _ _ _ _ _ Eg)|apply (IH _ _ _ _ _ _ H)].
Qed.

Lemma process_data_frame wbs r st st' : process_data wbs r st = Ok st' -> same_regs st st'.
Proof.
  unfold process_data. destruct (r_sheets r) as [|first l]; [discriminate|].
  destruct (concat_data wbs (first :: l) None [] st) as [[[model rows] st1]|e] eqn:Ec; [|discriminate].
  intros H. injection H as <-. apply (same_regs_trans _ st1); [apply (concat_data_frame _ _ _ _ _ _ _ _ Ec)|].
  repeat split.
Qed.

(* ------------------------------------------------------------ what one row does *)

Notation flow_effect := (leffect str_eqb row_ignores fd_key row_flow).
Notation camp_effect wbs := (effect str_eqb row_ignores (row_camp wbs)).
Notation trig_effect wbs := (effect str_eqb row_ignores (row_trig wbs)).
Notation tmpl_effect wbs := (effect str_eqb never (row_tmpl wbs)).

Lemma step_other_effect wbs r st st1 :
  step_other wbs r st = Ok st1 ->
  st_flows st1 = flow_effect (st_flows st) r /\
  st_camps st1 = camp_effect wbs (st_camps st) r /\
  st_trigs st1 = trig_effect wbs (st_trigs st) r /\
  st_templates st1 = tmpl_effect wbs (st_templates st) r.
Proof.
  unfold step_other, effect, leffect, row_ignores, row_flow, row_camp, row_trig, row_tmpl, never.
  destruct (classify (r_type r)) eqn:Ec.
  - (* TIndex *)
    destruct (r_sheets r) as [|s [|s2 l]]; try discriminate. cbn [step_single].
    destruct (resolve wbs s) as [[id b]|]; [|discriminate]. destruct b; discriminate.
  - (* TData *)
    intros H. apply process_data_frame in H as [H1 [H2 [H3 H4]]].
    destruct (r_sheets r) as [|s [|s2 l]]; repeat split; assumption.
  - (* TTemplate *)
    destruct (r_sheets r) as [|s [|s2 l]]; try discriminate. cbn [step_single]. unfold add_template.
    destruct (resolve wbs s) as [[id b]|]; [|discriminate]. intros H. injection H as <-. repeat split.
  - (* TFlow *)
    destruct (r_sheets r) as [|s [|s2 l]]; try discriminate. cbn [step_single].
    intros H. injection H as <-. repeat split.
  - (* TCampaign *)
    destruct (r_sheets r) as [|s [|s2 l]]; try discriminate. cbn [step_single].
    destruct (resolve wbs s) as [[id b]|]; [|discriminate]. destruct b; try discriminate.
    intros H. injection H as <-. repeat split.
  - (* TTriggers *)
    destruct (r_sheets r) as [|s [|s2 l]]; try discriminate. cbn [step_single].
    destruct (resolve wbs s) as [[id b]|]; [|discriminate]. destruct b; try discriminate.
    intros H. injection H as <-. repeat split.
  - (* TIgnore *)
    destruct (r_sheets r) as [|s [|s2 l]]; try discriminate. cbn [step_single].
    intros H. injection H as <-. repeat split.
  - (* TOther *)
    destruct (r_sheets r) as [|s [|s2 l]]; try discriminate. cbn [step_single].
    intros H. injection H as <-. repeat split.
Qed.

Lemma run_rows_effects wbs rows : forall st st',
  run_rows wbs rows st = Ok st' ->
  st_flows st' = fold_left flow_effect rows (st_flows st) /\
  st_camps st' = fold_left (camp_effect wbs) rows (st_camps st) /\
  st_trigs st' = fold_left (trig_effect wbs) rows (st_trigs st) /\
  st_templates st' = fold_left (tmpl_effect wbs) rows (st_templates st).
Proof.
  unfold run_rows. induction rows as [|r rest IH]; intros st st' H; cbn [foldM] in H.
  - injection H as <-. repeat split.
  - destruct (step_other wbs r st) as [st1|e] eqn:E1; [|discriminate].
    apply step_other_effect in E1 as [H1 [H2 [H3 H4]]]. cbn [fold_left].
    rewrite <- H1, <- H2, <- H3, <- H4. apply IH, H.
Qed.

(* ------------------------------------------------------------ no duplicate keys, ever *)

Definition regs_nodup (st : state) : Prop :=
  NoDup (okeys (st_camps st)) /\ NoDup (okeys (st_trigs st)) /\ NoDup (okeys (st_templates st)).

Lemma regs_nodup_st0 : regs_nodup st0.
Proof. repeat split; constructor. Qed.

Lemma run_rows_nodup wbs rows st st' :
  run_rows wbs rows st = Ok st' -> regs_nodup st -> regs_nodup st'.
Proof.
  intros H [H1 [H2 H3]]. apply run_rows_effects in H as [_ [Hc [Ht Hp]]].
  unfold regs_nodup. rewrite Hc, Ht, Hp.
  repeat split; apply (fold_effect_nodup str_eqb str_eqb_eq); assumption.
Qed.

Lemma never_forgotten rows (n : str) : forgotten_in str_eqb (@never str) rows n = false.
Proof. induction rows as [|r rest IH]; [reflexivity|]. cbn. exact IH. Qed.

(* ------------------------------------------------------------ 3. last definition wins: the registries *)

Theorem run_rows_registries wbs rows st :
  run_rows wbs rows st0 = Ok st ->
  st_flows st = spec_flows rows /\
  st_camps st = spec_camps wbs rows /\
  st_trigs st = spec_trigs wbs rows /\
  st_templates st = of_list (tmpl_defs wbs rows).
Proof.
  intros H. apply run_rows_effects in H as [Hf [Hc [Ht Hp]]]. cbn [st0 st_flows st_camps st_trigs st_templates] in *.
  repeat split.
  - rewrite Hf, (fold_leffect_spec str_eqb str_eqb_eq). reflexivity.
  - rewrite Hc, (fold_effect_empty str_eqb str_eqb_eq). reflexivity.
  - rewrite Ht, (fold_effect_empty str_eqb str_eqb_eq). reflexivity.
  - rewrite Hp, (fold_effect_empty str_eqb str_eqb_eq). reflexivity.
Qed.

(* from ANY reachable state: entries nobody forgot, updated by the survivors *)
Theorem run_rows_registries_from wbs rows st st' :
  regs_nodup st -> run_rows wbs rows st = Ok st' ->
  st_flows st' = filter (fun f => negb (ignored_later rows (fd_key f))) (st_flows st) ++ spec_flows rows /\
  st_camps st' = oupdate str_eqb (filter (fun kv => negb (ignored_later rows (fst kv))) (st_camps st))
                         (survivors str_eqb row_ignores (row_camp wbs) rows) /\
  st_trigs st' = oupdate str_eqb (filter (fun kv => negb (ignored_later rows (fst kv))) (st_trigs st))
                         (survivors str_eqb row_ignores (row_trig wbs) rows) /\
  st_templates st' = oupdate str_eqb (st_templates st) (tmpl_defs wbs rows).
Proof.
  intros [N1 [N2 N3]] H. apply run_rows_effects in H as [Hf [Hc [Ht Hp]]]. repeat split.
  - rewrite Hf. apply (fold_leffect_spec str_eqb str_eqb_eq).
  - rewrite Hc. apply (fold_effect_spec str_eqb str_eqb_eq). exact N1.
  - rewrite Ht. apply (fold_effect_spec str_eqb str_eqb_eq). exact N2.
  - rewrite Hp, (fold_effect_spec str_eqb str_eqb_eq) by exact N3. f_equal.
    apply filter_all_true. intros x _. rewrite never_forgotten. reflexivity.
Qed.

(* ------------------------------------------------------------ the last word on a name *)

(* campaign [n] / trigger sheet [n] is decided by the LAST row of the history that mentions
   [n]: an ignore_row => absent, a definition => that definition *)
Theorem camp_last_word wbs rows st n :
  run_rows wbs rows st0 = Ok st ->
  sget (st_camps st) n =
  match last_word str_eqb row_ignores (row_camp wbs) rows n with Some w => w | None => None end.
Proof.
  intros H. apply run_rows_effects in H as [_ [Hc _]]. unfold sget. rewrite Hc.
  cbn [st0 st_camps]. rewrite (oget_fold_effect str_eqb str_eqb_eq) by constructor. reflexivity.
Qed.

Theorem trig_last_word wbs rows st n :
  run_rows wbs rows st0 = Ok st ->
  sget (st_trigs st) n =
  match last_word str_eqb row_ignores (row_trig wbs) rows n with Some w => w | None => None end.
Proof.
  intros H. apply run_rows_effects in H as [_ [_ [Ht _]]]. unfold sget. rewrite Ht.
  cbn [st0 st_trigs]. rewrite (oget_fold_effect str_eqb str_eqb_eq) by constructor. reflexivity.
Qed.

Theorem tmpl_last_word wbs rows st n :
  run_rows wbs rows st0 = Ok st ->
  sget (st_templates st) n =
  match last_word str_eqb never (row_tmpl wbs) rows n with Some w => w | None => None end.
Proof.
  intros H. apply run_rows_effects in H as [_ [_ [_ Hp]]]. unfold sget. rewrite Hp.
  cbn [st0 st_templates]. rewrite (oget_fold_effect str_eqb str_eqb_eq) by constructor. reflexivity.
Qed.

(* ------------------------------------------------------------ _populate_missing_templates *)

Lemma mem_str_in s l : mem_str s l = true <-> In s l.
Proof.
  unfold mem_str. rewrite existsb_exists. split.
  - intros [x [Hin He]]. apply str_eqb_eq in He. subst. exact Hin.
  - intros Hin. exists s. split; [exact Hin|apply str_eqb_refl].
Qed.

Lemma populate_spec wbs fl : forall st st',
  populate wbs fl st = Ok st' ->
  st_flows st' = st_flows st /\ st_camps st' = st_camps st /\ st_trigs st' = st_trigs st /\
  st_data st' = st_data st /\
  forall s, sget (st_templates st') s =
            match sget (st_templates st) s with
            | Some x => Some x
            | None => implicit_template wbs fl s
            end.
Proof.
  induction fl as [|f rest IH]; intros st st' H; cbn [populate] in H.
  - injection H as <-. repeat split. intros s. destruct (sget (st_templates st) s); reflexivity.
  - assert (Himp : forall s, str_eqb s (fd_sheet f) = false ->
                             implicit_template wbs (f :: rest) s = implicit_template wbs rest s).
    { intros s Hs. unfold implicit_template. cbn [map mem_str existsb]. rewrite Hs. reflexivity. }
    unfold shas, ocontains in H. fold (sget (st_templates st) (fd_sheet f)) in H.
    destruct (sget (st_templates st) (fd_sheet f)) as [x|] eqn:Eh.
    + destruct (IH _ _ H) as [H1 [H2 [H3 [H4 H5]]]]. repeat split; try assumption.
      intros s. rewrite H5. destruct (sget (st_templates st) s) eqn:Es; [reflexivity|].
      symmetry. apply Himp. apply str_eqb_neq. intros ->. congruence.
    + unfold add_template in H. destruct (resolve wbs (fd_sheet f)) as [[id b]|] eqn:Er; [|discriminate].
      destruct (IH _ _ H) as [H1 [H2 [H3 [H4 H5]]]]. repeat split; try assumption.
      intros s. rewrite H5. cbn [st_templates set_templates]. unfold sget, sset.
      rewrite (oget_oset str_eqb str_eqb_eq).
      destruct (str_eqb (fd_sheet f) s) eqn:Es.
      * apply str_eqb_eq in Es. subst s. fold (sget (st_templates st) (fd_sheet f)). rewrite Eh.
        unfold implicit_template. cbn [map mem_str existsb]. rewrite str_eqb_refl. cbn [orb]. rewrite Er. reflexivity.
      * destruct (oget str_eqb (st_templates st) s); [reflexivity|]. symmetry. apply Himp.
        apply str_eqb_neq. intros ->. rewrite str_eqb_refl in Es. discriminate.
Qed.

(* ------------------------------------------------------------ parse_all *)

Lemma parse_flow_name st f name d n o : parse_flow st f name d = Ok (n, o) -> n = name /\ of_name o = name.
Proof.
  unfold parse_flow. destruct (sget (st_templates st) (fd_sheet f)) as [[[id b] targ]|]; [|discriminate].
  destruct b; try discriminate. intros H. injection H as <- <-. split; reflexivity.
Qed.

Definition well_named (p : str * oflow) : Prop := of_name (snd p) = fst p.

Lemma mapM_forall {E S T} (f : S -> result E T) (P : T -> Prop) l out :
  (forall x y, f x = Ok y -> P y) -> mapM f l = Ok out -> Forall P out.
Proof.
  intros Hf. revert out. induction l as [|x r IH]; intros out H; cbn [mapM] in H.
  - injection H as <-. constructor.
  - destruct (f x) as [y|e] eqn:Ey; [|discriminate]. destruct (mapM f r) as [ys|e]; [|discriminate].
    injection H as <-. constructor; [apply (Hf _ _ Ey)|apply IH; reflexivity].
Qed.

Lemma instances_named st f l : instances st f = Ok l -> Forall well_named l.
Proof.
  assert (Hone : forall name d x, rmap (fun x => [x]) (parse_flow st f name d) = Ok x -> Forall well_named x).
  { intros name d x H. destruct (parse_flow st f name d) as [[n o]|e] eqn:Ep; [|discriminate].
    injection H as <-. apply parse_flow_name in Ep as [-> Ho]. constructor; [exact Ho|constructor]. }
  unfold instances.
  destruct (nonempty (fd_dsheet f) && negb (nonempty (fd_drow f))).
  - destruct (sget (st_data st) (fd_dsheet f)) as [ds|]; [|discriminate].
    apply mapM_forall. intros kv [n o] Hp. apply parse_flow_name in Hp as [-> Ho]. exact Ho.
  - destruct (negb (nonempty (fd_dsheet f)) && nonempty (fd_drow f)); [discriminate|].
    destruct (nonempty (fd_dsheet f)); [|apply Hone].
    destruct (sget (st_data st) (fd_dsheet f)) as [ds|]; [|discriminate].
    destruct (sget (ds_rows ds) (fd_drow f)) as [m|]; [|discriminate]. apply Hone.
Qed.

Lemma all_instances_named st fl : forall insts, all_instances st fl = Ok insts -> Forall well_named insts.
Proof.
  induction fl as [|f rest IH]; intros insts H; cbn [all_instances] in H.
  - injection H as <-. constructor.
  - destruct (instances st f) as [l|e] eqn:El; [|discriminate].
    destruct (all_instances st rest) as [ls|e]; [|discriminate]. injection H as <-.
    apply Forall_app. split; [apply (instances_named _ _ _ El)|apply IH; reflexivity].
Qed.

Lemma all_instances_in st fl : forall insts, all_instances st fl = Ok insts ->
  forall p, In p insts <-> exists f l, In f fl /\ instances st f = Ok l /\ In p l.
Proof.
  induction fl as [|f rest IH]; intros insts H p; cbn [all_instances] in H.
  - injection H as <-. split; [intros []|]. intros [f [l [[] _]]].
  - destruct (instances st f) as [l|e] eqn:El; [|discriminate].
    destruct (all_instances st rest) as [ls|e] eqn:Els; [|discriminate]. injection H as <-.
    rewrite in_app_iff, (IH _ eq_refl p). split.
    + intros [Hp|[f' [l' [H1 [H2 H3]]]]]; [exists f, l; cbn; tauto|exists f', l'; cbn; tauto].
    + intros [f' [l' [[H1|H1] [H2 H3]]]]; [left; subst f'; congruence|right; exists f', l'; tauto].
Qed.

(* all_instances only reads the template and data registries *)
Lemma instances_ext st st' f :
  st_templates st' = st_templates st -> st_data st' = st_data st -> instances st' f = instances st f.
Proof. intros H1 H2. unfold instances, parse_flow. rewrite H1, H2. reflexivity. Qed.

Lemma well_named_keys (d : list (str * oflow)) : Forall well_named d -> map of_name (map snd d) = okeys d.
Proof.
  induction 1 as [|[k o] l Hx Hl IH]; [reflexivity|]. cbn. unfold well_named in Hx. cbn in Hx. rewrite Hx.
  f_equal. exact IH.
Qed.

Lemma of_list_named (l : list (str * oflow)) : Forall well_named l -> Forall well_named (of_list l).
Proof.
  intros H. rewrite Forall_forall in *. intros [k o] Hin.
  change (of_list l) with (oupdate str_eqb [] l) in Hin.
  apply (oupdate_in str_eqb str_eqb_eq) in Hin as [[]|Hin]. apply H, Hin.
Qed.

Lemma finish_inv st out :
  finish st = Ok out ->
  exists insts, all_instances st (st_flows st) = Ok insts /\
    o_flows out = map snd (of_list insts) /\
    o_camps out = map (fun e => mk_ocamp (fst e) (fst (snd e)) (snd (snd e))) (st_camps st) /\
    o_trigs out = flat_map trig_rows (st_trigs st) /\
    (forall t, In t (o_trigs out) -> In (ot_flow t) (map of_name (o_flows out))).
Proof.
  unfold finish. destruct (all_instances st (st_flows st)) as [insts|e]; [|discriminate].
  match goal with |- (if ?c then _ else _) = _ -> _ => destruct c eqn:Ec end; [|discriminate].
  intros H. injection H as <-. exists insts. cbn [o_flows o_camps o_trigs]. repeat split.
  intros t Hin. rewrite forallb_forall in Ec. apply Ec in Hin. apply mem_str_in in Hin. exact Hin.
Qed.

(* ------------------------------------------------------------ 3. last definition wins: the output *)

(* what [finish] makes of a list of (name, flow) instances: a dictionary by flow name *)
Record flows_by_name (insts : list (str * oflow)) (flows : list oflow) : Prop := mk_fbn {
  fbn_names : map of_name flows = first_occ str_eqb [] (map fst insts);   (* place of the FIRST *)
  fbn_nodup : NoDup (map of_name flows);                                  (* names unique *)
  fbn_last : forall o, In o flows -> last_val str_eqb insts (of_name o) = Some o;  (* content of the LAST *)
  fbn_all : forall n, In n (map fst insts) -> In n (map of_name flows)
}.

Lemma of_list_flows_by_name insts :
  Forall well_named insts -> flows_by_name insts (map snd (of_list insts)).
Proof.
  intros Hn. pose proof (of_list_named _ Hn) as Hn'.
  assert (Hk : map of_name (map snd (of_list insts)) = first_occ str_eqb [] (map fst insts)).
  { rewrite (well_named_keys _ Hn'). change (of_list insts) with (oupdate str_eqb [] insts).
    rewrite (okeys_oupdate str_eqb str_eqb_eq). reflexivity. }
  split.
  - exact Hk.
  - rewrite Hk. apply (first_occ_nodup str_eqb str_eqb_eq).
  - intros o Hin. apply in_map_iff in Hin as [[k o'] [Ho Hin]]. cbn in Ho. subst o'.
    assert (Hko : of_name o = k).
    { rewrite Forall_forall in Hn'. apply (Hn' _ Hin). }
    rewrite Hko.
    assert (Hg : oget str_eqb (of_list insts) k = Some o).
    { apply (oget_in_nodup str_eqb str_eqb_eq); [|exact Hin].
      change (of_list insts) with (oupdate str_eqb [] insts).
      apply (oupdate_nodup str_eqb str_eqb_eq). constructor. }
    change (of_list insts) with (oupdate str_eqb [] insts) in Hg.
    rewrite (oget_oupdate str_eqb str_eqb_eq) in Hg. cbn [oget] in Hg.
    destruct (last_val str_eqb insts k); [exact Hg|discriminate].
  - intros n Hin. rewrite Hk. apply (first_occ_in str_eqb str_eqb_eq). split; [exact Hin|intros []].
Qed.

(* the whole run, end to end *)
Theorem create_flows_spec fuel params wbs out :
  create_flows fuel params wbs = Ok out ->
  exists pats hist st insts,
    tag_matcher params = Some pats /\
    history fuel pats wbs = Some hist /\
    resolved wbs hist st /\
    all_instances st (spec_flows hist) = Ok insts /\
    o_flows out = map snd (of_list insts) /\
    flows_by_name insts (o_flows out) /\
    o_camps out = map (fun e => mk_ocamp (fst e) (fst (snd e)) (snd (snd e))) (spec_camps wbs hist) /\
    o_trigs out = flat_map trig_rows (spec_trigs wbs hist) /\
    (forall t, In t (o_trigs out) -> In (ot_flow t) (map of_name (o_flows out))).
Proof.
  unfold create_flows. destruct (tag_matcher params) as [pats|]; [|discriminate].
  destruct (load fuel pats wbs) as [st|e] eqn:El; [|discriminate]. intros Hf.
  apply load_history in El as [h [st1 [_ [Hh [Hr Hp]]]]].
  pose proof (run_rows_registries _ _ _ Hr) as [R1 [R2 [R3 R4]]].
  apply populate_spec in Hp as [P1 [P2 [P3 [P4 P5]]]].
  apply finish_inv in Hf as [insts [Hi [Hfl [Hc [Ht Htr]]]]].
  assert (Hres : resolved wbs h st).
  { split.
    - congruence.
    - congruence.
    - congruence.
    - intros s. rewrite P5, R4, R1. unfold spec_template, sget.
      change (of_list (tmpl_defs wbs h)) with (oupdate str_eqb [] (tmpl_defs wbs h)).
      rewrite (oget_oupdate str_eqb str_eqb_eq). cbn [oget].
      destruct (last_val str_eqb (tmpl_defs wbs h) s); reflexivity.
    - exists st1. split; assumption. }
  exists pats, h, st, insts. split; [reflexivity|]. split; [exact Hh|]. split; [exact Hres|].
  split; [rewrite <- (rs_flows _ _ _ Hres); exact Hi|]. split; [exact Hfl|].
  split; [rewrite Hfl; apply of_list_flows_by_name, (all_instances_named _ _ _ Hi)|].
  split; [rewrite Hc, (rs_camps _ _ _ Hres); reflexivity|].
  split; [rewrite Ht, (rs_trigs _ _ _ Hres); reflexivity|exact Htr].
Qed.

(* an output flow named [n] exists iff a surviving definition yields an instance of that name *)
Theorem flow_exists_iff st fl insts flows n :
  all_instances st fl = Ok insts -> flows_by_name insts flows ->
  (In n (map of_name flows) <->
   exists f l, In f fl /\ instances st f = Ok l /\ In n (map fst l)).
Proof.
  intros Hi [Hk _ _ _]. rewrite Hk, (first_occ_in str_eqb str_eqb_eq). split.
  - intros [Hin _]. apply in_map_iff in Hin as [p [Hp Hin]].
    apply (all_instances_in _ _ _ Hi) in Hin as [f [l [H1 [H2 H3]]]].
    exists f, l. split; [exact H1|]. split; [exact H2|]. rewrite <- Hp. apply in_map, H3.
  - intros [f [l [H1 [H2 H3]]]]. split; [|intros []]. apply in_map_iff in H3 as [p [Hp H3]].
    rewrite <- Hp. apply in_map. apply (all_instances_in _ _ _ Hi). exists f, l. tauto.
Qed.

(* "follows the last ignore_row": a create_flow row survives iff no later row of the history
   is an ignore_row of its (new) name *)
Lemma row_flow_not_ignore r f : row_flow r = Some f -> row_ignores r = None.
Proof. unfold row_flow, row_ignores. destruct (classify (r_type r)); try discriminate. reflexivity. Qed.

Theorem spec_flows_in rows f :
  In f (spec_flows rows) <->
  exists pre r post, rows = pre ++ r :: post /\ row_flow r = Some f /\ ignored_later post (fd_key f) = false.
Proof.
  unfold spec_flows. rewrite (lsurvivors_in str_eqb row_ignores fd_key row_flow). split.
  - intros [pre [r [post [H1 [H2 [H3 H4]]]]]]. exists pre, r, post. tauto.
  - intros [pre [r [post [H1 [H2 H3]]]]]. exists pre, r, post. pose proof (row_flow_not_ignore _ _ H2). tauto.
Qed.

Theorem ignored_later_spec rows n :
  ignored_later rows n = true <-> exists r, In r rows /\ row_ignores r = Some n.
Proof. apply (forgotten_in_spec str_eqb str_eqb_eq). Qed.

(* order is kept: the survivors are a subsequence of the create_flow rows of the history *)
Lemma spec_flows_app a b :
  spec_flows (a ++ b) = filter (fun f => negb (ignored_later b (fd_key f))) (spec_flows a) ++ spec_flows b.
Proof.
  unfold spec_flows. pose proof (fold_leffect_spec str_eqb str_eqb_eq row_ignores fd_key row_flow) as H.
  pose proof (H (a ++ b) []) as H1. rewrite fold_left_app, (H a []), (H b) in H1. cbn [filter app] in H1.
  symmetry. exact H1.
Qed.

(* ------------------------------------------------------------ 4. ignore_row forgets exactly one name *)

Theorem ignore_row_exact n st :
  NoDup (okeys (st_camps st)) -> NoDup (okeys (st_trigs st)) ->
  let st' := ignore_row n st in
  st_templates st' = st_templates st /\ st_data st' = st_data st /\ st_models st' = st_models st /\
  (forall f, In f (st_flows st') <-> In f (st_flows st) /\ fd_key f <> n) /\
  st_flows st' = filter (fun f => negb (str_eqb (fd_key f) n)) (st_flows st) /\
  (forall k, sget (st_camps st') k = if str_eqb n k then None else sget (st_camps st) k) /\
  okeys (st_camps st') = filter (fun k => negb (str_eqb k n)) (okeys (st_camps st)) /\
  (forall k, sget (st_trigs st') k = if str_eqb n k then None else sget (st_trigs st) k) /\
  okeys (st_trigs st') = filter (fun k => negb (str_eqb k n)) (okeys (st_trigs st)).
Proof.
  intros N1 N2. cbn zeta. unfold ignore_row.
  cbn [st_templates st_data st_models st_flows st_camps st_trigs set_flows set_camps set_trigs].
  split; [reflexivity|]. split; [reflexivity|]. split; [reflexivity|].
  split.
  { intros f. rewrite filter_In. split.
    - intros [H1 H2]. split; [exact H1|]. intros He. rewrite He, str_eqb_refl in H2. discriminate.
    - intros [H1 H2]. split; [exact H1|]. rewrite str_eqb_neq by exact H2. reflexivity. }
  split; [reflexivity|].
  split; [intros k; apply (oget_opop str_eqb str_eqb_eq); exact N1|].
  split; [apply (okeys_opop str_eqb str_eqb_eq); exact N1|].
  split; [intros k; apply (oget_opop str_eqb str_eqb_eq); exact N2|apply (okeys_opop str_eqb str_eqb_eq); exact N2].
Qed.

(* ... in every state a run can reach *)
Corollary reachable_nodup wbs rows st :
  run_rows wbs rows st0 = Ok st ->
  NoDup (okeys (st_camps st)) /\ NoDup (okeys (st_trigs st)).
Proof.
  intros H. destruct (run_rows_nodup _ _ _ _ H regs_nodup_st0) as [H1 [H2 _]]. split; assumption.
Qed.

(* ------------------------------------------------------------ 3'. plain flows, as DESIGN §5-C10 words it *)

(* a create_flow row without data sheet: one output flow, named by the row's (new) name *)
Definition plain (f : fdef) : Prop := fd_dsheet f = [] /\ fd_drow f = [].
Definition keyed_flow : irow -> option (str * fdef) := keyed fd_key row_flow.

Lemma instances_plain st f :
  plain f -> instances st f = rmap (fun x => [x]) (parse_flow st f (fd_key f) None).
Proof. intros [H1 H2]. unfold instances. rewrite H1, H2. reflexivity. Qed.

Lemma all_instances_plain st fl : Forall plain fl -> forall insts,
  all_instances st fl = Ok insts ->
  Forall2 (fun f p => parse_flow st f (fd_key f) None = Ok p) fl insts.
Proof.
  induction 1 as [|f rest Hf Hrest IH]; intros insts H; cbn [all_instances] in H.
  - injection H as <-. constructor.
  - rewrite (instances_plain _ _ Hf) in H.
    destruct (parse_flow st f (fd_key f) None) as [p|e] eqn:Ep; [|discriminate]. cbn [rmap] in H.
    destruct (all_instances st rest) as [ls|e]; [|discriminate]. injection H as <-.
    constructor; [exact Ep|apply IH; reflexivity].
Qed.

Lemma last_val_plain st fl insts :
  Forall2 (fun f p => parse_flow st f (fd_key f) None = Ok p) fl insts -> forall n,
  match last_val str_eqb (map (fun f => (fd_key f, f)) fl) n with
  | Some f => exists o, last_val str_eqb insts n = Some o /\ parse_flow st f n None = Ok (n, o)
  | None => last_val str_eqb insts n = None
  end.
Proof.
  induction 1 as [|f [k o] fl' insts' Hp Hrest IH]; intros n; [reflexivity|].
  cbn [map last_val]. specialize (IH n).
  destruct (last_val str_eqb (map (fun f0 => (fd_key f0, f0)) fl') n) as [f'|].
  - destruct IH as [o' [H1 H2]]. exists o'. rewrite H1. split; [reflexivity|exact H2].
  - rewrite IH. pose proof (parse_flow_name _ _ _ _ _ _ Hp) as [Hk _]. subst k.
    destruct (str_eqb (fd_key f) n) eqn:Ek; [|reflexivity].
    apply str_eqb_eq in Ek. subst n. exists o. split; [reflexivity|exact Hp].
Qed.

(* DESIGN §5-C10 item 3 for plain flows: the output flow named [n] exists iff the last row
   of the history that mentions [n] (as a create_flow (new) name or as an ignore_row) is a
   create_flow row; it is then built from THAT row (the last definition) *)
Theorem plain_flow_last_word hist st insts flows :
  Forall plain (spec_flows hist) ->
  all_instances st (spec_flows hist) = Ok insts -> flows_by_name insts flows ->
  forall n o,
    (In o flows /\ of_name o = n) <->
    exists f, last_word str_eqb row_ignores keyed_flow hist n = Some (Some f) /\
              parse_flow st f n None = Ok (n, o).
Proof.
  intros Hpl Hi Hfbn n o.
  pose proof (last_val_plain _ _ _ (all_instances_plain _ _ Hpl _ Hi) n) as Hlv.
  unfold spec_flows in Hlv. rewrite (lsurvivors_keyed str_eqb row_ignores fd_key row_flow) in Hlv.
  rewrite (last_val_survivors str_eqb str_eqb_eq) in Hlv. fold keyed_flow in Hlv.
  destruct Hfbn as [Hk Hnd Hlast Hall]. split.
  - intros [Hin Hn]. apply Hlast in Hin. rewrite Hn in Hin.
    destruct (last_word str_eqb row_ignores keyed_flow hist n) as [[f|]|]; try congruence.
    destruct Hlv as [o' [H1 H2]]. exists f. split; [reflexivity|]. congruence.
  - intros [f [Hw Hp]]. rewrite Hw in Hlv. destruct Hlv as [o' [H1 H2]].
    assert (o' = o) by congruence. subst o'.
    assert (Hin : In n (map fst insts)).
    { destruct (kmem str_eqb n (map fst insts)) eqn:Em; [apply (kmem_in str_eqb str_eqb_eq); exact Em|].
      apply (kmem_false str_eqb str_eqb_eq) in Em. apply (last_val_none str_eqb str_eqb_eq) in Em. congruence. }
    apply Hall in Hin. apply in_map_iff in Hin as [o2 [Ho2 Hin2]].
    pose proof (Hlast _ Hin2) as H3. rewrite Ho2, H1 in H3. injection H3 as ->. split; assumption.
Qed.

(* read with [last_word_spec]: [last_word ... hist n = Some (Some f)] iff
   hist = pre ++ r :: post, row r is a create_flow row with (new) name n and definition f,
   and no row of post is a create_flow row named n or an ignore_row n *)

(* ------------------------------------------------------------ the data-sheet registry *)

(* the name a data_sheet row registers its result under *)
Definition row_data_key (r : irow) : option str :=
  match classify (r_type r), r_sheets r with
  | TData, first :: _ => Some (str_or (r_new r) first)
  | _, _ => None
  end.

Lemma get_data_keeps_registry wbs n st ds st' :
  get_data wbs n st = Ok (ds, st') -> st_data st' = st_data st.
Proof.
  unfold get_data. destruct (sget (st_data st) n) as [d|].
  - intros H. injection H as _ <-. reflexivity.
  - destruct (resolve wbs n) as [[id b]|]; [|discriminate].
    destruct b; try discriminate. intros H. injection H as _ <-. reflexivity.
Qed.

Lemma concat_data_keeps_registry wbs names : forall model rows st model' rows' st',
  concat_data wbs names model rows st = Ok (model', rows', st') -> st_data st' = st_data st.
Proof.
  induction names as [|n rest IH]; intros model rows st model' rows' st' H; cbn [concat_data] in H.
  - injection H as _ _ <-. reflexivity.
  - destruct (get_data wbs n st) as [[ds st1]|e] eqn:Eg; [|discriminate].
    match type of H with (if ?c then _ else _) = _ => destruct c end; [discriminate|].
    rewrite (IH _ _ _ _ _ _ H). apply (get_data_keeps_registry _ _ _ _ _ Eg).
Qed.

(* a data_sheet row (re)defines exactly one name: the concatenation of its sheets as the
   registry stands just before it; a sheet that is merely read is NOT registered *)
Theorem data_row_defines wbs r st st' n :
  step_other wbs r st = Ok st' -> row_data_key r = Some n ->
  exists model rows st1,
    concat_data wbs (r_sheets r) None [] st = Ok (model, rows, st1) /\
    st_data st' = sset (st_data st) n (mk_dsheet (match model with Some m => m | None => 0 end) rows).
Proof.
  unfold step_other, row_data_key. destruct (classify (r_type r)); try discriminate.
  unfold process_data. destruct (r_sheets r) as [|first l] eqn:Es; [discriminate|].
  intros H Hk. injection Hk as <-.
  destruct (concat_data wbs (first :: l) None [] st) as [[[model rows] st1]|e] eqn:Ec; [|discriminate].
  injection H as <-. exists model, rows, st1. split; [reflexivity|].
  cbn [st_data set_data]. rewrite (concat_data_keeps_registry _ _ _ _ _ _ _ _ Ec). reflexivity.
Qed.

(* every other row — ignore_row included — leaves the entry alone *)
Theorem data_row_frame wbs r st st' n :
  step_other wbs r st = Ok st' -> row_data_key r <> Some n ->
  sget (st_data st') n = sget (st_data st) n.
Proof.
  intros H Hk. destruct (row_data_key r) as [k|] eqn:Ek.
  - destruct (data_row_defines _ _ _ _ _ H Ek) as [model [rows [st1 [_ Hd]]]]. rewrite Hd.
    unfold sget, sset. apply (oget_oset_other str_eqb str_eqb_eq). congruence.
  - revert H. unfold step_other, row_data_key in *.
    destruct (classify (r_type r)) eqn:Ec.
    + destruct (r_sheets r) as [|s [|s2 l]]; try discriminate. cbn [step_single].
      destruct (resolve wbs s) as [[id b]|]; [|discriminate]. destruct b; discriminate.
    + unfold process_data. destruct (r_sheets r); discriminate.
    + destruct (r_sheets r) as [|s [|s2 l]]; try discriminate. cbn [step_single]. unfold add_template.
      destruct (resolve wbs s) as [[id b]|]; [|discriminate]. intros H. injection H as <-. reflexivity.
    + destruct (r_sheets r) as [|s [|s2 l]]; try discriminate. cbn [step_single].
      intros H. injection H as <-. reflexivity.
    + destruct (r_sheets r) as [|s [|s2 l]]; try discriminate. cbn [step_single].
      destruct (resolve wbs s) as [[id b]|]; [|discriminate]. destruct b; try discriminate.
      intros H. injection H as <-. reflexivity.
    + destruct (r_sheets r) as [|s [|s2 l]]; try discriminate. cbn [step_single].
      destruct (resolve wbs s) as [[id b]|]; [|discriminate]. destruct b; try discriminate.
      intros H. injection H as <-. reflexivity.
    + destruct (r_sheets r) as [|s [|s2 l]]; try discriminate. cbn [step_single].
      intros H. injection H as <-. reflexivity.
    + destruct (r_sheets r) as [|s [|s2 l]]; try discriminate. cbn [step_single].
      intros H. injection H as <-. reflexivity.
Qed.

Lemma run_rows_data_frame wbs rows n : forall st st',
  run_rows wbs rows st = Ok st' ->
  (forall r, In r rows -> row_data_key r <> Some n) ->
  sget (st_data st') n = sget (st_data st) n.
Proof.
  unfold run_rows. induction rows as [|r rest IH]; intros st st' H Hno; cbn [foldM] in H.
  - injection H as <-. reflexivity.
  - destruct (step_other wbs r st) as [st1|e] eqn:E1; [|discriminate].
    rewrite (IH _ _ H) by (intros r' Hin; apply Hno; right; exact Hin).
    apply (data_row_frame _ _ _ _ _ E1). apply Hno. left. reflexivity.
Qed.

(* data sheet [n] at the end of a run is what the LAST data_sheet row naming it made of the
   registry as it stood at that row; with no such row it is absent *)
Theorem data_last_definition wbs pre r post st' n :
  run_rows wbs (pre ++ r :: post) st0 = Ok st' ->
  row_data_key r = Some n ->
  (forall r', In r' post -> row_data_key r' <> Some n) ->
  exists st1 model rows st2,
    run_rows wbs pre st0 = Ok st1 /\
    concat_data wbs (r_sheets r) None [] st1 = Ok (model, rows, st2) /\
    sget (st_data st') n = Some (mk_dsheet (match model with Some m => m | None => 0 end) rows).
Proof.
  intros H Hk Hno. rewrite run_rows_app in H.
  destruct (run_rows wbs pre st0) as [st1|e] eqn:Epre; [|discriminate].
  change (r :: post) with ([r] ++ post) in H. rewrite run_rows_app in H.
  unfold run_rows at 1 in H. cbn [foldM] in H.
  destruct (step_other wbs r st1) as [st2|e] eqn:Er; [|discriminate].
  destruct (data_row_defines _ _ _ _ _ Er Hk) as [model [rows [st1' [Hc Hd]]]].
  exists st1, model, rows, st1'. split; [reflexivity|]. split; [exact Hc|].
  rewrite (run_rows_data_frame _ _ _ _ _ H Hno), Hd. unfold sget, sset.
  apply (oget_oset_same str_eqb str_eqb_eq).
Qed.

Theorem data_never_defined wbs rows st' n :
  run_rows wbs rows st0 = Ok st' ->
  (forall r, In r rows -> row_data_key r <> Some n) ->
  sget (st_data st') n = None.
Proof. intros H Hno. rewrite (run_rows_data_frame _ _ _ _ _ H Hno). reflexivity. Qed.

(* [last_word_spec] at string keys, for props/C10.v *)
Lemma last_word_spec_str (ign : irow -> option str) (V : Type) (def : irow -> option (str * V)) rows n w :
  last_word str_eqb ign def rows n = Some w <->
  exists pre r post, rows = pre ++ r :: post /\ last_word str_eqb ign def post n = None /\
    ((exists m, ign r = Some m /\ str_eqb m n = true /\ w = None) \/
     (exists k v, ign r = None /\ def r = Some (k, v) /\ str_eqb k n = true /\ w = Some v)).
Proof. apply (last_word_spec str_eqb). Qed.
