(* E5 — a ContentIndexParser as a LONG-LIVED object: the calls a run makes on it, one after another.

   What survives from one call to the next on the real object are its two registries
   (self.template_sheets, self.data_sheets); every parse_all_flows pass gets a container of its own,
   every get_node_group call creates one.  As coded, no call writes a registry: the state machine
   below threads the registries through [step] and hands them back unchanged.  That is the model's
   statement of "nothing evaluated for one instance is visible to another" at the level of the
   parser object; BulkHistoryFacts.v derives from it that the outcome of a call does not depend on
   the calls made before it, and the correspondence (harness/c12.py) runs the same call sequences
   through [run_calls] (extracted) and through ONE real ContentIndexParser.  Definitions only. *)
From Coq Require Import List NArith Bool.
From RPFT Require Import Base.Sexp Base.PyStr Base.ODict Base.Result Gen.Tables Cell.Cell Index.Args Index.Bulk.
Import ListNotations.

Section History.
Context {D T F S E : Type}.
Variable compile_one : str -> T -> ctx D -> S -> result E (F * S).
Variable st0 : S.                       (* the state of a container nothing has been compiled into *)

(* the calls of a run on the parser object *)
Inductive call :=
| CAll (rows : list cfrow)                           (* parse_all_flows(RapidProContainer()) with these create_flow rows *)
| CBlock (tn ds id : str) (args : list nv).          (* get_node_group(tn, ds, id, args) *)

Inductive outcome :=
| OAll (r : result (perr E) (list (str * F) * S))
| OBlock (r : result (perr E) (F * S)).

(* get_node_group: preparation, then the compilation in a fresh container *)
Definition block_call (reg : registry D T) (tn ds id : str) (args : list nv) : result (perr E) (F * S) :=
  match prepare_block reg tn ds id args with
  | Err e => Err e
  | Ok (n, t, c) =>
    match compile_one n t c st0 with
    | Err e => Err (PCompile E e)
    | Ok r => Ok r
    end
  end.

Definition do_call (reg : registry D T) (c : call) : outcome :=
  match c with
  | CAll rows => OAll (parse_all_flows compile_one reg rows st0)
  | CBlock tn ds id args => OBlock (block_call reg tn ds id args)
  end.

(* one call on the object: new object state, outcome *)
Definition step (reg : registry D T) (c : call) : registry D T * outcome := (reg, do_call reg c).

Fixpoint run_calls (reg : registry D T) (cs : list call) : registry D T * list outcome :=
  match cs with
  | [] => (reg, [])
  | c :: r =>
    let '(reg1, o) := step reg c in
    let '(reg2, os) := run_calls reg1 r in
    (reg2, o :: os)
  end.

End History.

(* a compiler whose FLOW does not depend on the container state it is given ("equal up to invented
   UUIDs": the state is the uuid dictionary); the state moves on by [next] *)
Definition blind {D T F S E : Type} (comp : str -> T -> ctx D -> result E F) (next : S -> S)
  : str -> T -> ctx D -> S -> result E (F * S) :=
  fun n t c s => match comp n t c with Err e => Err e | Ok f => Ok (f, next s) end.
