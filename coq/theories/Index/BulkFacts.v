(* Facts about parse_all_flows (Bulk.v): bulk = the row-by-row expansion (same flows dict,
   same threaded state, same error), names, one instance per data row in data order, and
   the plan/run factorisation that expresses isolation of instances. *)
From Coq Require Import List NArith Bool Lia Permutation.
From RPFT Require Import Base.Sexp Base.PyStr Base.ODict Base.Result Gen.Tables Cell.Cell
  Index.Args Index.ArgsFacts Index.Bulk.
Import ListNotations.

Lemma foldM_app : forall (E S A : Type) (f : A -> S -> result E A) l1 l2 a,
  foldM f (l1 ++ l2) a = match foldM f l1 a with Err e => Err e | Ok a' => foldM f l2 a' end.
Proof.
  intros E S A f l1. induction l1 as [|x r IH]; intros l2 a; cbn; [reflexivity|].
  destruct (f a x); [apply IH|reflexivity].
Qed.

Lemma foldM_map : forall (E S S' A : Type) (f : A -> S -> result E A) (g : S' -> S) l a,
  foldM f (map g l) a = foldM (fun a x => f a (g x)) l a.
Proof.
  intros E S S' A f g l. induction l as [|x r IH]; intros a; cbn; [reflexivity|].
  destruct (f a (g x)); [apply IH|reflexivity].
Qed.

Lemma foldM_ext_in : forall (E S A : Type) (f g : A -> S -> result E A) l a,
  (forall a x, In x l -> f a x = g a x) -> foldM f l a = foldM g l a.
Proof.
  intros E S A f g l. induction l as [|x r IH]; intros a H; cbn; [reflexivity|].
  rewrite (H a x) by (left; reflexivity). destruct (g a x); [|reflexivity].
  apply IH. intros a' y Hy. apply H. right. exact Hy.
Qed.

Lemma nonblank_true : forall s, nonblank s = true <-> s <> [].
Proof. intros [|c s]; cbn; split; congruence. Qed.

Section BulkFacts.
Context {D T F S E : Type}.
Variable compile_one : str -> T -> ctx D -> S -> result E (F * S).
Notation registry := (registry D T).
Notation acc := (@acc F S).

(* a row that names a data row is not a bulk row and is handled as that single instance *)
Lemma paf_row_with_id : forall (reg : registry) (r : cfrow) id (a : acc),
  is_bulk r = true -> nonblank id = true ->
  paf_row compile_one reg a (with_id r id) = instance compile_one reg r id a.
Proof.
  intros reg r id a Hb Hid. unfold paf_row, is_bulk in *. cbn [with_id cf_data_sheet cf_data_row_id].
  apply andb_true_iff in Hb. destruct Hb as [Hds _]. rewrite Hds, Hid. cbn.
  unfold instance, prepare_row. cbn. reflexivity.
Qed.

(* 1. bulk = row by row, one index row *)
Theorem bulk_row_is_map : forall (reg : registry) (r : cfrow) rows (a : acc),
  is_bulk r = true ->
  oget str_eqb (reg_sheets reg) (cf_data_sheet r) = Some rows ->
  Forall (fun id => id <> []) (okeys rows) ->
  paf_row compile_one reg a r
  = paf_rows compile_one reg (map (with_id r) (okeys rows)) a.
Proof.
  intros reg r rows a Hb Hs Hids. unfold paf_rows. rewrite foldM_map.
  unfold paf_row at 1. rewrite Hb, Hs.
  apply foldM_ext_in. intros a' id Hin. symmetry. apply paf_row_with_id; [exact Hb|].
  apply nonblank_true. rewrite Forall_forall in Hids. apply Hids. exact Hin.
Qed.

(* 1'. … anywhere in an index: same flows dict, same state, same error *)
Theorem bulk_is_map : forall (reg : registry) pre (r : cfrow) post rows (a : acc),
  is_bulk r = true ->
  oget str_eqb (reg_sheets reg) (cf_data_sheet r) = Some rows ->
  Forall (fun id => id <> []) (okeys rows) ->
  paf_rows compile_one reg (pre ++ r :: post) a
  = paf_rows compile_one reg (pre ++ map (with_id r) (okeys rows) ++ post) a.
Proof.
  intros reg pre r post rows a Hb Hs Hids. unfold paf_rows.
  rewrite !foldM_app. destruct (foldM (paf_row compile_one reg) pre a) as [a1|e]; [|reflexivity].
  rewrite foldM_app. cbn [foldM]. rewrite (bulk_row_is_map reg r rows a1 Hb Hs Hids). unfold paf_rows. reflexivity.
Qed.

(* 3. isolation: parse_all_flows = compute all instances (names, tables, contexts) from the
   registries and the index rows alone, then compile them in order.  [plan] has neither
   [compile_one] nor the state nor the flows dict among its arguments. *)
Lemma paf_row_factor : forall (reg : registry) (r : cfrow) (a : acc),
  paf_row compile_one reg a r = run_plan compile_one (plan_row reg r) a.
Proof.
  intros reg r a. unfold paf_row, plan_row, run_plan.
  destruct (is_bulk r).
  - destruct (oget str_eqb (reg_sheets reg) (cf_data_sheet r)) as [rows|]; [|reflexivity].
    rewrite foldM_map. apply foldM_ext_in. intros a' id _. reflexivity.
  - destruct (negb (nonblank (cf_data_sheet r)) && nonblank (cf_data_row_id r)); [reflexivity|].
    cbn. unfold instance. destruct (prepare_row reg r (cf_data_row_id r)) as [i|e]; cbn; [|reflexivity].
    destruct (compile_inst compile_one i a); reflexivity.
Qed.

Theorem instance_isolation : forall (reg : registry) rows (a : acc),
  paf_rows compile_one reg rows a = run_plan compile_one (plan reg rows) a.
Proof.
  intros reg rows. unfold paf_rows, plan, run_plan.
  induction rows as [|r rs IH]; intros a; cbn; [reflexivity|].
  rewrite foldM_app. rewrite paf_row_factor. unfold run_plan.
  destruct (foldM (run_item compile_one) (plan_row reg r) a); [apply IH|reflexivity].
Qed.

End BulkFacts.

Section PlanFacts.
Context {D T E : Type}.
Notation registry := (registry D T).

(* the context of an instance is a function of (data row, declarations, arguments, the data
   sheets a sheet argument names) *)
Theorem prepare_spec : forall (reg : registry) sn ds id args nn name table (c : ctx D),
  @prepare D T E reg sn ds id args nn = Ok (name, table, c) ->
  exists defs, oget str_eqb (reg_templates reg) sn = Some (table, defs) /\
  ((nonblank ds && nonblank id = true /\
    exists rows row, oget str_eqb (reg_sheets reg) ds = Some rows /\ oget str_eqb rows id = Some row
      /\ name = str_or nn sn ++ flow_name_sep_single ++ id
      /\ map_template_arguments_to_context (reg_sheets reg) defs args (ctx_of_row row) = Ok c)
   \/
   (nonblank ds && nonblank id = false /\ name = str_or nn sn
      /\ map_template_arguments_to_context (reg_sheets reg) defs args [] = Ok c)).
Proof.
  intros reg sn ds id args nn name table c H. unfold prepare in H.
  destruct (nonblank ds && nonblank id) eqn:Hb.
  - destruct (oget str_eqb (reg_sheets reg) ds) as [rows|] eqn:Hs; [|discriminate].
    destruct (oget str_eqb rows id) as [row|] eqn:Hr; [|discriminate].
    destruct (oget str_eqb (reg_templates reg) sn) as [[tb defs]|] eqn:Ht; [|discriminate].
    destruct (map_template_arguments_to_context (reg_sheets reg) defs args (ctx_of_row row)) as [c1|e] eqn:Hm; [|discriminate].
    inversion H; subst. exists defs. split; [reflexivity|]. left. split; [reflexivity|].
    exists rows, row. repeat split; try assumption; reflexivity.
  - destruct (oget str_eqb (reg_templates reg) sn) as [[tb defs]|] eqn:Ht; [|discriminate].
    destruct (map_template_arguments_to_context (reg_sheets reg) defs args []) as [c1|e] eqn:Hm; [|discriminate].
    inversion H; subst. exists defs. split; [reflexivity|]. right. repeat split; try assumption; reflexivity.
Qed.

(* one instance per data row, in data order, each the instance of the row naming that ID *)
Theorem bulk_plan : forall (reg : registry) (r : cfrow) rows,
  is_bulk r = true ->
  oget str_eqb (reg_sheets reg) (cf_data_sheet r) = Some rows ->
  Forall (fun id => id <> []) (okeys rows) ->
  @plan_row D T E reg r = map (fun id => prepare_row reg (with_id r id) id) (okeys rows)
  /\ @plan_row D T E reg r = flat_map (fun id => plan_row reg (with_id r id)) (okeys rows).
Proof.
  intros reg r rows Hb Hs Hids. unfold plan_row at 1 2. rewrite Hb, Hs. split; [reflexivity|].
  induction (okeys rows) as [|id ids IH]; cbn; [reflexivity|].
  inversion Hids as [|x xs Hid Hids']; subst.
  rewrite IH by exact Hids'. f_equal.
  unfold plan_row, is_bulk in *. cbn [with_id cf_data_sheet cf_data_row_id].
  apply andb_true_iff in Hb. destruct Hb as [Hds _].
  apply nonblank_true in Hid. rewrite Hds, Hid. cbn. reflexivity.
Qed.

Theorem bulk_names : forall (reg : registry) (r : cfrow) id name table (c : ctx D),
  nonblank (cf_data_sheet r) = true -> id <> [] ->
  @prepare_row D T E reg r id = Ok (name, table, c) ->
  name = str_or (cf_new_name r) (cf_sheet r) ++ flow_name_sep_single ++ id.
Proof.
  intros reg r id name table c Hds Hid H. unfold prepare_row in H.
  apply prepare_spec in H. destruct H as [defs [_ [[_ [rows [row [_ [_ [Hn _]]]]]]|[Hb _]]]]; [exact Hn|].
  apply nonblank_true in Hid. rewrite Hds, Hid in Hb. discriminate.
Qed.

(* whatever the order in which the index lists the instances, each is prepared identically *)
Theorem plan_permutation : forall (reg : registry) rows rows',
  Permutation rows rows' -> Permutation (@plan D T E reg rows) (plan reg rows').
Proof.
  intros reg rows rows' H. unfold plan. induction H; cbn.
  - constructor.
  - apply Permutation_app_head. assumption.
  - rewrite !app_assoc. apply Permutation_app_tail. apply Permutation_app_comm.
  - eapply perm_trans; eassumption.
Qed.

(* an inserted block is prepared by the same function: positional arguments, defaults, sheet
   arguments, its own data row — and nothing of the inserting flow's context *)
Theorem block_is_prepare : forall (reg : registry) tn ds id args (i : inst D T),
  @prepare_block D T E reg tn ds id args = Ok i -> @prepare D T E reg tn ds id args [] = Ok i.
Proof.
  intros reg tn ds id args i H. unfold prepare_block in H.
  destruct ((nonblank ds && nonblank id) || (negb (nonblank ds) && negb (nonblank id))); [exact H|discriminate].
Qed.

End PlanFacts.

(* ---- the flows dict: distinct names are appended in order ---- *)
Section FlowsDict.
Context {D T F S E : Type}.
Variable compile_one : str -> T -> ctx D -> S -> result E (F * S).

Lemma oset_new_keys : forall (fl : list (str * F)) k v,
  ~ In k (okeys fl) -> okeys (oset str_eqb fl k v) = okeys fl ++ [k].
Proof.
  intros fl k v H. apply (okeys_oset_new str_eqb).
  apply (oget_none_notin str_eqb str_eqb_iff). exact H.
Qed.

Definition inst_name (x : result (perr E) (inst D T)) : option str :=
  match x with Ok (n, _, _) => Some n | Err _ => None end.

Lemma run_plan_keys : forall (p : list (result (perr E) (inst D T))) ns (fl fl' : list (str * F)) st st',
  map inst_name p = map Some ns -> NoDup (okeys fl ++ ns) ->
  run_plan compile_one p (fl, st) = Ok (fl', st') -> okeys fl' = okeys fl ++ ns.
Proof.
  induction p as [|x p IH]; intros ns fl fl' st st' Hn Hnd H.
  - destruct ns; [|discriminate]. cbn in H. inversion H; subst. rewrite app_nil_r. reflexivity.
  - destruct ns as [|n ns]; [discriminate|]. cbn in Hn. inversion Hn as [[Hx Hp]].
    destruct x as [[[n' tb] c]|e]; [|discriminate]. cbn in Hx. inversion Hx; subst n'.
    unfold run_plan in H. cbn [foldM run_item compile_inst] in H. cbn [fst snd] in H.
    destruct (compile_one n tb c st) as [[f st1]|e]; [|discriminate].
    assert (Hnotin : ~ In n (okeys fl)).
    { intros Hin. apply NoDup_remove_2 in Hnd. apply Hnd. rewrite in_app_iff. left. exact Hin. }
    apply (IH ns _ fl' st1 st' Hp) in H.
    + rewrite H, oset_new_keys by exact Hnotin. rewrite <- app_assoc. reflexivity.
    + rewrite oset_new_keys by exact Hnotin. rewrite <- app_assoc. exact Hnd.
Qed.

Lemma app_inj_pre : forall (a b c : str), a ++ b = a ++ c -> b = c.
Proof. intros a b c H. apply app_inv_head in H. exact H. Qed.

(* first sentence of C12 on the model: a bulk row processed from an empty dict yields
   exactly one flow per data row, in data order, named <name> - <ID> *)
Theorem bulk_one_flow_per_row : forall (reg : registry D T) (r : cfrow) rows st fl st',
  is_bulk r = true ->
  oget str_eqb (reg_sheets reg) (cf_data_sheet r) = Some rows ->
  Forall (fun id => id <> []) (okeys rows) -> NoDup (okeys rows) ->
  paf_row compile_one reg ([], st) r = Ok (fl, st') ->
  okeys fl = map (fun id => str_or (cf_new_name r) (cf_sheet r) ++ flow_name_sep_single ++ id) (okeys rows).
Proof.
  intros reg r rows st fl st' Hb Hs Hids Hnd H.
  rewrite paf_row_factor in H.
  assert (Hds : nonblank (cf_data_sheet r) = true).
  { unfold is_bulk in Hb. apply andb_true_iff in Hb. tauto. }
  set (nm := fun id => str_or (cf_new_name r) (cf_sheet r) ++ flow_name_sep_single ++ id).
  assert (Hplan : @plan_row D T E reg r = map (prepare_row reg r) (okeys rows)).
  { unfold plan_row. rewrite Hb, Hs. reflexivity. }
  rewrite Hplan in H.
  (* every item of a successful run is Ok, hence carries its name *)
  assert (Hall : forall ids (a a' : @acc F S),
             Forall (fun id => id <> []) ids ->
             run_plan compile_one (map (@prepare_row D T E reg r) ids) a = Ok a' ->
             map inst_name (map (@prepare_row D T E reg r) ids) = map Some (map nm ids)).
  { induction ids as [|id ids IH]; intros a a' Hf Hr; [reflexivity|].
    inversion Hf as [|x xs Hid Hf']; subst.
    unfold run_plan in Hr. cbn [map foldM] in Hr.
    destruct (prepare_row reg r id) as [[[n tb] c]|e] eqn:Hp; [|discriminate].
    cbn [run_item] in Hr. destruct (compile_inst compile_one (n, tb, c) a) as [a1|e] eqn:Hc; [|discriminate].
    cbn [map]. rewrite Hp. cbn [inst_name]. f_equal.
    - f_equal. apply (bulk_names reg r id n tb c Hds Hid Hp).
    - apply (IH a1 a' Hf' Hr). }
  apply (run_plan_keys _ (map nm (okeys rows)) [] fl st st') in H.
  - exact H.
  - apply (Hall _ _ _ Hids H).
  - cbn. clear -Hnd. induction (okeys rows) as [|id ids IH]; cbn; [constructor|].
    inversion Hnd as [|x xs Hnotin Hnd']; subst. constructor; [|apply IH; exact Hnd'].
    intros Hin. apply in_map_iff in Hin. destruct Hin as [id' [Heq Hin]].
    unfold nm in Heq. apply app_inj_pre in Heq. apply app_inj_pre in Heq. subst. contradiction.
Qed.

End FlowsDict.
