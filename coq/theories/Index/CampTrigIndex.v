(* C19 — the content-index side: create_campaign / create_triggers / ignore_row rows of
   ContentIndexParser (registration, duplicate handling), parse_all_campaigns /
   parse_all_triggers, and the "trigger flow must be known" check of
   RapidProContainer.update_global_uuids.  Definitions only. *)
From Coq Require Import List NArith ZArith Bool.
From RPFT Require Import Base.Sexp Base.PyStr Base.Result Base.ODict Base.Json Gen.Tables
  Index.Names Index.Campaign Index.Trigger.
Import ListNotations.
Local Open Scope N_scope.

(* the index rows this property is about (other row types do not touch the two registries,
   except ignore_row, which also drops flow definitions: the harness accounts for that in
   the list of known flows) *)
Inductive irow :=
| ICampaign (sheet new_name group : str)
| ITriggers (sheet : str)
| IIgnore (name : str).

Record env := {
  camp_sheets : list (str * list camp_raw);
  trig_sheets : list (str * list trig_raw) }.

(* campaign_parsers: name -> (group, validated rows); trigger_parsers: sheet -> rows *)
Record state := {
  st_campaigns : list (str * (str * list camp_row));
  st_triggers : list (str * list trig_row) }.

Definition empty_state : state := {| st_campaigns := []; st_triggers := [] |}.

(* one index row.  The sheet is parsed into row-model instances here (create_*_parser), so
   a row that fails validation stops the run even if the definition is ignored later. *)
Definition step (e : env) (st : state) (r : irow) : result err state :=
  match r with
  | ICampaign sheet new_name group =>
    match assoc sheet (camp_sheets e) with
    | None => Err ESheetNotFound
    | Some raws =>
      do rows <- mapM validate_camp_row raws;
      let name := if is_nil new_name then sheet else new_name in
      Ok {| st_campaigns := oset str_eqb (st_campaigns st) name (group, rows);
            st_triggers := st_triggers st |}
    end
  | ITriggers sheet =>
    match assoc sheet (trig_sheets e) with
    | None => Err ESheetNotFound
    | Some raws =>
      do rows <- mapM validate_trig_row raws;
      Ok {| st_campaigns := st_campaigns st;
            st_triggers := oset str_eqb (st_triggers st) sheet rows |}
    end
  | IIgnore name =>
    Ok {| st_campaigns := opop str_eqb (st_campaigns st) name;
          st_triggers := opop str_eqb (st_triggers st) name |}
  end.

Definition register (e : env) (idx : list irow) : result err state :=
  foldM (step e) idx empty_state.

Record campaign := { cp_name : str; cp_group : str; cp_events : list event }.

Definition campaign_of (entry : str * (str * list camp_row)) : result err campaign :=
  do evs <- parse_campaign (snd (snd entry));
  Ok {| cp_name := fst entry; cp_group := fst (snd entry); cp_events := evs |}.

Definition parse_all (st : state) : result err (list campaign * list trigger) :=
  do cs <- mapM campaign_of (st_campaigns st);
  do tss <- mapM (fun entry => parse_triggers (snd entry)) (st_triggers st);
  Ok (cs, List.concat tss).

(* flow names the campaigns put into the uuid dictionary before the triggers are looked at *)
Fixpoint some_names (l : list (option str)) : list str :=
  match l with
  | [] => []
  | Some n :: r => n :: some_names r
  | None :: r => some_names r
  end.

Definition campaign_flow_names (cs : list campaign) : list str :=
  some_names (flat_map (fun c => map ev_flow (cp_events c)) cs).

(* known = names of the flows the index defines or refers to from inside flows *)
Definition check_known (known : list str) (out : list campaign * list trigger)
  : result err (list campaign * list trigger) :=
  if forallb (fun t => mem_str (g_flow t) (known ++ campaign_flow_names (fst out))) (snd out)
  then Ok out else Err EUnknownFlow.

Definition compile (e : env) (idx : list irow) (known : list str)
  : result err (list campaign * list trigger) :=
  do st <- register e idx;
  do out <- parse_all st;
  check_known known out.

Definition render_campaign (c : campaign) : json :=
  JObj [ (k_group, JObj [(k_name, JStr (cp_group c))]);
         (k_name, JStr (cp_name c));
         (k_events, JArr (map render_event (cp_events c))) ].

Definition render_output (out : list campaign * list trigger) : json :=
  JObj [ (k_campaigns, JArr (map render_campaign (fst out)));
         (k_triggers, JArr (map render_trigger (snd out))) ].
