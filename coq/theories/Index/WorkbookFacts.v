(* E5 / C10 — several workbooks: one candidate per reader that has the sheet, in reader
   (= input) order; a name resolves to the copy in the LAST workbook that has it. *)
From Coq Require Import List NArith ZArith Bool Lia.
From RPFT Require Import Base.Sexp Base.PyStr Base.PyStrFacts Base.Result Base.ODict Gen.Tables
     Index.TagMatch Index.Index.
Import ListNotations.

Definition lacks (name : str) (wb : workbook) : Prop := wb_get wb name = None.

(* CompositeSheetReader.get_sheets_by_name, declaratively *)
Definition candidate_of (name : str) (wi : workbook * nat) : list (sid * body) :=
  match wb_get (fst wi) name with
  | Some b => [((snd wi, name), b)]
  | None => []
  end.

Lemma candidates_from_spec i wbs name :
  candidates_from i wbs name = flat_map (candidate_of name) (number_from i wbs).
Proof.
  revert i. induction wbs as [|wb r IH]; intros i; [reflexivity|].
  cbn [candidates_from number_from flat_map]. unfold candidate_of at 1. cbn [fst snd].
  rewrite IH. destruct (wb_get wb name); reflexivity.
Qed.

Theorem candidates_spec wbs name :
  candidates wbs name = flat_map (candidate_of name) (number_from 0 wbs).
Proof. apply candidates_from_spec. Qed.

Lemma last_opt_cons {T} (x : T) l :
  last_opt (x :: l) = match last_opt l with Some y => Some y | None => Some x end.
Proof.
  destruct l as [|y l]; [reflexivity|].
  assert (H : exists z, last_opt (y :: l) = Some z).
  { revert y. induction l as [|y' l IH]; intros y; [exists y; reflexivity|]. apply (IH y'). }
  destruct H as [z Hz]. change (last_opt (x :: y :: l)) with (last_opt (y :: l)). rewrite Hz. reflexivity.
Qed.

Lemma last_opt_none {T} (l : list T) : last_opt l = None <-> l = [].
Proof.
  split; [|intros ->; reflexivity]. induction l as [|x l IH]; [reflexivity|].
  rewrite last_opt_cons. destruct (last_opt l); discriminate.
Qed.

Lemma candidates_none i wbs name :
  candidates_from i wbs name = [] <-> Forall (lacks name) wbs.
Proof.
  revert i. induction wbs as [|wb r IH]; intros i; cbn [candidates_from].
  - split; [constructor|reflexivity].
  - destruct (wb_get wb name) as [b|] eqn:E.
    + split; [discriminate|]. intros H. inversion H as [|x l Hx Hl]; subst. unfold lacks in Hx. congruence.
    + rewrite IH. split; [intros H; constructor; [exact E|exact H]|intros H; inversion H; assumption].
Qed.

Lemma resolve_from_spec wbs name : forall i j n' b,
  last_opt (candidates_from i wbs name) = Some ((j, n'), b) <->
  n' = name /\
  exists pre wb post, wbs = pre ++ wb :: post /\ j = i + length pre /\
                      wb_get wb name = Some b /\ Forall (lacks name) post.
Proof.
  induction wbs as [|wb r IH]; intros i j n' b.
  - cbn. split; [discriminate|]. intros [_ [pre [wb [post [H _]]]]]. destruct pre; discriminate.
  - assert (Hstep : last_opt (candidates_from i (wb :: r) name) =
                    match last_opt (candidates_from (S i) r name) with
                    | Some x => Some x
                    | None => match wb_get wb name with Some b0 => Some ((i, name), b0) | None => None end
                    end).
    { cbn [candidates_from]. destruct (wb_get wb name); [apply last_opt_cons|].
      destruct (last_opt (candidates_from (S i) r name)); reflexivity. }
    rewrite Hstep. clear Hstep.
    destruct (last_opt (candidates_from (S i) r name)) as [x|] eqn:E.
    + split.
      * intros H. injection H as ->. apply IH in E as [Hn [pre [wb' [post [H1 [H2 [H3 H4]]]]]]].
        split; [exact Hn|]. exists (wb :: pre), wb', post. cbn [length app]. rewrite H1.
        split; [reflexivity|]. split; [lia|]. split; assumption.
      * intros [Hn [pre [wb' [post [H1 [H2 [H3 H4]]]]]]]. destruct pre as [|p pre]; cbn [app] in H1.
        -- injection H1 as _ Hr. subst post. apply (candidates_none (S i)) in H4. rewrite H4 in E. discriminate.
        -- injection H1 as _ Hr. rewrite <- E. apply IH. split; [exact Hn|].
           exists pre, wb', post. cbn [length] in H2. split; [exact Hr|]. split; [lia|]. split; assumption.
    + apply last_opt_none in E. apply candidates_none in E.
      split.
      * destruct (wb_get wb name) as [b0|] eqn:Ew; [|discriminate]. intros H. injection H as <- <- <-.
        split; [reflexivity|]. exists [], wb, r. cbn [length app]. split; [reflexivity|]. split; [lia|].
        split; [exact Ew|exact E].
      * intros [Hn [pre [wb' [post [H1 [H2 [H3 H4]]]]]]]. destruct pre as [|p pre]; cbn [app] in H1.
        -- injection H1 as Hw Hr. subst wb' post n'. rewrite H3. cbn [length] in H2.
           replace j with i by lia. reflexivity.
        -- injection H1 as _ Hr. exfalso. rewrite Hr in E. apply Forall_app in E as [_ E].
           inversion E as [|y l Hy Hl]; subst. unfold lacks in Hy. congruence.
Qed.

(* _get_sheet_or_die: the copy in the LAST workbook that has a sheet of that name; its
   identity is that workbook's position in the input order *)
Theorem resolve_spec wbs name j n' b :
  resolve wbs name = Some ((j, n'), b) <->
  n' = name /\
  exists pre wb post, wbs = pre ++ wb :: post /\ j = length pre /\
                      wb_get wb name = Some b /\ Forall (lacks name) post.
Proof. unfold resolve, candidates. rewrite resolve_from_spec. reflexivity. Qed.

Theorem resolve_none wbs name : resolve wbs name = None <-> Forall (lacks name) wbs.
Proof. unfold resolve, candidates. rewrite last_opt_none. apply candidates_none. Qed.

(* workbooks AFTER the last one that has the sheet, and any workbook lacking it, are irrelevant;
   in particular appending a workbook that has the sheet overrides every earlier copy *)
Corollary resolve_last_wins wbs wb name b :
  wb_get wb name = Some b -> resolve (wbs ++ [wb]) name = Some ((length wbs, name), b).
Proof.
  intros H. apply resolve_spec. split; [reflexivity|]. exists wbs, wb, []. repeat split; [exact H|constructor].
Qed.

Corollary resolve_skip_lacking wbs wb name :
  wb_get wb name = None -> resolve (wbs ++ [wb]) name = resolve wbs name.
Proof.
  intros H. destruct (resolve wbs name) as [[[j n'] b]|] eqn:E.
  - apply resolve_spec in E as [Hn [pre [w [post [H1 [H2 [H3 H4]]]]]]].
    apply resolve_spec. split; [exact Hn|]. exists pre, w, (post ++ [wb]).
    rewrite H1, <- app_assoc. repeat split; try assumption.
    apply Forall_app. split; [exact H4|constructor; [exact H|constructor]].
  - apply resolve_none in E. apply resolve_none. apply Forall_app. split; [exact E|constructor; [exact H|constructor]].
Qed.
