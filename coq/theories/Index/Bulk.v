(* E5 — model of ContentIndexParser.parse_all_flows / _parse_flow / get_node_group
   (rpft/parsers/creation/contentindexparser.py), definitions only.

   The compilation of one flow from (flow name, template table, context) is NOT modelled
   here (E7): it is the section variable [compile_one], whose only channel to other
   instances is the container state [S] it receives and returns (the container's uuid
   dictionary).  What IS modelled is everything parse_all_flows and _parse_flow do around
   it: which instances are generated, in which order, under which names, in which context,
   how the [flows] dict is filled (a later flow of the same name overwrites the value and
   keeps the first position) and how the state is threaded.

   [flow.name] of the object FlowParser returns is taken to be the [flow_name] it was
   given (FlowContainer(flow_name=self.flow_name)); the differential on the implementation
   checks the names in the real output. *)
From Coq Require Import List NArith Bool.
From RPFT Require Import Base.Sexp Base.PyStr Base.ODict Base.Result Gen.Tables Cell.Cell Index.Args.
Import ListNotations.

(* the fields of a create_flow row of the content index that parse_all_flows reads
   (sheet_name[0], new_name, data_sheet, data_row_id, template_arguments) *)
Record cfrow := mk_cfrow {
  cf_sheet : str; cf_new_name : str; cf_data_sheet : str; cf_data_row_id : str;
  cf_args : list nv }.

Definition nonblank (s : str) : bool := match s with [] => false | _ => true end.
(* Python [a or b] on strings *)
Definition str_or (a b : str) : str := match a with [] => b | _ => a end.

(* the same index row naming the data row [id] *)
Definition with_id (r : cfrow) (id : str) : cfrow :=
  mk_cfrow (cf_sheet r) (cf_new_name r) (cf_data_sheet r) id (cf_args r).

Definition is_bulk (r : cfrow) : bool :=
  nonblank (cf_data_sheet r) && negb (nonblank (cf_data_row_id r)).

Section Prepare.
Context {D T : Type}.   (* D: value of a data-row field; T: template table *)

Record registry := mk_registry {
  reg_templates : list (str * (T * list argdef));   (* self.template_sheets *)
  reg_sheets : list (str * dsheet D) }.             (* self.data_sheets *)

Inductive perr (E : Type) :=
| PArgs (e : aerr)                 (* map_template_arguments_to_context stopped *)
| PNoSheet (name : str)            (* KeyError: self.data_sheets[name] *)
| PNoRow (sheet id : str)          (* KeyError: .rows[row_id] *)
| PNoTemplate (name : str)         (* KeyError: self.template_sheets[name] *)
| PRowIdWithoutSheet               (* critical: data_row_id without data_sheet *)
| PBlockHalf                       (* critical of get_node_group: one of the two given *)
| PCompile (e : E).                (* whatever stops FlowParser *)

(* what FlowParser is constructed with: flow name, template table, context *)
Definition inst : Type := str * T * ctx D.

(* _parse_flow up to the construction of FlowParser *)
Definition prepare {E} (reg : registry) (sheet_name data_sheet data_row_id : str)
  (args : list nv) (new_name : str) : result (perr E) inst :=
  let base := str_or new_name sheet_name in
  let named :=
    if nonblank data_sheet && nonblank data_row_id then
      match oget str_eqb (reg_sheets reg) data_sheet with
      | None => Err (PNoSheet E data_sheet)
      | Some rows =>
        match oget str_eqb rows data_row_id with
        | None => Err (PNoRow E data_sheet data_row_id)
        | Some row => Ok (base ++ flow_name_sep_single ++ data_row_id, ctx_of_row row)
        end
      end
    else Ok (base, []) in
  match named with
  | Err e => Err e
  | Ok (flow_name, c0) =>
    match oget str_eqb (reg_templates reg) sheet_name with
    | None => Err (PNoTemplate E sheet_name)
    | Some (table, defs) =>
      match map_template_arguments_to_context (reg_sheets reg) defs args c0 with
      | Err e => Err (PArgs E e)
      | Ok c => Ok (flow_name, table, c)
      end
    end
  end.

Definition prepare_row {E} (reg : registry) (r : cfrow) (id : str) : result (perr E) inst :=
  prepare reg (cf_sheet r) (cf_data_sheet r) id (cf_args r) (cf_new_name r).

(* get_node_group (insert_as_block): same preparation, no new_name, a fresh container *)
Definition prepare_block {E} (reg : registry) (template_name data_sheet data_row_id : str)
  (args : list nv) : result (perr E) inst :=
  if (nonblank data_sheet && nonblank data_row_id)
     || (negb (nonblank data_sheet) && negb (nonblank data_row_id))
  then prepare reg template_name data_sheet data_row_id args []
  else Err (PBlockHalf E).

(* the instances one index row asks for, without compiling anything: a row-level stop is
   a single [Err] item *)
Definition plan_row {E} (reg : registry) (r : cfrow) : list (result (perr E) inst) :=
  if is_bulk r then
    match oget str_eqb (reg_sheets reg) (cf_data_sheet r) with
    | None => [Err (PNoSheet E (cf_data_sheet r))]
    | Some rows => map (prepare_row reg r) (okeys rows)
    end
  else if negb (nonblank (cf_data_sheet r)) && nonblank (cf_data_row_id r)
  then [Err (PRowIdWithoutSheet E)]
  else [prepare_row reg r (cf_data_row_id r)].

Definition plan {E} (reg : registry) (rows : list cfrow) : list (result (perr E) inst) :=
  flat_map (plan_row reg) rows.

End Prepare.

Arguments registry D T : clear implicits.
Arguments inst D T : clear implicits.

Section Bulk.
Context {D T F S E : Type}.
(* F: compiled flow; S: container state shared by the instances; E: compile errors *)
Variable compile_one : str -> T -> ctx D -> S -> result E (F * S).

Definition flows := list (str * F).      (* the local dict [flows] of parse_all_flows *)
Definition acc : Type := flows * S.

Definition compile_inst (i : inst D T) (a : acc) : result (perr E) acc :=
  let '(name, table, c) := i in
  match compile_one name table c (snd a) with
  | Err e => Err (PCompile E e)
  | Ok (f, st') => Ok (oset str_eqb (fst a) name f, st')   (* flows[flow.name] = flow *)
  end.

(* _parse_flow + the dict update, for the data row [id] of index row [r] *)
Definition instance (reg : registry D T) (r : cfrow) (id : str) (a : acc) : result (perr E) acc :=
  match prepare_row reg r id with
  | Err e => Err e
  | Ok i => compile_inst i a
  end.

(* the body of the loop of parse_all_flows *)
Definition paf_row (reg : registry D T) (a : acc) (r : cfrow) : result (perr E) acc :=
  if is_bulk r then
    match oget str_eqb (reg_sheets reg) (cf_data_sheet r) with
    | None => Err (PNoSheet E (cf_data_sheet r))
    | Some rows => foldM (fun a id => instance reg r id a) (okeys rows) a
    end
  else if negb (nonblank (cf_data_sheet r)) && nonblank (cf_data_row_id r)
  then Err (PRowIdWithoutSheet E)
  else instance reg r (cf_data_row_id r) a.

Definition paf_rows (reg : registry D T) (rows : list cfrow) (a : acc) : result (perr E) acc :=
  foldM (paf_row reg) rows a.

(* parse_all_flows: the flows handed to the container, in dict order, and the state *)
Definition parse_all_flows (reg : registry D T) (rows : list cfrow) (st : S)
  : result (perr E) (list (str * F) * S) :=
  paf_rows reg rows ([], st).

(* executing a plan: stop at the first [Err] item or failing compilation *)
Definition run_item (a : acc) (x : result (perr E) (inst D T)) : result (perr E) acc :=
  match x with Err e => Err e | Ok i => compile_inst i a end.

Definition run_plan (p : list (result (perr E) (inst D T))) (a : acc) : result (perr E) acc :=
  foldM run_item p a.

End Bulk.
