(* C19 — field names and JSON keys as code-point lists.  [s2l] is used at definition time
   only ([Eval vm_compute]), so Coq strings never reach the extracted model. *)
From Coq Require Import String Ascii.
From Coq Require Import List NArith.
From RPFT Require Import Base.Sexp.
Import ListNotations.

Fixpoint s2l (s : string) : str :=
  match s with EmptyString => [] | String a r => N_of_ascii a :: s2l r end.

Definition k_base_language : str := Eval vm_compute in s2l "base_language".
Definition k_campaigns : str := Eval vm_compute in s2l "campaigns".
Definition k_channel : str := Eval vm_compute in s2l "channel".
Definition k_delivery_hour : str := Eval vm_compute in s2l "delivery_hour".
Definition k_event_type : str := Eval vm_compute in s2l "event_type".
Definition k_events : str := Eval vm_compute in s2l "events".
Definition k_exclude_groups : str := Eval vm_compute in s2l "exclude_groups".
Definition k_flow : str := Eval vm_compute in s2l "flow".
Definition k_group : str := Eval vm_compute in s2l "group".
Definition k_groups : str := Eval vm_compute in s2l "groups".
Definition k_key : str := Eval vm_compute in s2l "key".
Definition k_keyword : str := Eval vm_compute in s2l "keyword".
Definition k_keywords : str := Eval vm_compute in s2l "keywords".
Definition k_label : str := Eval vm_compute in s2l "label".
Definition k_match_type : str := Eval vm_compute in s2l "match_type".
Definition k_message : str := Eval vm_compute in s2l "message".
Definition k_name : str := Eval vm_compute in s2l "name".
Definition k_offset : str := Eval vm_compute in s2l "offset".
Definition k_relative_to : str := Eval vm_compute in s2l "relative_to".
Definition k_start_mode : str := Eval vm_compute in s2l "start_mode".
Definition k_trigger_type : str := Eval vm_compute in s2l "trigger_type".
Definition k_triggers : str := Eval vm_compute in s2l "triggers".
Definition k_type : str := Eval vm_compute in s2l "type".
Definition k_unit : str := Eval vm_compute in s2l "unit".
Definition k_uuid : str := Eval vm_compute in s2l "uuid".
