(* C19 — model of a trigger sheet: rpft/parsers/creation/triggerrowmodel.py (row model +
   validators), triggerparser.py (TriggerParser.parse), rapidpro/models/triggers.py
   (Trigger constructor checks and render).  Definitions only.  Tables: Gen/Tables.v. *)
From Coq Require Import List NArith ZArith Bool.
From RPFT Require Import Base.Sexp Base.PyStr Base.Result Base.Json Gen.Tables Cell.Cell Index.Names Index.Campaign.
Import ListNotations.
Local Open Scope N_scope.

(* ---- a List[str] cell ------------------------------------------------------------------------
   RowParser.parse_entry: CellParser.parse (= parse_as_string, then split_into_lists), then
   assign_value for List[str]: a plain "" is the empty list, a plain string a one-element
   list, a list is taken element by element through str().  An element that is itself a list
   (both separators used) would become Python's repr of a list: not modelled. *)
Fixpoint nv_strings (l : list nv) : option (list str) :=
  match l with
  | [] => Some []
  | Str s :: r => match nv_strings r with Some t => Some (s :: t) | None => None end
  | Lst _ :: _ => None
  end.

Definition list_of_cell (c : str) : result err (list str) :=
  do s <- cell_text c;
  match split_into_lists s with
  | Str [] => Ok []
  | Str t => Ok [t]
  | Lst l => match nv_strings l with Some ss => Ok ss | None => Err EUnmodelled end
  end.

Definition get_list (fields : list (str * (N * (bool * str)))) (name : str) (cell : option str)
  : result err (list str) :=
  match assoc name fields with
  | None => match cell with Some _ => Err EUnknownField | None => Ok [] end
  | Some (_, (required, _)) =>
    match cell with
    | Some c => list_of_cell c
    | None => if required then Err EMissingField else Ok []   (* defaults "" / [] are falsy *)
    end
  end.

(* ---- the row model ---------------------------------------------------------------------------- *)
Record trig_raw := {
  tr_type : option str; tr_keywords : option str; tr_flow : option str;
  tr_groups : option str; tr_exclude_groups : option str; tr_channel : option str;
  tr_match_type : option str }.

Record trig_row := {
  t_type : str; t_keywords : list str; t_flow : str; t_groups : list str;
  t_exclude_groups : list str; t_channel : str; t_match_type : str }.

Definition f_type := k_type.
Definition f_keywords := k_keywords.
Definition f_groups := k_groups.
Definition f_exclude_groups := k_exclude_groups.
Definition f_channel := k_channel.
Definition f_match_type := k_match_type.

(* validate_match_type: the list depends on the trigger type (None = anything goes) *)
Definition match_type_ok (type mt : str) : bool :=
  match assoc type match_type_rules with
  | Some tbl => enum_ok tbl mt
  | None => true
  end.

Definition validate_trig_row (r : trig_raw) : result err trig_row :=
  do type <- get_str trig_fields f_type (tr_type r);
  do keywords <- get_list trig_fields f_keywords (tr_keywords r);
  do flow <- get_str trig_fields f_flow (tr_flow r);
  do groups <- get_list trig_fields f_groups (tr_groups r);
  do exclude_groups <- get_list trig_fields f_exclude_groups (tr_exclude_groups r);
  do channel <- get_str trig_fields f_channel (tr_channel r);
  do match_type <- get_str trig_fields f_match_type (tr_match_type r);
  if negb (enum_ok trigger_type_enum type) then Err EBadEnum
  else if (match tr_match_type r with Some _ => true | None => false end)   (* validators see written values only *)
          && negb (match_type_ok type match_type) then Err EBadEnum
  else Ok {| t_type := type; t_keywords := keywords; t_flow := flow; t_groups := groups;
             t_exclude_groups := exclude_groups; t_channel := channel;
             t_match_type := match_type |}.

(* ---- TriggerParser.parse / Trigger.__init__, one row ---------------------------------------------- *)
Record trigger := {
  g_type : str;
  g_keywords : list str;
  g_match_type : option str;
  g_channel : option str;
  g_flow : str;
  g_groups : list str;
  g_exclude_groups : list str }.

(* (a keyword is required, the match type when none is written) for a trigger type *)
Definition kw_rule (type : str) : bool * option str :=
  match assoc type trigger_kw_rules with Some r => r | None => (false, None) end.

Definition trigger_of_row (r : trig_row) : result err trigger :=
  let rule := kw_rule (t_type r) in
  if fst rule && (match t_keywords r with [] => true | k :: _ => is_nil k end) then Err ENoKeyword
  else if is_nil (t_flow r) then Err ENoFlow
  else if existsb is_nil (t_groups r) then Err EEmptyGroup
  else if existsb is_nil (t_exclude_groups r) then Err EEmptyGroup
  else Ok {| g_type := t_type r; g_keywords := t_keywords r;
             g_match_type := if is_nil (t_match_type r) then snd rule else Some (t_match_type r);
             g_channel := if is_nil (t_channel r) then None else Some (t_channel r);
             g_flow := t_flow r; g_groups := t_groups r;
             g_exclude_groups := t_exclude_groups r |}.

Definition parse_triggers (rows : list trig_row) : result err (list trigger) :=
  mapM trigger_of_row rows.

Definition parse_trigger_sheet (raws : list trig_raw) : result err (list trigger) :=
  do rows <- mapM validate_trig_row raws;
  parse_triggers rows.

(* ---- Trigger.render (without the uuids) ------------------------------------------------------------ *)
Definition jgroup (n : str) : json := JObj [(k_name, JStr n)].

Definition render_trigger (t : trigger) : json :=
  JObj ([ (k_trigger_type, JStr (g_type t));
          (k_keyword, match g_keywords t with k :: _ => JStr k | [] => JNull end);
          (k_keywords, JArr (map JStr (g_keywords t)));
          (k_channel, jopt_str (g_channel t));
          (k_flow, JObj [(k_name, JStr (g_flow t))]);
          (k_groups, JArr (map jgroup (g_groups t)));
          (k_exclude_groups, JArr (map jgroup (g_exclude_groups t))) ]
        ++ match g_match_type t with
           | Some m => if is_nil m then [] else [(k_match_type, JStr m)]
           | None => []
           end).
