(* E5 / C11 — history independence of the data-sheet operations (facts over Index/DataOps.v).

   The only thing one data_sheet row of a content index hands to the next is the registry
   (name -> sheet) and the count of inferred row models.  These facts say how LITTLE of that
   an operation looks at:
     - [op_result_local]     the sheet a row produces is the same in any two states that
                             register the same thing (or nothing) under the names the row READS;
     - [op_result_isolated]  ... in particular in the state that holds nothing but these names;
     - [scan_history_independent]  at every position of every chain the sheet registered is
                             the result of that row in the isolated state: whatever was
                             computed earlier - for the same row text or any other - is not
                             an input;
     - [run_frame], [drop_unread_row]  a chain confined to a set of names is a function of the
                             part of the start state under these names; a row whose target
                             nobody reads can be cut out of the history.
   A memo of filter/sort results keyed by the source NAME (seeded/C11-w3) is exactly a
   violation of [op_result_local]: same name, different registration, same answer. *)
From Coq Require Import List NArith ZArith Bool Lia.
From RPFT Require Import Base.Sexp Base.PyStr Base.ODict Base.Result Gen.Tables Index.DataOps Index.DataOpsFacts.
Import ListNotations.

Section Hist.
Context {I R K : Type}.
Variable ieqb : I -> I -> bool.
Variable kleb : K -> K -> bool.
Variable rid : R -> I.
Variable raw : str -> bool -> option (list R).
Variable model_defined : str -> bool.

Local Notation dsheet := (@dsheet I R).
Local Notation state := (@state I R).
Local Notation irow := (@irow R K).
Local Notation get_sheet := (get_sheet ieqb rid raw model_defined).
Local Notation load_fresh := (load_fresh ieqb rid raw model_defined).
Local Notation concat_loop := (concat_loop ieqb rid raw model_defined).
Local Notation op_concat := (op_concat ieqb rid raw model_defined).
Local Notation op_filter := (op_filter ieqb rid raw model_defined).
Local Notation op_sort := (op_sort ieqb kleb rid raw model_defined).
Local Notation op_result := (op_result ieqb kleb rid raw model_defined).
Local Notation step := (step ieqb kleb rid raw model_defined).
Local Notation run := (run ieqb kleb rid raw model_defined).
Local Notation scan := (scan ieqb kleb rid raw model_defined).
Local Notation sget := (oget str_eqb).

(* the sheet names an index row reads: all of them for a (implicit or explicit) concat, the
   first one otherwise ("All but the first sheet_name are ignored") *)
Definition reads (r : irow) : list str :=
  match ir_sheet_names r with
  | [] => []
  | first :: _ =>
    if is_empty (ir_op_type r) || str_eqb (ir_op_type r) dop_word_concat then ir_sheet_names r else [first]
  end.

(* two states say the same about a list of names (and have inferred as many row models) *)
Definition agree_on (names : list str) (a b : state) : Prop :=
  next_stamp a = next_stamp b /\ forall n, In n names -> sget (reg a) n = sget (reg b) n.

Lemma agree_on_refl names a : agree_on names a a.
Proof. split; reflexivity. Qed.

Lemma agree_on_sym names a b : agree_on names a b -> agree_on names b a.
Proof. intros [H1 H2]. split; [symmetry; exact H1|]. intros n Hn. symmetry. apply H2, Hn. Qed.

Lemma agree_on_trans names a b c : agree_on names a b -> agree_on names b c -> agree_on names a c.
Proof.
  intros [H1 H2] [H3 H4]. split; [congruence|]. intros n Hn. rewrite (H2 n Hn). apply H4, Hn.
Qed.

Lemma agree_on_incl names names' a b : incl names' names -> agree_on names a b -> agree_on names' a b.
Proof. intros Hi [H1 H2]. split; [exact H1|]. intros n Hn. apply H2, Hi, Hn. Qed.

Lemma get_sheet_agree a b n name dm :
  sget (reg a) name = sget (reg b) name -> get_sheet a n name dm = get_sheet b n name dm.
Proof. intros H. unfold DataOps.get_sheet. rewrite H. reflexivity. Qed.

Lemma concat_loop_agree a b names dm acc um n :
  (forall x, In x names -> sget (reg a) x = sget (reg b) x) ->
  concat_loop a names dm acc um n = concat_loop b names dm acc um n.
Proof.
  revert acc um n. induction names as [|name rest IH]; intros acc um n H; [reflexivity|].
  cbn [DataOps.concat_loop]. rewrite (get_sheet_agree a b n name dm) by (apply H; left; reflexivity).
  destruct (get_sheet b n name dm) as [[d n1]|e]; [|reflexivity].
  destruct (match um with Some m => negb (mid_eqb m (ds_model d)) | None => false end); [reflexivity|].
  apply IH. intros x Hx. apply H. right. exact Hx.
Qed.

Lemma op_concat_agree a b names dm : agree_on names a b -> op_concat a names dm = op_concat b names dm.
Proof.
  intros [Hs Hn]. unfold DataOps.op_concat. rewrite Hs. rewrite (concat_loop_agree a b) by exact Hn. reflexivity.
Qed.

Lemma op_filter_agree a b name dm pred : agree_on [name] a b -> op_filter a name dm pred = op_filter b name dm pred.
Proof.
  intros [Hs Hn]. unfold DataOps.op_filter. rewrite Hs.
  rewrite (get_sheet_agree a b) by (apply Hn; left; reflexivity). reflexivity.
Qed.

Lemma op_sort_agree a b name dm key order : agree_on [name] a b -> op_sort a name dm key order = op_sort b name dm key order.
Proof.
  intros [Hs Hn]. unfold DataOps.op_sort. rewrite Hs.
  rewrite (get_sheet_agree a b) by (apply Hn; left; reflexivity). reflexivity.
Qed.

(* LOCALITY: the sheet a row produces depends on the state only through what is registered
   under the names it reads *)
Lemma op_result_local a b r : agree_on (reads r) a b -> op_result a r = op_result b r.
Proof.
  unfold reads, DataOps.op_result. destruct (ir_sheet_names r) as [|first rest] eqn:En; [reflexivity|].
  destruct (is_empty (ir_op_type r)) eqn:E0; cbn [orb].
  - intros H. apply op_concat_agree, H.
  - destruct (is_empty (ir_new_name r)); [reflexivity|].
    destruct (str_eqb (ir_op_type r) dop_word_concat) eqn:Ec.
    + intros H. apply op_concat_agree, H.
    + intros H. destruct (str_eqb (ir_op_type r) dop_word_filter); [apply op_filter_agree, H|].
      destruct (str_eqb (ir_op_type r) dop_word_sort); [apply op_sort_agree, H|reflexivity].
Qed.

(* the state that knows nothing but the given names *)
Definition restrict (names : list str) (st : state) : state :=
  mk_state (filter (fun nd => existsb (str_eqb (fst nd)) names) (reg st)) (next_stamp st).

Lemma sget_filter_in (names : list str) (d : list (str * dsheet)) n :
  In n names -> sget (filter (fun nd => existsb (str_eqb (fst nd)) names) d) n = sget d n.
Proof.
  intros Hn. induction d as [|[k v] rest IH]; [reflexivity|]. cbn [filter fst].
  destruct (existsb (str_eqb k) names) eqn:Ee.
  - cbn [oget]. destruct (str_eqb k n); [reflexivity|exact IH].
  - cbn [oget]. destruct (str_eqb k n) eqn:Ek; [|exact IH].
    apply str_eqb_spec in Ek. subst k. exfalso.
    assert (Ht : existsb (str_eqb n) names = true) by (apply existsb_exists; exists n; split; [exact Hn|apply str_eqb_refl]).
    congruence.
Qed.

Lemma sget_filter_out (names : list str) (d : list (str * dsheet)) n :
  ~ In n names -> sget (filter (fun nd => existsb (str_eqb (fst nd)) names) d) n = None.
Proof.
  intros Hn. induction d as [|[k v] rest IH]; [reflexivity|]. cbn [filter fst].
  destruct (existsb (str_eqb k) names) eqn:Ee; [|exact IH].
  cbn [oget]. destruct (str_eqb k n) eqn:Ek; [|exact IH].
  apply str_eqb_spec in Ek. subst k. exfalso. apply Hn.
  apply existsb_exists in Ee. destruct Ee as [x [Hx Hxe]]. apply str_eqb_spec in Hxe. subst x. exact Hx.
Qed.

Lemma restrict_agree names st : agree_on names (restrict names st) st.
Proof. split; [reflexivity|]. intros n Hn. cbn [restrict reg]. apply sget_filter_in, Hn. Qed.

(* ISOLATION: the result in a long history = the result in the state that holds only the sources *)
Lemma op_result_isolated st r : op_result (restrict (reads r) st) r = op_result st r.
Proof. apply op_result_local, restrict_agree. Qed.

(* HISTORY INDEPENDENCE of every step of every chain: the sheet registered at position k is
   what row k yields from the sources registered at that moment (taken alone), it lands under
   the row's target, and nothing else moves *)
Lemma scan_history_independent rows st k s' :
  nth_error (scan rows st) k = Some (Ok s') ->
  exists s r d,
    run (firstn k rows) st = Ok s /\ nth_error rows k = Some r
    /\ op_result (restrict (reads r) s) r = Ok (d, next_stamp s')
    /\ sget (reg s') (target r) = Some d
    /\ (forall name, name <> target r -> sget (reg s') name = sget (reg s) name).
Proof.
  revert st k. induction rows as [|r rest IH]; intros st k H; [destruct k; discriminate|].
  cbn [DataOps.scan] in H. destruct (step st r) as [st1|e] eqn:Es.
  - destruct k as [|k]; cbn [nth_error] in H.
    + inversion H; subst s'. exists st, r.
      destruct (step_registers ieqb kleb rid raw model_defined st r st1 Es) as [d [Hd Hg]].
      exists d. split; [reflexivity|]. split; [reflexivity|]. split; [rewrite op_result_isolated; exact Hd|].
      split; [exact Hg|]. intros name Hne. eapply sources_untouched; eassumption.
    + apply IH in H. destruct H as [s [r0 [d [Hrun Hrest]]]]. exists s, r0, d. split; [|exact Hrest].
      cbn [firstn DataOps.run foldM]. rewrite Es. exact Hrun.
  - destruct k as [|k]; cbn [nth_error] in H; [discriminate|destruct k; discriminate].
Qed.

(* ---------------------------------------------------------------- chains confined to a set of names *)
Definition confined (names : list str) (r : irow) : Prop := incl (reads r) names /\ In (target r) names.

(* two results of the same kind that agree on [names] *)
Definition res_agree (names : list str) (x y : result derr state) : Prop :=
  match x, y with
  | Ok a, Ok b => agree_on names a b
  | Err e, Err e' => e = e'
  | _, _ => False
  end.

Lemma step_frame names a b r :
  agree_on names a b -> incl (reads r) names ->
  res_agree (target r :: names) (step a r) (step b r).
Proof.
  intros Hab Hi. unfold DataOps.step.
  rewrite (op_result_local a b r) by (eapply agree_on_incl; eassumption).
  destruct (op_result b r) as [[d n]|e]; [|reflexivity]. cbn [res_agree].
  split; [reflexivity|]. intros x Hx. cbn [reg].
  destruct (str_eqb x (target r)) eqn:Ex.
  - apply str_eqb_spec in Ex. subst x. rewrite !(oget_oset_same str_eqb str_eqb_spec). reflexivity.
  - assert (Hne : x <> target r) by (intros ->; rewrite str_eqb_refl in Ex; discriminate).
    rewrite !(oget_oset_other str_eqb str_eqb_spec) by exact Hne.
    destruct Hx as [Hx|Hx]; [congruence|]. apply Hab, Hx.
Qed.

(* FRAME: a chain that reads and writes only [names] is a function of the [names]-part of
   the state it starts in - including whether and how it fails *)
Lemma run_frame names rows a b :
  agree_on names a b -> Forall (confined names) rows -> res_agree names (run rows a) (run rows b).
Proof.
  revert a b. induction rows as [|r rest IH]; intros a b Hab Hf; [exact Hab|].
  inversion Hf as [|x y [Hx1 Hx2] Hy]; subst. cbn [DataOps.run foldM].
  pose proof (step_frame names a b r Hab Hx1) as Hs.
  destruct (step a r) as [a1|e1]; destruct (step b r) as [b1|e2]; cbn [res_agree] in Hs; try contradiction.
  - apply IH; [|exact Hy]. eapply agree_on_incl; [|exact Hs]. intros z Hz. right. exact Hz.
  - exact Hs.
Qed.

(* an earlier row whose target is outside [names] (and which inferred no row model) can be
   cut out of the history of a chain confined to [names]: same outcome on [names] *)
Lemma drop_unread_row names r post st st1 :
  step st r = Ok st1 -> next_stamp st1 = next_stamp st -> ~ In (target r) names ->
  Forall (confined names) post ->
  res_agree names (run post st1) (run post st).
Proof.
  intros Hs Hn Ht Hf. apply run_frame; [|exact Hf]. split; [exact Hn|].
  intros n Hin. eapply sources_untouched; [exact Hs|]. intros ->. contradiction.
Qed.

(* a row that was applied before gives the same sheet again exactly when its sources are
   registered as they were; [retarget] changes nothing but the name the result goes to *)
Definition retarget (r : irow) (new : str) : irow :=
  mk_irow (ir_sheet_names r) new (ir_data_model r) (ir_op_type r) (ir_pred r) (ir_key r) (ir_order r).

Lemma op_result_retarget st r new :
  is_empty new = is_empty (ir_new_name r) -> op_result st (retarget r new) = op_result st r.
Proof. intros H. unfold DataOps.op_result, retarget. cbn. rewrite H. reflexivity. Qed.

Lemma reads_retarget r new : reads (retarget r new) = reads r.
Proof. reflexivity. Qed.

Lemma repeat_same_sources st st2 r new :
  is_empty new = is_empty (ir_new_name r) -> agree_on (reads r) st st2 ->
  op_result st2 (retarget r new) = op_result st r.
Proof.
  intros Hn Ha. rewrite (op_result_retarget st2 r new Hn). symmetry. apply op_result_local, Ha.
Qed.

End Hist.

(* ------------------------------------------------------------------ the seeded history, on the
   concrete instance of DataOpsFacts.Ex: a filter of a sheet that is not registered yet, then
   a concat registered under that very name, then the same filter again.  The second filter
   sees the concatenated rows; a memo keyed by the source name would repeat [(2, 21)]. *)
Module ExH.
Local Open Scope N_scope.
Definition r_f1 := mk_irow [Ex.sa] Ex.sd Ex.mM dop_word_filter Ex.pred Ex.key [].
Definition r_reg := mk_irow [Ex.sa; Ex.sb] Ex.sa Ex.mM dop_word_concat Ex.pred Ex.key [].
Definition r_f2 := retarget r_f1 Ex.se.
Definition rows_of (name : str) (st : @state N N) : option (list (N * N)) :=
  match oget str_eqb (reg st) name with Some d => Some (ds_rows d) | None => None end.
End ExH.

Example ex_repeat_after_first_registration :
  exists st, Ex.run [ExH.r_f1; ExH.r_reg; ExH.r_f2] init_state = Ok st
    /\ ExH.rows_of Ex.sd st = Some [(2, 21)]%N
    /\ ExH.rows_of Ex.sa st = Some [(1, 12); (2, 22); (3, 31); (4, 41)]%N
    /\ ExH.rows_of Ex.se st = Some [(3, 31); (4, 41)]%N.
Proof. eexists. split; [vm_compute; reflexivity|]. repeat split. Qed.
