(* Facts about Index/DataOps.v (C11): concat / filter / sort specifications, registration,
   non-interference, the chain invariant, the export.  No size bounds anywhere. *)
From Coq Require Import List NArith ZArith Bool Lia Permutation Sorted.
From RPFT Require Import Base.Sexp Base.PyStr Base.ODict Base.Result Gen.Tables Index.DataOps.
Import ListNotations.

(* ------------------------------------------------------------------ regenerated words *)
Definition dop_tables_ok : bool :=
  negb (str_eqb dop_word_concat dop_word_filter) && negb (str_eqb dop_word_concat dop_word_sort)
  && negb (str_eqb dop_word_filter dop_word_sort)
  && negb (is_empty dop_word_concat) && negb (is_empty dop_word_filter) && negb (is_empty dop_word_sort)
  && forallb (fun nd => is_empty (snd nd)) dop_operation_fields.

Lemma dop_tables_ok_true : dop_tables_ok = true.
Proof. vm_compute. reflexivity. Qed.

Lemma str_eqb_spec : forall a b : str, str_eqb a b = true <-> a = b.
Proof.
  induction a as [|x a IH]; destruct b as [|y b]; cbn; split; intros H; try reflexivity; try discriminate.
  - apply andb_true_iff in H. destruct H as [H1 H2]. apply N.eqb_eq in H1. apply IH in H2. subst. reflexivity.
  - inversion H; subst. apply andb_true_iff. split; [apply N.eqb_refl|apply IH; reflexivity].
Qed.

Lemma str_eqb_refl (a : str) : str_eqb a a = true.
Proof. apply str_eqb_spec. reflexivity. Qed.

(* ------------------------------------------------------------------ the stable sort *)
Section SortFacts.
Context {A K : Type}.
Variable le : K -> K -> bool.
Variable kf : A -> K.
Hypothesis le_total : forall a b, le a b = true \/ le b a = true.
Hypothesis le_trans : forall a b c, le a b = true -> le b c = true -> le a c = true.

Definition keq (a b : K) : bool := le a b && le b a.

Lemma insert_perm x l : Permutation (insert le kf x l) (x :: l).
Proof.
  induction l as [|y r IH]; cbn; [apply Permutation_refl|].
  destruct (le (kf x) (kf y)); [apply Permutation_refl|].
  eapply Permutation_trans; [apply perm_skip, IH|apply perm_swap].
Qed.

Lemma isort_perm l : Permutation (isort le kf l) l.
Proof.
  induction l as [|x r IH]; cbn; [constructor|].
  eapply Permutation_trans; [apply insert_perm|apply perm_skip, IH].
Qed.

Definition kle (a b : A) : Prop := le (kf a) (kf b) = true.

Lemma insert_sorted x l : StronglySorted kle l -> StronglySorted kle (insert le kf x l).
Proof.
  induction l as [|y r IH]; cbn; intros Hs.
  - constructor; constructor.
  - inversion Hs as [|y' r' Hr Hall]; subst.
    destruct (le (kf x) (kf y)) eqn:E.
    + constructor; [exact Hs|]. constructor; [exact E|].
      rewrite Forall_forall in *. intros z Hz. unfold kle in *. eapply le_trans; [exact E|apply Hall, Hz].
    + constructor; [apply IH, Hr|].
      assert (Hyx : kle y x). { unfold kle. destruct (le_total (kf x) (kf y)) as [H|H]; [congruence|exact H]. }
      rewrite Forall_forall in *. intros z Hz.
      apply (Permutation_in _ (insert_perm x r)) in Hz. destruct Hz as [Hz|Hz]; [subst; exact Hyx|apply Hall, Hz].
Qed.

Lemma isort_sorted l : StronglySorted kle (isort le kf l).
Proof. induction l as [|x r IH]; cbn; [constructor|apply insert_sorted, IH]. Qed.

(* stability: the elements of any one key class keep their source order *)
Lemma insert_stable k x l :
  filter (fun a => keq (kf a) k) (insert le kf x l) = filter (fun a => keq (kf a) k) (x :: l).
Proof.
  induction l as [|y r IH]; [reflexivity|].
  cbn [insert]. destruct (le (kf x) (kf y)) eqn:E; [reflexivity|].
  cbn [filter] in *. rewrite IH.
  destruct (keq (kf x) k) eqn:Ex; destruct (keq (kf y) k) eqn:Ey; try reflexivity.
  exfalso. unfold keq in *. apply andb_true_iff in Ex, Ey. destruct Ex as [Hxk _]. destruct Ey as [_ Hky].
  rewrite (le_trans _ _ _ Hxk Hky) in E. discriminate.
Qed.

Lemma isort_stable k l :
  filter (fun a => keq (kf a) k) (isort le kf l) = filter (fun a => keq (kf a) k) l.
Proof.
  induction l as [|x r IH]; [reflexivity|].
  cbn [isort]. rewrite insert_stable. cbn [filter]. rewrite IH. reflexivity.
Qed.
End SortFacts.

(* ------------------------------------------------------------------ OrderedDict.update *)
Section UpdateFacts.
Context {I V : Type}.
Variable ieqb : I -> I -> bool.
Hypothesis ieqb_spec : forall a b, ieqb a b = true <-> a = b.

Local Notation oget := (oget ieqb).
Local Notation oset := (oset ieqb).
Local Notation oupdate := (oupdate ieqb).

Lemma ieqb_refl a : ieqb a a = true.
Proof. apply ieqb_spec. reflexivity. Qed.

Lemma ieqb_false a b : a <> b -> ieqb a b = false.
Proof. intros H. destruct (ieqb a b) eqn:E; [apply ieqb_spec in E; contradiction|reflexivity]. Qed.

Definition memb (k : I) (l : list I) : bool := existsb (ieqb k) l.

Lemma memb_in k l : memb k l = true <-> In k l.
Proof.
  unfold memb. rewrite existsb_exists. split.
  - intros [x [Hx He]]. apply ieqb_spec in He. subst. exact Hx.
  - intros H. exists k. split; [exact H|apply ieqb_refl].
Qed.

(* first occurrences, in order: the head, then the first occurrences of the rest without it *)
Fixpoint dedup (l : list I) : list I :=
  match l with
  | [] => []
  | x :: r => x :: filter (fun y => negb (ieqb x y)) (dedup r)
  end.

Lemma dedup_in x l : In x (dedup l) <-> In x l.
Proof.
  induction l as [|y r IH]; cbn; [tauto|].
  rewrite filter_In, IH. split.
  - intros [H|[H _]]; [left; exact H|right; exact H].
  - intros [H|H]; [left; exact H|].
    destruct (ieqb y x) eqn:E; [left; apply ieqb_spec, E|right; split; [exact H|reflexivity]].
Qed.

Lemma NoDup_filter {T} (f : T -> bool) l : NoDup l -> NoDup (filter f l).
Proof.
  induction 1 as [|x l Hx Hn IH]; cbn; [constructor|].
  destruct (f x); [constructor; [rewrite filter_In; tauto|exact IH]|exact IH].
Qed.

Lemma dedup_nodup l : NoDup (dedup l).
Proof.
  induction l as [|y r IH]; cbn; constructor.
  - rewrite filter_In. intros [_ H]. rewrite ieqb_refl in H. discriminate.
  - apply NoDup_filter, IH.
Qed.

Lemma filter_all_id {T} (f : T -> bool) l : (forall x, In x l -> f x = true) -> filter f l = l.
Proof.
  induction l as [|x r IH]; cbn; intros H; [reflexivity|].
  rewrite (H x) by (left; reflexivity). f_equal. apply IH. intros y Hy. apply H. right. exact Hy.
Qed.

Lemma dedup_nodup_id l : NoDup l -> dedup l = l.
Proof.
  induction 1 as [|x l Hx Hn IH]; cbn; [reflexivity|]. rewrite IH. f_equal.
  apply filter_all_id. intros y Hy.
  destruct (ieqb x y) eqn:E; [apply ieqb_spec in E; subst; contradiction|reflexivity].
Qed.

Lemma oupdate_app (d : list (I * V)) a b : oupdate d (a ++ b) = oupdate (oupdate d a) b.
Proof. unfold ODict.oupdate. apply fold_left_app. Qed.

Lemma oupdate_cons (d : list (I * V)) k v l : oupdate d ((k, v) :: l) = oupdate (oset d k v) l.
Proof. reflexivity. Qed.

Lemma oupdate_nodup (d l : list (I * V)) : NoDup (okeys d) -> NoDup (okeys (oupdate d l)).
Proof.
  revert d. induction l as [|[k v] r IH]; intros d H; [exact H|].
  rewrite oupdate_cons. apply IH. apply (oset_nodup ieqb ieqb_spec). exact H.
Qed.

Lemma filter_filter {T} (f g : T -> bool) l : filter f (filter g l) = filter (fun x => g x && f x) l.
Proof.
  induction l as [|x r IH]; cbn; [reflexivity|].
  destruct (g x); cbn; [destruct (f x); rewrite IH; reflexivity|exact IH].
Qed.

(* the keys after an update: the old keys, then the first occurrences of the new ones *)
Lemma oupdate_keys (d l : list (I * V)) :
  okeys (oupdate d l) = okeys d ++ filter (fun k => negb (memb k (okeys d))) (dedup (map fst l)).
Proof.
  revert d. induction l as [|[k v] r IH]; intros d.
  - cbn. rewrite app_nil_r. reflexivity.
  - rewrite oupdate_cons, IH. cbn [map fst dedup filter].
    destruct (ODict.oget ieqb d k) eqn:E.
    + rewrite (okeys_oset_in ieqb) by congruence.
      assert (Hin : memb k (okeys d) = true).
      { destruct (memb k (okeys d)) eqn:Em; [reflexivity|].
        assert (Hn : ~ In k (okeys d)) by (intros Hi; apply memb_in in Hi; congruence).
        apply (oget_none_notin ieqb ieqb_spec) in Hn. congruence. }
      rewrite Hin. cbn [negb]. f_equal. rewrite filter_filter. apply filter_ext_in. intros x _.
      destruct (ieqb k x) eqn:Ex; cbn; [|reflexivity].
      apply ieqb_spec in Ex. subst x. rewrite Hin. reflexivity.
    + rewrite (okeys_oset_new ieqb) by exact E.
      assert (Hin : memb k (okeys d) = false).
      { destruct (memb k (okeys d)) eqn:Em; [|reflexivity]. apply memb_in in Em.
        apply (oget_none_notin ieqb ieqb_spec) in E. contradiction. }
      rewrite Hin. cbn [negb]. rewrite <- app_assoc. cbn [app]. f_equal. f_equal.
      rewrite filter_filter. apply filter_ext_in. intros x _.
      unfold memb. rewrite existsb_app. cbn [existsb]. rewrite orb_false_r.
      rewrite negb_orb. rewrite andb_comm. f_equal. f_equal.
      destruct (ieqb k x) eqn:E1; destruct (ieqb x k) eqn:E2; try reflexivity.
      * apply ieqb_spec in E1. subst. rewrite ieqb_refl in E2. discriminate.
      * apply ieqb_spec in E2. subst. rewrite ieqb_refl in E1. discriminate.
Qed.

Lemma oget_app (a b : list (I * V)) k :
  oget (a ++ b) k = match oget a k with Some v => Some v | None => oget b k end.
Proof.
  induction a as [|[k' v'] r IH]; cbn; [reflexivity|].
  destruct (ieqb k' k); [reflexivity|exact IH].
Qed.

(* the value after an update: the LAST pair of the update carrying the key, else the old one *)
Lemma oupdate_get (d l : list (I * V)) k :
  oget (oupdate d l) k = match oget (rev l) k with Some v => Some v | None => oget d k end.
Proof.
  revert d. induction l as [|[k0 v0] r IH]; intros d; [reflexivity|].
  rewrite oupdate_cons, IH. cbn [rev]. rewrite oget_app. destruct (ODict.oget ieqb (rev r) k); [reflexivity|].
  cbn. destruct (ieqb k0 k) eqn:E.
  - apply ieqb_spec in E. subst. apply (oget_oset_same ieqb ieqb_spec).
  - apply (oget_oset_other ieqb ieqb_spec). intros ->. rewrite ieqb_refl in E. discriminate.
Qed.

Lemma oget_notin (d : list (I * V)) k : ~ In k (okeys d) -> oget d k = None.
Proof. apply (oget_none_notin ieqb ieqb_spec). Qed.

Lemma oget_last_occurrence (l1 l2 : list (I * V)) k v :
  ~ In k (map fst l2) -> oget (rev (l1 ++ (k, v) :: l2)) k = Some v.
Proof.
  intros H. rewrite rev_app_distr. cbn [rev]. rewrite <- app_assoc, oget_app.
  rewrite oget_notin; [cbn; rewrite ieqb_refl; reflexivity|].
  unfold okeys. rewrite map_rev. rewrite <- in_rev. exact H.
Qed.

Lemma oset_new_app (d : list (I * V)) k v : oget d k = None -> oset d k v = d ++ [(k, v)].
Proof.
  induction d as [|[k' v'] r IH]; cbn; [reflexivity|].
  destruct (ieqb k' k); [discriminate|]. intros H. f_equal. apply IH, H.
Qed.

(* updating with pairs whose keys are new and pairwise distinct appends them *)
Lemma oupdate_nodup_app (d l : list (I * V)) : NoDup (okeys d ++ map fst l) -> oupdate d l = d ++ l.
Proof.
  revert d. induction l as [|[k v] r IH]; intros d H; [rewrite app_nil_r; reflexivity|].
  rewrite oupdate_cons. cbn [map fst] in H.
  assert (Hk : ~ In k (okeys d)).
  { apply NoDup_remove_2 in H. intros Hi. apply H. apply in_or_app. left. exact Hi. }
  rewrite oset_new_app by (apply oget_notin, Hk).
  rewrite IH.
  - rewrite <- app_assoc. reflexivity.
  - unfold okeys in *. rewrite map_app. cbn [map fst]. rewrite <- app_assoc. exact H.
Qed.

(* every pair satisfies a relation between key and value (key = row.ID) *)
Lemma oset_forall (P : I * V -> Prop) (d : list (I * V)) k v :
  (forall k', k' = k -> P (k', v)) -> Forall P d -> Forall P (oset d k v).
Proof.
  intros Hk. induction 1 as [|[k' v'] r Hp Hr IH]; cbn.
  - constructor; [apply Hk; reflexivity|constructor].
  - destruct (ieqb k' k) eqn:E.
    + constructor; [apply Hk, ieqb_spec, E|exact Hr].
    + constructor; [exact Hp|exact IH].
Qed.

Lemma oupdate_forall (P : I * V -> Prop) (d l : list (I * V)) :
  (forall k k' v, k' = k -> P (k, v) -> P (k', v)) -> Forall P d -> Forall P l -> Forall P (oupdate d l).
Proof.
  intros Hc. revert d. induction l as [|[k v] r IH]; intros d Hd Hl; [exact Hd|].
  rewrite oupdate_cons. inversion Hl as [|x y Hp Hr]; subst. apply IH; [|exact Hr].
  apply oset_forall; [|exact Hd]. intros k' He. eapply Hc; [exact He|exact Hp].
Qed.
End UpdateFacts.

(* ------------------------------------------------------------------ the three operations *)
Section OpsFacts.
Context {I R K : Type}.
Variable ieqb : I -> I -> bool.
Hypothesis ieqb_spec : forall a b, ieqb a b = true <-> a = b.
Variable kleb : K -> K -> bool.
Hypothesis kleb_total : forall a b, kleb a b = true \/ kleb b a = true.
Hypothesis kleb_trans : forall a b c, kleb a b = true -> kleb b c = true -> kleb a c = true.

Local Notation rows_t := (list (I * R)).

Lemma of_items_keys (l : rows_t) : okeys (of_items ieqb l) = dedup ieqb (map fst l).
Proof.
  unfold of_items. rewrite (oupdate_keys ieqb ieqb_spec). cbn [okeys map app].
  apply filter_all_id. intros x _. reflexivity.
Qed.

Lemma of_items_nodup (l : rows_t) : NoDup (okeys (of_items ieqb l)).
Proof. apply (oupdate_nodup ieqb ieqb_spec). constructor. Qed.

Lemma of_items_nodup_id (l : rows_t) : NoDup (map fst l) -> of_items ieqb l = l.
Proof. intros H. unfold of_items. rewrite (oupdate_nodup_app ieqb ieqb_spec); [reflexivity|exact H]. Qed.

Lemma fold_update_flat (srcs : list rows_t) (acc : rows_t) :
  fold_left (oupdate ieqb) srcs acc = oupdate ieqb acc (List.concat srcs).
Proof.
  revert acc. induction srcs as [|s r IH]; intros acc; [reflexivity|].
  cbn [fold_left List.concat]. rewrite IH, (oupdate_app ieqb). reflexivity.
Qed.

Lemma concat_rows_flat (srcs : list rows_t) : concat_rows ieqb srcs = of_items ieqb (List.concat srcs).
Proof. apply fold_update_flat. Qed.

(* C11-1 *)
Lemma concat_keys_first (srcs : list rows_t) :
  okeys (concat_rows ieqb srcs) = dedup ieqb (map fst (List.concat srcs)).
Proof. rewrite concat_rows_flat. apply of_items_keys. Qed.

Lemma concat_nodup (srcs : list rows_t) : NoDup (okeys (concat_rows ieqb srcs)).
Proof. rewrite concat_rows_flat. apply of_items_nodup. Qed.

Lemma concat_value_last (srcs : list rows_t) l1 k v l2 :
  List.concat srcs = l1 ++ (k, v) :: l2 -> ~ In k (map fst l2) ->
  oget ieqb (concat_rows ieqb srcs) k = Some v.
Proof.
  intros Hf Hn. rewrite concat_rows_flat. unfold of_items. rewrite (oupdate_get ieqb ieqb_spec), Hf.
  rewrite (oget_last_occurrence ieqb ieqb_spec) by exact Hn. reflexivity.
Qed.

Lemma concat_spec (srcs : list rows_t) :
  okeys (concat_rows ieqb srcs) = dedup ieqb (map fst (List.concat srcs))
  /\ NoDup (okeys (concat_rows ieqb srcs))
  /\ (forall l1 k v l2, List.concat srcs = l1 ++ (k, v) :: l2 -> ~ In k (map fst l2) ->
        oget ieqb (concat_rows ieqb srcs) k = Some v)
  /\ (forall k, In k (okeys (concat_rows ieqb srcs)) <-> exists s, In s srcs /\ In k (okeys s)).
Proof.
  split; [apply concat_keys_first|]. split; [apply concat_nodup|]. split; [apply concat_value_last|].
  intros k. rewrite concat_keys_first, (dedup_in ieqb ieqb_spec), in_map_iff. split.
  - intros [[k' v] [He Hin]]. cbn in He. subst k'. apply in_concat in Hin. destruct Hin as [s [Hs Hk]].
    exists s. split; [exact Hs|]. unfold okeys. apply in_map_iff. exists (k, v). split; [reflexivity|exact Hk].
  - intros [s [Hs Hk]]. unfold okeys in Hk. apply in_map_iff in Hk. destruct Hk as [[k' v] [He Hin]].
    exists (k', v). split; [exact He|]. apply in_concat. exists s. split; assumption.
Qed.

(* C11-2 *)
Definition keeps (pred : R -> option bool) (kv : I * R) : bool :=
  match pred (snd kv) with Some true => true | _ => false end.

Lemma filter_loop_spec pred (d acc res : rows_t) :
  NoDup (okeys acc ++ okeys d) -> filter_loop ieqb pred d acc = Ok res ->
  res = acc ++ filter (keeps pred) d /\ Forall (fun kv => pred (snd kv) <> None) d.
Proof.
  revert acc. induction d as [|[i r] t IH]; intros acc Hn H; cbn in H.
  - inversion H. rewrite app_nil_r. split; [reflexivity|constructor].
  - assert (Hk : keeps pred (i, r) = match pred r with Some true => true | _ => false end) by reflexivity.
    cbn [filter]. rewrite Hk. clear Hk. destruct (pred r) as [[|]|] eqn:E; [| |discriminate].
    + assert (Hi : ~ In i (okeys acc)).
      { cbn [okeys map fst] in Hn. apply NoDup_remove_2 in Hn. intros Hi. apply Hn, in_or_app. left. exact Hi. }
      rewrite (oset_new_app ieqb) in H by (apply (oget_notin ieqb ieqb_spec), Hi).
      apply IH in H.
      * destruct H as [H1 H2]. split; [rewrite H1, <- app_assoc; reflexivity|].
        constructor; [cbn; congruence|exact H2].
      * unfold okeys in *. rewrite map_app. cbn [map fst] in *. rewrite <- app_assoc. exact Hn.
    + apply IH in H.
      * destruct H as [H1 H2]. split; [exact H1|].
        constructor; [cbn; congruence|exact H2].
      * cbn [okeys map fst] in Hn. apply NoDup_remove_1 in Hn. exact Hn.
Qed.

Lemma filter_spec pred (d d' : rows_t) :
  NoDup (okeys d) -> filter_rows ieqb pred d = Ok d' ->
  d' = filter (keeps pred) d /\ Forall (fun kv => pred (snd kv) <> None) d.
Proof. intros Hn H. apply (filter_loop_spec pred d [] d'); [exact Hn|exact H]. Qed.

Lemma filter_loop_err pred (d acc : rows_t) e :
  filter_loop ieqb pred d acc = Err e -> e = EEval /\ Exists (fun kv => pred (snd kv) = None) d.
Proof.
  revert acc. induction d as [|[i r] t IH]; intros acc H; cbn in H; [discriminate|].
  destruct (pred r) as [[|]|] eqn:E.
  - apply IH in H. destruct H as [H1 H2]. split; [exact H1|apply Exists_cons_tl, H2].
  - apply IH in H. destruct H as [H1 H2]. split; [exact H1|apply Exists_cons_tl, H2].
  - inversion H. split; [reflexivity|apply Exists_cons_hd; exact E].
Qed.

Lemma filter_error pred (d : rows_t) e :
  filter_rows ieqb pred d = Err e -> e = EEval /\ Exists (fun kv => pred (snd kv) = None) d.
Proof. apply filter_loop_err. Qed.

Lemma filter_loop_defined pred (d acc : rows_t) :
  Forall (fun kv => pred (snd kv) <> None) d -> exists res, filter_loop ieqb pred d acc = Ok res.
Proof.
  revert acc. induction d as [|[i r] t IH]; intros acc H; cbn; [eexists; reflexivity|].
  inversion H as [|x y Hp Hr]; subst. cbn in Hp. destruct (pred r) as [[|]|]; [apply IH, Hr|apply IH, Hr|congruence].
Qed.

Lemma filter_defined pred (d : rows_t) :
  NoDup (okeys d) -> Forall (fun kv => pred (snd kv) <> None) d ->
  filter_rows ieqb pred d = Ok (filter (keeps pred) d).
Proof.
  intros Hn Hf. destruct (filter_loop_defined pred d [] Hf) as [res Hr].
  unfold filter_rows. rewrite Hr. f_equal. apply (filter_spec pred d res Hn) in Hr. apply Hr.
Qed.

(* C11-3 *)
Lemma dir_le_total desc a b : dir_le kleb desc a b = true \/ dir_le kleb desc b a = true.
Proof. destruct desc; cbn; apply kleb_total. Qed.

Lemma dir_le_trans desc a b c :
  dir_le kleb desc a b = true -> dir_le kleb desc b c = true -> dir_le kleb desc a c = true.
Proof. destruct desc; cbn; intros H1 H2; eapply kleb_trans; eassumption. Qed.

Lemma keq_dir desc a b : keq (dir_le kleb desc) a b = keq kleb a b.
Proof. destruct desc; unfold keq; cbn; [apply andb_comm|reflexivity]. Qed.

Definition decorated (key : R -> option K) (x : K * (I * R)) : Prop := key (snd (snd x)) = Some (fst x).

Lemma decorate_spec (key : R -> option K) (d : rows_t) dl :
  decorate key d = Ok dl -> map snd dl = d /\ Forall (decorated key) dl.
Proof.
  revert dl. induction d as [|[i r] t IH]; intros dl H; cbn in H.
  - inversion H. split; [reflexivity|constructor].
  - destruct (key r) as [k|] eqn:E; [|discriminate]. destruct (decorate key t) as [dl'|e] eqn:Ed; [|discriminate].
    inversion H; subst. destruct (IH dl' eq_refl) as [H1 H2]. split; [cbn; rewrite H1; reflexivity|].
    constructor; [exact E|exact H2].
Qed.

Lemma decorate_err (key : R -> option K) (d : rows_t) e :
  decorate key d = Err e -> e = EEval /\ Exists (fun kv => key (snd kv) = None) d.
Proof.
  induction d as [|[i r] t IH]; intros H; cbn in H; [discriminate|].
  destruct (key r) as [k|] eqn:E.
  - destruct (decorate key t) as [dl'|e'] eqn:Ed; [discriminate|]. inversion H; subst.
    destruct (IH eq_refl) as [H1 H2]. split; [exact H1|apply Exists_cons_tl, H2].
  - inversion H. split; [reflexivity|apply Exists_cons_hd; exact E].
Qed.

Lemma decorate_defined (key : R -> option K) (d : rows_t) :
  Forall (fun kv => key (snd kv) <> None) d -> exists dl, decorate key d = Ok dl.
Proof.
  induction d as [|[i r] t IH]; intros H; cbn; [eexists; reflexivity|].
  inversion H as [|x y Hp Hr]; subst. cbn in Hp. destruct (key r) as [k|]; [|congruence].
  destruct (IH Hr) as [dl Hd]. rewrite Hd. eexists; reflexivity.
Qed.

(* a <= b in the direction of the sort, on the rows' (defined) keys *)
Definition item_le (key : R -> option K) (desc : bool) (a b : I * R) : Prop :=
  exists ka kb, key (snd a) = Some ka /\ key (snd b) = Some kb /\ dir_le kleb desc ka kb = true.

(* the row's key is equivalent to k (k <= key <= k) *)
Definition has_key (key : R -> option K) (k : K) (a : I * R) : bool :=
  match key (snd a) with Some k' => keq kleb k' k | None => false end.

Lemma StronglySorted_map_in {X Y} (R1 : X -> X -> Prop) (R2 : Y -> Y -> Prop) (f : X -> Y) l :
  StronglySorted R1 l -> (forall a b, In a l -> In b l -> R1 a b -> R2 (f a) (f b)) ->
  StronglySorted R2 (map f l).
Proof.
  induction 1 as [|x l Hs IH Hall]; intros Hr; cbn; constructor.
  - apply IH. intros a b Ha Hb. apply Hr; right; assumption.
  - rewrite Forall_forall in *. intros y Hy. apply in_map_iff in Hy. destruct Hy as [z [Hz Hin]]. subst y.
    apply Hr; [left; reflexivity|right; exact Hin|apply Hall, Hin].
Qed.

Lemma filter_map_decorated key k (l : list (K * (I * R))) :
  Forall (decorated key) l ->
  filter (has_key key k) (map snd l) = map snd (filter (fun x => keq kleb (fst x) k) l).
Proof.
  induction 1 as [|x l Hx Hl IH]; cbn; [reflexivity|].
  unfold has_key at 1. unfold decorated in Hx. rewrite Hx.
  destruct (keq kleb (fst x) k); cbn; rewrite IH; reflexivity.
Qed.

Lemma sort_spec key desc (d d' : rows_t) :
  NoDup (okeys d) -> sort_rows ieqb kleb key desc d = Ok d' ->
  Permutation d' d
  /\ StronglySorted (item_le key desc) d'
  /\ (forall k, filter (has_key key k) d' = filter (has_key key k) d).
Proof.
  intros Hn H. unfold sort_rows in H. destruct (decorate key d) as [dl|e] eqn:Ed; [|discriminate].
  inversion H as [Hd']. clear H. destruct (decorate_spec key d dl Ed) as [Hm Hdec].
  set (s := isort (dir_le kleb desc) fst dl) in *.
  assert (Hp : Permutation s dl) by apply isort_perm.
  assert (Hps : Permutation (map snd s) d) by (rewrite <- Hm; apply Permutation_map, Hp).
  assert (Hdecs : Forall (decorated key) s).
  { rewrite Forall_forall in *. intros x Hx. apply Hdec. eapply Permutation_in; [exact Hp|exact Hx]. }
  rewrite of_items_nodup_id.
  2:{ eapply Permutation_NoDup; [apply Permutation_sym, Permutation_map, Hps|exact Hn]. }
  split; [exact Hps|]. split.
  - apply (StronglySorted_map_in (kle (dir_le kleb desc) fst)).
    + apply isort_sorted; [apply dir_le_total|apply dir_le_trans].
    + intros a b Ha Hb Hab. rewrite Forall_forall in Hdecs. exists (fst a), (fst b).
      split; [apply Hdecs, Ha|]. split; [apply Hdecs, Hb|exact Hab].
  - intros k. rewrite (filter_map_decorated key k s Hdecs). rewrite <- Hm, (filter_map_decorated key k dl Hdec).
    f_equal. unfold s.
    rewrite (filter_ext _ (fun x => keq (dir_le kleb desc) (fst x) k)) by (intros x; symmetry; apply keq_dir).
    rewrite (isort_stable (dir_le kleb desc) fst (dir_le_trans desc)).
    apply filter_ext. intros x. apply keq_dir.
Qed.

Lemma sort_error key desc (d : rows_t) e :
  sort_rows ieqb kleb key desc d = Err e -> e = EEval /\ Exists (fun kv => key (snd kv) = None) d.
Proof.
  unfold sort_rows. destruct (decorate key d) as [dl|e'] eqn:Ed; [discriminate|].
  intros H. inversion H; subst. apply decorate_err, Ed.
Qed.

Lemma sort_defined key desc (d : rows_t) :
  Forall (fun kv => key (snd kv) <> None) d -> exists d', sort_rows ieqb kleb key desc d = Ok d'.
Proof.
  intros H. destruct (decorate_defined key d H) as [dl Hd]. unfold sort_rows. rewrite Hd. eexists; reflexivity.
Qed.
End OpsFacts.

(* ------------------------------------------------------------------ completeness of the sort specification *)
Lemma unique_gen {A C} (Rle : A -> A -> Prop) (cls : C -> A -> bool) (l1 l2 : list A) :
  (forall x, In x l1 -> exists c, cls c x = true /\ forall y, Rle x y -> Rle y x -> cls c y = true) ->
  Permutation l1 l2 -> StronglySorted Rle l1 -> StronglySorted Rle l2 ->
  (forall c, filter (cls c) l1 = filter (cls c) l2) -> l1 = l2.
Proof.
  revert l2. induction l1 as [|x r1 IH]; intros l2 Hc Hp Hs1 Hs2 Hf.
  - apply Permutation_nil in Hp. subst. reflexivity.
  - destruct l2 as [|y r2]; [apply Permutation_sym, Permutation_nil in Hp; discriminate|].
    inversion Hs1 as [|x' r1' Hs1' Hall1]; subst. inversion Hs2 as [|y' r2' Hs2' Hall2]; subst.
    assert (Hxy : x = y).
    { destruct (Hc x (or_introl eq_refl)) as [c [Hcx Hcy]].
      pose proof (Hf c) as Hk. cbn [filter] in Hk. rewrite Hcx in Hk.
      destruct (cls c y) eqn:Ey; [inversion Hk; reflexivity|].
      exfalso.
      assert (Hx2 : In x r2).
      { assert (Hin : In x (filter (cls c) r2)) by (rewrite <- Hk; left; reflexivity).
        apply filter_In in Hin. apply Hin. }
      assert (Hy1 : In y (x :: r1)) by (eapply Permutation_in; [apply Permutation_sym, Hp|left; reflexivity]).
      destruct Hy1 as [Hy1|Hy1]; [subst y; congruence|].
      rewrite Forall_forall in Hall1, Hall2.
      rewrite (Hcy y (Hall1 y Hy1) (Hall2 x Hx2)) in Ey. discriminate. }
    subst y. f_equal. apply IH.
    + intros z Hz. apply Hc. right. exact Hz.
    + eapply Permutation_cons_inv, Hp.
    + exact Hs1'.
    + exact Hs2'.
    + intros c. pose proof (Hf c) as Hk. cbn [filter] in Hk. destruct (cls c x); [inversion Hk; reflexivity|exact Hk].
Qed.

Section SortChar.
Context {I R K : Type}.
Variable ieqb : I -> I -> bool.
Hypothesis ieqb_spec : forall a b, ieqb a b = true <-> a = b.
Variable kleb : K -> K -> bool.
Hypothesis kleb_total : forall a b, kleb a b = true \/ kleb b a = true.
Hypothesis kleb_trans : forall a b c, kleb a b = true -> kleb b c = true -> kleb a c = true.

Lemma sort_ok_defined (key : R -> option K) desc (d d' : list (I * R)) :
  sort_rows ieqb kleb key desc d = Ok d' -> Forall (fun kv => key (snd kv) <> None) d.
Proof.
  unfold sort_rows. destruct (decorate key d) as [dl|e] eqn:Ed; [|discriminate]. intros _.
  destruct (decorate_spec key d dl Ed) as [Hm Hdec]. rewrite <- Hm. clear -Hdec.
  induction Hdec as [|x l Hx Hl IH]; cbn; constructor; [|exact IH]. unfold decorated in Hx. congruence.
Qed.

(* the three facts of sort_spec determine the result: any list that is a permutation of the
   source, sorted in the direction of the sort and stable IS the result of sort_rows *)
Lemma sort_characterised (key : R -> option K) desc (d d' d'' : list (I * R)) :
  NoDup (okeys d) -> sort_rows ieqb kleb key desc d = Ok d' ->
  Permutation d'' d ->
  StronglySorted (item_le kleb key desc) d'' ->
  (forall k, filter (has_key kleb key k) d'' = filter (has_key kleb key k) d) ->
  d'' = d'.
Proof.
  intros Hn Hs Hp Hso Hst. pose proof (sort_ok_defined key desc d d' Hs) as Hdef.
  destruct (sort_spec ieqb ieqb_spec kleb kleb_total kleb_trans key desc d d' Hn Hs) as [Hp' [Hso' Hst']].
  apply (unique_gen (item_le kleb key desc) (has_key kleb key)).
  - intros x Hx. assert (Hxd : In x d) by exact (Permutation_in x Hp Hx).
    rewrite Forall_forall in Hdef. specialize (Hdef x Hxd). destruct (key (snd x)) as [kx|] eqn:Ex; [|congruence].
    exists kx. split.
    + unfold has_key. rewrite Ex. unfold keq. destruct (kleb_total kx kx) as [H|H]; rewrite H; reflexivity.
    + intros y [ka [kb [Ha [Hb Hab]]]] [kb' [ka' [Hb' [Ha' Hba]]]].
      rewrite Ex in Ha, Ha'. inversion Ha; inversion Ha'; subst. rewrite Hb in Hb'. inversion Hb'; subst.
      unfold has_key. rewrite Hb. destruct desc; cbn in Hab, Hba; unfold keq; rewrite Hab, Hba; reflexivity.
  - eapply Permutation_trans; [exact Hp|apply Permutation_sym, Hp'].
  - exact Hso.
  - exact Hso'.
  - intros k. rewrite Hst, Hst'. reflexivity.
Qed.
End SortChar.

(* ------------------------------------------------------------------ registry, chains, export *)
Lemma mid_eqb_spec a b : mid_eqb a b = true <-> a = b.
Proof.
  destruct a as [x|x]; destruct b as [y|y]; cbn; split; intros H; try discriminate.
  - apply str_eqb_spec in H. subst. reflexivity.
  - inversion H. apply str_eqb_refl.
  - apply Nat.eqb_eq in H. subst. reflexivity.
  - inversion H. apply Nat.eqb_refl.
Qed.

Lemma NoDup_map_filter {X Y} (g : X -> Y) (f : X -> bool) l : NoDup (map g l) -> NoDup (map g (filter f l)).
Proof.
  induction l as [|x r IH]; cbn; intros H; [constructor|]. inversion H as [|y l' Hx Hn]; subst.
  destruct (f x); cbn; [constructor; [|apply IH, Hn]|apply IH, Hn].
  intros Hi. apply Hx. apply in_map_iff in Hi. destruct Hi as [z [Hz Hin]]. apply filter_In in Hin.
  apply in_map_iff. exists z. split; [exact Hz|apply Hin].
Qed.

Section RegFacts.
Context {I R K : Type}.
Variable ieqb : I -> I -> bool.
Hypothesis ieqb_spec : forall a b, ieqb a b = true <-> a = b.
Variable kleb : K -> K -> bool.
Hypothesis kleb_total : forall a b, kleb a b = true \/ kleb b a = true.
Hypothesis kleb_trans : forall a b c, kleb a b = true -> kleb b c = true -> kleb a c = true.
Variable rid : R -> I.
Variable raw : str -> bool -> option (list R).
Variable model_defined : str -> bool.

Local Notation dsheet := (@dsheet I R).
Local Notation state := (@state I R).
Local Notation irow := (@irow R K).
Local Notation get_sheet := (get_sheet ieqb rid raw model_defined).
Local Notation load_fresh := (load_fresh ieqb rid raw model_defined).
Local Notation concat_loop := (concat_loop ieqb rid raw model_defined).
Local Notation op_concat := (op_concat ieqb rid raw model_defined).
Local Notation op_filter := (op_filter ieqb rid raw model_defined).
Local Notation op_sort := (op_sort ieqb kleb rid raw model_defined).
Local Notation op_result := (op_result ieqb kleb rid raw model_defined).
Local Notation step := (step ieqb kleb rid raw model_defined).
Local Notation run := (run ieqb kleb rid raw model_defined).
Local Notation scan := (scan ieqb kleb rid raw model_defined).
Local Notation sget := (oget str_eqb).

(* the key of every pair is the ID of its row *)
Definition keyed (kv : I * R) : Prop := fst kv = rid (snd kv).

Definition rows_inv (d : list (I * R)) : Prop := NoDup (okeys d) /\ Forall keyed d.
Definition sheet_inv (d : dsheet) : Prop := rows_inv (ds_rows d).
Definition reg_inv (st : state) : Prop :=
  NoDup (okeys (reg st)) /\ forall name d, sget (reg st) name = Some d -> sheet_inv d.

Lemma keyed_compat : forall (k k' : I) (v : R), k' = k -> keyed (k, v) -> keyed (k', v).
Proof. intros k k' v -> H. exact H. Qed.

Lemma update_inv (acc l : list (I * R)) : rows_inv acc -> Forall keyed l -> rows_inv (oupdate ieqb acc l).
Proof.
  intros [H1 H2] Hl. split; [apply (oupdate_nodup ieqb ieqb_spec), H1|].
  apply (oupdate_forall ieqb ieqb_spec); [apply keyed_compat|exact H2|exact Hl].
Qed.

Lemma rows_inv_nil : rows_inv [].
Proof. split; constructor. Qed.

Lemma of_rows_inv (l : list R) : rows_inv (of_rows ieqb rid l).
Proof.
  unfold of_rows, of_items. apply update_inv; [apply rows_inv_nil|].
  apply Forall_forall. intros kv H. apply in_map_iff in H. destruct H as [r [<- _]]. reflexivity.
Qed.

Lemma load_fresh_inv n name dm d n' : load_fresh n name dm = Ok (d, n') -> sheet_inv d.
Proof.
  unfold DataOps.load_fresh. destruct (is_empty dm).
  - destruct (raw name false); [|discriminate]. intros H. inversion H. apply of_rows_inv.
  - destruct (model_defined dm); [|discriminate]. destruct (raw name true); [|discriminate].
    intros H. inversion H. apply of_rows_inv.
Qed.

Lemma get_sheet_inv st n name dm d n' : reg_inv st -> get_sheet st n name dm = Ok (d, n') -> sheet_inv d.
Proof.
  intros [_ Hr]. unfold DataOps.get_sheet. destruct (sget (reg st) name) as [d0|] eqn:E.
  - intros H. inversion H; subst. eapply Hr, E.
  - apply load_fresh_inv.
Qed.

(* a registered sheet wins; the registry is only read *)
Lemma get_sheet_registered st n name dm d :
  sget (reg st) name = Some d -> get_sheet st n name dm = Ok (d, n).
Proof. intros H. unfold DataOps.get_sheet. rewrite H. reflexivity. Qed.

(* the sources of a concat, loaded left to right *)
Inductive loaded (st : state) (dm : str) : nat -> list str -> list dsheet -> nat -> Prop :=
| ld_nil n : loaded st dm n [] [] n
| ld_cons n name d n' rest ds n'' :
    get_sheet st n name dm = Ok (d, n') -> loaded st dm n' rest ds n'' ->
    loaded st dm n (name :: rest) (d :: ds) n''.

Lemma concat_loop_spec st names dm acc um n acc' um' n' :
  concat_loop st names dm acc um n = Ok (acc', um', n') ->
  exists ds, loaded st dm n names ds n'
    /\ acc' = fold_left (oupdate ieqb) (map ds_rows ds) acc
    /\ (forall m, um = Some m -> um' = Some m)
    /\ (forall d, In d ds -> um' = Some (ds_model d))
    /\ (ds = [] -> um' = um).
Proof.
  revert acc um n. induction names as [|name rest IH]; intros acc um n H; cbn in H.
  - inversion H; subst. exists []. repeat split; try constructor; try tauto. intros d [].
  - destruct (get_sheet st n name dm) as [[d n1]|e] eqn:Eg; [|discriminate].
    destruct (match um with Some m => negb (mid_eqb m (ds_model d)) | None => false end) eqn:Em; [discriminate|].
    apply IH in H. destruct H as [ds [Hl [Ha [Hu [Hd He]]]]].
    exists (d :: ds). split; [econstructor; eassumption|]. split; [exact Ha|].
    assert (Hd0 : um' = Some (ds_model d)) by (apply Hu; reflexivity).
    split; [|split].
    + intros m Hm. subst um. apply negb_false_iff, mid_eqb_spec in Em. subst m. exact Hd0.
    + intros d1 [<-|Hin]; [exact Hd0|apply Hd, Hin].
    + discriminate.
Qed.

Lemma op_concat_spec st names dm d n' :
  op_concat st names dm = Ok (d, n') ->
  exists ds, loaded st dm (next_stamp st) names ds n'
    /\ ds_rows d = concat_rows ieqb (map ds_rows ds)
    /\ Forall (fun d0 => ds_model d0 = ds_model d) ds
    /\ ds <> [].
Proof.
  unfold DataOps.op_concat. destruct (concat_loop st names dm [] None (next_stamp st)) as [[[acc um] n]|e] eqn:E; [|discriminate].
  destruct um as [m|]; [|discriminate]. intros H. inversion H; subst.
  apply concat_loop_spec in E. destruct E as [ds [Hl [Ha [_ [Hd He]]]]].
  exists ds. split; [exact Hl|]. split; [exact Ha|]. split.
  - apply Forall_forall. intros d0 Hin. apply Hd in Hin. inversion Hin. reflexivity.
  - intros ->. specialize (He eq_refl). discriminate.
Qed.

Lemma loaded_inv st dm n names ds n' : reg_inv st -> loaded st dm n names ds n' -> Forall sheet_inv ds.
Proof.
  intros Hr. induction 1 as [|n name d n' rest ds n'' Hg Hl IH]; constructor; [|exact IH].
  eapply get_sheet_inv; eassumption.
Qed.

Lemma fold_update_inv (srcs : list (list (I * R))) acc :
  rows_inv acc -> Forall rows_inv srcs -> rows_inv (fold_left (oupdate ieqb) srcs acc).
Proof.
  revert acc. induction srcs as [|s r IH]; intros acc Ha Hs; [exact Ha|].
  inversion Hs as [|x y Hx Hy]; subst. cbn. apply IH; [|exact Hy]. apply update_inv; [exact Ha|apply Hx].
Qed.

Lemma op_concat_inv st names dm d n' : reg_inv st -> op_concat st names dm = Ok (d, n') -> sheet_inv d.
Proof.
  intros Hr H. apply op_concat_spec in H. destruct H as [ds [Hl [Ha _]]].
  unfold sheet_inv. rewrite Ha. unfold concat_rows. apply fold_update_inv; [apply rows_inv_nil|].
  apply (loaded_inv _ _ _ _ _ _ Hr) in Hl. clear -Hl. induction Hl; constructor; assumption.
Qed.

Lemma op_filter_spec st name dm pred d n' :
  reg_inv st -> op_filter st name dm pred = Ok (d, n') ->
  exists d0, get_sheet st (next_stamp st) name dm = Ok (d0, n')
    /\ ds_rows d = filter (keeps pred) (ds_rows d0)
    /\ Forall (fun kv => pred (snd kv) <> None) (ds_rows d0)
    /\ ds_model d = ds_model d0.
Proof.
  intros Hr. unfold DataOps.op_filter. destruct (get_sheet st (next_stamp st) name dm) as [[d0 n]|e] eqn:Eg; [|discriminate].
  destruct (filter_rows ieqb pred (ds_rows d0)) as [rows|e] eqn:Ef; [|discriminate].
  intros H. inversion H; subst. exists d0. split; [reflexivity|].
  apply (filter_spec ieqb ieqb_spec) in Ef; [|eapply get_sheet_inv; eassumption].
  destruct Ef as [H1 H2]. cbn. repeat split; assumption.
Qed.

Lemma op_sort_spec st name dm key order d n' :
  reg_inv st -> op_sort st name dm key order = Ok (d, n') ->
  exists d0, get_sheet st (next_stamp st) name dm = Ok (d0, n')
    /\ Permutation (ds_rows d) (ds_rows d0)
    /\ StronglySorted (item_le kleb key (is_descending order)) (ds_rows d)
    /\ (forall k, filter (has_key kleb key k) (ds_rows d) = filter (has_key kleb key k) (ds_rows d0))
    /\ ds_model d = ds_model d0.
Proof.
  intros Hr. unfold DataOps.op_sort. destruct (get_sheet st (next_stamp st) name dm) as [[d0 n]|e] eqn:Eg; [|discriminate].
  destruct (sort_rows ieqb kleb key (is_descending order) (ds_rows d0)) as [rows|e] eqn:Es; [|discriminate].
  intros H. inversion H; subst. exists d0. split; [reflexivity|].
  apply (sort_spec ieqb ieqb_spec kleb kleb_total kleb_trans) in Es; [|eapply get_sheet_inv; eassumption].
  destruct Es as [H1 [H2 H3]]. cbn. repeat split; assumption.
Qed.

Lemma op_filter_inv st name dm pred d n' : reg_inv st -> op_filter st name dm pred = Ok (d, n') -> sheet_inv d.
Proof.
  intros Hr H. destruct (op_filter_spec _ _ _ _ _ _ Hr H) as [d0 [Hg [Hf _]]].
  apply (get_sheet_inv _ _ _ _ _ _ Hr) in Hg. destruct Hg as [G1 G2]. unfold sheet_inv, rows_inv. rewrite Hf. split.
  - apply NoDup_map_filter, G1.
  - apply Forall_forall. intros kv Hin. apply filter_In in Hin. rewrite Forall_forall in G2. apply G2, Hin.
Qed.

Lemma op_sort_inv st name dm key order d n' : reg_inv st -> op_sort st name dm key order = Ok (d, n') -> sheet_inv d.
Proof.
  intros Hr H. destruct (op_sort_spec _ _ _ _ _ _ _ Hr H) as [d0 [Hg [Hp _]]].
  apply (get_sheet_inv _ _ _ _ _ _ Hr) in Hg. destruct Hg as [G1 G2]. split.
  - eapply Permutation_NoDup; [apply Permutation_sym, Permutation_map, Hp|exact G1].
  - eapply Permutation_Forall; [apply Permutation_sym, Hp|exact G2].
Qed.

Lemma op_result_inv st r d n : reg_inv st -> op_result st r = Ok (d, n) -> sheet_inv d.
Proof.
  intros Hr. unfold DataOps.op_result. destruct (ir_sheet_names r) as [|first rest] eqn:En; [discriminate|].
  destruct (is_empty (ir_op_type r)); [apply op_concat_inv, Hr|].
  destruct (is_empty (ir_new_name r)); [discriminate|].
  destruct (str_eqb (ir_op_type r) dop_word_concat); [apply op_concat_inv, Hr|].
  destruct (str_eqb (ir_op_type r) dop_word_filter); [apply op_filter_inv, Hr|].
  destruct (str_eqb (ir_op_type r) dop_word_sort); [apply op_sort_inv, Hr|discriminate].
Qed.

(* C11-4: registration under the new name, everything else untouched *)
Lemma step_registers st r st' :
  step st r = Ok st' ->
  exists d, op_result st r = Ok (d, next_stamp st') /\ sget (reg st') (target r) = Some d.
Proof.
  unfold DataOps.step. destruct (op_result st r) as [[d n]|e]; [|discriminate].
  intros H. inversion H; subst. exists d. split; [reflexivity|]. cbn. apply (oget_oset_same str_eqb str_eqb_spec).
Qed.

Lemma sources_untouched st r st' name :
  step st r = Ok st' -> name <> target r -> sget (reg st') name = sget (reg st) name.
Proof.
  unfold DataOps.step. destruct (op_result st r) as [[d n]|e]; [|discriminate].
  intros H Hne. inversion H; subst. cbn. apply (oget_oset_other str_eqb str_eqb_spec). exact Hne.
Qed.

Lemma step_names st r st' :
  step st r = Ok st' ->
  okeys (reg st') = if ocontains str_eqb (reg st) (target r) then okeys (reg st) else okeys (reg st) ++ [target r].
Proof.
  unfold DataOps.step. destruct (op_result st r) as [[d n]|e]; [|discriminate].
  intros H. inversion H; subst. cbn. unfold ocontains. destruct (sget (reg st) (target r)) eqn:E.
  - apply (okeys_oset_in str_eqb). congruence.
  - apply (okeys_oset_new str_eqb). exact E.
Qed.

(* C11-5: the chain invariant *)
Lemma step_inv st r st' : reg_inv st -> step st r = Ok st' -> reg_inv st'.
Proof.
  intros Hr H. pose proof H as H0. unfold DataOps.step in H. destruct (op_result st r) as [[d n]|e] eqn:Eo; [|discriminate].
  inversion H; subst. split; cbn.
  - apply (oset_nodup str_eqb str_eqb_spec). apply Hr.
  - intros name d1 Hg. destruct (str_eqb name (target r)) eqn:En.
    + apply str_eqb_spec in En. subst name. rewrite (oget_oset_same str_eqb str_eqb_spec) in Hg. inversion Hg; subst.
      eapply op_result_inv; eassumption.
    + rewrite (oget_oset_other str_eqb str_eqb_spec) in Hg.
      * destruct Hr as [_ Hr]. eapply Hr, Hg.
      * intros ->. rewrite str_eqb_refl in En. discriminate.
Qed.

Lemma init_inv : reg_inv (@init_state I R).
Proof. split; [constructor|]. intros name d H. discriminate. Qed.

Lemma run_inv rows st st' : reg_inv st -> run rows st = Ok st' -> reg_inv st'.
Proof.
  revert st. induction rows as [|r rest IH]; intros st Hr H; cbn in H.
  - inversion H; subst. exact Hr.
  - destruct (step st r) as [st1|e] eqn:Es; [|discriminate]. eapply IH; [|exact H]. eapply step_inv; eassumption.
Qed.

Lemma chain_invariant rows st : run rows init_state = Ok st -> reg_inv st.
Proof. apply run_inv, init_inv. Qed.

(* over a whole chain: a sheet stays exactly what it was as long as no row targets its name *)
Lemma run_untouched rows st st' name :
  run rows st = Ok st' -> Forall (fun r => target r <> name) rows ->
  sget (reg st') name = sget (reg st) name.
Proof.
  revert st. induction rows as [|r rest IH]; intros st H Hf; cbn in H.
  - inversion H; subst. reflexivity.
  - destruct (step st r) as [st1|e] eqn:Es; [|discriminate]. inversion Hf as [|x y Hx Hy]; subst.
    rewrite (IH st1 H Hy). eapply sources_untouched; [exact Es|]. intros Heq. apply Hx. symmetry. exact Heq.
Qed.

(* what the prefix runs of the harness observe: the k-th element of scan is the run of
   the first k+1 rows *)
Lemma scan_prefix rows st k s :
  nth_error (scan rows st) k = Some (Ok s) -> run (firstn (S k) rows) st = Ok s.
Proof.
  revert st k. induction rows as [|r rest IH]; intros st k H; [destruct k; discriminate|].
  cbn [DataOps.scan] in H. cbn [firstn DataOps.run foldM]. destruct (step st r) as [st1|e] eqn:Es.
  - destruct k as [|k]; cbn in H.
    + inversion H; subst. destruct rest; reflexivity.
    + apply IH in H. exact H.
  - destruct k as [|k]; cbn in H; [discriminate|destruct k; discriminate].
Qed.

Lemma scan_error rows st k e :
  nth_error (scan rows st) k = Some (Err e) -> run (firstn (S k) rows) st = Err e /\ length (scan rows st) = S k.
Proof.
  revert st k. induction rows as [|r rest IH]; intros st k H; [destruct k; discriminate|].
  cbn [DataOps.scan] in *. cbn [firstn DataOps.run foldM]. destruct (step st r) as [st1|e1] eqn:Es.
  - destruct k as [|k]; cbn in H; [discriminate|]. apply IH in H. destruct H as [H1 H2]. split; [exact H1|cbn; rewrite H2; reflexivity].
  - destruct k as [|k]; cbn in H; [inversion H; subst; split; reflexivity|destruct k; discriminate].
Qed.

(* the operation-level reading of one index row, using the regenerated words *)
Lemma words_distinct :
  is_empty dop_word_concat = false /\ is_empty dop_word_filter = false /\ is_empty dop_word_sort = false
  /\ str_eqb dop_word_filter dop_word_concat = false /\ str_eqb dop_word_sort dop_word_concat = false
  /\ str_eqb dop_word_sort dop_word_filter = false.
Proof. vm_compute. repeat split; reflexivity. Qed.

Lemma step_ok_new_name st r st' :
  step st r = Ok st' -> is_empty (ir_op_type r) = false -> is_empty (ir_new_name r) = false /\ target r = ir_new_name r.
Proof.
  unfold DataOps.step, DataOps.op_result, target. intros H Ho.
  destruct (ir_sheet_names r); [discriminate|]. rewrite Ho in H.
  destruct (is_empty (ir_new_name r)); [discriminate|]. split; reflexivity.
Qed.

Lemma step_filter st r st' src rest :
  reg_inv st -> step st r = Ok st' ->
  ir_op_type r = dop_word_filter -> ir_sheet_names r = src :: rest ->
  exists d0 d, get_sheet st (next_stamp st) src (ir_data_model r) = Ok (d0, next_stamp st')
    /\ sget (reg st') (ir_new_name r) = Some d
    /\ ds_rows d = filter (keeps (ir_pred r)) (ds_rows d0)
    /\ ds_model d = ds_model d0.
Proof.
  intros Hr H Ho Hn. destruct words_distinct as [_ [Wf [_ [Wfc _]]]].
  destruct (step_ok_new_name _ _ _ H) as [Hnn Ht]; [rewrite Ho; exact Wf|].
  destruct (step_registers _ _ _ H) as [d [Hop Hg]]. rewrite Ht in Hg.
  unfold DataOps.op_result in Hop. rewrite Hn, Ho, Wf, Hnn, Wfc, str_eqb_refl in Hop.
  destruct (op_filter_spec _ _ _ _ _ _ Hr Hop) as [d0 [G1 [G2 [_ G4]]]].
  exists d0, d. repeat split; assumption.
Qed.

Lemma step_sort st r st' src rest :
  reg_inv st -> step st r = Ok st' ->
  ir_op_type r = dop_word_sort -> ir_sheet_names r = src :: rest ->
  exists d0 d, get_sheet st (next_stamp st) src (ir_data_model r) = Ok (d0, next_stamp st')
    /\ sget (reg st') (ir_new_name r) = Some d
    /\ Permutation (ds_rows d) (ds_rows d0)
    /\ StronglySorted (item_le kleb (ir_key r) (is_descending (ir_order r))) (ds_rows d)
    /\ (forall k, filter (has_key kleb (ir_key r) k) (ds_rows d) = filter (has_key kleb (ir_key r) k) (ds_rows d0))
    /\ ds_model d = ds_model d0.
Proof.
  intros Hr H Ho Hn. destruct words_distinct as [_ [_ [Ws [_ [Wsc Wsf]]]]].
  destruct (step_ok_new_name _ _ _ H) as [Hnn Ht]; [rewrite Ho; exact Ws|].
  destruct (step_registers _ _ _ H) as [d [Hop Hg]]. rewrite Ht in Hg.
  unfold DataOps.op_result in Hop. rewrite Hn, Ho, Ws, Hnn, Wsc, Wsf, str_eqb_refl in Hop.
  destruct (op_sort_spec _ _ _ _ _ _ _ Hr Hop) as [d0 [G1 [G2 [G3 [G4 G5]]]]].
  exists d0, d. repeat split; assumption.
Qed.

Lemma step_concat st r st' :
  step st r = Ok st' ->
  ir_op_type r = dop_word_concat \/ ir_op_type r = [] ->
  exists ds d, loaded st (ir_data_model r) (next_stamp st) (ir_sheet_names r) ds (next_stamp st')
    /\ sget (reg st') (target r) = Some d
    /\ ds_rows d = concat_rows ieqb (map ds_rows ds)
    /\ Forall (fun d0 => ds_model d0 = ds_model d) ds.
Proof.
  intros H Ho. destruct words_distinct as [Wc _].
  destruct (step_registers _ _ _ H) as [d [Hop Hg]].
  assert (Hc : op_concat st (ir_sheet_names r) (ir_data_model r) = Ok (d, next_stamp st')).
  { unfold DataOps.op_result in Hop. destruct (ir_sheet_names r) as [|first rest]; [discriminate|].
    destruct Ho as [Ho|Ho]; rewrite Ho in Hop.
    - rewrite Wc in Hop. destruct (is_empty (ir_new_name r)); [discriminate|]. rewrite str_eqb_refl in Hop. exact Hop.
    - cbn in Hop. exact Hop. }
  apply op_concat_spec in Hc. destruct Hc as [ds [G1 [G2 [G3 _]]]]. exists ds, d. repeat split; assumption.
Qed.

(* C11-6: the export lists exactly the rows, in order, once each *)
Context {J : Type}.
Variable todict : R -> J.

Lemma to_dict_lists_exactly (st : state) name (d : dsheet) :
  sget (reg st) name = Some d ->
  sget (data_sheets_to_dict todict st) name = Some (map todict (@ovalues I R (ds_rows d))).
Proof.
  unfold data_sheets_to_dict. induction (reg st) as [|[n0 d0] rest IH]; cbn; [discriminate|].
  destruct (str_eqb n0 name); [|exact IH]. intros H. inversion H; subst.
  unfold sheet_to_dict_rows, ovalues. rewrite map_map. reflexivity.
Qed.

Lemma to_dict_names (st : state) : okeys (data_sheets_to_dict todict st) = okeys (reg st).
Proof. unfold data_sheets_to_dict, okeys. rewrite map_map. reflexivity. Qed.

Lemma exported_ids_once (st : state) name (d : dsheet) :
  reg_inv st -> sget (reg st) name = Some d ->
  map rid (@ovalues I R (ds_rows d)) = okeys (ds_rows d) /\ NoDup (map rid (@ovalues I R (ds_rows d))).
Proof.
  intros [_ Hr] Hg. destruct (Hr _ _ Hg) as [H1 H2].
  assert (He : map rid (@ovalues I R (ds_rows d)) = okeys (ds_rows d)).
  { clear H1. unfold ovalues, okeys. induction H2 as [|kv l Hk Hl IH]; cbn [map]; [reflexivity|].
    rewrite IH. unfold keyed in Hk. rewrite Hk. reflexivity. }
  split; [exact He|rewrite He; exact H1].
Qed.
End RegFacts.

(* ------------------------------------------------------------------ the order used on the wire *)
Lemma lex_leb_total a b : lex_leb a b = true \/ lex_leb b a = true.
Proof.
  revert b. induction a as [|x a IH]; intros b; [left; reflexivity|].
  destruct b as [|y b]; [right; reflexivity|]. cbn.
  destruct (Z.ltb x y) eqn:E1; [left; reflexivity|]. destruct (Z.ltb y x) eqn:E2; [right; reflexivity|].
  apply IH.
Qed.

Lemma lex_leb_trans a b c : lex_leb a b = true -> lex_leb b c = true -> lex_leb a c = true.
Proof.
  revert b c. induction a as [|x a IH]; intros b c; [reflexivity|].
  destruct b as [|y b]; [discriminate|]. destruct c as [|z c]; [cbn; destruct (Z.ltb x y), (Z.ltb y x); discriminate || (intros _ H; cbn in H; exact H)|].
  cbn. destruct (Z.ltb x y) eqn:Exy.
  - intros _. destruct (Z.ltb y z) eqn:Eyz.
    + intros _. apply Z.ltb_lt in Exy, Eyz. assert (H : Z.ltb x z = true) by (apply Z.ltb_lt; lia). rewrite H. reflexivity.
    + destruct (Z.ltb z y) eqn:Ezy; [discriminate|]. intros _.
      apply Z.ltb_lt in Exy. apply Z.ltb_ge in Eyz, Ezy. assert (H : Z.ltb x z = true) by (apply Z.ltb_lt; lia). rewrite H. reflexivity.
  - destruct (Z.ltb y x) eqn:Eyx; [discriminate|]. intros Hab.
    apply Z.ltb_ge in Exy, Eyx. assert (x = y) by lia. subst y.
    destruct (Z.ltb x z); [reflexivity|]. destruct (Z.ltb z x); [discriminate|]. apply IH, Hab.
Qed.

(* ------------------------------------------------------------------ concrete instance: examples *)
Module Ex.
Local Open Scope N_scope.
(* a row is a number: its id is the tens digit, its sort key and filter field the units digit *)
Definition rid (r : N) : N := r / 10.
Definition sa : str := [97]. Definition sb : str := [98]. Definition sc : str := [99].
Definition sd : str := [100]. Definition se : str := [101]. Definition mM : str := [77].
Definition raw (name : str) (explicit : bool) : option (list N) :=
  if str_eqb name sa then Some [11; 21; 12] else if str_eqb name sb then Some [31; 22; 41] else None.
Definition defd (m : str) : bool := str_eqb m mM.
Definition key (r : N) : option (list Z) := Some [Z.of_N (r mod 10)].
Definition pred (r : N) : option bool := Some (r mod 10 =? 1).
Definition nokey (r : N) : option (list Z) := None.
Definition r_concat := mk_irow [sa; sb] sc mM dop_word_concat pred key [].
Definition r_filter := mk_irow [sc] sd [] dop_word_filter pred key [].
Definition r_sort_desc := mk_irow [sc] se [] dop_word_sort pred key dop_word_desc.
Definition step := step N.eqb lex_leb rid raw defd.
Definition run := run N.eqb lex_leb rid raw defd.
Definition st1 : @state N N := mk_state [(sc, mk_dsheet [(1, 12); (2, 22); (3, 31); (4, 41)] (MExplicit mM))] 0.
End Ex.

Lemma N_eqb_spec : forall a b : N, N.eqb a b = true <-> a = b.
Proof. intros a b. apply N.eqb_eq. Qed.

Example ex_concat : Ex.run [Ex.r_concat] init_state = Ok Ex.st1.
Proof. vm_compute. reflexivity. Qed.

Example ex_filter :
  Ex.step Ex.st1 Ex.r_filter
  = Ok (mk_state [(Ex.sc, mk_dsheet [(1, 12); (2, 22); (3, 31); (4, 41)] (MExplicit Ex.mM));
                  (Ex.sd, mk_dsheet [(3, 31); (4, 41)] (MExplicit Ex.mM))] 0)%N.
Proof. vm_compute. reflexivity. Qed.

(* descending with ties: ids 1 and 2 (key 2) and ids 3 and 4 (key 1) keep their source order *)
Example ex_sort_desc :
  Ex.step Ex.st1 Ex.r_sort_desc
  = Ok (mk_state [(Ex.sc, mk_dsheet [(1, 12); (2, 22); (3, 31); (4, 41)] (MExplicit Ex.mM));
                  (Ex.se, mk_dsheet [(1, 12); (2, 22); (3, 31); (4, 41)] (MExplicit Ex.mM))] 0)%N.
Proof. vm_compute. reflexivity. Qed.

(* reverse=True is not reversed(sorted()) *)
Lemma sort_desc_is_not_reversed_sort :
  exists d : list (N * N),
    NoDup (okeys d) /\
    sort_rows N.eqb lex_leb Ex.key true d <> rmap (@rev _) (sort_rows N.eqb lex_leb Ex.key false d).
Proof.
  exists [(1, 12); (2, 22)]%N. split.
  - cbn. constructor; [intros [H|[]]; discriminate|constructor; [intros []|constructor]].
  - vm_compute. discriminate.
Qed.
