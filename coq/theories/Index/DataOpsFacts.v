(* Facts about Index/DataOps.v (C11). *)
From Coq Require Import List NArith ZArith Bool Lia Permutation Sorted.
From RPFT Require Import Base.Sexp Base.PyStr Base.ODict Base.Result Gen.Tables Index.DataOps.
Import ListNotations.

Lemma dop_tables_ok_true :
  (negb (str_eqb dop_word_concat dop_word_filter) && negb (str_eqb dop_word_concat dop_word_sort)
   && negb (str_eqb dop_word_filter dop_word_sort)
   && negb (is_empty dop_word_concat) && negb (is_empty dop_word_filter) && negb (is_empty dop_word_sort)
   && forallb (fun nd => is_empty (snd nd)) dop_operation_fields) = true.
Proof. vm_compute. reflexivity. Qed.
