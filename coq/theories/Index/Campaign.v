(* C19 — model of a campaign sheet: rpft/parsers/creation/campaigneventrowmodel.py (row
   model + validators), campaignparser.py (CampaignParser.parse), rapidpro/models/
   campaigns.py (CampaignEvent constructor and render), rapidpro/models/common.py
   (generate_field_key, ContactFieldReference).  Definitions only.

   Everything the code is parameterised by comes from the regenerated Gen/Tables.v:
   the enum lists of the validators, the field list (required / default) of the row model,
   the delivery hour of a row without one, the language key of the message dict, the
   default base language, which event types need a message / render a flow / render a
   base language, the length bound and letter set of derived contact-field keys. *)
From Coq Require Import List NArith ZArith Bool.
From RPFT Require Import Base.Sexp Base.PyStr Base.Result Base.Json Gen.Tables Index.Names.
Import ListNotations.
Local Open Scope N_scope.

(* ---- errors: one class per rejection site (message texts are never compared) -------- *)
Inductive err :=
| EMissingField     (* pydantic: a required column is absent *)
| EUnknownField     (* RowParser.find_entry: the column is not a field of the row model *)
| EBadEnum          (* a validator of the row model raised *)
| EBadInt           (* int(offset) / int(delivery_hour) raised *)
| EBadKey           (* generate_field_key raised *)
| ENoMessage        (* CampaignEvent: message event without message / base language *)
| ENoKeyword        (* Trigger: keyword trigger without (first) keyword *)
| ENoFlow           (* Trigger: no flow name *)
| EEmptyGroup       (* Trigger: a group without a name *)
| EUnknownFlow      (* Trigger.record_global_uuids(require_existing=True) *)
| ESheetNotFound    (* ContentIndexParser._get_sheet_or_die *)
| EUnmodelled.      (* outside the modelled input domain (a template in a cell, a nested
                       list inside a List[str] cell); never accepted by a theorem conclusion *)

Definition err_code (e : err) : N :=
  match e with
  | EMissingField => 1 | EUnknownField => 2 | EBadEnum => 3 | EBadInt => 4 | EBadKey => 5
  | ENoMessage => 6 | ENoKeyword => 7 | ENoFlow => 8 | EEmptyGroup => 9 | EUnknownFlow => 10
  | ESheetNotFound => 11 | EUnmodelled => 12
  end.

(* ---- small helpers -------------------------------------------------------------------- *)
Definition is_nil {T} (l : list T) : bool := match l with [] => true | _ => false end.
Definition mem_str (s : str) (l : list str) : bool := existsb (str_eqb s) l.

(* a validator's enum list; None = the validator rejects nothing (regenerated that way
   when the code has no such validator any more) *)
Definition enum_ok (tbl : option (list str)) (v : str) : bool :=
  match tbl with Some l => mem_str v l | None => true end.

Fixpoint assoc {V} (k : str) (l : list (str * V)) : option V :=
  match l with
  | [] => None
  | (k', v) :: r => if str_eqb k' k then Some v else assoc k r
  end.

(* ---- cells ----------------------------------------------------------------------------- *)
(* CellParser.parse_as_string with the empty context of these sheets: the stripped text,
   unless it contains '{' (then Jinja renders it: not modelled) *)
Definition lbrace : char := 123.
Definition cell_text (c : str) : result err str :=
  let s := strip c in
  if mem_char lbrace s then Err EUnmodelled else Ok s.

(* a str field of a row model: the cell when the column is present, else the default of
   the field, else (required) a validation error *)
Definition get_str (fields : list (str * (N * (bool * str)))) (name : str) (cell : option str)
  : result err str :=
  match assoc name fields with
  | None => match cell with Some _ => Err EUnknownField | None => Ok [] end
  | Some (_, (required, dflt)) =>
    match cell with
    | Some c => cell_text c
    | None => if required then Err EMissingField else Ok dflt
    end
  end.

(* ---- the row model ---------------------------------------------------------------------- *)
(* raw row: the cell text of each column, None = the sheet has no such column *)
Record camp_raw := {
  cr_uuid : option str; cr_offset : option str; cr_unit : option str;
  cr_event_type : option str; cr_delivery_hour : option str; cr_message : option str;
  cr_relative_to : option str; cr_start_mode : option str; cr_flow : option str;
  cr_base_language : option str }.

(* validated row = an instance of CampaignEventRowModel *)
Record camp_row := {
  c_uuid : str; c_offset : str; c_unit : str; c_event_type : str; c_delivery_hour : str;
  c_message : str; c_relative_to : str; c_start_mode : str; c_flow : str;
  c_base_language : str }.

Definition f_uuid := k_uuid.
Definition f_offset := k_offset.
Definition f_unit := k_unit.
Definition f_event_type := k_event_type.
Definition f_delivery_hour := k_delivery_hour.
Definition f_message := k_message.
Definition f_relative_to := k_relative_to.
Definition f_start_mode := k_start_mode.
Definition f_flow := k_flow.
Definition f_base_language := k_base_language.

Definition validate_camp_row (r : camp_raw) : result err camp_row :=
  do uuid <- get_str camp_fields f_uuid (cr_uuid r);
  do offset <- get_str camp_fields f_offset (cr_offset r);
  do unit <- get_str camp_fields f_unit (cr_unit r);
  do event_type <- get_str camp_fields f_event_type (cr_event_type r);
  do delivery_hour <- get_str camp_fields f_delivery_hour (cr_delivery_hour r);
  do message <- get_str camp_fields f_message (cr_message r);
  do relative_to <- get_str camp_fields f_relative_to (cr_relative_to r);
  do start_mode <- get_str camp_fields f_start_mode (cr_start_mode r);
  do flow <- get_str camp_fields f_flow (cr_flow r);
  do base_language <- get_str camp_fields f_base_language (cr_base_language r);
  if negb (enum_ok unit_enum unit) then Err EBadEnum
  else if negb (enum_ok start_mode_enum start_mode) then Err EBadEnum
  else if negb (enum_ok event_type_enum event_type) then Err EBadEnum
  else Ok {| c_uuid := uuid; c_offset := offset; c_unit := unit; c_event_type := event_type;
             c_delivery_hour := delivery_hour; c_message := message;
             c_relative_to := relative_to; c_start_mode := start_mode; c_flow := flow;
             c_base_language := base_language |}.

(* ---- int(text) --------------------------------------------------------------------------- *)
(* Python int(str): surrounding whitespace, optional sign, ASCII digits with single
   underscores between digits.  (Non-ASCII decimal digits, which Python also accepts, are
   outside the generators' alphabet: DESIGN section 3.) *)
Definition digit_val (c : char) : option Z :=
  if (48 <=? c) && (c <=? 57) then Some (Z.of_N (c - 48)) else None.

Fixpoint parse_digits (acc : Z) (prev_digit : bool) (s : str) : option Z :=
  match s with
  | [] => if prev_digit then Some acc else None
  | c :: r =>
    if c =? 95 then (if prev_digit then parse_digits acc false r else None)
    else match digit_val c with
         | Some d => parse_digits (acc * 10 + d)%Z true r
         | None => None
         end
  end.

Definition parse_int (s : str) : option Z :=
  match strip s with
  | [] => None
  | c :: r =>
    if c =? 45 then option_map Z.opp (parse_digits 0%Z false r)
    else if c =? 43 then parse_digits 0%Z false r
    else parse_digits 0%Z false (c :: r)
  end.

Definition int_or_err (s : str) : result err Z :=
  match parse_int s with Some z => Ok z | None => Err EBadInt end.

(* ---- generate_field_key ------------------------------------------------------------------ *)
Definition is_key_letter (c : char) : bool := existsb (N.eqb c) field_key_letters.

(* field_name.strip().lower().replace(" ", "_") *)
Definition field_key_of (name : str) : str := replace1 32 [95] (lower (strip name)).

Definition generate_field_key (name : str) : result err str :=
  let k := field_key_of name in
  if negb (Nat.leb (List.length k) field_key_max_len) then Err EBadKey
  else if negb (existsb is_key_letter k) then Err EBadKey
  else Ok k.

(* ---- CampaignParser.parse, one row --------------------------------------------------------- *)
Record event := {
  ev_offset : Z;
  ev_unit : str;
  ev_type : str;
  ev_hour : Z;
  ev_message : option (str * str);      (* (language key, text) or None *)
  ev_label : str;                        (* relative_to: label ... *)
  ev_key : str;                          (* ... and derived key *)
  ev_start_mode : str;
  ev_flow : option str;                  (* name of the FlowReference every event carries *)
  ev_base_language : option str }.

Definition event_of_row (r : camp_row) : result err event :=
  let message := if is_nil (c_message r) then None else Some (message_lang_key, c_message r) in
  let lang := if is_nil (c_message r) then None
              else Some (if is_nil (c_base_language r) then default_base_language
                         else c_base_language r) in
  do hour <- (if is_nil (c_delivery_hour r) then Ok default_delivery_hour
              else int_or_err (c_delivery_hour r));
  do offset <- int_or_err (c_offset r);
  do key <- generate_field_key (c_relative_to r);
  if mem_str (c_event_type r) event_types_needing_message
     && (match message, lang with Some _, Some _ => false | _, _ => true end)
  then Err ENoMessage
  else Ok {| ev_offset := offset; ev_unit := c_unit r; ev_type := c_event_type r;
             ev_hour := hour; ev_message := message; ev_label := c_relative_to r;
             ev_key := key; ev_start_mode := c_start_mode r;
             ev_flow := if is_nil (c_flow r) then None else Some (c_flow r);
             ev_base_language := lang |}.

(* CampaignParser.parse: one event per row, in order; stops at the first failing row *)
Definition parse_campaign (rows : list camp_row) : result err (list event) :=
  mapM event_of_row rows.

(* SheetParser.parse_all over CampaignEventRowModel, then CampaignParser.parse *)
Definition parse_campaign_sheet (raws : list camp_raw) : result err (list event) :=
  do rows <- mapM validate_camp_row raws;
  parse_campaign rows.

(* ---- CampaignEvent.render (without the uuids) ---------------------------------------------- *)
Definition jopt_str (o : option str) : json := match o with Some s => JStr s | None => JNull end.

Definition render_event (e : event) : json :=
  JObj ([ (k_offset, JInt (ev_offset e));
          (k_unit, JStr (ev_unit e));
          (k_event_type, JStr (ev_type e));
          (k_delivery_hour, JInt (ev_hour e));
          (k_message, match ev_message e with
                          | Some (k, t) => JObj [(k, JStr t)]
                          | None => JNull
                          end);
          (k_relative_to, JObj [(k_label, JStr (ev_label e)); (k_key, JStr (ev_key e))]);
          (k_start_mode, JStr (ev_start_mode e)) ]
        ++ (if mem_str (ev_type e) event_types_rendering_flow
            then [(k_flow, JObj [(k_name, jopt_str (ev_flow e))])] else [])
        ++ (if mem_str (ev_type e) event_types_rendering_language
            then match ev_base_language e with
                 | Some l => if is_nil l then [] else [(k_base_language, JStr l)]
                 | None => []
                 end
            else [])).
