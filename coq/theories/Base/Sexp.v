(* S-expressions whose only atoms are natural numbers: the wire format between the
   Python harness and the extracted model (DESIGN 2.4).  Definitions only. *)
From Coq Require Import List NArith Bool.
Import ListNotations.

Inductive sexp := A (n : N) | L (l : list sexp).

Definition char := N.
Definition str := list char.

Definition enc_str (s : str) : sexp := L (map A s).

Fixpoint dec_str_list (l : list sexp) : option str :=
  match l with
  | [] => Some []
  | A n :: r => match dec_str_list r with Some t => Some (n :: t) | None => None end
  | L _ :: _ => None
  end.

Definition dec_str (x : sexp) : option str :=
  match x with L l => dec_str_list l | A _ => None end.

Definition enc_bool (b : bool) : sexp := A (if b then 1 else 0)%N.
Definition dec_bool (x : sexp) : option bool :=
  match x with A 0%N => Some false | A 1%N => Some true | _ => None end.

Definition enc_nat (n : nat) : sexp := A (N.of_nat n).
Definition dec_nat (x : sexp) : option nat :=
  match x with A n => Some (N.to_nat n) | _ => None end.

Definition enc_list {T} (f : T -> sexp) (l : list T) : sexp := L (map f l).

Fixpoint dec_list_aux {T} (f : sexp -> option T) (l : list sexp) : option (list T) :=
  match l with
  | [] => Some []
  | x :: r => match f x, dec_list_aux f r with
              | Some a, Some t => Some (a :: t)
              | _, _ => None
              end
  end.
Definition dec_list {T} (f : sexp -> option T) (x : sexp) : option (list T) :=
  match x with L l => dec_list_aux f l | A _ => None end.

Definition enc_option {T} (f : T -> sexp) (o : option T) : sexp :=
  match o with None => L [] | Some x => L [f x] end.
Definition dec_option {T} (f : sexp -> option T) (x : sexp) : option (option T) :=
  match x with
  | L [] => Some None
  | L [y] => match f y with Some v => Some (Some v) | None => None end
  | _ => None
  end.

Definition enc_pair {S T} (f : S -> sexp) (g : T -> sexp) (p : S * T) : sexp :=
  L [f (fst p); g (snd p)].
Definition dec_pair {S T} (f : sexp -> option S) (g : sexp -> option T) (x : sexp)
  : option (S * T) :=
  match x with
  | L [a; b] => match f a, g b with Some u, Some v => Some (u, v) | _, _ => None end
  | _ => None
  end.

(* error marker of the wire format: (999999) *)
Definition s_err (code : N) : sexp := L [A 999999%N; A code].
Definition s_badinput : sexp := L [A 999998%N].
