(* JSON trees.  Objects are ordered lists of members (Python dicts are insertion ordered;
   the harness canonicalises where order is not part of a property).  Numbers: integers
   only (floats travel as their repr string under JRaw).  Definitions only. *)
From Coq Require Import List NArith ZArith Bool.
From RPFT Require Import Base.Sexp Base.PyStr.
Import ListNotations.

Inductive json :=
| JNull
| JBool (b : bool)
| JInt (z : Z)
| JRaw (repr : str)          (* a number that is not an integer, kept as text *)
| JStr (s : str)
| JArr (l : list json)
| JObj (members : list (str * json)).

Fixpoint jget (members : list (str * json)) (k : str) : option json :=
  match members with
  | [] => None
  | (k', v) :: r => if str_eqb k' k then Some v else jget r k
  end.

Definition jfield (j : json) (k : str) : option json :=
  match j with JObj m => jget m k | _ => None end.

(* wire: (0) null, (1 b) bool, (2 sign abs) int, (3 str) raw, (4 str) string, (5 (..)) array,
   (6 ((k v) ..)) object *)
Fixpoint enc_json (j : json) : sexp :=
  match j with
  | JNull => L [A 0%N]
  | JBool b => L [A 1%N; enc_bool b]
  | JInt z => L [A 2%N; A (if Z.ltb z 0 then 1 else 0)%N; A (Z.to_N (Z.abs z))]
  | JRaw s => L [A 3%N; enc_str s]
  | JStr s => L [A 4%N; enc_str s]
  | JArr l => L [A 5%N; L (map enc_json l)]
  | JObj m => L [A 6%N; L (map (fun kv => L [enc_str (fst kv); enc_json (snd kv)]) m)]
  end.

Fixpoint dec_json (fuel : nat) (x : sexp) : option json :=
  match fuel with
  | O => None
  | S f =>
    match x with
    | L [A 0%N] => Some JNull
    | L [A 1%N; b] => match dec_bool b with Some v => Some (JBool v) | None => None end
    | L [A 2%N; A sg; A n] => Some (JInt (if N.eqb sg 1 then Z.opp (Z.of_N n) else Z.of_N n))
    | L [A 3%N; s] => match dec_str s with Some v => Some (JRaw v) | None => None end
    | L [A 4%N; s] => match dec_str s with Some v => Some (JStr v) | None => None end
    | L [A 5%N; L l] => match dec_list_aux (dec_json f) l with Some vs => Some (JArr vs) | None => None end
    | L [A 6%N; L l] =>
      match dec_list_aux (fun kv => match kv with
                                    | L [k; v] => match dec_str k, dec_json f v with
                                                  | Some k', Some v' => Some (k', v')
                                                  | _, _ => None
                                                  end
                                    | _ => None
                                    end) l with
      | Some ms => Some (JObj ms)
      | None => None
      end
    | _ => None
    end
  end.
