(* Insertion-ordered dictionaries (CPython >= 3.7 dict / OrderedDict) as association lists
   without duplicate keys.  set on an existing key keeps its position; pop removes. *)
From Coq Require Import List Bool.
Import ListNotations.

Section ODict.
Context {K V : Type}.
Variable keqb : K -> K -> bool.
Hypothesis keqb_spec : forall a b, keqb a b = true <-> a = b.

Definition odict := list (K * V).

Fixpoint oget (d : odict) (k : K) : option V :=
  match d with
  | [] => None
  | (k', v) :: r => if keqb k' k then Some v else oget r k
  end.

Definition ocontains (d : odict) (k : K) : bool :=
  match oget d k with Some _ => true | None => false end.

Fixpoint oset (d : odict) (k : K) (v : V) : odict :=
  match d with
  | [] => [(k, v)]
  | (k', v') :: r => if keqb k' k then (k', v) :: r else (k', v') :: oset r k v
  end.

Fixpoint opop (d : odict) (k : K) : odict :=
  match d with
  | [] => []
  | (k', v') :: r => if keqb k' k then r else (k', v') :: opop r k
  end.

Definition okeys (d : odict) : list K := map fst d.
Definition ovalues (d : odict) : list V := map snd d.

(* dict.update(other): other's items in order *)
Definition oupdate (d other : odict) : odict :=
  fold_left (fun acc kv => oset acc (fst kv) (snd kv)) other d.

Lemma keqb_refl k : keqb k k = true.
Proof. apply keqb_spec. reflexivity. Qed.

Lemma keqb_neq a b : a <> b -> keqb a b = false.
Proof. intros H. destruct (keqb a b) eqn:E; [apply keqb_spec in E; contradiction|reflexivity]. Qed.

Lemma oget_oset_same d k v : oget (oset d k v) k = Some v.
Proof.
  induction d as [|[k' v'] r IH]; cbn.
  - rewrite keqb_refl. reflexivity.
  - destruct (keqb k' k) eqn:E; cbn; rewrite E; [reflexivity|exact IH].
Qed.

Lemma oget_oset_other d k v k2 : k2 <> k -> oget (oset d k v) k2 = oget d k2.
Proof.
  intros Hne. induction d as [|[k' v'] r IH]; cbn.
  - destruct (keqb k k2) eqn:E; [apply keqb_spec in E; congruence|reflexivity].
  - destruct (keqb k' k) eqn:E; cbn.
    + apply keqb_spec in E. subst k'. rewrite (keqb_neq k k2) by congruence. reflexivity.
    + destruct (keqb k' k2); [reflexivity|exact IH].
Qed.

Lemma okeys_oset_in d k v : oget d k <> None -> okeys (oset d k v) = okeys d.
Proof.
  induction d as [|[k' v'] r IH]; cbn; [congruence|].
  destruct (keqb k' k) eqn:E; cbn; [reflexivity|]. intros H. f_equal. apply IH, H.
Qed.

Lemma okeys_oset_new d k v : oget d k = None -> okeys (oset d k v) = okeys d ++ [k].
Proof.
  induction d as [|[k' v'] r IH]; cbn; [reflexivity|].
  destruct (keqb k' k) eqn:E; [discriminate|]. intros H. cbn. f_equal. apply IH, H.
Qed.

Lemma oget_none_notin d k : oget d k = None <-> ~ In k (okeys d).
Proof.
  induction d as [|[k' v'] r IH]; cbn; [tauto|].
  destruct (keqb k' k) eqn:E.
  - apply keqb_spec in E. subst. split; [discriminate|]. intros H. exfalso. apply H. left. reflexivity.
  - rewrite IH. split.
    + intros H [H1|H1]; [subst; rewrite keqb_refl in E; discriminate|contradiction].
    + intros H H1. apply H. right. exact H1.
Qed.

Lemma oset_nodup d k v : NoDup (okeys d) -> NoDup (okeys (oset d k v)).
Proof.
  intros H. destruct (oget d k) eqn:E.
  - rewrite okeys_oset_in by congruence. exact H.
  - rewrite okeys_oset_new by exact E. apply oget_none_notin in E.
    clear -H E. induction (okeys d) as [|x l IH]; cbn.
    + constructor; [intros []|constructor].
    + inversion H; subst. constructor.
      * rewrite in_app_iff. intros [Hx|[Hx|[]]]; [contradiction|]. subst. apply E. left. reflexivity.
      * apply IH; [assumption|]. intros Hin. apply E. right. exact Hin.
Qed.

Lemma opop_notin d k : NoDup (okeys d) -> ~ In k (okeys (opop d k)).
Proof.
  induction d as [|[k' v'] r IH]; cbn; [tauto|]. intros H. inversion H; subst.
  destruct (keqb k' k) eqn:E.
  - apply keqb_spec in E. subst. assumption.
  - cbn. intros [H1|H1]; [subst; rewrite keqb_refl in E; discriminate|]. apply IH; assumption.
Qed.

Lemma oget_opop_other d k k2 : k2 <> k -> oget (opop d k) k2 = oget d k2.
Proof.
  intros Hne. induction d as [|[k' v'] r IH]; cbn; [reflexivity|].
  destruct (keqb k' k) eqn:E; cbn.
  - apply keqb_spec in E. subst. rewrite (keqb_neq k k2) by congruence. reflexivity.
  - destruct (keqb k' k2); [reflexivity|exact IH].
Qed.

End ODict.
