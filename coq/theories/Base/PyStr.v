(* Python str operations used by the toolkit, over strings = lists of code points.
   Definitions only (facts are in PyStrFacts.v). *)
From Coq Require Import List NArith Bool.
From RPFT Require Import Base.Sexp.
Import ListNotations.
Local Open Scope N_scope.

(* The code points str.strip() removes (CPython's Py_UNICODE_ISSPACE): 29 code points.
   The correspondence harness re-enumerates this set against the running interpreter. *)
Definition is_ws (c : char) : bool :=
  ((9 <=? c) && (c <=? 13)) || ((28 <=? c) && (c <=? 32)) || (c =? 133) || (c =? 160)
  || (c =? 5760) || ((8192 <=? c) && (c <=? 8202)) || (c =? 8232) || (c =? 8233)
  || (c =? 8239) || (c =? 8287) || (c =? 12288).

Fixpoint lstrip (s : str) : str :=
  match s with
  | [] => []
  | c :: r => if is_ws c then lstrip r else s
  end.

(* rstrip as a right fold: drop the element iff it is whitespace and everything after
   it has been dropped *)
Fixpoint rstrip (s : str) : str :=
  match s with
  | [] => []
  | c :: r => match rstrip r with
              | [] => if is_ws c then [] else [c]
              | t => c :: t
              end
  end.

Definition strip (s : str) : str := rstrip (lstrip s).

(* str.replace(c, new) for a one-character pattern *)
Fixpoint replace1 (c : char) (new : str) (s : str) : str :=
  match s with
  | [] => []
  | x :: r => if x =? c then new ++ replace1 c new r else x :: replace1 c new r
  end.

(* str.replace(a+b, new) for a two-character pattern: CPython scans left to right and
   matches never overlap *)
Fixpoint replace2 (a b : char) (new : str) (s : str) : str :=
  match s with
  | [] => []
  | c :: r =>
    match r with
    | [] => [c]
    | d :: r' => if (c =? a) && (d =? b) then new ++ replace2 a b new r'
                 else c :: replace2 a b new r
    end
  end.

Fixpoint str_eqb (s t : str) : bool :=
  match s, t with
  | [], [] => true
  | a :: s', b :: t' => (a =? b) && str_eqb s' t'
  | _, _ => false
  end.

Fixpoint starts_with (p s : str) : bool :=
  match p, s with
  | [], _ => true
  | a :: p', b :: s' => (a =? b) && starts_with p' s'
  | _ :: _, [] => false
  end.

Definition ends_with (p s : str) : bool := starts_with (rev p) (rev s).

Fixpoint mem_char (c : char) (s : str) : bool :=
  match s with [] => false | x :: r => (x =? c) || mem_char c r end.

(* sep.join(parts) for a one-character separator *)
Fixpoint join_char (sep : char) (parts : list str) : str :=
  match parts with
  | [] => []
  | [p] => p
  | p :: r => p ++ sep :: join_char sep r
  end.

(* str.split(sep) for a one-character separator (no escape handling) *)
Fixpoint split_char (sep : char) (s : str) : list str :=
  match s with
  | [] => [[]]
  | c :: r =>
    if c =? sep then [] :: split_char sep r
    else match split_char sep r with
         | [] => [[c]]
         | h :: t => (c :: h) :: t
         end
  end.

(* ASCII lower() — generators keep case-sensitive spots within ASCII *)
Definition lower_char (c : char) : char := if (65 <=? c) && (c <=? 90) then c + 32 else c.
Definition lower (s : str) : str := map lower_char s.
