From Coq Require Import List NArith Bool Lia.
From RPFT Require Import Base.Sexp Base.PyStr.
Import ListNotations.
Local Open Scope N_scope.

Lemma str_eqb_eq s t : str_eqb s t = true <-> s = t.
Proof.
  revert t. induction s as [|a s IH]; intros [|b t]; cbn; split; try discriminate; try reflexivity.
  - intros H. apply andb_true_iff in H as [H1 H2]. apply N.eqb_eq in H1. apply IH in H2. subst. reflexivity.
  - intros H. injection H as <- <-. rewrite N.eqb_refl. apply IH. reflexivity.
Qed.

Lemma str_eqb_refl s : str_eqb s s = true.
Proof. apply str_eqb_eq. reflexivity. Qed.

Lemma str_eqb_neq s t : s <> t -> str_eqb s t = false.
Proof. intros H. destruct (str_eqb s t) eqn:E; [apply str_eqb_eq in E; contradiction|reflexivity]. Qed.
