(* Errors: every LOGGER.critical site / uncaught exception is [Err cls]; the model stops at
   the first one, as the CLI does.  [OutOfFuel] is never accepted by a theorem conclusion. *)
From Coq Require Import List NArith.
Import ListNotations.

Inductive result (E T : Type) := Ok (v : T) | Err (e : E).
Arguments Ok {E T} v.
Arguments Err {E T} e.

Definition bind {E S T} (r : result E S) (f : S -> result E T) : result E T :=
  match r with Ok v => f v | Err e => Err e end.

Definition rmap {E S T} (f : S -> T) (r : result E S) : result E T :=
  match r with Ok v => Ok (f v) | Err e => Err e end.

Fixpoint mapM {E S T} (f : S -> result E T) (l : list S) : result E (list T) :=
  match l with
  | [] => Ok []
  | x :: r => match f x with
              | Err e => Err e
              | Ok y => match mapM f r with Err e => Err e | Ok ys => Ok (y :: ys) end
              end
  end.

Fixpoint foldM {E S A} (f : A -> S -> result E A) (l : list S) (a : A) : result E A :=
  match l with
  | [] => Ok a
  | x :: r => match f a x with Err e => Err e | Ok a' => foldM f r a' end
  end.

Definition is_ok {E T} (r : result E T) : bool := match r with Ok _ => true | Err _ => false end.

Notation "'do' x <- a ; b" := (bind a (fun x => b)) (at level 200, x pattern, a at level 100, b at level 200).
