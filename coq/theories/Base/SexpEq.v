(* decidable equality and wildcard matching on S-expressions *)
From Coq Require Import List NArith Bool.
From RPFT Require Import Base.Sexp.
Import ListNotations.
Local Open Scope N_scope.

Fixpoint sexp_eqb (a b : sexp) : bool :=
  match a, b with
  | A n, A m => n =? m
  | L l, L l' =>
    (fix go (l l' : list sexp) : bool :=
       match l, l' with
       | [], [] => true
       | x :: r, y :: r' => sexp_eqb x y && go r r'
       | _, _ => false
       end) l l'
  | _, _ => false
  end.

(* induction principle that reaches inside lists *)
Lemma sexp_ind' (P : sexp -> Prop) :
  (forall n, P (A n)) -> (forall l, Forall P l -> P (L l)) -> forall s, P s.
Proof.
  intros HA HL. fix IH 1. intros [n|l]; [apply HA|]. apply HL.
  induction l as [|x r IHl]; constructor; [apply IH|exact IHl].
Qed.

Lemma sexp_eqb_eq a b : sexp_eqb a b = true -> a = b.
Proof.
  revert b. induction a as [n|l IH] using sexp_ind'; intros [m|l']; cbn; try discriminate.
  - intros H. apply N.eqb_eq in H. subst. reflexivity.
  - intros H. f_equal. revert l' H. induction IH as [|x r Hx _ IHr]; intros [|y r']; try discriminate; [reflexivity|].
    intros H. apply andb_true_iff in H as [H1 H2]. rewrite (Hx _ H1), (IHr _ H2). reflexivity.
Qed.

Lemma sexp_eqb_refl a : sexp_eqb a a = true.
Proof.
  induction a as [n|l IH] using sexp_ind'; cbn; [apply N.eqb_refl|].
  induction IH as [|x r Hx _ IHr]; [reflexivity|]. rewrite Hx, IHr. reflexivity.
Qed.

(* wildcard: an atom WILD on the left matches anything *)
Definition WILD : N := 9999999.   (* above U+10FFFF: never a character of a real string *)
Fixpoint smatch (a b : sexp) : bool :=
  match a, b with
  | A n, _ => if n =? WILD then true else match b with A m => n =? m | L _ => false end
  | L l, L l' =>
    (fix go (l l' : list sexp) : bool :=
       match l, l' with
       | [], [] => true
       | x :: r, y :: r' => smatch x y && go r r'
       | _, _ => false
       end) l l'
  | L _, A _ => false
  end.

