(* C01 — facts about the node-uuid validation of FlowParser._compile_flow. *)
From Coq Require Import List NArith Bool.
From RPFT Require Import Base.Sexp Base.PyStr Gen.Tables Flow.Flow Flow.Closed Flow.NodeIdCheck.
Import ListNotations.

Lemma first_repeated_none seen us :
  first_repeated seen us = None <-> NoDup us /\ (forall u, In u us -> ~ In u seen).
Proof.
  revert seen. induction us as [|x r IH]; intros seen; cbn [first_repeated].
  - split; [intros _; split; [constructor|intros u []]|reflexivity].
  - destruct (memb x seen) eqn:E.
    + split; [discriminate|]. intros [_ H]. exfalso. apply (H x); [left; reflexivity|].
      apply memb_In. exact E.
    + rewrite IH. split.
      * intros [Hnd Hs]. split.
        -- constructor; [|exact Hnd]. intros Hin. apply (Hs x Hin). left. reflexivity.
        -- intros u [<-|Hin].
           ++ intros Hin. apply memb_In in Hin. congruence.
           ++ intros Hu. apply (Hs u Hin). right. exact Hu.
      * intros [Hnd Hs]. inversion Hnd as [|? ? Hx Hr]; subst. split; [exact Hr|].
        intros u Hin [<-|Hu]; [contradiction|]. apply (Hs u); [right; exact Hin|exact Hu].
Qed.

(* the id the error names is the FIRST one met a second time *)
Lemma first_repeated_some seen us u :
  first_repeated seen us = Some u ->
  exists l1 l2, us = l1 ++ u :: l2 /\ (In u seen \/ In u l1)
                /\ NoDup l1 /\ (forall v, In v l1 -> ~ In v seen).
Proof.
  revert seen. induction us as [|x r IH]; intros seen; cbn [first_repeated]; [discriminate|].
  destruct (memb x seen) eqn:E.
  - intros H. injection H as <-. exists [], r. split; [reflexivity|]. split; [left; apply memb_In, E|].
    split; [constructor|intros v []].
  - intros H. destruct (IH _ H) as (l1 & l2 & -> & Hin & Hnd & Hs).
    exists (x :: l1), l2. split; [reflexivity|]. split; [|split].
    + destruct Hin as [[<-|Hin]|Hin]; [right; left; reflexivity|left; exact Hin|right; right; exact Hin].
    + constructor; [|exact Hnd]. intros Hx. apply (Hs x Hx). left. reflexivity.
    + intros v [<-|Hv].
      * intros Hx. apply memb_In in Hx. congruence.
      * intros Hvs. apply (Hs v Hv). right. exact Hvs.
Qed.

(* the validation accepts exactly the duplicate-free lists: clause (a) of FlowClosed *)
Theorem node_id_check_spec us : first_repeated [] us = None <-> NoDup us.
Proof.
  rewrite first_repeated_none. split; [intros [H _]; exact H|].
  intros H. split; [exact H|intros u _ []].
Qed.

Theorem node_id_check_names_repeated us u :
  first_repeated [] us = Some u ->
  exists l1 l2, us = l1 ++ u :: l2 /\ In u l1 /\ NoDup l1.
Proof.
  intros H. destruct (first_repeated_some _ _ _ H) as (l1 & l2 & E & [[]|Hin] & Hnd & _).
  exists l1, l2. repeat split; assumption.
Qed.

Example node_id_check_nonvacuous :
  first_repeated [] [[97]; [98]; [99]; [98]; [97]]%N = Some [98]%N
  /\ first_repeated [] [[97]; [98]; [99]]%N = None.
Proof. vm_compute. split; reflexivity. Qed.

(* Decided on the code of this run (compile_checks_node_uuids is probed from it):
   with the validation, a flow passes _compile_flow iff its node identifiers are unique (fc_nodup, clause (a) of
   the property, holds of every compiled flow BY CONSTRUCTION, whatever `_nodeId`s the sheet gives);
   without it (the defect duplicate-given-node-id) every flow passes. *)
Theorem compile_validation_decided :
  if compile_checks_node_uuids
  then forall f, compile_flow_validation (node_uuids f) = None <-> NoDup (node_uuids f)
  else forall us, compile_flow_validation us = None.
Proof.
  unfold compile_flow_validation. destruct compile_checks_node_uuids.
  - intros f. apply node_id_check_spec.
  - reflexivity.
Qed.
