(* C01 — the validation FlowParser._compile_flow runs on the nodes of a compiled flow (definitions only):

       node_uuids = set()
       for node in flow_container.nodes:
           if node.uuid in node_uuids:
               LOGGER.critical(f'Node uuid "{node.uuid}" is used by more than one node of flow ...')
           node_uuids.add(node.uuid)

   Under the CLI a critical error ends the run, so the outcome of the loop is the FIRST uuid found a second
   time, or nothing.  Whether the code has this validation is read from the code on every run
   (Gen/Tables.v: compile_checks_node_uuids, a behavioural probe). *)
From Coq Require Import List NArith Bool.
From RPFT Require Import Base.Sexp Base.PyStr Gen.Tables Flow.Flow Flow.Closed.
Import ListNotations.

(* Some u = the critical error, naming u *)
Fixpoint first_repeated (seen us : list str) : option str :=
  match us with
  | [] => None
  | u :: r => if memb u seen then Some u else first_repeated (u :: seen) r
  end.

Definition compile_flow_validation (us : list str) : option str :=
  if compile_checks_node_uuids then first_repeated [] us else None.
