(* E6 — what acceptance by the checkers means. *)
From Coq Require Import List NArith Bool Arith Lia.
From RPFT Require Import Base.Sexp Base.PyStr Base.SexpEq Flow.Lts Flow.Flow.
Import ListNotations.

Lemma state_eqb_eq a b : state_eqb a b = true -> a = b.
Proof.
  destruct a as [a1 a2], b as [b1 b2]. unfold state_eqb. cbn. intros H.
  apply andb_true_iff in H as [H1 H2]. apply Nat.eqb_eq in H1, H2. subst. reflexivity.
Qed.

Definition traces (f : flow) (t : list (event sexp)) : Prop :=
  exec sexp (lts_of_flow f) init_state t.

(* simulation up to a matching relation on labels *)
Theorem sim_check_sound lm f g :
  sim_check lm f g = true ->
  forall t, traces f t -> exists t', traces g t' /\ Forall2 (ematch sexp lm) t t'.
Proof.
  unfold sim_check. intros H t Ht. apply andb_true_iff in H as [Hin Hc].
  apply (pair_in_In state state state_eqb state_eqb state_eqb_eq state_eqb_eq) in Hin.
  exact (check_sound sexp state state state_eqb state_eqb state_eqb_eq state_eqb_eq lm _ _ _ _ Hc t _ _ Hin Ht).
Qed.

(* The oracle for "for every sequence of contact inputs and outcomes": acceptance implies
   the two flows have exactly the same finite traces, hence the same behaviour for every
   interpretation of the (uninterpreted) tests and every resolution of every decision. *)
Theorem bisim_check_sound f g :
  bisim_check f g = true -> forall t, traces f t <-> traces g t.
Proof.
  unfold bisim_check. intros H. apply andb_true_iff in H as [H1 H2]. intros t. split; intros Ht.
  - destruct (sim_check_sound _ _ _ H1 t Ht) as (t' & Ht' & Hm).
    apply (ematch_eq sexp sexp_eqb sexp_eqb_eq) in Hm. subst. exact Ht'.
  - destruct (sim_check_sound _ _ _ H2 t Ht) as (t' & Ht' & Hm).
    apply (ematch_eq sexp sexp_eqb sexp_eqb_eq) in Hm. subst. exact Ht'.
Qed.

(* non-vacuity: two different flows (one two-action node vs a chain of two one-action
   nodes) that the checker accepts, and a pair it rejects *)
Definition ex_payload (n : N) : sexp := L [A n].
Definition ex_flow1 : flow :=
  mkFlow [1%N] [] [mkNode [10%N] [([100%N], ex_payload 1); ([101%N], ex_payload 2)] [mkExit [20%N] None] None].
Definition ex_flow2 : flow :=
  mkFlow [2%N] [] [mkNode [11%N] [([102%N], ex_payload 1)] [mkExit [21%N] (Some [12%N])] None;
                   mkNode [12%N] [([103%N], ex_payload 2)] [mkExit [22%N] None] None].
Definition ex_flow3 : flow :=
  mkFlow [3%N] [] [mkNode [13%N] [([104%N], ex_payload 2); ([105%N], ex_payload 1)] [mkExit [23%N] None] None].

Example bisim_nonvacuous : bisim_check ex_flow1 ex_flow2 = true /\ bisim_check ex_flow1 ex_flow3 = false.
Proof. vm_compute. split; reflexivity. Qed.
