(* E6 — the AST of a rendered RapidPro flow and its meaning as a labelled transition
   system.  Not a model of toolkit code: a model of what its OUTPUTS mean.  Definitions
   only.  Labels are S-expressions; action payloads arrive canonicalised by the harness
   (action uuid and group/flow uuids removed), everything else about a label is computed
   here. *)
From Coq Require Import List NArith Bool Arith.
From RPFT Require Import Base.Sexp Base.PyStr Base.SexpEq Flow.Lts.
Import ListNotations.

Definition id := str.

Record exit_ := mkExit { e_uuid : id; e_dest : option id }.
Record category := mkCat { c_uuid : id; c_name : str; c_exit : id }.
Record case_ := mkCase { k_uuid : id; k_type : str; k_args : list (option str); k_cat : id }.
Inductive wait_spec := WNone | WMsg | WTimeout (seconds : N) (cat : id).
Inductive router :=
| RSwitch (operand : str) (cases : list case_) (cats : list category) (dflt : id)
          (w : wait_spec) (result_name : option str)
| RRandom (cats : list category) (result_name : option str).
Record node := mkNode {
  n_uuid : id;
  n_actions : list (id * sexp);       (* action uuid, canonical payload *)
  n_exits : list exit_;
  n_router : option router }.
Record flow := mkFlow { f_uuid : id; f_name : str; f_nodes : list node }.

(* ---------------------------------------------------------------- lookups *)
Fixpoint find_idx {X} (p : X -> bool) (l : list X) : option nat :=
  match l with
  | [] => None
  | x :: r => if p x then Some 0 else match find_idx p r with Some i => Some (S i) | None => None end
  end.

Definition node_index (f : flow) (u : id) : option nat :=
  find_idx (fun n => str_eqb (n_uuid n) u) (f_nodes f).

Definition state := (nat * nat)%type.       (* node index, program counter *)
Definition end_state (f : flow) : state := (length (f_nodes f), 0).
Definition bad_state (f : flow) : state := (S (length (f_nodes f)), 0).

Definition dest_state (f : flow) (d : option id) : state :=
  match d with
  | None => end_state f
  | Some u => match node_index f u with Some i => (i, 0) | None => bad_state f end
  end.

Definition cat_dest (f : flow) (nd : node) (cats : list category) (cu : id) : state :=
  match find (fun c => str_eqb (c_uuid c) cu) cats with
  | None => bad_state f
  | Some c => match find (fun e => str_eqb (e_uuid e) (c_exit c)) (n_exits nd) with
              | None => bad_state f
              | Some e => dest_state f (e_dest e)
              end
  end.

(* a category whose name is the single pseudo-character WILD (reference flows only: a
   name the sheet does not fix) is rendered as the wildcard atom *)
Definition name_sexp (s : str) : sexp :=
  match s with [c] => if N.eqb c WILD then A WILD else enc_str s | _ => enc_str s end.

Definition cat_name (cats : list category) (cu : id) : sexp :=
  match find (fun c => str_eqb (c_uuid c) cu) cats with
  | None => L [A 0%N]
  | Some c => name_sexp (c_name c)
  end.

(* ---------------------------------------------------------------- labels *)
Definition has_group_s : str := [104;97;115;95;103;114;111;117;112]%N.   (* "has_group" *)

(* the arguments of a test as the contact experiences them: for has_group the group is
   identified by its NAME (argument 1); its uuid (argument 0) is an identifier, governed by C06 *)
Definition canon_args (ty : str) (args : list (option str)) : list (option str) :=
  if str_eqb ty has_group_s then tl args else args.

Definition enc_ostr (o : option str) : sexp := enc_option enc_str o.

Definition case_sig (cats : list category) (k : case_) : sexp :=
  L [enc_str (k_type k); L (map enc_ostr (canon_args (k_type k) (k_args k))); cat_name cats (k_cat k)].

Definition wait_sig (cats : list category) (w : wait_spec) : sexp :=
  match w with
  | WNone => L [A 0%N]
  | WMsg => L [A 1%N]
  | WTimeout s c => L [A 2%N; A s; cat_name cats c]
  end.

Definition router_sig (r : router) : sexp :=
  match r with
  | RSwitch operand cases cats dflt w rn =>
    L [A 1%N; enc_str operand; wait_sig cats w; enc_ostr rn;
       L (map (case_sig cats) cases); cat_name cats dflt]
  | RRandom cats rn =>
    L [A 2%N; enc_ostr rn; L (map (fun c => name_sexp (c_name c)) cats)]
  end.

Definition b_case (i : nat) : sexp := L [A 0%N; A (N.of_nat i)].
Definition b_default : sexp := L [A 1%N].
Definition b_timeout : sexp := L [A 2%N].
Definition b_bucket (i : nat) : sexp := L [A 3%N; A (N.of_nat i)].

Fixpoint number_from {X} (i : nat) (l : list X) : list (nat * X) :=
  match l with [] => [] | x :: r => (i, x) :: number_from (S i) r end.

Definition router_branches (f : flow) (nd : node) (r : router) : list (sexp * state) :=
  match r with
  | RSwitch _ cases cats dflt w _ =>
    map (fun ik => (b_case (fst ik), cat_dest f nd cats (k_cat (snd ik)))) (number_from 0 cases)
    ++ [(b_default, cat_dest f nd cats dflt)]
    ++ match w with
       | WTimeout _ c => [(b_timeout, cat_dest f nd cats c)]
       | _ => []
       end
  | RRandom cats _ =>
    map (fun ic => (b_bucket (fst ic), cat_dest f nd cats (c_uuid (snd ic)))) (number_from 0 cats)
  end.

(* ---------------------------------------------------------------- the LTS of a flow *)
Definition lts_of_flow (f : flow) (s : state) : kind sexp state :=
  match nth_error (f_nodes f) (fst s) with
  | None => if Nat.eqb (fst s) (length (f_nodes f)) then KEnd else KBad
  | Some nd =>
    match nth_error (n_actions nd) (snd s) with
    | Some (_, payload) => KAct payload (fst s, S (snd s))
    | None =>
      match n_router nd with
      | None => match n_exits nd with
                | [e] => KTau (dest_state f (e_dest e))
                | _ => KBad
                end
      | Some r => KDec (router_sig r) (router_branches f nd r)
      end
    end
  end.

Definition init_state : state := (0, 0).

(* an empty flow has no first node: its only behaviour is to end *)

Definition state_eqb (a b : state) : bool := Nat.eqb (fst a) (fst b) && Nat.eqb (snd a) (snd b).

(* ---------------------------------------------------------------- candidate relation (untrusted) *)
Section Build.
Variable lm : sexp -> sexp -> bool.
Variables (Lf Rf : state -> kind sexp state).
Variable cfuel : nat.

Definition succ_pairs (a b : state) : list (state * state) :=
  match chase sexp Lf cfuel a, chase sexp Rf cfuel b with
  | Some a', Some b' =>
    match Lf a', Rf b' with
    | KAct _ n, KAct _ n' => [(n, n')]
    | KDec _ bs, KDec _ bs' => combine (map snd bs) (map snd bs')
    | _, _ => []
    end
  | _, _ => []
  end.

Fixpoint build_rel (fuel : nat) (work rel : list (state * state)) : list (state * state) :=
  match fuel with
  | 0 => rel
  | S f =>
    match work with
    | [] => rel
    | (a, b) :: w =>
      if pair_in state state state_eqb state_eqb rel a b then build_rel f w rel
      else build_rel f (succ_pairs a b ++ w) ((a, b) :: rel)
    end
  end.
End Build.

Definition flow_size (f : flow) : nat :=
  fold_left (fun acc nd => acc + S (length (n_actions nd))) (f_nodes f) 2.

(* decide L <= R up to lm (for the converse call it with the arguments exchanged) *)
Definition sim_check (lm : sexp -> sexp -> bool) (f g : flow) : bool :=
  let Lf := lts_of_flow f in
  let Rf := lts_of_flow g in
  let cf := S (length (f_nodes f) + length (f_nodes g)) in
  let fuel := S (flow_size f * flow_size g * 4) in
  let rel := build_rel Lf Rf cf fuel [(init_state, init_state)] [] in
  pair_in state state state_eqb state_eqb rel init_state init_state
  && check sexp state state state_eqb state_eqb lm Lf Rf cf rel.

Definition bisim_check (f g : flow) : bool :=
  sim_check sexp_eqb f g && sim_check sexp_eqb g f.

(* ---------------------------------------------------------------- wire decoding *)
Definition dec_ostr (x : sexp) : option (option str) := dec_option dec_str x.

Definition dec_exit (x : sexp) : option exit_ :=
  match x with
  | L [u; d] => match dec_str u, dec_ostr d with Some u', Some d' => Some (mkExit u' d') | _, _ => None end
  | _ => None
  end.
Definition dec_cat (x : sexp) : option category :=
  match x with
  | L [u; n; e] => match dec_str u, dec_str n, dec_str e with
                   | Some u', Some n', Some e' => Some (mkCat u' n' e') | _, _, _ => None end
  | _ => None
  end.
Definition dec_case (x : sexp) : option case_ :=
  match x with
  | L [u; t; a; c] => match dec_str u, dec_str t, dec_list dec_ostr a, dec_str c with
                      | Some u', Some t', Some a', Some c' => Some (mkCase u' t' a' c') | _, _, _, _ => None end
  | _ => None
  end.
Definition dec_wait (x : sexp) : option wait_spec :=
  match x with
  | L [A 0%N] => Some WNone
  | L [A 1%N] => Some WMsg
  | L [A 2%N; A s; c] => match dec_str c with Some c' => Some (WTimeout s c') | None => None end
  | _ => None
  end.
Definition dec_router (x : sexp) : option router :=
  match x with
  | L [A 1%N; op; cases; cats; d; w; rn] =>
    match dec_str op, dec_list dec_case cases, dec_list dec_cat cats, dec_str d, dec_wait w, dec_ostr rn with
    | Some op', Some cases', Some cats', Some d', Some w', Some rn' => Some (RSwitch op' cases' cats' d' w' rn')
    | _, _, _, _, _, _ => None
    end
  | L [A 2%N; cats; rn] =>
    match dec_list dec_cat cats, dec_ostr rn with
    | Some cats', Some rn' => Some (RRandom cats' rn') | _, _ => None end
  | _ => None
  end.
Definition dec_action (x : sexp) : option (id * sexp) :=
  match x with
  | L [u; p] => match dec_str u with Some u' => Some (u', p) | None => None end
  | _ => None
  end.
Definition dec_node (x : sexp) : option node :=
  match x with
  | L [u; acts; exits; r] =>
    match dec_str u, dec_list dec_action acts, dec_list dec_exit exits, dec_option dec_router r with
    | Some u', Some a', Some e', Some r' => Some (mkNode u' a' e' r') | _, _, _, _ => None end
  | _ => None
  end.
Definition dec_flow (x : sexp) : option flow :=
  match x with
  | L [u; n; nodes] =>
    match dec_str u, dec_str n, dec_list dec_node nodes with
    | Some u', Some n', Some nodes' => Some (mkFlow u' n' nodes') | _, _, _ => None end
  | _ => None
  end.
