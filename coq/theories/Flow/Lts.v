(* E6 — labelled transition systems, finite prefix-closed traces, and a checker for
   (bi)simulation up to a label-matching relation, with its soundness theorem.
   The checker validates an UNTRUSTED candidate relation; nothing about how the relation
   was found is trusted. *)
From Coq Require Import List Arith Bool Lia.
Import ListNotations.

Section Lts.
Variable label : Type.        (* observable payloads (already canonical) *)
Variable st : Type.           (* states of the left system *)
Variable st' : Type.          (* states of the right system *)
Variable st_eqb : st -> st -> bool.
Variable st'_eqb : st' -> st' -> bool.
Hypothesis st_eqb_eq : forall a b, st_eqb a b = true -> a = b.
Hypothesis st'_eqb_eq : forall a b, st'_eqb a b = true -> a = b.

(* what a state does: end the run; step silently; perform an action; or take a decision
   with a signature and one branch per possible resolution *)
Inductive kind (S : Type) :=
| KEnd
| KTau (n : S)
| KAct (p : label) (n : S)
| KDec (sg : label) (bs : list (label * S))
| KBad.                       (* dangling reference: never matched by the checker *)
Arguments KEnd {S}.
Arguments KTau {S} n.
Arguments KAct {S} p n.
Arguments KDec {S} sg bs.
Arguments KBad {S}.

Inductive event := EAct (p : label) | EDec (sg b : label) | EEnd.

(* finite traces from a state; prefix-closed (ex_nil) *)
Inductive exec {S} (L : S -> kind S) : S -> list event -> Prop :=
| ex_nil s : exec L s []
| ex_end s : L s = KEnd -> exec L s [EEnd]
| ex_tau s n t : L s = KTau n -> exec L n t -> exec L s t
| ex_act s p n t : L s = KAct p n -> exec L n t -> exec L s (EAct p :: t)
| ex_dec s sg bs b n t : L s = KDec sg bs -> In (b, n) bs -> exec L n t -> exec L s (EDec sg b :: t).

(* label matching: any relation (equality for C03/C04; equality up to names the sheet
   leaves open for C02) *)
Variable lmatch : label -> label -> bool.

Definition ematch (e e' : event) : Prop :=
  match e, e' with
  | EAct p, EAct p' => lmatch p p' = true
  | EDec sg b, EDec sg' b' => lmatch sg sg' = true /\ lmatch b b' = true
  | EEnd, EEnd => True
  | _, _ => False
  end.

Fixpoint chase {S} (L : S -> kind S) (fuel : nat) (s : S) : option S :=
  match fuel with
  | 0 => None
  | Datatypes.S f => match L s with KTau n => chase L f n | _ => Some s end
  end.

Definition pair_in (rel : list (st * st')) (a : st) (b : st') : bool :=
  existsb (fun p => st_eqb (fst p) a && st'_eqb (snd p) b) rel.

Fixpoint branches_ok (rel : list (st * st')) (bs : list (label * st)) (bs' : list (label * st')) : bool :=
  match bs, bs' with
  | [], [] => true
  | (b, n) :: r, (b', n') :: r' => lmatch b b' && pair_in rel n n' && branches_ok rel r r'
  | _, _ => false
  end.

Definition pair_ok (L : st -> kind st) (R : st' -> kind st') fuel rel (p : st * st') : bool :=
  match chase L fuel (fst p), chase R fuel (snd p) with
  | Some a, Some b =>
    match L a, R b with
    | KEnd, KEnd => true
    | KAct p n, KAct p' n' => lmatch p p' && pair_in rel n n'
    | KDec sg bs, KDec sg' bs' => lmatch sg sg' && branches_ok rel bs bs'
    | _, _ => false
    end
  | _, _ => false
  end.

Definition check (L : st -> kind st) (R : st' -> kind st') fuel (rel : list (st * st')) : bool :=
  forallb (pair_ok L R fuel rel) rel.

Lemma pair_in_In rel a b : pair_in rel a b = true -> In (a, b) rel.
Proof.
  unfold pair_in. rewrite existsb_exists. intros ([x y] & Hin & H). cbn in H.
  apply andb_true_iff in H as [H1 H2]. apply st_eqb_eq in H1. apply st'_eqb_eq in H2.
  subst. exact Hin.
Qed.

Lemma chase_exec {S} (L : S -> kind S) fuel s a t : chase L fuel s = Some a -> exec L a t -> exec L s t.
Proof.
  revert s. induction fuel as [|f IH]; intros s; cbn; [discriminate|].
  destruct (L s) eqn:E; intros H; try (injection H as <-; auto; fail).
  intros Ha. eapply ex_tau; eauto.
Qed.

Lemma chase_not_tau {S} (L : S -> kind S) fuel s a : chase L fuel s = Some a -> forall n, L a <> KTau n.
Proof.
  revert s. induction fuel as [|f IH]; intros s; cbn; [discriminate|].
  destruct (L s) eqn:E; intros H; try (injection H as <-; congruence). eauto.
Qed.

Lemma exec_chase {S} (L : S -> kind S) fuel s a t : chase L fuel s = Some a -> exec L s t -> exec L a t.
Proof.
  revert s. induction fuel as [|f IH]; intros s; cbn; [discriminate|].
  destruct (L s) eqn:E; intros H Hex; try (injection H as <-; exact Hex).
  inversion Hex as [ | ? Hend | ? ? ? Htau Hrest | ? ? ? ? Hact Hrest | ? ? ? ? ? ? Hdec Hinb Hrest]; subst; try congruence.
  - constructor.
  - rewrite E in Htau. injection Htau as <-. eauto.
Qed.

Lemma branches_ok_In rel bs bs' b n :
  branches_ok rel bs bs' = true -> In (b, n) bs ->
  exists b' n', In (b', n') bs' /\ lmatch b b' = true /\ In (n, n') rel.
Proof.
  revert bs'. induction bs as [|[b0 n0] r IH]; intros [|[b0' n0'] r']; cbn; try discriminate; try tauto.
  intros H. apply andb_true_iff in H as [H H3]. apply andb_true_iff in H as [H1 H2].
  intros [Heq|Hin].
  - injection Heq as <- <-. exists b0', n0'. split; [left; reflexivity|].
    split; [exact H1|apply pair_in_In; exact H2].
  - destruct (IH _ H3 Hin) as (b' & n' & ? & ? & ?). exists b', n'. split; [right; assumption|]. split; assumption.
Qed.

(* Soundness: every finite trace of L from a related state is matched, event by event,
   by a trace of R from the partner state. *)
Theorem check_sound L R fuel rel :
  check L R fuel rel = true ->
  forall t s s', In (s, s') rel -> exec L s t ->
  exists t', exec R s' t' /\ Forall2 ematch t t'.
Proof.
  intros Hc. unfold check in Hc. rewrite forallb_forall in Hc.
  assert (Hmain: forall n t, length t <= n -> forall s s', In (s, s') rel -> exec L s t ->
                             exists t', exec R s' t' /\ Forall2 ematch t t').
  { induction n as [|n IH]; intros t Hlen s s' Hin Hex.
    - destruct t; [exists []; split; constructor | cbn in Hlen; lia].
    - destruct t as [|e t]; [exists []; split; constructor|].
      specialize (Hc _ Hin). unfold pair_ok in Hc. cbn [fst snd] in Hc.
      destruct (chase L fuel s) as [a|] eqn:Ea; [|discriminate].
      destruct (chase R fuel s') as [b|] eqn:Eb; [|discriminate].
      pose proof (exec_chase _ _ _ _ _ Ea Hex) as Hexa.
      pose proof (chase_not_tau _ _ _ _ Ea) as Hnt.
      inversion Hexa as [ | ? Hend | ? ? ? Htau Hrest | ? p0 n0 ? Hact Hrest | ? sg0 bs0 b0 n0 ? Hdec Hinb Hrest]; subst.
      + rewrite Hend in Hc. destruct (R b) eqn:ERb; try discriminate.
        exists [EEnd]. split; [|constructor; [exact I|constructor]].
        apply (chase_exec _ _ _ _ _ Eb). apply ex_end. assumption.
      + exfalso. eapply Hnt; eauto.
      + rewrite Hact in Hc. destruct (R b) as [|?|p' n'|?|] eqn:ERb; try discriminate.
        apply andb_true_iff in Hc as [H1' H2']. apply pair_in_In in H2'.
        destruct (IH t ltac:(cbn in Hlen; lia) _ _ H2' Hrest) as (t' & Hex' & Hm).
        exists (EAct p' :: t'). split.
        * apply (chase_exec _ _ _ _ _ Eb). eapply ex_act; eauto.
        * constructor; [exact H1'|exact Hm].
      + rewrite Hdec in Hc. destruct (R b) as [|?|?|sg' bs'|] eqn:ERb; try discriminate.
        apply andb_true_iff in Hc as [H1' H2'].
        destruct (branches_ok_In _ _ _ _ _ H2' Hinb) as (b' & n' & Hin' & Hmb & Hrel).
        destruct (IH t ltac:(cbn in Hlen; lia) _ _ Hrel Hrest) as (t' & Hex' & Hm).
        exists (EDec sg' b' :: t'). split.
        * apply (chase_exec _ _ _ _ _ Eb). eapply ex_dec; eauto.
        * constructor; [split; assumption|exact Hm]. }
  intros t s s' Hin Hex. eapply Hmain; eauto.
Qed.

End Lts.

Arguments KEnd {label S}.
Arguments KTau {label S} n.
Arguments KAct {label S} p n.
Arguments KDec {label S} sg bs.
Arguments KBad {label S}.
Arguments EAct {label} p.
Arguments EDec {label} sg b.
Arguments EEnd {label}.

(* With label equality as the matching relation, matched traces are equal traces. *)
Section LtsEq.
Variable label st st' : Type.
Variable st_eqb : st -> st -> bool.
Variable st'_eqb : st' -> st' -> bool.
Hypothesis st_eqb_eq : forall a b, st_eqb a b = true -> a = b.
Hypothesis st'_eqb_eq : forall a b, st'_eqb a b = true -> a = b.
Variable leqb : label -> label -> bool.
Hypothesis leqb_eq : forall a b, leqb a b = true -> a = b.

Lemma ematch_eq (t t' : list (event label)) : Forall2 (ematch label leqb) t t' -> t = t'.
Proof.
  induction 1 as [|e e' t t' He _ IH]; [reflexivity|]. subst. f_equal.
  destruct e, e'; cbn in He; try contradiction; try reflexivity.
  - apply leqb_eq in He. subst. reflexivity.
  - destruct He as [H1 H2]. apply leqb_eq in H1, H2. subst. reflexivity.
Qed.

Theorem check_sound_eq L R fuel rel :
  check label st st' st_eqb st'_eqb leqb L R fuel rel = true ->
  forall t s s', In (s, s') rel -> exec label L s t -> exec label R s' t.
Proof.
  intros Hc t s s' Hin Hex.
  destruct (check_sound label st st' st_eqb st'_eqb st_eqb_eq st'_eqb_eq leqb L R fuel rel Hc t s s' Hin Hex)
    as (t' & Hex' & Hm).
  apply ematch_eq in Hm. subst. exact Hex'.
Qed.
End LtsEq.
