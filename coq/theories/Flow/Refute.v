(* E6 — refuting trace inclusion.  The simulation checker (Lts.v) PROVES inclusions; this file proves their
   failure on a witness: [walk] builds a concrete trace of one system by following a list of branch choices (with the
   proof that it is a trace), [runs] computes the states another system can be in after a trace that matches it, label
   by label, up to the matching relation (with the proof that an empty result means: no trace of that system matches).
   Both are executable, so a refutation is one vm_compute. *)
From Coq Require Import List Arith Bool Lia.
From RPFT Require Import Flow.Lts.
Import ListNotations.

Section Refute.
Variable label : Type.
Variable lmatch : label -> label -> bool.

(* ---------------------------------------------------------------- a trace by choices *)
Section Walk.
Variable S : Type.
Variable L : S -> kind label S.

(* follow the system: silent steps and actions as they come, the [c]-th branch at a decision (choices are used up
   one per decision); stop after [fuel] steps, at the end, at a dangling state, or when a choice is out of range *)
Fixpoint walk (fuel : nat) (s : S) (choices : list nat) : list (event label) :=
  match fuel with
  | 0 => []
  | Datatypes.S f =>
    match L s with
    | KEnd => [EEnd]
    | KTau n => walk f n choices
    | KAct p n => EAct p :: walk f n choices
    | KDec sg bs =>
      match choices with
      | [] => []
      | c :: rest => match nth_error bs c with
                     | Some (b, n) => EDec sg b :: walk f n rest
                     | None => []
                     end
      end
    | KBad => []
    end
  end.

Lemma walk_exec fuel : forall s choices, exec label L s (walk fuel s choices).
Proof.
  induction fuel as [|f IH]; intros s choices; cbn; [constructor|].
  destruct (L s) as [|n|p n|sg bs|] eqn:E.
  - apply ex_end, E.
  - eapply ex_tau; [exact E|apply IH].
  - eapply ex_act; [exact E|apply IH].
  - destruct choices as [|c rest]; [constructor|]. destruct (nth_error bs c) as [[b n]|] eqn:En; [|constructor].
    eapply ex_dec; [exact E|eapply nth_error_In, En|apply IH].
  - constructor.
Qed.
End Walk.

(* ---------------------------------------------------------------- the states after a matching trace *)
Section Runs.
Variable S : Type.
Variable R : S -> kind label S.
Variable cfuel : nat.

(* concatenation of optional results: None (a silent chain was not exhausted within cfuel) is contagious *)
Fixpoint collect (l : list (option (list S))) : option (list S) :=
  match l with
  | [] => Some []
  | None :: _ => None
  | Some x :: r => match collect r with Some y => Some (x ++ y) | None => None end
  end.

(* [runs s t]: Some l = every state R can be in after a trace t' with Forall2 (ematch lmatch) t t' is in l
   (for t = []: the start state) *)
Fixpoint runs (s : S) (t : list (event label)) : option (list S) :=
  match t with
  | [] => Some [s]
  | e :: t' =>
    match chase label R cfuel s with
    | None => None
    | Some a =>
      match e, R a with
      | EEnd, KEnd => match t' with [] => Some [a] | _ => Some [] end
      | EAct p, KAct p' n => if lmatch p p' then runs n t' else Some []
      | EDec sg b, KDec sg' bs =>
        if lmatch sg sg'
        then collect (map (fun bn => if lmatch b (fst bn) then runs (snd bn) t' else Some []) bs)
        else Some []
      | _, _ => Some []
      end
    end
  end.

Lemma collect_nil l : collect l = Some [] -> forall x, In x l -> x = Some [].
Proof.
  induction l as [|[y|] r IH]; cbn; [intros _ x []| |discriminate].
  destruct (collect r) as [z|]; [|discriminate]. intros H. injection H as H.
  apply app_eq_nil in H as [-> ->]. intros x [<-|Hx]; [reflexivity|]. apply IH; auto.
Qed.

(* no trace of R from s matches t *)
Theorem runs_nil t : forall s, runs s t = Some [] ->
  forall t', exec label R s t' -> ~ Forall2 (ematch label lmatch) t t'.
Proof.
  induction t as [|e t IH]; intros s Hr t' Hex Hm; [cbn in Hr; discriminate|].
  cbn [runs] in Hr. destruct (chase label R cfuel s) as [a|] eqn:Ea; [|discriminate].
  pose proof (exec_chase label _ _ _ _ _ Ea Hex) as Hexa.
  pose proof (chase_not_tau label _ _ _ _ Ea) as Hnt.
  inversion Hm as [|e0 e' t0 t1 He Hrest]; subst.
  inversion Hexa as [ | ? Hend | ? ? ? Htau Hrest' | ? p0 n0 ? Hact Hrest' | ? sg0 bs0 b0 n0 ? Hdec Hinb Hrest']; subst.
  - rewrite Hend in Hr. destruct e; cbn in He; try contradiction. inversion Hrest; subst. discriminate.
  - exfalso. eapply Hnt; eauto.
  - rewrite Hact in Hr. destruct e as [p| |]; cbn in He; try contradiction. rewrite He in Hr.
    exact (IH _ Hr _ Hrest' Hrest).
  - rewrite Hdec in Hr. destruct e as [|sg b|]; cbn in He; try contradiction. destruct He as [H1 H2]. rewrite H1 in Hr.
    pose proof (collect_nil _ Hr (if lmatch b (fst (b0, n0)) then runs (snd (b0, n0)) t else Some [])) as Hx.
    cbn [fst snd] in Hx. rewrite H2 in Hx.
    assert (Hin : In (runs n0 t) (map (fun bn => if lmatch b (fst bn) then runs (snd bn) t else Some []) bs0)).
    { apply in_map_iff. exists (b0, n0). cbn [fst snd]. rewrite H2. split; [reflexivity|exact Hinb]. }
    exact (IH _ (Hx Hin) _ Hrest' Hrest).
Qed.
End Runs.
End Refute.
