(* E6 — referential closedness of a rendered document (property C01), as a boolean
   checker with a proved specification: closedb G d = true <-> Closed G d. *)
From Coq Require Import List NArith Bool Arith Lia.
From RPFT Require Import Base.Sexp Base.PyStr Base.PyStrFacts Flow.Flow.
Import ListNotations.
Local Open Scope N_scope.

(* ---------------------------------------------------------------- helpers with specs *)
Definition memb (u : str) (l : list str) : bool := existsb (str_eqb u) l.

Lemma memb_In u l : memb u l = true <-> In u l.
Proof.
  unfold memb. rewrite existsb_exists. split.
  - intros (x & Hin & E). apply str_eqb_eq in E. subst. exact Hin.
  - intros Hin. exists u. split; [exact Hin|apply str_eqb_refl].
Qed.

Fixpoint nodupb (l : list str) : bool :=
  match l with [] => true | x :: r => negb (memb x r) && nodupb r end.

Lemma nodupb_NoDup l : nodupb l = true <-> NoDup l.
Proof.
  induction l as [|x r IH]; cbn; [split; [constructor|reflexivity]|].
  rewrite andb_true_iff, negb_true_iff, IH. split.
  - intros [H1 H2]. constructor; [|exact H2]. intros Hin. apply memb_In in Hin. congruence.
  - intros H. inversion H; subst. split; [|assumption].
    destruct (memb x r) eqn:E; [apply memb_In in E; contradiction|reflexivity].
Qed.

(* RFC 4122 version-4 text form: 8-4-4-4-12 lower-case hex, version nibble 4, variant 8..b *)
Definition is_hex (c : char) : bool := ((48 <=? c) && (c <=? 57)) || ((97 <=? c) && (c <=? 102)).
Definition is_variant (c : char) : bool := (c =? 56) || (c =? 57) || (c =? 97) || (c =? 98).
Definition uuid4_pattern : list (char -> bool) :=
  let h := is_hex in let d := fun c => c =? 45 in
  [h;h;h;h;h;h;h;h; d; h;h;h;h; d; (fun c => c =? 52);h;h;h; d; is_variant;h;h;h; d; h;h;h;h;h;h;h;h;h;h;h;h].
Fixpoint matches_pattern (p : list (char -> bool)) (s : str) : bool :=
  match p, s with
  | [], [] => true
  | f :: p', c :: s' => f c && matches_pattern p' s'
  | _, _ => false
  end.
Definition is_uuid4 (s : str) : bool := matches_pattern uuid4_pattern s.

(* ---------------------------------------------------------------- per-node clauses *)
Definition router_cats (r : router) : list category :=
  match r with RSwitch _ _ cats _ _ _ => cats | RRandom cats _ => cats end.
Definition router_cases (r : router) : list case_ :=
  match r with RSwitch _ cases _ _ _ _ => cases | RRandom _ _ => [] end.
(* the category uuids a router refers to besides its cases: default, and no-response with a timeout *)
Definition router_refs (r : router) : list id :=
  match r with
  | RSwitch _ _ _ d w _ => d :: match w with WTimeout _ c => [c] | _ => [] end
  | RRandom _ _ => []
  end.

Definition node_uuids (f : flow) : list id := map n_uuid (f_nodes f).

Record NodeClosed (f : flow) (nd : node) : Prop := {
  (* (b) every exit leads nowhere or to a node of the same flow *)
  nc_dest : forall e, In e (n_exits nd) -> match e_dest e with None => True | Some u => In u (node_uuids f) end;
  (* (f) a node without a router has exactly one exit *)
  nc_basic : n_router nd = None -> length (n_exits nd) = 1%nat;
  (* (c) categories and exits are in one-to-one correspondence *)
  nc_cat_exit : forall r, n_router nd = Some r ->
      NoDup (map c_exit (router_cats r)) /\ NoDup (map e_uuid (n_exits nd)) /\
      (forall c, In c (router_cats r) -> In (c_exit c) (map e_uuid (n_exits nd))) /\
      (forall e, In e (n_exits nd) -> In (e_uuid e) (map c_exit (router_cats r)));
  (* (d) every case names a category of its own router *)
  nc_cases : forall r, n_router nd = Some r ->
      forall k, In k (router_cases r) -> In (k_cat k) (map c_uuid (router_cats r));
  (* (e) the default and (with a timeout) the no-response category exist *)
  nc_refs : forall r, n_router nd = Some r ->
      forall u, In u (router_refs r) -> In u (map c_uuid (router_cats r))
}.

Definition node_closedb (f : flow) (nd : node) : bool :=
  forallb (fun e => match e_dest e with None => true | Some u => memb u (node_uuids f) end) (n_exits nd)
  && match n_router nd with
     | None => Nat.eqb (length (n_exits nd)) 1
     | Some r =>
       nodupb (map c_exit (router_cats r)) && nodupb (map e_uuid (n_exits nd))
       && forallb (fun c => memb (c_exit c) (map e_uuid (n_exits nd))) (router_cats r)
       && forallb (fun e => memb (e_uuid e) (map c_exit (router_cats r))) (n_exits nd)
       && forallb (fun k => memb (k_cat k) (map c_uuid (router_cats r))) (router_cases r)
       && forallb (fun u => memb u (map c_uuid (router_cats r))) (router_refs r)
     end.

Lemma node_closedb_spec f nd : node_closedb f nd = true <-> NodeClosed f nd.
Proof.
  unfold node_closedb. rewrite andb_true_iff, forallb_forall. split.
  - intros [Hd Hr]. constructor.
    + intros e He. specialize (Hd e He). destruct (e_dest e); [apply memb_In, Hd|exact I].
    + intros E. rewrite E in Hr. apply Nat.eqb_eq, Hr.
    + intros r E. rewrite E in Hr.
      repeat (apply andb_true_iff in Hr; destruct Hr as [Hr ?]).
      repeat match goal with H : forallb _ _ = true |- _ => rewrite forallb_forall in H end.
      repeat match goal with H : nodupb _ = true |- _ => apply nodupb_NoDup in H end.
      repeat split; try assumption.
      * intros c Hc. apply memb_In. auto.
      * intros e He. apply memb_In. auto.
    + intros r E. rewrite E in Hr.
      repeat (apply andb_true_iff in Hr; destruct Hr as [Hr ?]).
      repeat match goal with H : forallb _ _ = true |- _ => rewrite forallb_forall in H end.
      intros k Hk. apply memb_In. auto.
    + intros r E. rewrite E in Hr.
      repeat (apply andb_true_iff in Hr; destruct Hr as [Hr ?]).
      repeat match goal with H : forallb _ _ = true |- _ => rewrite forallb_forall in H end.
      intros u Hu. apply memb_In. auto.
  - intros [Hd Hb Hc Hk Hrf]. split.
    + intros e He. specialize (Hd e He). destruct (e_dest e); [apply memb_In, Hd|reflexivity].
    + destruct (n_router nd) as [r|] eqn:E.
      * destruct (Hc r eq_refl) as (N1 & N2 & C1 & C2).
        repeat (apply andb_true_iff; split);
          try (apply nodupb_NoDup; assumption);
          apply forallb_forall; intros x Hx; apply memb_In; auto.
      * apply Nat.eqb_eq, Hb. reflexivity.
Qed.

(* ---------------------------------------------------------------- per-flow and document *)
Record FlowClosed (f : flow) : Prop := {
  fc_nodup : NoDup (node_uuids f);                                  (* (a) *)
  fc_nodes : forall nd, In nd (f_nodes f) -> NodeClosed f nd
}.

Definition flow_closedb (f : flow) : bool :=
  nodupb (node_uuids f) && forallb (node_closedb f) (f_nodes f).

Lemma flow_closedb_spec f : flow_closedb f = true <-> FlowClosed f.
Proof.
  unfold flow_closedb. rewrite andb_true_iff, nodupb_NoDup, forallb_forall. split.
  - intros [H1 H2]. constructor; [exact H1|]. intros nd Hnd. apply node_closedb_spec, H2, Hnd.
  - intros [H1 H2]. split; [exact H1|]. intros nd Hnd. apply node_closedb_spec, H2, Hnd.
Qed.

(* identifiers at DEFINING positions: flow, node, action, exit, category, case *)
Definition router_def_ids (r : router) : list id :=
  map c_uuid (router_cats r) ++ map k_uuid (router_cases r).
Definition node_def_ids (nd : node) : list id :=
  n_uuid nd :: map fst (n_actions nd) ++ map e_uuid (n_exits nd)
  ++ match n_router nd with Some r => router_def_ids r | None => [] end.
Definition flow_def_ids (f : flow) : list id := f_uuid f :: flat_map node_def_ids (f_nodes f).
Definition doc_def_ids (d : list flow) : list id := flat_map flow_def_ids d.

(* G = the identifiers GIVEN in the input workbook; anything else was invented *)
Definition invented (G : list id) (u : id) : bool := negb (memb u G).

Record Closed (G : list id) (d : list flow) : Prop := {
  cl_flows : forall f, In f d -> FlowClosed f;
  (* (g) every invented identifier is a well-formed UUID used for one object only *)
  cl_fresh_distinct : NoDup (filter (invented G) (doc_def_ids d));
  cl_fresh_wellformed : forall u, In u (filter (invented G) (doc_def_ids d)) -> is_uuid4 u = true
}.

Definition closedb (G : list id) (d : list flow) : bool :=
  forallb flow_closedb d
  && nodupb (filter (invented G) (doc_def_ids d))
  && forallb is_uuid4 (filter (invented G) (doc_def_ids d)).

Theorem closedb_spec G d : closedb G d = true <-> Closed G d.
Proof.
  unfold closedb. rewrite !andb_true_iff, nodupb_NoDup, !forallb_forall. split.
  - intros [[H1 H2] H3]. constructor; [|exact H2|exact H3].
    intros f Hf. apply flow_closedb_spec, H1, Hf.
  - intros [H1 H2 H3]. repeat split; [|exact H2|exact H3].
    intros f Hf. apply flow_closedb_spec, H1, Hf.
Qed.

(* which clause fails first, for diagnostics (not trusted): 0 = closed *)
Definition closed_diag (G : list id) (d : list flow) : N :=
  if negb (forallb (fun f => nodupb (node_uuids f)) d) then 1
  else if negb (forallb flow_closedb d) then 2
  else if negb (nodupb (filter (invented G) (doc_def_ids d))) then 3
  else if negb (forallb is_uuid4 (filter (invented G) (doc_def_ids d))) then 4
  else 0.
