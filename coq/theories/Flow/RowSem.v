(* E6 — RowSem: the reference meaning of a (plain or block-structured) flow sheet,
   written from the property text (C02, C03) and the sheet-format documentation; the rule
   set is DESIGN.md Appendix A.  It builds a reference flow in the AST of Flow.v with
   synthetic identifiers; names the sheet does not fix are wildcards.  Sequential reading:
   rows are applied in sheet order and a later edge re-targets an existing branch.
   Definitions only. *)
From Coq Require Import List NArith Bool Arith.
From RPFT Require Import Base.Sexp Base.PyStr Base.SexpEq Flow.Lts Flow.Flow.
Import ListNotations.

(* ---------------------------------------------------------------- input: abstract rows *)
Inductive efrom := FBlank | FStart | FRow (id : str).
Record econd := mkCond { c_value : str; c_variable : str; c_type : str; c_cname : str }.
Record redge := mkEdge { e_from : efrom; e_cond : econd }.

Definition cond_blank (c : econd) : bool :=
  match c_value c, c_variable c, c_type c, c_cname c with [], [], [], [] => true | _, _, _, _ => false end.

(* how conditions on edges leaving a row are read *)
Inductive eclass :=
| EAction      (* action row: blank = continuation; otherwise a decision is placed after it *)
| EWait        (* wait_for_response *)
| ESplit       (* split_by_value: the row's own operand *)
| EGroup       (* split_by_group *)
| ERandom      (* split_random *)
| EFlow        (* start_new_flow: completed / expired *)
| EOutcome.    (* call_webhook, transfer_airtime: success / failure *)

Inductive cname := CFixed (s : str) | CWild.
Inductive dest := DNone | DHard | DNode (k : nat).

Record rdec := mkDec {
  rd_random : bool;
  rd_operand : str;
  rd_wait : wait_spec;                         (* WTimeout s _ : the id is ignored here *)
  rd_result : option str;
  rd_cases : list (str * list (option str) * nat);   (* test type, arguments, index into rd_cats *)
  rd_cats : list (cname * dest);
  rd_default : cname * dest;
  rd_noresp : option (cname * dest) }.

Inductive rtype :=
| TNode (cls : eclass) (actions : list sexp) (dec0 : option rdec)
| TGoto (targets : list str)
| TNoOp
| THard
| TLoose
| TBeginBlock
| TEndBlock.

Record row := mkRow { r_type : rtype; r_id : str; r_node_name : str; r_edges : list redge }.

(* ---------------------------------------------------------------- how a row of a sheet is read *)
(* A sheet is rectangular: a row that has fewer edges than the widest row has blank cells in the remaining edge
   columns.  A blank cell is not an edge.  The first entry is always an edge (blank `from` = the preceding row, blank
   condition = unconditional); every later entry that is blank throughout (`from` and all of the condition) is
   padding and is not read - in a row of ANY type. *)
Definition edge_trivial (e : redge) : bool :=
  match e_from e with FBlank => cond_blank (e_cond e) | _ => false end.

Definition drop_padding (es : list redge) : list redge :=
  match es with
  | [] => []
  | e0 :: rest => e0 :: filter (fun e => negb (edge_trivial e)) rest
  end.

Definition read_row (r : row) : row := mkRow (r_type r) (r_id r) (r_node_name r) (drop_padding (r_edges r)).

(* ---------------------------------------------------------------- state *)
Record rnode := mkRNode { rn_actions : list sexp; rn_dec : option rdec; rn_cont : dest }.

Inductive group :=
| GRow (node : nat) (cls : eclass)
| GNoOp (parents : list (nat * econd)) (router : option nat)
| GBlock (members : list nat).

Record st := mkSt {
  s_nodes : list rnode;
  s_groups : list group;
  s_rowmap : list (str * nat);          (* row id -> group, latest first *)
  s_names : list (str * nat);           (* node name -> node *)
  s_stack : list (list nat) }.          (* innermost block first; members in order *)

Definition st0 : st := mkSt [] [] [] [] [[]].

Fixpoint update {X} (l : list X) (k : nat) (x : X) : list X :=
  match l, k with
  | [], _ => []
  | _ :: r, O => x :: r
  | y :: r, S k' => y :: update r k' x
  end.

Fixpoint alookup (m : list (str * nat)) (k : str) : option nat :=
  match m with
  | [] => None
  | (k', v) :: r => if str_eqb k' k then Some v else alookup r k
  end.

Definition set_node (s : st) (k : nat) (n : rnode) : st :=
  mkSt (update (s_nodes s) k n) (s_groups s) (s_rowmap s) (s_names s) (s_stack s).
Definition set_group (s : st) (k : nat) (g : group) : st :=
  mkSt (s_nodes s) (update (s_groups s) k g) (s_rowmap s) (s_names s) (s_stack s).
Definition add_node (s : st) (n : rnode) : st * nat :=
  (mkSt (s_nodes s ++ [n]) (s_groups s) (s_rowmap s) (s_names s) (s_stack s), length (s_nodes s)).

(* a new group becomes the last member of the innermost block *)
Definition add_group (s : st) (g : group) (rid : str) : st * nat :=
  let k := length (s_groups s) in
  let stack' := match s_stack s with [] => [[k]] | top :: r => (top ++ [k]) :: r end in
  let rowmap' := match rid with [] => s_rowmap s | _ => (rid, k) :: s_rowmap s end in
  (mkSt (s_nodes s) (s_groups s ++ [g]) rowmap' (s_names s) stack', k).

(* "the preceding row": the last member of the innermost non-empty block *)
Fixpoint most_recent (stack : list (list nat)) : option nat :=
  match stack with
  | [] => None
  | top :: r => match rev top with k :: _ => Some k | [] => most_recent r end
  end.

(* ---------------------------------------------------------------- decisions *)
Definition s_has_any_word : str := [104;97;115;95;97;110;121;95;119;111;114;100]%N.
Definition s_input_text : str := [64;105;110;112;117;116;46;116;101;120;116]%N.      (* @input.text *)
Definition s_no_response : str := [110;111;32;114;101;115;112;111;110;115;101]%N.  (* no response *)
Definition s_complete : str := [99;111;109;112;108;101;116;101]%N.
Definition s_completed : str := [99;111;109;112;108;101;116;101;100]%N.
Definition s_expired : str := [101;120;112;105;114;101;100]%N.
Definition s_success : str := [115;117;99;99;101;115;115]%N.
Definition s_failure : str := [102;97;105;108;117;114;101]%N.
Definition s_Complete : str := [67;111;109;112;108;101;116;101]%N.
Definition s_Success : str := [83;117;99;99;101;115;115]%N.

Fixpoint ostr_list_eqb (a b : list (option str)) : bool :=
  match a, b with
  | [], [] => true
  | Some x :: a', Some y :: b' => str_eqb x y && ostr_list_eqb a' b'
  | None :: a', None :: b' => ostr_list_eqb a' b'
  | _, _ => false
  end.

Definition cname_is (c : cname) (s : str) : bool :=
  match c with CFixed t => str_eqb t s | CWild => false end.

Fixpoint find_cat (cats : list (cname * dest)) (name : str) (i : nat) : option nat :=
  match cats with
  | [] => None
  | (c, _) :: r => if cname_is c name then Some i else find_cat r name (S i)
  end.

Definition set_cat_dest (cats : list (cname * dest)) (i : nat) (d : dest) : list (cname * dest) :=
  match nth_error cats i with
  | Some (c, _) => update cats i (c, d)
  | None => cats
  end.

(* tests without arguments (regenerated: Tables.no_args_tests is compared with this list) *)
Definition new_operand (old new : str) : str := match new with [] => old | _ => new end.

(* add case (type, args, name, target): an existing (type,args) is re-targeted; otherwise
   the branch is the category called `name` (created on first use, re-targeted when it
   exists) or a new category with a name the sheet does not fix *)
Definition add_case (no_args : str -> bool) (d : rdec) (operand : str) (ty : str) (value : str)
           (args : list (option str)) (name : str) (tgt : dest) : rdec :=
  let ty := match ty with [] => s_has_any_word | _ => ty end in
  let stored := if no_args ty then [] else args in
  let d := mkDec (rd_random d) (new_operand (rd_operand d) operand) (rd_wait d) (rd_result d)
                 (rd_cases d) (rd_cats d) (rd_default d) (rd_noresp d) in
  (* the lookup compares with the arguments as written, the store drops them for no-arg tests *)
  match find (fun k => str_eqb (fst (fst k)) ty && ostr_list_eqb (snd (fst k)) args) (rd_cases d) with
  | Some (_, _, ci) =>
    mkDec (rd_random d) (rd_operand d) (rd_wait d) (rd_result d) (rd_cases d)
          (set_cat_dest (rd_cats d) ci tgt) (rd_default d) (rd_noresp d)
  | None =>
    match name with
    | [] =>
      mkDec (rd_random d) (rd_operand d) (rd_wait d) (rd_result d)
            (rd_cases d ++ [(ty, stored, length (rd_cats d))]) (rd_cats d ++ [(CWild, tgt)])
            (rd_default d) (rd_noresp d)
    | _ =>
      match find_cat (rd_cats d) name 0 with
      | Some ci =>
        mkDec (rd_random d) (rd_operand d) (rd_wait d) (rd_result d)
              (rd_cases d ++ [(ty, stored, ci)]) (set_cat_dest (rd_cats d) ci tgt)
              (rd_default d) (rd_noresp d)
      | None =>
        mkDec (rd_random d) (rd_operand d) (rd_wait d) (rd_result d)
              (rd_cases d ++ [(ty, stored, length (rd_cats d))]) (rd_cats d ++ [(CFixed name, tgt)])
              (rd_default d) (rd_noresp d)
      end
    end
  end.

Definition set_default (d : rdec) (tgt : dest) : rdec :=
  mkDec (rd_random d) (rd_operand d) (rd_wait d) (rd_result d) (rd_cases d) (rd_cats d)
        (fst (rd_default d), tgt) (rd_noresp d).

Definition add_bucket (d : rdec) (name : str) (tgt : dest) : rdec :=
  match name with
  | [] => mkDec true (rd_operand d) (rd_wait d) (rd_result d) (rd_cases d) (rd_cats d ++ [(CWild, tgt)])
                (rd_default d) (rd_noresp d)
  | _ => match find_cat (rd_cats d) name 0 with
         | Some ci => mkDec true (rd_operand d) (rd_wait d) (rd_result d) (rd_cases d)
                            (set_cat_dest (rd_cats d) ci tgt) (rd_default d) (rd_noresp d)
         | None => mkDec true (rd_operand d) (rd_wait d) (rd_result d) (rd_cases d)
                         (rd_cats d ++ [(CFixed name, tgt)]) (rd_default d) (rd_noresp d)
         end
  end.

(* the arguments of the test an edge condition writes: the value; a has_group test names the group, whose uuid
   (argument 0) is not the sheet's to fix - in a row of any type (a split_by_group row writes the same test
   without naming its type) *)
Definition ref_args (c : econd) : list (option str) :=
  if str_eqb (c_type c) has_group_s then [None; Some (c_value c)] else [Some (c_value c)].

Definition fresh_dec (operand : str) (w : wait_spec) (dflt : dest) : rdec :=
  mkDec false operand w None [] [] (CWild, dflt) None.

(* ---------------------------------------------------------------- applying an edge *)
Section Apply.
Variable no_args : str -> bool.

(* the value "no response" on an edge from a decision: the timeout branch when the row
   waits with a positive timeout, otherwise ignored (with a warning) *)
Definition noresp_edge (n : rnode) (d : rdec) (tgt : dest) : rnode :=
  match rd_noresp d with
  | Some (nm, _) => mkRNode (rn_actions n)
                            (Some (mkDec (rd_random d) (rd_operand d) (rd_wait d) (rd_result d) (rd_cases d)
                                         (rd_cats d) (rd_default d) (Some (nm, tgt))))
                            (rn_cont n)
  | None => n
  end.

(* edge leaving a row node of class cls; None = the sheet is not well-formed here *)
Definition apply_row_edge (n : rnode) (cls : eclass) (c : econd) (tgt : dest) : option rnode :=
  let lv := lower (c_value c) in
  match cls with
  | ERandom =>
    match rn_dec n with
    | Some d => Some (mkRNode (rn_actions n)
                              (Some (add_bucket d (match c_cname c with [] => c_value c | x => x end) tgt))
                              (rn_cont n))
    | None => None
    end
  | _ =>
    if cond_blank c then
      match cls with
      | EFlow => None                            (* start_new_flow has no default continuation *)
      | _ =>
        match rn_dec n with
        | None => Some (mkRNode (rn_actions n) None tgt)
        | Some d => Some (mkRNode (rn_actions n) (Some (set_default d tgt)) (rn_cont n))
        end
      end
    else
      match cls, rn_dec n with
      | EFlow, Some d =>
        if str_eqb lv s_complete || str_eqb lv s_completed then
          match find_cat (rd_cats d) s_Complete 0 with
          | Some ci => Some (mkRNode (rn_actions n)
                                     (Some (mkDec false (rd_operand d) (rd_wait d) (rd_result d) (rd_cases d)
                                                  (set_cat_dest (rd_cats d) ci tgt) (rd_default d) (rd_noresp d)))
                                     (rn_cont n))
          | None => None
          end
        else if str_eqb lv s_expired then Some (mkRNode (rn_actions n) (Some (set_default d tgt)) (rn_cont n))
        else Some n                               (* other values are ignored (logged) *)
      | EOutcome, Some d =>
        if str_eqb lv s_success then
          match find_cat (rd_cats d) s_Success 0 with
          | Some ci => Some (mkRNode (rn_actions n)
                                     (Some (mkDec false (rd_operand d) (rd_wait d) (rd_result d) (rd_cases d)
                                                  (set_cat_dest (rd_cats d) ci tgt) (rd_default d) (rd_noresp d)))
                                     (rn_cont n))
          | None => None
          end
        else if str_eqb lv s_failure then Some (mkRNode (rn_actions n) (Some (set_default d tgt)) (rn_cont n))
        else Some n
      | EWait, Some d =>
        if str_eqb lv s_no_response then Some (noresp_edge n d tgt)
        else Some (mkRNode (rn_actions n)
                           (Some (add_case no_args d (match c_variable c with [] => s_input_text | v => v end)
                                           (c_type c) (c_value c) (ref_args c) (c_cname c) tgt))
                           (rn_cont n))
      | ESplit, Some d =>
        if str_eqb lv s_no_response then Some (noresp_edge n d tgt)
        else Some (mkRNode (rn_actions n)
                      (Some (add_case no_args d (rd_operand d) (c_type c) (c_value c) (ref_args c) (c_cname c) tgt))
                      (rn_cont n))
      | EGroup, Some d =>
        if str_eqb lv s_no_response then Some (noresp_edge n d tgt)
        else Some (mkRNode (rn_actions n)
                      (Some (add_case no_args d (rd_operand d) has_group_s (c_value c) [None; Some (c_value c)] (c_cname c) tgt))
                      (rn_cont n))
      | EAction, None =>
        (* first condition on an action row: a decision is placed after the action, on the
           edge's variable, or a wait (no timeout) on the reply when none is given; it
           inherits the row's current continuation as its default *)
        let d0 := match c_variable c with
                  | [] => fresh_dec s_input_text WMsg (rn_cont n)
                  | v => fresh_dec v WNone (rn_cont n)
                  end in
        Some (mkRNode (rn_actions n)
                      (Some (add_case no_args d0 (rd_operand d0) (c_type c) (c_value c) (ref_args c) (c_cname c) tgt))
                      DNone)
      | EAction, Some d =>
        let v := match c_variable c with [] => s_input_text | v => v end in
        if str_eqb lv s_no_response then Some (noresp_edge n d tgt) else
        Some (mkRNode (rn_actions n)
                      (Some (add_case no_args d v (c_type c) (c_value c) (ref_args c) (c_cname c) tgt))
                      (rn_cont n))
      | _, _ => None
      end
  end.

(* loose (still unconnected, ordinary) exits of a node are connected; hard exits never *)
Definition fill (d : dest) (tgt : dest) : dest := match d with DNone => tgt | _ => d end.
Definition connect_node (n : rnode) (tgt : dest) : rnode :=
  match rn_dec n with
  | None => mkRNode (rn_actions n) None (fill (rn_cont n) tgt)
  | Some d =>
    mkRNode (rn_actions n)
            (Some (mkDec (rd_random d) (rd_operand d) (rd_wait d) (rd_result d) (rd_cases d)
                         (map (fun cd => (fst cd, fill (snd cd) tgt)) (rd_cats d))
                         (fst (rd_default d), fill (snd (rd_default d)) tgt)
                         (match rd_noresp d with Some (nm, x) => Some (nm, fill x tgt) | None => None end)))
            (rn_cont n)
  end.

Definition node_loose (n : rnode) : bool :=
  let is_none d := match d with DNone => true | _ => false end in
  match rn_dec n with
  | None => is_none (rn_cont n)
  | Some d => if rd_random d then existsb (fun cd => is_none (snd cd)) (rd_cats d)      (* a random split has buckets only *)
              else existsb (fun cd => is_none (snd cd)) (rd_cats d) || is_none (snd (rd_default d))
                   || match rd_noresp d with Some (_, x) => is_none x | None => false end
  end.

Fixpoint has_loose (fuel : nat) (s : st) (g : nat) : bool :=
  match fuel with
  | O => false
  | S f =>
    match nth_error (s_groups s) g with
    | Some (GRow k _) => match nth_error (s_nodes s) k with Some n => node_loose n | None => false end
    | Some (GNoOp ps (Some k)) => match nth_error (s_nodes s) k with Some n => node_loose n | None => false end
    | Some (GNoOp ps None) => existsb (fun p => has_loose f s (fst p)) ps
    | Some (GBlock ms) => existsb (has_loose f s) ms
    | None => false
    end
  end.

Fixpoint connect_loose (fuel : nat) (s : st) (g : nat) (tgt : dest) : st :=
  match fuel with
  | O => s
  | S f =>
    match nth_error (s_groups s) g with
    | Some (GRow k _) | Some (GNoOp _ (Some k)) =>
      match nth_error (s_nodes s) k with Some n => set_node s k (connect_node n tgt) | None => s end
    | Some (GNoOp ps None) => fold_left (fun s' p => connect_loose f s' (fst p) tgt) ps s
    | Some (GBlock ms) => fold_left (fun s' m => connect_loose f s' m tgt) ms s
    | None => s
    end
  end.

(* an edge leaving a no_op that is a decision: a condition that carries a test (a value, or
   a test type that takes no argument, e.g. has_number) is a case; a condition that only
   names the operand (or is blank) is the decision's default branch *)
Definition noop_case (no_args : str -> bool) (d : rdec) (c : econd) (tgt : dest) : rdec :=
  match c_value c with
  | [] => if no_args (c_type c) then add_case no_args d (c_variable c) (c_type c) (c_value c) (ref_args c) (c_cname c) tgt
          else set_default d tgt
  | _ => add_case no_args d (c_variable c) (c_type c) (c_value c) (ref_args c) (c_cname c) tgt
  end.

(* add_exit: an edge with condition c from group g to tgt *)
Fixpoint add_exit (fuel : nat) (s : st) (g : nat) (c : econd) (tgt : dest) : option st :=
  match fuel with
  | O => None
  | S f =>
    match nth_error (s_groups s) g with
    | None => None
    | Some (GRow k cls) =>
      match nth_error (s_nodes s) k with
      | None => None
      | Some n => match apply_row_edge n cls c tgt with
                  | Some n' => Some (set_node s k n')
                  | None => None
                  end
      end
    | Some (GBlock ms) =>
      (* an edge that names a block leaves from every still-unconnected ordinary exit of
         the block; it cannot carry a condition; a block without such an exit is an error *)
      if negb (cond_blank c) then None
      else if negb (has_loose f s g) then None
      else Some (fold_left (fun s' m => if has_loose f s' m then connect_loose f s' m tgt else s') ms s)
    | Some (GNoOp ps None) =>
      if cond_blank c then
        (* no_op adds no step: each incoming edge is forwarded to the target *)
        fold_left (fun os p => match os with Some s' => add_exit f s' (fst p) (snd p) tgt | None => None end)
                  ps (Some s)
      else
        match c_variable c with
        | [] => None                               (* a decision needs a variable *)
        | v =>
          let (s1, k) := add_node s (mkRNode [] (Some (fresh_dec v WNone DNone)) DNone) in
          let s2 := set_group s1 g (GNoOp ps (Some k)) in
          (* its incoming edges now lead to the decision *)
          match fold_left (fun os p => match os with Some s' => add_exit f s' (fst p) (snd p) (DNode k) | None => None end)
                          ps (Some s2) with
          | None => None
          | Some s3 =>
            match nth_error (s_nodes s3) k with
            | Some n => match rn_dec n with
                        | Some d => Some (set_node s3 k (mkRNode [] (Some (noop_case no_args d c tgt)) DNone))
                        | None => None
                        end
            | None => None
            end
          end
        end
    | Some (GNoOp ps (Some k)) =>
      match nth_error (s_nodes s) k with
      | Some n =>
        match rn_dec n with
        | Some d =>
          Some (set_node s k (mkRNode [] (Some (noop_case no_args d c tgt)) DNone))
        | None => None
        end
      | None => None
      end
    end
  end.

Definition source_group (s : st) (e : redge) : option (option nat) :=
  match e_from e with
  | FStart => Some None
  | FBlank => Some (most_recent (s_stack s))      (* no preceding row: the edge has no source *)
  | FRow id => match alookup (s_rowmap s) id with Some g => Some (Some g) | None => None end
  end.

Definition fuel_of (s : st) : nat := S (S (length (s_groups s))).

Definition add_row_edge (s : st) (e : redge) (tgt : dest) : option st :=
  match source_group s e with
  | None => None                                    (* edge from a row that does not exist *)
  | Some None => Some s
  | Some (Some g) => add_exit (fuel_of s) s g (e_cond e) tgt
  end.

Fixpoint entry_node (fuel : nat) (s : st) (g : nat) : option nat :=
  match fuel with
  | O => None
  | S f =>
    match nth_error (s_groups s) g with
    | Some (GRow k _) => Some k
    | Some (GBlock (m :: _)) => entry_node f s m
    | _ => None                                     (* a no_op cannot be the target of a go_to *)
    end
  end.

Definition push_names (s : st) (name : str) (k : nat) : st :=
  match name with
  | [] => s
  | _ => mkSt (s_nodes s) (s_groups s) (s_rowmap s) ((name, k) :: s_names s) (s_stack s)
  end.

Definition alias_row (s : st) (rid : str) (g : nat) : st :=
  match rid with
  | [] => s
  | _ => mkSt (s_nodes s) (s_groups s) ((rid, g) :: s_rowmap s) (s_names s) (s_stack s)
  end.

(* the actions a row may add to an existing node of the same name: those of an action row *)
Definition merge_actions (cls : eclass) (actions : list sexp) : list sexp :=
  match cls with EAction => actions | _ => [] end.

Definition fold_edges (s : st) (es : list redge) (f : redge -> dest) : option st :=
  fold_left (fun os e => match os with Some s' => add_row_edge s' e (f e) | None => None end) es (Some s).

Definition step_row (s : st) (r : row) : option st :=
  match r_type r with
  | THard => fold_edges s (r_edges r) (fun _ => DHard)
  | TLoose => fold_edges s (r_edges r) (fun _ => DNone)
  | TGoto tgts =>
    let n := length (r_edges r) in
    let tgts' := match tgts with [t] => repeat t n | _ => tgts end in
    if negb (Nat.eqb (length tgts') n) then None
    else fold_left (fun os et =>
                      match os with
                      | None => None
                      | Some s' =>
                        match alookup (s_rowmap s') (snd et) with
                        | None => None
                        | Some g => match entry_node (fuel_of s') s' g with
                                    | Some k => add_row_edge s' (fst et) (DNode k)
                                    | None => None
                                    end
                        end
                      end) (combine (r_edges r) tgts') (Some s)
  | TNoOp =>
    (* remember the incoming edges (source group, condition); edges without a source are dropped *)
    match fold_left (fun acc e => match acc with
                                  | None => None
                                  | Some ps => match source_group s e with
                                               | None => None
                                               | Some None => Some ps
                                               | Some (Some g) => Some (ps ++ [(g, e_cond e)])
                                               end
                                  end) (r_edges r) (Some []) with
    | None => None
    | Some ps => Some (fst (add_group s (GNoOp ps None) (r_id r)))
    end
  | TBeginBlock =>
    (* the block head carries the incoming edges like a no_op (unless it is a starting row);
       its members are collected until the matching end *)
    let is_start := match r_edges r with [e] => match e_from e with FStart => true | _ => false end | _ => false end in
    let s0 := mkSt (s_nodes s) (s_groups s) (s_rowmap s) (s_names s) ([] :: s_stack s) in
    if is_start then Some s0
    else
      match fold_left (fun acc e => match acc with
                                    | None => None
                                    | Some ps => match source_group s e with
                                                 | None => None
                                                 | Some None => Some ps
                                                 | Some (Some g) => Some (ps ++ [(g, e_cond e)])
                                                 end
                                    end) (r_edges r) (Some []) with
      | None => None
      | Some ps => Some (fst (add_group s0 (GNoOp ps None) []))
      end
  | TEndBlock => None      (* handled by run_rows, which knows the row id of the head *)
  | TNode cls actions dec0 =>
    match r_node_name r, alookup (s_names s) (r_node_name r), merge_actions cls actions with
    | _ :: _, Some k, _ :: _ =>
      (* an ACTION row merged into an existing node through its node name: exactly one
         unconditional edge, coming from a row whose node is that node (a row that brings a decision
         of its own - a wait, a split, a sub-flow, a webhook - is a node of its own) *)
      match r_edges r with
      | [e] =>
        if negb (cond_blank (e_cond e)) then None
        else match source_group s e with
             | Some (Some g) =>
               match entry_node (fuel_of s) s g, nth_error (s_nodes s) k with
               | Some k', Some n =>
                 if Nat.eqb k k'
                 then Some (alias_row (set_node s k (mkRNode (rn_actions n ++ actions) (rn_dec n) (rn_cont n))) (r_id r) g)
                 else None
               | _, _ => None
               end
             | _ => None
             end
      | _ => None
      end
    | _, _, _ =>
      let (s1, k) := add_node s (mkRNode actions dec0 DNone) in
      (* (the edges of a row that was read with read_row are already free of padding: drop_padding is idempotent) *)
      let es := drop_padding (r_edges r) in
      match fold_edges s1 es (fun _ => DNode k) with
      | None => None
      | Some s2 =>
        let (s3, g) := add_group s2 (GRow k cls) (r_id r) in
        Some (push_names s3 (r_node_name r) k)
      end
    end
  end.
End Apply.

(* rows with block structure: begin_block pushes, end_block pops and registers the block
   under the head's row id *)
Fixpoint run_rows (no_args : str -> bool) (rows : list row) (s : st) (heads : list str) : option st :=
  match rows with
  | [] => match heads with [] => Some s | _ => None end       (* unterminated block *)
  | r :: rest =>
    match r_type r with
    | TEndBlock =>
      match heads, s_stack s with
      | h :: heads', members :: outer =>
        let s1 := mkSt (s_nodes s) (s_groups s) (s_rowmap s) (s_names s) outer in
        let (s2, g) := add_group s1 (GBlock members) h in
        run_rows no_args rest s2 heads'
      | _, _ => None
      end
    | TBeginBlock =>
      match step_row no_args s r with
      | Some s' => run_rows no_args rest s' (r_id r :: heads)
      | None => None
      end
    | _ =>
      match step_row no_args s r with
      | Some s' => run_rows no_args rest s' heads
      | None => None
      end
    end
  end.

(* ---------------------------------------------------------------- the reference flow *)
Definition nid (k : nat) : id := [1%N; N.of_nat k].
Definition xid (k j : nat) : id := [2%N; N.of_nat k; N.of_nat j].
Definition cid (k j : nat) : id := [3%N; N.of_nat k; N.of_nat j].
Definition kid (k j : nat) : id := [4%N; N.of_nat k; N.of_nat j].
Definition WILDS : str := [WILD].

Definition dest_id (d : dest) : option id := match d with DNode k => Some (nid k) | _ => None end.
Definition cname_str (c : cname) : str := match c with CFixed s => s | CWild => WILDS end.

Definition all_cats (d : rdec) : list (cname * dest) :=
  if rd_random d then rd_cats d
  else rd_cats d ++ [rd_default d] ++ match rd_noresp d with Some x => [x] | None => [] end.

Definition to_node (k : nat) (n : rnode) : node :=
  let acts := map (fun ip => ([5%N; N.of_nat k; N.of_nat (fst ip)], snd ip)) (number_from 0 (rn_actions n)) in
  match rn_dec n with
  | None => mkNode (nid k) acts [mkExit (xid k 0) (dest_id (rn_cont n))] None
  | Some d =>
    let cats := number_from 0 (all_cats d) in
    let exits := map (fun ic => mkExit (xid k (fst ic)) (dest_id (snd (snd ic)))) cats in
    let cs := map (fun ic => mkCat (cid k (fst ic)) (cname_str (fst (snd ic))) (xid k (fst ic))) cats in
    let r :=
        if rd_random d then RRandom cs (rd_result d)
        else
          let ncat := length (rd_cats d) in
          RSwitch (rd_operand d)
                  (map (fun ik => mkCase (kid k (fst ik)) (fst (fst (snd ik))) (snd (fst (snd ik))) (cid k (snd (snd ik))))
                       (number_from 0 (rd_cases d)))
                  cs (cid k ncat)
                  (match rd_wait d, rd_noresp d with
                   | WTimeout sec _, Some _ => WTimeout sec (cid k (S ncat))
                   | WTimeout _ _, None => WMsg
                   | w, _ => w
                   end)
                  (rd_result d) in
    mkNode (nid k) acts exits (Some r)
  end.

(* The nodes of the flow in SHEET order: the nodes of the row groups, block by block; the decision of a no_op stands
   where the no_op row stands (it may come into being rows later).  The flow starts at its first node: "from the
   first row on". *)
Fixpoint gnodes (fuel : nat) (gs : list group) (g : nat) : list nat :=
  match fuel with
  | O => []
  | S f =>
    match nth_error gs g with
    | Some (GRow k _) => [k]
    | Some (GNoOp _ (Some k)) => [k]
    | Some (GNoOp _ None) => []
    | Some (GBlock ms) => flat_map (gnodes f gs) ms
    | None => []
    end
  end.

Definition node_order (s : st) : list nat :=
  flat_map (gnodes (S (length (s_groups s))) (s_groups s)) (concat (s_stack s)).

Definition to_flow (s : st) : flow :=
  mkFlow [0%N] [] (flat_map (fun k => match nth_error (s_nodes s) k with Some n => [to_node k n] | None => [] end) (node_order s)).

(* the meaning of the rows AS READ (read_row: padding entries are not edges) *)
Definition rowsem_read (no_args : str -> bool) (rows : list row) : option flow :=
  match run_rows no_args rows st0 [] with
  | Some s => Some (to_flow s)
  | None => None
  end.

(* the meaning of a sheet: its rows are read, then applied in order *)
Definition rowsem (no_args : str -> bool) (rows : list row) : option flow :=
  match run_rows no_args (map read_row rows) st0 [] with
  | Some s => Some (to_flow s)
  | None => None
  end.
