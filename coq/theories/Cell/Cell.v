(* E1 — model of rpft/parsers/common/cellparser.py (CellParser), definitions only.
   Constants esc_char, sep0, sep1 and cleanse_tmp (the temporary character of cleanse, if the code
   has one) come from the regenerated Gen/Tables.v. *)
From Coq Require Import List NArith Bool.
From RPFT Require Import Base.Sexp Base.PyStr Gen.Tables.
Import ListNotations.
Local Open Scope N_scope.

Definition is_sep (c : char) : bool := (c =? sep0) || (c =? sep1).
Definition is_special (c : char) : bool := (c =? esc_char) || is_sep c.

(* CellParser.escape_string, as written: three successive str.replace calls *)
Definition escape_string (s : str) : str :=
  replace1 sep1 [esc_char; sep1]
    (replace1 sep0 [esc_char; sep0]
       (replace1 esc_char [esc_char; esc_char] s)).

(* the single-pass reading of it (EscapeFacts.escape_string_one_pass) *)
Fixpoint escape (s : str) : str :=
  match s with
  | [] => []
  | c :: r => if is_special c then esc_char :: c :: escape r else c :: escape r
  end.

(* CellParser.split_by_separator: the Python collects the positions of unescaped
   separators and slices; the model returns the slices directly.  segs never returns []. *)
Fixpoint segs (sep : char) (s : str) : list str :=
  match s with
  | [] => [[]]
  | c :: r =>
    if c =? esc_char then
      match r with
      | [] => [[c]]
      | d :: r' => match segs sep r' with
                   | [] => [[c; d]]
                   | h :: t => (c :: d :: h) :: t
                   end
      end
    else if c =? sep then [] :: segs sep r
    else match segs sep r with
         | [] => [[c]]
         | h :: t => (c :: h) :: t
         end
  end.

(* "Special case: last character is a separator. Here we don't put '' at the end" *)
Fixpoint drop_last_empty (l : list str) : list str :=
  match l with
  | [] => []
  | [x] => match x with [] => [] | _ => [x] end
  | x :: r => x :: drop_last_empty r
  end.

Inductive split_res := SStr (s : str) | SList (l : list str).

Definition split_by_separator (s : str) (sep : char) : split_res :=
  match segs sep s with
  | [_] => SStr s
  | l => SList (drop_last_empty l)
  end.

(* nested values: a string or a list *)
Inductive nv := Str (s : str) | Lst (l : list nv).

(* CellParser.cleanse on a string, as repaired: after strip, ONE left-to-right pass; a backslash
   followed by a backslash or a separator is dropped and the character it protects is copied
   verbatim, every other character is copied
       while pos < len(string):
           c = string[pos]
           if c == ESC and pos + 1 < len(string) and string[pos + 1] in [ESC] + SEPARATORS:
               pos += 1; c = string[pos]
           output.append(c); pos += 1                                                        *)
Fixpoint unescape (s : str) : str :=
  match s with
  | [] => []
  | c :: r =>
    match r with
    | [] => [c]
    | d :: r' => if (c =? esc_char) && is_special d then d :: unescape r' else c :: unescape r
    end
  end.

(* CellParser.cleanse on a string, as it was before the repair: four successive str.replace calls
   that park escaped backslashes in a temporary character t *)
Definition unescape_phases (t : char) (s : str) : str :=
  replace1 t [esc_char]
    (replace2 esc_char sep1 [sep1]
       (replace2 esc_char sep0 [sep0]
          (replace2 esc_char esc_char [t] s))).

(* which of the two the code has is read from the code on every run (Gen/Tables.v: cleanse_tmp =
   Some t when cleanse goes through a temporary character t, None when it does not) *)
Definition cleanse_str (s : str) : str :=
  match cleanse_tmp with
  | Some t => unescape_phases t (strip s)
  | None => unescape (strip s)
  end.

Fixpoint cleanse (v : nv) : nv :=
  match v with
  | Str s => Str (cleanse_str s)
  | Lst l => Lst (map cleanse l)
  end.

Definition split_res_to_nv (r : split_res) : nv :=
  match r with SStr s => Str s | SList l => Lst (map Str l) end.

Definition split_into_lists (s : str) : nv :=
  match split_by_separator s sep0 with
  | SStr _ => cleanse (split_res_to_nv (split_by_separator s sep1))
  | SList l1 => cleanse (Lst (map (fun x => split_res_to_nv (split_by_separator x sep1)) l1))
  end.

(* CellParser.join_from_lists on nested lists of strings.  None = the Python raises
   (CellParserError at depth 3, IndexError at depth 2). *)
Definition sep_at (depth : nat) : option char :=
  match depth with O => Some sep0 | 1%nat => Some sep1 | _ => None end.

(* one level of joining, on the texts of the elements:
       parts = [join_from_lists(e, depth + 1) for e in value]
       joined = SEPARATORS[depth].join(parts)
   a one-element list gets a trailing separator ("to distinguish 1-element lists from basic types").
   On the repaired tree (finding packed-model-blank-value-under-nonblank-default) so does a list whose last
   part is the empty text — the reader drops one empty element after a final separator, so `a;` reads as [a]
   and `a;;` as [a, ""] —: `if len(parts) == 1 or (parts and parts[-1] == "")`.  Whether the tree does is the
   PROBED constant join_keeps_blank_last (translator/tables_rowfix.py). *)
Definition ends_blank (ps : list str) : bool :=
  match ps with
  | [] => false
  | _ => match last ps [0] with [] => true | _ => false end
  end.

Definition join_parts (sep : char) (ps : list str) : str :=
  match ps with
  | [p] => p ++ [sep]
  | _ => if join_keeps_blank_last && ends_blank ps then join_char sep ps ++ [sep] else join_char sep ps
  end.

Fixpoint join_from_lists (depth : nat) (v : nv) : option str :=
  match v with
  | Str s => Some (escape_string s)
  | Lst l =>
    match sep_at depth with
    | None => None
    | Some sep =>
      let fix join_all (l : list nv) : option (list str) :=
        match l with
        | [] => Some []
        | x :: r => match join_from_lists (S depth) x, join_all r with
                    | Some a, Some t => Some (a :: t)
                    | _, _ => None
                    end
        end in
      match join_all l with
      | None => None
      | Some ps => Some (join_parts sep ps)
      end
    end
  end.

(* what the round trip promises: every string trimmed *)
Fixpoint trim (v : nv) : nv :=
  match v with
  | Str s => Str (strip s)
  | Lst l => Lst (map trim l)
  end.

(* ---- wire format ---- *)
Fixpoint enc_nv (v : nv) : sexp :=
  match v with
  | Str s => L [A 0; enc_str s]
  | Lst l => L [A 1; L (map enc_nv l)]
  end.

(* decoding with fuel = syntactic nesting; the harness never nests deeper than 8 *)
Fixpoint dec_nv (fuel : nat) (x : sexp) : option nv :=
  match fuel with
  | O => None
  | S f =>
    match x with
    | L [A 0; s] => match dec_str s with Some t => Some (Str t) | None => None end
    | L [A 1; L l] => match dec_list_aux (dec_nv f) l with
                      | Some vs => Some (Lst vs) | None => None end
    | _ => None
    end
  end.

Definition enc_split_res (r : split_res) : sexp :=
  match r with
  | SStr s => L [A 0; enc_str s]
  | SList l => L [A 1; L (map enc_str l)]
  end.
