(* E1 — facts about the cell codec model.  No axioms, structural inductions only. *)
From Coq Require Import List NArith Bool Lia Arith.
From RPFT Require Import Base.Sexp Base.PyStr Gen.Tables Cell.Cell.
Import ListNotations.
Local Open Scope N_scope.

(* ------------------------------------------------------------------ table facts *)
(* Everything the proofs need to know about the regenerated constants, decided by
   computation on what the code says now. *)
(* what the proofs need of a temporary character of cleanse, when the code has one *)
Definition tmp_ok (t : char) : bool :=
  negb (t =? esc_char) && negb (t =? sep0) && negb (t =? sep1).

Definition cell_tables_ok : bool :=
  negb (esc_char =? sep0) && negb (esc_char =? sep1) && negb (sep0 =? sep1)
  && negb (is_ws esc_char) && negb (is_ws sep0) && negb (is_ws sep1)
  && match cleanse_tmp with Some t => tmp_ok t && negb (is_ws t) | None => true end.

Lemma cell_tables_ok_true : cell_tables_ok = true.
Proof. vm_compute. reflexivity. Qed.

Ltac tab_facts :=
  pose proof cell_tables_ok_true as Htab; unfold cell_tables_ok in Htab;
  repeat (apply andb_true_iff in Htab; destruct Htab as [Htab ?]);
  repeat match goal with
         | H : negb _ = true |- _ => apply negb_true_iff in H
         end.

Lemma esc_ne_sep0 : (esc_char =? sep0) = false. Proof. tab_facts; assumption. Qed.
Lemma esc_ne_sep1 : (esc_char =? sep1) = false. Proof. tab_facts; assumption. Qed.
Lemma sep0_ne_sep1 : (sep0 =? sep1) = false. Proof. tab_facts; assumption. Qed.
Lemma ws_esc : is_ws esc_char = false. Proof. tab_facts; assumption. Qed.
Lemma ws_sep0 : is_ws sep0 = false. Proof. tab_facts; assumption. Qed.
Lemma ws_sep1 : is_ws sep1 = false. Proof. tab_facts; assumption. Qed.

Lemma cleanse_tmp_ok t : cleanse_tmp = Some t -> tmp_ok t = true /\ is_ws t = false.
Proof.
  intros E. pose proof cell_tables_ok_true as H. unfold cell_tables_ok in H. rewrite E in H.
  apply andb_true_iff in H as [_ H]. apply andb_true_iff in H as [H1 H2].
  apply negb_true_iff in H2. split; assumption.
Qed.

Lemma tmp_ok_inv t :
  tmp_ok t = true -> (t =? esc_char) = false /\ (t =? sep0) = false /\ (t =? sep1) = false.
Proof.
  unfold tmp_ok. intros H. apply andb_true_iff in H as [H H3]. apply andb_true_iff in H as [H1 H2].
  apply negb_true_iff in H1, H2, H3. repeat split; assumption.
Qed.

Lemma eqb_sym_false a b : (a =? b) = false -> (b =? a) = false.
Proof. rewrite N.eqb_sym. auto. Qed.

Lemma is_special_ws c : is_special c = true -> is_ws c = false.
Proof.
  unfold is_special, is_sep. intros H.
  apply orb_true_iff in H as [H|H].
  - apply N.eqb_eq in H. subst. apply ws_esc.
  - apply orb_true_iff in H as [H|H]; apply N.eqb_eq in H; subst; [apply ws_sep0|apply ws_sep1].
Qed.

(* ------------------------------------------------------------------ replace *)
Lemma replace1_app c n a b : replace1 c n (a ++ b) = replace1 c n a ++ replace1 c n b.
Proof.
  induction a as [|x a IH]; cbn [replace1 app]; [reflexivity|].
  destruct (x =? c); rewrite IH; [rewrite app_assoc|]; reflexivity.
Qed.

Lemma replace2_cons_ne (a b : char) (n : str) (c : char) (x : str) :
  (c =? a) = false -> replace2 a b n (c :: x) = c :: replace2 a b n x.
Proof.
  intros H. destruct x as [|d x]; cbn [replace2]; [reflexivity|].
  rewrite H. reflexivity.
Qed.

Lemma replace2_hit (a b : char) (n x : str) : replace2 a b n (a :: b :: x) = n ++ replace2 a b n x.
Proof. cbn [replace2]. rewrite !N.eqb_refl. reflexivity. Qed.

Lemma replace2_miss (a b : char) (n : str) (d : char) (x : str) :
  (d =? b) = false -> replace2 a b n (a :: d :: x) = a :: replace2 a b n (d :: x).
Proof. intros H. cbn [replace2]. rewrite H, andb_false_r. reflexivity. Qed.

(* ------------------------------------------------------------------ escape *)
Lemma replace1_cons c n x r :
  replace1 c n (x :: r) = (if x =? c then n else [x]) ++ replace1 c n r.
Proof. cbn [replace1]. destruct (x =? c); reflexivity. Qed.

Theorem escape_string_one_pass s : escape_string s = escape s.
Proof.
  unfold escape_string.
  induction s as [|c r IH]; [reflexivity|].
  rewrite replace1_cons, !replace1_app, IH. cbn [escape]. unfold is_special, is_sep.
  destruct (c =? esc_char) eqn:E1.
  - apply N.eqb_eq in E1. subst c. cbn [orb].
    repeat (cbn [replace1 app]; rewrite ?esc_ne_sep0, ?esc_ne_sep1). reflexivity.
  - cbn [orb]. destruct (c =? sep0) eqn:E2.
    + apply N.eqb_eq in E2. subst c. cbn [orb].
      repeat (cbn [replace1 app]; rewrite ?N.eqb_refl, ?esc_ne_sep1, ?sep0_ne_sep1). reflexivity.
    + cbn [orb]. destruct (c =? sep1) eqn:E3.
      * repeat (cbn [replace1 app]; rewrite ?E2, ?E3). apply N.eqb_eq in E3. subst c. reflexivity.
      * repeat (cbn [replace1 app]; rewrite ?E2, ?E3). reflexivity.
Qed.

Lemma escape_app a b : escape (a ++ b) = escape a ++ escape b.
Proof.
  induction a as [|c a IH]; cbn [escape app]; [reflexivity|].
  destruct (is_special c); rewrite IH; reflexivity.
Qed.

Lemma escape_nil_inv s : escape s = [] -> s = [].
Proof. destruct s as [|c r]; cbn [escape]; [auto|]. destruct (is_special c); discriminate. Qed.

(* ------------------------------------------------------------------ segs *)
Lemma segs_nonempty sep s : segs sep s <> [].
Proof.
  assert (H: forall (n:nat) s, (length s <= n)%nat -> segs sep s <> []).
  { induction n as [|n IH]; intros [|c r] Hl; cbn [segs]; try discriminate; cbn in Hl; try lia.
    destruct (c =? esc_char).
    - destruct r as [|d r']; [discriminate|]. destruct (segs sep r'); discriminate.
    - destruct (c =? sep); [discriminate|]. destruct (segs sep r); discriminate. }
  apply (H (length s)); apply le_n.
Qed.

(* a string that the scanner passes over as one block, whatever follows it *)
Definition closed (sep : char) (p : str) : Prop :=
  forall post, exists h t, segs sep post = h :: t /\ segs sep (p ++ post) = (p ++ h) :: t.

Lemma closed_nil sep : closed sep [].
Proof.
  intros post. destruct (segs sep post) as [|h t] eqn:E; [exfalso; eapply segs_nonempty; eauto|].
  exists h, t. split; [reflexivity|]. cbn [app]. exact E.
Qed.

Lemma closed_app sep p q : closed sep p -> closed sep q -> closed sep (p ++ q).
Proof.
  intros Hp Hq post. destruct (Hq post) as (h & t & E1 & E2).
  destruct (Hp (q ++ post)) as (h' & t' & E1' & E2').
  exists h, t. split; [exact E1|].
  rewrite <- app_assoc, E2'. rewrite E2 in E1'. injection E1' as <- <-.
  rewrite app_assoc. reflexivity.
Qed.

Lemma closed_plain sep c : (c =? esc_char) = false -> (c =? sep) = false -> closed sep [c].
Proof.
  intros H1 H2 post. destruct (segs sep post) as [|h t] eqn:E; [exfalso; eapply segs_nonempty; eauto|].
  exists h, t. split; [reflexivity|]. cbn [app segs]. rewrite H1, H2, E. reflexivity.
Qed.

Lemma closed_escaped sep c : closed sep [esc_char; c].
Proof.
  intros post. destruct (segs sep post) as [|h t] eqn:E; [exfalso; eapply segs_nonempty; eauto|].
  exists h, t. split; [reflexivity|]. cbn [app segs]. rewrite N.eqb_refl, E. reflexivity.
Qed.

Definition is_a_sep (sep : char) : Prop := sep = sep0 \/ sep = sep1.

Lemma closed_escape sep d : is_a_sep sep -> closed sep (escape d).
Proof.
  intros Hsep. induction d as [|c r IH]; cbn [escape]; [apply closed_nil|].
  destruct (is_special c) eqn:Ec.
  - change (esc_char :: c :: escape r) with ([esc_char; c] ++ escape r).
    apply closed_app; [apply closed_escaped|exact IH].
  - change (c :: escape r) with ([c] ++ escape r).
    apply closed_app; [|exact IH].
    unfold is_special, is_sep in Ec.
    apply orb_false_elim in Ec as [Ec1 Ec2]. apply orb_false_elim in Ec2 as [Ec2 Ec3].
    apply closed_plain; [exact Ec1|]. destruct Hsep; subst; assumption.
Qed.

Lemma closed_segs sep p : closed sep p -> segs sep p = [p].
Proof.
  intros H. destruct (H []) as (h & t & E1 & E2). cbn in E1. injection E1 as <- <-.
  rewrite !app_nil_r in E2. exact E2.
Qed.

Lemma segs_escape sep d : is_a_sep sep -> segs sep (escape d) = [escape d].
Proof. intros H. apply closed_segs, closed_escape, H. Qed.

Lemma is_a_sep_ne_esc sep : is_a_sep sep -> (sep =? esc_char) = false.
Proof. intros [->| ->]; apply eqb_sym_false; [apply esc_ne_sep0|apply esc_ne_sep1]. Qed.

(* joining closed blocks with the separator and scanning gives the blocks back *)
Lemma segs_join sep ps :
  is_a_sep sep -> ps <> [] -> Forall (closed sep) ps -> segs sep (join_char sep ps) = ps.
Proof.
  intros Hsep Hne Hall. induction ps as [|p r IH]; [congruence|].
  inversion Hall as [|? ? Hp Hr]; subst.
  destruct r as [|q r'].
  - cbn [join_char]. apply closed_segs, Hp.
  - change (join_char sep (p :: q :: r')) with (p ++ sep :: join_char sep (q :: r')).
    destruct (Hp (sep :: join_char sep (q :: r'))) as (h & t & E1 & E2).
    rewrite E2. cbn [segs] in E1. rewrite (is_a_sep_ne_esc _ Hsep), N.eqb_refl in E1.
    injection E1 as <- <-. rewrite app_nil_r. f_equal. apply IH; [discriminate|exact Hr].
Qed.

Lemma segs_trailing sep p : is_a_sep sep -> closed sep p -> segs sep (p ++ [sep]) = [p; []].
Proof.
  intros Hsep Hp. destruct (Hp [sep]) as (h & t & E1 & E2). rewrite E2.
  cbn [segs] in E1. rewrite (is_a_sep_ne_esc _ Hsep), N.eqb_refl in E1.
  injection E1 as <- <-. rewrite app_nil_r. reflexivity.
Qed.

Lemma drop_last_empty_id l : last l [0] <> [] -> drop_last_empty l = l.
Proof.
  induction l as [|x r IH]; [reflexivity|].
  destruct r as [|y r'].
  - cbn [last drop_last_empty]. destruct x; [congruence|reflexivity].
  - intros H. change (drop_last_empty (x :: y :: r')) with (x :: drop_last_empty (y :: r')).
    f_equal. apply IH. exact H.
Qed.

(* split_by_separator on joined blocks *)
Lemma split_join_many sep ps :
  is_a_sep sep -> Forall (closed sep) ps -> (2 <= length ps)%nat -> last ps [0] <> [] ->
  split_by_separator (join_char sep ps) sep = SList ps.
Proof.
  intros Hsep Hall Hlen Hlast. unfold split_by_separator.
  rewrite segs_join; [|exact Hsep|destruct ps; [cbn in Hlen; lia|discriminate]|exact Hall].
  destruct ps as [|p [|q r]]; cbn in Hlen; try lia.
  rewrite drop_last_empty_id; [reflexivity|exact Hlast].
Qed.

Lemma split_join_one sep p :
  is_a_sep sep -> closed sep p -> split_by_separator (p ++ [sep]) sep = SList [p].
Proof.
  intros Hsep Hp. unfold split_by_separator. rewrite segs_trailing by assumption.
  reflexivity.
Qed.

Lemma split_closed sep p : closed sep p -> split_by_separator p sep = SStr p.
Proof. intros H. unfold split_by_separator. rewrite (closed_segs _ _ H). reflexivity. Qed.

(* ------------------------------------------------------------------ strip *)
Lemma rstrip_cons_nonws c x : is_ws c = false -> rstrip (c :: x) = c :: rstrip x.
Proof. intros H. cbn [rstrip]. destruct (rstrip x); [rewrite H|]; reflexivity. Qed.

Lemma lstrip_escape s : lstrip (escape s) = escape (lstrip s).
Proof.
  induction s as [|c r IH]; [reflexivity|].
  cbn [escape lstrip]. destruct (is_special c) eqn:Es.
  - pose proof (is_special_ws _ Es) as Hw. cbn [lstrip]. rewrite ws_esc, Hw.
    cbn [escape]. rewrite Es. reflexivity.
  - cbn [lstrip]. destruct (is_ws c); [exact IH|]. cbn [escape]. rewrite Es. reflexivity.
Qed.

Lemma rstrip_escape s : rstrip (escape s) = escape (rstrip s).
Proof.
  induction s as [|c r IH]; [reflexivity|].
  cbn [escape]. destruct (is_special c) eqn:Es.
  - pose proof (is_special_ws _ Es) as Hw.
    rewrite rstrip_cons_nonws by apply ws_esc. rewrite !rstrip_cons_nonws by exact Hw.
    rewrite IH. cbn [escape]. rewrite Es. reflexivity.
  - cbn [rstrip]. rewrite IH. destruct (rstrip r) as [|y t] eqn:Er.
    + cbn [escape]. destruct (is_ws c); [reflexivity|]. cbn [escape]. rewrite Es. reflexivity.
    + destruct (escape (y :: t)) eqn:Ee; [apply escape_nil_inv in Ee; discriminate|].
      rewrite <- Ee. cbn [escape]. rewrite Es. reflexivity.
Qed.

Theorem strip_escape_commute s : strip (escape s) = escape (strip s).
Proof. unfold strip. rewrite lstrip_escape, rstrip_escape. reflexivity. Qed.

(* strip only removes characters *)
Lemma mem_lstrip c s : mem_char c (lstrip s) = true -> mem_char c s = true.
Proof.
  induction s as [|x r IH]; [auto|]. cbn [lstrip]. destruct (is_ws x); [|auto].
  intros H. cbn [mem_char]. rewrite (IH H). apply orb_true_r.
Qed.

Lemma mem_rstrip c s : mem_char c (rstrip s) = true -> mem_char c s = true.
Proof.
  induction s as [|x r IH]; [auto|]. cbn [rstrip]. destruct (rstrip r) as [|y t].
  - destruct (is_ws x); cbn [mem_char]; [discriminate|].
    intros H. rewrite orb_false_r in H. rewrite H. reflexivity.
  - cbn [mem_char] in *. intros H. apply orb_true_iff in H as [H|H].
    + rewrite H. reflexivity.
    + rewrite (IH H). apply orb_true_r.
Qed.

Lemma mem_strip_false t s : mem_char t s = false -> mem_char t (strip s) = false.
Proof.
  intros H. destruct (mem_char t (strip s)) eqn:E; [|reflexivity].
  unfold strip in E. apply mem_rstrip, mem_lstrip in E. congruence.
Qed.

(* ------------------------------------------------------------------ unescape *)
(* ---- the one-pass un-escape (the repaired cleanse) inverts escape on EVERY string ---- *)
Lemma unescape_cons_plain c r : (c =? esc_char) = false -> unescape (c :: r) = c :: unescape r.
Proof. intros H. destruct r as [|d r']; cbn [unescape]; [reflexivity|]. rewrite H. reflexivity. Qed.

Lemma unescape_escaped d r : is_special d = true -> unescape (esc_char :: d :: r) = d :: unescape r.
Proof. intros H. cbn [unescape]. rewrite N.eqb_refl, H. reflexivity. Qed.

Lemma unescape_esc_other d r :
  is_special d = false -> unescape (esc_char :: d :: r) = esc_char :: d :: unescape r.
Proof.
  intros H. change (unescape (esc_char :: d :: r)) with
    (if (esc_char =? esc_char) && is_special d then d :: unescape r else esc_char :: unescape (d :: r)).
  rewrite H, andb_false_r. rewrite unescape_cons_plain; [reflexivity|].
  unfold is_special in H. apply orb_false_elim in H as [H _]. exact H.
Qed.

Theorem unescape_escape s : unescape (escape s) = s.
Proof.
  induction s as [|c r IH]; [reflexivity|].
  cbn [escape]. destruct (is_special c) eqn:Es.
  - rewrite unescape_escaped by exact Es. rewrite IH. reflexivity.
  - unfold is_special in Es. apply orb_false_elim in Es as [Es _].
    rewrite unescape_cons_plain by exact Es. rewrite IH. reflexivity.
Qed.

(* ---- the four replace phases through a temporary character t (cleanse before the repair)
        compute the same function on every string that does not contain t ---- *)
Section Phases.
  Variable t : char.
  Hypothesis Hok : tmp_ok t = true.

  Let Te : (t =? esc_char) = false. Proof. apply (tmp_ok_inv t Hok). Qed.
  Let T0 : (t =? sep0) = false. Proof. apply (tmp_ok_inv t Hok). Qed.
  Let T1 : (t =? sep1) = false. Proof. apply (tmp_ok_inv t Hok). Qed.

  Lemma phases_nil : unescape_phases t [] = [].
  Proof. reflexivity. Qed.

  Lemma phases_single_esc : unescape_phases t [esc_char] = [esc_char].
  Proof.
    unfold unescape_phases. cbn [replace2 replace1].
    rewrite (eqb_sym_false _ _ Te). reflexivity.
  Qed.

  Lemma phases_cons_plain (c : char) (x : str) :
    (c =? esc_char) = false -> (c =? t) = false ->
    unescape_phases t (c :: x) = c :: unescape_phases t x.
  Proof.
    intros Hc Ht. unfold unescape_phases.
    rewrite (replace2_cons_ne esc_char esc_char [t] c x) by exact Hc.
    rewrite (replace2_cons_ne esc_char sep0 [sep0] c) by exact Hc.
    rewrite (replace2_cons_ne esc_char sep1 [sep1] c) by exact Hc.
    cbn [replace1]. rewrite Ht. reflexivity.
  Qed.

  Lemma phases_esc_esc (x : str) : unescape_phases t (esc_char :: esc_char :: x) = esc_char :: unescape_phases t x.
  Proof.
    unfold unescape_phases. rewrite (replace2_hit esc_char esc_char [t] x). cbn [app].
    rewrite (replace2_cons_ne esc_char sep0 [sep0] t) by exact Te.
    rewrite (replace2_cons_ne esc_char sep1 [sep1] t) by exact Te.
    cbn [replace1]. rewrite N.eqb_refl. reflexivity.
  Qed.

  Lemma phases_esc_sep0 (x : str) : unescape_phases t (esc_char :: sep0 :: x) = sep0 :: unescape_phases t x.
  Proof.
    pose proof (eqb_sym_false _ _ esc_ne_sep0) as S0e.
    unfold unescape_phases.
    rewrite (replace2_miss esc_char esc_char [t] sep0 x) by exact S0e.
    rewrite (replace2_cons_ne esc_char esc_char [t] sep0 x) by exact S0e.
    rewrite (replace2_hit esc_char sep0 [sep0]). cbn [app].
    rewrite (replace2_cons_ne esc_char sep1 [sep1] sep0) by exact S0e.
    cbn [replace1]. rewrite (eqb_sym_false _ _ T0). reflexivity.
  Qed.

  Lemma phases_esc_sep1 (x : str) : unescape_phases t (esc_char :: sep1 :: x) = sep1 :: unescape_phases t x.
  Proof.
    pose proof (eqb_sym_false _ _ esc_ne_sep1) as S1e.
    pose proof (eqb_sym_false _ _ sep0_ne_sep1) as S10.
    unfold unescape_phases.
    rewrite (replace2_miss esc_char esc_char [t] sep1 x) by exact S1e.
    rewrite (replace2_cons_ne esc_char esc_char [t] sep1 x) by exact S1e.
    rewrite (replace2_miss esc_char sep0 [sep0] sep1) by exact S10.
    rewrite (replace2_cons_ne esc_char sep0 [sep0] sep1) by exact S1e.
    rewrite (replace2_hit esc_char sep1 [sep1]). cbn [app].
    cbn [replace1]. rewrite (eqb_sym_false _ _ T1). reflexivity.
  Qed.

  Lemma phases_esc_other (d : char) (x : str) :
    is_special d = false -> (d =? t) = false ->
    unescape_phases t (esc_char :: d :: x) = esc_char :: d :: unescape_phases t x.
  Proof.
    intros Hd Ht. unfold is_special, is_sep in Hd.
    apply orb_false_elim in Hd as [De Hd]. apply orb_false_elim in Hd as [D0 D1].
    unfold unescape_phases.
    rewrite (replace2_miss esc_char esc_char [t] d x) by exact De.
    rewrite (replace2_cons_ne esc_char esc_char [t] d x) by exact De.
    rewrite (replace2_miss esc_char sep0 [sep0] d) by exact D0.
    rewrite (replace2_cons_ne esc_char sep0 [sep0] d) by exact De.
    rewrite (replace2_miss esc_char sep1 [sep1] d) by exact D1.
    rewrite (replace2_cons_ne esc_char sep1 [sep1] d) by exact De.
    cbn [replace1]. rewrite (eqb_sym_false _ _ Te), Ht. reflexivity.
  Qed.

  (* the repair does not change the result for any string without the temporary character *)
  Theorem phases_one_pass s : mem_char t s = false -> unescape_phases t s = unescape s.
  Proof.
    assert (H : forall (n : nat) s, (length s <= n)%nat -> mem_char t s = false ->
                                    unescape_phases t s = unescape s).
    { induction n as [|n IH]; intros [|c r] Hl Hm; try reflexivity; cbn [length] in Hl; try lia.
      cbn [mem_char] in Hm. apply orb_false_elim in Hm as [Hc Hr].
      destruct (c =? esc_char) eqn:Ec.
      - apply N.eqb_eq in Ec. subst c.
        destruct r as [|d r']; [rewrite phases_single_esc; reflexivity|].
        cbn [mem_char] in Hr. apply orb_false_elim in Hr as [Hd Hr'].
        cbn [length] in Hl.
        assert (IHr : unescape_phases t r' = unescape r') by (apply IH; [lia|exact Hr']).
        destruct (is_special d) eqn:Ed.
        + rewrite unescape_escaped by exact Ed. rewrite <- IHr.
          unfold is_special, is_sep in Ed.
          destruct (d =? esc_char) eqn:D1; [apply N.eqb_eq in D1; subst d; apply phases_esc_esc|].
          destruct (d =? sep0) eqn:D2; [apply N.eqb_eq in D2; subst d; apply phases_esc_sep0|].
          destruct (d =? sep1) eqn:D3; [apply N.eqb_eq in D3; subst d; apply phases_esc_sep1|].
          discriminate.
        + rewrite unescape_esc_other by exact Ed. rewrite <- IHr.
          apply phases_esc_other; assumption.
      - rewrite phases_cons_plain by assumption. rewrite unescape_cons_plain by exact Ec.
        f_equal. apply IH; [lia|exact Hr]. }
    apply (H (length s)). apply le_n.
  Qed.

  (* ... and DOES change it for the temporary character itself: it comes back as the escape character *)
  Lemma phases_eat_tmp : unescape_phases t [t] = [esc_char].
  Proof. unfold unescape_phases. cbn [replace2 replace1]. rewrite N.eqb_refl. reflexivity. Qed.

  Lemma escape_tmp : escape [t] = [t].
  Proof. cbn [escape]. unfold is_special, is_sep. rewrite Te, T0, T1. reflexivity. Qed.

  Lemma mem_char_escape s : mem_char t (escape s) = mem_char t s.
  Proof.
    induction s as [|c r IH]; [reflexivity|].
    cbn [escape]. destruct (is_special c); cbn [mem_char]; rewrite IH;
      [rewrite (eqb_sym_false _ _ Te)|]; reflexivity.
  Qed.
End Phases.

(* the strings the code as coded can carry: all of them when cleanse has no temporary character *)
Definition str_ok (s : str) : bool :=
  match cleanse_tmp with Some t => negb (mem_char t s) | None => true end.

Lemma str_ok_total : cleanse_tmp = None -> forall s, str_ok s = true.
Proof. intros E s. unfold str_ok. rewrite E. reflexivity. Qed.

Theorem cleanse_escape s : str_ok s = true -> cleanse_str (escape s) = strip s.
Proof.
  unfold str_ok, cleanse_str. rewrite strip_escape_commute.
  destruct cleanse_tmp as [t|] eqn:Et.
  - intros H. apply negb_true_iff in H. destruct (cleanse_tmp_ok t Et) as [Hok _].
    rewrite (phases_one_pass t Hok).
    + apply unescape_escape.
    + rewrite (mem_char_escape t Hok). apply mem_strip_false, H.
  - intros _. apply unescape_escape.
Qed.

(* when the code HAS a temporary character t (the U+0001 defect), the value [t] does not survive *)
Lemma strip_single c : is_ws c = false -> strip [c] = [c].
Proof. intros H. unfold strip. cbn [lstrip]. rewrite H. cbn [rstrip]. rewrite H. reflexivity. Qed.

Theorem tmp_char_lost t : cleanse_tmp = Some t -> cleanse_str (escape [t]) <> strip [t].
Proof.
  intros Et. destruct (cleanse_tmp_ok t Et) as [Hok Hws].
  unfold cleanse_str. rewrite Et, (escape_tmp t Hok), (strip_single t Hws), (phases_eat_tmp t).
  intros E. injection E as E. destruct (tmp_ok_inv t Hok) as (Te & _).
  rewrite E, N.eqb_refl in Te. discriminate.
Qed.

(* ------------------------------------------------------------------ round trips *)
Lemma split_escape s : split_into_lists (escape s) = Str (cleanse_str (escape s)).
Proof.
  unfold split_into_lists.
  rewrite (split_closed sep0) by (apply closed_escape; left; reflexivity).
  rewrite (split_closed sep1) by (apply closed_escape; right; reflexivity).
  reflexivity.
Qed.

Theorem string_roundtrip s :
  str_ok s = true ->
  join_from_lists 0 (Str s) = Some (escape s) /\ split_into_lists (escape s) = Str (strip s).
Proof.
  intros H. split.
  - cbn [join_from_lists]. rewrite escape_string_one_pass. reflexivity.
  - rewrite split_escape, cleanse_escape by exact H. reflexivity.
Qed.

(* ---- one level of joining, over plain lists of blocks ---- *)
Definition joinP (sep : char) (ps : list str) : str :=
  match ps with [p] => p ++ [sep] | _ => join_char sep ps end.

Definition lastne (ps : list str) : Prop := (2 <= length ps)%nat -> last ps [0] <> [].

Lemma split_joinP sep ps :
  is_a_sep sep -> ps <> [] -> Forall (closed sep) ps -> lastne ps ->
  split_by_separator (joinP sep ps) sep = SList ps.
Proof.
  intros Hsep Hne Hall Hlast. destruct ps as [|p [|q r]]; [congruence| |].
  - cbn [joinP]. inversion Hall; subst. apply split_join_one; assumption.
  - unfold joinP. apply split_join_many; [assumption|assumption|cbn; lia|apply Hlast; cbn; lia].
Qed.

Lemma joinP_nonempty sep ps : ps <> [] -> joinP sep ps <> [].
Proof.
  destruct ps as [|p [|q r]]; [congruence| |]; intros _.
  - cbn [joinP]. destruct p; discriminate.
  - unfold joinP. change (join_char sep (p :: q :: r)) with (p ++ sep :: join_char sep (q :: r)).
    destruct p; discriminate.
Qed.

Lemma closed_join_char sep sep' ps :
  (sep' =? esc_char) = false -> (sep' =? sep) = false ->
  Forall (closed sep) ps -> closed sep (join_char sep' ps).
Proof.
  intros H1 H2 Hall. induction ps as [|p r IH]; [apply closed_nil|].
  inversion Hall; subst. destruct r as [|q r'].
  - cbn [join_char]. assumption.
  - change (join_char sep' (p :: q :: r')) with (p ++ ([sep'] ++ join_char sep' (q :: r'))).
    apply closed_app; [assumption|]. apply closed_app; [apply closed_plain; assumption|].
    apply IH. assumption.
Qed.

Lemma closed_joinP sep sep' ps :
  (sep' =? esc_char) = false -> (sep' =? sep) = false ->
  Forall (closed sep) ps -> closed sep (joinP sep' ps).
Proof.
  intros H1 H2 Hall. destruct ps as [|p [|q r]].
  - apply closed_nil.
  - cbn [joinP]. inversion Hall; subst. apply closed_app; [assumption|apply closed_plain; assumption].
  - unfold joinP. apply closed_join_char; assumption.
Qed.

Lemma Forall_closed_escape sep ss : is_a_sep sep -> Forall (closed sep) (map escape ss).
Proof. intros H. induction ss; constructor; [apply closed_escape, H|assumption]. Qed.

Lemma last_map {X Y} (f : X -> Y) l d : last (map f l) (f d) = f (last l d).
Proof.
  induction l as [|x r IH]; [reflexivity|]. destruct r as [|y r']; [reflexivity|].
  change (last (map f (x :: y :: r')) (f d)) with (last (map f (y :: r')) (f d)).
  rewrite IH. reflexivity.
Qed.

Lemma last_indep {X} (l : list X) d d' : l <> [] -> last l d = last l d'.
Proof.
  induction l as [|x r IH]; [congruence|]. intros _. destruct r; [reflexivity|].
  apply IH. discriminate.
Qed.

Lemma lastne_escape ss : lastne ss -> lastne (map escape ss).
Proof.
  unfold lastne. rewrite map_length. intros H Hl. specialize (H Hl).
  assert (Hne : map escape ss <> []) by (destruct ss; [cbn in Hl; lia|discriminate]).
  rewrite (last_indep _ [0] (escape [0])) by exact Hne. rewrite last_map.
  intros E. apply escape_nil_inv in E. contradiction.
Qed.

(* ---- join_parts (the code's one level of joining, Cell.v) against joinP ---- *)
(* the two behaviours of join_parts, the probed constant named explicitly *)
Definition join_parts_on (sep : char) (ps : list str) : str :=
  match ps with
  | [p] => p ++ [sep]
  | _ => if ends_blank ps then join_char sep ps ++ [sep] else join_char sep ps
  end.

Lemma join_parts_off_eq sep ps : join_keeps_blank_last = false -> join_parts sep ps = joinP sep ps.
Proof. intros E. unfold join_parts, joinP. rewrite E. reflexivity. Qed.

Lemma join_parts_on_eq sep ps : join_keeps_blank_last = true -> join_parts sep ps = join_parts_on sep ps.
Proof. intros E. unfold join_parts, join_parts_on. rewrite E. reflexivity. Qed.

Lemma ends_blank_lastne ps : (2 <= length ps)%nat -> lastne ps -> ends_blank ps = false.
Proof.
  intros Hl H. specialize (H Hl). destruct ps as [|p r]; [reflexivity|]. unfold ends_blank.
  destruct (last (p :: r) [0]); [congruence|reflexivity].
Qed.

(* a list that does not end in the empty text is joined the same way on either tree *)
Lemma join_parts_lastne sep ps : lastne ps -> join_parts sep ps = joinP sep ps.
Proof.
  intros H. destruct ps as [|p [|q r]]; [| reflexivity |].
  - unfold join_parts, joinP. cbn [ends_blank]. rewrite andb_false_r. reflexivity.
  - unfold join_parts, joinP. rewrite (ends_blank_lastne (p :: q :: r)); [|cbn; lia|exact H].
    rewrite andb_false_r. reflexivity.
Qed.

(* the text with a trailing separator: every block comes back, the last one included even when empty *)
Lemma join_char_cons2 sep p r : r <> [] -> join_char sep (p :: r) = p ++ sep :: join_char sep r.
Proof. destruct r; [congruence|reflexivity]. Qed.

Lemma join_char_snoc sep ps : ps <> [] -> join_char sep ps ++ [sep] = join_char sep (ps ++ [[]]).
Proof.
  induction ps as [|p r IH]; [congruence|]. intros _. destruct r as [|q r'].
  - reflexivity.
  - rewrite join_char_cons2 by discriminate.
    change ((p :: q :: r') ++ [[]]) with (p :: ((q :: r') ++ [[]])).
    rewrite (join_char_cons2 sep p ((q :: r') ++ [[]])) by discriminate.
    rewrite <- IH by discriminate. rewrite <- app_assoc. reflexivity.
Qed.

Lemma drop_last_empty_cons2 x r : r <> [] -> drop_last_empty (x :: r) = x :: drop_last_empty r.
Proof. destruct r; [congruence|reflexivity]. Qed.

Lemma drop_last_empty_snoc l : l <> [] -> drop_last_empty (l ++ [[]]) = l.
Proof.
  induction l as [|x r IH]; [congruence|]. intros _. destruct r as [|y r'].
  - reflexivity.
  - specialize (IH ltac:(discriminate)). cbn [app] in IH |- *.
    change (drop_last_empty (x :: y :: r' ++ [[]])) with (x :: drop_last_empty (y :: r' ++ [[]])).
    rewrite IH. reflexivity.
Qed.

Lemma split_join_trailing sep ps :
  is_a_sep sep -> ps <> [] -> Forall (closed sep) ps ->
  split_by_separator (join_char sep ps ++ [sep]) sep = SList ps.
Proof.
  intros Hsep Hne Hall. unfold split_by_separator. rewrite join_char_snoc by exact Hne.
  rewrite segs_join; [|exact Hsep|destruct ps; discriminate|].
  2:{ apply Forall_app. split; [exact Hall|]. constructor; [apply closed_nil|constructor]. }
  destruct ps as [|p r]; [congruence|].
  assert (E : exists a b, r ++ [[]] = a :: b) by (destruct r; eexists; eexists; reflexivity).
  destruct E as (a & b & E). cbn [app]. rewrite E.
  change (SList (drop_last_empty (p :: a :: b)) = SList (p :: r)). rewrite <- E.
  change (p :: r ++ [[]]) with ((p :: r) ++ [[]]). rewrite drop_last_empty_snoc by discriminate. reflexivity.
Qed.

(* repaired tree: every non-empty list of closed blocks comes back, whatever its last block is *)
Lemma split_join_parts sep ps :
  join_keeps_blank_last = true ->
  is_a_sep sep -> ps <> [] -> Forall (closed sep) ps ->
  split_by_separator (join_parts sep ps) sep = SList ps.
Proof.
  intros E Hsep Hne Hall. rewrite (join_parts_on_eq _ _ E).
  destruct ps as [|p [|q r]]; [congruence| |].
  - cbn [join_parts_on]. inversion Hall; subst. apply split_join_one; assumption.
  - unfold join_parts_on. destruct (ends_blank (p :: q :: r)) eqn:Eb.
    + apply split_join_trailing; assumption.
    + apply split_join_many; [assumption|assumption|cbn; lia|].
      unfold ends_blank in Eb. destruct (last (p :: q :: r) [0]); [discriminate|discriminate].
Qed.

Lemma join_parts_nonempty sep ps : ps <> [] -> join_parts sep ps <> [].
Proof.
  destruct ps as [|p [|q r]]; [congruence| |]; intros _.
  - cbn [join_parts]. destruct p; discriminate.
  - unfold join_parts. change (join_char sep (p :: q :: r)) with (p ++ sep :: join_char sep (q :: r)).
    destruct (join_keeps_blank_last && ends_blank (p :: q :: r)); destruct p; discriminate.
Qed.

Lemma closed_join_parts sep sep' ps :
  (sep' =? esc_char) = false -> (sep' =? sep) = false ->
  Forall (closed sep) ps -> closed sep (join_parts sep' ps).
Proof.
  intros H1 H2 Hall. destruct ps as [|p [|q r]].
  - unfold join_parts. cbn [ends_blank]. rewrite andb_false_r. apply closed_nil.
  - cbn [join_parts]. inversion Hall; subst. apply closed_app; [assumption|apply closed_plain; assumption].
  - unfold join_parts. destruct (join_keeps_blank_last && ends_blank (p :: q :: r)).
    + apply closed_app; [apply closed_join_char; assumption|apply closed_plain; assumption].
    + apply closed_join_char; assumption.
Qed.

(* ---- the values of depth <= 2, typed ---- *)
Inductive elem := EStr (s : str) | ELst (ss : list str).
Definition elem_nv (e : elem) : nv :=
  match e with EStr s => Str s | ELst ss => Lst (map Str ss) end.
Definition piece (e : elem) : str :=
  match e with EStr s => escape s | ELst ss => joinP sep1 (map escape ss) end.

Definition tmp_free (s : str) : Prop := str_ok s = true.
Definition elem_wf (e : elem) : Prop :=
  match e with
  | EStr s => tmp_free s
  | ELst ss => ss <> [] /\ lastne ss /\ Forall tmp_free ss
  end.

Lemma join_all_strs d ss :
  (fix join_all (l : list nv) : option (list str) :=
     match l with
     | [] => Some []
     | x :: r => match join_from_lists d x, join_all r with
                 | Some a, Some t => Some (a :: t)
                 | _, _ => None
                 end
     end) (map Str ss) = Some (map escape ss).
Proof.
  induction ss as [|s r IH]; [reflexivity|].
  cbn [map]. rewrite IH. cbn [join_from_lists]. rewrite escape_string_one_pass. reflexivity.
Qed.

Lemma join_strs_parts d sep ss :
  sep_at d = Some sep -> join_from_lists d (Lst (map Str ss)) = Some (join_parts sep (map escape ss)).
Proof. intros H. cbn [join_from_lists]. rewrite H, join_all_strs. reflexivity. Qed.

Lemma join_strs d sep ss :
  sep_at d = Some sep -> lastne ss -> join_from_lists d (Lst (map Str ss)) = Some (joinP sep (map escape ss)).
Proof.
  intros H Hl. rewrite (join_strs_parts d sep ss H). rewrite join_parts_lastne; [reflexivity|apply lastne_escape, Hl].
Qed.

(* the text the code writes for an element, on the tree at hand *)
Definition pieceJ (e : elem) : str :=
  match e with EStr s => escape s | ELst ss => join_parts sep1 (map escape ss) end.

Lemma pieceJ_piece e : elem_wf e -> pieceJ e = piece e.
Proof.
  destruct e as [s|ss]; cbn [elem_wf pieceJ piece]; [reflexivity|].
  intros (_ & Hl & _). apply join_parts_lastne, lastne_escape, Hl.
Qed.

Lemma join_elemJ e : join_from_lists 1 (elem_nv e) = Some (pieceJ e).
Proof.
  destruct e as [s|ss]; cbn [elem_nv pieceJ].
  - cbn [join_from_lists]. rewrite escape_string_one_pass. reflexivity.
  - apply join_strs_parts. reflexivity.
Qed.

Lemma join_elem e : elem_wf e -> join_from_lists 1 (elem_nv e) = Some (piece e).
Proof. intros H. rewrite join_elemJ, (pieceJ_piece e H). reflexivity. Qed.

Lemma join_all_elemsJ es :
  (fix join_all (l : list nv) : option (list str) :=
     match l with
     | [] => Some []
     | x :: r => match join_from_lists 1 x, join_all r with
                 | Some a, Some t => Some (a :: t)
                 | _, _ => None
                 end
     end) (map elem_nv es) = Some (map pieceJ es).
Proof.
  induction es as [|e r IH]; [reflexivity|].
  cbn [map]. rewrite IH, join_elemJ. reflexivity.
Qed.

Lemma join_elemsJ es :
  join_from_lists 0 (Lst (map elem_nv es)) = Some (join_parts sep0 (map pieceJ es)).
Proof. cbn [join_from_lists sep_at]. rewrite join_all_elemsJ. reflexivity. Qed.

Lemma map_pieceJ_piece es : Forall elem_wf es -> map pieceJ es = map piece es.
Proof.
  induction 1 as [|e r He Hr IH]; [reflexivity|]. cbn [map]. rewrite IH, (pieceJ_piece e He). reflexivity.
Qed.

Lemma piece_closed e : closed sep0 (piece e).
Proof.
  destruct e as [s|ss]; cbn [piece].
  - apply closed_escape. left. reflexivity.
  - apply closed_joinP.
    + apply eqb_sym_false, esc_ne_sep1.
    + rewrite N.eqb_sym. apply sep0_ne_sep1.
    + apply Forall_closed_escape. left. reflexivity.
Qed.

Lemma map_cleanse_strs ss :
  Forall tmp_free ss -> map cleanse (map Str (map escape ss)) = map trim (map Str ss).
Proof.
  induction 1 as [|s r Hs Hr IH]; [reflexivity|].
  cbn [map cleanse trim]. rewrite IH, cleanse_escape by exact Hs. reflexivity.
Qed.

Lemma piece_parses e :
  elem_wf e ->
  cleanse (split_res_to_nv (split_by_separator (piece e) sep1)) = trim (elem_nv e).
Proof.
  destruct e as [s|ss]; cbn [elem_wf piece elem_nv].
  - intros H. rewrite split_closed by (apply closed_escape; right; reflexivity).
    cbn [split_res_to_nv cleanse trim]. rewrite cleanse_escape by exact H. reflexivity.
  - intros (Hne & Hlast & Hall).
    rewrite split_joinP.
    + cbn [split_res_to_nv cleanse trim]. rewrite map_cleanse_strs by exact Hall. reflexivity.
    + right. reflexivity.
    + destruct ss; [congruence|discriminate].
    + apply Forall_closed_escape. right. reflexivity.
    + apply lastne_escape, Hlast.
Qed.

Definition outer_lastne (es : list elem) : Prop :=
  (2 <= length es)%nat -> last es (ELst []) <> EStr [].

Lemma piece_nil_inv e : elem_wf e -> piece e = [] -> e = EStr [].
Proof.
  destruct e as [s|ss]; cbn [piece elem_wf].
  - intros _ E. apply escape_nil_inv in E. subst. reflexivity.
  - intros (Hne & _) E. exfalso. eapply joinP_nonempty; [|exact E].
    destruct ss; [congruence|discriminate].
Qed.

Lemma outer_lastne_piece es : Forall elem_wf es -> outer_lastne es -> lastne (map piece es).
Proof.
  unfold outer_lastne, lastne. rewrite map_length. intros Hall H Hl. specialize (H Hl).
  assert (Hne : es <> []) by (destruct es; [cbn in Hl; lia|discriminate]).
  assert (Hne' : map piece es <> []) by (destruct es; [congruence|discriminate]).
  rewrite (last_indep _ [0] (piece (ELst []))) by exact Hne'. rewrite last_map.
  intros E. apply H. apply piece_nil_inv; [|exact E].
  rewrite Forall_forall in Hall. apply Hall.
  clear -Hne. generalize (ELst []). induction es as [|x r IH]; [congruence|].
  intros d. destruct r as [|y r']; [left; reflexivity|]. right. apply IH. discriminate.
Qed.

Lemma join_elems es :
  Forall elem_wf es -> outer_lastne es ->
  join_from_lists 0 (Lst (map elem_nv es)) = Some (joinP sep0 (map piece es)).
Proof.
  intros Hall Hl. rewrite join_elemsJ, (map_pieceJ_piece es Hall).
  rewrite join_parts_lastne; [reflexivity|apply outer_lastne_piece; assumption].
Qed.

Theorem elems_roundtrip es :
  es <> [] -> outer_lastne es -> Forall elem_wf es ->
  join_from_lists 0 (Lst (map elem_nv es)) = Some (joinP sep0 (map piece es)) /\
  split_into_lists (joinP sep0 (map piece es)) = trim (Lst (map elem_nv es)).
Proof.
  intros Hne Hlast Hall. split; [apply join_elems; assumption|].
  unfold split_into_lists. rewrite split_joinP.
  - cbn [cleanse trim]. f_equal. rewrite !map_map.
    apply map_ext_in. intros e Hin. apply piece_parses.
    rewrite Forall_forall in Hall. apply Hall, Hin.
  - left. reflexivity.
  - destruct es; [congruence|discriminate].
  - clear. induction es; constructor; [apply piece_closed|assumption].
  - apply outer_lastne_piece; assumption.
Qed.

(* ---- the same, for untyped nested values and a boolean predicate the harness runs ---- *)
Definition nonblank (v : nv) : bool := match v with Str [] => false | _ => true end.
Definition is_nil {X} (l : list X) : bool := match l with [] => true | _ => false end.
Definition last_ok (l : list nv) : bool :=
  match l with
  | _ :: _ :: _ => nonblank (last l (Lst []))
  | _ => true
  end.
Definition leaf_ok (v : nv) : bool := match v with Str s => str_ok s | Lst _ => false end.
Definition elem_ok (v : nv) : bool :=
  match v with
  | Str s => str_ok s
  | Lst l => negb (is_nil l) && last_ok l && forallb leaf_ok l
  end.
(* wfb: depth <= 2, lists non-empty, a list of two or more elements does not end in the
   empty string, and - only while cleanse goes through a temporary character - no string contains it
   (str_ok; constantly true when the code has no temporary character) *)
Definition wfb (v : nv) : bool :=
  match v with
  | Str s => str_ok s
  | Lst l => negb (is_nil l) && last_ok l && forallb elem_ok l
  end.

Definition leaf_str (v : nv) : str := match v with Str s => s | Lst _ => [] end.
Definition to_elem (v : nv) : elem :=
  match v with Str s => EStr s | Lst l => ELst (map leaf_str l) end.

Lemma leaves_inv l : forallb leaf_ok l = true -> map Str (map leaf_str l) = l /\ Forall tmp_free (map leaf_str l).
Proof.
  induction l as [|x r IH]; [split; [reflexivity|constructor]|].
  cbn [forallb]. intros H. apply andb_true_iff in H as [Hx Hr].
  destruct (IH Hr) as [E F]. destruct x as [s|]; [|discriminate].
  cbn [map leaf_str]. rewrite E. split; [reflexivity|]. constructor; [|exact F].
  cbn [leaf_ok] in Hx. exact Hx.
Qed.

Lemma last_In {X} (l : list X) d : l <> [] -> In (last l d) l.
Proof.
  induction l as [|a l2 IH]; [congruence|]. intros _. destruct l2 as [|b l3]; [left; reflexivity|].
  right. apply IH. discriminate.
Qed.

Lemma last_ok_leaves l :
  forallb leaf_ok l = true -> last_ok l = true -> lastne (map leaf_str l).
Proof.
  intros Hl Hlast. unfold lastne. rewrite map_length. intros Hlen.
  destruct l as [|x [|y r]]; cbn in Hlen; try lia.
  cbn [last_ok] in Hlast.
  rewrite (last_indep _ [0] (leaf_str (Lst []))) by discriminate. rewrite last_map.
  assert (Hin : In (last (x :: y :: r) (Lst [])) (x :: y :: r)) by (apply last_In; discriminate).
  rewrite forallb_forall in Hl. specialize (Hl _ Hin).
  destruct (last (x :: y :: r) (Lst [])) as [s|l']; [|discriminate].
  destruct s; [discriminate|]. cbn [leaf_str]. discriminate.
Qed.

Lemma to_elem_inv v : elem_ok v = true -> elem_nv (to_elem v) = v /\ elem_wf (to_elem v).
Proof.
  destruct v as [s|l]; cbn [elem_ok to_elem elem_nv elem_wf].
  - intros H. split; [reflexivity|]. exact H.
  - intros H. apply andb_true_iff in H as [H H3]. apply andb_true_iff in H as [H1 H2].
    destruct (leaves_inv l H3) as [E F]. rewrite E. split; [reflexivity|].
    split; [|split; [apply last_ok_leaves; assumption|exact F]].
    destruct l; [discriminate|discriminate].
Qed.

Lemma elems_inv l :
  forallb elem_ok l = true ->
  map elem_nv (map to_elem l) = l /\ Forall elem_wf (map to_elem l).
Proof.
  induction l as [|x r IH]; [split; [reflexivity|constructor]|].
  cbn [forallb]. intros H. apply andb_true_iff in H as [Hx Hr].
  destruct (IH Hr) as [E F]. destruct (to_elem_inv x Hx) as [Ex Fx].
  cbn [map]. rewrite E, Ex. split; [reflexivity|]. constructor; assumption.
Qed.

Lemma last_ok_elems l :
  forallb elem_ok l = true -> last_ok l = true -> outer_lastne (map to_elem l).
Proof.
  intros Hl Hlast. unfold outer_lastne. rewrite map_length. intros Hlen.
  destruct l as [|x [|y r]]; cbn in Hlen; try lia.
  cbn [last_ok] in Hlast.
  rewrite (last_indep _ (ELst []) (to_elem (Lst []))) by discriminate. rewrite last_map.
  destruct (last (x :: y :: r) (Lst [])) as [s|l']; cbn [to_elem]; [|discriminate].
  destruct s; [discriminate|]. discriminate.
Qed.

(* C08-2 *)
Theorem list_roundtrip v :
  wfb v = true ->
  exists txt, join_from_lists 0 v = Some txt /\ split_into_lists txt = trim v.
Proof.
  destruct v as [s|l]; cbn [wfb].
  - intros H. exists (escape s).
    destruct (string_roundtrip s H) as [E1 E2]. split; assumption.
  - intros H. apply andb_true_iff in H as [H H3]. apply andb_true_iff in H as [H1 H2].
    destruct (elems_inv l H3) as [E F].
    pose proof (last_ok_elems l H3 H2) as Hlast.
    assert (Hne : map to_elem l <> []) by (destruct l; discriminate).
    destruct (elems_roundtrip _ Hne Hlast F) as [J P].
    rewrite E in J, P. eexists. split; eassumption.
Qed.

(* ---- the statement at full strength: EVERY string; EVERY list of the shape the property names ---- *)
(* shape_ok = wfb without the str_ok conjuncts: depth <= 2, lists non-empty, a list of two or more
   elements does not end in the empty string *)
Definition leaf_shape (v : nv) : bool := match v with Str _ => true | Lst _ => false end.
Definition elem_shape (v : nv) : bool :=
  match v with
  | Str _ => true
  | Lst l => negb (is_nil l) && last_ok l && forallb leaf_shape l
  end.
Definition shape_ok (v : nv) : bool :=
  match v with
  | Str _ => true
  | Lst l => negb (is_nil l) && last_ok l && forallb elem_shape l
  end.

Lemma forallb_impl {X} (f g : X -> bool) l :
  (forall x, f x = true -> g x = true) -> forallb f l = true -> forallb g l = true.
Proof.
  intros H. induction l as [|x r IH]; [reflexivity|]. cbn [forallb]. intros E.
  apply andb_true_iff in E as [E1 E2]. rewrite (H _ E1), (IH E2). reflexivity.
Qed.

Lemma shape_wfb v : (forall s, str_ok s = true) -> shape_ok v = true -> wfb v = true.
Proof.
  intros Hall. destruct v as [s|l]; cbn [shape_ok wfb]; [intros _; apply Hall|].
  intros H. apply andb_true_iff in H as [H H3]. rewrite H. cbn [andb].
  revert H3. apply forallb_impl. intros [s|l']; cbn [elem_shape elem_ok]; [intros _; apply Hall|].
  intros H'. apply andb_true_iff in H' as [H' H3']. rewrite H'. cbn [andb].
  revert H3'. apply forallb_impl. intros [s|l'']; cbn [leaf_shape leaf_ok]; [intros _; apply Hall|auto].
Qed.

Lemma wfb_shape v : wfb v = true -> shape_ok v = true.
Proof.
  destruct v as [s|l]; cbn [shape_ok wfb]; [reflexivity|].
  intros H. apply andb_true_iff in H as [H H3]. rewrite H. cbn [andb].
  revert H3. apply forallb_impl. intros [s|l']; cbn [elem_shape elem_ok]; [reflexivity|].
  intros H'. apply andb_true_iff in H' as [H' H3']. rewrite H'. cbn [andb].
  revert H3'. apply forallb_impl. intros [s|l'']; cbn [leaf_shape leaf_ok]; [reflexivity|auto].
Qed.

Definition string_roundtrip_full : Prop :=
  forall s, join_from_lists 0 (Str s) = Some (escape s) /\ split_into_lists (escape s) = Str (strip s).
Definition list_roundtrip_full : Prop :=
  forall v, shape_ok v = true ->
            exists txt, join_from_lists 0 v = Some txt /\ split_into_lists txt = trim v.

(* Decided on the code as it is on this run (cleanse_tmp is regenerated from it):
   - cleanse has no temporary character (the repaired tree): both full statements HOLD, no hypothesis
     on the strings at all;
   - cleanse goes through a temporary character t (the defect "value-contains-U+0001"): the full
     statement is FALSE, witness the one-character string [t]. *)
Theorem full_roundtrip_decided :
  match cleanse_tmp with
  | None => string_roundtrip_full /\ list_roundtrip_full
  | Some t => ~ string_roundtrip_full
  end.
Proof.
  destruct cleanse_tmp as [t|] eqn:Et.
  - intros H. destruct (H [t]) as [_ H2]. rewrite split_escape in H2. injection H2 as H2.
    exact (tmp_char_lost t Et H2).
  - pose proof (str_ok_total Et) as Hall. split.
    + intros s. apply string_roundtrip, Hall.
    + intros v Hv. apply list_roundtrip, shape_wfb; assumption.
Qed.

Example phases_one_pass_example :
  tmp_ok 1 = true /\ mem_char 1 [92; 92; 92; 124; 97; 92; 59; 92] = false
  /\ unescape [92; 92; 92; 124; 97; 92; 59; 92] = [92; 124; 97; 59; 92].
Proof. vm_compute. repeat split; reflexivity. Qed.

(* the value the finding is about, [U+0001], and a list holding it: round trip decided the same way *)
Example u0001_roundtrip :
  let v := Lst [Str [1]; Lst [Str [92; 1; 124]; Str [1; 1]]] in
  match cleanse_tmp with
  | None => split_into_lists (escape [1]) = Str [1]
            /\ match join_from_lists 0 v with Some t => split_into_lists t = v | None => False end
  | Some t => split_into_lists (escape [t]) = Str [esc_char]
  end.
Proof. vm_compute. try split; reflexivity. Qed.

(* ---- lists that END IN A BLANK element (outside the property's domain; finding
   packed-model-blank-value-under-nonblank-default of C07: the pair [name, ""] of a packed model) ----
   wfb_any = wfb without the conditions on the last element: depth <= 2, lists non-empty, strings str_ok.
   On the repaired tree (join_keeps_blank_last) every such value comes back; on the other tree the
   two-element list [a, ""] does not. *)
Definition elem_any (v : nv) : bool :=
  match v with
  | Str s => str_ok s
  | Lst l => negb (is_nil l) && forallb leaf_ok l
  end.
Definition wfb_any (v : nv) : bool :=
  match v with
  | Str s => str_ok s
  | Lst l => negb (is_nil l) && forallb elem_any l
  end.

Definition elem_wf_any (e : elem) : Prop :=
  match e with
  | EStr s => tmp_free s
  | ELst ss => ss <> [] /\ Forall tmp_free ss
  end.

Lemma pieceJ_closed e : closed sep0 (pieceJ e).
Proof.
  destruct e as [s|ss]; cbn [pieceJ].
  - apply closed_escape. left. reflexivity.
  - apply closed_join_parts.
    + apply eqb_sym_false, esc_ne_sep1.
    + rewrite N.eqb_sym. apply sep0_ne_sep1.
    + apply Forall_closed_escape. left. reflexivity.
Qed.

Lemma pieceJ_parses e :
  join_keeps_blank_last = true -> elem_wf_any e ->
  cleanse (split_res_to_nv (split_by_separator (pieceJ e) sep1)) = trim (elem_nv e).
Proof.
  intros E. destruct e as [s|ss]; cbn [elem_wf_any pieceJ elem_nv].
  - intros H. rewrite split_closed by (apply closed_escape; right; reflexivity).
    cbn [split_res_to_nv cleanse trim]. rewrite cleanse_escape by exact H. reflexivity.
  - intros (Hne & Hall).
    rewrite split_join_parts.
    + cbn [split_res_to_nv cleanse trim]. rewrite map_cleanse_strs by exact Hall. reflexivity.
    + exact E.
    + right. reflexivity.
    + destruct ss; [congruence|discriminate].
    + apply Forall_closed_escape. right. reflexivity.
Qed.

Theorem elems_roundtrip_any es :
  join_keeps_blank_last = true -> es <> [] -> Forall elem_wf_any es ->
  join_from_lists 0 (Lst (map elem_nv es)) = Some (join_parts sep0 (map pieceJ es)) /\
  split_into_lists (join_parts sep0 (map pieceJ es)) = trim (Lst (map elem_nv es)).
Proof.
  intros E Hne Hall. split; [apply join_elemsJ|].
  unfold split_into_lists. rewrite split_join_parts.
  - cbn [cleanse trim]. f_equal. rewrite !map_map.
    apply map_ext_in. intros e Hin. apply pieceJ_parses; [exact E|].
    rewrite Forall_forall in Hall. apply Hall, Hin.
  - exact E.
  - left. reflexivity.
  - destruct es; [congruence|discriminate].
  - clear. induction es; constructor; [apply pieceJ_closed|assumption].
Qed.

Lemma to_elem_inv_any v : elem_any v = true -> elem_nv (to_elem v) = v /\ elem_wf_any (to_elem v).
Proof.
  destruct v as [s|l]; cbn [elem_any to_elem elem_nv elem_wf_any].
  - intros H. split; [reflexivity|]. exact H.
  - intros H. apply andb_true_iff in H as [H1 H3].
    destruct (leaves_inv l H3) as [E F]. rewrite E. split; [reflexivity|].
    split; [|exact F]. destruct l; [discriminate|discriminate].
Qed.

Lemma elems_inv_any l :
  forallb elem_any l = true ->
  map elem_nv (map to_elem l) = l /\ Forall elem_wf_any (map to_elem l).
Proof.
  induction l as [|x r IH]; [split; [reflexivity|constructor]|].
  cbn [forallb]. intros H. apply andb_true_iff in H as [Hx Hr].
  destruct (IH Hr) as [E F]. destruct (to_elem_inv_any x Hx) as [Ex Fx].
  cbn [map]. rewrite E, Ex. split; [reflexivity|]. constructor; assumption.
Qed.

Theorem list_roundtrip_any v :
  join_keeps_blank_last = true -> wfb_any v = true ->
  exists txt, join_from_lists 0 v = Some txt /\ split_into_lists txt = trim v.
Proof.
  intros Ej. destruct v as [s|l]; cbn [wfb_any].
  - intros H. exists (escape s).
    destruct (string_roundtrip s H) as [E1 E2]. split; assumption.
  - intros H. apply andb_true_iff in H as [H1 H3].
    destruct (elems_inv_any l H3) as [E F].
    assert (Hne : map to_elem l <> []) by (destruct l; discriminate).
    destruct (elems_roundtrip_any _ Ej Hne F) as [J P].
    rewrite E in J, P. eexists. split; eassumption.
Qed.

Lemma wfb_wfb_any v : wfb v = true -> wfb_any v = true.
Proof.
  destruct v as [s|l]; cbn [wfb wfb_any]; [auto|].
  intros H. apply andb_true_iff in H as [H H3]. apply andb_true_iff in H as [H1 _]. rewrite H1. cbn [andb].
  revert H3. apply forallb_impl. intros [s|l']; cbn [elem_ok elem_any]; [auto|].
  intros H'. apply andb_true_iff in H' as [H' H3']. apply andb_true_iff in H' as [H1' _]. rewrite H1', H3'. reflexivity.
Qed.

(* the domain of the cell round trip ON THE TREE AT HAND: the property's (wfb) and, once the join keeps an
   empty last element, every list of the shape *)
Definition wfb_tree (v : nv) : bool := if join_keeps_blank_last then wfb_any v else wfb v.

Theorem list_roundtrip_tree v :
  wfb_tree v = true -> exists txt, join_from_lists 0 v = Some txt /\ split_into_lists txt = trim v.
Proof.
  unfold wfb_tree. destruct join_keeps_blank_last eqn:E.
  - apply list_roundtrip_any. exact E.
  - apply list_roundtrip.
Qed.

Lemma wfb_wfb_tree v : wfb v = true -> wfb_tree v = true.
Proof. unfold wfb_tree. destruct join_keeps_blank_last; [apply wfb_wfb_any|auto]. Qed.

(* the witness: ["a", ""] *)
Definition w_blank_last : nv := Lst [Str [97]; Str []].

Definition blank_last_roundtrip_full : Prop :=
  forall v, wfb_any v = true -> exists txt, join_from_lists 0 v = Some txt /\ split_into_lists txt = trim v.

Lemma w_blank_last_join : join_from_lists 0 w_blank_last = Some (join_parts sep0 [[97]; []]).
Proof.
  change w_blank_last with (Lst (map Str [[97]; []])). rewrite (join_strs_parts 0 sep0); [|reflexivity].
  cbn [map]. rewrite !escape_string_one_pass || idtac. reflexivity.
Qed.

Theorem blank_last_roundtrip_decided :
  if join_keeps_blank_last then blank_last_roundtrip_full else ~ blank_last_roundtrip_full.
Proof.
  destruct join_keeps_blank_last eqn:E.
  - intros v Hv. apply list_roundtrip_any; assumption.
  - intros H. destruct (H w_blank_last eq_refl) as [txt [J P]].
    rewrite w_blank_last_join, (join_parts_off_eq _ _ E) in J. injection J as <-.
    vm_compute in P. discriminate P.
Qed.

(* the texts: [a, ""] is written  a||  and read back whole on the repaired tree, written  a|  and read back as
   [a] on the other *)
Theorem blank_last_witness :
  wfb_any w_blank_last = true /\ wfb w_blank_last = false
  /\ join_from_lists 0 w_blank_last
     = Some (if join_keeps_blank_last then [97; sep0; sep0] else [97; sep0])
  /\ split_into_lists [97; sep0; sep0] = w_blank_last
  /\ split_into_lists [97; sep0] = Lst [Str [97]].
Proof.
  split; [reflexivity|]. split; [reflexivity|]. split.
  - rewrite w_blank_last_join. destruct join_keeps_blank_last eqn:E.
    + rewrite (join_parts_on_eq _ _ E). reflexivity.
    + rewrite (join_parts_off_eq _ _ E). reflexivity.
  - split; vm_compute; reflexivity.
Qed.

(* C08-3: a cell without an unescaped separator is a plain string, never a list *)
Definition no_unescaped_sep (s : str) : Prop :=
  length (segs sep0 s) = 1%nat /\ length (segs sep1 s) = 1%nat.

Theorem no_sep_is_string s :
  no_unescaped_sep s -> split_into_lists s = Str (cleanse_str s).
Proof.
  intros [H0 H1]. unfold split_into_lists, split_by_separator.
  destruct (segs sep0 s) as [|a [|b r]]; cbn in H0; try lia.
  destruct (segs sep1 s) as [|a' [|b' r']]; cbn in H1; try lia.
  reflexivity.
Qed.

Theorem unescaped_sep_is_list s :
  ~ no_unescaped_sep s -> exists l, split_into_lists s = Lst l.
Proof.
  intros H. unfold split_into_lists, split_by_separator.
  destruct (segs sep0 s) as [|a [|b r]] eqn:E0.
  - exfalso. eapply segs_nonempty; eauto.
  - destruct (segs sep1 s) as [|a' [|b' r']] eqn:E1.
    + exfalso. eapply segs_nonempty; eauto.
    + exfalso. apply H. unfold no_unescaped_sep. rewrite E0, E1. split; reflexivity.
    + eexists. reflexivity.
  - eexists. reflexivity.
Qed.

(* ------------------------------------------------------------------ inertness (C08-4) *)
(* the scanner state at the end of a string: is the last character an unpaired escape? *)
Fixpoint ends_escaped (s : str) : bool :=
  match s with
  | [] => false
  | c :: r =>
    if c =? esc_char then match r with [] => true | _ :: r' => ends_escaped r' end
    else ends_escaped r
  end.

(* glue the last segment of l1 to the first of l2 *)
Definition glue (l1 l2 : list str) : list str :=
  removelast l1 ++ [last l1 [] ++ hd [] l2] ++ tl l2.

Lemma glue_nonempty l1 l2 : glue l1 l2 <> [].
Proof. unfold glue. intros E. apply app_eq_nil in E as [_ E]. cbn in E. discriminate. Qed.

Lemma glue_cons_head c h t l2 :
  glue ((c :: h) :: t) l2 = (match glue (h :: t) l2 with
                             | [] => []
                             | h' :: t' => (c :: h') :: t'
                             end).
Proof.
  unfold glue. destruct t as [|x t']; cbn [removelast last app]; reflexivity.
Qed.

Lemma segs_app sep pre x :
  ends_escaped pre = false -> segs sep (pre ++ x) = glue (segs sep pre) (segs sep x).
Proof.
  assert (H: forall (n:nat) pre, (length pre <= n)%nat -> ends_escaped pre = false ->
                                 segs sep (pre ++ x) = glue (segs sep pre) (segs sep x)).
  { induction n as [|n IH]; intros [|c r] Hl He.
    - cbn [app segs]. unfold glue. cbn.
      destruct (segs sep x) eqn:E; [exfalso; eapply segs_nonempty; eauto|reflexivity].
    - cbn in Hl. lia.
    - cbn [app segs]. unfold glue. cbn.
      destruct (segs sep x) eqn:E; [exfalso; eapply segs_nonempty; eauto|reflexivity].
    - cbn in Hl. cbn [ends_escaped] in He. cbn [app segs].
      destruct (c =? esc_char) eqn:Ec.
      + destruct r as [|d r']; [discriminate|]. cbn [app].
        rewrite (IH r') by (cbn in Hl; try lia; assumption).
        destruct (segs sep r') as [|h t] eqn:Er; [exfalso; eapply segs_nonempty; eauto|].
        rewrite !glue_cons_head. unfold str in *.
        destruct (glue (h :: t) (segs sep x)) eqn:Eg; rewrite ?Eg; [|reflexivity].
        exfalso. eapply glue_nonempty; eauto.
      + destruct (c =? sep) eqn:Es.
        * rewrite (IH r) by (try lia; assumption).
          unfold glue. destruct (segs sep r) as [|h t] eqn:Er; [exfalso; eapply segs_nonempty; eauto|].
          reflexivity.
        * rewrite (IH r) by (try lia; assumption).
          destruct (segs sep r) as [|h t] eqn:Er; [exfalso; eapply segs_nonempty; eauto|].
          rewrite glue_cons_head. unfold str in *.
          destruct (glue (h :: t) (segs sep x)) eqn:Eg; rewrite ?Eg; [|reflexivity].
          exfalso. eapply glue_nonempty; eauto. }
  apply (H (length pre)). apply le_n.
Qed.

Lemma ends_escaped_app pre x :
  ends_escaped pre = false -> ends_escaped (pre ++ x) = ends_escaped x.
Proof.
  assert (H: forall (n:nat) pre, (length pre <= n)%nat -> ends_escaped pre = false ->
                                 ends_escaped (pre ++ x) = ends_escaped x).
  { induction n as [|n IH]; intros [|c r] Hl He; try reflexivity; cbn in Hl; try lia.
    cbn [ends_escaped] in He. cbn [app ends_escaped].
    destruct (c =? esc_char).
    - destruct r as [|d r']; [discriminate|]. cbn [app]. apply IH; [cbn in Hl; lia|assumption].
    - apply IH; [lia|assumption]. }
  apply (H (length pre)). apply le_n.
Qed.

Lemma ends_escaped_escape d : ends_escaped (escape d) = false.
Proof.
  induction d as [|c r IH]; [reflexivity|]. cbn [escape].
  destruct (is_special c) eqn:E.
  - cbn [ends_escaped]. rewrite N.eqb_refl. exact IH.
  - cbn [ends_escaped]. unfold is_special in E. apply orb_false_elim in E as [E _].
    rewrite E. exact IH.
Qed.

(* Substituting escaped data into a cell at a point where the scanner is not inside an
   escape adds no separator: the data lies wholly inside one segment, the segments of the
   text before and after are untouched, and the scanner leaves the data unescaped. *)
Theorem escape_inert sep pre d post :
  is_a_sep sep -> ends_escaped pre = false ->
  segs sep (pre ++ escape d ++ post) = glue (segs sep pre) (glue [escape d] (segs sep post))
  /\ ends_escaped (pre ++ escape d) = false
  /\ length (segs sep (pre ++ escape d ++ post)) = length (segs sep (pre ++ post)).
Proof.
  intros Hsep Hpre.
  assert (E1 : segs sep (pre ++ escape d ++ post) = glue (segs sep pre) (glue [escape d] (segs sep post))).
  { rewrite segs_app by exact Hpre. f_equal.
    rewrite segs_app by apply ends_escaped_escape. rewrite segs_escape by exact Hsep. reflexivity. }
  split; [exact E1|]. split.
  - rewrite ends_escaped_app by exact Hpre. apply ends_escaped_escape.
  - rewrite E1, segs_app by exact Hpre.
    destruct (segs sep post) as [|h t] eqn:Ep; [exfalso; eapply segs_nonempty; eauto|].
    unfold glue. cbn [removelast last hd tl app]. rewrite !app_length. cbn [length]. reflexivity.
Qed.

(* non-vacuity: concrete values meeting the hypotheses *)
Example wfb_nonvacuous :
  wfb (Lst [Str [97; 124; 92]; Lst [Str [59]; Str [32; 98]]; Str []; Str [120]]) = true.
Proof. vm_compute. reflexivity. Qed.

Example roundtrip_example :
  let v := Lst [Str [97; 124; 92]; Lst [Str [59]; Str [32; 98]]; Str []; Str [120]] in
  match join_from_lists 0 v with Some t => split_into_lists t = trim v | None => False end.
Proof. vm_compute. reflexivity. Qed.
