(* C08 for CellParser.parse = strip the CELL, then split: a nested list survives join + PARSE, trimmed, when
   no list of the trimmed value ends in the empty string (wfb (trim v): "lists do not end in a BLANK element").

   strip (join v) is the join of the value v' whose first leaf is left-stripped and whose last leaf is
   right-stripped (separators and escape characters are not whitespace); v' is well-formed and trims to what
   v trims to; the round trip of CellFacts.v (elems_roundtrip) applied to v' gives the statement. *)
From Coq Require Import List NArith Bool Lia.
From RPFT Require Import Base.Sexp Base.PyStr Gen.Tables Cell.Cell Cell.CellFacts.
Import ListNotations.
Local Open Scope N_scope.

(* ------------------------------------------------------------------ lstrip / rstrip *)
Lemma lstrip_idem s : lstrip (lstrip s) = lstrip s.
Proof.
  induction s as [|c r IH]; [reflexivity|]. cbn [lstrip]. destruct (is_ws c) eqn:W; [exact IH|].
  cbn [lstrip]. rewrite W. reflexivity.
Qed.

Lemma rstrip_nil_lstrip s : rstrip s = [] -> lstrip s = [].
Proof.
  induction s as [|c r IH]; [reflexivity|]. cbn [rstrip lstrip].
  destruct (rstrip r) as [|d t]; [|discriminate].
  destruct (is_ws c); [intros _; apply IH; reflexivity|discriminate].
Qed.

Lemma rstrip_idem' s : rstrip (rstrip s) = rstrip s.
Proof.
  induction s as [|c r IH]; [reflexivity|].
  cbn [rstrip]. destruct (rstrip r) as [|d t] eqn:E.
  - destruct (is_ws c) eqn:W; [reflexivity|]. cbn [rstrip]. rewrite W. reflexivity.
  - cbn [rstrip]. cbn [rstrip] in IH. rewrite IH. reflexivity.
Qed.

Lemma lstrip_rstrip_comm s : lstrip (rstrip s) = rstrip (lstrip s).
Proof.
  induction s as [|c r IH]; [reflexivity|].
  destruct (is_ws c) eqn:W.
  - cbn [lstrip]. rewrite W. cbn [rstrip]. destruct (rstrip r) as [|d t] eqn:E.
    + rewrite W. rewrite (rstrip_nil_lstrip r E). reflexivity.
    + cbn [lstrip]. rewrite W. exact IH.
  - rewrite (rstrip_cons_nonws c r W). cbn [lstrip]. rewrite W. rewrite (rstrip_cons_nonws c r W). reflexivity.
Qed.

Lemma strip_lstrip s : strip (lstrip s) = strip s.
Proof. unfold strip. rewrite lstrip_idem. reflexivity. Qed.

Lemma strip_rstrip s : strip (rstrip s) = strip s.
Proof. unfold strip. rewrite lstrip_rstrip_comm, rstrip_idem'. reflexivity. Qed.

Lemma strip_nonnil_rstrip s : strip s <> [] -> rstrip s <> [].
Proof.
  intros H E. apply H. unfold strip. rewrite (rstrip_nil_lstrip s E). reflexivity.
Qed.

Lemma lstrip_app_nonws p c r : is_ws c = false -> lstrip (p ++ c :: r) = lstrip p ++ c :: r.
Proof.
  intros W. induction p as [|a p IH]; cbn [app lstrip].
  - rewrite W. reflexivity.
  - destruct (is_ws a); [exact IH|reflexivity].
Qed.

Lemma rstrip_app_nonnil a b : rstrip b <> [] -> rstrip (a ++ b) = a ++ rstrip b.
Proof.
  intros H. induction a as [|x a IH]; [reflexivity|].
  cbn [app rstrip]. rewrite IH. destruct (a ++ rstrip b) as [|y t] eqn:E; [|reflexivity].
  apply app_eq_nil in E. destruct E as [_ E]. contradiction.
Qed.

(* ------------------------------------------------------------------ the first / the last element of a list *)
Definition map_hd {X} (f : X -> X) (l : list X) : list X :=
  match l with x :: r => f x :: r | [] => [] end.

Fixpoint map_last {X} (f : X -> X) (l : list X) : list X :=
  match l with
  | [] => []
  | [x] => [f x]
  | x :: r => x :: map_last f r
  end.

(* the last element, in lists of two or more elements only (a one-element list is written with a
   trailing separator, which is not whitespace: rstrip does not reach its element) *)
Definition map_last2 {X} (f : X -> X) (l : list X) : list X :=
  match l with _ :: _ :: _ => map_last f l | _ => l end.

Lemma map_last_cons2 {X} (f : X -> X) x y r : map_last f (x :: y :: r) = x :: map_last f (y :: r).
Proof. reflexivity. Qed.

Lemma map_last_length {X} (f : X -> X) l : length (map_last f l) = length l.
Proof.
  induction l as [|x r IH]; [reflexivity|]. destruct r as [|y r']; [reflexivity|].
  rewrite map_last_cons2. cbn [length]. cbn [length] in IH. rewrite IH. reflexivity.
Qed.

Lemma last_cons_ne {X} (x : X) l d : l <> [] -> last (x :: l) d = last l d.
Proof. destruct l; [congruence|reflexivity]. Qed.

Lemma map_last_ne {X} (f : X -> X) l : l <> [] -> map_last f l <> [].
Proof.
  intros H E. apply (f_equal (@length X)) in E. rewrite map_last_length in E. destruct l; [congruence|discriminate].
Qed.

Lemma map_last_last {X} (f : X -> X) l d : l <> [] -> last (map_last f l) d = f (last l d).
Proof.
  induction l as [|x r IH]; [congruence|]. intros _. destruct r as [|y r']; [reflexivity|].
  rewrite map_last_cons2. rewrite last_cons_ne by (apply map_last_ne; discriminate).
  rewrite IH by discriminate. reflexivity.
Qed.

Lemma map_map_hd {X Y} (g : X -> Y) (f : X -> X) (f' : Y -> Y) l :
  (forall x, In x l -> g (f x) = f' (g x)) -> map g (map_hd f l) = map_hd f' (map g l).
Proof.
  destruct l as [|x r]; [reflexivity|]. intros H. cbn [map_hd map]. rewrite H by (left; reflexivity). reflexivity.
Qed.

Lemma map_map_last {X Y} (g : X -> Y) (f : X -> X) (f' : Y -> Y) l :
  (forall x, In x l -> g (f x) = f' (g x)) -> map g (map_last f l) = map_last f' (map g l).
Proof.
  induction l as [|x r IH]; [reflexivity|]. intros H. destruct r as [|y r'].
  - cbn [map_last map]. rewrite H by (left; reflexivity). reflexivity.
  - rewrite map_last_cons2. cbn [map]. cbn [map] in IH. rewrite IH by (intros z Hz; apply H; right; exact Hz).
    reflexivity.
Qed.

Lemma map_map_last2 {X Y} (g : X -> Y) (f : X -> X) (f' : Y -> Y) l :
  (forall x, In x l -> g (f x) = f' (g x)) -> map g (map_last2 f l) = map_last2 f' (map g l).
Proof.
  intros H. destruct l as [|x [|y r]]; [reflexivity|reflexivity|].
  unfold map_last2. cbn [map]. apply (map_map_last g f f' (x :: y :: r) H).
Qed.

Lemma map_hd_id {X Y} (g : X -> Y) (f : X -> X) l :
  (forall x, In x l -> g (f x) = g x) -> map g (map_hd f l) = map g l.
Proof.
  destruct l as [|x r]; [reflexivity|]. intros H. cbn [map_hd map]. rewrite H by (left; reflexivity). reflexivity.
Qed.

Lemma map_last_id {X Y} (g : X -> Y) (f : X -> X) l :
  (forall x, In x l -> g (f x) = g x) -> map g (map_last f l) = map g l.
Proof.
  induction l as [|x r IH]; [reflexivity|]. intros H. destruct r as [|y r'].
  - cbn [map_last map]. rewrite H by (left; reflexivity). reflexivity.
  - rewrite map_last_cons2. cbn [map]. cbn [map] in IH. rewrite IH by (intros z Hz; apply H; right; exact Hz).
    reflexivity.
Qed.

Lemma map_last2_id {X Y} (g : X -> Y) (f : X -> X) l :
  (forall x, In x l -> g (f x) = g x) -> map g (map_last2 f l) = map g l.
Proof.
  intros H. destruct l as [|x [|y r]]; [reflexivity|reflexivity|]. unfold map_last2. apply map_last_id, H.
Qed.

Lemma In_map_hd {X} (f : X -> X) l z : In z (map_hd f l) -> exists x, In x l /\ (z = x \/ z = f x).
Proof.
  destruct l as [|x r]; [intros []|]. cbn [map_hd]. intros [<-|H].
  - exists x. split; [left; reflexivity|right; reflexivity].
  - exists z. split; [right; exact H|left; reflexivity].
Qed.

Lemma In_map_last {X} (f : X -> X) l z : In z (map_last f l) -> exists x, In x l /\ (z = x \/ z = f x).
Proof.
  induction l as [|x r IH]; [intros []|]. destruct r as [|y r'].
  - cbn [map_last]. intros [<-|[]]. exists x. split; [left; reflexivity|right; reflexivity].
  - rewrite map_last_cons2. intros [<-|H].
    + exists x. split; [left; reflexivity|left; reflexivity].
    + destruct (IH H) as (w & Hw & E). exists w. split; [right; exact Hw|exact E].
Qed.

(* ------------------------------------------------------------------ strip of a joined text *)
Lemma lstrip_joinP sep ps :
  is_ws sep = false -> ps <> [] -> lstrip (joinP sep ps) = joinP sep (map_hd lstrip ps).
Proof.
  intros W Hne. destruct ps as [|p [|q r]]; [congruence| |].
  - cbn [joinP map_hd]. apply lstrip_app_nonws, W.
  - unfold joinP, map_hd.
    change (join_char sep (p :: q :: r)) with (p ++ sep :: join_char sep (q :: r)).
    change (join_char sep (lstrip p :: q :: r)) with (lstrip p ++ sep :: join_char sep (q :: r)).
    apply lstrip_app_nonws, W.
Qed.

Lemma join_char_cons_ne sep p l : l <> [] -> join_char sep (p :: l) = p ++ sep :: join_char sep l.
Proof. destruct l; [congruence|reflexivity]. Qed.

Lemma rstrip_join_char' sep r : is_ws sep = false -> forall p,
  rstrip (last (p :: r) [0]) <> [] ->
  rstrip (join_char sep (p :: r)) = join_char sep (map_last rstrip (p :: r)).
Proof.
  intros W. induction r as [|q r' IH]; intros p Hl; [reflexivity|].
  change (join_char sep (p :: q :: r')) with (p ++ sep :: join_char sep (q :: r')).
  change (map_last rstrip (p :: q :: r')) with (p :: map_last rstrip (q :: r')).
  assert (Hl' : rstrip (last (q :: r') [0]) <> []) by exact Hl.
  rewrite rstrip_app_nonnil.
  - rewrite (rstrip_cons_nonws sep _ W), (IH q Hl').
    destruct r' as [|q2 r'']; reflexivity.
  - rewrite (rstrip_cons_nonws sep _ W). discriminate.
Qed.

Lemma rstrip_join_char sep ps :
  is_ws sep = false -> ps <> [] -> rstrip (last ps [0]) <> [] ->
  rstrip (join_char sep ps) = join_char sep (map_last rstrip ps).
Proof. intros W Hne Hl. destruct ps as [|p r]; [congruence|]. apply rstrip_join_char'; assumption. Qed.

Lemma joinP_two sep p q r : joinP sep (p :: q :: r) = join_char sep (p :: q :: r).
Proof. reflexivity. Qed.

Lemma rstrip_joinP sep ps :
  is_ws sep = false -> ps <> [] -> ((2 <= length ps)%nat -> rstrip (last ps [0]) <> []) ->
  rstrip (joinP sep ps) = joinP sep (map_last2 rstrip ps).
Proof.
  intros W Hne Hl. destruct ps as [|p [|q r]]; [congruence| |].
  - cbn [joinP map_last2]. rewrite rstrip_app_nonnil.
    + cbn [rstrip]. rewrite W. reflexivity.
    + cbn [rstrip]. rewrite W. discriminate.
  - unfold map_last2. rewrite joinP_two.
    rewrite rstrip_join_char; [|exact W|discriminate|apply Hl; cbn [length]; lia].
    change (map_last rstrip (p :: q :: r)) with (p :: map_last rstrip (q :: r)).
    destruct r as [|q2 r2]; reflexivity.
Qed.

(* ------------------------------------------------------------------ elements *)
Definition lstrip_elem (e : elem) : elem :=
  match e with EStr s => EStr (lstrip s) | ELst ss => ELst (map_hd lstrip ss) end.
Definition rstrip_elem (e : elem) : elem :=
  match e with EStr s => EStr (rstrip s) | ELst ss => ELst (map_last2 rstrip ss) end.

(* what "the trimmed value is well-formed" says about an element: an inner list of two or more strings does
   not end in a blank string *)
Definition inner_ok (e : elem) : Prop :=
  match e with EStr _ => True | ELst ss => (2 <= length ss)%nat -> strip (last ss [0]) <> [] end.

Lemma tmp_free_lstrip s : tmp_free s -> tmp_free (lstrip s).
Proof.
  unfold tmp_free, str_ok. destruct cleanse_tmp as [t|]; [|reflexivity].
  intros H. apply negb_true_iff in H. apply negb_true_iff.
  destruct (mem_char t (lstrip s)) eqn:E; [|reflexivity]. apply mem_lstrip in E. congruence.
Qed.

Lemma tmp_free_rstrip s : tmp_free s -> tmp_free (rstrip s).
Proof.
  unfold tmp_free, str_ok. destruct cleanse_tmp as [t|]; [|reflexivity].
  intros H. apply negb_true_iff in H. apply negb_true_iff.
  destruct (mem_char t (rstrip s)) eqn:E; [|reflexivity]. apply mem_rstrip in E. congruence.
Qed.

Lemma last_cons2 {X} (x y : X) r d : last (x :: y :: r) d = last (y :: r) d.
Proof. reflexivity. Qed.

Lemma map_hd_last2 {X} (f : X -> X) l d : (2 <= length l)%nat -> last (map_hd f l) d = last l d.
Proof. destruct l as [|x [|y r]]; cbn [length]; try lia. intros _. reflexivity. Qed.

Lemma map_hd_length {X} (f : X -> X) l : length (map_hd f l) = length l.
Proof. destruct l; reflexivity. Qed.

Lemma elem_wf_lstrip e : elem_wf e -> elem_wf (lstrip_elem e).
Proof.
  destruct e as [s|ss]; cbn [elem_wf lstrip_elem]; [apply tmp_free_lstrip|].
  intros (Hne & Hl & Hall). split; [destruct ss; [congruence|discriminate]|]. split.
  - unfold lastne in *. rewrite map_hd_length. intros H2. rewrite map_hd_last2 by exact H2. apply Hl, H2.
  - apply Forall_forall. intros z Hz. rewrite Forall_forall in Hall.
    destruct (In_map_hd _ _ _ Hz) as (x & Hx & [->| ->]); [apply Hall, Hx|apply tmp_free_lstrip, Hall, Hx].
Qed.

Lemma elem_wf_rstrip e : elem_wf e -> inner_ok e -> elem_wf (rstrip_elem e).
Proof.
  destruct e as [s|ss]; cbn [elem_wf rstrip_elem inner_ok]; [intros H _; apply tmp_free_rstrip, H|].
  intros (Hne & Hl & Hall) Hin. destruct ss as [|x [|y r]]; [congruence| |].
  - cbn [map_last2]. split; [discriminate|]. split; [exact Hl|exact Hall].
  - unfold map_last2. split.
    + intros E. apply (f_equal (@length str)) in E. rewrite map_last_length in E. discriminate.
    + split.
      * unfold lastne. intros _. rewrite map_last_last by discriminate.
        apply strip_nonnil_rstrip, Hin. cbn [length]. lia.
      * apply Forall_forall. intros z Hz. rewrite Forall_forall in Hall.
        destruct (In_map_last _ _ _ Hz) as (w & Hw & [->| ->]); [apply Hall, Hw|apply tmp_free_rstrip, Hall, Hw].
Qed.

Lemma piece_lstrip e : elem_wf e -> piece (lstrip_elem e) = lstrip (piece e).
Proof.
  destruct e as [s|ss]; cbn [elem_wf lstrip_elem piece].
  - intros _. symmetry. apply lstrip_escape.
  - intros (Hne & _). rewrite lstrip_joinP; [|apply ws_sep1|destruct ss; [congruence|discriminate]].
    f_equal. apply map_map_hd. intros x _. symmetry. apply lstrip_escape.
Qed.

Lemma last_map_escape ss : ss <> [] -> last (map escape ss) [0] = escape (last ss [0]).
Proof.
  intros Hne. rewrite (last_indep _ [0] (escape [0])) by (destruct ss; [congruence|discriminate]).
  apply last_map.
Qed.

Lemma piece_rstrip e : elem_wf e -> inner_ok e -> piece (rstrip_elem e) = rstrip (piece e).
Proof.
  destruct e as [s|ss]; cbn [elem_wf rstrip_elem piece inner_ok].
  - intros _ _. symmetry. apply rstrip_escape.
  - intros (Hne & _) Hin. rewrite rstrip_joinP.
    + f_equal. apply map_map_last2. intros x _. symmetry. apply rstrip_escape.
    + apply ws_sep1.
    + destruct ss; [congruence|discriminate].
    + rewrite map_length. intros H2. rewrite last_map_escape by exact Hne. rewrite rstrip_escape.
      intros E. apply escape_nil_inv in E. revert E. apply strip_nonnil_rstrip, Hin, H2.
Qed.

Lemma trim_lstrip_elem e : trim (elem_nv (lstrip_elem e)) = trim (elem_nv e).
Proof.
  destruct e as [s|ss]; cbn [lstrip_elem elem_nv trim]; [rewrite strip_lstrip; reflexivity|].
  f_equal. rewrite !map_map. apply map_hd_id. intros x _. cbn [trim]. rewrite strip_lstrip. reflexivity.
Qed.

Lemma trim_rstrip_elem e : trim (elem_nv (rstrip_elem e)) = trim (elem_nv e).
Proof.
  destruct e as [s|ss]; cbn [rstrip_elem elem_nv trim]; [rewrite strip_rstrip; reflexivity|].
  f_equal. rewrite !map_map. apply map_last2_id. intros x _. cbn [trim]. rewrite strip_rstrip. reflexivity.
Qed.

(* ------------------------------------------------------------------ the round trip through parse, typed values *)
(* the outer list does not end in a blank string (in the TRIMMED value) *)
Definition outer_ok (es : list elem) : Prop :=
  (2 <= length es)%nat -> match last es (ELst []) with EStr s => strip s <> [] | ELst _ => True end.

Definition strip_elems (es : list elem) : list elem := map_last2 rstrip_elem (map_hd lstrip_elem es).

Lemma Forall_In {X} (P : X -> Prop) l x : Forall P l -> In x l -> P x.
Proof. intros H. rewrite Forall_forall in H. apply H. Qed.

Lemma last_In' {X} (l : list X) d : l <> [] -> In (last l d) l.
Proof. apply last_In. Qed.

Lemma strip_joined es :
  es <> [] -> Forall elem_wf es -> Forall inner_ok es -> outer_ok es ->
  strip (joinP sep0 (map piece es)) = joinP sep0 (map piece (strip_elems es)).
Proof.
  intros Hne Hwf Hin Hout. unfold strip, strip_elems.
  rewrite lstrip_joinP; [|apply ws_sep0|destruct es; [congruence|discriminate]].
  rewrite <- (map_map_hd piece lstrip_elem lstrip es)
    by (intros x Hx; apply piece_lstrip, (Forall_In _ _ _ Hwf Hx)).
  set (es1 := map_hd lstrip_elem es).
  assert (Hne1 : es1 <> []) by (subst es1; destruct es; [congruence|discriminate]).
  assert (Hwf1 : Forall elem_wf es1).
  { apply Forall_forall. intros z Hz. subst es1.
    destruct (In_map_hd _ _ _ Hz) as (x & Hx & [->| ->]);
      [apply (Forall_In _ _ _ Hwf Hx)|apply elem_wf_lstrip, (Forall_In _ _ _ Hwf Hx)]. }
  assert (Hin1 : Forall inner_ok es1).
  { apply Forall_forall. intros z Hz. subst es1.
    destruct (In_map_hd _ _ _ Hz) as (x & Hx & [->| ->]); [apply (Forall_In _ _ _ Hin Hx)|].
    pose proof (Forall_In _ _ _ Hin Hx) as Hx'. destruct x as [s|ss]; cbn [lstrip_elem inner_ok] in *; [exact I|].
    rewrite map_hd_length. intros H2. rewrite map_hd_last2 by exact H2. apply Hx', H2. }
  rewrite rstrip_joinP.
  - f_equal. symmetry. apply map_map_last2. intros x Hx.
    apply piece_rstrip; [apply (Forall_In _ _ _ Hwf1 Hx)|apply (Forall_In _ _ _ Hin1 Hx)].
  - apply ws_sep0.
  - destruct es1; [congruence|discriminate].
  - rewrite map_length. intros H2.
    rewrite (last_indep _ [0] (piece (ELst []))) by (destruct es1; [congruence|discriminate]).
    rewrite last_map.
    assert (Hlast : In (last es1 (ELst [])) es1) by (apply last_In; exact Hne1).
    rewrite <- piece_rstrip by (first [apply (Forall_In _ _ _ Hwf1 Hlast)|apply (Forall_In _ _ _ Hin1 Hlast)]).
    intros E. apply piece_nil_inv in E.
    + (* the last element right-stripped is the empty string: excluded by outer_ok *)
      subst es1. rewrite map_hd_length in H2. rewrite map_hd_last2 in E by exact H2.
      specialize (Hout H2). destruct (last es (ELst [])) as [s|ss]; cbn [rstrip_elem] in E; [|discriminate].
      injection E as E. revert E. apply strip_nonnil_rstrip, Hout.
    + apply elem_wf_rstrip; [apply (Forall_In _ _ _ Hwf1 Hlast)|apply (Forall_In _ _ _ Hin1 Hlast)].
Qed.

Lemma strip_elems_wf es :
  es <> [] -> Forall elem_wf es -> Forall inner_ok es -> outer_ok es ->
  strip_elems es <> [] /\ outer_lastne (strip_elems es) /\ Forall elem_wf (strip_elems es).
Proof.
  intros Hne Hwf Hin Hout. unfold strip_elems.
  set (es1 := map_hd lstrip_elem es).
  assert (Hne1 : es1 <> []) by (subst es1; destruct es; [congruence|discriminate]).
  assert (Hwf1 : Forall elem_wf es1).
  { apply Forall_forall. intros z Hz. subst es1.
    destruct (In_map_hd _ _ _ Hz) as (x & Hx & [->| ->]);
      [apply (Forall_In _ _ _ Hwf Hx)|apply elem_wf_lstrip, (Forall_In _ _ _ Hwf Hx)]. }
  assert (Hin1 : Forall inner_ok es1).
  { apply Forall_forall. intros z Hz. subst es1.
    destruct (In_map_hd _ _ _ Hz) as (x & Hx & [->| ->]); [apply (Forall_In _ _ _ Hin Hx)|].
    pose proof (Forall_In _ _ _ Hin Hx) as Hx'. destruct x as [s|ss]; cbn [lstrip_elem inner_ok] in *; [exact I|].
    rewrite map_hd_length. intros H2. rewrite map_hd_last2 by exact H2. apply Hx', H2. }
  destruct es1 as [|x [|y r]] eqn:E1; [congruence| |].
  - cbn [map_last2]. split; [discriminate|]. split; [|exact Hwf1].
    unfold outer_lastne. cbn [length]. lia.
  - unfold map_last2. split; [|split].
    + intros E. apply (f_equal (@length elem)) in E. rewrite map_last_length in E. discriminate.
    + unfold outer_lastne. intros _. rewrite map_last_last by discriminate.
      assert (H2 : (2 <= length es)%nat).
      { subst es1. apply (f_equal (@length elem)) in E1. rewrite map_hd_length in E1. rewrite E1. cbn [length]. lia. }
      assert (El : last (x :: y :: r) (ELst []) = last es (ELst [])).
      { rewrite <- E1. subst es1. apply map_hd_last2, H2. }
      rewrite El. specialize (Hout H2). destruct (last es (ELst [])) as [s|ss]; cbn [rstrip_elem]; [|discriminate].
      intros E. injection E as E. revert E. apply strip_nonnil_rstrip, Hout.
    + apply Forall_forall. intros z Hz.
      destruct (In_map_last _ _ _ Hz) as (w & Hw & [->| ->]); [apply (Forall_In _ _ _ Hwf1 Hw)|].
      apply elem_wf_rstrip; [apply (Forall_In _ _ _ Hwf1 Hw)|apply (Forall_In _ _ _ Hin1 Hw)].
Qed.

Lemma trim_strip_elems es : map trim (map elem_nv (strip_elems es)) = map trim (map elem_nv es).
Proof.
  unfold strip_elems. rewrite !map_map.
  rewrite (map_last2_id (fun e => trim (elem_nv e)) rstrip_elem) by (intros x _; apply trim_rstrip_elem).
  apply (map_hd_id (fun e => trim (elem_nv e)) lstrip_elem). intros x _. apply trim_lstrip_elem.
Qed.

Theorem elems_parse_roundtrip es :
  es <> [] -> Forall elem_wf es -> Forall inner_ok es -> outer_ok es ->
  split_into_lists (strip (joinP sep0 (map piece es))) = trim (Lst (map elem_nv es)).
Proof.
  intros Hne Hwf Hin Hout.
  rewrite (strip_joined es Hne Hwf Hin Hout).
  destruct (strip_elems_wf es Hne Hwf Hin Hout) as (H1 & H2 & H3).
  destruct (elems_roundtrip _ H1 H2 H3) as [_ P]. rewrite P.
  cbn [trim]. rewrite trim_strip_elems. reflexivity.
Qed.

(* ------------------------------------------------------------------ untyped values *)
Lemma leaf_ok_trim_str x : leaf_ok (trim x) = true -> exists s, x = Str s.
Proof. destruct x as [s|l]; [intros _; exists s; reflexivity|discriminate]. Qed.

Lemma last_map_trim_leaf l :
  forallb leaf_ok l = true -> l <> [] ->
  last (map trim l) (Lst []) = Str (strip (last (map leaf_str l) [0])).
Proof.
  intros Hl Hne. destruct (leaves_inv l Hl) as [E _].
  rewrite <- E at 1. rewrite !map_map. cbn [trim].
  rewrite (last_indep _ (Lst []) ((fun x => Str (strip (leaf_str x))) (Str [0]))) by (destruct l; [congruence|discriminate]).
  rewrite (last_map (fun x => Str (strip (leaf_str x))) l (Str [0])).
  rewrite (last_indep (map leaf_str l) [0] (leaf_str (Str [0]))) by (destruct l; [congruence|discriminate]).
  rewrite last_map. reflexivity.
Qed.

Lemma inner_ok_of_trim x :
  elem_ok x = true -> elem_ok (trim x) = true -> inner_ok (to_elem x).
Proof.
  destruct x as [s|l]; cbn [to_elem inner_ok]; [intros; exact I|].
  cbn [elem_ok trim]. intros H Ht H2. rewrite map_length in H2.
  apply andb_true_iff in H as [H H3]. apply andb_true_iff in Ht as [Ht _]. apply andb_true_iff in Ht as [_ Ht].
  destruct l as [|a [|b r]]; cbn [length] in H2; try lia.
  assert (Hl : last_ok (map trim (a :: b :: r)) = true) by exact Ht.
  cbn [map last_ok] in Hl. change (trim a :: trim b :: map trim r) with (map trim (a :: b :: r)) in Hl.
  rewrite (last_map_trim_leaf (a :: b :: r) H3) in Hl by discriminate.
  intros E. rewrite E in Hl. discriminate.
Qed.

Lemma forallb_map_trim_inner l :
  forallb elem_ok l = true -> forallb elem_ok (map trim l) = true -> Forall inner_ok (map to_elem l).
Proof.
  induction l as [|x r IH]; [constructor|].
  cbn [forallb map]. intros H Ht. apply andb_true_iff in H as [Hx Hr]. apply andb_true_iff in Ht as [Htx Htr].
  constructor; [apply inner_ok_of_trim; assumption|apply IH; assumption].
Qed.

Lemma last_map_trim l d : l <> [] -> last (map trim l) d = trim (last l d).
Proof.
  intros Hne. rewrite (last_indep _ d (trim d)) by (destruct l; [congruence|discriminate]). apply last_map.
Qed.

Lemma outer_ok_of_trim l :
  last_ok (map trim l) = true -> outer_ok (map to_elem l).
Proof.
  unfold outer_ok. rewrite map_length. intros Hl H2.
  destruct l as [|a [|b r]]; cbn [length] in H2; try lia.
  cbn [map last_ok] in Hl. change (trim a :: trim b :: map trim r) with (map trim (a :: b :: r)) in Hl.
  rewrite last_map_trim in Hl by discriminate.
  rewrite (last_indep _ (ELst []) (to_elem (Lst []))) by discriminate. rewrite last_map.
  destruct (last (a :: b :: r) (Lst [])) as [s|l']; cbn [to_elem]; [|exact I].
  cbn [trim nonblank] in Hl. intros E. rewrite E in Hl. discriminate.
Qed.

(* C08-2 for parse: every nested list up to depth two whose lists are non-empty and do not end in a BLANK
   string survives join_from_lists + (strip, split_into_lists), trimmed *)
Theorem list_parse_roundtrip v :
  wfb v = true -> wfb (trim v) = true ->
  exists txt, join_from_lists 0 v = Some txt /\ split_into_lists (strip txt) = trim v.
Proof.
  destruct v as [s|l].
  - cbn [wfb trim]. intros H _. exists (escape s).
    destruct (string_roundtrip s H) as [E1 _]. split; [exact E1|].
    rewrite strip_escape_commute.
    assert (Hs : str_ok (strip s) = true).
    { unfold str_ok in *. destruct cleanse_tmp as [t|]; [|reflexivity].
      apply negb_true_iff in H. apply negb_true_iff. apply mem_strip_false, H. }
    destruct (string_roundtrip (strip s) Hs) as [_ E2]. rewrite E2.
    f_equal. unfold strip at 1. unfold strip at 1. unfold strip.
    rewrite lstrip_rstrip_comm, lstrip_idem, rstrip_idem'. reflexivity.
  - intros H Ht. cbn [wfb] in H. cbn [trim wfb] in Ht.
    apply andb_true_iff in H as [H H3]. apply andb_true_iff in H as [H1 H2].
    apply andb_true_iff in Ht as [Ht Ht3]. apply andb_true_iff in Ht as [_ Ht2].
    destruct (elems_inv l H3) as [E F].
    assert (Hne : map to_elem l <> []) by (destruct l; discriminate).
    pose proof (forallb_map_trim_inner l H3 Ht3) as Hin.
    pose proof (outer_ok_of_trim l Ht2) as Hout.
    exists (joinP sep0 (map piece (map to_elem l))). split.
    + rewrite <- E at 1. apply join_elems; [exact F|apply last_ok_elems; assumption].
    + rewrite (elems_parse_roundtrip _ Hne F Hin Hout). rewrite E. reflexivity.
Qed.
