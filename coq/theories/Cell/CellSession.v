(* E1 — ONE CellParser object working through a SEQUENCE of calls (definitions only).

   A real run shares one CellParser among all the cells of a sheet (RowParser.cell_parser, one
   per SheetParser), so what a cell parses to must not depend on the cells the same object has
   parsed before.  This file is the state machine of that object:

     cp_state   what the object holds after __init__ — its two Jinja environments, of which the
                model knows the undefined-variable policy (the regenerated constants
                env_undefined_policy / native_undefined_policy); NO method of the class assigns
                an attribute, so no step changes the state (cp_step returns it as it was);
     cp_op      the calls of the public API: parse / parse_as_string (cell, context), the same
                with value None, split_into_lists, split_by_separator, cleanse, join_from_lists,
                escape_string;
     cp_run     a history: the list of results, the state threaded through.

   parse / parse_as_string are Tmpl/MiniJinja.parse_f / parse_as_string_f (the mini-Jinja
   sub-language; outside it the answer is Err EUnsupported and nothing is claimed). *)
From Coq Require Import List NArith Bool.
From RPFT Require Import Base.Sexp Base.PyStr Base.Result Gen.Tables Cell.Cell Tmpl.MiniJinja.
Import ListNotations.
Local Open Scope N_scope.

Record cp_state := mk_cp {
  cp_env : undefined_policy;        (* self.env = Environment(undefined=...) *)
  cp_native : undefined_policy      (* self.native_env = NativeEnvironment(..., undefined=...) *)
}.

(* CellParser() *)
Definition cp_init : cp_state := mk_cp env_undefined_policy native_undefined_policy.

Inductive cp_op :=
| OpParse (octx : option ctx) (c : cell)          (* cp.parse(show_cell c, context) ; None = context None *)
| OpParseAsString (octx : option ctx) (c : cell)  (* cp.parse_as_string(show_cell c, context) *)
| OpParseNone (as_string : bool)                  (* value None: parse_as_string(None) / parse(None) *)
| OpSplit (s : str)                               (* cp.split_into_lists(s) *)
| OpSplitBy (s : str) (second : bool)             (* cp.split_by_separator(s, SEPARATORS[0 or 1]) *)
| OpCleanse (s : str)                             (* cp.cleanse(s) *)
| OpJoin (v : nv)                                 (* cp.join_from_lists(v) ; None = raises *)
| OpEscape (s : str).                             (* CellParser.escape_string(s) *)

Inductive cp_res :=
| RCell (r : result terr pres)
| RSplit (r : split_res)
| RStr (s : str)
| RNv (v : nv)
| RJoin (o : option str).

(* what the call returns, given what the object holds *)
Definition cp_apply (st : cp_state) (op : cp_op) : cp_res :=
  match op with
  | OpParse octx c => RCell (parse_m (cp_env st) (cp_native st) octx c)
  | OpParseAsString octx c => RCell (parse_as_string_m (cp_env st) (cp_native st) octx c)
  | OpParseNone true => RCell (Ok (PStr []))                       (* `if value is None: return ""` *)
  | OpParseNone false => RCell (Ok (PNv (split_into_lists [])))    (* parse: not an object -> split "" *)
  | OpSplit s => RNv (split_into_lists s)
  | OpSplitBy s second => RSplit (split_by_separator s (if second then sep1 else sep0))
  | OpCleanse s => RStr (cleanse_str s)
  | OpJoin v => RJoin (join_from_lists 0 v)
  | OpEscape s => RStr (escape_string s)
  end.

(* one call on the object: the result and the object afterwards *)
Definition cp_step (st : cp_state) (op : cp_op) : cp_state * cp_res := (st, cp_apply st op).

Fixpoint cp_run (st : cp_state) (ops : list cp_op) : cp_state * list cp_res :=
  match ops with
  | [] => (st, [])
  | op :: r =>
    let (st1, x) := cp_step st op in
    let (st2, xs) := cp_run st1 r in
    (st2, x :: xs)
  end.

(* the cell whose text is s, for texts without a Jinja opener *)
Definition plain_cell (s : str) : cell := CTmpl [NText s].

(* parse_as_string's early return: context None, or empty context and no "{" in the stripped cell *)
Definition fast_path (octx : option ctx) (s : str) : bool :=
  match octx with
  | None => true
  | Some [] => negb (mem_char 123 (strip s))
  | Some (_ :: _) => false
  end.

Definition is_native_text (s : str) : bool :=
  starts_with [123; 64] (strip s) && ends_with [64; 125] (strip s).
