(* Facts about the CellParser state machine (Cell/CellSession.v): what a call returns does not
   depend on the calls made before it on the same object, and the statements of C08 therefore hold
   at ANY point of ANY history. *)
From Coq Require Import List NArith ZArith Bool Lia.
From RPFT Require Import Base.Sexp Base.PyStr Base.Result Gen.Tables Cell.Cell Cell.CellFacts Cell.CellParseFacts
  Tmpl.MiniJinja Cell.CellSession.
Import ListNotations.
Local Open Scope N_scope.

(* ------------------------------------------------------------------ history independence *)
Theorem cp_run_spec st ops : cp_run st ops = (st, map (cp_apply st) ops).
Proof.
  induction ops as [|op r IH]; cbn [cp_run cp_step map].
  - reflexivity.
  - rewrite IH. reflexivity.
Qed.

Corollary cp_state_unchanged st ops : fst (cp_run st ops) = st.
Proof. rewrite cp_run_spec. reflexivity. Qed.

Lemma nth_error_middle {X} (pre : list X) x post : nth_error (pre ++ x :: post) (length pre) = Some x.
Proof. induction pre as [|a pre IH]; cbn [app length nth_error]; [reflexivity | exact IH]. Qed.

(* the result of a call is the result of the same call on the object as created, whatever was
   called before (pre) and whatever is called afterwards (post) *)
Theorem cp_history_independent st pre op post :
  nth_error (snd (cp_run st (pre ++ op :: post))) (length pre) = Some (cp_apply st op).
Proof.
  rewrite cp_run_spec. cbn [snd]. rewrite map_app. cbn [map].
  rewrite <- (map_length (cp_apply st) pre). apply nth_error_middle.
Qed.

(* two histories, one call: same result *)
Corollary cp_same_call_same_result st pre1 pre2 op :
  nth_error (snd (cp_run st (pre1 ++ [op]))) (length pre1)
  = nth_error (snd (cp_run st (pre2 ++ [op]))) (length pre2).
Proof. rewrite !cp_history_independent. reflexivity. Qed.

(* in particular: after a native {@ @} cell the object parses the next cell as a fresh one does *)
Corollary cp_after_native_cell st octx e op :
  nth_error (snd (cp_run st [OpParse octx (CNative e); op])) 1 = nth_error (snd (cp_run st [op])) 0.
Proof.
  pose proof (cp_history_independent st [OpParse octx (CNative e)] op []) as H1. cbn [app length] in H1.
  pose proof (cp_history_independent st [] op []) as H2. cbn [app length] in H2.
  rewrite H1, H2. reflexivity.
Qed.

(* ------------------------------------------------------------------ the entry points *)
Lemma show_plain_cell s : show_cell (plain_cell s) = s.
Proof. unfold plain_cell, show_cell. cbn [flat_map show_node]. apply app_nil_r. Qed.

Lemma parse_as_string_fast fl pe pn octx c :
  fast_path octx (show_cell c) = true ->
  parse_as_string_f fl pe pn octx c = Ok (PStr (strip (show_cell c))).
Proof.
  unfold fast_path, parse_as_string_f. destruct octx as [[|kv cx]|]; intros H.
  - rewrite H. reflexivity.
  - discriminate.
  - reflexivity.
Qed.

(* context None, or empty context and no "{": the cell is stripped and split; nothing is rendered *)
Theorem parse_fast fl pe pn octx c :
  fast_path octx (show_cell c) = true ->
  parse_f fl pe pn octx c = Ok (PNv (split_into_lists (strip (show_cell c)))).
Proof. intros H. unfold parse_f. rewrite (parse_as_string_fast fl pe pn octx c H). reflexivity. Qed.

(* "templates are expanded before splitting": whenever parse_as_string hands back a STRING (the cell
   untouched on the fast path, or the rendered text), parse is the split of exactly that string *)
Theorem expand_then_split fl pe pn octx c s :
  parse_as_string_f fl pe pn octx c = Ok (PStr s) ->
  parse_f fl pe pn octx c = Ok (PNv (split_into_lists s)).
Proof. intros H. unfold parse_f. rewrite H. reflexivity. Qed.

(* a native {@ @} result is handed back as it is, never split *)
Theorem native_result_not_split fl pe pn octx c v :
  parse_as_string_f fl pe pn octx c = Ok (PObj v) ->
  parse_f fl pe pn octx c = Ok (PObj v).
Proof. intros H. unfold parse_f. rewrite H. reflexivity. Qed.

(* and WHICH of the two it is depends on the text of this cell only: off the fast path a cell that
   starts with "{@" and ends with "@}" gives an object, any other cell gives a string *)
Theorem result_kind_by_text fl pe pn octx c r :
  parse_as_string_f fl pe pn octx c = Ok r ->
  if fast_path octx (show_cell c) then r = PStr (strip (show_cell c))
  else if is_native_text (show_cell c) then exists v, r = PObj v
  else exists s, r = PStr s.
Proof.
  destruct (fast_path octx (show_cell c)) eqn:F.
  - rewrite (parse_as_string_fast fl pe pn octx c F). intros E. injection E as E. symmetry. exact E.
  - unfold parse_as_string_f, is_native_text. unfold fast_path in F.
    destruct octx as [cx|]; [|discriminate].
    assert (G : (match cx with [] => true | _ :: _ => false end) && negb (mem_char 123 (strip (show_cell c))) = false).
    { destruct cx; [exact F | reflexivity]. }
    rewrite G.
    destruct (negb (cell_ok c)); [discriminate|].
    destruct (starts_with [123; 64] (strip (show_cell c)) && ends_with [64; 125] (strip (show_cell c))).
    + destruct (find_sub [123; 64] (skipn 2 (strip (show_cell c)))); [discriminate|].
      destruct c as [t|e]; [discriminate|].
      destruct (eval_native (f_nat_check fl) pn e cx) as [v|er]; [|discriminate].
      intros E. injection E as E. exists v. symmetry. exact E.
    + destruct c as [t|e]; [|discriminate].
      destruct (render (f_env_repr fl) pe (strip_last (strip_first t)) cx) as [s|er]; [|discriminate].
      intros E. injection E as E. exists s. symmetry. exact E.
Qed.

(* ------------------------------------------------------------------ strip is idempotent *)
Lemma rstrip_idem s : rstrip (rstrip s) = rstrip s.
Proof.
  induction s as [|c r IH]; [reflexivity|].
  cbn [rstrip]. destruct (rstrip r) as [|d t] eqn:E.
  - destruct (is_ws c) eqn:W; [reflexivity|]. cbn [rstrip]. rewrite W. reflexivity.
  - cbn [rstrip]. cbn [rstrip] in IH. rewrite IH. reflexivity.
Qed.

Lemma lstrip_rstrip_lstrip s : lstrip (rstrip (lstrip s)) = rstrip (lstrip s).
Proof.
  induction s as [|c r IH]; [reflexivity|].
  cbn [lstrip]. destruct (is_ws c) eqn:W; [exact IH|].
  rewrite (rstrip_cons_nonws c r W). cbn [lstrip]. rewrite W. reflexivity.
Qed.

Lemma strip_idem s : strip (strip s) = strip s.
Proof. unfold strip. rewrite lstrip_rstrip_lstrip. apply rstrip_idem. Qed.

Lemma str_ok_strip s : str_ok s = true -> str_ok (strip s) = true.
Proof.
  unfold str_ok. destruct cleanse_tmp as [t|]; [|reflexivity].
  intros H. apply negb_true_iff in H. apply negb_true_iff. apply mem_strip_false, H.
Qed.

(* ------------------------------------------------------------------ C08 at any point of a history *)
(* parse = strip the cell, then split: a string survives join + PARSE, trimmed *)
Lemma parse_string_roundtrip s : str_ok s = true -> split_into_lists (strip (escape s)) = Str (strip s).
Proof.
  intros H. rewrite strip_escape_commute.
  destruct (string_roundtrip (strip s) (str_ok_strip s H)) as [_ E]. rewrite E, strip_idem. reflexivity.
Qed.

Theorem string_roundtrip_in_history st pre post octx s :
  str_ok s = true -> fast_path octx (escape s) = true ->
  nth_error (snd (cp_run st (pre ++ OpParse octx (plain_cell (escape s)) :: post))) (length pre)
  = Some (RCell (Ok (PNv (Str (strip s))))).
Proof.
  intros Hs Hf. rewrite cp_history_independent. cbn [cp_apply]. unfold parse_m.
  rewrite parse_fast by (rewrite show_plain_cell; exact Hf).
  rewrite show_plain_cell, (parse_string_roundtrip s Hs). reflexivity.
Qed.

(* a nested list whose lists do not end in a BLANK string survives join + parse, trimmed (parse strips the CELL
   before it splits: CellParseFacts.list_parse_roundtrip) *)
Theorem list_roundtrip_in_history st pre post octx v txt :
  wfb v = true -> wfb (trim v) = true -> join_from_lists 0 v = Some txt -> fast_path octx txt = true ->
  nth_error (snd (cp_run st (pre ++ OpParse octx (plain_cell txt) :: post))) (length pre)
  = Some (RCell (Ok (PNv (trim v)))).
Proof.
  intros Hw Ht Hj Hf. rewrite cp_history_independent. cbn [cp_apply]. unfold parse_m.
  rewrite parse_fast by (rewrite show_plain_cell; exact Hf).
  rewrite show_plain_cell.
  destruct (list_parse_roundtrip v Hw Ht) as (t & J & P). rewrite Hj in J. injection J as J. subst t.
  rewrite P. reflexivity.
Qed.

(* the second condition cannot be dropped: ["a", " "] is well-formed, its joined text "a| " is stripped to "a|" *)
Example parse_needs_nonblank_last :
  let v := Lst [Str [97]; Str [32]] in
  wfb v = true /\ wfb (trim v) = false
  /\ join_from_lists 0 v = Some [97; 124; 32]
  /\ split_into_lists [97; 124; 32] = trim v
  /\ split_into_lists (strip [97; 124; 32]) = Lst [Str [97]].
Proof. vm_compute. repeat split; reflexivity. Qed.

(* string or list is decided by the text of the cell, at any point of a history *)
Theorem no_sep_is_string_in_history st pre post octx s :
  no_unescaped_sep (strip s) -> fast_path octx s = true ->
  nth_error (snd (cp_run st (pre ++ OpParse octx (plain_cell s) :: post))) (length pre)
  = Some (RCell (Ok (PNv (Str (cleanse_str (strip s)))))).
Proof.
  intros Hn Hf. rewrite cp_history_independent. cbn [cp_apply]. unfold parse_m.
  rewrite parse_fast by (rewrite show_plain_cell; exact Hf).
  rewrite show_plain_cell, (no_sep_is_string _ Hn). reflexivity.
Qed.

Theorem unescaped_sep_is_list_in_history st pre post octx s :
  ~ no_unescaped_sep (strip s) -> fast_path octx s = true ->
  exists l, nth_error (snd (cp_run st (pre ++ OpParse octx (plain_cell s) :: post))) (length pre)
            = Some (RCell (Ok (PNv (Lst l)))).
Proof.
  intros Hn Hf. destruct (unescaped_sep_is_list _ Hn) as [l E]. exists l.
  rewrite cp_history_independent. cbn [cp_apply]. unfold parse_m.
  rewrite parse_fast by (rewrite show_plain_cell; exact Hf).
  rewrite show_plain_cell, E. reflexivity.
Qed.

(* non-vacuity: a history with a native cell, a failing cell and a template before the cell at hand *)
Example history_example :
  let native := OpParse (Some []) (CNative (EList [EInt 1%Z; EInt 2%Z])) in
  let failing := OpParseAsString (Some []) (CTmpl [NOut (EVar [120])]) in
  let cell := OpParse (Some []) (plain_cell [97; 124; 98; 92; 59; 99]) in        (* a|b\;c *)
  snd (cp_run cp_init [native; failing; cell])
  = [RCell (Ok (PObj (VList [VInt 1%Z; VInt 2%Z])));
     RCell (match env_undefined_policy with Strict => Err EUndefined | Lenient => Ok (PStr []) end);
     RCell (Ok (PNv (Lst [Str [97]; Str [98; 59; 99]])))].
Proof. vm_compute. destruct env_undefined_policy; reflexivity. Qed.
