(* Facts about the mini-Jinja model (E3) and the templating row loop.  Proofs only. *)
From Coq Require Import List NArith ZArith Bool Lia.
From RPFT Require Import Base.Sexp Base.PyStr Base.Result Gen.Tables Cell.Cell Cell.CellFacts
  Tmpl.MiniJinja Tmpl.RowLoop.
Import ListNotations.

(* an error that is a statement about the code (not "outside the sub-language"/"out of fuel") *)
Definition hard_err {T} (r : result terr T) : Prop :=
  exists e, r = Err e /\ e <> EUnsupported /\ e <> EFuel.

Lemma hard_undef {T} : @hard_err T (Err EUndefined).
Proof. exists EUndefined. repeat split; discriminate. Qed.
Lemma hard_type {T} : @hard_err T (Err ETypeErr).
Proof. exists ETypeErr. repeat split; discriminate. Qed.

Lemma hard_err_map {S T} (r : result terr S) (k : S -> result terr T) :
  hard_err r -> hard_err (match r with Err e => Err e | Ok v => k v end).
Proof. intros [e [-> H]]. exists e. split; [reflexivity|exact H]. Qed.

(* ------------------------------------------------------------------ evaluation order *)

(* [yields c e x]: e evaluates, without anything being forced, to the Undefined object that
   the reference to x produced *)
Inductive yields (c : ctx) : expr -> str -> Prop :=
| Y_var x : yields c (EVar x) x
| Y_and a b x v : eval Strict c a = Ok v -> truthy Strict v = Ok true -> yields c b x -> yields c (EAnd a b) x
| Y_or a b x v : eval Strict c a = Ok v -> truthy Strict v = Ok false -> yields c b x -> yields c (EOr a b) x.

(* one entry of a dict literal *)
Definition eval_kv (p : undefined_policy) (c : ctx) (ka : str * expr) : result terr (str * value) :=
  match eval p c (snd ka) with Err e => Err e | Ok x => Ok (fst ka, x) end.

(* [carries c e x]: e evaluates, without anything being forced, to a value that IS the Undefined
   object of x or a list / tuple / dict literal (nested to any depth) that HOLDS it; the other
   elements of the literals evaluate without error (left to right, as eval does) *)
Inductive carries (c : ctx) : expr -> str -> Prop :=
| C_var x : carries c (EVar x) x
| C_and a b x v : eval Strict c a = Ok v -> truthy Strict v = Ok true -> carries c b x -> carries c (EAnd a b) x
| C_or a b x v : eval Strict c a = Ok v -> truthy Strict v = Ok false -> carries c b x -> carries c (EOr a b) x
| C_list pre a post x vs ws : mapM (eval Strict c) pre = Ok vs -> carries c a x ->
    mapM (eval Strict c) post = Ok ws -> carries c (EList (pre ++ a :: post)) x
| C_tuple pre a post x vs ws : mapM (eval Strict c) pre = Ok vs -> carries c a x ->
    mapM (eval Strict c) post = Ok ws -> carries c (ETuple (pre ++ a :: post)) x
| C_dict pre k a post x vs ws : distinct_keys (map fst (pre ++ (k, a) :: post)) = true ->
    mapM (eval_kv Strict c) pre = Ok vs -> carries c a x ->
    mapM (eval_kv Strict c) post = Ok ws -> carries c (EDict (pre ++ (k, a) :: post)) x.

(* [eforced c e x]: evaluating e reaches an operation that forces the Undefined object of x;
   every rule follows the evaluation order of [eval] (what is evaluated before must be Ok) *)
Inductive eforced (c : ctx) : expr -> str -> Prop :=
| F_attr a f x : yields c a x -> reserved_attr f = false -> eforced c (EAttr a f) x
| F_attr_in a f x : eforced c a x -> eforced c (EAttr a f) x
| F_index a i x k : yields c a x -> eval Strict c i = Ok k -> eforced c (EIndex a i) x
| F_index_l a i x : eforced c a x -> eforced c (EIndex a i) x
| F_index_r a i x v : eval Strict c a = Ok v -> eforced c i x -> eforced c (EIndex a i) x
| F_eq_l a b x y : yields c a x -> eval Strict c b = Ok y -> eforced c (EEq a b) x
| F_eq_r a b x v : eval Strict c a = Ok v -> yields c b x -> eforced c (EEq a b) x
| F_eq_in_l a b x : eforced c a x -> eforced c (EEq a b) x
| F_eq_in_r a b x v : eval Strict c a = Ok v -> eforced c b x -> eforced c (EEq a b) x
| F_ne_l a b x y : yields c a x -> eval Strict c b = Ok y -> eforced c (ENe a b) x
| F_ne_r a b x v : eval Strict c a = Ok v -> yields c b x -> eforced c (ENe a b) x
| F_ne_in_l a b x : eforced c a x -> eforced c (ENe a b) x
| F_ne_in_r a b x v : eval Strict c a = Ok v -> eforced c b x -> eforced c (ENe a b) x
| F_not a x : yields c a x -> eforced c (ENot a) x
| F_not_in a x : eforced c a x -> eforced c (ENot a) x
| F_and_l a b x : yields c a x -> eforced c (EAnd a b) x
| F_and_in_l a b x : eforced c a x -> eforced c (EAnd a b) x
| F_and_in_r a b x v : eval Strict c a = Ok v -> truthy Strict v = Ok true -> eforced c b x -> eforced c (EAnd a b) x
| F_or_l a b x : yields c a x -> eforced c (EOr a b) x
| F_or_in_l a b x : eforced c a x -> eforced c (EOr a b) x
| F_or_in_r a b x v : eval Strict c a = Ok v -> truthy Strict v = Ok false -> eforced c b x -> eforced c (EOr a b) x
| F_range a x : carries c a x -> eforced c (ERange a) x       (* range() of an Undefined / of a container *)
| F_range_in a x : eforced c a x -> eforced c (ERange a) x
| F_list pre a post x vs : mapM (eval Strict c) pre = Ok vs -> eforced c a x -> eforced c (EList (pre ++ a :: post)) x
| F_tuple pre a post x vs : mapM (eval Strict c) pre = Ok vs -> eforced c a x -> eforced c (ETuple (pre ++ a :: post)) x
| F_dict pre k a post x vs : distinct_keys (map fst (pre ++ (k, a) :: post)) = true ->
    mapM (eval_kv Strict c) pre = Ok vs -> eforced c a x -> eforced c (EDict (pre ++ (k, a) :: post)) x.

(* templates: [nforced rf c n x] / [lforced rf c l x] / [iforced rf c lv body items x].
   [rf] = "repr() of an Undefined object fails" (MiniJinja.repr): it decides what has been
   rendered before (the *_later rules) and whether PRINTING A CONTAINER that holds the
   Undefined object is a forcing position (N_out_holds). *)
Inductive nforced (rf : bool) : ctx -> node -> str -> Prop :=
| N_out c e x : yields c e x -> nforced rf c (NOut e) x
| N_out_in c e x : eforced c e x -> nforced rf c (NOut e) x
(* {{ [missing] }}, {{ {'k': (1, [missing])} }}: the container is printed element by element with
   repr(); [repr false v = Ok s]: apart from the Undefined object the value is printable (s is
   what a tree whose repr does not fail shows) *)
| N_out_holds c e x v s : rf = true -> carries c e x -> eval Strict c e = Ok v -> repr false v = Ok s ->
    nforced rf c (NOut e) x
| N_esc c e x : carries c e x -> nforced rf c (NOutEsc e) x
| N_esc_in c e x : eforced c e x -> nforced rf c (NOutEsc e) x
| N_if c cnd a b x : yields c cnd x -> nforced rf c (NIf cnd a b) x
| N_if_in c cnd a b x : eforced c cnd x -> nforced rf c (NIf cnd a b) x
| N_if_then c cnd a b x v : eval Strict c cnd = Ok v -> truthy Strict v = Ok true ->
    lforced rf c a x -> nforced rf c (NIf cnd a b) x
| N_if_else c cnd a b x v : eval Strict c cnd = Ok v -> truthy Strict v = Ok false ->
    lforced rf c b x -> nforced rf c (NIf cnd a b) x
| N_for c lv e body x : reserved_var lv = false -> yields c e x -> nforced rf c (NFor lv e body) x
| N_for_in c lv e body x : reserved_var lv = false -> eforced c e x -> nforced rf c (NFor lv e body) x
| N_for_body c lv e body x v items : reserved_var lv = false ->
    eval Strict c e = Ok v -> iter_values Strict v = Ok items ->
    iforced rf c lv body items x -> nforced rf c (NFor lv e body) x
with lforced (rf : bool) : ctx -> list node -> str -> Prop :=
| L_here c n r x : nforced rf c n x -> lforced rf c (n :: r) x
| L_later c n r x s : render_node rf Strict n c = Ok s -> lforced rf c r x -> lforced rf c (n :: r) x
with iforced (rf : bool) : ctx -> str -> list node -> list value -> str -> Prop :=
| I_here c lv body it r x : str_eqb lv x = false -> lforced rf ((lv, it) :: c) body x ->
    iforced rf c lv body (it :: r) x
| I_later c lv body it r x s : render rf Strict body ((lv, it) :: c) = Ok s ->
    iforced rf c lv body r x -> iforced rf c lv body (it :: r) x.

Scheme nforced_mut := Induction for nforced Sort Prop
  with lforced_mut := Induction for lforced Sort Prop
  with iforced_mut := Induction for iforced Sort Prop.
Combined Scheme forced_mutind from nforced_mut, lforced_mut, iforced_mut.

(* ------------------------------------------------------------------ values *)
(* induction over values with the nested lists *)
Section ValueInd.
  Variable P : value -> Prop.
  Hypothesis Hnone : P VNone.
  Hypothesis Hbool : forall b, P (VBool b).
  Hypothesis Hint : forall z, P (VInt z).
  Hypothesis Hstr : forall s, P (VStr s).
  Hypothesis Hlist : forall l, Forall P l -> P (VList l).
  Hypothesis Htuple : forall l, Forall P l -> P (VTuple l).
  Hypothesis Hdict : forall d, Forall (fun kv => P (snd kv)) d -> P (VDict d).
  Hypothesis Hrange : forall n, P (VRange n).
  Hypothesis Hundef : P VUndef.
  Fixpoint value_ind' (v : value) : P v :=
    match v with
    | VNone => Hnone
    | VBool b => Hbool b
    | VInt z => Hint z
    | VStr s => Hstr s
    | VList l => Hlist l ((fix go (l : list value) : Forall P l :=
                             match l with [] => Forall_nil _ | x :: r => Forall_cons _ (value_ind' x) (go r) end) l)
    | VTuple l => Htuple l ((fix go (l : list value) : Forall P l :=
                               match l with [] => Forall_nil _ | x :: r => Forall_cons _ (value_ind' x) (go r) end) l)
    | VDict d => Hdict d ((fix go (d : list (str * value)) : Forall (fun kv => P (snd kv)) d :=
                             match d with
                             | [] => Forall_nil _
                             | kv :: r => Forall_cons _ (value_ind' (snd kv)) (go r)
                             end) d)
    | VRange n => Hrange n
    | VUndef => Hundef
    end.
End ValueInd.

Lemma has_undef_list l : has_undef (VList l) = existsb has_undef l.
Proof. induction l as [|x r IH]; [reflexivity|]. cbn [existsb]. rewrite <- IH. reflexivity. Qed.
Lemma has_undef_tuple l : has_undef (VTuple l) = existsb has_undef l.
Proof. induction l as [|x r IH]; [reflexivity|]. cbn [existsb]. rewrite <- IH. reflexivity. Qed.
Lemma has_undef_dict d : has_undef (VDict d) = existsb (fun kv => has_undef (snd kv)) d.
Proof.
  induction d as [|[k x] r IH]; [reflexivity|]. cbn [existsb snd]. rewrite <- IH. reflexivity.
Qed.

(* repr of the three containers through mapM *)
Definition repr_kv (rf : bool) (kv : str * value) : result terr str :=
  match repr_str (fst kv), repr rf (snd kv) with
  | Ok kk, Ok a => Ok (kk ++ [58; 32] ++ a)%N
  | Err e, _ => Err e
  | _, Err e => Err e
  end.

Lemma repr_list rf l :
  repr rf (VList l) = match mapM (repr rf) l with
                      | Err e => Err e
                      | Ok parts => Ok (91 :: join_str [44; 32] parts ++ [93])%N
                      end.
Proof.
  cbn [repr].
  match goal with |- match ?g l with _ => _ end = _ => assert (H : g l = mapM (repr rf) l) end.
  { induction l as [|a r IH]; cbn [mapM]; [reflexivity|]. destruct (repr rf a); [|reflexivity]. rewrite IH. reflexivity. }
  rewrite H. reflexivity.
Qed.

Lemma repr_tuple rf l :
  repr rf (VTuple l) = match mapM (repr rf) l with
                       | Err e => Err e
                       | Ok [p] => Ok (40 :: p ++ [44; 41])%N
                       | Ok parts => Ok (40 :: join_str [44; 32] parts ++ [41])%N
                       end.
Proof.
  cbn [repr].
  match goal with |- match ?g l with _ => _ end = _ => assert (H : g l = mapM (repr rf) l) end.
  { induction l as [|a r IH]; cbn [mapM]; [reflexivity|]. destruct (repr rf a); [|reflexivity]. rewrite IH. reflexivity. }
  rewrite H. reflexivity.
Qed.

Lemma repr_dict rf d :
  repr rf (VDict d) = match mapM (repr_kv rf) d with
                      | Err e => Err e
                      | Ok parts => Ok (123 :: join_str [44; 32] parts ++ [125])%N
                      end.
Proof.
  cbn [repr].
  match goal with |- match ?g d with _ => _ end = _ => assert (H : g d = mapM (repr_kv rf) d) end.
  { induction d as [|[k x] r IH]; cbn [mapM]; [reflexivity|]. unfold repr_kv at 1. cbn [fst snd].
    destruct (repr_str k); destruct (repr rf x); try reflexivity. rewrite IH. reflexivity. }
  rewrite H. reflexivity.
Qed.

(* element-wise: what a tree whose repr does not fail prints, a tree whose repr fails prints
   too - unless an Undefined object is met, and then the error is UndefinedError *)
Lemma mapM_repr_strict {T} (f g : T -> result terr str) (h : T -> bool) l :
  Forall (fun x => forall s, f x = Ok s -> g x = if h x then Err EUndefined else Ok s) l ->
  forall parts, mapM f l = Ok parts ->
  mapM g l = if existsb h l then Err EUndefined else Ok parts.
Proof.
  induction 1 as [|x r Hx _ IH]; intros parts Hm; cbn [mapM existsb] in *.
  - exact Hm.
  - destruct (f x) as [a|] eqn:Ef; [|discriminate].
    destruct (mapM f r) as [t|] eqn:Er; [|discriminate]. inversion Hm; subst parts.
    rewrite (Hx _ eq_refl). destruct (h x); cbn [orb]; [reflexivity|].
    rewrite (IH _ eq_refl). destruct (existsb h r); reflexivity.
Qed.

Theorem repr_strict_of_lenient : forall v s,
  repr false v = Ok s -> repr true v = if has_undef v then Err EUndefined else Ok s.
Proof.
  induction v as [|b0|z0|s0|l IH|l IH|d IH|n0|] using value_ind'; intros s H; try exact H.
  - rewrite repr_list in *. rewrite has_undef_list.
    destruct (mapM (repr false) l) as [parts|] eqn:Em; [|discriminate].
    rewrite (mapM_repr_strict _ _ _ _ IH _ Em). destruct (existsb has_undef l); [reflexivity|exact H].
  - rewrite repr_tuple in *. rewrite has_undef_tuple.
    destruct (mapM (repr false) l) as [parts|] eqn:Em; [|discriminate].
    rewrite (mapM_repr_strict _ _ _ _ IH _ Em). destruct (existsb has_undef l); [reflexivity|exact H].
  - rewrite repr_dict in *. rewrite has_undef_dict.
    destruct (mapM (repr_kv false) d) as [parts|] eqn:Em; [|discriminate].
    assert (IH' : Forall (fun kv => forall s0, repr_kv false kv = Ok s0 ->
                            repr_kv true kv = if has_undef (snd kv) then Err EUndefined else Ok s0) d).
    { eapply Forall_impl; [|exact IH]. intros [k x] Hkv s0. unfold repr_kv. cbn [fst snd] in *.
      destruct (repr_str k) as [kk|]; [|discriminate].
      destruct (repr false x) as [a|] eqn:Ea; [|discriminate]. intros Hs.
      rewrite (Hkv _ eq_refl). destruct (has_undef x); [reflexivity|exact Hs]. }
    rewrite (mapM_repr_strict _ _ _ _ IH' _ Em).
    destruct (existsb (fun kv => has_undef (snd kv)) d); [reflexivity|exact H].
  - reflexivity.
Qed.

(* whatever a tree whose repr fails prints holds no Undefined object, at any depth *)
Lemma mapM_ok_all {T} (g : T -> result terr str) (h : T -> bool) l :
  Forall (fun x => forall s, g x = Ok s -> h x = false) l ->
  forall parts, mapM g l = Ok parts -> existsb h l = false.
Proof.
  induction 1 as [|x r Hx _ IH]; intros parts Hm; cbn [mapM existsb] in *; [reflexivity|].
  destruct (g x) as [a|] eqn:Eg; [|discriminate].
  destruct (mapM g r) as [t|] eqn:Er; [|discriminate].
  rewrite (Hx _ eq_refl), (IH _ eq_refl). reflexivity.
Qed.

Theorem repr_strict_no_leak : forall v s, repr true v = Ok s -> has_undef v = false.
Proof.
  induction v as [|b0|z0|s0|l IH|l IH|d IH|n0|] using value_ind'; intros s H; try reflexivity.
  - rewrite repr_list in H. rewrite has_undef_list.
    destruct (mapM (repr true) l) as [parts|] eqn:Em; [|discriminate]. exact (mapM_ok_all _ _ _ IH _ Em).
  - rewrite repr_tuple in H. rewrite has_undef_tuple.
    destruct (mapM (repr true) l) as [parts|] eqn:Em; [|discriminate]. exact (mapM_ok_all _ _ _ IH _ Em).
  - rewrite repr_dict in H. rewrite has_undef_dict.
    destruct (mapM (repr_kv true) d) as [parts|] eqn:Em; [|discriminate].
    refine (mapM_ok_all (repr_kv true) _ _ _ _ Em).
    eapply Forall_impl; [|exact IH]. intros [k x] Hkv s0. unfold repr_kv. cbn [fst snd] in *.
    destruct (repr_str k); [|discriminate]. destruct (repr true x) eqn:Ex; [|discriminate].
    intros _. exact (Hkv _ eq_refl).
  - discriminate.
Qed.

(* str() as {{ }} and RowParser's str field apply it *)
Theorem to_str_strict_no_leak : forall v s, to_str true Strict v = Ok s -> has_undef v = false.
Proof.
  intros v s H. destruct v; try reflexivity; try exact (repr_strict_no_leak _ _ H). discriminate.
Qed.

Lemma to_str_strict_holds : forall v s,
  has_undef v = true -> repr false v = Ok s -> to_str true Strict v = Err EUndefined.
Proof.
  intros v s Hu Hr. destruct v; try discriminate; try reflexivity;
    cbn [to_str]; rewrite (repr_strict_of_lenient _ _ Hr), Hu; reflexivity.
Qed.

(* ------------------------------------------------------------------ expressions *)
Lemma yields_undef c e x :
  yields c e x -> lookup c x = None -> reserved_var x = false -> eval Strict c e = Ok VUndef.
Proof.
  intros H Hl Hr. induction H as [x|a b x v Ha Ht _ IH|a b x v Ha Ht _ IH]; cbn.
  - rewrite Hr, Hl. reflexivity.
  - rewrite Ha, Ht. auto.
  - rewrite Ha, Ht. auto.
Qed.

Lemma yields_carries c e x : yields c e x -> carries c e x.
Proof. induction 1; econstructor; eassumption. Qed.

Lemma veq_undef_r x : veq Strict x VUndef = Err EUndefined.
Proof. destruct x; reflexivity. Qed.
Lemma veq_undef_l y : veq Strict VUndef y = Err EUndefined.
Proof. destruct y; reflexivity. Qed.

Lemma eval_list p c l :
  eval p c (EList l) = match mapM (eval p c) l with Err e => Err e | Ok vs => Ok (VList vs) end.
Proof.
  cbn [eval].
  match goal with |- match ?g l with _ => _ end = _ => assert (H : g l = mapM (eval p c) l) end.
  { induction l as [|a r IH]; cbn; [reflexivity|]. destruct (eval p c a); [|reflexivity]. rewrite IH. reflexivity. }
  rewrite H. reflexivity.
Qed.

Lemma eval_tuple p c l :
  eval p c (ETuple l) = match mapM (eval p c) l with Err e => Err e | Ok vs => Ok (VTuple vs) end.
Proof.
  cbn [eval].
  match goal with |- match ?g l with _ => _ end = _ => assert (H : g l = mapM (eval p c) l) end.
  { induction l as [|a r IH]; cbn; [reflexivity|]. destruct (eval p c a); [|reflexivity]. rewrite IH. reflexivity. }
  rewrite H. reflexivity.
Qed.

Lemma eval_dict p c d :
  eval p c (EDict d) = if negb (distinct_keys (map fst d)) then Err EUnsupported
                       else match mapM (eval_kv p c) d with Err e => Err e | Ok kvs => Ok (VDict kvs) end.
Proof.
  cbn [eval]. destruct (negb (distinct_keys (map fst d))); [reflexivity|].
  match goal with |- match ?g d with _ => _ end = _ => assert (H : g d = mapM (eval_kv p c) d) end.
  { induction d as [|[k a] r IH]; cbn [mapM]; [reflexivity|]. unfold eval_kv at 1. cbn [fst snd].
    destruct (eval p c a); [|reflexivity]. rewrite IH. reflexivity. }
  rewrite H. reflexivity.
Qed.

Lemma mapM_app_err {E S T} (f : S -> result E T) pre a post vs e :
  mapM f pre = Ok vs -> f a = Err e -> mapM f (pre ++ a :: post) = Err e.
Proof.
  revert vs. induction pre as [|p r IH]; intros vs H Ha; cbn in *.
  - rewrite Ha. reflexivity.
  - destruct (f p); [|discriminate]. destruct (mapM f r) eqn:Er; [|discriminate].
    rewrite (IH _ eq_refl Ha). reflexivity.
Qed.

Lemma mapM_app_ok {E S T} (f : S -> result E T) pre a post vs v ws :
  mapM f pre = Ok vs -> f a = Ok v -> mapM f post = Ok ws -> mapM f (pre ++ a :: post) = Ok (vs ++ v :: ws).
Proof.
  revert vs. induction pre as [|p r IH]; intros vs H Ha Hp; cbn in *.
  - inversion H; subst. rewrite Ha, Hp. reflexivity.
  - destruct (f p); [|discriminate]. destruct (mapM f r) eqn:Er; [|discriminate]. inversion H; subst.
    rewrite (IH _ eq_refl Ha Hp). reflexivity.
Qed.

(* the value of a [carries] expression: it evaluates, and an Undefined object is inside *)
Theorem carries_holds c e x :
  carries c e x -> lookup c x = None -> reserved_var x = false ->
  exists v, eval Strict c e = Ok v /\ has_undef v = true.
Proof.
  intros H Hl Hr.
  induction H as [x|a b x v Ha Ht _ IH|a b x v Ha Ht _ IH
                  |pre a post x vs ws Hpre _ IH Hpost|pre a post x vs ws Hpre _ IH Hpost
                  |pre k a post x vs ws Hk Hpre _ IH Hpost].
  - exists VUndef. cbn. rewrite Hr, Hl. split; reflexivity.
  - destruct (IH Hl Hr) as [w [Hw Hu]]. exists w. cbn. rewrite Ha, Ht. split; assumption.
  - destruct (IH Hl Hr) as [w [Hw Hu]]. exists w. cbn. rewrite Ha, Ht. split; assumption.
  - destruct (IH Hl Hr) as [w [Hw Hu]]. exists (VList (vs ++ w :: ws)).
    rewrite eval_list, (mapM_app_ok _ _ _ _ _ _ _ Hpre Hw Hpost). split; [reflexivity|].
    rewrite has_undef_list, existsb_app. cbn [existsb]. rewrite Hu, orb_true_r. reflexivity.
  - destruct (IH Hl Hr) as [w [Hw Hu]]. exists (VTuple (vs ++ w :: ws)).
    rewrite eval_tuple, (mapM_app_ok _ _ _ _ _ _ _ Hpre Hw Hpost). split; [reflexivity|].
    rewrite has_undef_tuple, existsb_app. cbn [existsb]. rewrite Hu, orb_true_r. reflexivity.
  - destruct (IH Hl Hr) as [w [Hw Hu]]. exists (VDict (vs ++ (k, w) :: ws)).
    assert (Hkv : eval_kv Strict c (k, a) = Ok (k, w)) by (unfold eval_kv; cbn [fst snd]; rewrite Hw; reflexivity).
    rewrite eval_dict, Hk. cbn [negb]. rewrite (mapM_app_ok _ _ _ _ _ _ _ Hpre Hkv Hpost). split; [reflexivity|].
    rewrite has_undef_dict, existsb_app. cbn [existsb snd]. rewrite Hu, orb_true_r. reflexivity.
Qed.

(* range() and the escape filter fail on an Undefined object and on every container *)
Lemma range_of_holder p c a v :
  eval p c a = Ok v -> has_undef v = true -> eval p c (ERange a) = Err ETypeErr.
Proof. intros He Hu. cbn [eval]. rewrite He. destruct v; try discriminate; reflexivity. Qed.

Lemma escape_of_holder v : has_undef v = true -> hard_err (apply_escape v).
Proof. intros Hu. destruct v; try discriminate; cbn; first [exact hard_undef|exact hard_type]. Qed.

Ltac use_yields c x Hl Hr :=
  repeat match goal with
         | Hy : yields c _ x |- _ => apply (fun h => yields_undef c _ x h Hl Hr) in Hy
         end.
Ltac rw_evals :=
  repeat match goal with
         | He : eval Strict _ ?a = _ |- context [eval Strict _ ?a] => rewrite He
         | Ht : truthy Strict ?v = _ |- context [truthy Strict ?v] => rewrite Ht
         end.
Ltac pass_err IH := destruct IH as [? [-> ?]]; eexists; split; [reflexivity|eassumption].

Theorem eforced_is_error c e x :
  eforced c e x -> lookup c x = None -> reserved_var x = false -> hard_err (eval Strict c e).
Proof.
  intros H Hl Hr.
  induction H; try rewrite eval_list; try rewrite eval_tuple; try rewrite eval_dict;
    cbn [eval]; use_yields c x Hl Hr; rw_evals.
  - (* F_attr *) unfold get_attr. rewrite H0. exact hard_undef.
  - (* F_attr_in *) pass_err (IHeforced Hl Hr).
  - (* F_index *) exact hard_undef.
  - (* F_index_l *) pass_err (IHeforced Hl Hr).
  - (* F_index_r *) pass_err (IHeforced Hl Hr).
  - (* F_eq_l *) rewrite veq_undef_l. exact hard_undef.
  - (* F_eq_r *) rewrite veq_undef_r. exact hard_undef.
  - pass_err (IHeforced Hl Hr).
  - pass_err (IHeforced Hl Hr).
  - rewrite veq_undef_l. exact hard_undef.
  - rewrite veq_undef_r. exact hard_undef.
  - pass_err (IHeforced Hl Hr).
  - pass_err (IHeforced Hl Hr).
  - (* F_not *) exact hard_undef.
  - pass_err (IHeforced Hl Hr).
  - (* F_and_l *) exact hard_undef.
  - pass_err (IHeforced Hl Hr).
  - apply IHeforced; assumption.
  - (* F_or_l *) exact hard_undef.
  - pass_err (IHeforced Hl Hr).
  - apply IHeforced; assumption.
  - (* F_range *)
    destruct (carries_holds _ _ _ H Hl Hr) as [w [Hw Hu]].
    pose proof (range_of_holder _ _ _ _ Hw Hu) as Hg. cbn [eval] in Hg. rewrite Hg. exact hard_type.
  - pass_err (IHeforced Hl Hr).
  - (* F_list *)
    destruct (IHeforced Hl Hr) as [er [He Hh]].
    rewrite (mapM_app_err _ _ _ _ _ _ H He). exists er. split; [reflexivity|exact Hh].
  - (* F_tuple *)
    destruct (IHeforced Hl Hr) as [er [He Hh]].
    rewrite (mapM_app_err _ _ _ _ _ _ H He). exists er. split; [reflexivity|exact Hh].
  - (* F_dict *)
    destruct (IHeforced Hl Hr) as [er [He Hh]].
    assert (Hkv : eval_kv Strict c (k, a) = Err er) by (unfold eval_kv; cbn [fst snd]; rewrite He; reflexivity).
    rewrite H. cbn [negb]. rewrite (mapM_app_err _ _ _ _ _ _ H0 Hkv). exists er. split; [reflexivity|exact Hh].
Qed.

(* ------------------------------------------------------------------ templates *)
Lemma concat_mapM_cons {T} (f : T -> result terr str) x r :
  concat_mapM f (x :: r) = match f x with
                           | Err e => Err e
                           | Ok a => match concat_mapM f r with Err e => Err e | Ok b => Ok (a ++ b) end
                           end.
Proof. reflexivity. Qed.

Lemma lookup_cons_ne lv it c x : str_eqb lv x = false -> lookup ((lv, it) :: c) x = lookup c x.
Proof. intros H. cbn. rewrite H. reflexivity. Qed.

Theorem forced_is_error rf :
  (forall c n x, nforced rf c n x -> lookup c x = None -> reserved_var x = false ->
                 hard_err (render_node rf Strict n c))
  /\ (forall c l x, lforced rf c l x -> lookup c x = None -> reserved_var x = false ->
                    hard_err (render rf Strict l c))
  /\ (forall c lv body items x, iforced rf c lv body items x -> lookup c x = None -> reserved_var x = false ->
                    hard_err (concat_mapM (fun it => render rf Strict body ((lv, it) :: c)) items)).
Proof.
  apply forced_mutind; intros; cbn [render_node].
  - rewrite (yields_undef _ _ _ y H H0). exact hard_undef.
  - apply hard_err_map. apply (eforced_is_error _ _ _ e0 H H0).
  - (* N_out_holds *) subst rf. rewrite e1. rewrite (to_str_strict_holds v s); [exact hard_undef| |exact e2].
    destruct (carries_holds _ _ _ c0 H H0) as [w [Hw Hu]]. rewrite e1 in Hw. inversion Hw; subst. exact Hu.
  - (* N_esc *) destruct (carries_holds _ _ _ c0 H H0) as [w [Hw Hu]]. rewrite Hw. exact (escape_of_holder _ Hu).
  - apply hard_err_map. apply (eforced_is_error _ _ _ e0 H H0).
  - rewrite (yields_undef _ _ _ y H H0). exact hard_undef.
  - apply hard_err_map. apply (eforced_is_error _ _ _ e H H0).
  - rewrite e, e0. apply H; assumption.
  - rewrite e, e0. apply H; assumption.
  - rewrite e0. rewrite (yields_undef _ _ _ y H H0). exact hard_undef.
  - rewrite e0. apply hard_err_map. apply (eforced_is_error _ _ _ e1 H H0).
  - rewrite e0, e1, e2. apply H; assumption.
  - unfold render. rewrite concat_mapM_cons. apply hard_err_map. apply H; assumption.
  - unfold render in *. rewrite concat_mapM_cons. rewrite e.
    destruct (H H0 H1) as [er [-> Her]]. exists er. split; [reflexivity|exact Her].
  - rewrite concat_mapM_cons. apply hard_err_map. apply H; [|assumption].
    rewrite lookup_cons_ne by assumption. assumption.
  - rewrite concat_mapM_cons. rewrite e.
    destruct (H H0 H1) as [er [-> Her]]. exists er. split; [reflexivity|exact Her].
Qed.

(* text templates: the statement of C16-1, whatever repr() of an Undefined object does *)
Theorem undefined_is_error : forall rf t c x,
  lforced rf c t x -> lookup c x = None -> reserved_var x = false -> hard_err (render rf Strict t c).
Proof. intros rf t c x. apply (proj1 (proj2 (forced_is_error rf))). Qed.

(* the simplest instances carry the exact error class *)
Lemma undefined_var_exact : forall rf pre post c x,
  lookup c x = None -> reserved_var x = false -> text_ok pre = true ->
  render rf Strict (NText pre :: NOut (EVar x) :: post) c = Err EUndefined.
Proof.
  intros rf pre post c x Hl Hr Hp. unfold render. cbn. rewrite Hp, Hr, Hl. reflexivity.
Qed.

(* native templates.  A forced mention fails in the engine.  An unforced one:
   nc = true   parse_as_string looks through the result and fails - also when the Undefined
               object sits inside a list / tuple / dict literal, at any depth;
   nc = false  the Undefined object comes back; the instantiation of the row ends in
               RowParser's conversion to the field type, and EVERY conversion forces it - but
               not one inside a container (strict_everywhere_decided, else-branch) *)
Theorem native_undefined_is_error : forall nc e c x,
  lookup c x = None -> reserved_var x = false ->
  (eforced c e x -> hard_err (eval_native nc Strict e c))
  /\ (yields c e x ->
        if nc then eval_native nc Strict e c = Err EUndefined
        else eval_native nc Strict e c = Ok VUndef
             /\ to_text Strict (PObj VUndef) = Err EUndefined
             /\ to_include Strict (PObj VUndef) = Err EUndefined
             /\ to_entries Strict (PObj VUndef) = Err EUndefined).
Proof.
  intros nc e c x Hl Hr. split.
  - intros H. unfold eval_native. apply hard_err_map. apply (eforced_is_error _ _ _ H Hl Hr).
  - intros H. unfold eval_native. rewrite (yields_undef _ _ _ H Hl Hr). destruct nc; repeat split.
Qed.

Theorem native_holder_is_error : forall e c x,
  lookup c x = None -> reserved_var x = false -> carries c e x -> eval_native true Strict e c = Err EUndefined.
Proof.
  intros e c x Hl Hr H. destruct (carries_holds _ _ _ H Hl Hr) as [w [Hw Hu]].
  unfold eval_native. rewrite Hw. cbn [andb]. rewrite Hu. reflexivity.
Qed.

(* no native result is, or holds at any depth, an Undefined object - for every expression,
   every context (even one that binds a name to an Undefined object), either policy *)
Theorem native_no_leak : forall p e c v, eval_native true p e c = Ok v -> has_undef v = false.
Proof.
  intros p e c v H. unfold eval_native in H. destruct (eval p c e) as [w|]; [|discriminate].
  cbn [andb] in H. destruct (has_undef w) eqn:Hu; [discriminate|].
  destruct w; try (inversion H; subst; exact Hu).
  destruct (native_plain s); [|discriminate]. inversion H; subst. reflexivity.
Qed.

(* a missing FIELD of a defined object / an index out of range is an Undefined object too *)
Lemma missing_field_is_error : forall rf c a f d,
  eval Strict c a = Ok (VDict d) -> lookup d f = None -> reserved_attr f = false ->
  render rf Strict [NOut (EAttr a f)] c = Err EUndefined.
Proof.
  intros rf c a f d Ha Hl Hr. unfold render. cbn. rewrite Ha. unfold get_attr. rewrite Hr, Hl. reflexivity.
Qed.

(* ------------------------------------------------------------------ defined_exact *)
Lemma render_app rf p a b c :
  render rf p (a ++ b) c = match render rf p a c with
                        | Err e => Err e
                        | Ok s => match render rf p b c with Err e => Err e | Ok t => Ok (s ++ t) end
                        end.
Proof.
  unfold render. induction a as [|n r IH]; cbn.
  - destruct (concat_mapM _ b); reflexivity.
  - destruct (render_node rf p n c); [|reflexivity]. rewrite IH.
    destruct (concat_mapM _ r); [|reflexivity].
    destruct (concat_mapM _ b); [|reflexivity]. rewrite app_assoc. reflexivity.
Qed.

Theorem defined_exact : forall rf p c x v,
  lookup c x = Some v -> reserved_var x = false ->
  render rf p [NOut (EVar x)] c = match to_str rf p v with Err e => Err e | Ok s => Ok (s ++ []) end.
Proof. intros rf p c x v Hl Hr. unfold render. cbn. rewrite Hr, Hl. reflexivity. Qed.

(* in place: text before and after survives, the reference is replaced by exactly str(value),
   whatever the policy *)
Theorem defined_exact_in_place : forall rf p c x v s pre post rest,
  lookup c x = Some v -> reserved_var x = false -> to_str rf p v = Ok s ->
  render rf p pre c = Ok rest ->
  render rf p (pre ++ NOut (EVar x) :: post) c
  = match render rf p post c with Err e => Err e | Ok t => Ok (rest ++ s ++ t) end.
Proof.
  intros rf p c x v s pre post rest Hl Hr Hs Hpre.
  rewrite render_app, Hpre. unfold render at 1. cbn. rewrite Hr, Hl, Hs.
  fold (render rf p post c). destruct (render rf p post c); reflexivity.
Qed.

Theorem defined_escape_exact : forall rf p c x s,
  lookup c x = Some (VStr s) -> reserved_var x = false ->
  render rf p [NOutEsc (EVar x)] c = Ok (escape s ++ []).
Proof.
  intros rf p c x s Hl Hr. unfold render. cbn. rewrite Hr, Hl. cbn. rewrite escape_string_one_pass. reflexivity.
Qed.

Lemma to_str_str rf p s : to_str rf p (VStr s) = Ok s.
Proof. reflexivity. Qed.

(* ------------------------------------------------------------------ refutations *)
Lemma lenient_blank : forall rf x, reserved_var x = false ->
  render rf Lenient [NOut (EVar x)] [] = Ok [].
Proof. intros rf x H. unfold render. cbn. rewrite H. reflexivity. Qed.

Lemma lenient_blank_in_text : forall rf x pre post, reserved_var x = false ->
  text_ok pre = true -> text_ok post = true ->
  render rf Lenient [NText pre; NOut (EVar x); NText post] [] = Ok (pre ++ post ++ []).
Proof. intros rf x pre post H Hp Hq. unfold render. cbn. rewrite H, Hp, Hq. reflexivity. Qed.

(* jinja2.StrictUndefined alone (repr not guarded, native result not looked through) does not
   force an Undefined object stored in a list literal *)
Definition s_undefined_in_list : str := [91; 85; 110; 100; 101; 102; 105; 110; 101; 100; 93]%N.  (* [Undefined] *)

Lemma strict_list_literal : forall x, reserved_var x = false ->
  render false Strict [NOut (EList [EVar x])] [] = Ok s_undefined_in_list
  /\ eval_native false Strict (EList [EVar x]) [] = Ok (VList [VUndef]).
Proof. intros x H. unfold render, eval_native. cbn. rewrite H. split; reflexivity. Qed.

(* ------------------------------------------------------------------ strict everywhere *)
(* The statement of the repaired behaviour, for the flags [rf] (text environment) and [nc]:
   (1) text templates: every forcing position - the ones of StrictUndefined and, new, printing
       a list / tuple / dict literal that holds the Undefined object at any depth - is an error;
   (2) native templates: a forced mention, or a result that is or holds the Undefined object,
       is an error;
   (3) whatever {{ }} prints holds no Undefined object; (4) whatever {@ @} hands back holds none. *)
Definition strict_everywhere (rf nc : bool) : Prop :=
  (forall t c x, lforced true c t x -> lookup c x = None -> reserved_var x = false ->
                 hard_err (render rf Strict t c))
  /\ (forall e c x, eforced c e x \/ carries c e x -> lookup c x = None -> reserved_var x = false ->
                    hard_err (eval_native nc Strict e c))
  /\ (forall v s, to_str rf Strict v = Ok s -> has_undef v = false)
  /\ (forall p e c v, eval_native nc p e c = Ok v -> has_undef v = false).

Theorem strict_everywhere_repaired : strict_everywhere true true.
Proof.
  split; [|split; [|split]].
  - exact (undefined_is_error true).
  - intros e c x [H|H] Hl Hr.
    + exact (proj1 (native_undefined_is_error true e c x Hl Hr) H).
    + rewrite (native_holder_is_error e c x Hl Hr H). exact hard_undef.
  - exact to_str_strict_no_leak.
  - exact native_no_leak.
Qed.

(* decided for the code of this run (probed constants env_repr_fails, native_result_checked):
   repaired tree - the positive statement; a tree where one of the two is missing - the witness
   of the finding undefined-inside-list-literal *)
Theorem strict_everywhere_decided :
  if env_repr_fails && native_result_checked
  then strict_everywhere env_repr_fails native_result_checked
  else forall x, reserved_var x = false ->
       (env_repr_fails = false /\ render env_repr_fails Strict [NOut (EList [EVar x])] [] = Ok s_undefined_in_list)
       \/ (native_result_checked = false
           /\ eval_native native_result_checked Strict (EList [EVar x]) [] = Ok (VList [VUndef])).
Proof.
  destruct env_repr_fails; destruct native_result_checked; cbn [andb].
  - exact strict_everywhere_repaired.
  - intros x H. right. split; [reflexivity|]. exact (proj2 (strict_list_literal x H)).
  - intros x H. left. split; [reflexivity|]. exact (proj1 (strict_list_literal x H)).
  - intros x H. left. split; [reflexivity|]. exact (proj1 (strict_list_literal x H)).
Qed.

(* ------------------------------------------------------------------ skipped rows *)
Definition untemplated_row (e : event) : Prop :=
  match e with EvRow _ false => True | _ => False end.

Lemma parse_as_string_none pe pn c : parse_as_string_m pe pn None c = Ok (PStr (strip (show_cell c))).
Proof. reflexivity. Qed.

Lemma parse_none pe pn c : parse_m pe pn None c = Ok (PNv (split_into_lists (strip (show_cell c)))).
Proof. reflexivity. Qed.

Lemma inst_row_none pe pn r log :
  exists inc mv, inst_row pe pn None r log = (log, Ok (inc, mv)).
Proof.
  unfold inst_row, log_render. cbn [renders andb]. rewrite parse_as_string_none. cbn [to_include].
  destruct (rk r) eqn:Ek.
  all: try (rewrite parse_as_string_none; cbn [to_text]; eexists; eexists; reflexivity).
  rewrite parse_none.
  destruct (split_into_lists (strip (show_cell (r_main r)))) eqn:Es; cbn [to_entries]; eexists; eexists; reflexivity.
Qed.

(* a block read with omit_content: nothing is handed to the template engine, nothing is
   produced, the context is untouched — for every sheet, position, context, policy *)
Theorem skipped_not_evaluated : forall pe pn sc em tl rows fuel bt pos cx log log' r,
  parse_block pe pn sc em tl rows fuel bt true pos cx log = (log', r) ->
  (exists ev, log' = log ++ ev /\ Forall untemplated_row ev)
  /\ (forall p cx', r = Ok (p, cx') -> cx' = cx).
Proof.
  intros pe pn sc em tl rows fuel. induction fuel as [|f IH]; intros bt pos cx log log' r H; cbn [parse_block] in H.
  - inversion H; subst. split; [exists []; rewrite app_nil_r; split; [reflexivity|constructor]|discriminate].
  - destruct (nth_error rows pos) as [row|] eqn:En.
    2:{ destruct bt; inversion H; subst; (split; [exists []; rewrite app_nil_r; split; [reflexivity|constructor]|]);
        intros p cx' Hr; try discriminate. inversion Hr; reflexivity. }
    cbn [negb] in H.
    destruct (inst_row_none pe pn row (log ++ [EvRow pos false])) as [inc [mv Hi]].
    cbn [inst_row_incl inst_row_incl_f] in H. rewrite Hi in H.
    assert (Hbase : exists ev, log ++ [EvRow pos false] = log ++ ev /\ Forall untemplated_row ev).
    { exists [EvRow pos false]. split; [reflexivity|]. constructor; [exact I|constructor]. }
    destruct (end_check bt (rk row)).
    + inversion H; subst. split; [exact Hbase|]. intros p cx' Hr. inversion Hr; reflexivity.
    + cbn [orb] in H.
      assert (Hstep : forall bt2 log2 r2 logm,
                 (exists ev, logm = log ++ ev /\ Forall untemplated_row ev) ->
                 parse_block pe pn sc em tl rows f bt2 true (S pos) cx logm = (log2, r2) ->
                 (exists ev, log2 = log ++ ev /\ Forall untemplated_row ev)
                 /\ (forall p cx', r2 = Ok (p, cx') -> cx' = cx)).
      { intros bt2 log2 r2 logm [ev0 [-> Hev0]] Hp. destruct (IH _ _ _ _ _ _ Hp) as [[ev [-> Hev]] Hc].
        split; [|exact Hc]. exists (ev0 ++ ev). rewrite app_assoc. split; [reflexivity|].
        apply Forall_app. split; assumption. }
      destruct (rk row) eqn:Ek.
      * apply (Hstep _ _ _ _ Hbase H).
      * destruct (parse_block pe pn sc em tl rows f BFor true (S pos) cx (log ++ [EvRow pos false])) as [log3 r3] eqn:E3.
        destruct (Hstep _ _ _ _ Hbase E3) as [Hl3 Hc3].
        destruct r3 as [[p3 cx3]|e3].
        -- rewrite (Hc3 _ _ eq_refl) in H.
           destruct Hl3 as [ev3 [-> Hev3]].
           destruct (IH _ _ _ _ _ _ H) as [[ev [-> Hev]] Hc]. split; [|exact Hc].
           exists (ev3 ++ ev). rewrite app_assoc. split; [reflexivity|]. apply Forall_app. split; assumption.
        -- inversion H; subst. split; [exact Hl3|discriminate].
      * apply (Hstep _ _ _ _ Hbase H).
      * destruct (parse_block pe pn sc em tl rows f BBlock true (S pos) cx (log ++ [EvRow pos false])) as [log3 r3] eqn:E3.
        destruct (Hstep _ _ _ _ Hbase E3) as [Hl3 Hc3].
        destruct r3 as [[p3 cx3]|e3].
        -- rewrite (Hc3 _ _ eq_refl) in H.
           destruct Hl3 as [ev3 [-> Hev3]].
           destruct (IH _ _ _ _ _ _ H) as [[ev [-> Hev]] Hc]. split; [|exact Hc].
           exists (ev3 ++ ev). rewrite app_assoc. split; [reflexivity|]. apply Forall_app. split; assumption.
        -- inversion H; subst. split; [exact Hl3|discriminate].
      * apply (Hstep _ _ _ _ Hbase H).
    + inversion H; subst. split; [exact Hbase|discriminate].
Qed.

(* ... and what happens there does not depend on the undefined policy or on the context *)
Theorem skipped_policy_independent : forall pe pn pe' pn' sc em tl rows fuel bt pos cx log,
  fst (parse_block pe pn sc em tl rows fuel bt true pos cx log) = fst (parse_block pe' pn' sc em tl rows fuel bt true pos cx log)
  /\ snd (parse_block pe pn sc em tl rows fuel bt true pos cx log) = snd (parse_block pe' pn' sc em tl rows fuel bt true pos cx log).
Proof.
  intros pe pn pe' pn' sc em tl rows fuel.
  assert (Hi : forall r log, inst_row pe pn None r log = inst_row pe' pn' None r log).
  { intros r log. unfold inst_row, log_render. cbn [renders andb]. rewrite !parse_as_string_none, !parse_none. cbn [to_include].
    destruct (rk r); reflexivity. }
  assert (H : forall bt pos cx log, parse_block pe pn sc em tl rows fuel bt true pos cx log = parse_block pe' pn' sc em tl rows fuel bt true pos cx log).
  { induction fuel as [|f IH]; intros bt pos cx log; cbn [parse_block]; [reflexivity|].
    destruct (nth_error rows pos); [|reflexivity]. cbn [inst_row_incl inst_row_incl_f]. rewrite Hi.
    destruct (inst_row pe' pn' None s (log ++ [EvRow pos (negb true)])) as [l2 [[inc mv]|e]]; [|reflexivity].
    destruct (end_check bt (rk s)); try reflexivity. cbn [orb].
    destruct (rk s); try apply IH.
    - rewrite IH. destruct (parse_block pe' pn' sc em tl rows f BFor true (S pos) cx l2) as [l3 [[p c3]|e]]; [apply IH|reflexivity].
    - rewrite IH. destruct (parse_block pe' pn' sc em tl rows f BBlock true (S pos) cx l2) as [l3 [[p c3]|e]]; [apply IH|reflexivity]. }
  intros. rewrite H. split; reflexivity.
Qed.

(* a ROW whose include_if evaluates to "false": its other cell is never handed to the template
   engine (the log gains at most the rendering of the inclusion cell itself), whatever it
   contains — an unknown variable in it is not an error — and the row is reported excluded *)
(* the excluded branch of the pre-check: the row is parsed without templating, inclusion cell "false" *)
Lemma excluded_branch pe pn k m log :
  exists mv, inst_row pe pn None (mk_srow k cell_false m) log = (log, Ok (false, mv)).
Proof.
  unfold inst_row, log_render. cbn [renders andb r_inc r_main rk]. rewrite !parse_as_string_none.
  cbn [to_include].
  assert (Hinc : str_to_include (strip (show_cell cell_false)) = false) by (vm_compute; reflexivity).
  rewrite Hinc.
  destruct k eqn:Ek; rewrite ?parse_as_string_none, ?parse_none; cbn [to_text];
    try (eexists; reflexivity).
  destruct (split_into_lists (strip (show_cell m))) eqn:Es; cbn [to_entries]; eexists; reflexivity.
Qed.

Theorem excluded_row_not_evaluated_f : forall fx pe pn cx r log pi s,
  parse_as_string_m pe pn (Some cx) (r_inc r) = Ok pi ->
  to_text pn pi = Ok s ->
  str_eqb (lower (strip s)) [102; 97; 108; 115; 101]%N = true ->
  exists mv, inst_row_incl_f pe pn fx (Some cx) r log = (log_render (Some cx) (r_inc r) log, Ok (false, mv)).
Proof.
  intros fx pe pn cx r log pi s Hp Ht Hf. unfold inst_row_incl_f, precheck_excluded. rewrite Hp, Ht, Hf.
  apply excluded_branch.
Qed.

Theorem excluded_row_not_evaluated : forall pe pn cx r log pi s,
  parse_as_string_m pe pn (Some cx) (r_inc r) = Ok pi ->
  to_text pn pi = Ok s ->
  str_eqb (lower (strip s)) [102; 97; 108; 115; 101]%N = true ->
  exists mv, inst_row_incl pe pn (Some cx) r log = (log_render (Some cx) (r_inc r) log, Ok (false, mv)).
Proof. intros. unfold inst_row_incl. eapply excluded_row_not_evaluated_f; eassumption. Qed.

(* an inclusion STRING that the row parser reads as False says "false" *)
Lemma str_to_include_false s : str_to_include s = false -> str_eqb (lower (strip s)) [102; 97; 108; 115; 101]%N = true.
Proof.
  unfold str_to_include. destruct (strip s) as [|c t] eqn:E; [discriminate|].
  intros H. apply Bool.negb_false_iff in H. exact H.
Qed.

(* on a tree whose pre-check reads the value as the row parser will (fx = true): a row excluded by ANY inclusion value —
   the string "false" or a falsy object, {@ none @}, {@ 0 @}, {@ [] @}, {@ {} @} — has no other cell handed to the template
   engine, whatever the cell contains; for every row, context, policy *)
Theorem falsy_excluded_row_not_evaluated : forall pe pn cx r log pi s,
  parse_as_string_m pe pn (Some cx) (r_inc r) = Ok pi ->
  to_text pn pi = Ok s ->
  to_include pn pi = Ok false ->
  exists mv, inst_row_incl_f pe pn true (Some cx) r log = (log_render (Some cx) (r_inc r) log, Ok (false, mv)).
Proof.
  intros pe pn cx r log pi s Hp Ht Hi.
  destruct (str_eqb (lower (strip s)) [102; 97; 108; 115; 101]%N) eqn:Hf.
  - exact (excluded_row_not_evaluated_f true pe pn cx r log pi s Hp Ht Hf).
  - unfold inst_row_incl_f, precheck_excluded. rewrite Hp, Ht, Hf.
    destruct pi as [s0|v|n].
    + cbn [to_text] in Ht. inversion Ht; subst s0. cbn [to_include] in Hi. inversion Hi as [Hi'].
      rewrite (str_to_include_false _ Hi') in Hf. discriminate.
    + destruct v; cbn [to_include] in Hi; try (rewrite Hi; cbn [negb]; apply excluded_branch).
      cbn [to_text] in Ht. inversion Hi as [Hi'].
      assert (Hs : s = s0) by (unfold to_str in Ht; cbn in Ht; congruence).
      subst. rewrite (str_to_include_false _ Hi') in Hf. discriminate.
    + cbn [to_text] in Ht. discriminate.
Qed.

(* ------------------------------------------------------------------ non-vacuity *)
(* names used below: name = [110;97;109;101], nmae = [110;109;97;101], flag = [102;108;97;103],
   k = [107] *)
Definition n_name : str := [110; 97; 109; 101]%N.
Definition n_nmae : str := [110; 109; 97; 101]%N.
Definition n_flag : str := [102; 108; 97; 103]%N.
Definition ex_ctx : ctx := [(n_name, VStr [65; 110; 110]%N); (n_flag, VBool true)].

(* "Hi {{ name }}{% if flag %}, {{ flag and nmae }}{% endif %}": the misspelt name sits in a
   taken branch, behind a short-circuit operator whose left operand is true *)
Definition ex_tmpl : tmpl :=
  [NText [72; 105; 32]%N; NOut (EVar n_name);
   NIf (EVar n_flag) [NText [44; 32]%N; NOut (EAnd (EVar n_flag) (EVar n_nmae))] []].

Example undefined_is_error_nonvacuous : forall rf,
  lforced rf ex_ctx ex_tmpl n_nmae /\ lookup ex_ctx n_nmae = None /\ reserved_var n_nmae = false
  /\ render rf Strict ex_tmpl ex_ctx = Err EUndefined
  /\ render rf Lenient ex_tmpl ex_ctx = Ok [72; 105; 32; 65; 110; 110; 44; 32]%N.
Proof.
  intros rf.
  split; [|split; [|split; [|split]]]; try (destruct rf; vm_compute; reflexivity).
  unfold ex_tmpl.
  eapply L_later; [vm_compute; reflexivity|].
  eapply L_later; [vm_compute; reflexivity|].
  apply L_here. eapply N_if_then; [vm_compute; reflexivity|vm_compute; reflexivity|].
  eapply L_later; [vm_compute; reflexivity|].
  apply L_here. apply N_out. eapply Y_and; [vm_compute; reflexivity|vm_compute; reflexivity|].
  apply Y_var.
Qed.

(* the same name in the UN-taken branch is not evaluated: no derivation is needed, the
   render succeeds under Strict *)
Example false_branch_not_evaluated : forall rf,
  render rf Strict [NIf (ENot (EVar n_flag)) [NOut (EVar n_nmae)] [NText [98]%N]] ex_ctx = Ok [98]%N
  /\ render rf Strict [NOut (EAnd (ENot (EVar n_flag)) (EVar n_nmae))] ex_ctx = Ok [70; 97; 108; 115; 101]%N
  /\ render rf Strict [NFor [113]%N (EList []) [NOut (EVar n_nmae)]] ex_ctx = Ok [].
Proof. intros rf. repeat split; destruct rf; vm_compute; reflexivity. Qed.

Example defined_exact_nonvacuous : forall rf,
  render rf Strict [NText [72; 105; 32]%N; NOut (EVar n_name); NText [33]%N] ex_ctx
  = Ok [72; 105; 32; 65; 110; 110; 33]%N.
Proof. intros rf. destruct rf; vm_compute; reflexivity. Qed.

(* "t={{ {'k': (1, [name, nmae])} }}": the misspelt name sits three literals deep, after a
   defined one.  It is carried, printing the dict is a forcing position when repr fails
   (lforced true), the render is then an UndefinedError; a tree whose repr does not fail
   prints the word Undefined; the native template {@ {'k': (1, [name, nmae])} @} fails when
   the result is looked through and hands the Undefined object back when it is not *)
Definition ex_holder : expr :=
  EDict [([107]%N, ETuple [EInt 1; EList [EVar n_name; EVar n_nmae]])].
Definition ex_holder_tmpl : tmpl := [NText [116; 61]%N; NOut ex_holder].

Example strict_everywhere_nonvacuous :
  carries ex_ctx ex_holder n_nmae
  /\ lforced true ex_ctx ex_holder_tmpl n_nmae
  /\ render true Strict ex_holder_tmpl ex_ctx = Err EUndefined
  /\ render false Strict ex_holder_tmpl ex_ctx
     = Ok [116; 61; 123; 39; 107; 39; 58; 32; 40; 49; 44; 32; 91; 39; 65; 110; 110; 39; 44; 32;
           85; 110; 100; 101; 102; 105; 110; 101; 100; 93; 41; 125]%N   (* t={'k': (1, ['Ann', Undefined])} *)
  /\ eval_native true Strict ex_holder ex_ctx = Err EUndefined
  /\ eval_native false Strict ex_holder ex_ctx
     = Ok (VDict [([107]%N, VTuple [VInt 1; VList [VStr [65; 110; 110]%N; VUndef]])])
  (* the same literal over defined names is untouched by the flags *)
  /\ (forall rf, render rf Strict [NOut (EList [EVar n_name; ETuple [EVar n_flag]])] ex_ctx
                 = Ok [91; 39; 65; 110; 110; 39; 44; 32; 40; 84; 114; 117; 101; 44; 41; 93]%N)   (* ['Ann', (True,)] *)
  /\ (forall nc, eval_native nc Strict (EList [EVar n_name; ETuple [EVar n_flag]]) ex_ctx
                 = Ok (VList [VStr [65; 110; 110]%N; VTuple [VBool true]])).
Proof.
  assert (Hc : carries ex_ctx ex_holder n_nmae).
  { unfold ex_holder.
    apply (C_dict ex_ctx [] [107]%N _ [] n_nmae [] []); [reflexivity|reflexivity| |reflexivity].
    apply (C_tuple ex_ctx [EInt 1] _ [] n_nmae [VInt 1] []); [reflexivity| |reflexivity].
    apply (C_list ex_ctx [EVar n_name] _ [] n_nmae [VStr [65; 110; 110]%N] []); [vm_compute; reflexivity| |reflexivity].
    apply C_var. }
  split; [exact Hc|]. split.
  { unfold ex_holder_tmpl. eapply L_later; [vm_compute; reflexivity|]. apply L_here.
    eapply N_out_holds; [reflexivity|exact Hc|vm_compute; reflexivity|vm_compute; reflexivity]. }
  repeat split; try (vm_compute; reflexivity); intros f; destruct f; vm_compute; reflexivity.
Qed.

(* a sheet: row 0 plain "hi"; row 1 begin_block include_if=FALSE; row 2 plain "m {{ (nmae).k }}";
   row 3 end_block; row 4 plain "tail".  Under Strict the run succeeds, rows 2 and 3 are read
   untemplated and the only cells handed to the engine are none. *)
Definition cT (s : str) : cell := CTmpl (match s with [] => [] | _ => [NText s] end).
Definition ex_rows : list srow :=
  [mk_srow KPlain (cT []) (cT [104; 105]%N);
   mk_srow KBeginBlock (cT [70; 65; 76; 83; 69]%N) (cT []);
   mk_srow KPlain (cT []) (CTmpl [NText [109; 32]%N; NOut (EAttr (EVar n_nmae) [107]%N)]);
   mk_srow KEndBlock (cT []) (cT []);
   mk_srow KPlain (cT []) (cT [116; 97; 105; 108]%N)].

Example skipped_not_evaluated_nonvacuous :
  run_sheet Strict Strict ex_rows ex_ctx
  = ([EvRow 0 true; EvEmit [104; 105]%N; EvRow 1 true; EvRow 2 false; EvRow 3 false; EvRow 4 true;
      EvEmit [116; 97; 105; 108]%N], Ok (5%nat, ex_ctx)).
Proof. vm_compute. reflexivity. Qed.

(* the same body NOT under a false include_if is an error *)
Example unskipped_is_error :
  snd (run_sheet Strict Strict
         [mk_srow KPlain (cT []) (CTmpl [NText [109; 32]%N; NOut (EAttr (EVar n_nmae) [107]%N)])] ex_ctx)
  = Err EUndefined.
Proof. vm_compute. reflexivity. Qed.

(* ------------------------------------------------------------------ row level: loop entries *)
(* whatever parse_as_string / parse hand back as an OBJECT holds no Undefined object when native
   results are looked through *)
Lemma parse_as_string_obj_no_leak : forall fl pe pn octx c v,
  f_nat_check fl = true -> parse_as_string_f fl pe pn octx c = Ok (PObj v) -> has_undef v = false.
Proof.
  intros fl pe pn octx c v Hf H. unfold parse_as_string_f in H.
  destruct octx as [cx|]; [|discriminate].
  repeat match type of H with
         | (if ?b then _ else _) = _ => destruct b; try discriminate
         end.
  - destruct c as [t|e]; [discriminate|].
    rewrite Hf in H. destruct (eval_native true pn e cx) as [w|] eqn:Ew; [|discriminate].
    inversion H; subst. exact (native_no_leak _ _ _ _ Ew).
  - destruct c as [t|e]; [|discriminate].
    destruct (render (f_env_repr fl) pe (strip_last (strip_first t)) cx); discriminate.
Qed.

Lemma parse_obj_no_leak : forall fl pe pn octx c v,
  f_nat_check fl = true -> parse_f fl pe pn octx c = Ok (PObj v) -> has_undef v = false.
Proof.
  intros fl pe pn octx c v Hf H. unfold parse_f in H.
  destruct (parse_as_string_f fl pe pn octx c) as [[s|w|n]|] eqn:Ep; try discriminate.
  inversion H; subst. exact (parse_as_string_obj_no_leak _ _ _ _ _ _ Hf Ep).
Qed.

Lemma nv_to_value_clean : forall v, has_undef (nv_to_value v) = false.
Proof.
  fix IH 1. intros [s|l]; [reflexivity|]. cbn [nv_to_value]. rewrite has_undef_list.
  induction l as [|x r IHr]; cbn [map existsb]; [reflexivity|]. rewrite (IH x), IHr. reflexivity.
Qed.

Lemma existsb_false_Forall {T} (h : T -> bool) l : existsb h l = false -> Forall (fun x => h x = false) l.
Proof.
  induction l as [|x r IH]; cbn [existsb]; intros H; constructor.
  - destruct (h x); [discriminate|reflexivity].
  - apply IH. destruct (h x); [discriminate|exact H].
Qed.

(* the list a begin_for row iterates over: no element is, or holds at any depth, an Undefined
   object - so no loop variable is ever bound to one - for every row, context, policy, log *)
Theorem loop_entries_no_undefined : native_result_checked = true ->
  forall pe pn octx r log log' inc es,
  inst_row pe pn octx r log = (log', Ok (inc, MEntries es)) -> Forall (fun v => has_undef v = false) es.
Proof.
  intros Hnc pe pn octx r log log' inc es H. unfold inst_row in H.
  destruct (parse_as_string_m pe pn octx (r_inc r)) as [pi|]; [|discriminate].
  destruct (to_include pn pi) as [i|]; [|discriminate].
  assert (Hm : forall k, (match parse_as_string_m pe pn octx (r_main r) with
                         | Err e => (k, Err e)
                         | Ok pm => match to_text pn pm with
                                    | Err e => (k, Err e)
                                    | Ok s => (k, Ok (i, MText s))
                                    end
                         end) = (log', Ok (inc, MEntries es)) -> False).
  { intros k Hk. destruct (parse_as_string_m pe pn octx (r_main r)) as [pm|]; [|discriminate].
    destruct (to_text pn pm); discriminate. }
  destruct (rk r); try (exfalso; exact (Hm _ H)).
  destruct (parse_m pe pn octx (r_main r)) as [pm|] eqn:Ep; [|discriminate].
  destruct (to_entries pn pm) as [es'|] eqn:Ee; [|discriminate].
  inversion H; subst es'. clear H Hm.
  destruct pm as [s|v|n]; cbn [to_entries] in Ee.
  - discriminate.
  - assert (Hv : has_undef v = false).
    { apply (parse_obj_no_leak tree_flags pe pn octx (r_main r) v); [exact Hnc|exact Ep]. }
    destruct v; try (inversion Ee; subst; constructor; [exact Hv|constructor]).
    + (* list *) inversion Ee; subst. rewrite has_undef_list in Hv. exact (existsb_false_Forall _ _ Hv).
    + (* tuple *) inversion Ee; subst. rewrite has_undef_tuple in Hv. exact (existsb_false_Forall _ _ Hv).
    + (* dict: the keys *) inversion Ee; subst. clear. induction d as [|kv d IH]; cbn [map]; constructor; [reflexivity|exact IH].
    + (* range *) unfold range_items in Ee. destruct (Z.ltb 10000 n); [discriminate|]. inversion Ee; subst.
      unfold zrange. clear. induction (seq 0 (Z.to_nat n)) as [|k l IH]; cbn [map]; constructor; [reflexivity|exact IH].
    + (* Undefined itself *) discriminate.
  - destruct n as [s|l]; inversion Ee; subst.
    + constructor; [reflexivity|constructor].
    + clear. induction l as [|x l IH]; cbn [map]; constructor; [apply nv_to_value_clean|exact IH].
Qed.
