(* Facts about the mini-Jinja model (E3) and the templating row loop.  Proofs only. *)
From Coq Require Import List NArith ZArith Bool Lia.
From RPFT Require Import Base.Sexp Base.PyStr Base.Result Gen.Tables Cell.Cell Cell.CellFacts
  Tmpl.MiniJinja Tmpl.RowLoop.
Import ListNotations.

(* an error that is a statement about the code (not "outside the sub-language"/"out of fuel") *)
Definition hard_err {T} (r : result terr T) : Prop :=
  exists e, r = Err e /\ e <> EUnsupported /\ e <> EFuel.

Lemma hard_undef {T} : @hard_err T (Err EUndefined).
Proof. exists EUndefined. repeat split; discriminate. Qed.
Lemma hard_type {T} : @hard_err T (Err ETypeErr).
Proof. exists ETypeErr. repeat split; discriminate. Qed.

Lemma hard_err_map {S T} (r : result terr S) (k : S -> result terr T) :
  hard_err r -> hard_err (match r with Err e => Err e | Ok v => k v end).
Proof. intros [e [-> H]]. exists e. split; [reflexivity|exact H]. Qed.

(* ------------------------------------------------------------------ evaluation order *)

(* [yields c e x]: e evaluates, without anything being forced, to the Undefined object that
   the reference to x produced *)
Inductive yields (c : ctx) : expr -> str -> Prop :=
| Y_var x : yields c (EVar x) x
| Y_and a b x v : eval Strict c a = Ok v -> truthy Strict v = Ok true -> yields c b x -> yields c (EAnd a b) x
| Y_or a b x v : eval Strict c a = Ok v -> truthy Strict v = Ok false -> yields c b x -> yields c (EOr a b) x.

(* [eforced c e x]: evaluating e reaches an operation that forces the Undefined object of x;
   every rule follows the evaluation order of [eval] (what is evaluated before must be Ok) *)
Inductive eforced (c : ctx) : expr -> str -> Prop :=
| F_attr a f x : yields c a x -> reserved_attr f = false -> eforced c (EAttr a f) x
| F_attr_in a f x : eforced c a x -> eforced c (EAttr a f) x
| F_index a i x k : yields c a x -> eval Strict c i = Ok k -> eforced c (EIndex a i) x
| F_index_l a i x : eforced c a x -> eforced c (EIndex a i) x
| F_index_r a i x v : eval Strict c a = Ok v -> eforced c i x -> eforced c (EIndex a i) x
| F_eq_l a b x y : yields c a x -> eval Strict c b = Ok y -> eforced c (EEq a b) x
| F_eq_r a b x v : eval Strict c a = Ok v -> yields c b x -> eforced c (EEq a b) x
| F_eq_in_l a b x : eforced c a x -> eforced c (EEq a b) x
| F_eq_in_r a b x v : eval Strict c a = Ok v -> eforced c b x -> eforced c (EEq a b) x
| F_ne_l a b x y : yields c a x -> eval Strict c b = Ok y -> eforced c (ENe a b) x
| F_ne_r a b x v : eval Strict c a = Ok v -> yields c b x -> eforced c (ENe a b) x
| F_ne_in_l a b x : eforced c a x -> eforced c (ENe a b) x
| F_ne_in_r a b x v : eval Strict c a = Ok v -> eforced c b x -> eforced c (ENe a b) x
| F_not a x : yields c a x -> eforced c (ENot a) x
| F_not_in a x : eforced c a x -> eforced c (ENot a) x
| F_and_l a b x : yields c a x -> eforced c (EAnd a b) x
| F_and_in_l a b x : eforced c a x -> eforced c (EAnd a b) x
| F_and_in_r a b x v : eval Strict c a = Ok v -> truthy Strict v = Ok true -> eforced c b x -> eforced c (EAnd a b) x
| F_or_l a b x : yields c a x -> eforced c (EOr a b) x
| F_or_in_l a b x : eforced c a x -> eforced c (EOr a b) x
| F_or_in_r a b x v : eval Strict c a = Ok v -> truthy Strict v = Ok false -> eforced c b x -> eforced c (EOr a b) x
| F_range a x : yields c a x -> eforced c (ERange a) x
| F_range_in a x : eforced c a x -> eforced c (ERange a) x
| F_list pre a post x vs : mapM (eval Strict c) pre = Ok vs -> eforced c a x -> eforced c (EList (pre ++ a :: post)) x.

(* templates: [nforced c n x] / [lforced c l x] / [iforced c lv body items x] *)
Inductive nforced : ctx -> node -> str -> Prop :=
| N_out c e x : yields c e x -> nforced c (NOut e) x
| N_out_in c e x : eforced c e x -> nforced c (NOut e) x
| N_esc c e x : yields c e x -> nforced c (NOutEsc e) x
| N_esc_in c e x : eforced c e x -> nforced c (NOutEsc e) x
| N_if c cnd a b x : yields c cnd x -> nforced c (NIf cnd a b) x
| N_if_in c cnd a b x : eforced c cnd x -> nforced c (NIf cnd a b) x
| N_if_then c cnd a b x v : eval Strict c cnd = Ok v -> truthy Strict v = Ok true ->
    lforced c a x -> nforced c (NIf cnd a b) x
| N_if_else c cnd a b x v : eval Strict c cnd = Ok v -> truthy Strict v = Ok false ->
    lforced c b x -> nforced c (NIf cnd a b) x
| N_for c lv e body x : reserved_var lv = false -> yields c e x -> nforced c (NFor lv e body) x
| N_for_in c lv e body x : reserved_var lv = false -> eforced c e x -> nforced c (NFor lv e body) x
| N_for_body c lv e body x v items : reserved_var lv = false ->
    eval Strict c e = Ok v -> iter_values Strict v = Ok items ->
    iforced c lv body items x -> nforced c (NFor lv e body) x
with lforced : ctx -> list node -> str -> Prop :=
| L_here c n r x : nforced c n x -> lforced c (n :: r) x
| L_later c n r x s : render_node Strict n c = Ok s -> lforced c r x -> lforced c (n :: r) x
with iforced : ctx -> str -> list node -> list value -> str -> Prop :=
| I_here c lv body it r x : str_eqb lv x = false -> lforced ((lv, it) :: c) body x ->
    iforced c lv body (it :: r) x
| I_later c lv body it r x s : render Strict body ((lv, it) :: c) = Ok s ->
    iforced c lv body r x -> iforced c lv body (it :: r) x.

Scheme nforced_mut := Induction for nforced Sort Prop
  with lforced_mut := Induction for lforced Sort Prop
  with iforced_mut := Induction for iforced Sort Prop.
Combined Scheme forced_mutind from nforced_mut, lforced_mut, iforced_mut.

(* ------------------------------------------------------------------ expressions *)
Lemma yields_undef c e x :
  yields c e x -> lookup c x = None -> reserved_var x = false -> eval Strict c e = Ok VUndef.
Proof.
  intros H Hl Hr. induction H as [x|a b x v Ha Ht _ IH|a b x v Ha Ht _ IH]; cbn.
  - rewrite Hr, Hl. reflexivity.
  - rewrite Ha, Ht. auto.
  - rewrite Ha, Ht. auto.
Qed.

Lemma veq_undef_r x : veq Strict x VUndef = Err EUndefined.
Proof. destruct x; reflexivity. Qed.
Lemma veq_undef_l y : veq Strict VUndef y = Err EUndefined.
Proof. destruct y; reflexivity. Qed.

Lemma eval_list p c l :
  eval p c (EList l) = match mapM (eval p c) l with Err e => Err e | Ok vs => Ok (VList vs) end.
Proof.
  cbn [eval].
  assert (H : (fix go (l0 : list expr) : result terr (list value) :=
                 match l0 with
                 | [] => Ok []
                 | a :: r => match eval p c a with
                             | Err e => Err e
                             | Ok x => match go r with Err e => Err e | Ok xs => Ok (x :: xs) end
                             end
                 end) l = mapM (eval p c) l).
  { induction l as [|a r IH]; cbn; [reflexivity|]. destruct (eval p c a); [|reflexivity]. rewrite IH. reflexivity. }
  rewrite H. reflexivity.
Qed.

Lemma mapM_app_err {E S T} (f : S -> result E T) pre a post vs e :
  mapM f pre = Ok vs -> f a = Err e -> mapM f (pre ++ a :: post) = Err e.
Proof.
  revert vs. induction pre as [|p r IH]; intros vs H Ha; cbn in *.
  - rewrite Ha. reflexivity.
  - destruct (f p); [|discriminate]. destruct (mapM f r) eqn:Er; [|discriminate].
    rewrite (IH _ eq_refl Ha). reflexivity.
Qed.

Ltac use_yields c x Hl Hr :=
  repeat match goal with
         | Hy : yields c _ x |- _ => apply (fun h => yields_undef c _ x h Hl Hr) in Hy
         end.
Ltac rw_evals :=
  repeat match goal with
         | He : eval Strict _ ?a = _ |- context [eval Strict _ ?a] => rewrite He
         | Ht : truthy Strict ?v = _ |- context [truthy Strict ?v] => rewrite Ht
         end.
Ltac pass_err IH := destruct IH as [? [-> ?]]; eexists; split; [reflexivity|eassumption].

Theorem eforced_is_error c e x :
  eforced c e x -> lookup c x = None -> reserved_var x = false -> hard_err (eval Strict c e).
Proof.
  intros H Hl Hr.
  induction H; try rewrite eval_list; cbn [eval]; use_yields c x Hl Hr; rw_evals.
  - (* F_attr *) unfold get_attr. rewrite H0. exact hard_undef.
  - (* F_attr_in *) pass_err (IHeforced Hl Hr).
  - (* F_index *) exact hard_undef.
  - (* F_index_l *) pass_err (IHeforced Hl Hr).
  - (* F_index_r *) pass_err (IHeforced Hl Hr).
  - (* F_eq_l *) rewrite veq_undef_l. exact hard_undef.
  - (* F_eq_r *) rewrite veq_undef_r. exact hard_undef.
  - pass_err (IHeforced Hl Hr).
  - pass_err (IHeforced Hl Hr).
  - rewrite veq_undef_l. exact hard_undef.
  - rewrite veq_undef_r. exact hard_undef.
  - pass_err (IHeforced Hl Hr).
  - pass_err (IHeforced Hl Hr).
  - (* F_not *) exact hard_undef.
  - pass_err (IHeforced Hl Hr).
  - (* F_and_l *) exact hard_undef.
  - pass_err (IHeforced Hl Hr).
  - apply IHeforced; assumption.
  - (* F_or_l *) exact hard_undef.
  - pass_err (IHeforced Hl Hr).
  - apply IHeforced; assumption.
  - (* F_range *) exact hard_type.
  - pass_err (IHeforced Hl Hr).
  - (* F_list *)
    destruct (IHeforced Hl Hr) as [er [He Hh]].
    rewrite (mapM_app_err _ _ _ _ _ _ H He). exists er. split; [reflexivity|exact Hh].
Qed.

(* ------------------------------------------------------------------ templates *)
Lemma concat_mapM_cons {T} (f : T -> result terr str) x r :
  concat_mapM f (x :: r) = match f x with
                           | Err e => Err e
                           | Ok a => match concat_mapM f r with Err e => Err e | Ok b => Ok (a ++ b) end
                           end.
Proof. reflexivity. Qed.

Lemma lookup_cons_ne lv it c x : str_eqb lv x = false -> lookup ((lv, it) :: c) x = lookup c x.
Proof. intros H. cbn. rewrite H. reflexivity. Qed.

Theorem forced_is_error :
  (forall c n x, nforced c n x -> lookup c x = None -> reserved_var x = false ->
                 hard_err (render_node Strict n c))
  /\ (forall c l x, lforced c l x -> lookup c x = None -> reserved_var x = false ->
                    hard_err (render Strict l c))
  /\ (forall c lv body items x, iforced c lv body items x -> lookup c x = None -> reserved_var x = false ->
                    hard_err (concat_mapM (fun it => render Strict body ((lv, it) :: c)) items)).
Proof.
  apply forced_mutind; intros; cbn [render_node].
  - rewrite (yields_undef _ _ _ y H H0). exact hard_undef.
  - apply hard_err_map. apply (eforced_is_error _ _ _ e0 H H0).
  - rewrite (yields_undef _ _ _ y H H0). exact hard_undef.
  - apply hard_err_map. apply (eforced_is_error _ _ _ e0 H H0).
  - rewrite (yields_undef _ _ _ y H H0). exact hard_undef.
  - apply hard_err_map. apply (eforced_is_error _ _ _ e H H0).
  - rewrite e, e0. apply H; assumption.
  - rewrite e, e0. apply H; assumption.
  - rewrite e0. rewrite (yields_undef _ _ _ y H H0). exact hard_undef.
  - rewrite e0. apply hard_err_map. apply (eforced_is_error _ _ _ e1 H H0).
  - rewrite e0, e1, e2. apply H; assumption.
  - unfold render. rewrite concat_mapM_cons. apply hard_err_map. apply H; assumption.
  - unfold render in *. rewrite concat_mapM_cons. rewrite e.
    destruct (H H0 H1) as [er [-> Her]]. exists er. split; [reflexivity|exact Her].
  - rewrite concat_mapM_cons. apply hard_err_map. apply H; [|assumption].
    rewrite lookup_cons_ne by assumption. assumption.
  - rewrite concat_mapM_cons. rewrite e.
    destruct (H H0 H1) as [er [-> Her]]. exists er. split; [reflexivity|exact Her].
Qed.

(* text templates: the statement of C16-1 *)
Theorem undefined_is_error : forall t c x,
  lforced c t x -> lookup c x = None -> reserved_var x = false -> hard_err (render Strict t c).
Proof. intros t c x. apply (proj1 (proj2 forced_is_error)). Qed.

(* the simplest instances carry the exact error class *)
Lemma undefined_var_exact : forall pre post c x,
  lookup c x = None -> reserved_var x = false -> text_ok pre = true ->
  render Strict (NText pre :: NOut (EVar x) :: post) c = Err EUndefined.
Proof.
  intros pre post c x Hl Hr Hp. unfold render. cbn. rewrite Hp, Hr, Hl. reflexivity.
Qed.

(* native templates: the Undefined object comes back from the template engine; the
   instantiation of the row ends in RowParser's conversion to the field type, and EVERY
   conversion forces it *)
Theorem native_undefined_is_error : forall e c x,
  lookup c x = None -> reserved_var x = false ->
  (eforced c e x -> hard_err (eval_native Strict e c))
  /\ (yields c e x ->
        eval_native Strict e c = Ok VUndef
        /\ to_text Strict (PObj VUndef) = Err EUndefined
        /\ to_include Strict (PObj VUndef) = Err EUndefined
        /\ to_entries Strict (PObj VUndef) = Err EUndefined).
Proof.
  intros e c x Hl Hr. split.
  - intros H. unfold eval_native. apply hard_err_map. apply (eforced_is_error _ _ _ H Hl Hr).
  - intros H. unfold eval_native. rewrite (yields_undef _ _ _ H Hl Hr). repeat split.
Qed.

(* a missing FIELD of a defined object / an index out of range is an Undefined object too *)
Lemma missing_field_is_error : forall c a f d,
  eval Strict c a = Ok (VDict d) -> lookup d f = None -> reserved_attr f = false ->
  render Strict [NOut (EAttr a f)] c = Err EUndefined.
Proof.
  intros c a f d Ha Hl Hr. unfold render. cbn. rewrite Ha. unfold get_attr. rewrite Hr, Hl. reflexivity.
Qed.

(* ------------------------------------------------------------------ defined_exact *)
Lemma render_app p a b c :
  render p (a ++ b) c = match render p a c with
                        | Err e => Err e
                        | Ok s => match render p b c with Err e => Err e | Ok t => Ok (s ++ t) end
                        end.
Proof.
  unfold render. induction a as [|n r IH]; cbn.
  - destruct (concat_mapM _ b); reflexivity.
  - destruct (render_node p n c); [|reflexivity]. rewrite IH.
    destruct (concat_mapM _ r); [|reflexivity].
    destruct (concat_mapM _ b); [|reflexivity]. rewrite app_assoc. reflexivity.
Qed.

Theorem defined_exact : forall p c x v,
  lookup c x = Some v -> reserved_var x = false ->
  render p [NOut (EVar x)] c = match to_str p v with Err e => Err e | Ok s => Ok (s ++ []) end.
Proof. intros p c x v Hl Hr. unfold render. cbn. rewrite Hr, Hl. reflexivity. Qed.

(* in place: text before and after survives, the reference is replaced by exactly str(value),
   whatever the policy *)
Theorem defined_exact_in_place : forall p c x v s pre post rest,
  lookup c x = Some v -> reserved_var x = false -> to_str p v = Ok s ->
  render p pre c = Ok rest ->
  render p (pre ++ NOut (EVar x) :: post) c
  = match render p post c with Err e => Err e | Ok t => Ok (rest ++ s ++ t) end.
Proof.
  intros p c x v s pre post rest Hl Hr Hs Hpre.
  rewrite render_app, Hpre. unfold render at 1. cbn. rewrite Hr, Hl, Hs.
  fold (render p post c). destruct (render p post c); reflexivity.
Qed.

Theorem defined_escape_exact : forall p c x s,
  lookup c x = Some (VStr s) -> reserved_var x = false ->
  render p [NOutEsc (EVar x)] c = Ok (escape s ++ []).
Proof.
  intros p c x s Hl Hr. unfold render. cbn. rewrite Hr, Hl. cbn. rewrite escape_string_one_pass. reflexivity.
Qed.

Lemma to_str_str p s : to_str p (VStr s) = Ok s.
Proof. reflexivity. Qed.

(* ------------------------------------------------------------------ refutations *)
Lemma lenient_blank : forall x, reserved_var x = false ->
  render Lenient [NOut (EVar x)] [] = Ok [].
Proof. intros x H. unfold render. cbn. rewrite H. reflexivity. Qed.

Lemma lenient_blank_in_text : forall x pre post, reserved_var x = false ->
  text_ok pre = true -> text_ok post = true ->
  render Lenient [NText pre; NOut (EVar x); NText post] [] = Ok (pre ++ post ++ []).
Proof. intros x pre post H Hp Hq. unfold render. cbn. rewrite H, Hp, Hq. reflexivity. Qed.

(* even Strict does not force an Undefined object stored in a list literal *)
Lemma strict_list_literal : forall x, reserved_var x = false ->
  render Strict [NOut (EList [EVar x])] [] = Ok [91; 85; 110; 100; 101; 102; 105; 110; 101; 100; 93]%N
  /\ eval_native Strict (EList [EVar x]) [] = Ok (VList [VUndef]).
Proof. intros x H. unfold render, eval_native. cbn. rewrite H. split; reflexivity. Qed.

(* ------------------------------------------------------------------ skipped rows *)
Definition untemplated_row (e : event) : Prop :=
  match e with EvRow _ false => True | _ => False end.

Lemma parse_as_string_none pe pn c : parse_as_string_m pe pn None c = Ok (PStr (strip (show_cell c))).
Proof. reflexivity. Qed.

Lemma inst_row_none pe pn r log :
  exists inc mv, inst_row pe pn None r log = (log, Ok (inc, mv)).
Proof.
  unfold inst_row, log_render. cbn [renders andb]. rewrite parse_as_string_none. cbn [to_include].
  destruct (rk r) eqn:Ek.
  all: try (unfold parse_m; rewrite parse_as_string_none; cbn [to_text]; eexists; eexists; reflexivity).
  unfold parse_m. rewrite parse_as_string_none.
  destruct (split_into_lists (strip (show_cell (r_main r)))) eqn:Es; cbn [to_entries]; eexists; eexists; reflexivity.
Qed.

(* a block read with omit_content: nothing is handed to the template engine, nothing is
   produced, the context is untouched — for every sheet, position, context, policy *)
Theorem skipped_not_evaluated : forall pe pn sc em tl rows fuel bt pos cx log log' r,
  parse_block pe pn sc em tl rows fuel bt true pos cx log = (log', r) ->
  (exists ev, log' = log ++ ev /\ Forall untemplated_row ev)
  /\ (forall p cx', r = Ok (p, cx') -> cx' = cx).
Proof.
  intros pe pn sc em tl rows fuel. induction fuel as [|f IH]; intros bt pos cx log log' r H; cbn [parse_block] in H.
  - inversion H; subst. split; [exists []; rewrite app_nil_r; split; [reflexivity|constructor]|discriminate].
  - destruct (nth_error rows pos) as [row|] eqn:En.
    2:{ destruct bt; inversion H; subst; (split; [exists []; rewrite app_nil_r; split; [reflexivity|constructor]|]);
        intros p cx' Hr; try discriminate. inversion Hr; reflexivity. }
    cbn [negb] in H.
    destruct (inst_row_none pe pn row (log ++ [EvRow pos false])) as [inc [mv Hi]].
    cbn [inst_row_incl] in H. rewrite Hi in H.
    assert (Hbase : exists ev, log ++ [EvRow pos false] = log ++ ev /\ Forall untemplated_row ev).
    { exists [EvRow pos false]. split; [reflexivity|]. constructor; [exact I|constructor]. }
    destruct (end_check bt (rk row)).
    + inversion H; subst. split; [exact Hbase|]. intros p cx' Hr. inversion Hr; reflexivity.
    + cbn [orb] in H.
      assert (Hstep : forall bt2 log2 r2 logm,
                 (exists ev, logm = log ++ ev /\ Forall untemplated_row ev) ->
                 parse_block pe pn sc em tl rows f bt2 true (S pos) cx logm = (log2, r2) ->
                 (exists ev, log2 = log ++ ev /\ Forall untemplated_row ev)
                 /\ (forall p cx', r2 = Ok (p, cx') -> cx' = cx)).
      { intros bt2 log2 r2 logm [ev0 [-> Hev0]] Hp. destruct (IH _ _ _ _ _ _ Hp) as [[ev [-> Hev]] Hc].
        split; [|exact Hc]. exists (ev0 ++ ev). rewrite app_assoc. split; [reflexivity|].
        apply Forall_app. split; assumption. }
      destruct (rk row) eqn:Ek.
      * apply (Hstep _ _ _ _ Hbase H).
      * destruct (parse_block pe pn sc em tl rows f BFor true (S pos) cx (log ++ [EvRow pos false])) as [log3 r3] eqn:E3.
        destruct (Hstep _ _ _ _ Hbase E3) as [Hl3 Hc3].
        destruct r3 as [[p3 cx3]|e3].
        -- rewrite (Hc3 _ _ eq_refl) in H.
           destruct Hl3 as [ev3 [-> Hev3]].
           destruct (IH _ _ _ _ _ _ H) as [[ev [-> Hev]] Hc]. split; [|exact Hc].
           exists (ev3 ++ ev). rewrite app_assoc. split; [reflexivity|]. apply Forall_app. split; assumption.
        -- inversion H; subst. split; [exact Hl3|discriminate].
      * apply (Hstep _ _ _ _ Hbase H).
      * destruct (parse_block pe pn sc em tl rows f BBlock true (S pos) cx (log ++ [EvRow pos false])) as [log3 r3] eqn:E3.
        destruct (Hstep _ _ _ _ Hbase E3) as [Hl3 Hc3].
        destruct r3 as [[p3 cx3]|e3].
        -- rewrite (Hc3 _ _ eq_refl) in H.
           destruct Hl3 as [ev3 [-> Hev3]].
           destruct (IH _ _ _ _ _ _ H) as [[ev [-> Hev]] Hc]. split; [|exact Hc].
           exists (ev3 ++ ev). rewrite app_assoc. split; [reflexivity|]. apply Forall_app. split; assumption.
        -- inversion H; subst. split; [exact Hl3|discriminate].
      * apply (Hstep _ _ _ _ Hbase H).
    + inversion H; subst. split; [exact Hbase|discriminate].
Qed.

(* ... and what happens there does not depend on the undefined policy or on the context *)
Theorem skipped_policy_independent : forall pe pn pe' pn' sc em tl rows fuel bt pos cx log,
  fst (parse_block pe pn sc em tl rows fuel bt true pos cx log) = fst (parse_block pe' pn' sc em tl rows fuel bt true pos cx log)
  /\ snd (parse_block pe pn sc em tl rows fuel bt true pos cx log) = snd (parse_block pe' pn' sc em tl rows fuel bt true pos cx log).
Proof.
  intros pe pn pe' pn' sc em tl rows fuel.
  assert (Hi : forall r log, inst_row pe pn None r log = inst_row pe' pn' None r log).
  { intros r log. unfold inst_row, log_render, parse_m. cbn [renders andb]. rewrite !parse_as_string_none. cbn [to_include].
    destruct (rk r); reflexivity. }
  assert (H : forall bt pos cx log, parse_block pe pn sc em tl rows fuel bt true pos cx log = parse_block pe' pn' sc em tl rows fuel bt true pos cx log).
  { induction fuel as [|f IH]; intros bt pos cx log; cbn [parse_block]; [reflexivity|].
    destruct (nth_error rows pos); [|reflexivity]. cbn [inst_row_incl]. rewrite Hi.
    destruct (inst_row pe' pn' None s (log ++ [EvRow pos (negb true)])) as [l2 [[inc mv]|e]]; [|reflexivity].
    destruct (end_check bt (rk s)); try reflexivity. cbn [orb].
    destruct (rk s); try apply IH.
    - rewrite IH. destruct (parse_block pe' pn' sc em tl rows f BFor true (S pos) cx l2) as [l3 [[p c3]|e]]; [apply IH|reflexivity].
    - rewrite IH. destruct (parse_block pe' pn' sc em tl rows f BBlock true (S pos) cx l2) as [l3 [[p c3]|e]]; [apply IH|reflexivity]. }
  intros. rewrite H. split; reflexivity.
Qed.

(* a ROW whose include_if evaluates to "false": its other cell is never handed to the template
   engine (the log gains at most the rendering of the inclusion cell itself), whatever it
   contains — an unknown variable in it is not an error — and the row is reported excluded *)
Theorem excluded_row_not_evaluated : forall pe pn cx r log pi s,
  parse_as_string_m pe pn (Some cx) (r_inc r) = Ok pi ->
  to_text pn pi = Ok s ->
  str_eqb (lower (strip s)) [102; 97; 108; 115; 101]%N = true ->
  exists mv, inst_row_incl pe pn (Some cx) r log = (log_render (Some cx) (r_inc r) log, Ok (false, mv)).
Proof.
  intros pe pn cx r log pi s Hp Ht Hf. unfold inst_row_incl. rewrite Hp, Ht, Hf.
  unfold inst_row, log_render. cbn [renders andb r_inc r_main rk]. rewrite !parse_as_string_none.
  cbn [to_include]. 
  assert (Hinc : str_to_include (strip (show_cell cell_false)) = false) by (vm_compute; reflexivity).
  rewrite Hinc.
  destruct (rk r) eqn:Ek; unfold parse_m; rewrite ?parse_as_string_none; cbn [to_text];
    try (eexists; reflexivity).
  destruct (split_into_lists (strip (show_cell (r_main r)))) eqn:Es; cbn [to_entries]; eexists; reflexivity.
Qed.

(* ------------------------------------------------------------------ non-vacuity *)
(* names used below: name = [110;97;109;101], nmae = [110;109;97;101], flag = [102;108;97;103],
   k = [107] *)
Definition n_name : str := [110; 97; 109; 101]%N.
Definition n_nmae : str := [110; 109; 97; 101]%N.
Definition n_flag : str := [102; 108; 97; 103]%N.
Definition ex_ctx : ctx := [(n_name, VStr [65; 110; 110]%N); (n_flag, VBool true)].

(* "Hi {{ name }}{% if flag %}, {{ flag and nmae }}{% endif %}": the misspelt name sits in a
   taken branch, behind a short-circuit operator whose left operand is true *)
Definition ex_tmpl : tmpl :=
  [NText [72; 105; 32]%N; NOut (EVar n_name);
   NIf (EVar n_flag) [NText [44; 32]%N; NOut (EAnd (EVar n_flag) (EVar n_nmae))] []].

Example undefined_is_error_nonvacuous :
  lforced ex_ctx ex_tmpl n_nmae /\ lookup ex_ctx n_nmae = None /\ reserved_var n_nmae = false
  /\ render Strict ex_tmpl ex_ctx = Err EUndefined
  /\ render Lenient ex_tmpl ex_ctx = Ok [72; 105; 32; 65; 110; 110; 44; 32]%N.
Proof.
  split; [|split; [|split; [|split]]]; try (vm_compute; reflexivity).
  unfold ex_tmpl.
  eapply L_later; [vm_compute; reflexivity|].
  eapply L_later; [vm_compute; reflexivity|].
  apply L_here. eapply N_if_then; [vm_compute; reflexivity|vm_compute; reflexivity|].
  eapply L_later; [vm_compute; reflexivity|].
  apply L_here. apply N_out. eapply Y_and; [vm_compute; reflexivity|vm_compute; reflexivity|].
  apply Y_var.
Qed.

(* the same name in the UN-taken branch is not evaluated: no derivation is needed, the
   render succeeds under Strict *)
Example false_branch_not_evaluated :
  render Strict [NIf (ENot (EVar n_flag)) [NOut (EVar n_nmae)] [NText [98]%N]] ex_ctx = Ok [98]%N
  /\ render Strict [NOut (EAnd (ENot (EVar n_flag)) (EVar n_nmae))] ex_ctx = Ok [70; 97; 108; 115; 101]%N
  /\ render Strict [NFor [113]%N (EList []) [NOut (EVar n_nmae)]] ex_ctx = Ok [].
Proof. repeat split; vm_compute; reflexivity. Qed.

Example defined_exact_nonvacuous :
  render Strict [NText [72; 105; 32]%N; NOut (EVar n_name); NText [33]%N] ex_ctx
  = Ok [72; 105; 32; 65; 110; 110; 33]%N.
Proof. vm_compute. reflexivity. Qed.

(* a sheet: row 0 plain "hi"; row 1 begin_block include_if=FALSE; row 2 plain "m {{ (nmae).k }}";
   row 3 end_block; row 4 plain "tail".  Under Strict the run succeeds, rows 2 and 3 are read
   untemplated and the only cells handed to the engine are none. *)
Definition cT (s : str) : cell := CTmpl (match s with [] => [] | _ => [NText s] end).
Definition ex_rows : list srow :=
  [mk_srow KPlain (cT []) (cT [104; 105]%N);
   mk_srow KBeginBlock (cT [70; 65; 76; 83; 69]%N) (cT []);
   mk_srow KPlain (cT []) (CTmpl [NText [109; 32]%N; NOut (EAttr (EVar n_nmae) [107]%N)]);
   mk_srow KEndBlock (cT []) (cT []);
   mk_srow KPlain (cT []) (cT [116; 97; 105; 108]%N)].

Example skipped_not_evaluated_nonvacuous :
  run_sheet Strict Strict ex_rows ex_ctx
  = ([EvRow 0 true; EvEmit [104; 105]%N; EvRow 1 true; EvRow 2 false; EvRow 3 false; EvRow 4 true;
      EvEmit [116; 97; 105; 108]%N], Ok (5%nat, ex_ctx)).
Proof. vm_compute. reflexivity. Qed.

(* the same body NOT under a false include_if is an error *)
Example unskipped_is_error :
  snd (run_sheet Strict Strict
         [mk_srow KPlain (cT []) (CTmpl [NText [109; 32]%N; NOut (EAttr (EVar n_nmae) [107]%N)])] ex_ctx)
  = Err EUndefined.
Proof. vm_compute. reflexivity. Qed.
