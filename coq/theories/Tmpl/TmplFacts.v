(* Facts about the mini-Jinja model (E3) and the row loop.  Proofs only. *)
From Coq Require Import List NArith ZArith Bool Lia.
From RPFT Require Import Base.Sexp Base.PyStr Base.Result Gen.Tables Cell.Cell Tmpl.MiniJinja Tmpl.RowLoop.
Import ListNotations.

Lemma lenient_blank : forall x, reserved_var x = false ->
  render Lenient [NOut (EVar x)] [] = Ok [].
Proof. intros x H. unfold render. cbn. rewrite H. reflexivity. Qed.
