(* E3/E7 fragment — sheets inserted into sheets (insert_as_block), as far as templating is concerned.

   FlowParser._parse_insert_as_block_row -> ContentIndexParser.get_node_group -> _parse_flow(parse_as_block=True)
   -> a NEW FlowParser (own CellParser, own SheetParser) on the template's table -> parse_as_block().
   The child is instantiated in a context of its OWN: the declared argument bound to the value handed over, and
   nothing of the inserting flow.  As coded, whatever stops the child stops the run: there is one way of
   reporting (LOGGER.critical inside CellParser), it does not depend on the road by which a sheet is reached.

   A flow sheet is a list of SEGMENTS at its top level: runs of ordinary rows (RowLoop.parse_block: loops,
   blocks, include_if inside them) and insert rows between them.  An insert row has an include_if cell, a
   literal template name and one template_arguments cell (a text template; its rendering is one argument).
   Templates declare at most one argument, without default.  The event log is RowLoop's; the messages of an
   inserted sheet appear where the insert row stands.  Definitions only. *)
From Coq Require Import List NArith ZArith Bool.
From RPFT Require Import Base.Sexp Base.PyStr Base.Result Gen.Tables Cell.Cell Tmpl.MiniJinja Tmpl.RowLoop.
Import ListNotations.
Local Open Scope N_scope.

Inductive seg :=
| SRows (rows : list srow)
| SInsert (inc : cell) (name : str) (arg : cell).

Definition bsheet := list seg.
Record template := mk_template { t_sheet : bsheet; t_arg : option str }.
Definition book := list (str * template).

Fixpoint find_template (bk : book) (name : str) : option template :=
  match bk with
  | [] => None
  | (n, t) :: r => if str_eqb n name then Some t else find_template r name
  end.

Definition s_false : str := (* false *) [102; 97; 108; 115; 101].

Section Book.
Variables penv pnat : undefined_policy.

(* one argument out of the template_arguments cell (a `list` field: CellParser.parse, then split on the separators):
   a rendering without separators is ONE argument *)
Definition one_arg (r : pres) : result terr str :=
  match r with
  | PNv (Str s) => Ok s
  | _ => Err EUnsupported
  end.

(* SheetParser.parse_next_row + RowParser.parse_row on an insert row: the inclusion cell first; "false" -> the row is read
   without templating (its argument cell is not evaluated); otherwise the inclusion cell again, then the argument cell —
   also when the inclusion cell then reads as not included (e.g. {@ none @}): only the STRING "false" protects the cells *)
Definition inst_insert (cx : ctx) (inc arg : cell) : result terr (option str) :=
  match parse_as_string_m penv pnat (Some cx) inc with
  | Err e => Err e
  | Ok pi =>
    match to_text pnat pi with
    | Err e => Err e
    | Ok s =>
      if str_eqb (lower (strip s)) s_false then Ok None
      else
        match to_include pnat pi with
        | Err e => Err e
        | Ok included =>
          (* parse_row instantiates every cell of the row, whatever the inclusion cell says *)
          match parse_m penv pnat (Some cx) arg with
          | Err e => Err e
          | Ok pa => match one_arg pa with Err e => Err e | Ok a => Ok (if included then Some a else None) end
          end
        end
    end
  end.

(* map_template_arguments_to_context for at most one declared argument without default, in the EMPTY context:
   get_node_group hands over no data row here, and nothing of the inserting flow *)
Definition block_context (t : template) (a : str) : result terr ctx :=
  match t_arg t with
  | None => Ok []                                  (* surplus arguments are dropped with a warning *)
  | Some x => match a with
              | [] => Err EUnsupported             (* "Required template argument not provided": outside the compared domain *)
              | _ => Ok [(x, VStr a)]
              end
  end.

Fixpoint run_bsheet (fuel : nat) (bk : book) (sh : bsheet) (cx : ctx) (log : list event) {struct fuel}
  : list event * result terr ctx :=
  match fuel with
  | O => (log, Err EFuel)
  | S f =>
    match sh with
    | [] => (log, Ok cx)
    | SRows rows :: rest =>
      match parse_block penv pnat loop_scope_policy empty_loop_policy remove_tolerant rows (N.to_nat 20000) BRoot false 0 cx log with
      | (log1, Err e) => (log1, Err e)
      | (log1, Ok (_, cx1)) => run_bsheet f bk rest cx1 log1
      end
    | SInsert inc name arg :: rest =>
      match inst_insert cx inc arg with
      | Err e => (log, Err e)
      | Ok None => run_bsheet f bk rest cx log
      | Ok (Some a) =>
        match find_template bk name with
        | None => (log, Err EKey)                  (* KeyError: self.template_sheets[name] *)
        | Some t =>
          match block_context t a with
          | Err e => (log, Err e)
          | Ok bcx =>
            match run_bsheet f bk (t_sheet t) bcx log with
            | (log1, Err e) => (log1, Err e)       (* what stops the inserted sheet stops the inserting one *)
            | (log1, Ok _) => run_bsheet f bk rest cx log1
            end
          end
        end
      end
    end
  end.

End Book.

Definition run_book (penv pnat : undefined_policy) (bk : book) (main : bsheet) (cx : ctx) : list event * result terr ctx :=
  run_bsheet penv pnat 64 bk main cx [].
