(* E3 — mini-Jinja: the sub-language of Jinja2 that cell templates are modelled in
   (DESIGN 4-E3) and the cell-level entry points CellParser.parse_as_string / parse.
   Definitions only.  The undefined-variable policy is a PARAMETER of every function; the
   values the code configures are Gen/Tables.env_undefined_policy / native_undefined_policy.

   Jinja2 (3.0) semantics mirrored, as probed:
   * a name that is not in the context evaluates to an Undefined OBJECT ([VUndef]); nothing
     fails yet.  What fails is FORCING it: printing, truth test, ==/!=, iteration (Strict
     only), attribute/item access on it, the escape filter, range() (both policies).
   * under Lenient forcing gives "", False, the empty iteration.
   * an Undefined stored inside a list / tuple / dict literal: printing the container shows
     its elements with repr().  jinja2.StrictUndefined does NOT guard repr ("[Undefined]");
     an undefined class of the code may ([rf] = "repr of the undefined fails", a PARAMETER
     of repr / to_str / render; the values the code configures are the probed constants
     Gen/Tables.env_repr_fails / native_repr_fails).
   * a native template hands the value back unforced; the code may look through the result
     (lists, tuples, dict values, to any depth) for Undefined objects and fail ([nc] = "native
     result checked", a PARAMETER of eval_native; probed constant native_result_checked).
   * `a and b` / `a or b` return operands and short-circuit; un-taken branches and
     zero-iteration bodies are not evaluated.
   Outside the sub-language the model answers [EUnsupported]; the correspondence harness
   never compares such cases. *)
From Coq Require Import List NArith ZArith Bool.
From RPFT Require Import Base.Sexp Base.PyStr Base.Result Gen.Tables Cell.Cell.
Import ListNotations.
Local Open Scope N_scope.


Inductive terr :=
| EUndefined      (* jinja2.UndefinedError *)
| ETypeErr        (* TypeError / AttributeError raised while rendering *)
| ENested         (* 'Cell may not contain nested "{@" templates' *)
| EKey            (* KeyError of SheetParser.remove_from_context *)
| EBlock          (* unterminated block / wrong terminator / missing loop variable *)
| EEmpty          (* RapidProActionError: send_msg action requires non-empty text *)
| EUnsupported    (* outside the sub-language: not a claim about the code *)
| EFuel.

Inductive value :=
| VNone
| VBool (b : bool)
| VInt (z : Z)
| VStr (s : str)
| VList (l : list value)
| VTuple (l : list value)
| VDict (d : list (str * value))
| VRange (n : Z)                (* range(n) *)
| VUndef.                       (* an Undefined object *)

Inductive expr :=
| EVar (x : str)
| EAttr (e : expr) (f : str)
| EIndex (e i : expr)
| EStr (s : str)
| EInt (z : Z)
| EBool (b : bool)
| ENone
| EEq (a b : expr)
| ENe (a b : expr)
| ENot (a : expr)
| EAnd (a b : expr)
| EOr (a b : expr)
| ERange (a : expr)
| EList (l : list expr)
| ETuple (l : list expr)                 (* (a, b) / (a,) / () *)
| EDict (d : list (str * expr)).         (* {'k': a, ...}: string-literal keys *)

Inductive node :=
| NText (s : str)
| NOut (e : expr)                         (* {{ e }} *)
| NOutEsc (e : expr)                      (* {{ e | escape }} *)
| NIf (c : expr) (a b : list node)        (* {% if c %}a{% else %}b{% endif %} *)
| NFor (x : str) (e : expr) (body : list node).   (* {% for x in e %}body{% endfor %} *)

Definition tmpl := list node.
Definition ctx := list (str * value).

Fixpoint lookup (c : ctx) (x : str) : option value :=
  match c with
  | [] => None
  | (k, v) :: r => if str_eqb k x then Some v else lookup r x
  end.

Fixpoint mem_str (x : str) (l : list str) : bool :=
  match l with [] => false | y :: r => str_eqb y x || mem_str x r end.

(* names that are never "missing": Jinja keywords/specials and the environments' globals *)
Definition keyword_names : list str :=
  [(* true *) [116; 114; 117; 101]; (* false *) [102; 97; 108; 115; 101]; (* none *) [110; 111; 110; 101]; (* True *) [84; 114; 117; 101]; (* False *) [70; 97; 108; 115; 101]; (* None *) [78; 111; 110; 101]; (* and *) [97; 110; 100]; (* or *) [111; 114]; (* not *) [110; 111; 116]; (* in *) [105; 110]; (* is *) [105; 115]; (* if *) [105; 102]; (* else *) [101; 108; 115; 101]; (* elif *) [101; 108; 105; 102]; (* for *) [102; 111; 114]; (* endfor *) [101; 110; 100; 102; 111; 114]; (* endif *) [101; 110; 100; 105; 102]; (* loop *) [108; 111; 111; 112]; (* self *) [115; 101; 108; 102]; (* set *) [115; 101; 116]; (* block *) [98; 108; 111; 99; 107]; (* recursive *) [114; 101; 99; 117; 114; 115; 105; 118; 101]; (* varargs *) [118; 97; 114; 97; 114; 103; 115]; (* kwargs *) [107; 119; 97; 114; 103; 115]; (* caller *) [99; 97; 108; 108; 101; 114]; (* import *) [105; 109; 112; 111; 114; 116]; (* from *) [102; 114; 111; 109]; (* with *) [119; 105; 116; 104]; (* without *) [119; 105; 116; 104; 111; 117; 116]; (* context *) [99; 111; 110; 116; 101; 120; 116]; (* ignore *) [105; 103; 110; 111; 114; 101]; (* missing *) [109; 105; 115; 115; 105; 110; 103]; (* escape *) [101; 115; 99; 97; 112; 101]; (* eval *) [101; 118; 97; 108]].

Definition reserved_var (x : str) : bool := mem_str x keyword_names || mem_str x env_globals.

Definition reserved_attr (f : str) : bool :=
  mem_str f py_attr_names || mem_str f keyword_names
  || match f with c :: _ => c =? 95 | [] => true end.

(* ---- forcing operations ---- *)
Definition undef_forced {T} (p : undefined_policy) (lenient : T) : result terr T :=
  match p with Strict => Err EUndefined | Lenient => Ok lenient end.

Definition truthy (p : undefined_policy) (v : value) : result terr bool :=
  match v with
  | VNone => Ok false
  | VBool b => Ok b
  | VInt z => Ok (negb (Z.eqb z 0))
  | VStr s => Ok (match s with [] => false | _ => true end)
  | VList l => Ok (match l with [] => false | _ => true end)
  | VTuple l => Ok (match l with [] => false | _ => true end)
  | VDict d => Ok (match d with [] => false | _ => true end)
  | VRange n => Ok (Z.ltb 0 n)
  | VUndef => undef_forced p false
  end.

Fixpoint has_undef (v : value) : bool :=
  match v with
  | VUndef => true
  | VList l | VTuple l =>
    (fix go (l : list value) : bool :=
       match l with [] => false | x :: r => has_undef x || go r end) l
  | VDict d => (fix go (d : list (str * value)) : bool :=
                  match d with [] => false | (_, x) :: r => has_undef x || go r end) d
  | _ => false
  end.

Definition as_int (v : value) : option Z :=
  match v with VInt z => Some z | VBool b => Some (if b then 1%Z else 0%Z) | _ => None end.

(* Python == on the value universe.  Lists that contain an Undefined object somewhere and
   dict-with-dict comparisons are outside the sub-language (identity shortcuts). *)
Fixpoint veq (p : undefined_policy) (a b : value) {struct a} : result terr bool :=
  match a, b with
  | VUndef, VUndef => undef_forced p true
  | VUndef, _ => undef_forced p false
  | _, VUndef => undef_forced p false
  | VNone, VNone => Ok true
  | VStr s, VStr t => Ok (str_eqb s t)
  | VList l, VList m =>
    if has_undef a || has_undef b then Err EUnsupported
    else if negb (Nat.eqb (List.length l) (List.length m)) then Ok false
    else (fix go (l m : list value) {struct l} : result terr bool :=
            match l, m with
            | [], _ => Ok true
            | _, [] => Ok true
            | x :: l', y :: m' =>
              match veq p x y with
              | Err e => Err e
              | Ok false => Ok false
              | Ok true => go l' m'
              end
            end) l m
  | VTuple l, VTuple m =>
    if has_undef a || has_undef b then Err EUnsupported
    else if negb (Nat.eqb (List.length l) (List.length m)) then Ok false
    else (fix go (l m : list value) {struct l} : result terr bool :=
            match l, m with
            | [], _ => Ok true
            | _, [] => Ok true
            | x :: l', y :: m' =>
              match veq p x y with
              | Err e => Err e
              | Ok false => Ok false
              | Ok true => go l' m'
              end
            end) l m
  | VDict _, VDict _ => Err EUnsupported
  | VRange n, VRange m => Ok (Z.eqb (Z.max 0 n) (Z.max 0 m))
  | _, _ => match as_int a, as_int b with
            | Some x, Some y => Ok (Z.eqb x y)
            | _, _ => Ok false
            end
  end.

(* ---- printing ---- *)
Fixpoint dec_digits (fuel : nat) (n : N) (acc : str) : str :=
  match fuel with
  | O => acc
  | S f => let acc' := (48 + N.modulo n 10) :: acc in
           if N.div n 10 =? 0 then acc' else dec_digits f (N.div n 10) acc'
  end.
Definition show_N (n : N) : str := dec_digits (S (N.size_nat n)) n [].
Definition show_Z (z : Z) : str :=
  if Z.ltb z 0 then 45 :: show_N (Z.to_N (Z.abs z)) else show_N (Z.to_N z).

(* repr() of a str, for code points where it is simple; None = outside the sub-language *)
Definition repr_char (q : char) (c : char) : option str :=
  if c =? 92 then Some [92; 92]
  else if c =? q then Some [92; q]
  else if c =? 10 then Some [92; 110]
  else if c =? 13 then Some [92; 114]
  else if c =? 9 then Some [92; 116]
  else if (32 <=? c) && (c <=? 126) then Some [c]
  else None.

Fixpoint repr_chars (q : char) (s : str) : option str :=
  match s with
  | [] => Some []
  | c :: r => match repr_char q c, repr_chars q r with
              | Some a, Some b => Some (a ++ b)
              | _, _ => None
              end
  end.

Definition repr_str (s : str) : result terr str :=
  let q := if mem_char 39 s && negb (mem_char 34 s) then 34 else 39 in
  match repr_chars q s with
  | Some body => Ok (q :: body ++ [q])
  | None => Err EUnsupported
  end.

Fixpoint join_str (sep : str) (parts : list str) : str :=
  match parts with
  | [] => []
  | [p] => p
  | p :: r => p ++ sep ++ join_str sep r
  end.

(* [rf]: repr() of an Undefined object raises UndefinedError (false: it returns "Undefined") *)
Fixpoint repr (rf : bool) (v : value) : result terr str :=
  match v with
  | VNone => Ok ((* None *) [78; 111; 110; 101])
  | VBool b => Ok (if b then (* True *) [84; 114; 117; 101] else (* False *) [70; 97; 108; 115; 101])
  | VInt z => Ok (show_Z z)
  | VStr s => repr_str s
  | VList l =>
    match (fix go (l : list value) : result terr (list str) :=
             match l with
             | [] => Ok []
             | x :: r => match repr rf x with
                         | Err e => Err e
                         | Ok a => match go r with Err e => Err e | Ok t => Ok (a :: t) end
                         end
             end) l with
    | Err e => Err e
    | Ok parts => Ok (91 :: join_str [44; 32] parts ++ [93])
    end
  | VTuple l =>
    match (fix go (l : list value) : result terr (list str) :=
             match l with
             | [] => Ok []
             | x :: r => match repr rf x with
                         | Err e => Err e
                         | Ok a => match go r with Err e => Err e | Ok t => Ok (a :: t) end
                         end
             end) l with
    | Err e => Err e
    | Ok [p] => Ok (40 :: p ++ [44; 41])
    | Ok parts => Ok (40 :: join_str [44; 32] parts ++ [41])
    end
  | VDict d =>
    match (fix go (d : list (str * value)) : result terr (list str) :=
             match d with
             | [] => Ok []
             | (k, x) :: r =>
               match repr_str k, repr rf x with
               | Ok kk, Ok a => match go r with Err e => Err e | Ok t => Ok ((kk ++ [58; 32] ++ a) :: t) end
               | Err e, _ => Err e
               | _, Err e => Err e
               end
             end) d with
    | Err e => Err e
    | Ok parts => Ok (123 :: join_str [44; 32] parts ++ [125])
    end
  | VRange n => Ok ((* range(0,  *) [114; 97; 110; 103; 101; 40; 48; 44; 32] ++ show_Z n ++ [41])
  | VUndef => if rf then Err EUndefined
              else Ok ((* Undefined *) [85; 110; 100; 101; 102; 105; 110; 101; 100])
  end.

(* str(v) as `{{ v }}` prints it *)
Definition to_str (rf : bool) (p : undefined_policy) (v : value) : result terr str :=
  match v with
  | VStr s => Ok s
  | VUndef => undef_forced p []
  | _ => repr rf v
  end.

(* ---- attribute / item access (Environment.getattr / getitem) ---- *)
Definition get_attr (v : value) (f : str) : result terr value :=
  if reserved_attr f then Err EUnsupported
  else match v with
       | VUndef => Err EUndefined
       | VDict d => match lookup d f with Some x => Ok x | None => Ok VUndef end
       | _ => Ok VUndef
       end.

Definition nth_py {T} (l : list T) (i : Z) : option T :=
  let n := Z.of_nat (List.length l) in
  let j := if Z.ltb i 0 then Z.add i n else i in
  if Z.ltb j 0 then None else nth_error l (Z.to_nat j).

Definition range_nth (n i : Z) : option Z :=
  let m := Z.max 0 n in
  let j := if Z.ltb i 0 then Z.add i m else i in
  if Z.ltb j 0 || Z.leb m j then None else Some j.

Definition get_item (v k : value) : result terr value :=
  match v with
  | VUndef => Err EUndefined
  | _ =>
    match k with
    | VStr s =>
      match (match v with VDict d => lookup d s | _ => None end) with
      | Some x => Ok x
      | None => if reserved_attr s then Err EUnsupported else Ok VUndef
      end
    | VInt _ | VBool _ =>
      match as_int k with
      | None => Err EUnsupported
      | Some i =>
        match v with
        | VList l | VTuple l => Ok (match nth_py l i with Some x => x | None => VUndef end)
        | VStr s => Ok (match nth_py s i with Some c => VStr [c] | None => VUndef end)
        | VRange n => Ok (match range_nth n i with Some j => VInt j | None => VUndef end)
        | _ => Ok VUndef
        end
      end
    | _ => Err EUnsupported
    end
  end.

Definition zrange (n : Z) : list value := map (fun k => VInt (Z.of_nat k)) (seq 0 (Z.to_nat n)).

(* iterating a range: ranges longer than 10000 are outside the sub-language (the model would
   build the list in unary) *)
Definition range_items (n : Z) : result terr (list value) :=
  if Z.ltb 10000 n then Err EUnsupported else Ok (zrange n).

Definition iter_values (p : undefined_policy) (v : value) : result terr (list value) :=
  match v with
  | VList l | VTuple l => Ok l
  | VStr s => Ok (map (fun c => VStr [c]) s)
  | VDict d => Ok (map (fun kv => VStr (fst kv)) d)
  | VRange n => range_items n
  | VUndef => undef_forced p []
  | _ => Err ETypeErr
  end.

Fixpoint distinct_keys (l : list str) : bool :=
  match l with [] => true | k :: r => negb (mem_str k r) && distinct_keys r end.

(* ---- expressions ---- *)
Fixpoint eval (p : undefined_policy) (c : ctx) (e : expr) {struct e} : result terr value :=
  match e with
  | EVar x => if reserved_var x then Err EUnsupported
              else match lookup c x with Some v => Ok v | None => Ok VUndef end
  | EStr s => Ok (VStr s)
  | EInt z => Ok (VInt z)
  | EBool b => Ok (VBool b)
  | ENone => Ok VNone
  | EAttr a f => match eval p c a with Err e => Err e | Ok v => get_attr v f end
  | EIndex a i => match eval p c a with
                  | Err e => Err e
                  | Ok v => match eval p c i with Err e => Err e | Ok k => get_item v k end
                  end
  | EEq a b => match eval p c a with
               | Err e => Err e
               | Ok x => match eval p c b with
                         | Err e => Err e
                         | Ok y => match veq p x y with Err e => Err e | Ok r => Ok (VBool r) end
                         end
               end
  | ENe a b => match eval p c a with
               | Err e => Err e
               | Ok x => match eval p c b with
                         | Err e => Err e
                         | Ok y => match veq p x y with Err e => Err e | Ok r => Ok (VBool (negb r)) end
                         end
               end
  | ENot a => match eval p c a with
              | Err e => Err e
              | Ok x => match truthy p x with Err e => Err e | Ok t => Ok (VBool (negb t)) end
              end
  | EAnd a b => match eval p c a with
                | Err e => Err e
                | Ok x => match truthy p x with
                          | Err e => Err e
                          | Ok true => eval p c b
                          | Ok false => Ok x
                          end
                end
  | EOr a b => match eval p c a with
               | Err e => Err e
               | Ok x => match truthy p x with
                         | Err e => Err e
                         | Ok true => Ok x
                         | Ok false => eval p c b
                         end
               end
  | ERange a => match eval p c a with
                | Err e => Err e
                | Ok (VInt n) => Ok (VRange n)
                | Ok (VBool b) => Ok (VRange (if b then 1 else 0))
                | Ok _ => Err ETypeErr
                end
  | EList l =>
    match (fix go (l : list expr) : result terr (list value) :=
             match l with
             | [] => Ok []
             | a :: r => match eval p c a with
                         | Err e => Err e
                         | Ok x => match go r with Err e => Err e | Ok xs => Ok (x :: xs) end
                         end
             end) l with
    | Err e => Err e
    | Ok vs => Ok (VList vs)
    end
  | ETuple l =>
    match (fix go (l : list expr) : result terr (list value) :=
             match l with
             | [] => Ok []
             | a :: r => match eval p c a with
                         | Err e => Err e
                         | Ok x => match go r with Err e => Err e | Ok xs => Ok (x :: xs) end
                         end
             end) l with
    | Err e => Err e
    | Ok vs => Ok (VTuple vs)
    end
  | EDict d =>
    (* a repeated key (the later value wins, at the position of the first) is outside the
       sub-language *)
    if negb (distinct_keys (map fst d)) then Err EUnsupported else
    match (fix go (d : list (str * expr)) : result terr (list (str * value)) :=
             match d with
             | [] => Ok []
             | (k, a) :: r => match eval p c a with
                              | Err e => Err e
                              | Ok x => match go r with Err e => Err e | Ok xs => Ok ((k, x) :: xs) end
                              end
             end) d with
    | Err e => Err e
    | Ok kvs => Ok (VDict kvs)
    end
  end.

(* the escape filter: CellParser.escape_string(value) = value.replace(...): only str has
   .replace; on an Undefined object the attribute access raises UndefinedError *)
Definition apply_escape (v : value) : result terr str :=
  match v with
  | VStr s => Ok (escape_string s)
  | VUndef => Err EUndefined
  | _ => Err ETypeErr
  end.

(* ---- templates ---- *)
Section ConcatMapM.
  Context {T : Type}.
  Variable f : T -> result terr str.
  Fixpoint concat_mapM (l : list T) : result terr str :=
    match l with
    | [] => Ok []
    | x :: r => match f x with
                | Err e => Err e
                | Ok a => match concat_mapM r with Err e => Err e | Ok b => Ok (a ++ b) end
                end
    end.
End ConcatMapM.

(* text of a template must not contain a Jinja opening delimiter *)
Fixpoint text_ok (s : str) : bool :=
  match s with
  | [] => true
  | c :: r => match r with
              | d :: _ => if (c =? 123) && ((d =? 123) || (d =? 37) || (d =? 35)) then false else text_ok r
              | [] => true
              end
  end.

Fixpoint render_node (rf : bool) (p : undefined_policy) (n : node) (c : ctx) {struct n} : result terr str :=
  match n with
  | NText s => if text_ok s then Ok s else Err EUnsupported
  | NOut e => match eval p c e with Err er => Err er | Ok v => to_str rf p v end
  | NOutEsc e => match eval p c e with Err er => Err er | Ok v => apply_escape v end
  | NIf cnd a b =>
    match eval p c cnd with
    | Err er => Err er
    | Ok v => match truthy p v with
              | Err er => Err er
              | Ok true => concat_mapM (fun m => render_node rf p m c) a
              | Ok false => concat_mapM (fun m => render_node rf p m c) b
              end
    end
  | NFor x e body =>
    if reserved_var x then Err EUnsupported else
    match eval p c e with
    | Err er => Err er
    | Ok v => match iter_values p v with
              | Err er => Err er
              | Ok items =>
                concat_mapM (fun it => concat_mapM (fun m => render_node rf p m ((x, it) :: c)) body) items
              end
    end
  end.

Definition render (rf : bool) (p : undefined_policy) (t : tmpl) (c : ctx) : result terr str :=
  concat_mapM (fun m => render_node rf p m c) t.

(* NativeEnvironment: the value itself; a str result is re-read with ast.literal_eval, so
   only strings that cannot be Python literals are inside the sub-language *)
Definition is_alpha_ (c : char) : bool :=
  ((65 <=? c) && (c <=? 90)) || ((97 <=? c) && (c <=? 122)) || (c =? 95).
Definition is_alnum_ (c : char) : bool := is_alpha_ c || ((48 <=? c) && (c <=? 57)).

Fixpoint first_word (s : str) : str :=
  match s with [] => [] | c :: r => if c =? 32 then [] else c :: first_word r end.

Definition native_plain (s : str) : bool :=
  match s with
  | [] => true
  | c :: _ => is_alpha_ c && forallb (fun d => is_alnum_ d || (d =? 32)) s
              && negb (mem_str (first_word s) ([(* True *) [84; 114; 117; 101]; (* False *) [70; 97; 108; 115; 101]; (* None *) [78; 111; 110; 101]]))
  end.

(* [nc]: the code looks through the result (the value itself, list and tuple elements, dict
   values, to any depth) and raises UndefinedError when it meets an Undefined object *)
Definition eval_native (nc : bool) (p : undefined_policy) (e : expr) (c : ctx) : result terr value :=
  match eval p c e with
  | Err er => Err er
  | Ok v =>
    if nc && has_undef v then Err EUndefined
    else match v with
         | VStr s => if native_plain s then Ok (VStr s) else Err EUnsupported
         | _ => Ok v
         end
  end.

(* ---- concrete syntax (printer).  The harness sends ASTs; the text handed to the real
   CellParser is [show_cell] computed here, so model and code see the same cell. ---- *)
Definition is_ident (s : str) : bool :=
  match s with [] => false | c :: _ => is_alpha_ c && forallb is_alnum_ s end.

Definition lit_ok (s : str) : bool :=
  negb (mem_char 39 s) && negb (mem_char 92 s) && negb (mem_char 13 s).

(* Jinja folds variable-free expressions at COMPILE time; an attribute/item access on a
   literal that yields Undefined is then forced while compiling, even inside an un-taken
   branch.  Such accesses are outside the sub-language. *)
Fixpoint is_const (e : expr) : bool :=
  match e with
  | EVar _ | ERange _ => false
  | EStr _ | EInt _ | EBool _ | ENone => true
  | EAttr a _ | ENot a => is_const a
  | EIndex a b | EEq a b | ENe a b | EAnd a b | EOr a b => is_const a && is_const b
  | EList l | ETuple l =>
    (fix go (l : list expr) : bool :=
       match l with [] => true | a :: r => is_const a && go r end) l
  | EDict d => (fix go (d : list (str * expr)) : bool :=
                  match d with [] => true | (_, a) :: r => is_const a && go r end) d
  end.

Fixpoint expr_ok (e : expr) : bool :=
  match e with
  | EVar x => is_ident x && negb (reserved_var x)
  | EAttr a f => expr_ok a && is_ident f && negb (reserved_attr f) && negb (is_const a)
  | EIndex a i => expr_ok a && expr_ok i && negb (is_const a && is_const i)
  | EStr s => lit_ok s
  | EInt _ | EBool _ | ENone => true
  | EEq a b | ENe a b | EAnd a b | EOr a b => expr_ok a && expr_ok b
  | ENot a | ERange a => expr_ok a
  | EList l | ETuple l =>
    (fix go (l : list expr) : bool :=
       match l with [] => true | a :: r => expr_ok a && go r end) l
  | EDict d => distinct_keys (map fst d)
               && (fix go (d : list (str * expr)) : bool :=
                     match d with [] => true | (k, a) :: r => lit_ok k && expr_ok a && go r end) d
  end.

Fixpoint show_expr (e : expr) : str :=
  match e with
  | EVar x => x
  | EAttr a f => 40 :: show_expr a ++ [41; 46] ++ f
  | EIndex a i => 40 :: show_expr a ++ [41; 91] ++ show_expr i ++ [93]
  | EStr s => 39 :: s ++ [39]
  | EInt z => 40 :: show_Z z ++ [41]
  | EBool b => if b then (* true *) [116; 114; 117; 101] else (* false *) [102; 97; 108; 115; 101]
  | ENone => (* none *) [110; 111; 110; 101]
  | EEq a b => 40 :: show_expr a ++ (* == *) [32; 61; 61; 32] ++ show_expr b ++ [41]
  | ENe a b => 40 :: show_expr a ++ (* != *) [32; 33; 61; 32] ++ show_expr b ++ [41]
  | ENot a => (* (not  *) [40; 110; 111; 116; 32] ++ show_expr a ++ [41]
  | EAnd a b => 40 :: show_expr a ++ (* and *) [32; 97; 110; 100; 32] ++ show_expr b ++ [41]
  | EOr a b => 40 :: show_expr a ++ (* or *) [32; 111; 114; 32] ++ show_expr b ++ [41]
  | ERange a => (* range( *) [114; 97; 110; 103; 101; 40] ++ show_expr a ++ [41]
  | EList l => 91 :: join_str [44; 32] ((fix go (l : list expr) : list str :=
                                          match l with [] => [] | a :: r => show_expr a :: go r end) l) ++ [93]
  | ETuple l =>
    match (fix go (l : list expr) : list str :=
             match l with [] => [] | a :: r => show_expr a :: go r end) l with
    | [p] => 40 :: p ++ [44; 41]
    | parts => 40 :: join_str [44; 32] parts ++ [41]
    end
  | EDict d => 123 :: join_str [44; 32] ((fix go (d : list (str * expr)) : list str :=
                                           match d with
                                           | [] => []
                                           | (k, a) :: r => (39 :: k ++ [39; 58; 32] ++ show_expr a) :: go r
                                           end) d) ++ [125]
  end.

Fixpoint node_ok (n : node) : bool :=
  match n with
  | NText s => text_ok s && negb (mem_char 123 s) && negb (mem_char 13 s)
  | NOut e | NOutEsc e => expr_ok e
  | NIf c a b => expr_ok c
                 && (fix go (l : list node) : bool := match l with [] => true | m :: r => node_ok m && go r end) a
                 && (fix go (l : list node) : bool := match l with [] => true | m :: r => node_ok m && go r end) b
  | NFor x e body => is_ident x && negb (reserved_var x) && expr_ok e
                     && (fix go (l : list node) : bool := match l with [] => true | m :: r => node_ok m && go r end) body
  end.

Fixpoint show_node (n : node) : str :=
  match n with
  | NText s => s
  | NOut e => (* {{  *) [123; 123; 32] ++ show_expr e ++ (* }}*) [32; 125; 125]
  | NOutEsc e => (* {{  *) [123; 123; 32] ++ show_expr e ++ (* | escape }}*) [32; 124; 32; 101; 115; 99; 97; 112; 101; 32; 125; 125]
  | NIf c a b => (* {% if  *) [123; 37; 32; 105; 102; 32] ++ show_expr c ++ (* %}*) [32; 37; 125] ++ flat_map show_node a
                 ++ (* {% else %} *) [123; 37; 32; 101; 108; 115; 101; 32; 37; 125] ++ flat_map show_node b ++ (* {% endif %} *) [123; 37; 32; 101; 110; 100; 105; 102; 32; 37; 125]
  | NFor x e body => (* {% for  *) [123; 37; 32; 102; 111; 114; 32] ++ x ++ (* in *) [32; 105; 110; 32] ++ show_expr e ++ (* %}*) [32; 37; 125]
                     ++ flat_map show_node body ++ (* {% endfor %} *) [123; 37; 32; 101; 110; 100; 102; 111; 114; 32; 37; 125]
  end.

(* a cell: a text template or a whole-cell native template *)
Inductive cell :=
| CTmpl (t : tmpl)
| CNative (e : expr).

Fixpoint no_adjacent_text (t : tmpl) : bool :=
  match t with
  | NText _ :: ((NText _ :: _) as r) => false
  | _ :: r => no_adjacent_text r
  | [] => true
  end.

Definition cell_ok (c : cell) : bool :=
  match c with CTmpl t => forallb node_ok t && no_adjacent_text t | CNative e => expr_ok e end.

Definition show_cell (c : cell) : str :=
  match c with
  | CTmpl t => flat_map show_node t
  | CNative e => (* {@  *) [123; 64; 32] ++ show_expr e ++ (* @}*) [32; 64; 125]
  end.

(* str.strip() on the template: the first text loses its leading, the last its trailing
   whitespace (tags begin with '{' and end with '}', which are not whitespace) *)
Definition strip_first (t : tmpl) : tmpl :=
  match t with NText s :: r => NText (lstrip s) :: r | _ => t end.
Fixpoint strip_last (t : tmpl) : tmpl :=
  match t with
  | [] => []
  | [NText s] => [NText (rstrip s)]
  | n :: r => n :: strip_last r
  end.

Fixpoint find_sub (pat s : str) : bool :=
  match s with
  | [] => starts_with pat []
  | _ :: r => starts_with pat s || find_sub pat r
  end.

(* result of CellParser.parse_as_string / parse *)
Inductive pres :=
| PStr (s : str)        (* a string (rendered or returned untouched) *)
| PObj (v : value)      (* {@ @}: an object that is not processed further *)
| PNv (v : nv).         (* parse: the rendered string split into nested lists *)

(* CellParser.parse_as_string(value, context) for value = show_cell c.
   octx = None is `context is None` (omit_templating). *)
(* what the code does with an Undefined object that nothing forced: the three probed facts *)
Record uflags := mk_uflags {
  f_env_repr : bool;     (* text environment: repr() of its Undefined objects fails *)
  f_nat_repr : bool;     (* native environment: the same *)
  f_nat_check : bool     (* parse_as_string looks through a native result for Undefined objects *)
}.
Definition tree_flags : uflags := mk_uflags env_repr_fails native_repr_fails native_result_checked.

Definition parse_as_string_f (fl : uflags) (penv pnat : undefined_policy) (octx : option ctx) (c : cell)
  : result terr pres :=
  let stripped := strip (show_cell c) in
  match octx with
  | None => Ok (PStr stripped)
  | Some cx =>
    if (match cx with [] => true | _ => false end) && negb (mem_char 123 stripped) then Ok (PStr stripped)
    else if negb (cell_ok c) then Err EUnsupported
    else if starts_with ((* {@ *) [123; 64]) stripped && ends_with ((* @} *) [64; 125]) stripped then
      if find_sub ((* {@ *) [123; 64]) (skipn 2 stripped) then Err ENested
      else match c with
           | CNative e => match eval_native (f_nat_check fl) pnat e cx with Err er => Err er | Ok v => Ok (PObj v) end
           | CTmpl _ => Err EUnsupported
           end
    else match c with
         | CTmpl t => match render (f_env_repr fl) penv (strip_last (strip_first t)) cx with
                      | Err er => Err er
                      | Ok s => Ok (PStr s)
                      end
         | CNative _ => Err EUnsupported
         end
  end.

Definition parse_f (fl : uflags) (penv pnat : undefined_policy) (octx : option ctx) (c : cell) : result terr pres :=
  match parse_as_string_f fl penv pnat octx c with
  | Err er => Err er
  | Ok (PStr s) => Ok (PNv (split_into_lists s))
  | Ok r => Ok r
  end.

(* the code of this run *)
Definition parse_as_string_m := parse_as_string_f tree_flags.
Definition parse_m := parse_f tree_flags.
