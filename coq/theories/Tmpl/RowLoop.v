(* E3/E7 fragment — the row loop of FlowParser._parse_block as far as templating is
   concerned: which rows are handed to the template engine, with which context, in which
   order; loops (bookmark re-reading, add_to_context / remove_from_context as coded),
   blocks, include_if, omit_content.  Definitions only.

   What the code does with a loop variable after end_for (pop it / put the shadowed binding
   back), with the body of a loop over zero elements (leave it to the enclosing block / read
   it with omit_content) and with the removal of an absent key (KeyError / no-op) are
   parameters [scope emp tol], instantiated by the wire with the behavioural probes of the
   current tree (Gen/Tables.v: loop_scope_policy, empty_loop_policy, remove_tolerant).

   A row has two templated cells: include_if (evaluated first, see inst_row_incl), then the main argument
   (message_text).  Everything else in a row is literal.  The model threads an EVENT LOG:
   [EvRow i templ]   parse_next_row returned row i, templ = not omit_templating
   [EvRender txt]    the template engine was invoked on cell text txt (only cells with '{')
   [EvEmit msg]      a send_message row produced a node with text msg. *)
From Coq Require Import List NArith ZArith Bool.
From RPFT Require Import Base.Sexp Base.PyStr Base.Result Gen.Tables Cell.Cell Tmpl.MiniJinja.
Import ListNotations.
Local Open Scope N_scope.

Inductive rkind := KPlain | KBeginFor (var : str) | KEndFor | KBeginBlock | KEndBlock.
Record srow := mk_srow { rk : rkind; r_inc : cell; r_main : cell }.

Inductive event :=
| EvRow (i : nat) (templated : bool)
| EvRender (txt : str)
| EvEmit (msg : str).

Inductive btype := BRoot | BFor | BBlock.

Fixpoint ctx_remove (c : ctx) (x : str) : ctx :=
  match c with
  | [] => []
  | (k, v) :: r => if str_eqb k x then ctx_remove r x else (k, v) :: ctx_remove r x
  end.
(* context[x] = v : an existing key keeps its position, a new one goes last *)
Fixpoint ctx_set (c : ctx) (x : str) (v : value) : ctx :=
  match c with
  | [] => [(x, v)]
  | (k, w) :: r => if str_eqb k x then (k, v) :: r else (k, w) :: ctx_set r x v
  end.

Fixpoint nv_to_value (v : nv) : value :=
  match v with
  | Str s => VStr s
  | Lst l => VList (map nv_to_value l)
  end.

Section Sheet.
Variables penv pnat : undefined_policy.
Variable scope : loop_scope.
Variable emp : empty_loop.
Variable tol : bool.

(* SheetParser.get_shadowed_context for the loop variable (nothing is remembered before the repair) *)
Definition saved_of (c : ctx) (x : str) : option value :=
  match scope with ScopeRestore => lookup c x | ScopePop => None end.

(* after end_for: add_to_context(x, shadowed) or remove_from_context(x) *)
Definition ctx_restore (c : ctx) (x : str) (saved : option value) : option ctx :=
  match saved with
  | Some v => Some (ctx_set c x v)
  | None => match lookup c x with
            | Some _ => Some (ctx_remove c x)
            | None => if tol then Some c else None
            end
  end.

(* does parse_as_string reach env.from_string(...).render for this cell? *)
Definition renders (octx : option ctx) (c : cell) : bool :=
  match octx with
  | None => false
  | Some cx => negb ((match cx with [] => true | _ => false end) && negb (mem_char 123 (strip (show_cell c))))
  end.

Definition log_render (octx : option ctx) (c : cell) (log : list event) : list event :=
  if renders octx c && mem_char 123 (strip (show_cell c)) then log ++ [EvRender (strip (show_cell c))] else log.

(* bool field: assign_value *)
Definition str_to_include (s : str) : bool :=
  match strip s with
  | [] => true
  | t => negb (str_eqb (lower t) ((* false *) [102; 97; 108; 115; 101]))
  end.

Definition to_include (r : pres) : result terr bool :=
  match r with
  | PStr s => Ok (str_to_include s)
  | PObj (VStr s) => Ok (str_to_include s)
  | PObj v => truthy pnat v
  | PNv _ => Err EUnsupported
  end.

(* str field: model(value) = str(value); the value comes from the native environment, so an
   Undefined object inside it is shown by THAT environment's class (probed constant) *)
Definition to_text (r : pres) : result terr str :=
  match r with
  | PStr s => Ok s
  | PObj v => to_str native_repr_fails pnat v
  | PNv _ => Err EUnsupported
  end.

(* `list` field: list(value) if iterable and not str, else [value] *)
Definition to_entries (r : pres) : result terr (list value) :=
  match r with
  | PNv (Str s) => Ok [VStr s]
  | PNv (Lst l) => Ok (map nv_to_value l)
  | PObj (VList l) | PObj (VTuple l) => Ok l
  | PObj (VRange n) => range_items n
  | PObj (VDict d) => Ok (map (fun kv => VStr (fst kv)) d)
  | PObj VUndef => undef_forced pnat []
  | PObj v => Ok [v]
  | PStr _ => Err EUnsupported
  end.

Inductive mainval := MText (s : str) | MEntries (l : list value).

(* RowParser.parse_row on our two templated cells, in column order *)
Definition inst_row (octx : option ctx) (r : srow) (log : list event)
  : list event * result terr (bool * mainval) :=
  let log1 := log_render octx (r_inc r) log in
  match parse_as_string_m penv pnat octx (r_inc r) with
  | Err e => (log1, Err e)
  | Ok pi =>
    match to_include pi with
    | Err e => (log1, Err e)
    | Ok inc =>
      let log2 := log_render octx (r_main r) log1 in
      match rk r with
      | KBeginFor _ =>
        match parse_m penv pnat octx (r_main r) with
        | Err e => (log2, Err e)
        | Ok pm => match to_entries pm with
                   | Err e => (log2, Err e)
                   | Ok es => (log2, Ok (inc, MEntries es))
                   end
        end
      | _ =>
        match parse_as_string_m penv pnat octx (r_main r) with
        | Err e => (log2, Err e)
        | Ok pm => match to_text pm with
                   | Err e => (log2, Err e)
                   | Ok s => (log2, Ok (inc, MText s))
                   end
        end
      end
    end
  end.

(* SheetParser.parse_next_row with include_column = "include_if": the inclusion cell is
   evaluated FIRST; when it reads as excluded the row is parsed without templating
   (context None) with the inclusion cell replaced by the literal "false", so that the other
   cells of an excluded row are never handed to the template engine.  Otherwise the row is
   parsed as before (the inclusion cell is then rendered a second time by parse_row).

   What "reads as excluded" means is a behaviour of the tree, [fx] (regenerated constant
   falsy_include_if_skips_evaluation, probed through FlowParser):
     fx = false   str(value).strip().lower() == "false"  — a falsy OBJECT that is not False
                  ({@ none @}, {@ 0 @}, {@ [] @}) does not protect the other cells, although
                  RowParser then reads the bool field as bool(value) = False and the row is skipped
                  (finding falsy-include_if-row-evaluated);
     fx = true    SheetParser._is_excluded: a string is excluded when it says "false", any other
                  object when it is falsy — what RowParser will make of it. *)
Definition cell_false : cell := CTmpl [NText ((* false *) [102; 97; 108; 115; 101])].

Definition precheck_excluded (fx : bool) (pi : pres) : result terr bool :=
  match to_text pi with
  | Err e => Err e
  | Ok s =>
    if str_eqb (lower (strip s)) ((* false *) [102; 97; 108; 115; 101]) then Ok true
    else if fx then
      match pi with
      | PObj (VStr _) => Ok false
      | PObj v => match truthy pnat v with Err e => Err e | Ok b => Ok (negb b) end
      | _ => Ok false
      end
    else Ok false
  end.

Definition inst_row_incl_f (fx : bool) (octx : option ctx) (r : srow) (log : list event)
  : list event * result terr (bool * mainval) :=
  match octx with
  | None => inst_row None r log
  | Some _ =>
    let log0 := log_render octx (r_inc r) log in
    match parse_as_string_m penv pnat octx (r_inc r) with
    | Err e => (log0, Err e)
    | Ok pi =>
      match precheck_excluded fx pi with
      | Err e => (log0, Err e)
      | Ok true => inst_row None (mk_srow (rk r) cell_false (r_main r)) log0
      | Ok false => inst_row octx r log0
      end
    end
  end.

(* the code of this run *)
Definition inst_row_incl := inst_row_incl_f falsy_include_if_skips_evaluation.

Inductive endres := EndYes | EndNo | EndErr.
Definition end_check (bt : btype) (k : rkind) : endres :=
  match k, bt with
  | KEndFor, BFor => EndYes
  | KEndBlock, BBlock => EndYes
  | KEndFor, _ => EndErr
  | KEndBlock, _ => EndErr
  | _, _ => EndNo
  end.

Variable rows : list srow.

(* for entry in iterlist: go_to_bookmark, add_to_context, parse the body
   ([body] = _parse_block(depth + 1, "for") of the enclosing call, started at the bookmark) *)
Fixpoint loop_iter (body : ctx -> list event -> list event * result terr (nat * ctx)) (var : str)
         (es : list value) (p : nat) (c : ctx) (lg : list event) : list event * result terr (nat * ctx) :=
  match es with
  | [] => (lg, Ok (p, c))
  | en :: rest =>
    match body (ctx_set c var en) lg with
    | (lg', Err e) => (lg', Err e)
    | (lg', Ok (p', c')) => loop_iter body var rest p' c' lg'
    end
  end.

Fixpoint parse_block (fuel : nat) (bt : btype) (omit : bool) (pos : nat) (cx : ctx) (log : list event)
  {struct fuel} : list event * result terr (nat * ctx) :=
  match fuel with
  | O => (log, Err EFuel)
  | S f =>
    match nth_error rows pos with
    | None => match bt with BRoot => (log, Ok (pos, cx)) | _ => (log, Err EBlock) end
    | Some r =>
      match inst_row_incl (if omit then None else Some cx) r (log ++ [EvRow pos (negb omit)]) with
      | (log2, Err e) => (log2, Err e)
      | (log2, Ok (inc, mv)) =>
        match end_check bt (rk r) with
        | EndYes => (log2, Ok (S pos, cx))
        | EndErr => (log2, Err EBlock)
        | EndNo =>
          if omit || negb inc then
            match rk r with
            | KBeginFor _ =>
              match parse_block f BFor true (S pos) cx log2 with
              | (log3, Err e) => (log3, Err e)
              | (log3, Ok (p, cx')) => parse_block f bt omit p cx' log3
              end
            | KBeginBlock =>
              match parse_block f BBlock true (S pos) cx log2 with
              | (log3, Err e) => (log3, Err e)
              | (log3, Ok (p, cx')) => parse_block f bt omit p cx' log3
              end
            | _ => parse_block f bt omit (S pos) cx log2
            end
          else
            match rk r with
            | KBeginFor var =>
              match var, mv with
              | [], _ => (log2, Err EBlock)
              | _, MText _ => (log2, Err EUnsupported)
              | _, MEntries es =>
                match loop_iter (fun c lg => parse_block f BFor false (S pos) c lg) var es (S pos) cx log2 with
                | (log3, Err e) => (log3, Err e)
                | (log3, Ok (p, c3)) =>
                  (* nothing to iterate over: the body is read with omit_content (repaired code) *)
                  match (match es, emp with
                         | [], EmptySkip => parse_block f BFor true p c3 log3
                         | _, _ => (log3, Ok (p, c3))
                         end) with
                  | (log4, Err e) => (log4, Err e)
                  | (log4, Ok (p4, c4)) =>
                    match ctx_restore c4 var (saved_of cx var) with
                    | None => (log4, Err EKey)
                    | Some c5 => parse_block f bt omit p4 c5 log4
                    end
                  end
                end
              end
            | KBeginBlock =>
              match parse_block f BBlock false (S pos) cx log2 with
              | (log3, Err e) => (log3, Err e)
              | (log3, Ok (p, cx')) => parse_block f bt omit p cx' log3
              end
            | _ =>
              match mv with
              | MText [] => (log2, Err EEmpty)
              | MText s => parse_block f bt omit (S pos) cx (log2 ++ [EvEmit s])
              | MEntries _ => (log2, Err EUnsupported)
              end
            end
        end
      end
    end
  end.

End Sheet.

(* fuel: every call consumes one unit; the harness keeps sheets far below this *)
Definition run_sheet (penv pnat : undefined_policy) (rows : list srow) (cx : ctx)
  : list event * result terr (nat * ctx) :=
  parse_block penv pnat loop_scope_policy empty_loop_policy remove_tolerant rows (N.to_nat 20000) BRoot false 0 cx [].
