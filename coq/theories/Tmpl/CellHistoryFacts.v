From Coq Require Import List NArith ZArith Bool Lia.
From RPFT Require Import Base.Sexp Base.PyStr Base.Result Gen.Tables Cell.Cell Tmpl.MiniJinja Tmpl.CellHistory.
Import ListNotations.

(* a sequence of cells through one CellParser = the pure function applied to each; the parser comes out as it went in *)
Theorem cp_run_is_map : forall st cs, cp_run st cs = (st, map (cp_do st) cs).
Proof.
  intros st cs. induction cs as [|c r IH]; [reflexivity|].
  cbn [cp_run cp_step map]. rewrite IH. reflexivity.
Qed.

(* the result of a cell does not depend on what the same CellParser parsed before *)
Theorem cp_call_history_free : forall st h1 h2 c t1 t2,
  nth_error (snd (cp_run st (h1 ++ c :: t1))) (length h1) = nth_error (snd (cp_run st (h2 ++ c :: t2))) (length h2).
Proof.
  intros st h1 h2 c t1 t2. rewrite !cp_run_is_map. cbn [snd]. rewrite !map_app. cbn [map].
  rewrite !nth_error_app2 by (rewrite map_length; lia). rewrite !map_length, !PeanoNat.Nat.sub_diag. reflexivity.
Qed.

(* in particular: an unknown name is reported every time it is met — after a failing call, after the same cell, after a
   call in which the name was defined *)
Corollary cp_error_every_time : forall st h c t e,
  cp_do st c = Err e ->
  nth_error (snd (cp_run st (h ++ c :: t))) (length h) = Some (Err e).
Proof.
  intros st h c t e H. rewrite cp_run_is_map. cbn [snd]. rewrite map_app. cbn [map].
  rewrite nth_error_app2 by (rewrite map_length; lia). rewrite map_length, PeanoNat.Nat.sub_diag. cbn. rewrite H. reflexivity.
Qed.

(* non-vacuity: {{ x }} fails, succeeds with x defined, fails again; the second failure is the first one *)
Definition vx : str := [120%N].
Definition cell_x : cell := CTmpl [NOut (EVar vx)].
Definition cell_history_example : Prop :=
  snd (cp_run (mk_cp Strict Strict)
         [mk_cp_call (Some [([121%N], VStr [])]) cell_x false;
          mk_cp_call (Some [(vx, VStr [118%N])]) cell_x false;
          mk_cp_call (Some [([121%N], VStr [])]) cell_x false;
          mk_cp_call None cell_x false])
  = [Err EUndefined; Ok (PStr [118%N]); Err EUndefined; Ok (PStr (show_cell cell_x))].

Lemma cell_history_example_holds : cell_history_example.
Proof. vm_compute. reflexivity. Qed.
