(* E3 — a CellParser as a LONG-LIVED object.  One CellParser serves every cell of every row of a sheet (RowParser keeps
   it), FlowParser creates one per instantiated sheet.  What it holds are its two Jinja environments, i.e. their
   undefined policies; as coded, parse_as_string / parse write nothing on the object: no memo of rendered cells, no list of
   collected errors, no "already reported" set.  The state machine below says so — [cp_step] hands the state back
   unchanged — and CellHistoryFacts.v derives that the result of a call does not depend on the calls made before it
   (failing ones, the same cell, the same name defined or not).  The correspondence (harness/c16.py) runs the generated
   cells as histories through [cp_run] (extracted) and through ONE real CellParser.  Definitions only. *)
From Coq Require Import List NArith ZArith Bool.
From RPFT Require Import Base.Sexp Base.PyStr Base.Result Gen.Tables Cell.Cell Tmpl.MiniJinja.
Import ListNotations.

Record cp_state := mk_cp { cp_env : undefined_policy; cp_nat : undefined_policy }.

Record cp_call := mk_cp_call {
  cc_ctx : option ctx;          (* None = context None (omit_templating) *)
  cc_cell : cell;
  cc_parse : bool }.            (* true: CellParser.parse, false: parse_as_string *)

Definition cp_do (st : cp_state) (c : cp_call) : result terr pres :=
  if cc_parse c then parse_m (cp_env st) (cp_nat st) (cc_ctx c) (cc_cell c)
  else parse_as_string_m (cp_env st) (cp_nat st) (cc_ctx c) (cc_cell c).

Definition cp_step (st : cp_state) (c : cp_call) : cp_state * result terr pres := (st, cp_do st c).

Fixpoint cp_run (st : cp_state) (cs : list cp_call) : cp_state * list (result terr pres) :=
  match cs with
  | [] => (st, [])
  | c :: r =>
    let '(st1, o) := cp_step st c in
    let '(st2, os) := cp_run st1 r in
    (st2, o :: os)
  end.
