(* The one fact that depends on what the code configures today: both Jinja environments
   are strict about undefined names — by class (gen_tables.tables_env) and by behaviour
   (translator/tables_c16.py probes through CellParser().parse_as_string).
   This file FAILS TO COMPILE while the code configures a lenient environment. *)
From Coq Require Import List NArith Bool.
From RPFT Require Import Base.Sexp Gen.Tables.

Definition env_is_strict_stmt : Prop :=
  env_undefined_policy = Strict /\ native_undefined_policy = Strict.

Definition probes_all_error : bool :=
  let is_err r := match r with ProbeError => true | _ => false end in
  is_err env_probe_bare && is_err env_probe_in_text && is_err env_probe_if && is_err env_probe_for
  && is_err env_probe_eq && is_err env_probe_not && is_err env_probe_field && is_err env_probe_index
  && is_err native_probe_bare && is_err native_probe_field && is_err native_probe_not
  && probe_control_ok && env_finalize_is_none.

Lemma env_is_strict : env_is_strict_stmt.
Proof. split; reflexivity. Qed.

Lemma env_behaves_strict : probes_all_error = true.
Proof. vm_compute. reflexivity. Qed.
