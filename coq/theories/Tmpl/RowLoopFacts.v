(* Facts about the row loop (Tmpl/RowLoop.v) after the C03 repairs, for every sheet, context,
   fuel and undefined policy:
   1. rowloop_ctx_preserved   with the shadowed binding put back (ScopeRestore) every call of
                              _parse_block returns with exactly the context it was entered with:
                              the loop variable is lexically scoped
   2. rowloop_empty_loop_skipped  a begin_for over zero elements (EmptySkip) behaves exactly like
                              the same head under a false include_if: its body is read with
                              omit_content (TmplFacts.skipped_not_evaluated: nothing is handed to
                              the template engine, nothing is produced)
   3. witnesses, including the recorded defect under ScopePop. *)
From Coq Require Import List NArith ZArith Bool.
From RPFT Require Import Base.Sexp Base.PyStr Base.PyStrFacts Base.Result Gen.Tables Cell.Cell
  Tmpl.MiniJinja Tmpl.RowLoop Tmpl.TmplFacts.
Import ListNotations.

(* ------------------------------------------------------------------ the dict operations *)
Lemma ctx_set_same c x v : lookup c x = Some v -> ctx_set c x v = c.
Proof.
  induction c as [|[k w] r IH]; cbn [lookup ctx_set]; intros H; [discriminate|].
  destruct (str_eqb k x) eqn:E.
  - inversion H; subst. reflexivity.
  - rewrite (IH H). reflexivity.
Qed.

Lemma ctx_set_set c x a b : ctx_set (ctx_set c x a) x b = ctx_set c x b.
Proof.
  induction c as [|[k w] r IH]; cbn [ctx_set].
  - rewrite str_eqb_refl. reflexivity.
  - destruct (str_eqb k x) eqn:E; cbn [ctx_set]; rewrite E; [reflexivity|]. rewrite IH. reflexivity.
Qed.

Lemma lookup_ctx_set_same c x a : lookup (ctx_set c x a) x = Some a.
Proof.
  induction c as [|[k w] r IH]; cbn [ctx_set lookup].
  - rewrite str_eqb_refl. reflexivity.
  - destruct (str_eqb k x) eqn:E; cbn [lookup]; rewrite E; [reflexivity|exact IH].
Qed.

Lemma ctx_remove_set_fresh c x a : lookup c x = None -> ctx_remove (ctx_set c x a) x = c.
Proof.
  induction c as [|[k w] r IH]; cbn [lookup ctx_set ctx_remove]; intros H.
  - rewrite str_eqb_refl. reflexivity.
  - destruct (str_eqb k x) eqn:E; [discriminate|]. cbn [ctx_remove]. rewrite E, (IH H). reflexivity.
Qed.

(* no iteration ran *)
Lemma ctx_restore_unbound tol c x c' : ctx_restore tol c x (lookup c x) = Some c' -> c' = c.
Proof.
  unfold ctx_restore. destruct (lookup c x) as [v|] eqn:E.
  - intros H. inversion H; subst. apply ctx_set_same. exact E.
  - destruct tol; intros H; inversion H; reflexivity.
Qed.

(* after the last iteration *)
Lemma ctx_restore_bound tol c x e c' : ctx_restore tol (ctx_set c x e) x (lookup c x) = Some c' -> c' = c.
Proof.
  unfold ctx_restore. destruct (lookup c x) as [v|] eqn:E.
  - rewrite ctx_set_set. intros H. inversion H; subst. apply ctx_set_same. exact E.
  - rewrite lookup_ctx_set_same, (ctx_remove_set_fresh _ _ _ E). intros H. inversion H; reflexivity.
Qed.

Lemma ctx_restore_tolerant c x : ctx_restore true c x (lookup c x) = Some c.
Proof.
  unfold ctx_restore. destruct (lookup c x) as [v|] eqn:E; [|reflexivity].
  rewrite (ctx_set_same _ _ _ E). reflexivity.
Qed.

(* ------------------------------------------------------------------ 1. lexical scope *)
Lemma loop_iter_ctx (body : ctx -> list event -> list event * result terr (nat * ctx)) var cx :
  (forall c lg lg' p c', body c lg = (lg', Ok (p, c')) -> c' = c) ->
  forall es p c lg lg' p' c',
    (c = cx \/ exists e, c = ctx_set cx var e) ->
    loop_iter body var es p c lg = (lg', Ok (p', c')) ->
    (c' = cx \/ exists e, c' = ctx_set cx var e).
Proof.
  intros Hbody. induction es as [|en rest IH]; intros p c lg lg' p' c' Hinv H; cbn [loop_iter] in H.
  - inversion H; subst. exact Hinv.
  - destruct (body (ctx_set c var en) lg) as [lg1 [[p1 c1]|e1]] eqn:Eb; [|discriminate].
    apply Hbody in Eb. subst c1.
    refine (IH _ _ _ _ _ _ _ H). right.
    destruct Hinv as [->|[e0 ->]]; [exists en; reflexivity|]. exists en. apply ctx_set_set.
Qed.

Theorem rowloop_ctx_preserved : forall pe pn emp tol rows fuel bt omit pos cx log log' p cx',
  parse_block pe pn ScopeRestore emp tol rows fuel bt omit pos cx log = (log', Ok (p, cx')) -> cx' = cx.
Proof.
  intros pe pn emp tol rows fuel.
  induction fuel as [|f IH]; intros bt omit pos cx log log' p cx' H; cbn [parse_block] in H; [discriminate|].
  destruct (nth_error rows pos) as [r|].
  2:{ destruct bt; inversion H; reflexivity. }
  destruct (inst_row_incl pe pn (if omit then None else Some cx) r (log ++ [EvRow pos (negb omit)])) as [log2 [[inc mv]|e]];
    [|discriminate].
  destruct (end_check bt (rk r)); [inversion H; reflexivity| |discriminate].
  destruct (omit || negb inc).
  - destruct (rk r) as [|var| | |].
    + exact (IH _ _ _ _ _ _ _ _ H).
    + destruct (parse_block pe pn ScopeRestore emp tol rows f BFor true (S pos) cx log2) as [log3 [[p3 c3]|e3]] eqn:E3; [|discriminate].
      apply IH in E3. apply IH in H. congruence.
    + exact (IH _ _ _ _ _ _ _ _ H).
    + destruct (parse_block pe pn ScopeRestore emp tol rows f BBlock true (S pos) cx log2) as [log3 [[p3 c3]|e3]] eqn:E3; [|discriminate].
      apply IH in E3. apply IH in H. congruence.
    + exact (IH _ _ _ _ _ _ _ _ H).
  - destruct (rk r) as [|var| | |].
    + destruct mv as [[|ch s]|es]; try discriminate. exact (IH _ _ _ _ _ _ _ _ H).
    + destruct var as [|v0 vr]; [discriminate|]. destruct mv as [s|es]; [discriminate|].
      set (var := v0 :: vr) in *.
      destruct (loop_iter (fun c lg => parse_block pe pn ScopeRestore emp tol rows f BFor false (S pos) c lg) var es (S pos) cx log2)
        as [log3 [[p3 c3]|e3]] eqn:E3; [|discriminate].
      assert (Hinv : c3 = cx \/ exists e, c3 = ctx_set cx var e).
      { refine (loop_iter_ctx _ var cx _ _ _ _ _ _ _ _ (or_introl eq_refl) E3).
        intros c lg lg' p0 c' Hb. apply IH in Hb. exact Hb. }
      assert (Hskip : forall log4 p4 c4,
                 match es, emp with
                 | [], EmptySkip => parse_block pe pn ScopeRestore emp tol rows f BFor true p3 c3 log3
                 | _, _ => (log3, Ok (p3, c3))
                 end = (log4, Ok (p4, c4)) -> c4 = c3).
      { intros log4 p4 c4 Hs. destruct es; [destruct emp|]; try (inversion Hs; reflexivity).
        apply IH in Hs. exact Hs. }
      destruct (match es, emp with
                | [], EmptySkip => parse_block pe pn ScopeRestore emp tol rows f BFor true p3 c3 log3
                | _, _ => (log3, Ok (p3, c3))
                end) as [log4 [[p4 c4]|e4]]; [|discriminate].
      pose proof (Hskip _ _ _ eq_refl) as Hc4. subst c4. cbn [saved_of] in H.
      destruct (ctx_restore tol c3 var (lookup cx var)) as [c5|] eqn:E5; [|discriminate].
      apply IH in H. subst cx'.
      destruct Hinv as [->|[e ->]].
      * apply ctx_restore_unbound in E5. exact E5.
      * apply ctx_restore_bound in E5. exact E5.
    + destruct mv as [[|ch s]|es]; try discriminate. exact (IH _ _ _ _ _ _ _ _ H).
    + destruct (parse_block pe pn ScopeRestore emp tol rows f BBlock false (S pos) cx log2) as [log3 [[p3 c3]|e3]] eqn:E3; [|discriminate].
      apply IH in E3. apply IH in H. congruence.
    + destruct mv as [[|ch s]|es]; try discriminate. exact (IH _ _ _ _ _ _ _ _ H).
Qed.

(* ------------------------------------------------------------------ 2. a loop over nothing *)
Lemma end_check_for bt var : end_check bt (KBeginFor var) = EndNo.
Proof. destruct bt; reflexivity. Qed.

(* the right-hand side is, literally, what the model does for the same head under a false
   include_if (the skipped branch of parse_block), with the context explicitly unchanged *)
Theorem rowloop_empty_loop_skipped : forall pe pn rows f bt pos cx log r var log2,
  nth_error rows pos = Some r -> rk r = KBeginFor var -> var <> [] ->
  inst_row_incl pe pn (Some cx) r (log ++ [EvRow pos true]) = (log2, Ok (true, MEntries [])) ->
  parse_block pe pn ScopeRestore EmptySkip true rows (S f) bt false pos cx log
  = match parse_block pe pn ScopeRestore EmptySkip true rows f BFor true (S pos) cx log2 with
    | (log3, Err e) => (log3, Err e)
    | (log3, Ok (p, _)) => parse_block pe pn ScopeRestore EmptySkip true rows f bt false p cx log3
    end.
Proof.
  intros pe pn rows f bt pos cx log r var log2 Hn Hk Hv Hi.
  cbn [parse_block]. rewrite Hn. cbn [negb]. rewrite Hi, Hk, end_check_for. cbn [orb negb].
  destruct var as [|v0 vr]; [contradiction|]. cbn [loop_iter].
  destruct (parse_block pe pn ScopeRestore EmptySkip true rows f BFor true (S pos) cx log2) as [log3 [[p3 c3]|e3]] eqn:E3; [|reflexivity].
  destruct (skipped_not_evaluated _ _ _ _ _ _ _ _ _ _ _ _ _ E3) as [_ Hc]. rewrite (Hc _ _ eq_refl).
  cbn [saved_of]. rewrite ctx_restore_tolerant. reflexivity.
Qed.

(* ------------------------------------------------------------------ witnesses *)
Local Open Scope N_scope.
(* context {name: "Ann", flag: True} (TmplFacts.ex_ctx);  sheet:
     begin_for | loop_variable name | a;b
     send_message | m {{ name }}
     end_for
     send_message | after {{ name }}                                                      *)
Definition sh_rows : list srow :=
  [mk_srow (KBeginFor n_name) (cT []) (cT [97; 59; 98]);
   mk_srow KPlain (cT []) (CTmpl [NText [109; 32]; NOut (EVar n_name)]);
   mk_srow KEndFor (cT []) (cT []);
   mk_srow KPlain (cT []) (CTmpl [NText [97; 102; 116; 101; 114; 32]; NOut (EVar n_name)])].

Definition sh_render1 : str := [109; 32; 123; 123; 32; 110; 97; 109; 101; 32; 125; 125].
Definition sh_render2 : str := [97; 102; 116; 101; 114; 32; 123; 123; 32; 110; 97; 109; 101; 32; 125; 125].

Example rowloop_ctx_preserved_nonvacuous :
  parse_block Strict Strict ScopeRestore EmptySkip true sh_rows 50 BRoot false 0 ex_ctx []
  = ([EvRow 0 true; EvRow 1 true; EvRender sh_render1; EvEmit [109; 32; 97]; EvRow 2 true;
      EvRow 1 true; EvRender sh_render1; EvEmit [109; 32; 98]; EvRow 2 true;
      EvRow 3 true; EvRender sh_render2; EvEmit [97; 102; 116; 101; 114; 32; 65; 110; 110]],
     Ok (4%nat, ex_ctx)).
Proof. vm_compute. reflexivity. Qed.

(* the code before the repair: the outer `name` is gone after end_for *)
Example rowloop_pop_loses_binding :
  snd (parse_block Strict Strict ScopePop EmptyFallThrough false sh_rows 50 BRoot false 0 ex_ctx []) = Err EUndefined
  /\ parse_block Lenient Lenient ScopePop EmptyFallThrough false sh_rows 50 BRoot false 0 ex_ctx []
     = ([EvRow 0 true; EvRow 1 true; EvRender sh_render1; EvEmit [109; 32; 97]; EvRow 2 true;
         EvRow 1 true; EvRender sh_render1; EvEmit [109; 32; 98]; EvRow 2 true;
         EvRow 3 true; EvRender sh_render2; EvEmit [97; 102; 116; 101; 114; 32]],
        Ok (4%nat, [(n_flag, VBool true)])).
Proof. split; vm_compute; reflexivity. Qed.

(* hi / begin_for x in {@ [] @} / m {{ (nmae).k }} / end_for / tail : the body names an unknown
   variable and is never evaluated *)
Definition em_rows : list srow :=
  [mk_srow KPlain (cT []) (cT [104; 105]);
   mk_srow (KBeginFor [120]) (cT []) (CNative (EList []));
   mk_srow KPlain (cT []) (CTmpl [NText [109; 32]; NOut (EAttr (EVar n_nmae) [107])]);
   mk_srow KEndFor (cT []) (cT []);
   mk_srow KPlain (cT []) (cT [116; 97; 105; 108])].

Example rowloop_empty_loop_skipped_nonvacuous :
  (exists log2, inst_row_incl Strict Strict (Some ex_ctx) (mk_srow (KBeginFor [120]) (cT []) (CNative (EList [])))
                  ([EvRow 0 true; EvEmit [104; 105]] ++ [EvRow 1 true]) = (log2, Ok (true, MEntries [])))
  /\ parse_block Strict Strict ScopeRestore EmptySkip true em_rows 50 BRoot false 0 ex_ctx []
     = ([EvRow 0 true; EvEmit [104; 105]; EvRow 1 true; EvRender [123; 64; 32; 91; 93; 32; 64; 125];
         EvRow 2 false; EvRow 3 false; EvRow 4 true; EvEmit [116; 97; 105; 108]], Ok (5%nat, ex_ctx))
  (* the code before the repair *)
  /\ snd (parse_block Strict Strict ScopePop EmptyFallThrough false em_rows 50 BRoot false 0 ex_ctx []) = Err EKey.
Proof. split; [eexists; vm_compute; reflexivity|]. split; vm_compute; reflexivity. Qed.

Example rowloop_scoped_witness :
  snd (parse_block Strict Strict ScopeRestore EmptySkip true sh_rows 50 BRoot false 0 ex_ctx []) = Ok (4%nat, ex_ctx)
  /\ snd (parse_block Strict Strict ScopePop EmptyFallThrough false sh_rows 50 BRoot false 0 ex_ctx []) = Err EUndefined.
Proof. split; vm_compute; reflexivity. Qed.
