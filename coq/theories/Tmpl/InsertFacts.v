(* Facts about inserted sheets (Insert.v): whatever stops a sheet stops every sheet that inserts it — at any depth,
   because the statement is about one insert row and the inserted sheet is arbitrary. *)
From Coq Require Import List NArith ZArith Bool.
From RPFT Require Import Base.Sexp Base.PyStr Base.Result Gen.Tables Cell.Cell Tmpl.MiniJinja Tmpl.RowLoop Tmpl.TmplFacts Tmpl.Insert.
Import ListNotations.
Local Open Scope N_scope.

Section InsertFacts.
Variables pe pn : undefined_policy.

(* 1. the error of an inserted sheet is the error of the inserting sheet: same error, same log, nothing after it *)
Theorem inserted_error_is_flow_error : forall f bk inc name arg rest cx log a t bcx log1 e,
  inst_insert pe pn cx inc arg = Ok (Some a) ->
  find_template bk name = Some t ->
  block_context t a = Ok bcx ->
  run_bsheet pe pn f bk (t_sheet t) bcx log = (log1, Err e) ->
  run_bsheet pe pn (S f) bk (SInsert inc name arg :: rest) cx log = (log1, Err e).
Proof.
  intros f bk inc name arg rest cx log a t bcx log1 e Hi Ht Hc Hr.
  cbn [run_bsheet]. rewrite Hi, Ht, Hc, Hr. reflexivity.
Qed.

(* 1b. and an inserted sheet that compiles hands control back with the INSERTING flow's context: nothing of the block
   (its argument, its loop variables) is visible afterwards *)
Theorem inserted_ok_continues : forall f bk inc name arg rest cx log a t bcx log1 cx1,
  inst_insert pe pn cx inc arg = Ok (Some a) ->
  find_template bk name = Some t ->
  block_context t a = Ok bcx ->
  run_bsheet pe pn f bk (t_sheet t) bcx log = (log1, Ok cx1) ->
  run_bsheet pe pn (S f) bk (SInsert inc name arg :: rest) cx log = run_bsheet pe pn f bk rest cx log1.
Proof.
  intros f bk inc name arg rest cx log a t bcx log1 cx1 Hi Ht Hc Hr.
  cbn [run_bsheet]. rewrite Hi, Ht, Hc, Hr. reflexivity.
Qed.

(* 1c. the context of the inserted sheet is made of its declared argument alone: two inserting flows that hand over the
   same argument get the same block, whatever else they define *)
Theorem block_sees_only_its_argument : forall f bk inc name arg rest cx cx' log a,
  inst_insert pe pn cx inc arg = Ok (Some a) ->
  inst_insert pe pn cx' inc arg = Ok (Some a) ->
  forall t bcx, find_template bk name = Some t -> block_context t a = Ok bcx ->
  forall log1 e, run_bsheet pe pn f bk (t_sheet t) bcx log = (log1, Err e) ->
  run_bsheet pe pn (S f) bk (SInsert inc name arg :: rest) cx log
  = run_bsheet pe pn (S f) bk (SInsert inc name arg :: rest) cx' log.
Proof.
  intros f bk inc name arg rest cx cx' log a Hi Hi' t bcx Ht Hc log1 e Hr.
  rewrite (inserted_error_is_flow_error f bk inc name arg rest cx log a t bcx log1 e Hi Ht Hc Hr).
  rewrite (inserted_error_is_flow_error f bk inc name arg rest cx' log a t bcx log1 e Hi' Ht Hc Hr).
  reflexivity.
Qed.

(* 2. an excluded insert row: the argument cell is not evaluated and the template is not even looked up *)
Theorem excluded_insert_not_evaluated : forall f bk inc name arg rest cx log,
  inst_insert pe pn cx inc arg = Ok None ->
  run_bsheet pe pn (S f) bk (SInsert inc name arg :: rest) cx log = run_bsheet pe pn f bk rest cx log.
Proof. intros f bk inc name arg rest cx log Hi. cbn [run_bsheet]. rewrite Hi. reflexivity. Qed.

Lemma insert_excluded_by_false_f : forall fx cx inc arg pi s,
  parse_as_string_m pe pn (Some cx) inc = Ok pi -> to_text pn pi = Ok s ->
  str_eqb (lower (strip s)) s_false = true ->
  inst_insert_f pe pn fx cx inc arg = Ok None.
Proof.
  intros fx cx inc arg pi s Hp Ht Hs. unfold inst_insert_f, precheck_excluded. rewrite Hp, Ht.
  unfold s_false in Hs. rewrite Hs. reflexivity.
Qed.

Lemma insert_excluded_by_false : forall cx inc arg pi s,
  parse_as_string_m pe pn (Some cx) inc = Ok pi -> to_text pn pi = Ok s ->
  str_eqb (lower (strip s)) s_false = true ->
  inst_insert pe pn cx inc arg = Ok None.
Proof. intros. unfold inst_insert. eapply insert_excluded_by_false_f; eassumption. Qed.

(* fx = true: an insert row excluded by ANY inclusion value — its argument cell is not evaluated *)
Lemma insert_excluded_by_falsy : forall cx inc arg pi s,
  parse_as_string_m pe pn (Some cx) inc = Ok pi -> to_text pn pi = Ok s ->
  to_include pn pi = Ok false ->
  inst_insert_f pe pn true cx inc arg = Ok None.
Proof.
  intros cx inc arg pi s Hp Ht Hi.
  destruct (str_eqb (lower (strip s)) s_false) eqn:Hf.
  - exact (insert_excluded_by_false_f true cx inc arg pi s Hp Ht Hf).
  - unfold inst_insert_f, precheck_excluded. rewrite Hp, Ht. unfold s_false in Hf. rewrite Hf.
    destruct pi as [s0|v|n].
    + cbn [to_text] in Ht. inversion Ht; subst s0. cbn [to_include] in Hi. inversion Hi as [Hi'].
      rewrite (str_to_include_false _ Hi') in Hf. discriminate.
    + destruct v; cbn [to_include] in Hi; try (rewrite Hi; reflexivity).
      cbn [to_text] in Ht. inversion Hi as [Hi'].
      assert (Hs : s = s0) by (unfold to_str in Ht; cbn in Ht; congruence).
      subst. rewrite (str_to_include_false _ Hi') in Hf. discriminate.
    + cbn [to_text] in Ht. discriminate.
Qed.

(* 3. ordinary rows: what stops the row loop of a segment stops the sheet *)
Lemma sheet_fuel_S : exists k, N.to_nat 20000 = S k.
Proof. exists (N.to_nat 19999). vm_compute. reflexivity. Qed.

Theorem rows_error_is_flow_error : forall f bk rows rest cx log log1 e,
  parse_block pe pn loop_scope_policy empty_loop_policy remove_tolerant rows (N.to_nat 20000) BRoot false 0 cx log = (log1, Err e) ->
  run_bsheet pe pn (S f) bk (SRows rows :: rest) cx log = (log1, Err e).
Proof. intros f bk rows rest cx log log1 e H. cbn [run_bsheet]. rewrite H. reflexivity. Qed.

(* the first row of a segment: an error while instantiating it (an unknown name in its include_if or main cell) stops
   the row loop at once *)
Theorem first_row_error_stops : forall rows r cx log log2 e,
  nth_error rows 0 = Some r ->
  inst_row_incl pe pn (Some cx) r (log ++ [EvRow 0 true]) = (log2, Err e) ->
  parse_block pe pn loop_scope_policy empty_loop_policy remove_tolerant rows (N.to_nat 20000) BRoot false 0 cx log = (log2, Err e).
Proof.
  intros rows r cx log log2 e Hn Hi. destruct sheet_fuel_S as [k Hk]. rewrite Hk.
  cbn [parse_block]. rewrite Hn. cbn [negb]. rewrite Hi. reflexivity.
Qed.

(* the main cell of a row that the pre-check does not exclude *)
Lemma included_row_main_error : forall fx cx r log pi inc e,
  parse_as_string_m pe pn (Some cx) (r_inc r) = Ok pi ->
  precheck_excluded pn fx pi = Ok false ->
  to_include pn pi = Ok inc ->
  rk r = KPlain ->
  parse_as_string_m pe pn (Some cx) (r_main r) = Err e ->
  exists log2, inst_row_incl_f pe pn fx (Some cx) r log = (log2, Err e).
Proof.
  intros fx cx r log pi inc e Hp Hpre Hinc Hk Hm.
  unfold inst_row_incl_f. rewrite Hp, Hpre.
  unfold inst_row. rewrite Hp, Hinc, Hk, Hm. eexists. reflexivity.
Qed.

End InsertFacts.

(* ---- non-vacuity: main inserts A, A inserts B; B names the argument of A ---- *)
Definition n_main : str := [109]. Definition n_A : str := [65]. Definition n_B : str := [66].
Definition v_b1 : str := [98; 49]. Definition v_c1 : str := [99; 49]. Definition v_a1 : str := [97; 49].
Definition blank : cell := CTmpl [].
Definition lit (s : str) : cell := CTmpl [NText s].
Definition msg (c : cell) : srow := mk_srow KPlain blank c.

Definition ex_book (ref_in_B : str) : book :=
  [(n_A, mk_template [SRows [msg (CTmpl [NText [65; 58]; NOut (EVar v_b1)])]; SInsert blank n_B (CTmpl [NOut (EVar v_b1)])] (Some v_b1));
   (n_B, mk_template [SRows [msg (CTmpl [NText [66; 58]; NOut (EVar ref_in_B)])]] (Some v_c1))].
Definition ex_main : bsheet :=
  [SRows [msg (lit [115])]; SInsert blank n_A (CTmpl [NOut (EVar v_a1)]); SRows [msg (lit [101])]].

Definition emits (log : list event) : list str :=
  flat_map (fun e => match e with EvEmit m => [m] | _ => [] end) log.

Definition insert_example : Prop :=
  (* every name defined: the messages of the blocks stand where the insert rows stand, values handed down *)
  (let '(log, r) := run_book Strict Strict (ex_book v_c1) ex_main [(v_a1, VStr [120])] in
   emits log = [[115]; [65; 58; 120]; [66; 58; 120]; [101]] /\ r = Ok [(v_a1, VStr [120])])
  /\ (* B names b1, the argument of the sheet that inserts it: unknown in B -> the whole run stops, two levels up *)
  (let '(log, r) := run_book Strict Strict (ex_book v_b1) ex_main [(v_a1, VStr [120])] in
   emits log = [[115]; [65; 58; 120]] /\ r = Err EUndefined)
  /\ (* B names a1, a variable of the outermost flow: unknown in B as well *)
  snd (run_book Strict Strict (ex_book v_a1) ex_main [(v_a1, VStr [120])]) = Err EUndefined
  /\ (* the same under the lenient policy: silently blank — what the property forbids *)
  (let '(log, r) := run_book Lenient Lenient (ex_book v_b1) ex_main [(v_a1, VStr [120])] in
   emits log = [[115]; [65; 58; 120]; [66; 58]; [101]]).

Lemma insert_example_holds : insert_example.
Proof. vm_compute. repeat split; reflexivity. Qed.

(* ---- rows excluded by a falsy OBJECT (finding falsy-include_if-row-evaluated) ----
   fx = false, the pre-check before 323c1cc: include_if = {@ none @} makes to_include answer "not included" (RowParser:
   bool(None)), but str(value) = "None" is not "false", the row is parsed with templating and its main cell — an unknown
   name — stops the run. *)
Definition falsy_include_if_witness : Prop :=
  let r := mk_srow KPlain (CNative ENone) (CTmpl [NText [109; 32]; NOut (EVar [110; 109; 97; 101])]) in
  let cx := [([110; 97; 109; 101], VStr [65])] in
  parse_as_string_m Strict Strict (Some cx) (r_inc r) = Ok (PObj VNone)
  /\ to_include Strict (PObj VNone) = Ok false                                (* the row is NOT included ... *)
  /\ snd (inst_row_incl_f Strict Strict false (Some cx) r []) = Err EUndefined   (* ... and evaluated nevertheless *)
  /\ inst_insert_f Strict Strict false cx (CNative ENone) (CTmpl [NOut (EVar [110; 109; 97; 101])]) = Err EUndefined
  /\ (* the same row under the literal FALSE is not evaluated *)
  (exists mv, snd (inst_row_incl_f Strict Strict false (Some cx) (mk_srow KPlain (lit s_false) (r_main r)) []) = Ok (false, mv)).

Lemma falsy_include_if_witness_holds : falsy_include_if_witness.
Proof.
  unfold falsy_include_if_witness. split; [vm_compute; reflexivity|]. split; [vm_compute; reflexivity|].
  split; [vm_compute; reflexivity|]. split; [vm_compute; reflexivity|]. eexists. vm_compute. reflexivity.
Qed.

(* fx = true: a row — ordinary or insert_as_block — excluded by ANY inclusion value is not evaluated *)
Definition falsy_rows_not_evaluated (fx : bool) : Prop :=
  (forall pe pn cx r log pi s,
     parse_as_string_m pe pn (Some cx) (r_inc r) = Ok pi -> to_text pn pi = Ok s -> to_include pn pi = Ok false ->
     exists mv, inst_row_incl_f pe pn fx (Some cx) r log = (log_render (Some cx) (r_inc r) log, Ok (false, mv)))
  /\ (forall pe pn cx inc arg pi s,
        parse_as_string_m pe pn (Some cx) inc = Ok pi -> to_text pn pi = Ok s -> to_include pn pi = Ok false ->
        inst_insert_f pe pn fx cx inc arg = Ok None).

Lemma falsy_rows_not_evaluated_repaired : falsy_rows_not_evaluated true.
Proof.
  split.
  - exact falsy_excluded_row_not_evaluated.
  - intros pe pn. exact (insert_excluded_by_falsy pe pn).
Qed.

(* decided for the code of this run (probed constant falsy_include_if_skips_evaluation) *)
Theorem falsy_include_if_decided :
  if falsy_include_if_skips_evaluation
  then falsy_rows_not_evaluated falsy_include_if_skips_evaluation
  else falsy_include_if_witness.
Proof.
  destruct falsy_include_if_skips_evaluation.
  - exact falsy_rows_not_evaluated_repaired.
  - exact falsy_include_if_witness_holds.
Qed.

(* non-vacuity of the repaired statement: the three falsy objects, an ordinary row and an insert row *)
Definition falsy_rows_example : Prop :=
  let cx := [([110; 97; 109; 101], VStr [65])] in
  let bad := CTmpl [NText [109; 32]; NOut (EVar [110; 109; 97; 101])] in
  Forall (fun inc => snd (inst_row_incl_f Strict Strict true (Some cx) (mk_srow KPlain inc bad) []) = Ok (false, MText (strip (show_cell bad)))
                     /\ inst_insert_f Strict Strict true cx inc bad = Ok None
                     /\ to_include Strict (PObj (match inc with CNative ENone => VNone | CNative (EInt _) => VInt 0 | _ => VList [] end)) = Ok false)
         [CNative ENone; CNative (EInt 0); CNative (EList [])]
  /\ (* a truthy object does not protect the row *)
  snd (inst_row_incl_f Strict Strict true (Some cx) (mk_srow KPlain (CNative (EInt 1)) bad) []) = Err EUndefined.

Lemma falsy_rows_example_holds : falsy_rows_example.
Proof.
  (* every leaf is closed by vm_compute + reflexivity, which leaves a vm cast in the term: the kernel re-checks it with
     the same machine at Qed (the earlier `vm_compute. repeat constructor.` made Qed redo the evaluation by plain
     conversion: 11 minutes and 23 GB) *)
  unfold falsy_rows_example. split.
  - repeat (first [apply Forall_nil | apply Forall_cons]); (split; [|split]); vm_compute; reflexivity.
  - vm_compute. reflexivity.
Qed.
