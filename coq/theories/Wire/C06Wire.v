(* wire glue for C06 (UUID resolution, engine E4) *)
(* WIRE engine=106 fn=dispatch_c06 *)
From Coq Require Import List NArith Bool.
From RPFT Require Import Base.Sexp Base.PyStr Base.Result Gen.Tables Uuid.UuidDict Uuid.Container Uuid.Sheet.
Import ListNotations.
Local Open Scope N_scope.

(* pyuuid: () = None, (0 str) = a string, (1 n) = the n-th invented uuid *)
Definition enc_pyuuid (u : pyuuid) : sexp :=
  match u with
  | None => L []
  | Some (Given s) => L [A 0; enc_str s]
  | Some (Fresh n) => L [A 1; enc_nat n]
  end.
Definition dec_pyuuid (x : sexp) : option pyuuid :=
  match x with
  | L [] => Some None
  | L [A 0; s] => match dec_str s with Some v => Some (Some (Given v)) | None => None end
  | L [A 1; A n] => Some (Some (Fresh (N.to_nat n)))
  | _ => None
  end.

Definition dec_gref : sexp -> option gref := dec_pair dec_str dec_pyuuid.
Definition enc_kind (k : kind) : sexp := A (match k with KGroup => 0 | KFlow => 1 end).

Definition dec_action (x : sexp) : option action :=
  match x with
  | L [ty; gs; fl] =>
    match dec_str ty, dec_list dec_gref gs, dec_option dec_gref fl with
    | Some t, Some g, Some f => Some {| a_type := t; a_groups := g; a_flow := f |}
    | _, _, _ => None
    end
  | _ => None
  end.
Definition dec_case (x : sexp) : option rcase :=
  match x with
  | L [ty; u; n] =>
    match dec_str ty, dec_pyuuid u, dec_str n with
    | Some t, Some u', Some n' => Some {| k_type := t; k_uuid := u'; k_name := n' |}
    | _, _, _ => None
    end
  | _ => None
  end.
Definition dec_node (x : sexp) : option node :=
  match x with
  | L [acts; cases] =>
    match dec_list dec_action acts, dec_list dec_case cases with
    | Some a, Some c => Some {| n_actions := a; n_cases := c |}
    | _, _ => None
    end
  | _ => None
  end.
Definition dec_flow (x : sexp) : option flow :=
  match x with
  | L [n; u; nodes] =>
    match dec_str n, dec_pyuuid u, dec_list dec_node nodes with
    | Some n', Some u', Some ns => Some {| f_name := n'; f_uuid := u'; f_nodes := ns |}
    | _, _, _ => None
    end
  | _ => None
  end.
Definition dec_event (x : sexp) : option event :=
  match x with
  | L [ty; f] =>
    match dec_str ty, dec_gref f with
    | Some t, Some g => Some {| e_type := t; e_flow := g |}
    | _, _ => None
    end
  | _ => None
  end.
Definition dec_campaign (x : sexp) : option campaign :=
  match x with
  | L [evs; g] =>
    match dec_list dec_event evs, dec_gref g with
    | Some e, Some g' => Some {| c_events := e; c_group := g' |}
    | _, _ => None
    end
  | _ => None
  end.
Definition dec_trigger (x : sexp) : option trigger :=
  match x with
  | L [f; gs; ex] =>
    match dec_gref f, dec_list dec_gref gs, dec_list dec_gref ex with
    | Some f', Some g, Some e => Some {| t_flow := f'; t_groups := g; t_exclude := e |}
    | _, _, _ => None
    end
  | _ => None
  end.
Definition dec_container (x : sexp) : option container :=
  match x with
  | L [gs; fs; cs; ts] =>
    match dec_list dec_gref gs, dec_list dec_flow fs, dec_list dec_campaign cs, dec_list dec_trigger ts with
    | Some g, Some f, Some c, Some t => Some {| groups := g; flows := f; campaigns := c; triggers := t |}
    | _, _, _, _ => None
    end
  | _ => None
  end.
Definition dec_op (x : sexp) : option op :=
  match x with
  | L [A 0; n; u] => match dec_str n, dec_pyuuid u with Some n', Some u' => Some (ORecordGroup n' u') | _, _ => None end
  | L [A 1; n; u] => match dec_str n, dec_pyuuid u with Some n', Some u' => Some (ORecordFlow n' u') | _, _ => None end
  | L [A 2; f] => match dec_flow f with Some f' => Some (OAddFlow f') | None => None end
  | L [A 3; c] => match dec_campaign c with Some c' => Some (OAddCampaign c') | None => None end
  | L [A 4; t] => match dec_trigger t with Some t' => Some (OAddTrigger t') | None => None end
  | L [A 5] => Some ORender
  | _ => None
  end.

Definition enc_occ (r : kind * gref) : sexp := L [enc_kind (fst r); enc_str (fst (snd r)); enc_pyuuid (snd (snd r))].
Definition enc_err (e : err) : sexp := A (match e with EConflict => 1 | EUnknownFlow => 2 | EKeyError => 3 end).
Definition enc_snap (s : list (kind * gref) * list bool) : sexp :=
  L [enc_list enc_occ (fst s); enc_list enc_bool (snd s)].

Definition enc_dict (d : dict) : sexp := enc_list (fun kv => L [enc_str (fst kv); enc_pyuuid (snd kv)]) d.

(* sheet level (Uuid/Sheet.v).  item: (0 type name obj_id (case ...)) | (1 (item ...)) *)
Fixpoint dec_item (x : sexp) : option item :=
  match x with
  | L [A 0; ty; n; u; cs] =>
    match dec_str ty, dec_str n, dec_pyuuid u, dec_list dec_str cs with
    | Some t, Some n', Some u', Some c => Some (IRow t n' u' c)
    | _, _, _, _ => None
    end
  | L [A 1; L its] =>
    let go := fix go (l : list sexp) : option (list item) :=
      match l with
      | [] => Some []
      | y :: r => match dec_item y, go r with Some a, Some b => Some (a :: b) | _, _ => None end
      end in
    match go its with Some l => Some (IBlock l) | None => None end
  | _ => None
  end.
Definition dec_fsheet (x : sexp) : option fsheet :=
  match x with
  | L [n; its] =>
    match dec_str n, dec_list dec_item its with
    | Some n', Some l => Some {| fs_name := n'; fs_items := l |}
    | _, _ => None
    end
  | _ => None
  end.
Definition dec_workbook (x : sexp) : option workbook :=
  match x with
  | L [fs; cs; ts] =>
    match dec_list dec_fsheet fs, dec_list dec_campaign cs, dec_list dec_trigger ts with
    | Some f, Some c, Some t => Some {| wb_flows := f; wb_campaigns := c; wb_triggers := t |}
    | _, _, _ => None
    end
  | _ => None
  end.
(* sop: codes 0..5 as dec_op; (6 fsheet) = SParse; (7 workbook) = SParseAll *)
Definition dec_sop (x : sexp) : option sop :=
  match x with
  | L [A 6; f] => match dec_fsheet f with Some f' => Some (SParse f') | None => None end
  | L [A 7; w] => match dec_workbook w with Some w' => Some (SParseAll w') | None => None end
  | _ => match dec_op x with Some o => Some (SOp o) | None => None end
  end.

Definition dispatch_c06 (fn : N) (args : list sexp) : sexp :=
  match fn, args with
  (* 1: history.  (container ops) -> ((snapshot ...) stop) with stop = () | (index error) *)
  | 1, [c; ops] =>
    match dec_container c, dec_list dec_op ops with
    | Some c', Some ops' =>
      let '(snaps, stop) := run_trace ops' (init c') 0 in
      L [enc_list enc_snap snaps;
         match stop with None => L [] | Some (i, e) => L [enc_nat i; enc_err e] end]
    | _, _ => s_badinput
    end
  (* 2: UUIDDict alone.  ((kind name uuid) ...) recorded in order from the empty dictionary,
        then generate_missing -> (flow_dict group_dict) | (999999 code) *)
  | 2, [recs] =>
    match dec_list (fun x => match x with
                             | L [A k; n; u] => match dec_str n, dec_pyuuid u with
                                                | Some n', Some u' => Some (IRec (if k =? 0 then KGroup else KFlow) n' u')
                                                | _, _ => None
                                                end
                             | _ => None
                             end) recs with
    | Some is =>
      match foldM exec is empty_udict with
      | Ok ud => let ud' := generate_missing ud in
                 L [enc_dict (fd ud); enc_dict (gd ud); enc_dict (fd ud'); enc_dict (gd ud')]
      | Err e => s_err (match e with EConflict => 1 | EUnknownFlow => 2 | EKeyError => 3 end)
      end
    | None => s_badinput
    end
  (* 3: sheet-level history from an empty container.  (sop ...) -> ((snapshot ...) stop) *)
  | 3, [ops] =>
    match dec_list dec_sop ops with
    | Some ops' =>
      let '(snaps, stop) := sheet_trace ops' (init empty_container) 0 in
      L [enc_list enc_snap snaps;
         match stop with None => L [] | Some (i, e) => L [enc_nat i; enc_err e] end]
    | None => s_badinput
    end
  | _, _ => s_badinput
  end.
