(* wire glue for C18 (model inference) *)
(* WIRE engine=118 fn=dispatch_c18 *)
From Coq Require Import List NArith ZArith Bool.
From RPFT Require Import Base.Sexp Base.PyStr Base.Result Gen.Tables Row.InferTy Row.Infer Row.InferCip.
Import ListNotations.
Local Open Scope N_scope.

(* integers travel as sign + decimal digits (the driver's atoms are machine integers) *)
Definition enc_Z (z : Z) : sexp := L [A (if (z <? 0)%Z then 1 else 0); enc_str (str_of_N (Z.to_N (Z.abs z)))].
Definition dec_Z (x : sexp) : option Z :=
  match x with
  | L [A sg; ds] =>
    match dec_str ds with
    | Some ds =>
      let n := fold_left (fun a c => a * 10 + (c - 48)) ds 0 in
      Some (if sg =? 1 then Z.opp (Z.of_N n) else Z.of_N n)
    | None => None
    end
  | _ => None
  end.

Fixpoint enc_dv (d : dv) : sexp :=
  match d with
  | VNone => L [A 0]
  | VStr s => L [A 1; enc_str s]
  | VInt z => L [A 2; enc_Z z]
  | VFloat s => L [A 3; enc_str s]
  | VBool b => L [A 4; enc_bool b]
  | VList l => L [A 5; L (map enc_dv l)]
  | VRec fs => L [A 6; L (map (fun f : str * dv => L [enc_str (fst f); enc_dv (snd f)]) fs)]
  end.

Fixpoint enc_ty (t : ty) : sexp :=
  match t with
  | TStr => L [A 0] | TInt => L [A 1] | TFloat => L [A 2] | TBool => L [A 3]
  | TUList => L [A 4] | TAnyList => L [A 5]
  | TList u => L [A 6; enc_ty u]
  | TRec fs => L [A 7; L (map (fun f : str * (ty * dv) =>
                                 L [enc_str (fst f); enc_ty (fst (snd f)); enc_dv (snd (snd f))]) fs)]
  end.

Definition err_code (e : ierr) : N :=
  match e with EUnknownType => 1 | EBadDefault => 2 | EIndex => 3 | EOutOfFuel => 9 end.

Definition enc_res {T} (f : T -> sexp) (r : result ierr T) : sexp :=
  match r with Ok v => L [A 0; f v] | Err e => s_err (err_code e) end.

Definition enc_model (m : model) : sexp := L [enc_ty (fst m); enc_dv (snd m)].

(* ---- decoding schemas *)
Fixpoint dec_ann (fuel : nat) (x : sexp) : option ann :=
  match fuel with
  | O => None
  | S f =>
    match x with
    | A 0 => Some AStr | A 1 => Some AInt | A 2 => Some AFloat | A 3 => Some ABool
    | A 4 => Some AUList | A 5 => Some AAnyList
    | L [A 6; y] => match dec_ann f y with Some a => Some (AList a) | None => None end
    | _ => None
    end
  end.

Definition dec_pads (x : sexp) : option pads :=
  match x with
  | L [a; b; c; d; e; f] =>
    match dec_str a, dec_str b, dec_str c, dec_str d, dec_str e, dec_str f with
    | Some a, Some b, Some c, Some d, Some e, Some f => Some (mk_pads a b c d e f)
    | _, _, _, _, _, _ => None
    end
  | _ => None
  end.

Definition dec_leaf (x : sexp) : option leaf :=
  match x with
  | L [A 0; e; d] =>
    match dec_bool e, dec_option dec_str d with
    | Some e, Some d => Some (LStr e d) | _, _ => None end
  | L [A 1; d] => match dec_option dec_Z d with Some d => Some (LInt d) | None => None end
  | L [A 2; d] => match dec_option dec_str d with Some d => Some (LFloat d) | None => None end
  | L [A 3; d] => match dec_option dec_bool d with Some d => Some (LBool d) | None => None end
  | L [A 4; a] => match dec_ann 64 a with Some a => Some (LAnn a) | None => None end
  | _ => None
  end.

Fixpoint dec_sty (fuel : nat) (x : sexp) : option sty :=
  match fuel with
  | O => None
  | S f =>
    match x with
    | L [A 0; p; l] =>
      match dec_pads p, dec_leaf l with Some p, Some l => Some (SLeaf p l) | _, _ => None end
    | L [A 1; L es] =>
      match dec_list_aux (dec_sty f) es with Some es => Some (SSpread es) | None => None end
    | L [A 2; L fs] =>
      match dec_list_aux (fun nt => match nt with
                                    | L [n; t] => match dec_str n, dec_sty f t with
                                                  | Some n, Some t => Some (n, t)
                                                  | _, _ => None
                                                  end
                                    | _ => None
                                    end) fs with
      | Some fs => Some (SRec fs)
      | None => None
      end
    | _ => None
    end
  end.

Definition dec_schema (x : sexp) : option schema :=
  match dec_sty 64 (L [A 2; x]) with Some (SRec fs) => Some fs | _ => None end.

Definition with_s (x : sexp) (f : str -> sexp) : sexp :=
  match dec_str x with Some s => f s | None => s_badinput end.
Definition with_schema (x : sexp) (f : schema -> sexp) : sexp :=
  match dec_schema x with Some s => f s | None => s_badinput end.

(* ---- histories of one ContentIndexParser (Row/InferCip.v) *)
Definition cerr_code (e : cerr) : N :=
  match e with
  | CNoSheetName => 11 | CNoNewName => 12 | CUnknownOp => 13 | CSheetNotFound => 14
  | CUndefinedModel => 15 | CModelMismatch => 16 | CRows => 17
  | CInfer e => 20 + err_code e
  end.

Definition enc_rmodel (m : rmodel) : sexp :=
  match m with
  | RUser u => L [A 0; enc_str u]
  | RInferred k src t => L [A 1; enc_nat k; enc_str src; enc_ty t]
  end.

Definition enc_state (st : state) : sexp :=
  L (map (fun nd : str * dsheet =>
            L [enc_str (fst nd); enc_rmodel (ds_model (snd nd)); enc_list enc_str (ds_srcs (snd nd))]) (reg st)).

Definition enc_outcome (r : result cerr state) : sexp :=
  match r with Ok st => L [A 0; enc_state st] | Err e => s_err (cerr_code e) end.

Definition dec_wsheet (x : sexp) : option (str * wsheet) :=
  match x with
  | L [n; hs; ok] =>
    match dec_str n, dec_list dec_str hs, dec_bool ok with
    | Some n, Some hs, Some ok => Some (n, mk_wsheet (mk_table hs []) ok)
    | _, _, _ => None
    end
  | _ => None
  end.

Definition dec_env (x : sexp) : option env :=
  match x with
  | L [sheets; module] =>
    match dec_list dec_wsheet sheets,
          dec_option (dec_list (dec_pair dec_str (dec_list dec_str))) module with
    | Some sheets, Some module => Some (mk_env sheets module)
    | _, _ => None
    end
  | _ => None
  end.

Definition dec_dsrow (x : sexp) : option dsrow :=
  match x with
  | L [names; new; dm; opt] =>
    match dec_list dec_str names, dec_str new, dec_str dm, dec_str opt with
    | Some names, Some new, Some dm, Some opt => Some (mk_dsrow names new dm opt)
    | _, _, _, _ => None
    end
  | _ => None
  end.

Definition dispatch_c18 (fn : N) (args : list sexp) : sexp :=
  match fn, args with
  | 1, [hs] => match dec_list dec_str hs with
               | Some hs => enc_res enc_model (infer hs)
               | None => s_badinput
               end
  | 2, [h] => with_s h (fun h => enc_res enc_model (parse_header_annotations h))
  | 3, [h] => with_s h (fun h => enc_str (get_field_name h))
  | 4, [s] => with_s s (fun s => enc_res enc_ty (type_from_string s))
  | 5, [sc] => with_schema sc (fun sc => enc_list enc_str (headers_of sc))
  | 6, [sc] => with_schema sc (fun sc => enc_model (denote sc))
  | 7, [s] => with_s s (fun s => enc_option enc_Z (py_int s))
  | 8, [sc] => with_schema sc (fun sc => enc_bool (wf_schema sc))
  | 9, [s] => with_s s (fun s => enc_bool (is_float_lit s))
  | 10, [z] => match dec_Z z with Some z => enc_str (str_of_Z z) | None => s_badinput end
  | 11, [s] => with_s s (fun s => enc_bool (str_to_bool s))
  | 12, [_] => enc_bool inf_nested_by_field_name
  | 13, [hs] => match dec_list dec_str hs with
                | Some hs => enc_list enc_str (stable_partition inf_nested_by_field_name hs)
                | None => s_badinput
                end
  | 14, [sc] => with_schema sc (fun sc => enc_bool (wf_schema_full sc))
  (* 15: the long-lived parser row by row; 16: the constructor (stops at the first error) *)
  | 15, [e; rows] => match dec_env e, dec_list dec_dsrow rows with
                     | Some e, Some rows => L (map enc_outcome (scan_all e rows init_state))
                     | _, _ => s_badinput
                     end
  | 16, [e; rows] => match dec_env e, dec_list dec_dsrow rows with
                     | Some e, Some rows => enc_outcome (run e rows init_state)
                     | _, _ => s_badinput
                     end
  | _, _ => s_badinput
  end.
