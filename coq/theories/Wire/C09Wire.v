(* wire glue for engine 109 (row codec, property C09) *)
(* WIRE engine=109 fn=dispatch_c09 *)
From Coq Require Import List NArith Bool.
From RPFT Require Import Base.Sexp Base.PyStr Base.Result Gen.Tables Cell.Cell Row.Ty Row.Layout Row.RowParse Row.RowUnparse Row.FlowRow Row.RowSession.
Import ListNotations.
Local Open Scope N_scope.

Definition dispatch_c09 (fn : N) (args : list sexp) : sexp :=
  match fn, args with
  (* 1: parse_row (rowmodel, cells) *)
  | 1, [m; c] =>
    match dec_rowmodel m, dec_cells c with
    | Some m', Some c' => enc_res enc_value (parse_row m' c')
    | _, _ => s_badinput
    end
  (* 2: parse_row of the regenerated flow row model *)
  | 2, [c] =>
    match dec_cells c with
    | Some c' => enc_res enc_value (flow_parse c')
    | None => s_badinput
    end
  (* 3: header_name_to_field_name_with_context of the regenerated flow row model *)
  | 3, [h; c] =>
    match dec_str h, dec_cells c with
    | Some h', Some c' => enc_res enc_str (ctx_h2f flow_ctx c' h')
    | _, _ => s_badinput
    end
  (* 4: the rows of a sheet, in order, through ONE RowParser object (Row/RowSession.rp_run) *)
  | 4, [m; L rows] =>
    match dec_rowmodel m, dec_list_aux dec_cells rows with
    | Some m', Some rs => L (map (enc_res enc_value) (snd (rp_run (rp_init m') rs)))
    | _, _ => s_badinput
    end
  (* 5: the same for the regenerated flow row model *)
  | 5, [L rows] =>
    match dec_list_aux dec_cells rows with
    | Some rs => L (map (enc_res enc_value) (snd (rp_run (rp_init flow_row_model) rs)))
    | None => s_badinput
    end
  | _, _ => s_badinput
  end.
