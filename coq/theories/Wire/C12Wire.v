(* wire glue for C12: template arguments and bulk instantiation (E5 Args/Bulk) *)
(* WIRE engine=112 fn=dispatch_c12 *)
From Coq Require Import List NArith Bool.
From RPFT Require Import Base.Sexp Base.PyStr Base.ODict Base.Result Gen.Tables Cell.Cell
  Index.Args Index.Bulk Index.BulkHistory Index.Alias.
Import ListNotations.
Local Open Scope N_scope.

(* data-row field values travel as nv; a template table as a number; a compiled flow is the
   record of what compile_one was called with plus the state it saw *)
Definition wD := nv.
Definition wT := N.
Definition wF : Type := (N * ctx wD * N).   (* table, context, state at compile time *)

Definition c12_dec_nv := dec_nv 16.

Definition dec_drow : sexp -> option (drow wD) := dec_list (dec_pair dec_str c12_dec_nv).
Definition dec_dsheet : sexp -> option (dsheet wD) := dec_list (dec_pair dec_str dec_drow).
Definition dec_sheets : sexp -> option (list (str * dsheet wD)) := dec_list (dec_pair dec_str dec_dsheet).

Definition dec_argdef (x : sexp) : option argdef :=
  match x with
  | L [n; t; d] => match dec_str n, dec_str t, dec_str d with
                   | Some n', Some t', Some d' => Some (mk_argdef n' t' d')
                   | _, _, _ => None
                   end
  | _ => None
  end.

Definition dec_cval (x : sexp) : option (cval wD) :=
  match x with
  | L [A 0; v] => match c12_dec_nv v with Some v' => Some (VData v') | None => None end
  | L [A 1; v] => match c12_dec_nv v with Some v' => Some (VArg v') | None => None end
  | L [A 2; r] => match dec_dsheet r with Some r' => Some (VRows r') | None => None end
  | _ => None
  end.
Definition dec_ctx : sexp -> option (ctx wD) := dec_list (dec_pair dec_str dec_cval).

Definition enc_drow (r : drow wD) : sexp := enc_list (enc_pair enc_str enc_nv) r.
Definition enc_dsheet (s : dsheet wD) : sexp := enc_list (enc_pair enc_str enc_drow) s.
Definition enc_cval (v : cval wD) : sexp :=
  match v with
  | VData d => L [A 0; enc_nv d]
  | VArg a => L [A 1; enc_nv a]
  | VRows r => L [A 2; enc_dsheet r]
  end.
Definition enc_ctx (c : ctx wD) : sexp := enc_list (enc_pair enc_str enc_cval) c.

Definition aerr_code (e : aerr) : N :=
  match e with EDoubly _ => 1 | ERequired _ => 2 | EUnknownSheet _ => 3 | EUnhashable => 4 end.
Definition perr_code (e : perr unit) : N :=
  match e with
  | PArgs _ a => 10 + aerr_code a
  | PNoSheet _ _ => 21 | PNoRow _ _ _ => 22 | PNoTemplate _ _ => 23
  | PRowIdWithoutSheet _ => 24 | PBlockHalf _ => 25 | PCompile _ _ => 30
  end.

Definition dec_cfrow (x : sexp) : option cfrow :=
  match x with
  | L [s; nn; ds; id; args] =>
    match dec_str s, dec_str nn, dec_str ds, dec_str id, dec_list c12_dec_nv args with
    | Some s', Some nn', Some ds', Some id', Some a' => Some (mk_cfrow s' nn' ds' id' a')
    | _, _, _, _, _ => None
    end
  | _ => None
  end.

Definition dec_template (x : sexp) : option (str * (wT * list argdef)) :=
  match x with
  | L [n; A t; defs] => match dec_str n, dec_list dec_argdef defs with
                        | Some n', Some d' => Some (n', (t, d'))
                        | _, _ => None
                        end
  | _ => None
  end.

Definition dec_registry (ts ss : sexp) : option (registry wD wT) :=
  match dec_list dec_template ts, dec_sheets ss with
  | Some t, Some s => Some (@mk_registry wD wT t s)
  | _, _ => None
  end.

(* the recording compiler of the correspondence: fails on the listed names, otherwise
   returns what it was given and increments the state *)
Definition rec_compile (fail : list str) (name : str) (t : wT) (c : ctx wD) (st : N)
  : result unit (wF * N) :=
  if existsb (str_eqb name) fail then Err tt else Ok ((t, c, st), st + 1).

Definition enc_inst (i : inst wD wT) : sexp :=
  let '(n, t, c) := i in L [enc_str n; A t; enc_ctx c].
Definition enc_item (x : result (perr unit) (inst wD wT)) : sexp :=
  match x with Ok i => L [A 0; enc_inst i] | Err e => s_err (perr_code e) end.
Definition enc_flow (kv : str * wF) : sexp :=
  let '(n, (t, c, st)) := kv in L [enc_str n; A t; enc_ctx c; A st].

(* a sequence of calls on one parser object (BulkHistory.run_calls), recording compiler, fresh container = state 0 *)
Definition dec_call (x : sexp) : option (@call) :=
  match x with
  | L [A 0; rows] => match dec_list dec_cfrow rows with Some r => Some (CAll r) | None => None end
  | L [A 1; tn; ds; id; av] =>
    match dec_str tn, dec_str ds, dec_str id, dec_list c12_dec_nv av with
    | Some tn', Some ds', Some id', Some av' => Some (CBlock tn' ds' id' av')
    | _, _, _, _ => None
    end
  | _ => None
  end.

Definition enc_outcome (reg : registry wD wT) (c : @call) (o : @outcome wF N unit) : sexp :=
  match o, c with
  | OAll (Ok (fl, st)), CAll rows => L [L [A 0; enc_list enc_flow fl; A st]; enc_list enc_item (plan reg rows)]
  | OAll (Err e), CAll rows => L [s_err (perr_code e); enc_list enc_item (plan reg rows)]
  | OBlock (Ok ((t, c, st), st')), _ => L [A 0; A t; enc_ctx c; A st; A st']
  | OBlock (Err e), _ => s_err (perr_code e)
  | _, _ => s_badinput
  end.

(* ---- instances that change their values in place (Index/Alias.v) ---- *)
Definition dec_mop (x : sexp) : option mop :=
  match x with
  | L [A 0] => Some MPop | L [A 1] => Some MPop0 | L [A 2] => Some MPopG | L [A 3] => Some MPop0G
  | L [A 4; s] => match dec_str s with Some s' => Some (MAppend s') | None => None end
  | L [A 5; s] => match dec_str s with Some s' => Some (MInsert0 s') | None => None end
  | L [A 6] => Some MReverse | L [A 7] => Some MSort | L [A 8] => Some MSortRev
  | L [A 9; ss] => match dec_list dec_str ss with Some ss' => Some (MExtend ss') | None => None end
  | L [A 10] => Some MClear | L [A 11] => Some MRemoveFirst
  | L [A 12; s] => match dec_str s with Some s' => Some (MSetItem0 s') | None => None end
  | L [A 13] => Some MForPop
  | _ => None
  end.

Definition dec_sel (x : sexp) : option sel :=
  match x with A 0 => Some SelSelf | A 1 => Some SelFirst | A 2 => Some SelLast | _ => None end.

Definition dec_item (x : sexp) : option item :=
  match x with
  | L [A 0; v; s; ops] =>
    match dec_str v, dec_sel s, dec_list dec_mop ops with
    | Some v', Some s', Some ops' => Some (IMsg v' s' ops')
    | _, _, _ => None
    end
  | L [A 1; L [A 0; t]; ops] =>
    match dec_str t, dec_list dec_mop ops with Some t', Some ops' => Some (ILoop (LLit t') ops') | _, _ => None end
  | L [A 1; L [A 1; v]; ops] =>
    match dec_str v, dec_list dec_mop ops with Some v', Some ops' => Some (ILoop (LVar v') ops') | _, _ => None end
  | _ => None
  end.

Definition dec_binding (x : sexp) : option (str * str * nv) :=
  match x with
  | L [n; k; v] => match dec_str n, dec_str k, c12_dec_nv v with
                   | Some n', Some k', Some v' => Some (n', k', v')
                   | _, _, _ => None
                   end
  | _ => None
  end.

Definition dec_ainst (x : sexp) : option minst :=
  match x with
  | L [c; its] => match dec_list dec_binding c, dec_list dec_item its with
                  | Some c', Some its' => Some (mk_minst c' its')
                  | _, _ => None
                  end
  | _ => None
  end.

Definition enc_obs (o : obs) : sexp := L [enc_list enc_nv (o_printed o); enc_nv (o_shown o)].
Definition alias_err_code (e : xerr) : N := match e with XStop => 1 | XUnsupported => 2 | XFuel => 3 end.
Definition enc_ares (r : result xerr (list obs)) : sexp :=
  match r with Ok os => L [A 0; enc_list enc_obs os] | Err e => s_err (alias_err_code e) end.

Definition dispatch_c12 (fn : N) (args : list sexp) : sexp :=
  match fn, args with
  | 1, [ss; defs; av; c] =>
    match dec_sheets ss, dec_list dec_argdef defs, dec_list c12_dec_nv av, dec_ctx c with
    | Some ss', Some defs', Some av', Some c' =>
      match map_template_arguments_to_context ss' defs' av' c' with
      | Ok r => L [A 0; enc_ctx r; enc_bool (too_many_warning (length defs') av')]
      | Err e => s_err (aerr_code e)
      end
    | _, _, _, _ => s_badinput
    end
  | 2, [ts; ss; rows; fail] =>
    match dec_registry ts ss, dec_list dec_cfrow rows, dec_list dec_str fail with
    | Some reg, Some rows', Some fail' =>
      match parse_all_flows (rec_compile fail') reg rows' 0 with
      | Ok (fl, st) => L [A 0; enc_list enc_flow fl; A st]
      | Err e => s_err (perr_code e)
      end
    | _, _, _ => s_badinput
    end
  | 3, [ts; ss; rows] =>
    match dec_registry ts ss, dec_list dec_cfrow rows with
    | Some reg, Some rows' => enc_list enc_item (plan reg rows')
    | _, _ => s_badinput
    end
  | 4, [ts; ss; tn; ds; id; av] =>
    match dec_registry ts ss, dec_str tn, dec_str ds, dec_str id, dec_list c12_dec_nv av with
    | Some reg, Some tn', Some ds', Some id', Some av' => enc_item (prepare_block reg tn' ds' id' av')
    | _, _, _, _, _ => s_badinput
    end
  | 5, [ts; ss; calls; fail] =>
    match dec_registry ts ss, dec_list dec_call calls, dec_list dec_str fail with
    | Some reg, Some cs, Some fail' =>
      let '(reg', outs) := run_calls (rec_compile fail') 0 reg cs in
      enc_list (fun co => enc_outcome reg' (fst co) (snd co)) (combine cs outs)
    | _, _, _ => s_badinput
    end
  | 6, [is] =>
    (* the instances of one run, in one process, under the policy measured on the code *)
    match dec_list dec_ainst is with
    | Some is' => L [L [enc_bool (pol_ctx_private as_coded); enc_bool (pol_lit_fresh as_coded)];
                     enc_list enc_ares (run_all as_coded ps_empty is')]
    | None => s_badinput
    end
  | _, _ => s_badinput
  end.
