(* wire glue for engine 105 (C05: load/render of RapidPro exports) *)
(* WIRE engine=105 fn=dispatch_c05 *)
From Coq Require Import List NArith Bool.
From RPFT Require Import Base.Sexp Base.Result Base.Json Exp.Load Exp.Render.
Import ListNotations.
Local Open Scope N_scope.

Definition enc_err (e : err) : sexp :=
  A (match e with
     | KeyError => 1 | TypeError => 2 | ValueError => 3 | AssertionError => 4
     | AttributeError => 5 | IndexError => 6 | TriggerError => 7
     end).

(* fn 0: probe; fn 1: from_dict(d).render() -> (1 json) | (0 err);
   fn 2: render(load(render(load d))) -> same shape *)
Definition dispatch_c05 (fn : N) (args : list sexp) : sexp :=
  match fn, args with
  | 0, [] => L [A 1]
  | 1, [x] =>
    match dec_json 200 x with
    | Some d => match roundtrip d with
                | Ok j => L [A 1; enc_json j]
                | Err e => L [A 0; enc_err e]
                end
    | None => s_badinput
    end
  | 2, [x] =>
    match dec_json 200 x with
    | Some d => match bind (roundtrip d) roundtrip with
                | Ok j => L [A 1; enc_json j]
                | Err e => L [A 0; enc_err e]
                end
    | None => s_badinput
    end
  | _, _ => s_badinput
  end.
