(* wire glue for C11 (data-sheet operations, engine E5 DataOps) *)
(* WIRE engine=111 fn=dispatch_c11 *)
From Coq Require Import List NArith ZArith Bool.
From RPFT Require Import Base.Sexp Base.PyStr Base.ODict Base.Result Gen.Tables Index.DataOps.
Import ListNotations.
Local Open Scope N_scope.

(* instance: row ids are strings, rows are tokens (N) the harness maps to row dicts,
   keys are integer lists under the lexicographic order *)
Definition wrow := N.
Definition wkey := list Z.

Definition dec_N (x : sexp) : option N := match x with A n => Some n | _ => None end.
Definition dec_Z (x : sexp) : option Z :=
  match x with
  | L [A 0; A n] => Some (Z.of_N n)
  | L [A 1; A n] => Some (Z.opp (Z.of_N n))
  | _ => None
  end.

Fixpoint lookupN {X} (tab : list (N * X)) (t : N) : option X :=
  match tab with
  | [] => None
  | (k, v) :: r => if k =? t then Some v else lookupN r t
  end.

Fixpoint lookupS {X} (tab : list (str * X)) (t : str) : option X :=
  match tab with
  | [] => None
  | (k, v) :: r => if str_eqb k t then Some v else lookupS r t
  end.

Definition pred_of (tab : list (N * N)) (r : wrow) : option bool :=
  match lookupN tab r with
  | Some 0 => Some false
  | Some 1 => Some true
  | _ => None
  end.

Definition key_of (tab : list (N * option wkey)) (r : wrow) : option wkey :=
  match lookupN tab r with
  | Some (Some k) => Some k
  | _ => None
  end.

Definition rid_of (tab : list (N * str)) (r : wrow) : str :=
  match lookupN tab r with Some s => s | None => [] end.

Definition raw_of (tab : list (str * (option (list N) * option (list N)))) (name : str) (explicit : bool)
  : option (list N) :=
  match lookupS tab name with
  | Some (e, i) => if explicit then e else i
  | None => None
  end.

Definition defined_of (l : list str) (m : str) : bool := existsb (str_eqb m) l.

Definition dec_irow (x : sexp) : option (@irow wrow wkey) :=
  match x with
  | L [names; new; dm; op; ptab; ktab; order] =>
    match dec_list dec_str names, dec_str new, dec_str dm, dec_str op,
          dec_list (dec_pair dec_N dec_N) ptab,
          dec_list (dec_pair dec_N (dec_option (dec_list dec_Z))) ktab, dec_str order with
    | Some names, Some new, Some dm, Some op, Some ptab, Some ktab, Some order =>
      Some (mk_irow names new dm op (pred_of ptab) (key_of ktab) order)
    | _, _, _, _, _, _, _ => None
    end
  | _ => None
  end.

Definition enc_mid (m : mid) : sexp :=
  match m with
  | MExplicit s => L [A 0; enc_str s]
  | MInferred n => L [A 1; enc_nat n]
  end.

Definition enc_rows (d : list (str * wrow)) : sexp := enc_list (enc_pair enc_str A) d.

Definition enc_state (st : @state str wrow) : sexp :=
  L [enc_list (fun nd => L [enc_str (fst nd); enc_mid (ds_model (snd nd)); enc_rows (ds_rows (snd nd))]) (reg st);
     enc_nat (next_stamp st)].

Definition derr_code (e : derr) : N :=
  match e with
  | ENoSheetName => 1 | ENoNewName => 2 | EUnknownOp => 3 | ESheetNotFound => 4
  | EUndefinedModel => 5 | EModelMismatch => 6 | EEval => 7
  end.

Definition enc_step_res (r : result derr (@state str wrow)) : sexp :=
  match r with
  | Ok st => L [A 0; enc_state st]
  | Err e => L [A 1; A (derr_code e)]
  end.

Definition enc_rows_res (r : result derr (list (N * wrow))) : sexp :=
  match r with
  | Ok d => L [A 0; enc_list (enc_pair A A) d]
  | Err e => L [A 1; A (derr_code e)]
  end.

Definition dec_env (sheets defined ridtab : sexp) :=
  match dec_list (dec_pair dec_str (dec_pair (dec_option (dec_list dec_N)) (dec_option (dec_list dec_N)))) sheets,
        dec_list dec_str defined, dec_list (dec_pair dec_N dec_str) ridtab with
  | Some s, Some d, Some r => Some (s, d, r)
  | _, _, _ => None
  end.

Definition dec_items (x : sexp) : option (list (N * wrow)) := dec_list (dec_pair dec_N dec_N) x.

Definition dispatch_c11 (fn : N) (args : list sexp) : sexp :=
  match fn, args with
  (* 1: the states after every data_sheet row of an index *)
  | 1, [sheets; defined; ridtab; rows] =>
    match dec_env sheets defined ridtab, dec_list dec_irow rows with
    | Some (s, d, r), Some rows =>
      enc_list enc_step_res
        (scan str_eqb lex_leb (rid_of r) (raw_of s) (defined_of d) rows init_state)
    | _, _ => s_badinput
    end
  (* 2: data_sheets_to_dict of the final state (todict = the token itself) *)
  | 2, [sheets; defined; ridtab; rows] =>
    match dec_env sheets defined ridtab, dec_list dec_irow rows with
    | Some (s, d, r), Some rows =>
      match run str_eqb lex_leb (rid_of r) (raw_of s) (defined_of d) rows init_state with
      | Ok st => L [A 0; enc_list (enc_pair enc_str (enc_list A)) (data_sheets_to_dict (fun t => t) st)]
      | Err e => L [A 1; A (derr_code e)]
      end
    | _, _ => s_badinput
    end
  (* 3..6: the pure operations over plain item lists (ids and rows are numbers) *)
  | 3, [srcs] =>
    match dec_list dec_items srcs with
    | Some srcs => enc_list (enc_pair A A) (concat_rows N.eqb srcs)
    | None => s_badinput
    end
  | 4, [ptab; items] =>
    match dec_list (dec_pair dec_N dec_N) ptab, dec_items items with
    | Some ptab, Some d => enc_rows_res (filter_rows N.eqb (pred_of ptab) d)
    | _, _ => s_badinput
    end
  | 5, [ktab; A desc; items] =>
    match dec_list (dec_pair dec_N (dec_option (dec_list dec_Z))) ktab, dec_items items with
    | Some ktab, Some d => enc_rows_res (sort_rows N.eqb lex_leb (key_of ktab) (negb (desc =? 0)) d)
    | _, _ => s_badinput
    end
  | 6, [items] =>
    match dec_items items with
    | Some d => enc_list (enc_pair A A) (of_items N.eqb d)
    | None => s_badinput
    end
  | 7, [s] =>
    match dec_str s with
    | Some s => enc_bool (is_descending s)
    | None => s_badinput
    end
  | _, _ => s_badinput
  end.
