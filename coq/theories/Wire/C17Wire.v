(* wire glue for C17 / engine E8 ToRows: uuids travel as naturals *)
(* WIRE engine=117 fn=dispatch_c17 *)
From Coq Require Import List NArith Bool.
From RPFT Require Import Base.Sexp Base.PyStr Base.Result Gen.Tables Exp.ToRows.
Import ListNotations.
Local Open Scope N_scope.

Notation UU := N (only parsing).

Definition obind {S T} (o : option S) (g : S -> option T) : option T :=
  match o with Some x => g x | None => None end.
Notation "'ol' x <- a ; b" := (obind a (fun x => b)) (at level 200, x pattern, a at level 100, b at level 200).

Definition dec_u (x : sexp) : option UU := match x with A n => Some n | _ => None end.
Definition dec_ou (x : sexp) : option (option UU) := dec_option dec_u x.
Definition dec_strs (x : sexp) : option (list str) := dec_list dec_str x.
Definition dec_spair (x : sexp) : option (str * str) := dec_pair dec_str dec_str x.

Definition dec_category (x : sexp) : option (category UU) :=
  match x with
  | L [A u; nm; d] => ol nm <- dec_str nm; ol d <- dec_ou d; Some {| c_uuid := u; c_name := nm; c_dest := d |}
  | _ => None
  end.

Definition dec_case (x : sexp) : option (rcase UU) :=
  match x with
  | L [tp; g; args; A cat] =>
    ol tp <- dec_str tp; ol g <- dec_ou g; ol args <- dec_strs args;
    Some {| k_type := tp; k_group := g; k_args := args; k_cat := cat |}
  | _ => None
  end.

Definition dec_router (x : sexp) : option (srouter UU) :=
  match x with
  | L [op; rs; w; cases; cats; dflt; nr] =>
    ol op <- dec_str op; ol rs <- dec_str rs; ol w <- dec_option dec_u w;
    ol cases <- dec_list dec_case cases; ol cats <- dec_list dec_category cats;
    ol dflt <- dec_category dflt; ol nr <- dec_option dec_category nr;
    Some {| sw_operand := op; sw_result := rs; sw_wait := w; sw_cases := cases; sw_cats := cats;
            sw_default := dflt; sw_noresp := nr |}
  | _ => None
  end.

Definition dec_action (x : sexp) : option (action UU) :=
  match x with
  | L [A 0; text; qr; atts; templ] =>
    ol text <- dec_str text; ol qr <- dec_strs qr; ol atts <- dec_strs atts;
    ol templ <- dec_option (fun t => match t with
                                     | L [nm; tu; vars] => ol nm <- dec_str nm; ol tu <- dec_str tu; ol vars <- dec_strs vars; Some (nm, tu, vars)
                                     | _ => None
                                     end) templ;
    Some (ActSendMsg UU text qr atts templ)
  | L [A 1; nm; v] => ol nm <- dec_str nm; ol v <- dec_str v; Some (ActSetField UU nm v)
  | L [A 2; p; v] => ol p <- dec_str p; ol v <- dec_str v; Some (ActSetProp UU p v)
  | L [A 3; add; groups] =>
    ol add <- dec_bool add; ol groups <- dec_list (dec_pair dec_str dec_ou) groups; Some (ActGroups UU add groups)
  | L [A 4; nm; v; c] => ol nm <- dec_str nm; ol v <- dec_str v; ol c <- dec_str c; Some (ActSetResult UU nm v c)
  | L [A 5; p; s] => ol p <- dec_str p; ol s <- dec_str s; Some (ActUrn UU p s)
  | L [A 6; nm; u] => ol nm <- dec_str nm; ol u <- dec_ou u; Some (ActEnterFlow UU nm u)
  | L [A 7; url; m; body; hs; rs] =>
    ol url <- dec_str url; ol m <- dec_str m; ol body <- dec_str body; ol hs <- dec_list dec_spair hs; ol rs <- dec_str rs;
    Some (ActWebhook UU url m body hs rs)
  | L [A 8; am; rs] => ol am <- dec_list dec_spair am; ol rs <- dec_str rs; Some (ActAirtime UU am rs)
  | L [A 9; tp] => ol tp <- dec_str tp; Some (ActOther UU tp)
  | _ => None
  end.

Definition dec_rkind (n : N) : option rkind :=
  match n with 0 => Some KSwitch | 1 => Some KEnterFlow | 2 => Some KWebhook | 3 => Some KAirtime | _ => None end.

Definition dec_nkind (x : sexp) : option (nkind UU) :=
  match x with
  | L [A 0; d] => ol d <- dec_ou d; Some (NBasic UU d)
  | L [A 1; A k; r] => ol k <- dec_rkind k; ol r <- dec_router r; Some (NRouter UU k r)
  | L [A 2; rs; cats] => ol rs <- dec_str rs; ol cats <- dec_list dec_category cats; Some (NRandom UU rs cats)
  | _ => None
  end.

Definition dec_node (x : sexp) : option (node UU) :=
  match x with
  | L [A u; acts; ui; kind] =>
    ol acts <- dec_list dec_action acts; ol ui <- dec_option dec_spair ui; ol kind <- dec_nkind kind;
    Some {| n_uuid := u; n_actions := acts; n_ui := ui; n_kind := kind |}
  | _ => None
  end.

(* ---- encoders *)
Definition enc_upv (v : upv) : sexp :=
  match v with
  | VS s => L [A 1; enc_str s]
  | VL l => L [A 2; enc_list enc_str l]
  | VLL l => L [A 3; enc_list (enc_list enc_str) l]
  end.
Definition enc_pv (v : pv UU) : sexp :=
  match v with PU u => L [A 0; A u] | PV v => enc_upv v end.
Definition enc_cond (c : cond UU) : sexp :=
  L [enc_pv (cd_value c); enc_str (cd_variable c); enc_str (cd_type c); enc_str (cd_name c)].
Definition enc_edge (e : edge UU str) : sexp := L [enc_str (e_from e); enc_cond (e_cond e)].
Definition enc_row (r : row UU str) : sexp :=
  L [enc_str (r_id r); enc_str (r_type r); enc_list enc_edge (r_edges r); enc_list enc_str (r_goto r);
     enc_list (fun fv => L [enc_str (fst fv); enc_pv (snd fv)]) (r_pay r)].

Definition enc_xerr (e : xerr) : sexp :=
  s_err (match e with EFuel => 1 | ECrash => 2 | EInternal => 3 end).
Definition enc_res {T} (g : T -> sexp) (r : res T) : sexp :=
  match r with Ok v => L [A 0; g v] | Err e => enc_xerr e end.

Definition enc_ucells (l : list (str * upv)) : sexp := enc_list (fun hv => L [enc_str (fst hv); enc_upv (snd hv)]) l.

Definition dispatch_c17 (fn : N) (args : list sexp) : sexp :=
  match fn, args with
  | 1, [nb; nodes] =>
    match dec_bool nb, dec_list dec_node nodes with
    | Some nb, Some nodes => enc_res (enc_list enc_row) (@to_rows UU N.eqb nb nodes)
    | _, _ => s_badinput
    end
  | 2, [nb; nodes] =>
    match dec_bool nb, dec_list dec_node nodes with
    | Some nb, Some nodes => enc_res (enc_option (enc_list enc_ucells)) (@export_strip UU N.eqb nb nodes)
    | _, _ => s_badinput
    end
  | 3, [s] => match dec_str s with Some s => enc_str (mangle_string s) | None => s_badinput end
  | 4, [A n] => enc_str (dec_of_N n)
  | 5, [nodes] =>
    match dec_list dec_node nodes with
    | Some nodes => enc_bool (@flow_ok UU nodes)
    | None => s_badinput
    end
  | 6, [nodes] =>
    match dec_list dec_node nodes with
    | Some nodes => enc_bool (@flow_wf UU nodes)
    | None => s_badinput
    end
  | _, _ => s_badinput
  end.
