(* wire glue for C01 (node-uuid validation of FlowParser._compile_flow) *)
(* WIRE engine=101 fn=dispatch_c01 *)
From Coq Require Import List NArith Bool.
From RPFT Require Import Base.Sexp Base.PyStr Gen.Tables Flow.Flow Flow.Closed Flow.NodeIdCheck.
Import ListNotations.
Local Open Scope N_scope.

(* (101 1 (uuid ...)) -> () when the flow passes, ((uuid)) = the uuid the critical error names
   (101 2)            -> does the code have the validation *)
Definition dispatch_c01 (fn : N) (args : list sexp) : sexp :=
  match fn, args with
  | 1, [us] => match dec_list dec_str us with
               | Some l => enc_option enc_str (compile_flow_validation l)
               | None => s_badinput
               end
  | 2, [] => enc_bool compile_checks_node_uuids
  | _, _ => s_badinput
  end.
