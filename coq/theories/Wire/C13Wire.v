(* wire glue for C13: histories of API calls through the hidden-state model *)
(* WIRE engine=113 fn=dispatch_c13 *)
From Coq Require Import List NArith ZArith Bool Arith.
From RPFT Require Import Base.Sexp Base.PyStr Base.Result Gen.Tables Io.Hidden Io.HiddenInventory Io.HiddenOrder.
Import ListNotations.
Local Open Scope N_scope.

Definition dec_strs (x : sexp) : option (list str) := dec_list dec_str x.

Definition dec_cell (x : sexp) : option cell :=
  match x with
  | L [A 0; s] => option_map Lit (dec_str s)
  | L [A 1; s] => option_map Var (dec_str s)
  | _ => None
  end.

Fixpoint dec_frow (fuel : nat) (x : sexp) : option frow :=
  match fuel with
  | O => None
  | S k =>
    match x with
    | L [A 0; n; c] => match dec_str n, dec_cell c with Some n, Some c => Some (FSend n c) | _, _ => None end
    | L [A 1; n; g; i] => match dec_str n, dec_str g, dec_str i with
                          | Some n, Some g, Some i => Some (FGroup n g i) | _, _, _ => None end
    | L [A 2; n; f; i] => match dec_str n, dec_str f, dec_str i with
                          | Some n, Some f, Some i => Some (FEnter n f i) | _, _, _ => None end
    | L [A 3; v; its; body] =>
        match dec_str v, dec_strs its, dec_list (dec_frow k) body with
        | Some v, Some its, Some body => Some (FFor v its body) | _, _, _ => None end
    | L [A 4] => Some FBadRow
    | L [A 5] => Some FCritRow
    | _ => None
    end
  end.

Definition dec_kind (x : sexp) : option irow_kind :=
  match x with
  | L [A 0; s; n] => match dec_str s, dec_str n with Some s, Some n => Some (ICreateFlow s n) | _, _ => None end
  | L [A 1; s] => option_map ITemplateDef (dec_str s)
  | L [A 2; s] => option_map IIgnore (dec_str s)
  | L [A 3] => Some IInvalid
  | _ => None
  end.

Definition dec_irow (x : sexp) : option irow :=
  match x with
  | L [d; t; k] => match dec_bool d, dec_strs t, dec_kind k with
                   | Some d, Some t, Some k => Some (mkI d t k) | _, _, _ => None end
  | _ => None
  end.

Definition dec_wb (x : sexp) : option workbook :=
  match x with
  | L [idx; fl] =>
      match dec_option (dec_list dec_irow) idx,
            dec_list (dec_pair dec_str (dec_list (dec_frow 16))) fl with
      | Some idx, Some fl => Some (mkW idx fl)
      | _, _ => None
      end
  | _ => None
  end.

Definition dec_call (x : sexp) : option call :=
  match x with
  | L [A 0; t; w] => match dec_option dec_strs t, dec_wb w with
                     | Some t, Some w => Some (CCreateFlows t w) | _, _ => None end
  | L [A 1; t; hm; w] => match dec_option dec_strs t, dec_bool hm, dec_wb w with
                         | Some t, Some hm, Some w => Some (CSaveData t hm w) | _, _, _ => None end
  | L [A 2; w] => option_map CParseKeep (dec_wb w)
  | L [A 3; A i] => Some (CRender (N.to_nat i))
  | L [A 4; A i; A j] => Some (CToRows (N.to_nat i) (N.to_nat j))
  | L [A 5; ok] => option_map COpaque (dec_bool ok)
  | _ => None
  end.

Definition enc_uuid (u : uuid) : sexp :=
  match u with Given s => L [A 0; enc_str s] | Fresh n => L [A 1; enc_nat n] end.
Definition enc_act (a : act) : sexp :=
  match a with
  | ASend t => L [A 0; enc_str t]
  | AGroup g u => L [A 1; enc_str g; enc_option enc_uuid u]
  | AEnter f u => L [A 2; enc_str f; enc_option enc_uuid u]
  end.
Definition enc_node (n : uuid * act) : sexp := L [enc_uuid (fst n); enc_act (snd n)].
Definition enc_rendered (r : rendered) : sexp :=
  L [enc_list (fun f => L [enc_str (fst (fst f)); enc_uuid (snd (fst f)); enc_list enc_node (snd f)]) (r_flows r);
     enc_list (fun g => L [enc_str (fst g); enc_option enc_uuid (snd g)]) (r_groups r)].
Definition enc_fail (f : fail) : sexp := A (match f with Crit => 0 | Raise => 1 | OutOfFuel => 2 end).
Definition enc_outcome (o : outcome) : sexp :=
  match o with
  | ORendered r => L [A 0; enc_rendered r]
  | OSaved => L [A 1]
  | OKept => L [A 2]
  | ORows rows => L [A 3; enc_list enc_node rows]
  | ONone => L [A 4]
  | OFail f => L [A 5; enc_fail f]
  end.

Definition oval_eqb (a b : oval) : bool := list_eqb pair_eqb a b.
Definition enc_hidden (h : hidden) : sexp :=
  L [enc_nat (length (h_stack h)); enc_bool (list_eqb oval_eqb (h_slots h) init_slots);
     enc_nat (h_fresh h); enc_nat (length (h_conts h))].

Fixpoint run_trace (h : hidden) (cs : list call) : list sexp :=
  match cs with
  | [] => []
  | c :: r => let (h1, o) := step h c in L [enc_outcome o; enc_hidden h1] :: run_trace h1 r
  end.

Definition dispatch_c13 (fn : N) (args : list sexp) : sexp :=
  match fn, args with
  | 1, [cs] => match dec_list dec_call cs with
               | Some cs => L (run_trace init cs)
               | None => s_badinput
               end
  (* TagMatcher alone: params, tags -> raises? / matches? *)
  | 2, [ps; ts] => match dec_strs ps, dec_strs ts with
                   | Some ps, Some ts => match tm_scan ps None [] with
                                         | Ok p => L [A 1; enc_bool (tm_matches p ts)]
                                         | Err _ => L [A 0]
                                         end
                   | _, _ => s_badinput
                   end
  (* the regenerated-table facts, for the evidence *)
  | 3, [] => L [enc_bool inventory_okb; enc_bool handler_discipline_okb; enc_bool order_sources_okb]
  | _, _ => s_badinput
  end.
