(* wire glue for C19 (campaign and trigger sheets) *)
(* WIRE engine=119 fn=dispatch_c19 *)
From Coq Require Import List NArith ZArith Bool.
From RPFT Require Import Base.Sexp Base.PyStr Base.Result Base.Json Gen.Tables Cell.Cell
  Index.Campaign Index.Trigger Index.CampTrigIndex.
Import ListNotations.
Local Open Scope N_scope.

Definition dec_ostr : sexp -> option (option str) := dec_option dec_str.

Definition dec_camp_raw (x : sexp) : option camp_raw :=
  match dec_list dec_ostr x with
  | Some [a; b; c; d; e; f; g; h; i; j] =>
    Some {| cr_uuid := a; cr_offset := b; cr_unit := c; cr_event_type := d;
            cr_delivery_hour := e; cr_message := f; cr_relative_to := g; cr_start_mode := h;
            cr_flow := i; cr_base_language := j |}
  | _ => None
  end.

Definition dec_trig_raw (x : sexp) : option trig_raw :=
  match dec_list dec_ostr x with
  | Some [a; b; c; d; e; f; g] =>
    Some {| tr_type := a; tr_keywords := b; tr_flow := c; tr_groups := d;
            tr_exclude_groups := e; tr_channel := f; tr_match_type := g |}
  | _ => None
  end.

Definition dec_irow (x : sexp) : option irow :=
  match x with
  | L [A 0; a; b; c] => match dec_str a, dec_str b, dec_str c with
                        | Some a', Some b', Some c' => Some (ICampaign a' b' c')
                        | _, _, _ => None
                        end
  | L [A 1; a] => match dec_str a with Some a' => Some (ITriggers a') | None => None end
  | L [A 2; a] => match dec_str a with Some a' => Some (IIgnore a') | None => None end
  | _ => None
  end.

Definition dec_env (x : sexp) : option env :=
  match x with
  | L [cs; ts] =>
    match dec_list (dec_pair dec_str (dec_list dec_camp_raw)) cs,
          dec_list (dec_pair dec_str (dec_list dec_trig_raw)) ts with
    | Some c, Some t => Some {| camp_sheets := c; trig_sheets := t |}
    | _, _ => None
    end
  | _ => None
  end.

Definition enc_result {T} (f : T -> sexp) (r : result err T) : sexp :=
  match r with Ok v => L [A 0; f v] | Err e => s_err (err_code e) end.

Definition enc_z (z : Z) : sexp := L [A (if Z.ltb z 0 then 1 else 0); A (Z.to_N (Z.abs z))].

Definition enc_enum (o : option (list str)) : sexp := enc_option (enc_list enc_str) o.

Definition enc_fields (l : list (str * (N * (bool * str)))) : sexp :=
  enc_list (fun f => L [enc_str (fst f); A (fst (snd f)); enc_bool (fst (snd (snd f)));
                        enc_str (snd (snd (snd f)))]) l.

(* the regenerated tables, for the harness's generators and oracle *)
Definition enc_tables : sexp :=
  L [ enc_enum unit_enum; enc_enum start_mode_enum; enc_enum event_type_enum;
      enc_enum trigger_type_enum;
      enc_list (fun r => L [enc_str (fst r); enc_enum (snd r)]) match_type_rules;
      enc_z default_delivery_hour; enc_str message_lang_key; enc_str default_base_language;
      enc_list enc_str event_types_needing_message;
      enc_list enc_str event_types_rendering_flow;
      enc_list enc_str event_types_rendering_language;
      enc_list (fun r => L [enc_str (fst r); enc_bool (fst (snd r)); enc_option enc_str (snd (snd r))])
               trigger_kw_rules;
      enc_nat field_key_max_len; L (map A field_key_letters);
      enc_fields camp_fields; enc_fields trig_fields ].

Definition dispatch_c19 (fn : N) (args : list sexp) : sexp :=
  match fn, args with
  | 0, [] => enc_tables
  | 1, [x] => match dec_list dec_camp_raw x with
              | Some raws => enc_result (fun evs => enc_json (JArr (map render_event evs)))
                                        (parse_campaign_sheet raws)
              | None => s_badinput
              end
  | 2, [x] => match dec_list dec_trig_raw x with
              | Some raws => enc_result (fun ts => enc_json (JArr (map render_trigger ts)))
                                        (parse_trigger_sheet raws)
              | None => s_badinput
              end
  | 3, [e; i; k] => match dec_env e, dec_list dec_irow i, dec_list dec_str k with
                    | Some e', Some i', Some k' =>
                      enc_result (fun out => enc_json (render_output out)) (compile e' i' k')
                    | _, _, _ => s_badinput
                    end
  | 4, [s] => match dec_str s with
              | Some s' => enc_result enc_str (generate_field_key s')
              | None => s_badinput
              end
  | 5, [s] => match dec_str s with
              | Some s' => enc_option enc_z (parse_int s')
              | None => s_badinput
              end
  | 6, [s] => match dec_str s with
              | Some s' => enc_result (enc_list enc_str) (list_of_cell s')
              | None => s_badinput
              end
  | _, _ => s_badinput
  end.
