(* wire glue for RowSem (reference meaning of sheets) *)
(* WIRE engine=7 fn=dispatch_rowsem *)
From Coq Require Import List NArith Bool.
From RPFT Require Import Base.Sexp Base.PyStr Base.SexpEq Gen.Tables Flow.Lts Flow.Flow Flow.RowSem.
Import ListNotations.
Local Open Scope N_scope.

Definition no_args_b (t : str) : bool := existsb (str_eqb t) no_args_tests.

Definition dec_from (x : sexp) : option efrom :=
  match x with
  | L [] => Some FBlank
  | L [A 0] => Some FStart
  | L [A 1; s] => match dec_str s with Some v => Some (FRow v) | None => None end
  | _ => None
  end.
Definition dec_edge (x : sexp) : option redge :=
  match x with
  | L [f; v; var; t; n] =>
    match dec_from f, dec_str v, dec_str var, dec_str t, dec_str n with
    | Some f', Some v', Some var', Some t', Some n' => Some (mkEdge f' (mkCond v' var' t' n'))
    | _, _, _, _, _ => None
    end
  | _ => None
  end.
Definition dec_cname (x : sexp) : option cname :=
  match x with
  | L [] => Some CWild
  | L [s] => match dec_str s with Some v => Some (CFixed v) | None => None end
  | _ => None
  end.
Definition dec_cat0 (x : sexp) : option (cname * dest) :=
  match dec_cname x with Some c => Some (c, DNone) | None => None end.
Definition dec_case0 (x : sexp) : option (str * list (option str) * nat) :=
  match x with
  | L [t; a; A i] => match dec_str t, dec_list dec_ostr a with
                     | Some t', Some a' => Some (t', a', N.to_nat i) | _, _ => None end
  | _ => None
  end.
Definition dec_wait0 (x : sexp) : option wait_spec :=
  match x with
  | L [A 0] => Some WNone
  | L [A 1] => Some WMsg
  | L [A 2; A s] => Some (WTimeout s [])
  | _ => None
  end.
(* (random operand wait result (cases) (cats) default noresp) *)
Definition dec_dec0 (x : sexp) : option rdec :=
  match x with
  | L [rnd; op; w; rn; cases; cats; d; nr] =>
    match dec_bool rnd, dec_str op, dec_wait0 w, dec_ostr rn, dec_list dec_case0 cases,
          dec_list dec_cat0 cats, dec_cat0 d, dec_option dec_cat0 nr with
    | Some rnd', Some op', Some w', Some rn', Some cases', Some cats', Some d', Some nr' =>
      Some (mkDec rnd' op' w' rn' cases' cats' d' nr')
    | _, _, _, _, _, _, _, _ => None
    end
  | _ => None
  end.
Definition dec_eclass (n : N) : option eclass :=
  match n with
  | 0 => Some EAction | 1 => Some EWait | 2 => Some ESplit | 3 => Some EGroup
  | 4 => Some ERandom | 5 => Some EFlow | 6 => Some EOutcome | _ => None
  end.
Definition dec_rtype (x : sexp) : option rtype :=
  match x with
  | L [A 0; A c; L acts; d] =>
    match dec_eclass c, dec_option dec_dec0 d with
    | Some c', Some d' => Some (TNode c' acts d') | _, _ => None end
  | L [A 1; tg] => match dec_list dec_str tg with Some t => Some (TGoto t) | None => None end
  | L [A 2] => Some TNoOp
  | L [A 3] => Some THard
  | L [A 4] => Some TLoose
  | L [A 5] => Some TBeginBlock
  | L [A 6] => Some TEndBlock
  | _ => None
  end.
Definition dec_row (x : sexp) : option row :=
  match x with
  | L [t; rid; nn; es] =>
    match dec_rtype t, dec_str rid, dec_str nn, dec_list dec_edge es with
    | Some t', Some rid', Some nn', Some es' => Some (mkRow t' rid' nn' es') | _, _, _, _ => None end
  | _ => None
  end.

(* encoding of a flow (for diagnostics on the Python side) *)
Definition enc_exit (e : exit_) : sexp := L [enc_str (e_uuid e); enc_ostr (e_dest e)].
Definition enc_cat (c : category) : sexp := L [enc_str (c_uuid c); enc_str (c_name c); enc_str (c_exit c)].
Definition enc_case (k : case_) : sexp :=
  L [enc_str (k_uuid k); enc_str (k_type k); L (map enc_ostr (k_args k)); enc_str (k_cat k)].
Definition enc_wait (w : wait_spec) : sexp :=
  match w with WNone => L [A 0] | WMsg => L [A 1] | WTimeout s c => L [A 2; A s; enc_str c] end.
Definition enc_router (r : router) : sexp :=
  match r with
  | RSwitch op cases cats d w rn =>
    L [A 1; enc_str op; L (map enc_case cases); L (map enc_cat cats); enc_str d; enc_wait w; enc_ostr rn]
  | RRandom cats rn => L [A 2; L (map enc_cat cats); enc_ostr rn]
  end.
Definition enc_node (n : node) : sexp :=
  L [enc_str (n_uuid n); L (map (fun a => L [enc_str (fst a); snd a]) (n_actions n));
     L (map enc_exit (n_exits n)); enc_option enc_router (n_router n)].
Definition enc_flow (f : flow) : sexp := L [enc_str (f_uuid f); enc_str (f_name f); L (map enc_node (f_nodes f))].

Definition ref_vs (ref g : flow) : bool :=
  sim_check smatch ref g && sim_check (fun a b => smatch b a) g ref.

Definition dispatch_rowsem (fn : N) (args : list sexp) : sexp :=
  match fn, args with
  | 1, [rows] =>                       (* the reference flow of a sheet *)
    match dec_list dec_row rows with
    | Some rs => enc_option enc_flow (rowsem no_args_b rs)
    | None => s_badinput
    end
  | 2, [rows; g] =>                    (* 0 = sheet outside the reference domain; 1 = equivalent; 2 = differs *)
    match dec_list dec_row rows, dec_flow g with
    | Some rs, Some g' =>
      match rowsem no_args_b rs with
      | None => A 0
      | Some ref => if ref_vs ref g' then A 1 else A 2
      end
    | _, _ => s_badinput
    end
  | _, _ => s_badinput
  end.
