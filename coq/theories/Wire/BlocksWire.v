(* wire glue for the block-mechanics model (Comp/Blocks.v) *)
(* WIRE engine=8 fn=dispatch_blocks *)
From Coq Require Import List NArith Bool.
From RPFT Require Import Base.Sexp Base.PyStr Gen.Tables Comp.Blocks.
Import ListNotations.
Local Open Scope N_scope.

Definition dec_seg (x : sexp) : option seg :=
  match x with
  | L [A 0; s] => match dec_str s with Some v => Some (Lit v) | None => None end
  | L [A 1; s] => match dec_str s with Some v => Some (Ref v) | None => None end
  | _ => None
  end.
Definition dec_kind (n : N) : option rkind :=
  match n with 0 => Some KBeginFor | 1 => Some KEndFor | 2 => Some KBeginBlock | 3 => Some KEndBlock | 4 => Some KPlain | _ => None end.
Definition dec_incl (x : sexp) : option incl :=
  match x with
  | L [A 0] => Some IncTrue
  | L [A 1] => Some IncFalse
  | L [A 2; s] => match dec_str s with Some v => Some (IncRef v) | None => None end
  | L [A 3; s; A pos; w] => match dec_str s, dec_str w with
                            | Some v, Some w' => Some (IncCmp v (negb (N.eqb pos 0)) w')
                            | _, _ => None
                            end
  | _ => None
  end.
Definition dec_iter (x : sexp) : option iterspec :=
  match x with
  | L [A 0; l] => match dec_list dec_str l with Some v => Some (ILit v) | None => None end
  | L [A 1; s] => match dec_str s with Some v => Some (IRef v) | None => None end
  | _ => None
  end.
Definition dec_raw (x : sexp) : option raw :=
  match x with
  | L [A k; inc; id; text; vars; it] =>
    match dec_kind k, dec_incl inc, dec_list dec_seg id, dec_list dec_seg text, dec_list dec_str vars, dec_iter it with
    | Some k', Some inc', Some id', Some text', Some vars', Some it' => Some (mkRaw k' inc' id' text' vars' it')
    | _, _, _, _, _, _ => None
    end
  | _ => None
  end.
Definition dec_value (x : sexp) : option value :=
  match x with
  | L [A 0; s] => match dec_str s with Some v => Some (VS v) | None => None end
  | L [A 1; l] => match dec_list dec_str l with Some v => Some (VL v) | None => None end
  | L [A 2; A n] => Some (VI (N.to_nat n))
  | _ => None
  end.
Definition dec_ctx (x : sexp) : option ctx := dec_list (dec_pair dec_str dec_value) x.

Definition enc_bt (b : btype) : sexp := A (match b with BRoot => 0 | BFor => 1 | BBlock => 2 end).
Definition enc_event (e : event) : sexp :=
  match e with
  | EvInst p => L [A 0; enc_nat p]
  | EvRow i t => L [A 1; enc_str i; enc_str t]
  | EvEnter b o => L [A 2; enc_bt b; enc_bool o]
  | EvEnd i => L [A 3; enc_str i]
  | EvPush => L [A 4]
  end.
Definition enc_value (v : value) : sexp :=
  match v with VS s => L [A 0; enc_str s] | VL l => L [A 1; L (map enc_str l)] | VI n => L [A 2; enc_nat n] end.
Definition enc_err (e : err) : N :=
  match e with Unterminated => 1 | WrongTerminator => 2 | NoLoopVar => 3 | KeyErr => 4 | Undefined => 5 | NotAList => 6 | OutOfFuel => 7 end.

Definition dec_policy (n : N) : undefined_policy := match n with 1 => Strict | 2 => Lenient | _ => env_undefined_policy end.

Definition enc_scope (s : loop_scope) : sexp := A (match s with ScopePop => 0 | ScopeRestore => 1 end).
Definition enc_empty (e : empty_loop) : sexp := A (match e with EmptyFallThrough => 0 | EmptySkip => 1 end).

Definition dispatch_blocks (fn : N) (args : list sexp) : sexp :=
  match fn, args with
  | 0, [] =>                              (* what the probes of this run say the code does *)
    L [enc_scope loop_scope_policy; enc_empty empty_loop_policy; enc_bool remove_tolerant]
  | 1, [A pol; A fuel; rows; c] =>        (* pol 0 = the policy the code configures (Tables) *)
    match dec_list dec_raw rows, dec_ctx c with
    | Some rs, Some c' =>
      match parse_block (dec_policy pol) loop_scope_policy empty_loop_policy remove_tolerant rs (N.to_nat fuel) (mkP 0 c' []) BRoot false with
      | ROk s => L [A 0; L (map enc_event (rev (p_log s)));
                    L (map (fun kv => L [enc_str (fst kv); enc_value (snd kv)]) (p_ctx s))]
      | RErr e => L [A 1; A (enc_err e)]
      end
    | _, _ => s_badinput
    end
  | _, _ => s_badinput
  end.
