(* wire glue for C16 (mini-Jinja, cell entry points, row loop) *)
(* WIRE engine=116 fn=dispatch_c16 *)
From Coq Require Import List NArith ZArith Bool.
From RPFT Require Import Base.Sexp Base.PyStr Base.Result Gen.Tables Cell.Cell Tmpl.MiniJinja Tmpl.RowLoop Tmpl.Insert Tmpl.CellHistory.
Import ListNotations.
Local Open Scope N_scope.

Definition dec_Z (sg n : N) : Z := if sg =? 1 then Z.opp (Z.of_N n) else Z.of_N n.
Definition enc_Z (z : Z) : list sexp := [A (if Z.ltb z 0 then 1 else 0); A (Z.to_N (Z.abs z))].

(* values: (0) None, (1 b) bool, (2 sg abs) int, (3 str) str, (4 (..)) list, (5 ((k v)..)) dict,
   (6 sg abs) range, (7) Undefined, (8 (..)) tuple *)
Fixpoint enc_value (v : value) : sexp :=
  match v with
  | VNone => L [A 0]
  | VBool b => L [A 1; enc_bool b]
  | VInt z => L (A 2 :: enc_Z z)
  | VStr s => L [A 3; enc_str s]
  | VList l => L [A 4; L (map enc_value l)]
  | VDict d => L [A 5; L (map (fun kv => L [enc_str (fst kv); enc_value (snd kv)]) d)]
  | VRange n => L (A 6 :: enc_Z n)
  | VUndef => L [A 7]
  | VTuple l => L [A 8; L (map enc_value l)]
  end.

Fixpoint dec_value (fuel : nat) (x : sexp) : option value :=
  match fuel with
  | O => None
  | S f =>
    match x with
    | L [A 0] => Some VNone
    | L [A 1; b] => option_map VBool (dec_bool b)
    | L [A 2; A sg; A n] => Some (VInt (dec_Z sg n))
    | L [A 3; s] => option_map VStr (dec_str s)
    | L [A 4; L l] => option_map VList (dec_list_aux (dec_value f) l)
    | L [A 5; L l] =>
      option_map VDict
        (dec_list_aux (fun kv => match kv with
                                 | L [k; v] => match dec_str k, dec_value f v with
                                               | Some k', Some v' => Some (k', v')
                                               | _, _ => None
                                               end
                                 | _ => None
                                 end) l)
    | L [A 6; A sg; A n] => Some (VRange (dec_Z sg n))
    | L [A 7] => Some VUndef
    | L [A 8; L l] => option_map VTuple (dec_list_aux (dec_value f) l)
    | _ => None
    end
  end.

Definition dec_ctx (x : sexp) : option ctx :=
  match dec_value 32 (L [A 5; x]) with Some (VDict d) => Some d | _ => None end.

Fixpoint dec_expr (fuel : nat) (x : sexp) : option expr :=
  match fuel with
  | O => None
  | S f =>
    let d2 (k : expr -> expr -> expr) (a b : sexp) :=
      match dec_expr f a, dec_expr f b with Some u, Some v => Some (k u v) | _, _ => None end in
    match x with
    | L [A 0; s] => option_map EVar (dec_str s)
    | L [A 1; a; s] => match dec_expr f a, dec_str s with Some u, Some t => Some (EAttr u t) | _, _ => None end
    | L [A 2; a; b] => d2 EIndex a b
    | L [A 3; s] => option_map EStr (dec_str s)
    | L [A 4; A sg; A n] => Some (EInt (dec_Z sg n))
    | L [A 5; b] => option_map EBool (dec_bool b)
    | L [A 6] => Some ENone
    | L [A 7; a; b] => d2 EEq a b
    | L [A 8; a; b] => d2 ENe a b
    | L [A 9; a] => option_map ENot (dec_expr f a)
    | L [A 10; a; b] => d2 EAnd a b
    | L [A 11; a; b] => d2 EOr a b
    | L [A 12; a] => option_map ERange (dec_expr f a)
    | L [A 13; L l] => option_map EList (dec_list_aux (dec_expr f) l)
    | L [A 14; L l] => option_map ETuple (dec_list_aux (dec_expr f) l)
    | L [A 15; L l] =>
      option_map EDict
        (dec_list_aux (fun kv => match kv with
                                 | L [k; v] => match dec_str k, dec_expr f v with
                                               | Some k', Some v' => Some (k', v')
                                               | _, _ => None
                                               end
                                 | _ => None
                                 end) l)
    | _ => None
    end
  end.

Fixpoint dec_node (fuel : nat) (x : sexp) : option node :=
  match fuel with
  | O => None
  | S f =>
    match x with
    | L [A 0; s] => option_map NText (dec_str s)
    | L [A 1; e] => option_map NOut (dec_expr 32 e)
    | L [A 2; e] => option_map NOutEsc (dec_expr 32 e)
    | L [A 3; c; L a; L b] =>
      match dec_expr 32 c, dec_list_aux (dec_node f) a, dec_list_aux (dec_node f) b with
      | Some c', Some a', Some b' => Some (NIf c' a' b')
      | _, _, _ => None
      end
    | L [A 4; v; e; L body] =>
      match dec_str v, dec_expr 32 e, dec_list_aux (dec_node f) body with
      | Some v', Some e', Some b' => Some (NFor v' e' b')
      | _, _, _ => None
      end
    | _ => None
    end
  end.

(* cells: (0 (nodes)) text template, (1 expr) native *)
Definition dec_cell (x : sexp) : option cell :=
  match x with
  | L [A 0; L l] => option_map CTmpl (dec_list_aux (dec_node 16) l)
  | L [A 1; e] => option_map CNative (dec_expr 32 e)
  | _ => None
  end.

Definition terr_code (e : terr) : N :=
  match e with
  | EUndefined => 1 | ETypeErr => 2 | ENested => 3 | EKey => 4 | EBlock => 5 | EEmpty => 6
  | EUnsupported => 90 | EFuel => 91
  end.

Definition enc_pres (r : result terr pres) : sexp :=
  match r with
  | Err e => s_err (terr_code e)
  | Ok (PStr s) => L [A 0; enc_str s]
  | Ok (PObj v) => L [A 1; enc_value v]
  | Ok (PNv v) => L [A 2; enc_nv v]
  end.

Definition enc_policy (p : undefined_policy) : sexp := A (match p with Strict => 0 | Lenient => 1 end).

Definition policies (sel : N) : undefined_policy * undefined_policy :=
  match sel with
  | 1 => (Strict, Strict)
  | 2 => (Lenient, Lenient)
  | 3 => (Strict, Lenient)
  | 4 => (Lenient, Strict)
  | _ => (env_undefined_policy, native_undefined_policy)
  end.

(* fn 3: the cell entry points under EXPLICIT flags (0/1 each), policies by sel as above *)
Definition flags_of (rf nrf nc : N) : uflags := mk_uflags (rf =? 1) (nrf =? 1) (nc =? 1).

Definition dec_octx (x : sexp) : option (option ctx) :=
  match x with
  | L [] => Some None
  | L [c] => option_map Some (dec_ctx c)
  | _ => None
  end.

(* rows of the loop model: (kind var include_if_cell main_cell), kind 0 plain, 1 begin_for,
   2 end_for, 3 begin_block, 4 end_block *)
Definition dec_srow (x : sexp) : option srow :=
  match x with
  | L [A k; v; inc; main] =>
    match dec_str v, dec_cell inc, dec_cell main with
    | Some v', Some i', Some m' =>
      let kind := match k with
                  | 1 => Some (KBeginFor v') | 2 => Some KEndFor | 3 => Some KBeginBlock
                  | 4 => Some KEndBlock | 0 => Some KPlain | _ => None
                  end in
      option_map (fun kd => mk_srow kd i' m') kind
    | _, _, _ => None
    end
  | _ => None
  end.

Definition enc_event (e : event) : sexp :=
  match e with
  | EvRow i templ => L [A 0; enc_nat i; enc_bool templ]
  | EvRender s => L [A 1; enc_str s]
  | EvEmit s => L [A 2; enc_str s]
  end.

(* books (Insert.v): seg = (0 (rows)) | (1 inc name arg); template = (name () | (argname) (segs)) *)
Definition dec_seg (x : sexp) : option seg :=
  match x with
  | L [A 0; L rows] => option_map SRows (dec_list_aux dec_srow rows)
  | L [A 1; inc; n; arg] =>
    match dec_cell inc, dec_str n, dec_cell arg with
    | Some i', Some n', Some a' => Some (SInsert i' n' a')
    | _, _, _ => None
    end
  | _ => None
  end.

Definition dec_template (x : sexp) : option (str * template) :=
  match x with
  | L [n; L a; L segs] =>
    match dec_str n, dec_list_aux dec_seg segs with
    | Some n', Some sg =>
      match a with
      | [] => Some (n', mk_template sg None)
      | [an] => option_map (fun an' => (n', mk_template sg (Some an'))) (dec_str an)
      | _ => None
      end
    | _, _ => None
    end
  | _ => None
  end.

Definition enc_seg_texts (sg : seg) : sexp :=
  match sg with
  | SRows rs => L [A 0; L (map (fun r => L [enc_str (show_cell (r_inc r)); enc_str (show_cell (r_main r))]) rs)]
  | SInsert inc n arg => L [A 1; enc_str (show_cell inc); enc_str (show_cell arg)]
  end.

Definition dec_cp_call (x : sexp) : option cp_call :=
  match x with
  | L [oc; c; A mode] =>
    match dec_octx oc, dec_cell c with
    | Some octx, Some cl => Some (mk_cp_call octx cl (negb (mode =? 0)))
    | _, _ => None
    end
  | _ => None
  end.

Definition dispatch_c16 (fn : N) (args : list sexp) : sexp :=
  match fn, args with
  | 0, [] => L [enc_policy env_undefined_policy; enc_policy native_undefined_policy;
                enc_bool env_repr_fails; enc_bool native_repr_fails; enc_bool native_result_checked]
  | 3, [A sel; A rf; A nrf; A nc; oc; c; A mode] =>
    match dec_octx oc, dec_cell c with
    | Some octx, Some cl =>
      let '(pe, pn) := policies sel in
      let fl := flags_of rf nrf nc in
      L [enc_str (show_cell cl);
         enc_pres (if mode =? 0 then parse_as_string_f fl pe pn octx cl else parse_f fl pe pn octx cl)]
    | _, _ => s_badinput
    end
  | 1, [A sel; oc; c; A mode] =>
    match dec_octx oc, dec_cell c with
    | Some octx, Some cl =>
      let '(pe, pn) := policies sel in
      L [enc_str (show_cell cl);
         enc_pres (if mode =? 0 then parse_as_string_m pe pn octx cl else parse_m pe pn octx cl)]
    | _, _ => s_badinput
    end
  | 2, [A sel; c; L rows] =>
    match dec_ctx c, dec_list_aux dec_srow rows with
    | Some cx, Some rs =>
      let '(pe, pn) := policies sel in
      let '(log, r) := run_sheet pe pn rs cx in
      L [L (map enc_event log);
         match r with Ok _ => L [A 0] | Err e => s_err (terr_code e) end;
         L (map (fun r => L [enc_str (show_cell (r_inc r)); enc_str (show_cell (r_main r))]) rs)]
    | _, _ => s_badinput
    end
  | 4, [A sel; c; L templates; L main] =>
    match dec_ctx c, dec_list_aux dec_template templates, dec_list_aux dec_seg main with
    | Some cx, Some bk, Some mn =>
      let '(pe, pn) := policies sel in
      let '(log, r) := run_book pe pn bk mn cx in
      L [L (map enc_event log);
         match r with Ok _ => L [A 0] | Err e => s_err (terr_code e) end;
         L (map (fun nt => L (map enc_seg_texts (t_sheet (snd nt)))) bk ++ [L (map enc_seg_texts mn)])]
    | _, _, _ => s_badinput
    end
  | 5, [A sel; L calls] =>
    (* a history of cells on one CellParser (CellHistory.cp_run) *)
    match dec_list_aux dec_cp_call calls with
    | Some cs =>
      let '(pe, pn) := policies sel in
      let '(_, outs) := cp_run (mk_cp pe pn) cs in
      L (map (fun co => L [enc_str (show_cell (cc_cell (fst co))); enc_pres (snd co)]) (combine cs outs))
    | None => s_badinput
    end
  | _, _ => s_badinput
  end.
