(* wire glue for engine 1 (cell codec) *)
(* WIRE engine=1 fn=dispatch_cell *)
From Coq Require Import List NArith Bool.
From RPFT Require Import Base.Sexp Base.PyStr Gen.Tables Cell.Cell Cell.CellFacts.
Import ListNotations.
Local Open Scope N_scope.

Definition with_str (x : sexp) (f : str -> sexp) : sexp :=
  match dec_str x with Some s => f s | None => s_badinput end.
Definition with_nv (x : sexp) (f : nv -> sexp) : sexp :=
  match dec_nv 16 x with Some v => f v | None => s_badinput end.

Definition dispatch_cell (fn : N) (args : list sexp) : sexp :=
  match fn, args with
  | 1, [s; A i] => with_str s (fun s => enc_split_res (split_by_separator s (if i =? 0 then sep0 else sep1)))
  | 2, [s] => with_str s (fun s => enc_nv (split_into_lists s))
  | 3, [s] => with_str s (fun s => enc_str (cleanse_str s))
  | 4, [s] => with_str s (fun s => enc_str (escape_string s))
  | 5, [v] => with_nv v (fun v => enc_option enc_str (join_from_lists 0 v))
  | 6, [v] => with_nv v (fun v => enc_bool (wfb v))
  | 7, [v] => with_nv v (fun v => enc_nv (trim v))
  | 8, [s] => with_str s (fun s => enc_str (strip s))
  | 9, [s] => with_str s (fun s => enc_str (escape s))
  | 10, [] => enc_option (fun c => A c) cleanse_tmp
  | 11, [v] => with_nv v (fun v => enc_bool (shape_ok v))
  | 12, [s] => with_str s (fun s => enc_str (unescape s))
  | _, _ => s_badinput
  end.
