(* wire glue for C08's session engine: a HISTORY of calls on one CellParser object, run through the
   state machine of Cell/CellSession.v *)
(* WIRE engine=108 fn=dispatch_c08 *)
From Coq Require Import List NArith ZArith Bool.
From RPFT Require Import Base.Sexp Base.PyStr Base.Result Gen.Tables Cell.Cell Tmpl.MiniJinja
  Cell.CellSession Wire.C16Wire.
Import ListNotations.
Local Open Scope N_scope.

(* ops: (0 mode octx cell)  mode 0 = parse_as_string, 1 = parse ; octx as in C16Wire.dec_octx ; cell as dec_cell
        (1 mode)            value None
        (2 s) split_into_lists   (3 s i) split_by_separator, i = 0/1   (4 s) cleanse
        (5 v) join_from_lists    (6 s) escape_string *)
Definition dec_op (x : sexp) : option cp_op :=
  match x with
  | L [A 0; A mode; oc; c] =>
    match dec_octx oc, dec_cell c with
    | Some octx, Some cl => Some (if mode =? 0 then OpParseAsString octx cl else OpParse octx cl)
    | _, _ => None
    end
  | L [A 1; A mode] => Some (OpParseNone (mode =? 0))
  | L [A 2; s] => option_map OpSplit (dec_str s)
  | L [A 3; s; A i] => option_map (fun t => OpSplitBy t (negb (i =? 0))) (dec_str s)
  | L [A 4; s] => option_map OpCleanse (dec_str s)
  | L [A 5; v] => option_map OpJoin (dec_nv 16 v)
  | L [A 6; s] => option_map OpEscape (dec_str s)
  | _ => None
  end.

Definition enc_res (r : cp_res) : sexp :=
  match r with
  | RCell p => L [A 0; enc_pres p]
  | RSplit p => L [A 1; enc_split_res p]
  | RStr s => L [A 2; enc_str s]
  | RNv v => L [A 3; enc_nv v]
  | RJoin o => L [A 4; enc_option enc_str o]
  end.

(* the text of the cell an op hands to the implementation (empty for the other ops) *)
Definition op_text (op : cp_op) : sexp :=
  match op with
  | OpParse _ c | OpParseAsString _ c => enc_str (show_cell c)
  | _ => L []
  end.

Definition dispatch_c08 (fn : N) (args : list sexp) : sexp :=
  match fn, args with
  (* 1: a history on a new object -> ((text result) ...), and whether the state is what it was *)
  | 1, [L ops] =>
    match dec_list_aux dec_op ops with
    | Some os =>
      let (st, rs) := cp_run cp_init os in
      L [L (map (fun p => L [op_text (fst p); enc_res (snd p)]) (combine os rs));
         enc_policy (cp_env st); enc_policy (cp_native st)]
    | None => s_badinput
    end
  (* 2: the texts only (the printer lives in the model) *)
  | 2, [L ops] =>
    match dec_list_aux dec_op ops with
    | Some os => L (map op_text os)
    | None => s_badinput
    end
  | _, _ => s_badinput
  end.
