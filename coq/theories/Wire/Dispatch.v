(* top-level dispatcher of the extracted model: (engine fn args...) -> result *)
From Coq Require Import List NArith Bool.
From RPFT Require Import Base.Sexp Wire.CellWire.
Import ListNotations.
Local Open Scope N_scope.

Definition dispatch (x : sexp) : sexp :=
  match x with
  | L (A 1 :: A fn :: args) => dispatch_cell fn args
  | _ => s_badinput
  end.
