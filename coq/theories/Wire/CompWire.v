(* wire glue for the compiler model (Comp/Compile.v) *)
(* WIRE engine=120 fn=dispatch_comp *)
From Coq Require Import List NArith Bool.
From RPFT Require Import Base.Sexp Base.PyStr Base.Result Gen.Tables Flow.Flow Flow.Closed Flow.RowSem
     Comp.Compile Comp.Refine Wire.RowSemWire.
Import ListNotations.
Local Open Scope N_scope.

(* the executable uuid supply: Compile.std_fresh k = [1114112 + k] *)
Definition wire_fresh : nat -> id := std_fresh.

Definition dec_nkind (x : sexp) : option nkind :=
  match x with
  | L [A 0] => Some KBasic2
  | L [A 1] => Some KBasic1
  | L [A 2; A t; sv] => match dec_str sv with Some s => Some (KWait t s) | None => None end
  | L [A 3; op; sv] => match dec_str op, dec_str sv with Some o, Some s => Some (KSplitValue o s) | _, _ => None end
  | L [A 4; sv] => match dec_str sv with Some s => Some (KSplitGroup s) | None => None end
  | L [A 5; sv] => match dec_str sv with Some s => Some (KRandom s) | None => None end
  | L [A 6; nm] => match dec_str nm with Some s => Some (KEnterFlow s) | None => None end
  | L [A 7; sv] => match dec_str sv with Some s => Some (KWebhook s) | None => None end
  | L [A 8; sv] => match dec_str sv with Some s => Some (KAirtime s) | None => None end
  | _ => None
  end.

Definition dec_crow (x : sexp) : option crow :=
  match x with
  | L [r; k; u] => match dec_row r, dec_nkind k, dec_str u with
                   | Some r', Some k', Some u' => Some (mkCRow r' k' u') | _, _, _ => None end
  | _ => None
  end.

Definition crash_code (k : crash) : N :=
  match k with CKeyError => 1 | CIndexError => 2 | CAttributeError => 3 | CValueError => 4 | CActionError => 5 end.
Definition enc_cerr (e : cerr) : sexp :=
  match e with
  | EBlockCond => L [A 1] | EBlockNoLoose => L [A 2] | ENoOpEntry => L [A 3] | ENoOpNoVariable => L [A 4]
  | EDefaultExit => L [A 5] | EFromMissing => L [A 6] | EGotoCount => L [A 7] | EMergeSource => L [A 8]
  | EMergeEdges => L [A 9] | EUnterminated => L [A 10] | EWrongTerminator => L [A 11] | EUnexpectedEnd => L [A 12]
  | ECatNameTooLong => L [A 13] | EDupNodeUuid u => L [A 14; enc_str u] | ECrash k => L [A 15; A (crash_code k)]
  | EInternal => L [A 16] | EOutOfFuel => L [A 17] | ECatNameTaken => L [A 18]
  end.

(* (120 1 name rows) -> (0 flow) | (1 err)
   (120 2 name rows) -> (0 closed?) | (1 err)        flow_closedb of the compiled flow *)
Definition dispatch_comp (fn : N) (args : list sexp) : sexp :=
  match fn, args with
  | 1, [nm; rows] =>
    match dec_str nm, dec_list dec_crow rows with
    | Some n, Some rs =>
      match compile wire_fresh n rs with
      | Ok f => L [A 0; enc_flow f]
      | Err e => L [A 1; enc_cerr e]
      end
    | _, _ => s_badinput
    end
  | 2, [nm; rows] =>
    match dec_str nm, dec_list dec_crow rows with
    | Some n, Some rs =>
      match compile wire_fresh n rs with
      | Ok f => L [A 0; enc_bool (flow_closedb f)]
      | Err e => L [A 1; enc_cerr e]
      end
    | _, _ => s_badinput
    end
  | 3, [nm; rows] =>
    (* the refinement statement on one sheet: (in the fragment?  compiles?  has a reference meaning?  the verified
       checker accepts the pair?) *)
    match dec_str nm, dec_list dec_crow rows with
    | Some n, Some rs =>
      let c := compile wire_fresh n rs in
      let r := rowsem nab (map cr_row rs) in
      L [enc_bool (fragb rs); enc_bool (is_ok c); enc_bool (match r with Some _ => true | None => false end);
         match c, r with Ok f, Some ref => enc_bool (ref_vs ref f) | _, _ => A 2 end]
    | _, _ => s_badinput
    end
  | _, _ => s_badinput
  end.
