(* wire glue for engine 6 (flow semantics, verified checkers) *)
(* WIRE engine=6 fn=dispatch_flow *)
From Coq Require Import List NArith Bool.
From RPFT Require Import Base.Sexp Base.SexpEq Flow.Lts Flow.Flow Flow.Closed.
Import ListNotations.
Local Open Scope N_scope.

Definition dispatch_flow (fn : N) (args : list sexp) : sexp :=
  match fn, args with
  | 1, [g; d] =>
    match dec_list dec_str g, dec_list dec_flow d with
    | Some g', Some d' => L [enc_bool (closedb g' d'); A (closed_diag g' d')]
    | _, _ => s_badinput
    end
  | 2, [f; g] =>
    match dec_flow f, dec_flow g with
    | Some f', Some g' => enc_bool (bisim_check f' g')
    | _, _ => s_badinput
    end
  | 3, [f; g] =>   (* f may contain wildcards (reference side) *)
    match dec_flow f, dec_flow g with
    | Some f', Some g' => enc_bool (sim_check smatch f' g' && sim_check (fun a b => smatch b a) g' f')
    | _, _ => s_badinput
    end
  | _, _ => s_badinput
  end.
